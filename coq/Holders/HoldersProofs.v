(* Generic lemmas for the holder models: variable lists, simulation of [run], symbolic execution of
   event logs over a pointwise description of the live set. *)
From Coq Require Import List NArith Arith Bool Lia.
From FV Require Import Common.EventLog Holders.HoldersCommon.
Import ListNotations.

(* ------------------------------------------------------------------ variable lists *)
Section VarsLemmas.
Context {A : Type}.
Implicit Types (vs : vars A) (c : cell A).

Lemma live_at_Some vs i h : live_at vs i = Some h -> nth_error vs i = Some (Live h).
Proof. unfold live_at. destruct (nth_error vs i) as [[|x]|]; congruence. Qed.
Lemma dead_at_true vs i : dead_at vs i = true -> nth_error vs i = Some Dead.
Proof. unfold dead_at. destruct (nth_error vs i) as [[|x]|]; congruence. Qed.
Lemma dead_live vs i : dead_at vs i = true -> live_at vs i = None.
Proof. intros H. apply dead_at_true in H. unfold live_at. now rewrite H. Qed.
Lemma nth_lt vs i c : nth_error vs i = Some c -> i < length vs.
Proof. intros H. apply nth_error_Some. congruence. Qed.

Lemma wr_length vs i c : length (wr vs i c) = length vs.
Proof. revert i; induction vs as [|x r IH]; intros [|i]; simpl; auto. Qed.
Lemma nth_wr_same vs i c : i < length vs -> nth_error (wr vs i c) i = Some c.
Proof. revert i; induction vs as [|x r IH]; intros [|i]; simpl; intros; try lia; auto. apply IH; lia. Qed.
Lemma nth_wr_other vs i j c : i <> j -> nth_error (wr vs i c) j = nth_error vs j.
Proof. revert i j; induction vs as [|x r IH]; intros [|i] [|j]; simpl; intros; try congruence; auto. Qed.
Lemma wr_same vs i c : nth_error vs i = Some c -> wr vs i c = vs.
Proof. revert i; induction vs as [|x r IH]; intros [|i]; simpl; intros H; try congruence. now rewrite IH. Qed.

Lemma upd_length vs i g : length (upd vs i g) = length vs.
Proof. unfold upd. destruct (live_at vs i); [apply wr_length|reflexivity]. Qed.
Lemma live_wr_same vs i c : i < length vs -> live_at (wr vs i c) i = match c with Live h => Some h | Dead => None end.
Proof. intros H. unfold live_at. rewrite nth_wr_same by auto. now destruct c. Qed.
Lemma live_wr_other vs i j c : i <> j -> live_at (wr vs i c) j = live_at vs j.
Proof. intros H. unfold live_at. now rewrite nth_wr_other. Qed.
End VarsLemmas.

Section MapLemmas.
Context {A B : Type} (f : A -> B).
Lemma live_at_map vs i : live_at (map (abs_cell f) vs) i = option_map f (live_at vs i).
Proof. unfold live_at. rewrite nth_error_map. destruct (nth_error vs i) as [[|x]|]; reflexivity. Qed.
Lemma dead_at_map vs i : dead_at (map (abs_cell f) vs) i = dead_at vs i.
Proof. unfold dead_at. rewrite nth_error_map. destruct (nth_error vs i) as [[|x]|]; reflexivity. Qed.
Lemma wr_map vs i c : map (abs_cell f) (wr vs i c) = wr (map (abs_cell f) vs) i (abs_cell f c).
Proof. revert i; induction vs as [|x r IH]; intros [|i]; simpl; auto. now rewrite IH. Qed.
Lemma upd_map_same vs i g : (forall h, f (g h) = f h) -> map (abs_cell f) (upd vs i g) = map (abs_cell f) vs.
Proof.
  intros H. unfold upd. destruct (live_at vs i) as [h|] eqn:E; [|reflexivity].
  rewrite wr_map. apply wr_same. rewrite nth_error_map, (live_at_Some _ _ _ E). simpl. now rewrite H.
Qed.
Lemma wr_map_same vs i h : live_at vs i = Some h -> wr (map (abs_cell f) vs) i (Live (f h)) = map (abs_cell f) vs.
Proof. intros E. apply wr_same. now rewrite nth_error_map, (live_at_Some _ _ _ E). Qed.
Lemma map_repeat_dead n : map (abs_cell f) (repeat Dead n) = repeat Dead n.
Proof. induction n; simpl; congruence. Qed.
End MapLemmas.

(* ------------------------------------------------------------------ simulation of [run] *)
Section RunSim.
Context {S R Op : Type}.
Variable step : S -> Op -> S * out * list ev.
Variable rstep : R -> Op -> R * out.
Variable abs : S -> R.
Hypothesis step_sim : forall s o, rstep (abs s) o = (abs (fst (fst (step s o))), snd (fst (step s o))).

Lemma run_sim ops : forall s,
  let r := run (fun r o => let '(a, b) := rstep r o in (a, b, @nil ev)) (abs s) ops in
  let m := run step s ops in
  abs (fst (fst m)) = fst (fst r) /\ snd (fst m) = snd (fst r).
Proof.
  induction ops as [|o ops IH]; intros s; cbn [run]; [split; reflexivity|].
  rewrite step_sim. destruct (step s o) as [[s1 x] e]. cbn [fst snd].
  destruct (stops x); cbn [fst snd]; [split; reflexivity|].
  specialize (IH s1). cbn zeta in IH.
  destruct (run step s1 ops) as [[s2 xs] e2].
  destruct (run _ (abs s1) ops) as [[r2 ys] e3]. cbn [fst snd] in *.
  destruct IH as [IH1 IH2]. split; congruence.
Qed.
End RunSim.

(* ------------------------------------------------------------------ event logs, pointwise *)
Lemma obj_eqb_eq a b : obj_eqb a b = true <-> a = b.
Proof.
  destruct a as [a1 a2], b as [b1 b2]. unfold obj_eqb. cbn [fst snd].
  rewrite andb_true_iff, !Nat.eqb_eq. split; [intros [-> ->]; reflexivity|intros H; inversion H; auto].
Qed.
Lemma obj_eqb_refl a : obj_eqb a a = true.
Proof. now apply obj_eqb_eq. Qed.
Lemma obj_eqb_sym a b : obj_eqb a b = obj_eqb b a.
Proof. unfold obj_eqb. now rewrite (Nat.eqb_sym (fst a)), (Nat.eqb_sym (snd a)). Qed.

Lemma is_live_In o s : is_live o s = true <-> In o (live s).
Proof.
  unfold is_live. rewrite existsb_exists. split.
  - intros [x [Hx E]]. apply obj_eqb_eq in E. now subst.
  - intros H. exists o. split; [assumption|apply obj_eqb_refl].
Qed.

(* the live set of an lstate described by a boolean function; no heap blocks *)
Definition lfun := obj -> bool.
Definition desc (s : lstate) (L : lfun) : Prop := blocks s = [] /\ forall o, is_live o s = L o.

Definition sym_step (L : lfun) (e : ev) : option lfun :=
  match e with
  | EConstruct o => if Nat.eqb (fst o) 0 && negb (L o) then Some (fun x => obj_eqb x o || L x) else None
  | EDestroy o => if L o then Some (fun x => negb (obj_eqb o x) && L x) else None
  | EUse o => if L o then Some L else None
  | _ => None
  end.
Fixpoint sym_run (L : lfun) (l : list ev) : option lfun :=
  match l with
  | [] => Some L
  | e :: r => match sym_step L e with Some L' => sym_run L' r | None => None end
  end.

Lemma sym_step_sound s L e L' : desc s L -> sym_step L e = Some L' ->
  exists s', ev_step s e = Some s' /\ desc s' L'.
Proof.
  intros [Hb Hl] H. destruct e as [b n|b n|b|o|o|o]; cbn [sym_step] in H; try discriminate.
  - destruct (Nat.eqb (fst o) 0 && negb (L o)) eqn:E; [|discriminate]. inversion H; subst; clear H.
    apply andb_true_iff in E. destruct E as [E1 E2]. apply negb_true_iff in E2.
    cbn [ev_step]. unfold block_ok. rewrite E1, Hl, E2. cbn.
    eexists; split; [reflexivity|]. split; [exact Hb|]. intros x. unfold is_live. cbn [live existsb].
    f_equal. apply Hl.
  - destruct (L o) eqn:E; [|discriminate]. inversion H; subst; clear H.
    cbn [ev_step]. rewrite Hl, E. eexists; split; [reflexivity|]. split; [exact Hb|].
    intros x. unfold is_live. cbn [live].
    rewrite <- Hl. unfold is_live.
    induction (live s) as [|y r IH]; cbn [filter existsb]; [now rewrite andb_false_r|].
    destruct (obj_eqb o y) eqn:Ey; cbn [negb existsb].
    + apply obj_eqb_eq in Ey. subst y. rewrite IH.
      destruct (obj_eqb x o) eqn:Ex; [|reflexivity].
      apply obj_eqb_eq in Ex. subst x. rewrite obj_eqb_refl. reflexivity.
    + rewrite IH. destruct (obj_eqb x y) eqn:Ex; cbn [orb].
      * apply obj_eqb_eq in Ex. subst y. rewrite Ey. reflexivity.
      * reflexivity.
  - destruct (L o) eqn:E; [|discriminate]. inversion H; subst; clear H.
    cbn [ev_step]. rewrite Hl, E. eexists; split; [reflexivity|]. split; assumption.
Qed.

Lemma sym_run_sound l : forall s L L', desc s L -> sym_run L l = Some L' ->
  exists s', ev_run s l = Some s' /\ desc s' L'.
Proof.
  induction l as [|e r IH]; intros s L L' D H; cbn [sym_run ev_run] in *.
  - inversion H; subst. eauto.
  - destruct (sym_step L e) as [L1|] eqn:E; [|discriminate].
    destruct (sym_step_sound _ _ _ _ D E) as [s1 [H1 D1]]. rewrite H1. eauto.
Qed.

Lemma sym_run_app l1 l2 L : sym_run L (l1 ++ l2) = match sym_run L l1 with Some L' => sym_run L' l2 | None => None end.
Proof. revert L; induction l1 as [|e r IH]; intros L; cbn [sym_run app]; [reflexivity|]. destruct (sym_step L e); auto. Qed.

Lemma desc_ext s L L' : desc s L -> (forall o, L o = L' o) -> desc s L'.
Proof. intros [H1 H2] E. split; [assumption|]. intros o. now rewrite H2. Qed.

Lemma sym_step_ext L1 L2 e : (forall o, L1 o = L2 o) ->
  match sym_step L1 e, sym_step L2 e with
  | Some A, Some B => forall o, A o = B o
  | None, None => True
  | _, _ => False
  end.
Proof.
  intros E. destruct e; cbn [sym_step]; auto; rewrite <- E.
  - destruct (Nat.eqb (fst o) 0 && negb (L1 o)); auto. intros x. now rewrite E.
  - destruct (L1 o); auto. intros x. now rewrite E.
  - destruct (L1 o); auto.
Qed.
Lemma sym_run_ext l : forall L1 L2, (forall o, L1 o = L2 o) ->
  match sym_run L1 l, sym_run L2 l with
  | Some A, Some B => forall o, A o = B o
  | None, None => True
  | _, _ => False
  end.
Proof.
  induction l as [|e r IH]; intros L1 L2 E; cbn [sym_run]; [assumption|].
  pose proof (sym_step_ext L1 L2 e E) as H.
  destruct (sym_step L1 e) as [A1|], (sym_step L2 e) as [A2|]; try contradiction; [apply IH; exact H|exact I].
Qed.

Definition ok (L : lfun) (evs : list ev) (Lf : lfun) : Prop :=
  exists L', sym_run L evs = Some L' /\ forall x, L' x = Lf x.

Lemma ok_ext_l L M evs Lf : (forall x, L x = M x) -> ok M evs Lf -> ok L evs Lf.
Proof.
  intros E [L' [H1 H2]]. pose proof (sym_run_ext evs L M E) as Hx. rewrite H1 in Hx.
  unfold ok. destruct (sym_run L evs) as [L2|]; [|contradiction]. exists L2. split; [reflexivity|]. intros x. now rewrite Hx.
Qed.
Lemma ok_app L M evs1 evs2 Lf : ok L evs1 M -> ok M evs2 Lf -> ok L (evs1 ++ evs2) Lf.
Proof.
  intros [L1 [H1 H2]] H. destruct (ok_ext_l L1 M evs2 Lf H2 H) as [L2 [H3 H4]].
  exists L2. split; [|assumption]. now rewrite sym_run_app, H1.
Qed.

Lemma desc_empty_closed s : desc s (fun _ => false) -> blocks s = [] /\ live s = [].
Proof.
  intros [H1 H2]. split; [assumption|]. destruct (live s) as [|x r] eqn:E; [reflexivity|].
  specialize (H2 x). unfold is_live in H2. rewrite E in H2. cbn [existsb] in H2. now rewrite obj_eqb_refl in H2.
Qed.

(* ------------------------------------------------------------------ the live set of holder variables *)
Section HLive.
Context {H : Type}.
Variable engf : H -> bool.        (* does this holder currently hold an object? *)

Definition hlive (vs : vars H) : lfun := fun o =>
  Nat.eqb (fst o) 0 && Nat.odd (snd o) &&
  match live_at vs (Nat.div2 (snd o)) with Some d => engf d | None => false end.

Lemma div2_S_double i : Nat.div2 (S (2 * i)) = i.
Proof. apply Nat.div2_succ_double. Qed.
Lemma odd_S_double i : Nat.odd (S (2 * i)) = true.
Proof. rewrite Nat.odd_succ. apply Nat.even_spec. exists i. lia. Qed.
Lemma odd_double i : Nat.odd (2 * i) = false.
Proof. rewrite <- Nat.negb_even. replace (Nat.even (2 * i)) with true; [reflexivity|]. symmetry. apply Nat.even_spec. exists i. lia. Qed.

Lemma hlive_sv vs i : hlive vs (sv i) = match live_at vs i with Some d => engf d | None => false end.
Proof. unfold hlive, sv. cbn [fst snd]. now rewrite odd_S_double, div2_S_double. Qed.
Lemma hlive_sa vs : hlive vs sa = false.
Proof. reflexivity. Qed.
Lemma hlive_st vs d : hlive vs (st d) = false.
Proof. unfold hlive, st. cbn [fst snd]. now rewrite odd_double. Qed.
Lemma hlive_heap vs b s : b <> 0 -> hlive vs (b, s) = false.
Proof. intros Hb. unfold hlive. cbn [fst]. apply Nat.eqb_neq in Hb. now rewrite Hb. Qed.

Lemma hlive_is_sv vs o : hlive vs o = true -> exists i, o = sv i.
Proof.
  unfold hlive. destruct o as [b sl]. cbn [fst snd]. rewrite !andb_true_iff. intros [[Hb Ho] _].
  apply Nat.eqb_eq in Hb. subst b. apply Nat.odd_spec in Ho. destruct Ho as [m ->].
  exists m. unfold sv. f_equal. lia.
Qed.

Lemma hlive_wr vs i c o : i < length vs ->
  hlive (wr vs i c) o = if obj_eqb o (sv i) then match c with Live h => engf h | Dead => false end else hlive vs o.
Proof.
  intros Hi. destruct (obj_eqb o (sv i)) eqn:E.
  - apply obj_eqb_eq in E. subst o. rewrite hlive_sv, live_wr_same by assumption. now destruct c.
  - unfold hlive. destruct (Nat.eqb (fst o) 0 && Nat.odd (snd o)) eqn:E2; [|reflexivity]. cbn [andb].
    rewrite live_wr_other; [reflexivity|]. intros ->.
    apply andb_true_iff in E2. destruct E2 as [E2 E3]. apply Nat.eqb_eq in E2. apply Nat.odd_spec in E3.
    destruct E3 as [m E3]. destruct o as [b sl]. cbn [fst snd] in *. subst b.
    assert (Nat.div2 sl = m) as Hm by (subst sl; replace (2 * m + 1) with (S (2 * m)) by lia; apply div2_S_double).
    rewrite Hm in E. unfold sv, obj_eqb in E. cbn [fst snd] in E. rewrite Nat.eqb_refl in E. cbn [andb] in E.
    apply Nat.eqb_neq in E. lia.
Qed.

Lemma hlive_upd vs i g o : (forall h, engf (g h) = engf h) -> hlive (upd vs i g) o = hlive vs o.
Proof.
  intros Hg. unfold upd. destruct (live_at vs i) as [h|] eqn:E; [|reflexivity].
  pose proof (nth_lt _ _ _ (live_at_Some _ _ _ E)) as Hi.
  rewrite hlive_wr by assumption. destruct (obj_eqb o (sv i)) eqn:Eo; [|reflexivity].
  apply obj_eqb_eq in Eo. subst o. now rewrite hlive_sv, E, Hg.
Qed.

Lemma hlive_repeat_dead n o : hlive (repeat Dead n) o = false.
Proof.
  unfold hlive, live_at. destruct (nth_error (repeat Dead n) (Nat.div2 (snd o))) as [c|] eqn:E.
  - apply nth_error_In, repeat_spec in E. subst c. now rewrite andb_false_r.
  - now rewrite andb_false_r.
Qed.

(* slot (in)equalities *)
Lemma eqb_sv_sv i j : obj_eqb (sv i) (sv j) = Nat.eqb i j.
Proof. unfold obj_eqb, sv. cbn [fst snd andb Nat.eqb]. destruct (Nat.eqb i j) eqn:E.
  - apply Nat.eqb_eq in E. subst. apply Nat.eqb_refl.
  - apply Nat.eqb_neq in E. apply Nat.eqb_neq. lia. Qed.
Lemma eqb_sv_st i d : obj_eqb (sv i) (st d) = false.
Proof. unfold obj_eqb, sv, st. cbn [fst snd]. rewrite Nat.eqb_refl. cbn [andb]. apply Nat.eqb_neq. lia. Qed.
Lemma eqb_st_sv i d : obj_eqb (st d) (sv i) = false.
Proof. now rewrite obj_eqb_sym, eqb_sv_st. Qed.
Lemma eqb_sv_sa i : obj_eqb (sv i) sa = false.
Proof. reflexivity. Qed.
Lemma eqb_sa_sv i : obj_eqb sa (sv i) = false.
Proof. reflexivity. Qed.
Lemma eqb_st_st d e : obj_eqb (st d) (st e) = Nat.eqb d e.
Proof. unfold obj_eqb, st. cbn [fst snd]. rewrite Nat.eqb_refl. cbn [andb]. destruct (Nat.eqb d e) eqn:E.
  - apply Nat.eqb_eq in E. subst. apply Nat.eqb_refl.
  - apply Nat.eqb_neq in E. apply Nat.eqb_neq. lia. Qed.
Lemma eqb_st_sa d : obj_eqb (st d) sa = false.
Proof. reflexivity. Qed.
Lemma eqb_sa_st d : obj_eqb sa (st d) = false.
Proof. reflexivity. Qed.

(* destruction of all variables at the end *)
Variable dtor : nat -> H -> list ev.
Hypothesis dtor_spec : forall i h, dtor i h = if engf h then [EDestroy (sv i)] else [].

Lemma finish_from_ok : forall (vs pre : vars H) L,
  (forall o, L o = hlive (repeat Dead (length pre) ++ vs) o) ->
  exists L', sym_run L (finish_from dtor (length pre) vs) = Some L' /\ forall o, L' o = false.
Proof.
  induction vs as [|c r IH]; intros pre L HL; cbn [finish_from].
  - exists L. split; [reflexivity|]. intros o. rewrite HL, app_nil_r. apply hlive_repeat_dead.
  - assert (Hlen : length (pre ++ [@Dead H]) = S (length pre)) by (rewrite app_length; simpl; lia).
    destruct c as [|h].
    + specialize (IH (pre ++ [Dead]) L). rewrite Hlen in IH. apply IH.
      intros o. rewrite HL. f_equal. change (Dead :: r) with ([Dead] ++ r). rewrite app_assoc. f_equal.
      cbn [repeat]. now rewrite repeat_cons.
    + rewrite dtor_spec, sym_run_app.
      assert (Hi : length pre < length (repeat (@Dead H) (length pre) ++ Live h :: r))
        by (rewrite app_length, repeat_length; simpl; lia).
      assert (Hnth : live_at (repeat (@Dead H) (length pre) ++ Live h :: r) (length pre) = Some h).
      { unfold live_at. rewrite nth_error_app2 by (rewrite repeat_length; lia). rewrite repeat_length, Nat.sub_diag. reflexivity. }
      assert (Hwr : wr (repeat (@Dead H) (length pre) ++ Live h :: r) (length pre) Dead = repeat Dead (S (length pre)) ++ r).
      { clear. induction (length pre) as [|n IHn]; [reflexivity|]. cbn [repeat app wr]. f_equal. exact IHn. }
      destruct (engf h) eqn:Eh; cbn [sym_run sym_step].
      * rewrite HL, hlive_sv, Hnth, Eh.
        specialize (IH (pre ++ [Dead]) (fun x => negb (obj_eqb (sv (length pre)) x) && L x)).
        rewrite Hlen in IH. apply IH. intros o. rewrite <- Hwr, hlive_wr by assumption.
        rewrite (obj_eqb_sym o). destruct (obj_eqb (sv (length pre)) o); cbn [negb andb]; [reflexivity|apply HL].
      * specialize (IH (pre ++ [Dead]) L). rewrite Hlen in IH. apply IH.
        intros o. rewrite HL, <- Hwr, hlive_wr by assumption.
        destruct (obj_eqb o (sv (length pre))) eqn:Eo; [|reflexivity].
        apply obj_eqb_eq in Eo. subst o. now rewrite hlive_sv, Hnth.
Qed.

Lemma finish_ok vs L : (forall o, L o = hlive vs o) ->
  exists L', sym_run L (finish dtor vs) = Some L' /\ forall o, L' o = false.
Proof. intros HL. apply (finish_from_ok vs [] L). exact HL. Qed.
End HLive.

(* generic closing argument: a step function whose every (permitted) step keeps [desc _ (hlive vs)] *)
Section Closed.
Context {H Op : Type}.
Variable engf : H -> bool.
Variable step : vars H -> Op -> vars H * out * list ev.
Variable dtor : nat -> H -> list ev.
Variable okb : vars H -> Op -> bool.
Hypothesis dtor_spec : forall i h, dtor i h = if engf h then [EDestroy (sv i)] else [].
Hypothesis step_ok : forall vs o, okb vs o = true -> exists L',
  sym_run (hlive engf vs) (snd (step vs o)) = Some L' /\ forall x, L' x = hlive engf (fst (fst (step vs o))) x.

Lemma run_log_ok ops : forall vs, api_ok step okb vs ops = true -> exists L',
  sym_run (hlive engf vs) (snd (run step vs ops)) = Some L' /\
  forall x, L' x = hlive engf (fst (fst (run step vs ops))) x.
Proof.
  induction ops as [|o ops IH]; intros vs Hok; cbn [run api_ok] in *.
  - exists (hlive engf vs). split; reflexivity.
  - apply andb_true_iff in Hok. destruct Hok as [Hok1 Hok2].
    destruct (step_ok vs o Hok1) as [L1 [H1 H2]]. destruct (step vs o) as [[vs1 x] e] eqn:Es. cbn [fst snd] in *.
    destruct (stops x); cbn [fst snd]; [exists L1; split; assumption|].
    destruct (IH vs1 Hok2) as [L2 [H3 H4]]. destruct (run step vs1 ops) as [[vs2 xs] e2]. cbn [fst snd] in *.
    rewrite sym_run_app, H1.
    pose proof (sym_run_ext e2 L1 (hlive engf vs1) H2) as Hx. rewrite H3 in Hx.
    destruct (sym_run L1 e2) as [L3|]; [|contradiction].
    exists L3. split; [reflexivity|]. intros y. now rewrite Hx.
Qed.

Theorem closed_log_cond n ops : api_ok step okb (repeat Dead n) ops = true ->
  wf_closed (snd (run step (repeat Dead n) ops) ++ finish dtor (fst (fst (run step (repeat Dead n) ops)))) = true.
Proof.
  intros Hok.
  destruct (run_log_ok ops (repeat Dead n) Hok) as [L1 [H1 H2]].
  destruct (finish_ok engf dtor dtor_spec (fst (fst (run step (repeat Dead n) ops))) L1 H2) as [L2 [H3 H4]].
  assert (D0 : desc ls0 (hlive engf (repeat Dead n))).
  { split; [reflexivity|]. intros o. now rewrite hlive_repeat_dead. }
  assert (Hrun : sym_run (hlive engf (repeat Dead n))
            (snd (run step (repeat Dead n) ops) ++ finish dtor (fst (fst (run step (repeat Dead n) ops)))) = Some L2).
  { now rewrite sym_run_app, H1. }
  destruct (sym_run_sound _ _ _ _ D0 Hrun) as [s' [Hs D]].
  unfold wf_closed. rewrite Hs.
  destruct (desc_empty_closed s' (desc_ext _ _ _ D H4)) as [Hb Hl]. now rewrite Hb, Hl.
Qed.
End Closed.

Lemma api_ok_trivial {S Op} (step : S -> Op -> S * out * list ev) ops : forall s, api_ok step (fun _ _ => true) s ops = true.
Proof.
  induction ops as [|o r IH]; intros s; cbn [api_ok andb]; [reflexivity|].
  destruct (step s o) as [[s1 x] e]. destruct (stops x); auto.
Qed.

Theorem closed_log {H Op} (engf : H -> bool) (step : vars H -> Op -> vars H * out * list ev) (dtor : nat -> H -> list ev)
  (dtor_spec : forall i h, dtor i h = if engf h then [EDestroy (sv i)] else [])
  (step_ok : forall vs o, exists L',
     sym_run (hlive engf vs) (snd (step vs o)) = Some L' /\ forall x, L' x = hlive engf (fst (fst (step vs o))) x)
  n ops :
  wf_closed (snd (run step (repeat Dead n) ops) ++ finish dtor (fst (fst (run step (repeat Dead n) ops)))) = true.
Proof.
  apply (closed_log_cond engf step dtor (fun _ _ => true) dtor_spec (fun vs o _ => step_ok vs o)).
  apply api_ok_trivial.
Qed.

(* ------------------------------------------------------------------ automation for per-op log lemmas *)
Lemma fst_sv i : fst (sv i) = 0. Proof. reflexivity. Qed.
Lemma fst_st d : fst (st d) = 0. Proof. reflexivity. Qed.
Lemma fst_sa : fst sa = 0. Proof. reflexivity. Qed.
Lemma obj_eqb_sa_sa : obj_eqb sa sa = true. Proof. reflexivity. Qed.

Ltac objs_simp :=
  repeat first
    [ rewrite fst_sv | rewrite fst_st | rewrite fst_sa
    | rewrite hlive_sv | rewrite hlive_sa | rewrite hlive_st
    | rewrite eqb_sv_sv | rewrite eqb_sv_st | rewrite eqb_st_sv | rewrite eqb_sv_sa | rewrite eqb_sa_sv
    | rewrite eqb_st_st | rewrite eqb_st_sa | rewrite eqb_sa_st | rewrite obj_eqb_sa_sa | rewrite obj_eqb_refl
    | rewrite Nat.eqb_refl
    | progress cbn [andb orb negb Nat.eqb] ].

Ltac lt_vars :=
  match goal with
  | H : live_at ?vs ?i = Some _ |- ?i < length ?vs => exact (nth_lt _ _ _ (live_at_Some _ _ _ H))
  | H : dead_at ?vs ?i = true |- ?i < length ?vs => exact (nth_lt _ _ _ (dead_at_true _ _ H))
  | |- ?i < length (wr _ _ _) => rewrite wr_length; lt_vars
  | |- ?i < length (upd _ _ _) => rewrite upd_length; lt_vars
  end.
