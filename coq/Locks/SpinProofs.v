(* Proofs about the spinlock models (SpinModel.v): mutual exclusion, FIFO, hand-over, acquire/release. *)
From Coq Require Import List NArith ZArith Arith Bool Lia.
From Coq Require Import ZifyBool ZifyNat ZifyN.
From FV Require Import Locks.SpinModel.
Import ListNotations.

Ltac Zify.zify_post_hook ::= Z.div_mod_to_equations.

(* ------------------------------------------------------------------ generic helpers *)

Lemma upd_same : forall A (f : tid -> A) t v, upd f t v t = v.
Proof. intros. unfold upd. rewrite Nat.eqb_refl. reflexivity. Qed.
Lemma upd_other : forall A (f : tid -> A) t v u, u <> t -> upd f t v u = f u.
Proof. intros. unfold upd. destruct (Nat.eqb_spec u t); congruence. Qed.

Lemma NoDup_map_inj_on : forall (A B : Type) (f : A -> B) (l : list A),
  NoDup l -> (forall x y, In x l -> In y l -> f x = f y -> x = y) -> NoDup (map f l).
Proof.
  induction l as [|a l IH]; intros Hnd Hinj; cbn; [constructor|].
  inversion Hnd as [|? ? Hnotin Hnd']; subst. constructor.
  - intros Hin. apply in_map_iff in Hin as (y & Hy & Hyin).
    assert (y = a) by (apply Hinj; cbn; auto). subst. contradiction.
  - apply IH; [assumption|]. intros x y Hx Hy. apply Hinj; cbn; auto.
Qed.

(* pigeonhole: an injection from [lo, hi) into [0, n) *)
Lemma pigeon : forall (f : nat -> nat) lo hi n,
  (forall k, lo <= k < hi -> f k < n) ->
  (forall k1 k2, lo <= k1 < hi -> lo <= k2 < hi -> f k1 = f k2 -> k1 = k2) ->
  hi - lo <= n.
Proof.
  intros f lo hi n Hlt Hinj.
  assert (NoDup (map f (seq lo (hi - lo)))) as Hnd.
  { apply NoDup_map_inj_on; [apply seq_NoDup|]. intros x y Hx Hy. apply in_seq in Hx, Hy. apply Hinj; lia. }
  assert (incl (map f (seq lo (hi - lo))) (seq 0 n)) as Hincl.
  { intros y Hy. apply in_map_iff in Hy as (x & <- & Hx). apply in_seq in Hx. apply in_seq. specialize (Hlt x). lia. }
  pose proof (NoDup_incl_length Hnd Hincl) as Hlen. rewrite map_length, !seq_length in Hlen. exact Hlen.
Qed.

(* two unbounded counters less than 2^32 apart that agree modulo 2^32 are equal *)
Lemma mod_W_inj : forall (base : N) (a b : nat),
  a <= b -> (N.of_nat (b - a) < W)%N ->
  ((base + N.of_nat a) mod W = (base + N.of_nat b) mod W)%N -> a = b.
Proof. intros base a b Hle Hlt Heq. unfold W in *. lia. Qed.

Lemma mod_W_succ : forall (x : N), (((x mod W) + 1) mod W = (x + 1) mod W)%N.
Proof. intros. unfold W. lia. Qed.

Lemma firstn_S_nth : forall A (l : list A) k d, k < length l -> firstn (S k) l = firstn k l ++ [nth k l d].
Proof.
  induction l as [|a l IH]; intros k d Hk; cbn in Hk; [lia|].
  destruct k; cbn; [reflexivity|]. f_equal. apply IH. lia.
Qed.

Lemma firstn_app_le : forall A (l r : list A) k, k <= length l -> firstn k (l ++ r) = firstn k l.
Proof. intros. rewrite firstn_app. replace (k - length l) with 0 by lia. cbn. apply app_nil_r. Qed.

Lemma nth_error_firstn_some : forall A (l : list A) m k x, nth_error (firstn m l) k = Some x -> nth_error l k = Some x.
Proof.
  induction l as [|a l IH]; intros m k x H.
  - rewrite firstn_nil in H. exact H.
  - destruct m; cbn in H; [destruct k; discriminate|]. destruct k; cbn in *; [exact H|]. eapply IH; eauto.
Qed.

Lemma cle_refl : forall a, cle a a.
Proof. intros a u. lia. Qed.
Lemma cle_join_r : forall a b, cle b (cjoin a b).
Proof. intros a b u. unfold cjoin. lia. Qed.
Lemma cle_join_l : forall a b, cle a (cjoin a b).
Proof. intros a b u. unfold cjoin. lia. Qed.

(* ================================================================== ticket_spinlock *)

Section Ticket.
Variable o : orders.
Variable n : nat.
Variable base : N.
Hypothesis Hn : (N.of_nat n < W)%N.      (* fewer than 2^32 threads *)

Definition tpcs (s : tinst) : tid -> tpc := t_pc (ti_real s).
Definition head (s : tinst) : tid := nth (ti_released s) (ti_draws s) 0.
Definition holder_now (s : tinst) : bool :=
  Nat.ltb (ti_released s) (length (ti_draws s)) && t_holding (tpcs s (head s)).

Record TInv (s : tinst) : Prop := mk_TInv {
  inv_next : t_next (ti_real s) = ((base + N.of_nat (length (ti_draws s))) mod W)%N;
  inv_serv : t_serving (ti_real s) = ((base + N.of_nat (ti_released s)) mod W)%N;
  inv_le : ti_released s <= length (ti_draws s);
  (* the outstanding tickets released .. |draws|-1 are held by pairwise distinct existing threads inside lock()/CS *)
  inv_own : forall k, ti_released s <= k < length (ti_draws s) ->
            ti_gt s (nth k (ti_draws s) 0) = k /\ tpcs s (nth k (ti_draws s) 0) <> TIdle /\ nth k (ti_draws s) 0 < n;
  inv_pc : forall t, tpcs s t <> TIdle ->
           ti_released s <= ti_gt s t < length (ti_draws s) /\ nth (ti_gt s t) (ti_draws s) 0 = t;
  inv_spin : forall t tk, tpcs s t = TSpin tk -> tk = ((base + N.of_nat (ti_gt s t)) mod W)%N;
  inv_hold : forall t, t_holding (tpcs s t) = true -> ti_gt s t = ti_released s;
  inv_unl : forall t c, tpcs s t = TUnl c -> c = t_serving (ti_real s);
  inv_glen : length (ti_grants s) = ti_released s + (if holder_now s then 1 else 0);
  inv_grants : ti_grants s = firstn (length (ti_grants s)) (ti_draws s);
  inv_alen : length (ti_acqclk s) = length (ti_grants s);
  inv_rlen : length (ti_relclk s) = ti_released s;
  inv_lserv : is_rel (o_t_unl_store o) = true -> 0 < ti_released s ->
              ti_lserv s = nth (ti_released s - 1) (ti_relclk s) cbot;
  inv_hb : is_acq (o_t_spin o) = true -> is_rel (o_t_unl_store o) = true ->
           forall k, S k < length (ti_acqclk s) -> cle (nth k (ti_relclk s) cbot) (nth (S k) (ti_acqclk s) cbot)
}.

Lemma TInv_init : TInv (tinit_at base).
Proof.
  constructor; cbn; intros; try lia; try congruence; try discriminate.
  - unfold W. lia.
  - unfold W. lia.
Qed.

(* number of outstanding tickets is at most the number of threads *)
Lemma outstanding_le : forall s, TInv s -> length (ti_draws s) - ti_released s <= n.
Proof.
  intros s I. apply (pigeon (fun k => nth k (ti_draws s) 0)).
  - intros k Hk. apply (inv_own s I k Hk).
  - intros k1 k2 H1 H2 Heq.
    destruct (inv_own s I k1 H1) as (A & _). destruct (inv_own s I k2 H2) as (B & _). congruence.
Qed.

(* a spinning thread that sees its ticket in serving_ticket_ is the thread at the head of the queue *)
Lemma spin_success_head : forall s t tk, TInv s ->
  tpcs s t = TSpin tk -> t_serving (ti_real s) = tk -> ti_gt s t = ti_released s /\ head s = t /\ holder_now s = false.
Proof.
  intros s t tk I Hpc Hserv.
  assert (tpcs s t <> TIdle) as Hni by congruence.
  destruct (inv_pc s I t Hni) as ((Hlo & Hhi) & Hnth).
  pose proof (inv_spin s I t tk Hpc) as Htk. pose proof (inv_serv s I) as Hs.
  pose proof (outstanding_le s I) as Hout.
  assert (ti_released s = ti_gt s t) as Heq.
  { apply (mod_W_inj base); [lia| |congruence]. unfold W in *. lia. }
  split; [lia|]. unfold head, holder_now. rewrite Heq, Hnth. split; [reflexivity|].
  unfold head. rewrite Heq, Hnth, Hpc. cbn. apply andb_false_r.
Qed.

Lemma trstep_unfold : forall r t, Nat.leb n t = false ->
  trstep n r t =
  match t_pc r t with
  | TIdle => mk_treal (N.modulo (t_next r + 1) W) (t_serving r) (upd (t_pc r) t (TSpin (t_next r)))
  | TSpin tk => if N.eqb (t_serving r) tk then mk_treal (t_next r) (t_serving r) (upd (t_pc r) t TCrit) else r
  | TCrit => mk_treal (t_next r) (t_serving r) (upd (t_pc r) t (TUnl (t_serving r)))
  | TUnl c => mk_treal (t_next r) (N.modulo (c + 1) W) (upd (t_pc r) t TIdle)
  end.
Proof. intros r t H. unfold trstep. rewrite H. reflexivity. Qed.

Lemma tstep_real : forall s t, ti_real (tstep o n s t) = trstep n (ti_real s) t.
Proof.
  intros s t. unfold tstep. destruct (Nat.leb n t) eqn:Hle.
  - unfold trstep. rewrite Hle. reflexivity.
  - destruct (t_pc (ti_real s) t) eqn:Hpc; try reflexivity.
    destruct (N.eqb (t_serving (ti_real s)) ticket); reflexivity.
Qed.

Lemma holding_not_idle : forall p, t_holding p = true -> p <> TIdle.
Proof. intros [] H; cbn in H; congruence. Qed.

(* ---- the invariant is preserved by every step of every thread *)
Lemma TInv_step : forall s t, TInv s -> TInv (tstep o n s t).
Proof.
  intros s t I. unfold tstep. destruct (Nat.leb n t) eqn:Hle; [exact I|].
  apply Nat.leb_gt in Hle.
  assert (Nat.leb n t = false) as Hle' by (apply Nat.leb_gt; exact Hle).
  rewrite (trstep_unfold _ _ Hle').
  destruct s as [r vc lserv lnext D G gt R relclk acqclk].
  destruct r as [nx sv pc]. unfold holder_now, head, tpcs in *.
  pose proof I as I0. destruct I as [Inext Iserv Ile Iown Ipc Ispin Ihold Iunl Iglen Igr Ialen Irlen Ilserv Ihb].
  unfold holder_now, head, tpcs in *. cbn [ti_real ti_vc ti_lserv ti_lnext ti_draws ti_grants ti_gt ti_released ti_relclk ti_acqclk t_next t_serving t_pc] in *.
  destruct (pc t) eqn:Hpc.
  - (* TIdle: draw a ticket *)
    assert (Hne : forall k, R <= k < length D -> nth k D 0 <> t).
    { intros k Hk Heq. destruct (Iown k Hk) as (_ & B & _). rewrite Heq in B. congruence. }
    constructor; unfold holder_now, head, tpcs;
      cbn [ti_real ti_vc ti_lserv ti_lnext ti_draws ti_grants ti_gt ti_released ti_relclk ti_acqclk t_next t_serving t_pc].
    + rewrite app_length. cbn [length]. rewrite Inext. rewrite mod_W_succ. f_equal. lia.
    + exact Iserv.
    + rewrite app_length. cbn. lia.
    + intros k Hk. rewrite app_length in Hk. cbn [length] in Hk.
      destruct (Nat.eq_dec k (length D)) as [->|Hk'].
      * rewrite app_nth2, Nat.sub_diag by lia. cbn [nth]. rewrite !upd_same. repeat split; [congruence|lia].
      * rewrite app_nth1 by lia. assert (R <= k < length D) as Hk2 by lia.
        pose proof (Hne k Hk2). destruct (Iown k Hk2) as (A & B & C).
        rewrite !upd_other by assumption. auto.
    + intros u Hu. rewrite app_length. cbn [length].
      destruct (Nat.eq_dec u t) as [->|Hut].
      * rewrite upd_same. split; [lia|]. rewrite app_nth2, Nat.sub_diag by lia. reflexivity.
      * rewrite upd_other in Hu |- * by assumption. destruct (Ipc u Hu) as (A & B).
        split; [lia|]. rewrite app_nth1 by lia. exact B.
    + intros u tk Hu. destruct (Nat.eq_dec u t) as [->|Hut].
      * rewrite upd_same in Hu |- *. injection Hu as <-. exact Inext.
      * rewrite upd_other in Hu |- * by assumption. eauto.
    + intros u Hu. destruct (Nat.eq_dec u t) as [->|Hut].
      * rewrite upd_same in Hu. discriminate.
      * rewrite upd_other in Hu |- * by assumption. eauto.
    + intros u c Hu. destruct (Nat.eq_dec u t) as [->|Hut].
      * rewrite upd_same in Hu. discriminate.
      * rewrite upd_other in Hu by assumption. eauto.
    + rewrite Iglen. apply f_equal. rewrite app_length. cbn [length].
      destruct (Nat.ltb_spec R (length D)) as [Hlt|Hge].
      * assert (R <= R < length D) as Hk by lia. pose proof (Hne R Hk).
        rewrite app_nth1 by lia. rewrite upd_other by assumption.
        destruct (Nat.ltb_spec R (length D + 1)); [|lia]. reflexivity.
      * assert (R = length D) as -> by lia.
        rewrite app_nth2, Nat.sub_diag by lia. cbn [nth]. rewrite upd_same. cbn [t_holding].
        rewrite andb_false_r. reflexivity.
    + rewrite firstn_app_le; [exact Igr|]. rewrite Iglen.
      destruct (Nat.ltb_spec R (length D)); cbn; [|lia]. destruct (t_holding _); lia.
    + exact Ialen.
    + exact Irlen.
    + exact Ilserv.
    + exact Ihb.
  - (* TSpin *)
    destruct (N.eqb sv ticket) eqn:Heq.
    + (* acquires *)
      apply N.eqb_eq in Heq.
      destruct (spin_success_head _ t ticket I0 Hpc Heq) as (Hgt & Hhead & Hnh).
      unfold holder_now, head, tpcs in Hgt, Hhead, Hnh.
      cbn [ti_real ti_vc ti_lserv ti_lnext ti_draws ti_grants ti_gt ti_released ti_relclk ti_acqclk t_next t_serving t_pc] in Hgt, Hhead, Hnh.
      assert (tpcs_ne : pc t <> TIdle) by congruence.
      destruct (Ipc t tpcs_ne) as ((_ & HgtD) & _). rewrite Hgt in HgtD.
      rewrite Hnh in Iglen. rewrite Nat.add_0_r in Iglen.
      constructor; unfold holder_now, head, tpcs;
        cbn [ti_real ti_vc ti_lserv ti_lnext ti_draws ti_grants ti_gt ti_released ti_relclk ti_acqclk t_next t_serving t_pc].
      * exact Inext.
      * exact Iserv.
      * exact Ile.
      * intros k Hk. destruct (Iown k Hk) as (A & B & C). repeat split; auto.
        destruct (Nat.eq_dec (nth k D 0) t) as [->|Hne]; [rewrite upd_same; congruence|rewrite upd_other by assumption; exact B].
      * intros u Hu. destruct (Nat.eq_dec u t) as [->|Hut]; [apply Ipc; congruence|].
        rewrite upd_other in Hu by assumption. auto.
      * intros u tk Hu. destruct (Nat.eq_dec u t) as [->|Hut]; [rewrite upd_same in Hu; discriminate|].
        rewrite upd_other in Hu by assumption. eauto.
      * intros u Hu. destruct (Nat.eq_dec u t) as [->|Hut]; [exact Hgt|].
        rewrite upd_other in Hu by assumption. eauto.
      * intros u c Hu. destruct (Nat.eq_dec u t) as [->|Hut]; [rewrite upd_same in Hu; discriminate|].
        rewrite upd_other in Hu by assumption. eauto.
      * rewrite app_length. cbn [length]. rewrite Iglen. apply f_equal.
        destruct (Nat.ltb_spec R (length D)); [|lia]. rewrite Hhead, upd_same. reflexivity.
      * rewrite app_length. cbn [length]. rewrite Iglen.
        replace (R + 1) with (S R) by lia. rewrite (firstn_S_nth _ D R 0) by lia.
        rewrite Hhead. f_equal. rewrite Igr at 1. rewrite Iglen. reflexivity.
      * rewrite !app_length. cbn. lia.
      * exact Irlen.
      * exact Ilserv.
      * intros Ha Hr k Hk. rewrite app_length in Hk. cbn [length] in Hk.
        destruct (Nat.eq_dec (S k) (length acqclk)) as [Hlast|Hnl].
        -- rewrite app_nth2 by lia. rewrite Hlast, Nat.sub_diag. cbn [nth].
           assert (R = S k) as HR by lia.
           rewrite (Ilserv Hr) by lia. unfold hb_load. rewrite Ha.
           replace (R - 1) with k by lia. apply cle_join_r.
        -- rewrite app_nth1 by lia. apply Ihb; auto. lia.
    + (* keeps spinning: nothing but the thread clock changes *)
      constructor; unfold holder_now, head, tpcs;
        cbn [ti_real ti_vc ti_lserv ti_lnext ti_draws ti_grants ti_gt ti_released ti_relclk ti_acqclk t_next t_serving t_pc];
        assumption.
  - (* TCrit: unlock()'s load *)
    assert (Hgt : gt t = R) by (apply Ihold; rewrite Hpc; reflexivity).
    constructor; unfold holder_now, head, tpcs;
      cbn [ti_real ti_vc ti_lserv ti_lnext ti_draws ti_grants ti_gt ti_released ti_relclk ti_acqclk t_next t_serving t_pc].
    + exact Inext.
    + exact Iserv.
    + exact Ile.
    + intros k Hk. destruct (Iown k Hk) as (A & B & C). repeat split; auto.
      destruct (Nat.eq_dec (nth k D 0) t) as [->|Hne]; [rewrite upd_same; congruence|rewrite upd_other by assumption; exact B].
    + intros u Hu. destruct (Nat.eq_dec u t) as [->|Hut]; [apply Ipc; congruence|].
      rewrite upd_other in Hu by assumption. auto.
    + intros u tk Hu. destruct (Nat.eq_dec u t) as [->|Hut]; [rewrite upd_same in Hu; discriminate|].
      rewrite upd_other in Hu by assumption. eauto.
    + intros u Hu. destruct (Nat.eq_dec u t) as [->|Hut]; [exact Hgt|].
      rewrite upd_other in Hu by assumption. eauto.
    + intros u c Hu. destruct (Nat.eq_dec u t) as [->|Hut]; [rewrite upd_same in Hu; congruence|].
      rewrite upd_other in Hu by assumption. eauto.
    + rewrite Iglen. apply f_equal. destruct (Nat.ltb R (length D)); [|reflexivity]. cbn [andb].
      destruct (Nat.eq_dec (nth R D 0) t) as [->|Hne]; [rewrite upd_same, Hpc; reflexivity|rewrite upd_other by assumption; reflexivity].
    + exact Igr.
    + exact Ialen.
    + exact Irlen.
    + exact Ilserv.
    + exact Ihb.
  - (* TUnl: the release store *)
    assert (Hgt : gt t = R) by (apply Ihold; rewrite Hpc; reflexivity).
    assert (Hni : pc t <> TIdle) by congruence.
    destruct (Ipc t Hni) as ((_ & HRD) & Hnth). rewrite Hgt in HRD, Hnth.
    assert (Hcur : current = sv) by (eapply Iunl; eauto).
    assert (Hhold : Nat.ltb R (length D) && t_holding (pc (nth R D 0)) = true).
    { destruct (Nat.ltb_spec R (length D)); [|lia]. rewrite Hnth, Hpc. reflexivity. }
    rewrite Hhold in Iglen.
    (* nobody else holds *)
    assert (Hnoh : forall u, u <> t -> t_holding (pc u) = false).
    { intros u Hu. destruct (t_holding (pc u)) eqn:Hh; [|reflexivity]. exfalso.
      pose proof (Ihold u Hh) as Hgu. destruct (Ipc u (holding_not_idle _ Hh)) as (_ & Hn2). rewrite Hgu in Hn2. congruence. }
    constructor; unfold holder_now, head, tpcs;
      cbn [ti_real ti_vc ti_lserv ti_lnext ti_draws ti_grants ti_gt ti_released ti_relclk ti_acqclk t_next t_serving t_pc].
    + exact Inext.
    + subst current. rewrite Iserv, mod_W_succ. f_equal. lia.
    + lia.
    + intros k Hk. assert (R <= k < length D) as Hk2 by lia. destruct (Iown k Hk2) as (A & B & C).
      assert (nth k D 0 <> t) by (intro E; rewrite E in A; lia).
      rewrite upd_other by assumption. auto.
    + intros u Hu. destruct (Nat.eq_dec u t) as [->|Hut]; [rewrite upd_same in Hu; congruence|].
      rewrite upd_other in Hu by assumption. destruct (Ipc u Hu) as ((A1 & A2) & B).
      split; [|exact B]. split; [|exact A2].
      destruct (Nat.eq_dec (gt u) R) as [E|]; [|lia]. rewrite E in B. congruence.
    + intros u tk Hu. destruct (Nat.eq_dec u t) as [->|Hut]; [rewrite upd_same in Hu; discriminate|].
      rewrite upd_other in Hu by assumption. eauto.
    + intros u Hu. destruct (Nat.eq_dec u t) as [->|Hut]; [rewrite upd_same in Hu; discriminate|].
      rewrite upd_other in Hu by assumption. rewrite Hnoh in Hu by assumption. discriminate.
    + intros u c Hu. destruct (Nat.eq_dec u t) as [->|Hut]; [rewrite upd_same in Hu; discriminate|].
      rewrite upd_other in Hu by assumption. pose proof (Hnoh u Hut) as Hf. rewrite Hu in Hf. discriminate.
    + rewrite Iglen.
      destruct (Nat.ltb_spec (S R) (length D)) as [Hlt|Hge]; cbn [andb]; [|lia].
      assert (R <= S R < length D) as Hk by lia. destruct (Iown (S R) Hk) as (A & B & C).
      assert (nth (S R) D 0 <> t) as Hne by (intro E; rewrite E in A; lia).
      rewrite upd_other by assumption. rewrite Hnoh by assumption. lia.
    + exact Igr.
    + exact Ialen.
    + rewrite app_length. cbn. lia.
    + intros Hr _. unfold hb_store. rewrite Hr. replace (S R - 1) with R by lia.
      rewrite app_nth2 by lia. rewrite Irlen, Nat.sub_diag. reflexivity.
    + intros Ha Hr k Hk. rewrite app_nth1 by lia. apply Ihb; auto.
Qed.

Lemma TInv_fold : forall sched s, TInv s -> TInv (fold_left (tstep o n) sched s).
Proof. induction sched as [|t l IH]; intros s I; cbn; [exact I|]. apply IH. apply TInv_step. exact I. Qed.

Lemma TInv_run : forall sched, TInv (trun_at o n base sched).
Proof. intros sched. apply TInv_fold. exact TInv_init. Qed.

(* ---- consequences *)

Lemma ticket_mutex_inv : forall s t1 t2, TInv s ->
  t_holding (tpcs s t1) = true -> t_holding (tpcs s t2) = true -> t1 = t2.
Proof.
  intros s t1 t2 I H1 H2.
  destruct (inv_pc s I t1 (holding_not_idle _ H1)) as (_ & A).
  destruct (inv_pc s I t2 (holding_not_idle _ H2)) as (_ & B).
  rewrite (inv_hold s I t1 H1) in A. rewrite (inv_hold s I t2 H2) in B. congruence.
Qed.

Lemma ticket_fifo_inv : forall s k t, TInv s ->
  nth_error (ti_grants s) k = Some t -> nth_error (ti_draws s) k = Some t.
Proof.
  intros s k t I H. rewrite (inv_grants s I) in H. eapply nth_error_firstn_some; eauto.
Qed.

(* the holder sees is_locked() = true, wrap-around or not *)
Lemma ticket_is_locked_inv : forall s t, TInv s -> t_holding (tpcs s t) = true -> t_is_locked (ti_real s) = true.
Proof.
  intros s t I H. unfold t_is_locked. apply negb_true_iff. apply N.eqb_neq. intros Heq.
  destruct (inv_pc s I t (holding_not_idle _ H)) as ((_ & A) & _). rewrite (inv_hold s I t H) in A.
  pose proof (outstanding_le s I) as Hout. rewrite (inv_next s I), (inv_serv s I) in Heq.
  apply mod_W_inj in Heq; [lia|lia|]. unfold W in *. lia.
Qed.

Definition t_free (s : tinst) : Prop := forall u, t_holding (tpcs s u) = false.
(* t's next step is the successful load: it leaves lock() *)
Definition t_can_acquire (s : tinst) (t : tid) : Prop :=
  t < n /\ exists tk, tpcs s t = TSpin tk /\ t_serving (ti_real s) = tk.

Lemma t_can_acquire_step : forall s t, t_can_acquire s t -> tpcs (tstep o n s t) t = TCrit.
Proof.
  intros s t (Hlt & tk & Hpc & Hs). unfold tpcs in *. rewrite tstep_real.
  rewrite trstep_unfold by (apply Nat.leb_gt; exact Hlt). rewrite Hpc.
  apply N.eqb_eq in Hs. rewrite Hs. cbn. apply upd_same.
Qed.

Lemma ticket_handover_inv : forall s, TInv s -> t_free s -> (exists u, t_waiting (tpcs s u) = true) ->
  exists t, t_can_acquire s t /\
    forall u, u <> t -> let s' := tstep o n s u in t_can_acquire s' t /\ t_free s'.
Proof.
  intros s I Hfree (w & Hw).
  assert (tpcs s w <> TIdle) as Hwni by (destruct (tpcs s w); cbn in Hw; congruence).
  destruct (inv_pc s I w Hwni) as ((A1 & A2) & _).
  assert (ti_released s <= ti_released s < length (ti_draws s)) as Hk by lia.
  destruct (inv_own s I _ Hk) as (Hg & Hni & Hlt). fold (head s) in Hg, Hni, Hlt.
  exists (head s).
  assert (Hca : t_can_acquire s (head s)).
  { split; [exact Hlt|]. pose proof (Hfree (head s)) as Hf.
    destruct (tpcs s (head s)) eqn:Hpc; cbn in Hf; try congruence.
    exists ticket. split; [reflexivity|]. rewrite (inv_spin s I _ _ Hpc), Hg. apply (inv_serv s I). }
  split; [exact Hca|]. intros u Hu s'.
  destruct Hca as (_ & tk & Hpc & Hs).
  (* the real effect of u's step *)
  assert (Hreal : ti_real s' = trstep n (ti_real s) u) by apply tstep_real.
  destruct (Nat.leb n u) eqn:Hle.
  { unfold s', tstep. rewrite Hle. split; [split; eauto|exact Hfree]. }
  rewrite trstep_unfold in Hreal by exact Hle.
  pose proof (Hfree u) as Hfu. unfold t_can_acquire, t_free, tpcs in *.
  destruct (t_pc (ti_real s) u) eqn:Hpu; cbn in Hfu; try discriminate.
  - (* u draws a ticket *)
    split.
    + split; [exact Hlt|]. exists tk. rewrite Hreal. cbn. rewrite upd_other by congruence. auto.
    + intros x. rewrite Hreal. cbn. destruct (Nat.eq_dec x u) as [->|Hx]; [rewrite upd_same; reflexivity|].
      rewrite upd_other by assumption. apply Hfree.
  - (* u evaluates its loop condition: it cannot succeed, because only the head can *)
    destruct (N.eqb (t_serving (ti_real s)) ticket) eqn:Heq.
    + exfalso. apply N.eqb_eq in Heq.
      destruct (spin_success_head s u ticket I Hpu Heq) as (_ & Hh & _). congruence.
    + rewrite Hreal. split; [split; eauto|exact Hfree].
Qed.

Lemma ticket_acq_rel_inv : forall s, TInv s ->
  is_acq (o_t_spin o) = true -> is_rel (o_t_unl_store o) = true ->
  forall k, S k < length (ti_acqclk s) -> cle (nth k (ti_relclk s) cbot) (nth (S k) (ti_acqclk s) cbot).
Proof. intros s I Ha Hr. exact (inv_hb s I Ha Hr). Qed.

(* the recorders are what they say: one acquisition clock per grant, one release clock per release store *)
Lemma ticket_recorders_inv : forall s, TInv s ->
  length (ti_acqclk s) = length (ti_grants s) /\ length (ti_relclk s) = ti_released s /\
  (length (ti_grants s) = ti_released s \/ length (ti_grants s) = S (ti_released s)).
Proof.
  intros s I. split; [apply (inv_alen s I)|]. split; [apply (inv_rlen s I)|].
  rewrite (inv_glen s I). destruct (holder_now s); lia.
Qed.

End Ticket.

(* ================================================================== simple_spinlock *)

Section Simple.
Variable o : orders.
Variable n : nat.

Definition spcs (s : sinst) : tid -> spc := s_pc (si_real s).

Record SInv (s : sinst) : Prop := mk_SInv {
  sinv_holder : match si_holder s with
                | Some t => s_lock (si_real s) = true /\ spcs s t = SCrit /\ (forall u, spcs s u = SCrit -> u = t) /\ t < n
                | None => s_lock (si_real s) = false /\ forall u, spcs s u <> SCrit
                end;
  sinv_glen : length (si_grants s) = si_released s + (match si_holder s with Some _ => 1 | None => 0 end);
  sinv_alen : length (si_acqclk s) = length (si_grants s);
  sinv_rlen : length (si_relclk s) = si_released s;
  sinv_llock : is_rel (o_s_unl_store o) = true -> si_holder s = None -> 0 < si_released s ->
               si_llock s = nth (si_released s - 1) (si_relclk s) cbot;
  sinv_hb : is_acq (o_s_xchg o) = true -> is_rel (o_s_unl_store o) = true ->
            forall k, S k < length (si_acqclk s) -> cle (nth k (si_relclk s) cbot) (nth (S k) (si_acqclk s) cbot)
}.

Lemma SInv_init : SInv sinit.
Proof. constructor; cbn; intros; try lia; try congruence. split; [reflexivity|]. intros u. unfold spcs. cbn. congruence. Qed.

Lemma srstep_unfold : forall r t, Nat.leb n t = false ->
  srstep n r t =
  match s_pc r t with
  | SOut | SXchg => mk_sreal true (upd (s_pc r) t (if s_lock r then SLoad else SCrit))
  | SLoad => if s_lock r then r else mk_sreal (s_lock r) (upd (s_pc r) t SXchg)
  | SCrit => mk_sreal false (upd (s_pc r) t SOut)
  end.
Proof. intros r t H. unfold srstep. rewrite H. reflexivity. Qed.

Lemma sstep_real : forall s t, si_real (sstep o n s t) = srstep n (si_real s) t.
Proof.
  intros s t. unfold sstep. destruct (Nat.leb n t) eqn:Hle.
  - unfold srstep. rewrite Hle. reflexivity.
  - destruct (s_pc (si_real s) t) eqn:Hpc; try reflexivity; destruct (s_lock (si_real s)); reflexivity.
Qed.

Ltac sproj := cbn [si_real si_vc si_llock si_holder si_grants si_released si_relclk si_acqclk s_lock s_pc] in *.

(* the exchange, from SOut or SXchg *)
Lemma SInv_step_xchg : forall r vc llock holder G R relclk acqclk t,
  SInv (mk_sinst r vc llock holder G R relclk acqclk) -> t < n ->
  (s_pc r t = SOut \/ s_pc r t = SXchg) ->
  let c := ctick (vc t) t in
  let c' := hb_rmw_thread (o_s_xchg o) c llock in
  let l' := hb_rmw_loc (o_s_xchg o) c llock in
  let r' := mk_sreal true (upd (s_pc r) t (if s_lock r then SLoad else SCrit)) in
  SInv (if s_lock r then mk_sinst r' (upd vc t c') l' holder G R relclk acqclk
        else mk_sinst r' (upd vc t c') l' (Some t) (G ++ [t]) R relclk (acqclk ++ [c'])).
Proof.
  intros [lk pc] vc llock holder G R relclk acqclk t I Hlt Hpc c c' l' r'.
  destruct I as [Ih Iglen Ialen Irlen Ill Ihb]. unfold spcs in *. sproj.
  subst r'. sproj.
  assert (Hnc : pc t <> SCrit) by (destruct Hpc as [-> | ->]; congruence).
  destruct lk.
  - (* fails *)
    destruct holder as [h|]; [|destruct Ih; discriminate].
    destruct Ih as (_ & Hh & Huniq & Hhn).
    assert (h <> t) by congruence.
    constructor; unfold spcs; sproj; auto.
    + repeat split; auto.
      * rewrite upd_other by assumption. exact Hh.
      * intros u Hu. destruct (Nat.eq_dec u t) as [->|Hut]; [rewrite upd_same in Hu; discriminate|].
        rewrite upd_other in Hu by assumption. auto.
    + intros _ Hnone. discriminate.
  - (* acquires *)
    destruct holder as [h|]; [destruct Ih; discriminate|].
    destruct Ih as (_ & Hnoc).
    constructor; unfold spcs; sproj.
    + repeat split; auto.
      * apply upd_same.
      * intros u Hu. destruct (Nat.eq_dec u t) as [->|Hut]; [reflexivity|].
        rewrite upd_other in Hu by assumption. exfalso. eapply Hnoc; eauto.
    + rewrite app_length. cbn [length]. lia.
    + rewrite !app_length. cbn. lia.
    + exact Irlen.
    + intros _ Hnone. discriminate.
    + intros Ha Hr k Hk. rewrite app_length in Hk. cbn [length] in Hk.
      destruct (Nat.eq_dec (S k) (length acqclk)) as [Hlast|Hnl].
      * rewrite app_nth2 by lia. rewrite Hlast, Nat.sub_diag. cbn [nth].
        assert (R = S k) as HR by lia.
        subst c'. unfold hb_rmw_thread. rewrite Ha. rewrite (Ill Hr eq_refl) by lia.
        replace (R - 1) with k by lia. apply cle_join_r.
      * rewrite app_nth1 by lia. apply Ihb; auto. lia.
Qed.

Lemma SInv_step : forall s t, SInv s -> SInv (sstep o n s t).
Proof.
  intros s t I. unfold sstep. destruct (Nat.leb n t) eqn:Hle; [exact I|].
  assert (t < n) as Hlt by (apply Nat.leb_gt; exact Hle).
  rewrite (srstep_unfold _ _ Hle).
  destruct s as [r vc llock holder G R relclk acqclk]. sproj.
  destruct (s_pc r t) eqn:Hpc.
  - apply (SInv_step_xchg r vc llock holder G R relclk acqclk t I Hlt). auto.
  - apply (SInv_step_xchg r vc llock holder G R relclk acqclk t I Hlt). auto.
  - (* inner-loop load *)
    destruct r as [lk pc]. sproj.
    destruct I as [Ih Iglen Ialen Irlen Ill Ihb]. unfold spcs in *.
    destruct lk.
    + constructor; unfold spcs; sproj; assumption.
    + destruct holder as [h|]; [destruct Ih; discriminate|]. destruct Ih as (_ & Hnoc).
      constructor; unfold spcs; sproj; auto.
      split; [reflexivity|]. intros u Hu. destruct (Nat.eq_dec u t) as [->|Hut]; [rewrite upd_same in Hu; discriminate|].
      rewrite upd_other in Hu by assumption. eapply Hnoc; eauto.
  - (* release store *)
    destruct r as [lk pc]. sproj.
    destruct I as [Ih Iglen Ialen Irlen Ill Ihb]. unfold spcs in *.
    destruct holder as [h|]; [|destruct Ih as (_ & Hnoc); exfalso; eapply Hnoc; eauto].
    destruct Ih as (_ & Hh & Huniq & Hhn).
    assert (t = h) by (apply Huniq; exact Hpc). subst h.
    constructor; unfold spcs; sproj.
    + split; [reflexivity|]. intros u Hu. destruct (Nat.eq_dec u t) as [->|Hut]; [rewrite upd_same in Hu; discriminate|].
      rewrite upd_other in Hu by assumption. apply Hut. auto.
    + lia.
    + exact Ialen.
    + rewrite app_length. cbn. lia.
    + intros Hr _ _. unfold hb_store. rewrite Hr. replace (S R - 1) with R by lia.
      rewrite app_nth2 by lia. rewrite Irlen, Nat.sub_diag. reflexivity.
    + intros Ha Hr k Hk. rewrite app_nth1 by lia. apply Ihb; auto.
Qed.

Lemma SInv_fold : forall sched s, SInv s -> SInv (fold_left (sstep o n) sched s).
Proof. induction sched as [|t l IH]; intros s I; cbn; [exact I|]. apply IH. apply SInv_step. exact I. Qed.

Lemma SInv_run : forall sched, SInv (srun o n sched).
Proof. intros. apply SInv_fold. exact SInv_init. Qed.

Lemma simple_mutex_inv : forall s t1 t2, SInv s ->
  s_holding (spcs s t1) = true -> s_holding (spcs s t2) = true -> t1 = t2.
Proof.
  intros s t1 t2 I H1 H2.
  assert (spcs s t1 = SCrit) as A by (destruct (spcs s t1); cbn in H1; congruence).
  assert (spcs s t2 = SCrit) as B by (destruct (spcs s t2); cbn in H2; congruence).
  pose proof (sinv_holder s I) as Ih. destruct (si_holder s) as [h|].
  - destruct Ih as (_ & _ & Hu & _). rewrite (Hu t1 A), (Hu t2 B). reflexivity.
  - destruct Ih as (_ & Hno). exfalso. eapply Hno; eauto.
Qed.

Definition s_free (s : sinst) : Prop := forall u, s_holding (spcs s u) = false.

Lemma s_free_unlocked : forall s, SInv s -> s_free s -> s_lock (si_real s) = false.
Proof.
  intros s I Hf. pose proof (sinv_holder s I) as Ih. destruct (si_holder s) as [h|]; [|apply Ih].
  destruct Ih as (_ & Hh & _). specialize (Hf h). rewrite Hh in Hf. discriminate.
Qed.

(* when the lock is free, any existing thread whose next access is the exchange acquires by that step;
   a thread in the inner loop needs two of its own steps *)
Lemma simple_handover_inv : forall s, SInv s -> s_free s ->
  (forall t, t < n -> (spcs s t = SOut \/ spcs s t = SXchg) -> spcs (sstep o n s t) t = SCrit) /\
  (forall t, t < n -> spcs s t = SLoad ->
     spcs (sstep o n s t) t = SXchg /\ s_free (sstep o n s t) /\ spcs (sstep o n (sstep o n s t) t) t = SCrit).
Proof.
  intros s I Hf. pose proof (s_free_unlocked s I Hf) as Hl.
  assert (Hx : forall s0 t, s_lock (si_real s0) = false -> t < n ->
               (spcs s0 t = SOut \/ spcs s0 t = SXchg) -> spcs (sstep o n s0 t) t = SCrit).
  { intros s0 t Hl0 Hlt Hpc. unfold spcs in *. rewrite sstep_real, srstep_unfold by (apply Nat.leb_gt; exact Hlt).
    destruct Hpc as [-> | ->]; rewrite Hl0; cbn; apply upd_same. }
  split; [intros t Hlt Hpc; apply Hx; auto|].
  intros t Hlt Hpc.
  assert (Hr : si_real (sstep o n s t) = mk_sreal (s_lock (si_real s)) (upd (s_pc (si_real s)) t SXchg)).
  { rewrite sstep_real, srstep_unfold by (apply Nat.leb_gt; exact Hlt). unfold spcs in Hpc. rewrite Hpc, Hl. reflexivity. }
  assert (A : spcs (sstep o n s t) t = SXchg) by (unfold spcs; rewrite Hr; cbn; apply upd_same).
  split; [exact A|]. split.
  - intros u. unfold spcs. rewrite Hr. cbn. destruct (Nat.eq_dec u t) as [->|Hut]; [rewrite upd_same; reflexivity|].
    rewrite upd_other by assumption. apply Hf.
  - apply Hx; auto. rewrite Hr. cbn. exact Hl.
Qed.

Lemma simple_acq_rel_inv : forall s, SInv s ->
  is_acq (o_s_xchg o) = true -> is_rel (o_s_unl_store o) = true ->
  forall k, S k < length (si_acqclk s) -> cle (nth k (si_relclk s) cbot) (nth (S k) (si_acqclk s) cbot).
Proof. intros s I Ha Hr. exact (sinv_hb s I Ha Hr). Qed.

Lemma simple_recorders_inv : forall s, SInv s ->
  length (si_acqclk s) = length (si_grants s) /\ length (si_relclk s) = si_released s /\
  (length (si_grants s) = si_released s \/ length (si_grants s) = S (si_released s)).
Proof.
  intros s I. split; [apply (sinv_alen s I)|]. split; [apply (sinv_rlen s I)|].
  rewrite (sinv_glen s I). destruct (si_holder s); lia.
Qed.

End Simple.

(* ================================================================== erasure
   The real machine that is extracted and compared with the real object is exactly the real component of the
   instrumented machine the theorems talk about: the observers never influence it. *)
Lemma trun_real : forall o n base sched,
  ti_real (trun_at o n base sched) = fold_left (trstep n) sched (treal_init (N.modulo base W) (N.modulo base W)).
Proof.
  intros o n base sched. unfold trun_at.
  assert (H : forall l s r, ti_real s = r -> ti_real (fold_left (tstep o n) l s) = fold_left (trstep n) l r).
  { induction l as [|t l IH]; intros s r Hr; cbn; [exact Hr|]. apply IH. rewrite tstep_real, Hr. reflexivity. }
  apply H. reflexivity.
Qed.

Lemma srun_real : forall o n sched,
  si_real (srun o n sched) = fold_left (srstep n) sched sreal_init.
Proof.
  intros o n sched. unfold srun.
  assert (H : forall l s r, si_real s = r -> si_real (fold_left (sstep o n) l s) = fold_left (srstep n) l r).
  { induction l as [|t l IH]; intros s r Hr; cbn; [exact Hr|]. apply IH. rewrite sstep_real, Hr. reflexivity. }
  apply H. reflexivity.
Qed.
