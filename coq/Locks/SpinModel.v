(* Executable model of frg::ticket_spinlock and frg::simple_spinlock (include/frg/spinlock.hpp),
   one atomic operation per step, arbitrary thread pool (tid -> pc), scheduler = arbitrary list tid.
   Definitions only -- proofs are in SpinProofs.v.

   Layers:
   * the REAL machine ([treal]/[trstep], [sreal]/[srstep]): the atomic fields (uint32 counters with
     wrap-around written in; the bool) and every thread's program counter.  This is what is extracted
     and compared with the real object field by field.
   * the INSTRUMENTED machine ([tinst]/[tstep], [sinst]/[sstep]): the real machine (its real component
     is by definition the real step of the real component) plus observers that do not influence it:
     vector clocks for happens-before (thread clocks, one release clock per atomic location, updated
     according to the memory orders [orders] taken from the source through Gen/SpinOrders.v), the
     recorders [draws] (order in which tickets were drawn), [grants] (order of acquisitions),
     [relclk]/[acqclk] (thread clock at every release / right after every acquisition).
   * the source listing ([aop]): per member function the sequence of atomic operations with location,
     memory order, position in the control structure and operand, as translator/gen_locks.py reads it
     from the clang AST; [ops_match] compares it with the listing this model implements,
     [orders_of] picks the orders the instrumented machine uses, [sufficient] is what C12_acq_rel needs. *)
From Coq Require Import String List NArith Arith Bool.
Import ListNotations.

Definition tid := nat.
Definition W : N := 4294967296%N.      (* 2^32: uint32_t next_ticket_, serving_ticket_ *)

Definition upd {A} (f : tid -> A) (t : tid) (v : A) : tid -> A :=
  fun u => if Nat.eqb u t then v else f u.

(* ------------------------------------------------------------------ memory orders, source listing *)

Inductive morder := Relaxed | Consume | Acquire | Release | AcqRel | SeqCst.
Definition is_acq (o : morder) : bool := match o with Acquire | AcqRel | SeqCst => true | _ => false end.
Definition is_rel (o : morder) : bool := match o with Release | AcqRel | SeqCst => true | _ => false end.
Definition morder_eqb (a b : morder) : bool :=
  match a, b with
  | Relaxed, Relaxed | Consume, Consume | Acquire, Acquire | Release, Release | AcqRel, AcqRel | SeqCst, SeqCst => true
  | _, _ => false
  end.

Inductive akind := ALoad | AStore | AFetchAdd | AExchange.
Inductive aloc := LNext | LServing | LLock.
Inductive actx := InWhileCond | InWhileBody | InIfCond | InIfThen | InIfElse.

Record aop := mk_aop {
  a_kind : akind; a_loc : aloc; a_order : morder;
  a_ctx : list actx;        (* enclosing control structure, outermost first *)
  a_arg : string            (* "<operand>;<use of the result>", printed canonically by translator/gen_locks.py *)
}.

Definition akind_eqb (a b : akind) : bool :=
  match a, b with ALoad, ALoad | AStore, AStore | AFetchAdd, AFetchAdd | AExchange, AExchange => true | _, _ => false end.
Definition aloc_eqb (a b : aloc) : bool :=
  match a, b with LNext, LNext | LServing, LServing | LLock, LLock => true | _, _ => false end.
Definition actx_eqb (a b : actx) : bool :=
  match a, b with
  | InWhileCond, InWhileCond | InWhileBody, InWhileBody | InIfCond, InIfCond | InIfThen, InIfThen | InIfElse, InIfElse => true
  | _, _ => false
  end.
Fixpoint list_eqb {A} (e : A -> A -> bool) (a b : list A) : bool :=
  match a, b with
  | [], [] => true
  | x :: a', y :: b' => e x y && list_eqb e a' b'
  | _, _ => false
  end.

(* same operation up to the memory order *)
Definition aop_shape_eqb (a b : aop) : bool :=
  akind_eqb (a_kind a) (a_kind b) && aloc_eqb (a_loc a) (a_loc b) &&
  list_eqb actx_eqb (a_ctx a) (a_ctx b) && String.eqb (a_arg a) (a_arg b).

Definition fn_listing := (string * list aop)%type.    (* "ticket_spinlock::lock", its atomic ops in source order *)

(* The listing this model implements (orders as they were when the model was written; [ops_match]
   ignores them, [orders_of]/[sufficient] read them from the source listing). *)
Definition model_listing : list fn_listing := [
  ("ticket_spinlock::lock"%string,
     [mk_aop AFetchAdd LNext Relaxed [] "1;=ticket"; mk_aop ALoad LServing Acquire [InWhileCond] ";!=ticket"]);
  ("ticket_spinlock::is_locked"%string,
     [mk_aop ALoad LServing Relaxed [] ";!=rhs-atomic"; mk_aop ALoad LNext Relaxed [] ";lhs-atomic!="]);
  ("ticket_spinlock::unlock"%string,
     [mk_aop ALoad LServing Relaxed [] ";=current"; mk_aop AStore LServing Release [] "current+1;"]);
  ("simple_spinlock::lock"%string,
     [mk_aop AExchange LLock Acquire [InWhileBody; InIfCond] "true;!"; mk_aop ALoad LLock Relaxed [InWhileBody; InWhileCond] ";"]);
  ("simple_spinlock::is_locked"%string, [mk_aop ALoad LLock Relaxed [] ";ret"]);
  ("simple_spinlock::unlock"%string, [mk_aop AStore LLock Release [] "false;"])
]%string.

Definition fn_shape_eqb (a b : fn_listing) : bool :=
  String.eqb (fst a) (fst b) && list_eqb aop_shape_eqb (snd a) (snd b).
Definition ops_match (src : list fn_listing) : bool := list_eqb fn_shape_eqb src model_listing.

(* The free helper functions of mutex.hpp as the guard model has them (GuardModel.helper_op): guard(&m) builds
   unique_lock(m) -- locking --, guard(dont_lock, &m) builds unique_lock(dont_lock, m) -- deferred, not owning.
   Listed here (tag parameter type, class built, constructor tag) because the generated file Gen/SpinOrders.v, which
   compares it with the source, imports this file. *)
Definition model_guard_helpers : list (string * (string * string)) :=
  [(""%string, ("unique_lock"%string, ""%string)); ("dont_lock_t"%string, ("unique_lock"%string, "dont_lock"%string))].
Definition helper_eqb (a b : string * (string * string)) : bool :=
  String.eqb (fst a) (fst b) && String.eqb (fst (snd a)) (fst (snd b)) && String.eqb (snd (snd a)) (snd (snd b)).
Definition guard_helpers_match (src : list (string * (string * string))) : bool := list_eqb helper_eqb src model_guard_helpers.

(* the memory orders the instrumented machine is parametrised by *)
Record orders := mk_orders {
  o_t_draw : morder;        (* ticket lock(): fetch_add on next_ticket_ *)
  o_t_spin : morder;        (* ticket lock(): load of serving_ticket_ in the loop condition *)
  o_t_unl_load : morder;    (* ticket unlock(): load of serving_ticket_ *)
  o_t_unl_store : morder;   (* ticket unlock(): store to serving_ticket_ *)
  o_s_xchg : morder;        (* simple lock(): exchange on lock_ *)
  o_s_wait : morder;        (* simple lock(): load of lock_ in the inner loop *)
  o_s_unl_store : morder    (* simple unlock(): store to lock_ *)
}.

Definition order_at (src : list fn_listing) (i j : nat) : morder :=
  a_order (nth j (snd (nth i src (""%string, []))) (mk_aop ALoad LLock Relaxed [] "")).
Definition orders_of (src : list fn_listing) : orders :=
  mk_orders (order_at src 0 0) (order_at src 0 1) (order_at src 2 0) (order_at src 2 1)
            (order_at src 3 0) (order_at src 3 1) (order_at src 5 0).

(* EXACTLY what the happens-before proofs need -- the SC/vector-clock ones (SpinProofs.v: inv_hb, sinv_hb) and the
   stale-read ones (SpinWeakProofs.v: TW2, SW2): acquire on the load of serving_ticket_ in lock(), release on the store
   in ticket unlock(), acquire on the exchange, release on the store in simple unlock().  Nothing is required of the
   fetch_add, of unlock()'s load, of the inner-loop load or of is_locked().  Each of the four is necessary: weakening
   any one to relaxed yields a racy run (Properties_C12.v, Example C12_acq_rel_weak_needs_orders). *)
Definition sufficient (o : orders) : bool :=
  is_acq (o_t_spin o) && is_rel (o_t_unl_store o) && is_acq (o_s_xchg o) && is_rel (o_s_unl_store o).

(* ------------------------------------------------------------------ vector clocks *)

Definition clock := tid -> nat.
Definition cbot : clock := fun _ => 0.
Definition cjoin (a b : clock) : clock := fun u => Nat.max (a u) (b u).
Definition ctick (a : clock) (t : tid) : clock := upd a t (S (a t)).
Definition cle (a b : clock) : Prop := forall u, a u <= b u.

(* effect of one atomic access by a thread with (already ticked) clock c on location clock l *)
Definition hb_load (o : morder) (c l : clock) : clock := if is_acq o then cjoin c l else c.
Definition hb_store (o : morder) (c : clock) : clock := if is_rel o then c else cbot.
(* read-modify-write: continues the release sequence (keeps l), adds c when it is itself a release *)
Definition hb_rmw_thread (o : morder) (c l : clock) : clock := if is_acq o then cjoin c l else c.
Definition hb_rmw_loc (o : morder) (c l : clock) : clock := if is_rel o then cjoin l c else l.

(* ------------------------------------------------------------------ ticket_spinlock: real machine *)

Inductive tpc :=
| TIdle                 (* outside lock()/unlock() and not holding *)
| TSpin (ticket : N)    (* in lock(): ticket drawn, next access is the load of serving_ticket_ *)
| TCrit                 (* lock() returned: in the critical section; next access is unlock()'s load *)
| TUnl (current : N).   (* in unlock(): between the load and the store *)

Record treal := mk_treal { t_next : N; t_serving : N; t_pc : tid -> tpc }.

Definition treal_init (next serving : N) : treal := mk_treal next serving (fun _ => TIdle).

(* one atomic access of thread t; threads with t >= n do not exist *)
Definition trstep (n : nat) (r : treal) (t : tid) : treal :=
  if Nat.leb n t then r else
  match t_pc r t with
  | TIdle =>          (* auto ticket = __atomic_fetch_add(&next_ticket_, 1, ...) *)
      mk_treal (N.modulo (t_next r + 1) W) (t_serving r) (upd (t_pc r) t (TSpin (t_next r)))
  | TSpin tk =>       (* while(__atomic_load_n(&serving_ticket_, ...) != ticket) *)
      if N.eqb (t_serving r) tk then mk_treal (t_next r) (t_serving r) (upd (t_pc r) t TCrit) else r
  | TCrit =>          (* auto current = __atomic_load_n(&serving_ticket_, ...) *)
      mk_treal (t_next r) (t_serving r) (upd (t_pc r) t (TUnl (t_serving r)))
  | TUnl c =>         (* __atomic_store_n(&serving_ticket_, current + 1, ...) *)
      mk_treal (t_next r) (N.modulo (c + 1) W) (upd (t_pc r) t TIdle)
  end.

(* is_locked(): serving_ticket_ != next_ticket_  (two relaxed loads; after fix 16d78ab -- it was serving < next,
   which is false for the holder once next_ticket_ has wrapped) *)
Definition t_is_locked (r : treal) : bool := negb (N.eqb (t_serving r) (t_next r)).

Definition t_holding (p : tpc) : bool := match p with TCrit | TUnl _ => true | _ => false end.
Definition t_waiting (p : tpc) : bool := match p with TSpin _ => true | _ => false end.

(* ------------------------------------------------------------------ ticket_spinlock: instrumented machine *)

Record tinst := mk_tinst {
  ti_real : treal;
  ti_vc : tid -> clock;          (* thread clocks *)
  ti_lserv : clock;              (* release clock of serving_ticket_ *)
  ti_lnext : clock;              (* release clock of next_ticket_ *)
  ti_draws : list tid;           (* recorder: who drew the k-th ticket *)
  ti_grants : list tid;          (* recorder: who made the k-th acquisition *)
  ti_gt : tid -> nat;            (* recorder: index (unbounded) of the ticket a thread drew last *)
  ti_released : nat;             (* recorder: number of release stores *)
  ti_relclk : list clock;        (* recorder: clock of the releasing thread at the k-th release store *)
  ti_acqclk : list clock         (* recorder: clock of the acquiring thread right after the k-th acquisition *)
}.

(* The real object starts with both counters 0 (constexpr constructor): [tinit].  [tinit_at base] starts both
   at base mod 2^32 -- the state after [base] uncontended lock/unlock pairs -- so that runs that cross the uint32
   wrap can be written down. *)
Definition tinit_at (base : N) : tinst :=
  mk_tinst (treal_init (N.modulo base W) (N.modulo base W)) (fun _ => cbot) cbot cbot [] [] (fun _ => 0) 0 [] [].
Definition tinit : tinst := tinit_at 0.

Definition tstep (o : orders) (n : nat) (s : tinst) (t : tid) : tinst :=
  let r := ti_real s in
  let r' := trstep n r t in
  if Nat.leb n t then s else
  let c := ctick (ti_vc s t) t in
  match t_pc r t with
  | TIdle =>
      mk_tinst r' (upd (ti_vc s) t (hb_rmw_thread (o_t_draw o) c (ti_lnext s)))
               (ti_lserv s) (hb_rmw_loc (o_t_draw o) c (ti_lnext s))
               (ti_draws s ++ [t]) (ti_grants s) (upd (ti_gt s) t (length (ti_draws s))) (ti_released s)
               (ti_relclk s) (ti_acqclk s)
  | TSpin tk =>
      let c' := hb_load (o_t_spin o) c (ti_lserv s) in
      if N.eqb (t_serving r) tk then
        mk_tinst r' (upd (ti_vc s) t c') (ti_lserv s) (ti_lnext s)
                 (ti_draws s) (ti_grants s ++ [t]) (ti_gt s) (ti_released s)
                 (ti_relclk s) (ti_acqclk s ++ [c'])
      else
        mk_tinst r' (upd (ti_vc s) t c') (ti_lserv s) (ti_lnext s)
                 (ti_draws s) (ti_grants s) (ti_gt s) (ti_released s) (ti_relclk s) (ti_acqclk s)
  | TCrit =>
      mk_tinst r' (upd (ti_vc s) t (hb_load (o_t_unl_load o) c (ti_lserv s))) (ti_lserv s) (ti_lnext s)
               (ti_draws s) (ti_grants s) (ti_gt s) (ti_released s) (ti_relclk s) (ti_acqclk s)
  | TUnl _ =>
      mk_tinst r' (upd (ti_vc s) t c) (hb_store (o_t_unl_store o) c) (ti_lnext s)
               (ti_draws s) (ti_grants s) (ti_gt s) (S (ti_released s))
               (ti_relclk s ++ [c]) (ti_acqclk s)
  end.

Definition trun_at (o : orders) (n : nat) (base : N) (sched : list tid) : tinst := fold_left (tstep o n) sched (tinit_at base).
Definition trun (o : orders) (n : nat) (sched : list tid) : tinst := trun_at o n 0 sched.

(* ------------------------------------------------------------------ simple_spinlock: real machine *)

Inductive spc :=
| SOut       (* outside lock(); its next access is the exchange of a fresh lock() call *)
| SXchg      (* in lock(): saw the lock free in the inner loop, next access is the exchange *)
| SLoad      (* in lock(): exchange returned true, next access is the inner-loop load *)
| SCrit.     (* lock() returned; next access is unlock()'s store *)

Record sreal := mk_sreal { s_lock : bool; s_pc : tid -> spc }.
Definition sreal_init : sreal := mk_sreal false (fun _ => SOut).

Definition srstep (n : nat) (r : sreal) (t : tid) : sreal :=
  if Nat.leb n t then r else
  match s_pc r t with
  | SOut | SXchg =>    (* if(!__atomic_exchange_n(&lock_, true, ...)) return; *)
      mk_sreal true (upd (s_pc r) t (if s_lock r then SLoad else SCrit))
  | SLoad =>           (* while(__atomic_load_n(&lock_, ...)) *)
      if s_lock r then r else mk_sreal (s_lock r) (upd (s_pc r) t SXchg)
  | SCrit =>           (* __atomic_store_n(&lock_, false, ...) *)
      mk_sreal false (upd (s_pc r) t SOut)
  end.

Definition s_is_locked (r : sreal) : bool := s_lock r.
Definition s_holding (p : spc) : bool := match p with SCrit => true | _ => false end.
Definition s_waiting (p : spc) : bool := match p with SXchg | SLoad => true | _ => false end.

Record sinst := mk_sinst {
  si_real : sreal;
  si_vc : tid -> clock;
  si_llock : clock;              (* release clock of lock_ *)
  si_holder : option tid;        (* recorder: who acquired last and has not released *)
  si_grants : list tid;
  si_released : nat;
  si_relclk : list clock;
  si_acqclk : list clock
}.

Definition sinit : sinst := mk_sinst sreal_init (fun _ => cbot) cbot None [] 0 [] [].

Definition sstep (o : orders) (n : nat) (s : sinst) (t : tid) : sinst :=
  let r := si_real s in
  let r' := srstep n r t in
  if Nat.leb n t then s else
  let c := ctick (si_vc s t) t in
  match s_pc r t with
  | SOut | SXchg =>
      let c' := hb_rmw_thread (o_s_xchg o) c (si_llock s) in
      let l' := hb_rmw_loc (o_s_xchg o) c (si_llock s) in
      if s_lock r then
        mk_sinst r' (upd (si_vc s) t c') l' (si_holder s) (si_grants s) (si_released s) (si_relclk s) (si_acqclk s)
      else
        mk_sinst r' (upd (si_vc s) t c') l' (Some t) (si_grants s ++ [t]) (si_released s)
                 (si_relclk s) (si_acqclk s ++ [c'])
  | SLoad =>
      mk_sinst r' (upd (si_vc s) t (hb_load (o_s_wait o) c (si_llock s))) (si_llock s)
               (si_holder s) (si_grants s) (si_released s) (si_relclk s) (si_acqclk s)
  | SCrit =>
      mk_sinst r' (upd (si_vc s) t c) (hb_store (o_s_unl_store o) c) None (si_grants s)
               (S (si_released s)) (si_relclk s ++ [c]) (si_acqclk s)
  end.

Definition srun (o : orders) (n : nat) (sched : list tid) : sinst := fold_left (sstep o n) sched sinit.

(* ------------------------------------------------------------------ script interface for the correspondence
   (virtual threads driven call by call on the real object, see comp/locks/spin_harness.cpp) *)

Inductive sres := SrSkip | SrTicket (k : N) | SrAcq | SrWait | SrOk | SrBool (b : bool).

(* lock() by v when it does not block: both accesses; otherwise nothing happens (the harness does not call) *)
Definition t_api_lock (n : nat) (r : treal) (v : tid) : treal * sres :=
  match t_pc r v with
  | TIdle =>
      let r2 := trstep n (trstep n r v) v in
      match t_pc r2 v with TCrit => (r2, SrAcq) | _ => (r, SrSkip) end
  | _ => (r, SrSkip)
  end.
(* first access of lock() alone (a contending thread draws its ticket and spins) *)
Definition t_api_draw (n : nat) (r : treal) (v : tid) : treal * sres :=
  match t_pc r v with
  | TIdle => let r1 := trstep n r v in
             match t_pc r1 v with TSpin k => (r1, SrTicket k) | _ => (r, SrSkip) end
  | _ => (r, SrSkip)
  end.
(* one evaluation of the loop condition *)
Definition t_api_spin (n : nat) (r : treal) (v : tid) : treal * sres :=
  match t_pc r v with
  | TSpin _ => let r1 := trstep n r v in
               (r1, match t_pc r1 v with TCrit => SrAcq | _ => SrWait end)
  | _ => (r, SrSkip)
  end.
Definition t_api_unlock (n : nat) (r : treal) (v : tid) : treal * sres :=
  match t_pc r v with
  | TCrit => (trstep n (trstep n r v) v, SrOk)
  | _ => (r, SrSkip)
  end.

Definition s_api_lock (n : nat) (r : sreal) (v : tid) : sreal * sres :=
  match s_pc r v with
  | SOut | SXchg => if s_lock r then (r, SrSkip) else (srstep n r v, SrAcq)
  | _ => (r, SrSkip)
  end.
(* a single exchange (succeeds or not) / a single inner-loop load *)
Definition s_api_xchg (n : nat) (r : sreal) (v : tid) : sreal * sres :=
  match s_pc r v with
  | SOut | SXchg => let r1 := srstep n r v in (r1, match s_pc r1 v with SCrit => SrAcq | _ => SrWait end)
  | _ => (r, SrSkip)
  end.
Definition s_api_load (n : nat) (r : sreal) (v : tid) : sreal * sres :=
  match s_pc r v with
  | SLoad => let r1 := srstep n r v in (r1, match s_pc r1 v with SXchg => SrOk | _ => SrWait end)
  | _ => (r, SrSkip)
  end.
Definition s_api_unlock (n : nat) (r : sreal) (v : tid) : sreal * sres :=
  match s_pc r v with
  | SCrit => (srstep n r v, SrOk)
  | _ => (r, SrSkip)
  end.
