(* A view-based release/acquire memory for ANY number of writers (generalisation of RadixConc/RAView.v,
   which has one writer).

   Memory: per location its MODIFICATION ORDER, a list of messages in the order they were written (the index of
   a message in that list is its timestamp).  Every location starts with one initial message.  A message
   carries its value, a flag "heads or continues a release sequence" ([mrel]) and, when the flag is set, the
   view that an acquire read of it obtains ([mview]).
   Thread state: a view V : loc -> nat; V l = i means "the thread has observed message i of l": it may no longer
   read a message of l older than i (coherence).
   * atomic LOAD of l with order o and choice c: may return ANY message with index in [V l, last]; which one is
     decided by the choice c (c = 0: the last one = sequential consistency; larger c = staler, capped at V l).
     Afterwards V l is that index.  If o is acquire and the message is flagged, V joins the message's view.
   * atomic STORE: appends at the end of the modification order; the writer's V l becomes the new index.  A
     release store records the writer's view (including the new index) in the message; a relaxed store records
     nothing (flag false): it breaks every release sequence (C++20 rule).
   * atomic READ-MODIFY-WRITE: reads the LAST message (atomicity), appends f(value) right after it.  If acquire
     and the message read is flagged, V joins that view.  The new message CONTINUES the release sequence of the
     message read (carries its view and flag) and, when the RMW is itself a release, adds the writer's view.
   No fences, no consume (treated as relaxed), no seq_cst total order (seq_cst = acq_rel here), no non-atomic
   accesses with data-race detection (a plain access is checked by the client: its view must cover the last
   message of the location). *)
From Coq Require Import List NArith Arith Bool Lia.
From FV Require Import Locks.SpinModel.
Import ListNotations.

Section RAM.
  Variable loc : Type.
  Variable loc_eqb : loc -> loc -> bool.
  Hypothesis loc_eqb_spec : forall a b, reflect (a = b) (loc_eqb a b).

  Definition view := loc -> nat.
  Record msg := mk_msg { mval : N; mrel : bool; mview : view }.
  Definition mem := loc -> list msg.

  Definition vbot : view := fun _ => 0.
  Definition vjoin (a b : view) : view := fun l => Nat.max (a l) (b l).
  Definition vset (V : view) (l : loc) (i : nat) : view := fun l' => if loc_eqb l l' then Nat.max (V l') i else V l'.
  Definition vle (a b : view) : Prop := forall l, a l <= b l.
  Definition mupd (M : mem) (l : loc) (h : list msg) : mem := fun l' => if loc_eqb l l' then h else M l'.

  Definition dmsg : msg := mk_msg 0 false vbot.
  Definition last_idx (M : mem) (l : loc) : nat := length (M l) - 1.
  Definition msg_at (M : mem) (l : loc) (i : nat) : msg := nth i (M l) dmsg.
  Definition last_msg (M : mem) (l : loc) : msg := msg_at M l (last_idx M l).

  (* index returned to a reader with view V under choice c *)
  Definition pick (M : mem) (V : view) (l : loc) (c : nat) : nat :=
    last_idx M l - Nat.min c (last_idx M l - V l).

  Definition ra_load (o : morder) (M : mem) (V : view) (l : loc) (c : nat) : N * view :=
    let i := pick M V l c in
    let m := msg_at M l i in
    let V1 := vset V l i in
    (mval m, if is_acq o && mrel m then vjoin V1 (mview m) else V1).

  Definition ra_store (o : morder) (M : mem) (V : view) (l : loc) (v : N) : mem * view :=
    let i := length (M l) in
    let V1 := vset V l i in
    (mupd M l (M l ++ [mk_msg v (is_rel o) (if is_rel o then V1 else vbot)]), V1).

  Definition ra_rmw (o : morder) (M : mem) (V : view) (l : loc) (f : N -> N) : N * mem * view :=
    let m0 := last_msg M l in
    let i := length (M l) in
    let V1 := vset V l i in
    let V2 := if is_acq o && mrel m0 then vjoin V1 (mview m0) else V1 in
    let carried := if mrel m0 then mview m0 else vbot in
    let mv := if is_rel o then vjoin carried V2 else carried in
    (mval m0, mupd M l (M l ++ [mk_msg (f (mval m0)) (mrel m0 || is_rel o) mv]), V2).

  (* ------------------------------------------------------------ well-formedness *)
  (* every location has its initial message; the views stored in messages point at existing messages *)
  Definition wf_mem (M : mem) : Prop :=
    forall l, 0 < length (M l) /\ forall k, k < length (M l) -> forall l', mview (msg_at M l k) l' < length (M l').
  Definition wf_view (M : mem) (V : view) : Prop := forall l, V l < length (M l).
  (* M' extends M: modification orders only grow at the end *)
  Definition mext (M M' : mem) : Prop :=
    forall l, length (M l) <= length (M' l) /\ forall k, k < length (M l) -> msg_at M' l k = msg_at M l k.

  Lemma vle_refl : forall a, vle a a.
  Proof. intros a l. lia. Qed.
  Lemma vle_trans : forall a b c, vle a b -> vle b c -> vle a c.
  Proof. intros a b c H1 H2 l. specialize (H1 l). specialize (H2 l). lia. Qed.
  Lemma vle_join_l : forall a b, vle a (vjoin a b).
  Proof. intros a b l. unfold vjoin. lia. Qed.
  Lemma vle_join_r : forall a b, vle b (vjoin a b).
  Proof. intros a b l. unfold vjoin. lia. Qed.
  Lemma vle_vset : forall V l i, vle V (vset V l i).
  Proof. intros V l i l'. unfold vset. destruct (loc_eqb l l'); lia. Qed.

  Lemma vset_same : forall V l i, vset V l i l = Nat.max (V l) i.
  Proof. intros. unfold vset. destruct (loc_eqb_spec l l); congruence. Qed.
  Lemma vset_other : forall V l i l', l <> l' -> vset V l i l' = V l'.
  Proof. intros. unfold vset. destruct (loc_eqb_spec l l'); congruence. Qed.
  Lemma mupd_same : forall M l h, mupd M l h l = h.
  Proof. intros. unfold mupd. destruct (loc_eqb_spec l l); congruence. Qed.
  Lemma mupd_other : forall M l h l', l <> l' -> mupd M l h l' = M l'.
  Proof. intros. unfold mupd. destruct (loc_eqb_spec l l'); congruence. Qed.

  Lemma mext_refl : forall M, mext M M.
  Proof. intros M l. split; [lia|reflexivity]. Qed.
  Lemma mext_trans : forall A B C, mext A B -> mext B C -> mext A C.
  Proof.
    intros A B C H1 H2 l. destruct (H1 l) as [L1 E1]. destruct (H2 l) as [L2 E2]. split; [lia|].
    intros k Hk. rewrite E2 by lia. apply E1. exact Hk.
  Qed.
  Lemma mext_append : forall M l m, mext M (mupd M l (M l ++ [m])).
  Proof.
    intros M l m l'. unfold msg_at. destruct (loc_eqb_spec l l') as [<-|Hne].
    - rewrite mupd_same, app_length. cbn. split; [lia|]. intros k Hk. apply app_nth1. exact Hk.
    - rewrite mupd_other by assumption. split; [lia|reflexivity].
  Qed.
  Lemma wf_view_mext : forall M M' V, mext M M' -> wf_view M V -> wf_view M' V.
  Proof. intros M M' V He Hv l. destruct (He l) as [L _]. specialize (Hv l). lia. Qed.

  (* ------------------------------------------------------------ which messages a load may return *)
  Lemma pick_adm : forall M V l c, wf_view M V -> V l <= pick M V l c <= last_idx M l.
  Proof. intros M V l c Hv. specialize (Hv l). unfold pick, last_idx in *. lia. Qed.
  Lemma pick_stale : forall M V l c, last_idx M l - pick M V l c <= c.
  Proof. intros. unfold pick. lia. Qed.
  Lemma pick_zero : forall M V l, pick M V l 0 = last_idx M l.
  Proof. intros. unfold pick. cbn. lia. Qed.
  (* ANY message at or after the view can be returned *)
  Lemma pick_complete : forall M V l i, V l <= i <= last_idx M l -> pick M V l (last_idx M l - i) = i.
  Proof. intros. unfold pick. lia. Qed.

  (* ------------------------------------------------------------ effect of the accesses *)
  Lemma load_view_mono : forall o M V l c, vle V (snd (ra_load o M V l c)).
  Proof.
    intros. unfold ra_load. cbn [snd]. destruct (is_acq o && mrel _).
    - eapply vle_trans; [apply vle_vset|apply vle_join_l].
    - apply vle_vset.
  Qed.
  Lemma load_view_at : forall o M V l c, wf_view M V -> pick M V l c <= snd (ra_load o M V l c) l.
  Proof.
    intros o M V l c Hv. unfold ra_load. cbn [snd]. destruct (is_acq o && mrel _); unfold vjoin; rewrite vset_same; lia.
  Qed.
  Lemma load_acquires : forall o M V l c, is_acq o = true -> mrel (msg_at M l (pick M V l c)) = true ->
    vle (mview (msg_at M l (pick M V l c))) (snd (ra_load o M V l c)).
  Proof. intros o M V l c Ha Hr. unfold ra_load. cbn [snd]. rewrite Ha, Hr. cbn. apply vle_join_r. Qed.
  Lemma load_wf : forall o M V l c, wf_mem M -> wf_view M V -> wf_view M (snd (ra_load o M V l c)).
  Proof.
    intros o M V l c Hm Hv. pose proof (pick_adm M V l c Hv) as Hp.
    assert (Hlt : pick M V l c < length (M l)) by (destruct (Hm l) as [Hpos _]; unfold last_idx in Hp; lia).
    assert (H1 : wf_view M (vset V l (pick M V l c))).
    { intros l'. unfold vset. destruct (loc_eqb_spec l l') as [<-|]; [|apply Hv]. specialize (Hv l). lia. }
    unfold ra_load. cbn [snd]. destruct (is_acq o && mrel _); [|exact H1].
    intros l'. unfold vjoin. specialize (H1 l'). destruct (Hm l) as [_ Hb]. specialize (Hb _ Hlt l'). lia.
  Qed.

  Lemma store_mext : forall o M V l v, mext M (fst (ra_store o M V l v)).
  Proof. intros. unfold ra_store. cbn [fst]. apply mext_append. Qed.
  Lemma store_view_wf : forall o M V l v, wf_view M V -> wf_view (fst (ra_store o M V l v)) (snd (ra_store o M V l v)).
  Proof.
    intros o M V l v Hv l'. unfold ra_store. cbn [fst snd]. unfold vset, mupd.
    destruct (loc_eqb_spec l l') as [<-|]; [|apply Hv]. rewrite app_length. cbn. specialize (Hv l). lia.
  Qed.
  Lemma store_wf : forall o M V l v, wf_mem M -> wf_view M V -> wf_mem (fst (ra_store o M V l v)).
  Proof.
    intros o M V l v Hm Hv.
    pose proof (store_mext o M V l v) as He. pose proof (store_view_wf o M V l v Hv) as Hv'.
    set (M' := fst (ra_store o M V l v)) in *.
    assert (Hnewv : forall l', (if is_rel o then vset V l (length (M l)) else vbot) l' < length (M' l')).
    { intros l'. destruct (is_rel o); [exact (Hv' l')|]. unfold vbot. destruct (He l') as [L _]. destruct (Hm l') as [P _]. lia. }
    intros l1. split.
    - destruct (He l1) as [L _]. destruct (Hm l1) as [P _]. lia.
    - intros k Hk l'. destruct (Nat.lt_ge_cases k (length (M l1))) as [Hold|Hnew].
      + destruct (He l1) as [_ E]. rewrite E by exact Hold. destruct (Hm l1) as [_ B]. specialize (B k Hold l').
        destruct (He l') as [L _]. lia.
      + (* the new message *)
        destruct (loc_eqb_spec l l1) as [<-|Hne].
        * assert (k = length (M l)) as ->.
          { unfold M', ra_store in Hk. cbn [fst] in Hk. rewrite mupd_same, app_length in Hk. cbn in Hk. lia. }
          replace (mview (msg_at M' l (length (M l)))) with (if is_rel o then vset V l (length (M l)) else vbot); [apply Hnewv|].
          unfold M', ra_store, msg_at. cbn [fst]. rewrite mupd_same, app_nth2, Nat.sub_diag by lia. reflexivity.
        * unfold M', ra_store in Hk. cbn [fst] in Hk. rewrite mupd_other in Hk by assumption. lia.
  Qed.

  Lemma rmw_mext : forall o M V l f, mext M (snd (fst (ra_rmw o M V l f))).
  Proof. intros. unfold ra_rmw. cbn [fst snd]. apply mext_append. Qed.
  Lemma rmw_view_mono : forall o M V l f, vle V (snd (ra_rmw o M V l f)).
  Proof.
    intros. unfold ra_rmw. cbn [snd]. destruct (is_acq o && mrel _).
    - eapply vle_trans; [apply vle_vset|apply vle_join_l].
    - apply vle_vset.
  Qed.
  Lemma rmw_acquires : forall o M V l f, is_acq o = true -> mrel (last_msg M l) = true ->
    vle (mview (last_msg M l)) (snd (ra_rmw o M V l f)).
  Proof. intros o M V l f Ha Hr. unfold ra_rmw. cbn [snd]. rewrite Ha, Hr. cbn. apply vle_join_r. Qed.
  Lemma rmw_view_wf : forall o M V l f, wf_mem M -> wf_view M V ->
    wf_view (snd (fst (ra_rmw o M V l f))) (snd (ra_rmw o M V l f)).
  Proof.
    intros o M V l f Hm Hv. pose proof (rmw_mext o M V l f) as He.
    unfold ra_rmw in *. cbn [fst snd] in *.
    set (M' := mupd M l (M l ++ [_])) in *.
    assert (H1 : wf_view M' (vset V l (length (M l)))).
    { intros l'. unfold vset. destruct (loc_eqb_spec l l') as [<-|Hne].
      - unfold M'. rewrite mupd_same, app_length. cbn. specialize (Hv l). lia.
      - destruct (He l') as [L _]. specialize (Hv l'). lia. }
    destruct (is_acq o && mrel (last_msg M l)); [|exact H1].
    intros l'. unfold vjoin. specialize (H1 l').
    assert (mview (last_msg M l) l' < length (M l')) as Hb.
    { destruct (Hm l) as [P B]. apply B. unfold last_idx. lia. }
    destruct (He l') as [L _]. lia.
  Qed.
  Lemma rmw_wf : forall o M V l f, wf_mem M -> wf_view M V -> wf_mem (snd (fst (ra_rmw o M V l f))).
  Proof.
    intros o M V l f Hm Hv.
    pose proof (rmw_mext o M V l f) as He. pose proof (rmw_view_wf o M V l f Hm Hv) as Hv'.
    set (M' := snd (fst (ra_rmw o M V l f))) in *.
    assert (Hlast : forall l', mview (last_msg M l) l' < length (M' l')).
    { intros l'. destruct (Hm l) as [P B]. specialize (B (last_idx M l)). unfold last_idx in B.
      assert (length (M l) - 1 < length (M l)) as Hlt by lia. specialize (B Hlt l'). destruct (He l') as [L _].
      unfold last_msg, last_idx. lia. }
    assert (Hzero : forall l', 0 < length (M' l')).
    { intros l'. destruct (He l') as [L _]. destruct (Hm l') as [P _]. lia. }
    pose (V2 := snd (ra_rmw o M V l f)).
    pose (mv := if is_rel o then vjoin (if mrel (last_msg M l) then mview (last_msg M l) else vbot) V2
                else (if mrel (last_msg M l) then mview (last_msg M l) else vbot)).
    assert (Hnewv : forall l', mv l' < length (M' l')).
    { intros l'. unfold mv.
      assert (Hc : (if mrel (last_msg M l) then mview (last_msg M l) else vbot) l' < length (M' l')).
      { destruct (mrel (last_msg M l)); [apply Hlast|]. unfold vbot. apply Hzero. }
      destruct (is_rel o); [|exact Hc]. unfold vjoin. pose proof (Hv' l') as Hx. fold V2 in Hx. lia. }
    intros l1. split; [apply Hzero|].
    intros k Hk l'. destruct (Nat.lt_ge_cases k (length (M l1))) as [Hold|Hnew].
    - destruct (He l1) as [_ E]. rewrite E by exact Hold. destruct (Hm l1) as [_ B]. specialize (B k Hold l').
      destruct (He l') as [L _]. lia.
    - destruct (loc_eqb_spec l l1) as [<-|Hne].
      + assert (k = length (M l)) as ->.
        { unfold M', ra_rmw in Hk. cbn [fst snd] in Hk. rewrite mupd_same, app_length in Hk. cbn in Hk. lia. }
        replace (mview (msg_at M' l (length (M l)))) with mv; [apply Hnewv|].
        unfold M', mv, V2, ra_rmw, msg_at. cbn [fst snd]. rewrite mupd_same, app_nth2, Nat.sub_diag by lia. reflexivity.
      + unfold M', ra_rmw in Hk. cbn [fst snd] in Hk. rewrite mupd_other in Hk by assumption. lia.
  Qed.
End RAM.

Arguments mk_msg {loc}.
Arguments mval {loc}.
Arguments mrel {loc}.
Arguments mview {loc}.
Arguments vbot {loc}.
Arguments vjoin {loc}.
Arguments vle {loc}.
Arguments dmsg {loc}.
Arguments last_idx {loc}.
Arguments msg_at {loc}.
Arguments last_msg {loc}.
Arguments wf_mem {loc}.
Arguments wf_view {loc}.
Arguments mext {loc}.
