(* Proofs about the spinlocks over the stale-read memory (SpinWeak.v over RAMulti.v). *)
From Coq Require Import List NArith ZArith Arith Bool Lia.
From Coq Require Import ZifyBool ZifyNat ZifyN.
From FV Require Import Locks.SpinModel Locks.SpinProofs.
From FV Require Import Locks.RAMulti Locks.SpinWeak.
Import ListNotations.

Ltac Zify.zify_post_hook ::= Z.div_mod_to_equations.

Lemma wloc_eqb_spec : forall a b, reflect (a = b) (wloc_eqb a b).
Proof. intros [] []; cbn; constructor; congruence. Qed.

(* the generic lemmas of RAMulti.v at the locations of the spinlocks *)
Definition w_load_view_at := load_view_at wloc wloc_eqb wloc_eqb_spec.
Definition w_load_view_mono := load_view_mono wloc wloc_eqb.
Definition w_load_wf := load_wf wloc wloc_eqb wloc_eqb_spec.
Definition w_load_acquires := load_acquires wloc wloc_eqb.
Definition w_mupd_same := mupd_same wloc wloc_eqb wloc_eqb_spec.
Definition w_mupd_other := mupd_other wloc wloc_eqb wloc_eqb_spec.
Definition w_vset_same := vset_same wloc wloc_eqb wloc_eqb_spec.
Definition w_vset_other := vset_other wloc wloc_eqb wloc_eqb_spec.
Definition w_store_wf := store_wf wloc wloc_eqb wloc_eqb_spec.
Definition w_store_view_wf := store_view_wf wloc wloc_eqb wloc_eqb_spec.
Definition w_store_mext := store_mext wloc wloc_eqb wloc_eqb_spec.
Definition w_rmw_wf := rmw_wf wloc wloc_eqb wloc_eqb_spec.
Definition w_rmw_view_wf := rmw_view_wf wloc wloc_eqb wloc_eqb_spec.
Definition w_rmw_mext := rmw_mext wloc wloc_eqb wloc_eqb_spec.
Definition w_rmw_view_mono := rmw_view_mono wloc wloc_eqb.
Definition w_rmw_acquires := rmw_acquires wloc wloc_eqb.

(* ------------------------------------------------------------------ the accesses, as equations *)

Lemma last_msg_app : forall (M : wmem) l h m, M l = h ++ [m] -> last_msg M l = m.
Proof.
  intros M l h m E. unfold last_msg, msg_at, last_idx. rewrite E, app_length. cbn [length].
  replace (length h + 1 - 1) with (length h) by lia. rewrite app_nth2, Nat.sub_diag by lia. reflexivity.
Qed.
Lemma msg_at_app_old : forall (M M' : wmem) l m k, M' l = M l ++ [m] -> k < length (M l) -> msg_at M' l k = msg_at M l k.
Proof. intros M M' l m k E Hk. unfold msg_at. rewrite E. apply app_nth1. exact Hk. Qed.
Lemma msg_at_app_new : forall (M M' : wmem) l m, M' l = M l ++ [m] -> msg_at M' l (length (M l)) = m.
Proof. intros M M' l m E. unfold msg_at. rewrite E, app_nth2, Nat.sub_diag by lia. reflexivity. Qed.

Lemma wrmw_eq : forall o M V l f v M' V', wrmw o M V l f = (v, M', V') ->
  v = mval (last_msg M l) /\
  (exists m, M' l = M l ++ [m] /\ mval m = f v) /\ (forall l', l' <> l -> M' l' = M l') /\
  M' = snd (fst (wrmw o M V l f)) /\ V' = snd (wrmw o M V l f).
Proof.
  intros o M V l f v M' V' E. pose proof E as E0. unfold wrmw, ra_rmw in E. inversion E; subst; clear E.
  split; [reflexivity|]. split.
  - eexists. rewrite w_mupd_same. split; reflexivity.
  - split; [intros l' Hne; apply w_mupd_other; congruence|].
    rewrite E0. split; reflexivity.
Qed.

Lemma wstore_eq : forall o M V l v M' V', wf_view M V -> wstore o M V l v = (M', V') ->
  M' l = M l ++ [mk_msg v (is_rel o) (if is_rel o then V' else vbot)] /\ (forall l', l' <> l -> M' l' = M l') /\
  V' l = length (M l) /\ (forall l', l' <> l -> V' l' = V l') /\
  M' = fst (wstore o M V l v) /\ V' = snd (wstore o M V l v).
Proof.
  intros o M V l v M' V' Hv E. pose proof E as E0. unfold wstore, ra_store in E. inversion E; subst; clear E.
  split; [rewrite w_mupd_same; reflexivity|].
  split; [intros l' Hne; apply w_mupd_other; congruence|].
  split; [|split; [intros l' Hne; apply w_vset_other; congruence|rewrite E0; split; reflexivity]].
  rewrite w_vset_same. specialize (Hv l). lia.
Qed.

Lemma wload_eq : forall o M V l c v V', wf_mem M -> wf_view M V -> wload o M V l c = (v, V') ->
  let j := pick wloc M V l c in
  v = mval (msg_at M l j) /\ V l <= j <= last_idx M l /\ last_idx M l - j <= c /\
  j <= V' l /\ vle V V' /\ wf_view M V' /\
  (is_acq o = true -> mrel (msg_at M l j) = true -> vle (mview (msg_at M l j)) V').
Proof.
  intros o M V l c v V' Hm Hv E j.
  assert (V' = snd (wload o M V l c)) as -> by (rewrite E; reflexivity).
  assert (v = fst (wload o M V l c)) as -> by (rewrite E; reflexivity).
  split; [reflexivity|]. split; [apply (pick_adm wloc); exact Hv|]. split; [apply pick_stale|].
  split; [apply w_load_view_at; exact Hv|].
  split; [apply w_load_view_mono|].
  split; [apply w_load_wf; assumption|].
  apply w_load_acquires.
Qed.

(* ================================================================== ticket_spinlock, stale reads *)

Section TicketWeak.
Variable o : orders.
Variable n : nat.
Variable base : N.
Hypothesis Hn : (N.of_nat n < W)%N.

Definition whead (s : wt) : tid := nth (wt_released s) (wt_draws s) 0.
Definition wholder_now (s : wt) : bool :=
  Nat.ltb (wt_released s) (length (wt_draws s)) && w_holding (wt_pc s (whead s)).
Definition wpast_now (s : wt) : bool :=
  Nat.ltb (wt_released s) (length (wt_draws s)) && w_past (wt_pc s (whead s)).

(* order-independent part of the invariant *)
Record TW1 (s : wt) : Prop := mk_TW1 {
  w_wfm : wf_mem (wt_mem s);
  w_wfv : forall t, wf_view (wt_mem s) (wt_view s t);
  (* next_ticket_: its last message is base + number of draws; serving_ticket_: its modification order is
     base, base+1, ..., base+released, written only by release stores of holders *)
  w_next_last : mval (last_msg (wt_mem s) WNext) = ((base + N.of_nat (length (wt_draws s))) mod W)%N;
  w_serv_len : length (wt_mem s WServing) = S (wt_released s);
  w_serv_val : forall k, k <= wt_released s -> mval (msg_at (wt_mem s) WServing k) = ((base + N.of_nat k) mod W)%N;
  w_data_len : length (wt_mem s WData) = S (wt_released s + (if wpast_now s then 1 else 0));
  w_le : wt_released s <= length (wt_draws s);
  w_own : forall k, wt_released s <= k < length (wt_draws s) ->
          wt_gt s (nth k (wt_draws s) 0) = k /\ wt_pc s (nth k (wt_draws s) 0) <> WIdle /\ nth k (wt_draws s) 0 < n;
  w_pc : forall t, wt_pc s t <> WIdle ->
         wt_released s <= wt_gt s t < length (wt_draws s) /\ nth (wt_gt s t) (wt_draws s) 0 = t;
  w_spin : forall t tk, wt_pc s t = WSpin tk -> tk = ((base + N.of_nat (wt_gt s t)) mod W)%N;
  w_hold : forall t, w_holding (wt_pc s t) = true -> wt_gt s t = wt_released s;
  w_unl : forall t c, wt_pc s t = WUnl c -> c = ((base + N.of_nat (wt_released s)) mod W)%N;
  w_glen : length (wt_grants s) = wt_released s + (if wholder_now s then 1 else 0);
  w_grants : wt_grants s = firstn (length (wt_grants s)) (wt_draws s);
  (* a holder has observed the last message of serving_ticket_ (the one that let it in) *)
  w_hview : forall t, w_holding (wt_pc s t) = true -> wt_view s t WServing = wt_released s;
  w_alen : length (wt_acqview s) = length (wt_grants s);
  w_rlen : length (wt_relview s) = wt_released s
}.

Ltac wproj := cbn [wt_mem wt_pc wt_view wt_draws wt_grants wt_gt wt_released wt_relview wt_acqview wt_race] in *.

Lemma TW1_init : TW1 (wt_init_at base).
Proof.
  constructor; unfold wpast_now, wholder_now, whead, wt_init_at; wproj.
  - intros l. split; [destruct l; cbn; lia|].
    intros k Hk l'. unfold msg_at, init_msg. destruct l; cbn in Hk |- *; (destruct k as [|k]; [|lia]); destruct l'; cbn; unfold vbot; lia.
  - intros t l. unfold vbot. destruct l; cbn; lia.
  - cbn. unfold W. lia.
  - reflexivity.
  - intros k Hk. assert (k = 0) as -> by lia. cbn. unfold W. lia.
  - reflexivity.
  - cbn. lia.
  - cbn. intros k Hk. lia.
  - intros t H. congruence.
  - intros t tk H. discriminate.
  - intros t H. discriminate.
  - intros t c H. discriminate.
  - reflexivity.
  - reflexivity.
  - intros t H. discriminate.
  - reflexivity.
  - reflexivity.
Qed.

Lemma w_outstanding_le : forall s, TW1 s -> length (wt_draws s) - wt_released s <= n.
Proof.
  intros s I. apply (pigeon (fun k => nth k (wt_draws s) 0)).
  - intros k Hk. apply (w_own s I k Hk).
  - intros k1 k2 H1 H2 Heq.
    destruct (w_own s I k1 H1) as (A & _). destruct (w_own s I k2 H2) as (B & _). congruence.
Qed.

Lemma w_holding_not_idle : forall p, w_holding p = true -> p <> WIdle.
Proof. intros [] H; cbn in H; congruence. Qed.

(* A waiter that reads its own ticket value from serving_ticket_ -- from ANY admissible, possibly stale,
   message j whose staleness is below 2^32 - n -- has read the LAST message, and it is the head of the queue. *)
Lemma w_spin_success_head : forall s t tk j c, TW1 s ->
  wt_pc s t = WSpin tk -> j <= wt_released s -> wt_released s - j <= c -> (N.of_nat c + N.of_nat n <= W)%N ->
  mval (msg_at (wt_mem s) WServing j) = tk ->
  j = wt_released s /\ wt_gt s t = wt_released s /\ whead s = t /\ wholder_now s = false /\ wpast_now s = false.
Proof.
  intros s t tk j c I Hpc Hj Hst Hc Hval.
  assert (wt_pc s t <> WIdle) as Hni by congruence.
  destruct (w_pc s I t Hni) as ((Hlo & Hhi) & Hnth).
  pose proof (w_spin s I t tk Hpc) as Htk. rewrite (w_serv_val s I j Hj) in Hval.
  pose proof (w_outstanding_le s I) as Hout.
  assert (j = wt_gt s t) as Heq.
  { apply (mod_W_inj base); [lia| |congruence]. unfold W in *. lia. }
  assert (wt_gt s t = wt_released s) as HR by lia.
  split; [lia|]. split; [exact HR|].
  unfold whead, wholder_now, wpast_now, whead. rewrite <- HR, Hnth, Hpc. cbn. rewrite !andb_false_r. auto.
Qed.

Lemma TW1_mutex : forall s t1 t2, TW1 s -> w_holding (wt_pc s t1) = true -> w_holding (wt_pc s t2) = true -> t1 = t2.
Proof.
  intros s t1 t2 I H1 H2.
  destruct (w_pc s I t1 (w_holding_not_idle _ H1)) as (_ & A).
  destruct (w_pc s I t2 (w_holding_not_idle _ H2)) as (_ & B).
  rewrite (w_hold s I t1 H1) in A. rewrite (w_hold s I t2 H2) in B. congruence.
Qed.

(* a holder is the head of the queue *)
Lemma TW1_holder_head : forall s t, TW1 s -> w_holding (wt_pc s t) = true ->
  wt_released s < length (wt_draws s) /\ whead s = t.
Proof.
  intros s t I H. destruct (w_pc s I t (w_holding_not_idle _ H)) as ((_ & A) & B).
  rewrite (w_hold s I t H) in A, B. split; [exact A|exact B].
Qed.

(* ---- every step of every thread, with every (boundedly stale) choice, preserves TW1 *)
Lemma TW1_step : forall s t c, TW1 s -> (N.of_nat c + N.of_nat n <= W)%N -> TW1 (wt_step o n s (t, c)).
Proof.
  intros s t c I Hc. unfold wt_step. cbn [fst snd]. destruct (Nat.leb n t) eqn:Hle; [exact I|].
  apply Nat.leb_gt in Hle.
  pose proof I as I0.
  destruct s as [M pc view D G gt R relview acqview race].
  destruct I as [Iwfm Iwfv Inext Islen Isval Idlen Ile Iown Ipc Ispin Ihold Iunl Iglen Igr Ihview Ialen Irlen].
  unfold wpast_now, wholder_now, whead in *. wproj.
  destruct (pc t) eqn:Hpc.
  - (* WIdle: draw a ticket (RMW: reads the last message of next_ticket_) *)
    destruct (wrmw (o_t_draw o) M (view t) WNext (fun x => ((x + 1) mod W)%N)) as [[v M'] V'] eqn:E.
    apply wrmw_eq in E. destruct E as (Ev & (m & EM & Emv) & Eoth & EM' & EV').
    assert (Hne : forall k, R <= k < length D -> nth k D 0 <> t).
    { intros k Hk Heq. destruct (Iown k Hk) as (_ & B & _). rewrite Heq in B. congruence. }
    assert (Hext : mext M M') by (rewrite EM'; apply w_rmw_mext).
    constructor; unfold wpast_now, wholder_now, whead; wproj.
    + rewrite EM'. apply w_rmw_wf; auto.
    + intros u. destruct (Nat.eq_dec u t) as [->|Hut].
      * rewrite upd_same. rewrite EM', EV'. apply w_rmw_view_wf; auto.
      * rewrite upd_other by assumption. eapply wf_view_mext; eauto.
    + rewrite (last_msg_app M' WNext _ m EM), Emv, Ev, Inext, app_length. cbn [length]. rewrite mod_W_succ. f_equal. lia.
    + rewrite (Eoth WServing) by discriminate. exact Islen.
    + intros k Hk. unfold msg_at. rewrite (Eoth WServing) by discriminate. apply Isval. exact Hk.
    + rewrite (Eoth WData) by discriminate. rewrite Idlen. do 2 f_equal. rewrite app_length. cbn [length].
      destruct (Nat.ltb_spec R (length D)) as [Hlt|Hge].
      * assert (R <= R < length D) as Hk by lia. pose proof (Hne R Hk).
        rewrite app_nth1 by lia. rewrite upd_other by assumption.
        destruct (Nat.ltb_spec R (length D + 1)); [|lia]. reflexivity.
      * assert (R = length D) as -> by lia.
        rewrite app_nth2, Nat.sub_diag by lia. cbn [nth]. rewrite upd_same. cbn [w_past].
        rewrite andb_false_r. reflexivity.
    + rewrite app_length. cbn. lia.
    + intros k Hk. rewrite app_length in Hk. cbn [length] in Hk.
      destruct (Nat.eq_dec k (length D)) as [->|Hk'].
      * rewrite app_nth2, Nat.sub_diag by lia. cbn [nth]. rewrite !upd_same. repeat split; [congruence|lia].
      * rewrite app_nth1 by lia. assert (R <= k < length D) as Hk2 by lia.
        pose proof (Hne k Hk2). destruct (Iown k Hk2) as (A & B & C).
        rewrite !upd_other by assumption. auto.
    + intros u Hu. rewrite app_length. cbn [length].
      destruct (Nat.eq_dec u t) as [->|Hut].
      * rewrite upd_same. split; [lia|]. rewrite app_nth2, Nat.sub_diag by lia. reflexivity.
      * rewrite upd_other in Hu |- * by assumption. destruct (Ipc u Hu) as (A & B).
        split; [lia|]. rewrite app_nth1 by lia. exact B.
    + intros u tk Hu. destruct (Nat.eq_dec u t) as [->|Hut].
      * rewrite upd_same in Hu |- *. injection Hu as <-. rewrite Ev. exact Inext.
      * rewrite upd_other in Hu |- * by assumption. eauto.
    + intros u Hu. destruct (Nat.eq_dec u t) as [->|Hut].
      * rewrite upd_same in Hu. discriminate.
      * rewrite upd_other in Hu |- * by assumption. eauto.
    + intros u c0 Hu. destruct (Nat.eq_dec u t) as [->|Hut].
      * rewrite upd_same in Hu. discriminate.
      * rewrite upd_other in Hu by assumption. eauto.
    + rewrite Iglen. apply f_equal. rewrite app_length. cbn [length].
      destruct (Nat.ltb_spec R (length D)) as [Hlt|Hge].
      * assert (R <= R < length D) as Hk by lia. pose proof (Hne R Hk).
        rewrite app_nth1 by lia. rewrite upd_other by assumption.
        destruct (Nat.ltb_spec R (length D + 1)); [|lia]. reflexivity.
      * assert (R = length D) as -> by lia.
        rewrite app_nth2, Nat.sub_diag by lia. cbn [nth]. rewrite upd_same. cbn [w_holding].
        rewrite andb_false_r. reflexivity.
    + rewrite firstn_app_le; [exact Igr|]. rewrite Iglen.
      destruct (Nat.ltb_spec R (length D)); cbn [andb]; [|lia]. destruct (w_holding _); lia.
    + intros u Hu. destruct (Nat.eq_dec u t) as [->|Hut].
      * rewrite upd_same in Hu. discriminate.
      * rewrite upd_other in Hu |- * by assumption. eauto.
    + exact Ialen.
    + exact Irlen.
  - (* WSpin: one evaluation of the loop condition, possibly on a stale message *)
    destruct (wload (o_t_spin o) M (view t) WServing c) as [v V'] eqn:E.
    apply wload_eq in E; auto. cbv zeta in E.
    set (j := pick wloc M (view t) WServing c) in *.
    destruct E as (Ev & (Hjlo & Hjhi) & Hjst & HjV & Hmono & HwfV & _).
    assert (HjR : j <= R) by (unfold last_idx in Hjhi; rewrite Islen in Hjhi; lia).
    assert (HwfV' : forall u, wf_view M (upd view t V' u)).
    { intros u. destruct (Nat.eq_dec u t) as [->|Hut]; [rewrite upd_same; exact HwfV|rewrite upd_other by assumption; apply Iwfv]. }
    destruct (N.eqb v ticket) eqn:Heq.
    + (* leaves the loop *)
      apply N.eqb_eq in Heq. rewrite Ev in Heq.
      assert (Hst : R - j <= c) by (unfold last_idx in Hjst; rewrite Islen in Hjst; lia).
      destruct (w_spin_success_head _ t ticket j c I0 Hpc HjR Hst Hc Heq) as (HjeqR & Hgt & Hhead & Hnh & Hnp).
      unfold whead, wholder_now, wpast_now, whead in Hgt, Hhead, Hnh, Hnp. wproj.
      assert (tpcs_ne : pc t <> WIdle) by congruence.
      destruct (Ipc t tpcs_ne) as ((_ & HgtD) & _). rewrite Hgt in HgtD.
      rewrite Hnh in Iglen. rewrite Nat.add_0_r in Iglen. rewrite Hnp in Idlen.
      constructor; unfold wpast_now, wholder_now, whead; wproj; auto.
      * rewrite Idlen. do 2 f_equal. destruct (Nat.ltb_spec R (length D)); [|lia]. rewrite Hhead, upd_same. reflexivity.
      * intros k Hk. destruct (Iown k Hk) as (A & B & C). repeat split; auto.
        destruct (Nat.eq_dec (nth k D 0) t) as [->|Hne]; [rewrite upd_same; congruence|rewrite upd_other by assumption; exact B].
      * intros u Hu. destruct (Nat.eq_dec u t) as [->|Hut]; [apply Ipc; congruence|].
        rewrite upd_other in Hu by assumption. auto.
      * intros u tk Hu. destruct (Nat.eq_dec u t) as [->|Hut]; [rewrite upd_same in Hu; discriminate|].
        rewrite upd_other in Hu by assumption. eauto.
      * intros u Hu. destruct (Nat.eq_dec u t) as [->|Hut]; [exact Hgt|].
        rewrite upd_other in Hu by assumption. eauto.
      * intros u c0 Hu. destruct (Nat.eq_dec u t) as [->|Hut]; [rewrite upd_same in Hu; discriminate|].
        rewrite upd_other in Hu by assumption. eauto.
      * rewrite app_length. cbn [length]. rewrite Iglen. apply f_equal.
        destruct (Nat.ltb_spec R (length D)); [|lia]. rewrite Hhead, upd_same. reflexivity.
      * rewrite app_length. cbn [length]. rewrite Iglen.
        replace (R + 1) with (S R) by lia. rewrite (firstn_S_nth _ D R 0) by lia.
        rewrite Hhead. f_equal. rewrite Igr at 1. rewrite Iglen. reflexivity.
      * intros u Hu. destruct (Nat.eq_dec u t) as [->|Hut].
        -- rewrite upd_same. pose proof (HwfV WServing) as Hb. rewrite Islen in Hb. lia.
        -- rewrite !upd_other in * by assumption. eauto.
      * rewrite !app_length. cbn. lia.
    + (* keeps spinning: only its view moves *)
      constructor; unfold wpast_now, wholder_now, whead; wproj; auto.
      intros u Hu. destruct (Nat.eq_dec u t) as [->|Hut]; [rewrite Hpc in Hu; discriminate|].
      rewrite upd_other by assumption. eauto.
  - (* WCrit: the plain access of the protected data *)
    destruct (wstore Relaxed M (view t) WData (data_next M)) as [M' V'] eqn:E.
    apply wstore_eq in E; auto. destruct E as (EM & Eoth & EVl & EVoth & EM' & EV').
    assert (Hh : w_holding (pc t) = true) by (rewrite Hpc; reflexivity).
    assert (Hgt : gt t = R) by (apply Ihold; exact Hh).
    destruct (TW1_holder_head _ t I0 Hh) as (HRD & Hhead). unfold whead in Hhead. wproj.
    assert (Hext : mext M M') by (rewrite EM'; apply w_store_mext).
    destruct (Nat.ltb_spec R (length D)) as [_|]; [|lia]. cbn [andb] in *. rewrite Hhead in *. rewrite Hpc in Idlen, Iglen. cbn [w_past w_holding] in *.
    constructor; unfold wpast_now, wholder_now, whead; wproj; auto.
    + rewrite EM'. apply w_store_wf; auto.
    + intros u. destruct (Nat.eq_dec u t) as [->|Hut].
      * rewrite upd_same. rewrite EM', EV'. apply w_store_view_wf; auto.
      * rewrite upd_other by assumption. eapply wf_view_mext; eauto.
    + unfold last_msg, msg_at, last_idx. rewrite (Eoth WNext) by discriminate. exact Inext.
    + rewrite (Eoth WServing) by discriminate. exact Islen.
    + intros k Hk. unfold msg_at. rewrite (Eoth WServing) by discriminate. apply Isval. exact Hk.
    + rewrite EM, app_length, Idlen. cbn [length].
      destruct (Nat.ltb_spec R (length D)); [|lia]. cbn [andb]. rewrite Hhead, upd_same. cbn. lia.
    + intros k Hk. destruct (Iown k Hk) as (A & B & C). repeat split; auto.
      destruct (Nat.eq_dec (nth k D 0) t) as [->|Hne]; [rewrite upd_same; congruence|rewrite upd_other by assumption; exact B].
    + intros u Hu. destruct (Nat.eq_dec u t) as [->|Hut]; [apply Ipc; congruence|].
      rewrite upd_other in Hu by assumption. auto.
    + intros u tk Hu. destruct (Nat.eq_dec u t) as [->|Hut]; [rewrite upd_same in Hu; discriminate|].
      rewrite upd_other in Hu by assumption. eauto.
    + intros u Hu. destruct (Nat.eq_dec u t) as [->|Hut]; [exact Hgt|].
      rewrite upd_other in Hu by assumption. eauto.
    + intros u c0 Hu. destruct (Nat.eq_dec u t) as [->|Hut]; [rewrite upd_same in Hu; discriminate|].
      rewrite upd_other in Hu by assumption. eauto.
    + rewrite Iglen. apply f_equal. destruct (Nat.ltb_spec R (length D)); [|lia]. cbn [andb]. rewrite Hhead, upd_same. reflexivity.
    + intros u Hu. destruct (Nat.eq_dec u t) as [->|Hut].
      * rewrite upd_same. rewrite (EVoth WServing) by discriminate. apply Ihview. exact Hh.
      * rewrite !upd_other in * by assumption. eauto.
  - (* WCritW: unlock()'s load -- only the last message is admissible for the holder *)
    destruct (wload (o_t_unl_load o) M (view t) WServing c) as [v V'] eqn:E.
    apply wload_eq in E; auto. cbv zeta in E.
    set (j := pick wloc M (view t) WServing c) in *.
    destruct E as (Ev & (Hjlo & Hjhi) & Hjst & HjV & Hmono & HwfV & _).
    assert (Hh : w_holding (pc t) = true) by (rewrite Hpc; reflexivity).
    assert (Hgt : gt t = R) by (apply Ihold; exact Hh).
    pose proof (Ihview t Hh) as HvR.
    assert (HjR : j = R) by (unfold last_idx in Hjhi; rewrite Islen in Hjhi; lia).
    destruct (TW1_holder_head _ t I0 Hh) as (HRD & Hhead). unfold whead in Hhead. wproj.
    destruct (Nat.ltb_spec R (length D)) as [_|]; [|lia]. cbn [andb] in *. rewrite Hhead in *. rewrite Hpc in Idlen, Iglen. cbn [w_past w_holding] in *.
    constructor; unfold wpast_now, wholder_now, whead; wproj; auto.
    + intros u. destruct (Nat.eq_dec u t) as [->|Hut]; [rewrite upd_same; exact HwfV|rewrite upd_other by assumption; apply Iwfv].
    + rewrite Idlen. do 2 f_equal. destruct (Nat.ltb_spec R (length D)); [|lia]. cbn [andb]. rewrite Hhead, upd_same. reflexivity.
    + intros k Hk. destruct (Iown k Hk) as (A & B & C). repeat split; auto.
      destruct (Nat.eq_dec (nth k D 0) t) as [->|Hne]; [rewrite upd_same; congruence|rewrite upd_other by assumption; exact B].
    + intros u Hu. destruct (Nat.eq_dec u t) as [->|Hut]; [apply Ipc; congruence|].
      rewrite upd_other in Hu by assumption. auto.
    + intros u tk Hu. destruct (Nat.eq_dec u t) as [->|Hut]; [rewrite upd_same in Hu; discriminate|].
      rewrite upd_other in Hu by assumption. eauto.
    + intros u Hu. destruct (Nat.eq_dec u t) as [->|Hut]; [exact Hgt|].
      rewrite upd_other in Hu by assumption. eauto.
    + intros u c0 Hu. destruct (Nat.eq_dec u t) as [->|Hut].
      * rewrite upd_same in Hu. injection Hu as <-. rewrite Ev, HjR. apply Isval. lia.
      * rewrite upd_other in Hu by assumption. eauto.
    + rewrite Iglen. apply f_equal. destruct (Nat.ltb_spec R (length D)); [|lia]. cbn [andb]. rewrite Hhead, upd_same. reflexivity.
    + intros u Hu. destruct (Nat.eq_dec u t) as [->|Hut].
      * rewrite upd_same. pose proof (HwfV WServing) as Hb. rewrite Islen in Hb. lia.
      * rewrite !upd_other in * by assumption. eauto.
  - (* WUnl: the release store *)
    destruct (wstore (o_t_unl_store o) M (view t) WServing ((current + 1) mod W)%N) as [M' V'] eqn:E.
    apply wstore_eq in E; auto. destruct E as (EM & Eoth & EVl & EVoth & EM' & EV').
    assert (Hh : w_holding (pc t) = true) by (rewrite Hpc; reflexivity).
    assert (Hgt : gt t = R) by (apply Ihold; exact Hh).
    destruct (TW1_holder_head _ t I0 Hh) as (HRD & Hhead). unfold whead in Hhead. wproj.
    assert (Hcur : current = ((base + N.of_nat R) mod W)%N) by (eapply Iunl; eauto).
    assert (Hext : mext M M') by (rewrite EM'; apply w_store_mext).
    assert (Hnoh : forall u, u <> t -> w_holding (pc u) = false).
    { intros u Hu. destruct (w_holding (pc u)) eqn:Hhu; [|reflexivity]. exfalso. apply Hu. eapply (TW1_mutex _ u t I0); eauto. }
    destruct (Nat.ltb_spec R (length D)) as [_|]; [|lia]. cbn [andb] in *. rewrite Hhead in *. rewrite Hpc in Idlen, Iglen. cbn [w_past w_holding] in *.
    assert (Hnext_head : S R < length D -> nth (S R) D 0 <> t /\ w_holding (pc (nth (S R) D 0)) = false).
    { intros Hlt. assert (R <= S R < length D) as Hk by lia. destruct (Iown (S R) Hk) as (A & B & C).
      assert (nth (S R) D 0 <> t) as Hne by (intro E; rewrite E in A; lia). split; [exact Hne|apply Hnoh; exact Hne]. }
    constructor; unfold wpast_now, wholder_now, whead; wproj; auto.
    + rewrite EM'. apply w_store_wf; auto.
    + intros u. destruct (Nat.eq_dec u t) as [->|Hut].
      * rewrite upd_same. rewrite EM', EV'. apply w_store_view_wf; auto.
      * rewrite upd_other by assumption. eapply wf_view_mext; eauto.
    + unfold last_msg, msg_at, last_idx. rewrite (Eoth WNext) by discriminate. exact Inext.
    + rewrite EM, app_length, Islen. cbn. lia.
    + intros k Hk. destruct (Nat.eq_dec k (S R)) as [->|Hk'].
      * replace (S R) with (length (M WServing)) at 1 by lia. rewrite (msg_at_app_new M M' WServing _ EM). cbn [mval].
        rewrite Hcur, mod_W_succ. f_equal. lia.
      * rewrite (msg_at_app_old M M' WServing _ k EM) by lia. apply Isval. lia.
    + rewrite (Eoth WData) by discriminate. rewrite Idlen.
      destruct (Nat.ltb_spec (S R) (length D)) as [Hlt|Hge]; cbn [andb]; [|lia].
      destruct (Hnext_head Hlt) as (Hne & Hnh). rewrite upd_other by assumption.
      destruct (pc (nth (S R) D 0)); cbn in Hnh |- *; try discriminate; lia.
    + intros k Hk. assert (R <= k < length D) as Hk2 by lia. destruct (Iown k Hk2) as (A & B & C).
      assert (nth k D 0 <> t) by (intro E; rewrite E in A; lia).
      rewrite upd_other by assumption. auto.
    + intros u Hu. destruct (Nat.eq_dec u t) as [->|Hut]; [rewrite upd_same in Hu; congruence|].
      rewrite upd_other in Hu by assumption. destruct (Ipc u Hu) as ((A1 & A2) & B).
      split; [|exact B]. split; [|exact A2].
      destruct (Nat.eq_dec (gt u) R) as [E|]; [|lia]. rewrite E in B. congruence.
    + intros u tk Hu. destruct (Nat.eq_dec u t) as [->|Hut]; [rewrite upd_same in Hu; discriminate|].
      rewrite upd_other in Hu by assumption. eauto.
    + intros u Hu. destruct (Nat.eq_dec u t) as [->|Hut]; [rewrite upd_same in Hu; discriminate|].
      rewrite upd_other in Hu by assumption. rewrite Hnoh in Hu by assumption. discriminate.
    + intros u c0 Hu. destruct (Nat.eq_dec u t) as [->|Hut]; [rewrite upd_same in Hu; discriminate|].
      rewrite upd_other in Hu by assumption. pose proof (Hnoh u Hut) as Hf. rewrite Hu in Hf. discriminate.
    + rewrite Iglen.
      destruct (Nat.ltb_spec (S R) (length D)) as [Hlt|Hge]; cbn [andb]; [|lia].
      destruct (Hnext_head Hlt) as (Hne & Hnh). rewrite upd_other by assumption. rewrite Hnh. lia.
    + intros u Hu. destruct (Nat.eq_dec u t) as [->|Hut]; [rewrite upd_same in Hu; discriminate|].
      rewrite upd_other in Hu by assumption. rewrite Hnoh in Hu by assumption. discriminate.
    + rewrite app_length. cbn. lia.
Qed.


Lemma TW1_fold : forall sc s, TW1 s -> stale_bounded n sc -> TW1 (fold_left (wt_step o n) sc s).
Proof.
  induction sc as [|[t c] l IH]; intros s I Hb; cbn [fold_left]; [exact I|].
  inversion Hb as [|? ? Hc Hl]; subst. apply IH; [|exact Hl]. apply TW1_step; [exact I|exact Hc].
Qed.

Lemma TW1_run : forall sc, stale_bounded n sc -> TW1 (wt_run_at o n base sc).
Proof. intros sc Hb. apply TW1_fold; [exact TW1_init|exact Hb]. Qed.

Lemma TW1_fifo : forall s k t, TW1 s -> nth_error (wt_grants s) k = Some t -> nth_error (wt_draws s) k = Some t.
Proof. intros s k t I H. rewrite (w_grants s I) in H. eapply nth_error_firstn_some; eauto. Qed.

(* nobody holds <-> the head of the queue does not hold *)
Lemma TW1_no_holder : forall s, TW1 s -> wholder_now s = false -> forall u, w_holding (wt_pc s u) = false.
Proof.
  intros s I Hnh u. destruct (w_holding (wt_pc s u)) eqn:Hh; [|reflexivity].
  destruct (TW1_holder_head s u I Hh) as (A & B). unfold wholder_now in Hnh. rewrite B, Hh in Hnh.
  destruct (Nat.ltb_spec (wt_released s) (length (wt_draws s))); [discriminate|lia].
Qed.

(* ---------------------------------------------------------------- order-dependent part: happens-before *)
Section TicketWeakHb.
Hypothesis Ha : is_acq (o_t_spin o) = true.          (* acquire on the load of serving_ticket_ in lock() *)
Hypothesis Hr : is_rel (o_t_unl_store o) = true.     (* release on the store to serving_ticket_ in unlock() *)

Record TW2 (s : wt) : Prop := mk_TW2 {
  w_norace : wt_race s = false;
  (* a holder's view covers every write to the protected data *)
  w_hdata : forall t, w_holding (wt_pc s t) = true -> wt_view s t WData = last_idx (wt_mem s) WData;
  (* message k >= 1 of serving_ticket_ is the (k-1)-st release store: it carries the releaser's view, which covers
     the releaser's own write to the data (data message k) *)
  w_relmsg : forall k, 1 <= k <= wt_released s ->
             mrel (msg_at (wt_mem s) WServing k) = true /\
             mview (msg_at (wt_mem s) WServing k) = nth (k - 1) (wt_relview s) vbot /\
             mview (msg_at (wt_mem s) WServing k) WData = k;
  w_hb : forall k, S k < length (wt_acqview s) -> vle (nth k (wt_relview s) vbot) (nth (S k) (wt_acqview s) vbot)
}.

Lemma TW2_init : TW2 (wt_init_at base).
Proof. constructor; cbn; intros; try lia; try discriminate; reflexivity. Qed.

Lemma TW2_step : forall s t c, TW1 s -> TW2 s -> (N.of_nat c + N.of_nat n <= W)%N -> TW2 (wt_step o n s (t, c)).
Proof.
  intros s t c I J Hc. unfold wt_step. cbn [fst snd]. destruct (Nat.leb n t) eqn:Hle; [exact J|].
  apply Nat.leb_gt in Hle.
  pose proof I as I0.
  destruct s as [M pc view D G gt R relview acqview race].
  destruct I as [Iwfm Iwfv Inext Islen Isval Idlen Ile Iown Ipc Ispin Ihold Iunl Iglen Igr Ihview Ialen Irlen].
  destruct J as [Jrace Jhdata Jrel Jhb].
  unfold wpast_now, wholder_now, whead in *. wproj.
  destruct (pc t) eqn:Hpc.
  - (* WIdle *)
    destruct (wrmw (o_t_draw o) M (view t) WNext (fun x => ((x + 1) mod W)%N)) as [[v M'] V'] eqn:E.
    apply wrmw_eq in E. destruct E as (Ev & (m & EM & Emv) & Eoth & EM' & EV').
    constructor; wproj; auto.
    + intros u Hu. destruct (Nat.eq_dec u t) as [->|Hut]; [rewrite upd_same in Hu; discriminate|].
      rewrite !upd_other in * by assumption. unfold last_idx. rewrite (Eoth WData) by discriminate. apply Jhdata. exact Hu.
    + intros k Hk. unfold msg_at. rewrite (Eoth WServing) by discriminate. apply Jrel. exact Hk.
  - (* WSpin *)
    destruct (wload (o_t_spin o) M (view t) WServing c) as [v V'] eqn:E.
    apply wload_eq in E; auto. cbv zeta in E.
    set (j := pick wloc M (view t) WServing c) in *.
    destruct E as (Ev & (Hjlo & Hjhi) & Hjst & HjV & Hmono & HwfV & Hacq).
    assert (HjR : j <= R) by (unfold last_idx in Hjhi; rewrite Islen in Hjhi; lia).
    destruct (N.eqb v ticket) eqn:Heq.
    + apply N.eqb_eq in Heq. rewrite Ev in Heq.
      assert (Hst : R - j <= c) by (unfold last_idx in Hjst; rewrite Islen in Hjst; lia).
      destruct (w_spin_success_head _ t ticket j c I0 Hpc HjR Hst Hc Heq) as (HjeqR & Hgt & Hhead & Hnh & Hnp).
      pose proof (TW1_no_holder _ I0 Hnh) as Hnone.
      unfold whead, wholder_now, wpast_now, whead in Hgt, Hhead, Hnh, Hnp. wproj.
      rewrite Hnh in Iglen. rewrite Nat.add_0_r in Iglen. rewrite Hnp in Idlen.
      (* what the acquire load brought in *)
      assert (Hin : 1 <= R -> vle (nth (R - 1) relview vbot) V' /\ R <= V' WData).
      { intros HR. assert (1 <= R <= R) as Hk by lia. destruct (Jrel R Hk) as (A & B & C).
        rewrite HjeqR in Hacq. specialize (Hacq Ha A). split; [rewrite <- B; exact Hacq|].
        specialize (Hacq WData). lia. }
      constructor; wproj; auto.
      * intros u Hu. destruct (Nat.eq_dec u t) as [->|Hut].
        -- rewrite upd_same. pose proof (HwfV WData) as Hb. unfold last_idx. rewrite Idlen in Hb |- *.
           destruct (Nat.eq_dec R 0) as [HR0|HR0]; [lia|]. destruct Hin as (_ & Hge); lia.
        -- rewrite upd_other in Hu by assumption. rewrite (Hnone u) in Hu. discriminate.
      * intros k Hk. rewrite app_length in Hk. cbn [length] in Hk.
        destruct (Nat.eq_dec (S k) (length acqview)) as [Hlast|Hnl].
        -- rewrite app_nth2 by lia. rewrite Hlast, Nat.sub_diag. cbn [nth].
           assert (R = S k) as HR by lia. replace k with (R - 1) by lia. apply Hin. lia.
        -- rewrite app_nth1 by lia. apply Jhb. lia.
    + constructor; wproj; auto.
      intros u Hu. destruct (Nat.eq_dec u t) as [->|Hut]; [rewrite Hpc in Hu; discriminate|].
      rewrite upd_other by assumption. eauto.
  - (* WCrit: the plain access is race free *)
    destruct (wstore Relaxed M (view t) WData (data_next M)) as [M' V'] eqn:E.
    apply wstore_eq in E; auto. destruct E as (EM & Eoth & EVl & EVoth & EM' & EV').
    assert (Hh : w_holding (pc t) = true) by (rewrite Hpc; reflexivity).
    constructor; wproj; auto.
    + rewrite Jrace. unfold data_racy. rewrite (Jhdata t Hh), Nat.eqb_refl. reflexivity.
    + intros u Hu. destruct (Nat.eq_dec u t) as [->|Hut].
      * rewrite upd_same. rewrite EVl. unfold last_idx. rewrite EM, app_length. cbn. lia.
      * rewrite upd_other in Hu by assumption. exfalso. apply Hut. eapply (TW1_mutex _ u t I0); eauto.
    + intros k Hk. unfold msg_at. rewrite (Eoth WServing) by discriminate. apply Jrel. exact Hk.
  - (* WCritW *)
    destruct (wload (o_t_unl_load o) M (view t) WServing c) as [v V'] eqn:E.
    apply wload_eq in E; auto. cbv zeta in E.
    destruct E as (Ev & (Hjlo & Hjhi) & Hjst & HjV & Hmono & HwfV & _).
    assert (Hh : w_holding (pc t) = true) by (rewrite Hpc; reflexivity).
    constructor; wproj; auto.
    intros u Hu. destruct (Nat.eq_dec u t) as [->|Hut].
    + rewrite upd_same. pose proof (Jhdata t Hh) as A. pose proof (Hmono WData) as B. pose proof (HwfV WData) as C.
      unfold last_idx in *. lia.
    + rewrite !upd_other in * by assumption. eauto.
  - (* WUnl: the release store publishes the holder's view *)
    destruct (wstore (o_t_unl_store o) M (view t) WServing ((current + 1) mod W)%N) as [M' V'] eqn:E.
    apply wstore_eq in E; auto. destruct E as (EM & Eoth & EVl & EVoth & EM' & EV').
    assert (Hh : w_holding (pc t) = true) by (rewrite Hpc; reflexivity).
    destruct (TW1_holder_head _ t I0 Hh) as (HRD & Hhead). unfold whead in Hhead. wproj.
    destruct (Nat.ltb_spec R (length D)) as [_|]; [|lia]. cbn [andb] in *. rewrite Hhead in *. rewrite Hpc in Idlen, Iglen. cbn [w_past w_holding] in *.
    assert (Hnoh : forall u, u <> t -> w_holding (pc u) = false).
    { intros u Hu. destruct (w_holding (pc u)) eqn:Hhu; [|reflexivity]. exfalso. apply Hu. eapply (TW1_mutex _ u t I0); eauto. }
    constructor; wproj; auto.
    + intros u Hu. destruct (Nat.eq_dec u t) as [->|Hut]; [rewrite upd_same in Hu; discriminate|].
      rewrite upd_other in Hu by assumption. rewrite Hnoh in Hu by assumption. discriminate.
    + intros k Hk. destruct (Nat.eq_dec k (S R)) as [->|Hk'].
      * pose proof (msg_at_app_new M M' WServing _ EM) as Hnew. rewrite Islen in Hnew. rewrite Hnew.
        cbn [mrel mview]. rewrite Hr. split; [reflexivity|]. split.
        -- replace (S R - 1) with R by lia. rewrite app_nth2 by lia. replace (R - length relview) with 0 by lia. reflexivity.
        -- rewrite (EVoth WData) by discriminate. rewrite (Jhdata t Hh). unfold last_idx. rewrite Idlen. lia.
      * rewrite (msg_at_app_old M M' WServing _ k EM) by lia. assert (1 <= k <= R) as Hk2 by lia.
        destruct (Jrel k Hk2) as (A & B & C). rewrite app_nth1 by lia. auto.
    + intros k Hk. rewrite app_nth1 by lia. apply Jhb. exact Hk.
Qed.

Lemma TW12_fold : forall sc s, TW1 s -> TW2 s -> stale_bounded n sc ->
  TW1 (fold_left (wt_step o n) sc s) /\ TW2 (fold_left (wt_step o n) sc s).
Proof.
  induction sc as [|[t c] l IH]; intros s I J Hb; cbn [fold_left]; [split; assumption|].
  inversion Hb as [|? ? Hc Hl]; subst. apply IH; [apply TW1_step|apply TW2_step|]; assumption.
Qed.

Lemma TW2_run : forall sc, stale_bounded n sc -> TW2 (wt_run_at o n base sc).
Proof. intros sc Hb. apply TW12_fold; [exact TW1_init|exact TW2_init|exact Hb]. Qed.

End TicketWeakHb.


(* ---------------------------------------------------------------- hand-over under a fair memory *)
Definition w_free (s : wt) : Prop := forall u, w_holding (wt_pc s u) = false.
(* t is the waiter that the LAST message of serving_ticket_ lets in *)
Definition w_ready (s : wt) (t : tid) : Prop :=
  t < n /\ exists tk, wt_pc s t = WSpin tk /\ mval (last_msg (wt_mem s) WServing) = tk.

Lemma w_last_serving : forall s, TW1 s -> mval (last_msg (wt_mem s) WServing) = ((base + N.of_nat (wt_released s)) mod W)%N.
Proof.
  intros s I. unfold last_msg, last_idx. rewrite (w_serv_len s I). replace (S (wt_released s) - 1) with (wt_released s) by lia.
  apply (w_serv_val s I). lia.
Qed.

Lemma w_ready_is_head : forall s t, TW1 s -> w_ready s t -> whead s = t /\ wt_gt s t = wt_released s.
Proof.
  intros s t I (Hlt & tk & Hpc & Hv).
  assert (wt_pc s t <> WIdle) as Hni by congruence.
  destruct (w_pc s I t Hni) as ((Hlo & Hhi) & Hnth).
  pose proof (w_spin s I t tk Hpc) as Htk. rewrite (w_last_serving s I) in Hv.
  pose proof (w_outstanding_le s I) as Hout.
  assert (wt_released s = wt_gt s t) as Heq.
  { apply (mod_W_inj base); [lia| |congruence]. unfold W in *. lia. }
  unfold whead. rewrite Heq. split; [exact Hnth|reflexivity].
Qed.

Lemma w_ready_exists : forall s, TW1 s -> w_free s -> (exists u, w_waiting (wt_pc s u) = true) -> w_ready s (whead s).
Proof.
  intros s I Hfree (w & Hw).
  assert (wt_pc s w <> WIdle) as Hwni by (destruct (wt_pc s w); cbn in Hw; congruence).
  destruct (w_pc s I w Hwni) as ((A1 & A2) & _).
  assert (wt_released s <= wt_released s < length (wt_draws s)) as Hk by lia.
  destruct (w_own s I _ Hk) as (Hg & Hni & Hlt). fold (whead s) in Hg, Hni, Hlt.
  split; [exact Hlt|]. pose proof (Hfree (whead s)) as Hf.
  destruct (wt_pc s (whead s)) eqn:Hpc; cbn in Hf; try congruence.
  exists ticket. split; [reflexivity|]. rewrite (w_spin s I _ _ Hpc), Hg. apply w_last_serving. exact I.
Qed.

(* scheduled with a choice that reads the last message, the ready waiter leaves lock() *)
Lemma w_ready_acquires : forall s t, TW1 s -> w_ready s t -> wt_pc (wt_step o n s (t, 0)) t = WCrit.
Proof.
  intros s t I (Hlt & tk & Hpc & Hv). unfold wt_step. cbn [fst snd].
  destruct (Nat.leb_spec n t); [lia|]. rewrite Hpc.
  unfold wload, ra_load. rewrite pick_zero. fold (last_msg (wt_mem s) WServing). rewrite Hv, N.eqb_refl.
  cbn [wt_pc]. apply upd_same.
Qed.

(* whatever anybody does meanwhile (any thread, any boundedly stale choice), either the ready waiter itself has
   acquired, or the lock is still free and it is still ready: nobody can take the lock away from it *)
Lemma w_ready_persists : forall s t u c, TW1 s -> w_free s -> w_ready s t -> (N.of_nat c + N.of_nat n <= W)%N ->
  let s' := wt_step o n s (u, c) in
  (u = t /\ wt_pc s' t = WCrit) \/ (w_free s' /\ w_ready s' t).
Proof.
  intros s t u c I Hfree Hready Hc s'.
  destruct (w_ready_is_head s t I Hready) as (Hhead & Hgt).
  destruct Hready as (Hlt & tk & Hpc & Hv).
  unfold s', wt_step. cbn [fst snd]. destruct (Nat.leb n u) eqn:Hle.
  { right. split; [exact Hfree|]. split; [exact Hlt|]. eauto. }
  pose proof (Hfree u) as Hfu.
  destruct (wt_pc s u) eqn:Hpu; cbn in Hfu; try discriminate.
  - (* u draws a ticket *)
    assert (u <> t) as Hut by congruence.
    destruct (wrmw (o_t_draw o) (wt_mem s) (wt_view s u) WNext (fun x => ((x + 1) mod W)%N)) as [[v M'] V'] eqn:E.
    apply wrmw_eq in E. destruct E as (Ev & (m & EM & Emv) & Eoth & EM' & EV').
    right. wproj. split.
    + intros x. wproj. destruct (Nat.eq_dec x u) as [->|Hx]; [rewrite upd_same; reflexivity|].
      rewrite upd_other by assumption. apply Hfree.
    + split; [exact Hlt|]. exists tk. wproj. rewrite upd_other by congruence. split; [exact Hpc|].
      unfold last_msg, msg_at, last_idx. rewrite (Eoth WServing) by discriminate. exact Hv.
  - (* u evaluates its loop condition *)
    destruct (wload (o_t_spin o) (wt_mem s) (wt_view s u) WServing c) as [v V'] eqn:E.
    apply wload_eq in E; [|apply (w_wfm s I)|apply (w_wfv s I)]. cbv zeta in E.
    set (j := pick wloc (wt_mem s) (wt_view s u) WServing c) in *.
    destruct E as (Ev & (Hjlo & Hjhi) & Hjst & _).
    destruct (N.eqb v ticket) eqn:Heq.
    + (* it leaves the loop: then it is the head, i.e. t *)
      apply N.eqb_eq in Heq. rewrite Ev in Heq.
      assert (HjR : j <= wt_released s) by (unfold last_idx in Hjhi; rewrite (w_serv_len s I) in Hjhi; lia).
      assert (Hst : wt_released s - j <= c) by (unfold last_idx in Hjst; rewrite (w_serv_len s I) in Hjst; lia).
      destruct (w_spin_success_head s u ticket j c I Hpu HjR Hst Hc Heq) as (_ & _ & Hh & _).
      left. split; [congruence|]. wproj. assert (u = t) as -> by congruence. apply upd_same.
    + right. wproj. split; [exact Hfree|]. split; [exact Hlt|]. eauto.
Qed.

(* fair memory + fair scheduler: if the ready waiter is eventually scheduled with a load that reads the last
   message (entry (t, 0) occurs in the rest of the schedule), it acquires -- whatever happens before *)
Lemma w_handover_eventually : forall sc s t, TW1 s -> w_free s -> w_ready s t -> stale_bounded n sc -> In (t, 0) sc ->
  exists p q, sc = p ++ q /\ wt_pc (fold_left (wt_step o n) p s) t = WCrit.
Proof.
  induction sc as [|[u c] l IH]; intros s t I Hfree Hready Hb Hin; [destruct Hin|].
  inversion Hb as [|? ? Hc Hl]; subst. cbn [snd] in Hc.
  destruct (w_ready_persists s t u c I Hfree Hready Hc) as [(-> & Hacq)|(Hfree' & Hready')].
  - exists [(t, c)], l. split; [reflexivity|]. cbn [fold_left]. exact Hacq.
  - destruct Hin as [Heq|Hin].
    + injection Heq as -> ->. exists [(t, 0)], l. split; [reflexivity|]. cbn [fold_left]. apply w_ready_acquires; assumption.
    + destruct (IH (wt_step o n s (u, c)) t (TW1_step s u c I Hc) Hfree' Hready' Hl Hin) as (p & q & -> & Hp).
      exists ((u, c) :: p), q. split; [reflexivity|]. cbn [fold_left]. exact Hp.
Qed.

End TicketWeak.

(* ================================================================== simple_spinlock, stale reads *)

Section SimpleWeak.
Variable o : orders.
Variable n : nat.

Definition ws_past_now (s : ws) : bool :=
  match ws_holder s with Some h => match ws_pc s h with WSCritW => true | _ => false end | None => false end.

Record SW1 (s : ws) : Prop := mk_SW1 {
  sw_wfm : wf_mem (ws_mem s);
  sw_wfv : forall t, wf_view (ws_mem s) (ws_view s t);
  (* the LAST message of lock_ (the one every exchange reads) is 1 exactly while somebody holds *)
  sw_holder : match ws_holder s with
              | Some h => mval (last_msg (ws_mem s) WLock) = 1%N /\ ws_holding (ws_pc s h) = true /\
                          (forall u, ws_holding (ws_pc s u) = true -> u = h) /\ h < n
              | None => mval (last_msg (ws_mem s) WLock) = 0%N /\ forall u, ws_holding (ws_pc s u) = false
              end;
  sw_data_len : length (ws_mem s WData) = S (ws_released s + (if ws_past_now s then 1 else 0));
  sw_glen : length (ws_grants s) = ws_released s + (match ws_holder s with Some _ => 1 | None => 0 end);
  sw_alen : length (ws_acqview s) = length (ws_grants s);
  sw_rlen : length (ws_relview s) = ws_released s
}.

Ltac wsproj := cbn [ws_mem ws_pc ws_view ws_holder ws_grants ws_released ws_relview ws_acqview ws_race] in *.

Lemma SW1_init : SW1 ws_init.
Proof.
  constructor; unfold ws_past_now, ws_init; wsproj; try reflexivity.
  - intros l. split; [cbn; lia|]. intros k Hk l'. unfold msg_at, init_msg. cbn in Hk |- *.
    destruct k as [|k]; [|lia]. cbn. unfold vbot. lia.
  - intros t l. unfold vbot. cbn. lia.
  - split; [reflexivity|]. intros u. reflexivity.
Qed.

Lemma SW1_mutex : forall s t1 t2, SW1 s -> ws_holding (ws_pc s t1) = true -> ws_holding (ws_pc s t2) = true -> t1 = t2.
Proof.
  intros s t1 t2 I H1 H2. pose proof (sw_holder s I) as Ih. destruct (ws_holder s) as [h|].
  - destruct Ih as (_ & _ & Hu & _). rewrite (Hu t1 H1), (Hu t2 H2). reflexivity.
  - destruct Ih as (_ & Hno). rewrite Hno in H1. discriminate.
Qed.

(* ---- every step of every thread with every choice preserves SW1 (no assumption on the memory orders) *)
Lemma SW1_step : forall s t c, SW1 s -> SW1 (ws_step o n s (t, c)).
Proof.
  intros s t c I. unfold ws_step. cbn [fst snd]. destruct (Nat.leb n t) eqn:Hle; [assumption|].
  apply Nat.leb_gt in Hle.
  pose proof I as I0.
  destruct s as [M pc view holder G R relview acqview race].
  destruct I as [Iwfm Iwfv Ih Idlen Iglen Ialen Irlen].
  unfold ws_past_now in *. wsproj.
  assert (Hx : pc t = WSOut \/ pc t = WSXchg ->
    let r := wrmw (o_s_xchg o) M (view t) WLock (fun _ => 1%N) in
    let s' := if N.eqb (fst (fst r)) 0
              then mk_ws (snd (fst r)) (upd pc t WSCrit) (upd view t (snd r)) (Some t) (G ++ [t]) R relview (acqview ++ [snd r]) race
              else mk_ws (snd (fst r)) (upd pc t WSLoad) (upd view t (snd r)) holder G R relview acqview race in
    SW1 s').
  { intros Hpc r s'.
    assert (Hnh : ws_holding (pc t) = false) by (destruct Hpc as [-> | ->]; reflexivity).
    destruct r as [[v M'] V'] eqn:E. unfold r in E. pose proof E as E0.
    apply wrmw_eq in E. destruct E as (Ev & (m & EM & Emv) & Eoth & EM' & EV').
    assert (Hext : mext M M') by (rewrite EM'; apply w_rmw_mext).
    assert (HwfM' : wf_mem M') by (rewrite EM'; apply w_rmw_wf; auto).
    assert (HwfV' : wf_view M' V') by (rewrite EM', EV'; apply w_rmw_view_wf; auto).
    assert (Hwfv' : forall u, wf_view M' (upd view t V' u)).
    { intros u. destruct (Nat.eq_dec u t) as [->|Hut]; [rewrite upd_same; exact HwfV'|].
      rewrite upd_other by assumption. eapply wf_view_mext; eauto. }
    assert (Hlast' : mval (last_msg M' WLock) = 1%N) by (rewrite (last_msg_app M' WLock _ m EM); exact Emv).
    unfold s'. cbn [fst snd]. destruct (N.eqb v 0) eqn:Hv0.
    - apply N.eqb_eq in Hv0. destruct holder as [h|]; [destruct Ih as (Hl1 & _); rewrite <- Ev, Hv0 in Hl1; discriminate|].
      destruct Ih as (_ & Hnone).
      constructor; unfold ws_past_now; wsproj; auto.
      + repeat split; auto.
        * rewrite upd_same. reflexivity.
        * intros u Hu. destruct (Nat.eq_dec u t) as [->|Hut]; [reflexivity|].
          rewrite upd_other in Hu by assumption. rewrite Hnone in Hu. discriminate.
      + rewrite upd_same. rewrite (Eoth WData) by discriminate. exact Idlen.
      + rewrite app_length. cbn. lia.
      + rewrite !app_length. cbn. lia.
    - apply N.eqb_neq in Hv0. destruct holder as [h|]; [|destruct Ih as (Hl0 & _); rewrite <- Ev in Hl0; contradiction].
      destruct Ih as (_ & Hh & Huniq & Hhn).
      assert (h <> t) as Hht by (intro; subst; congruence).
      constructor; unfold ws_past_now; wsproj; auto.
      + repeat split; auto.
        * rewrite upd_other by assumption. exact Hh.
        * intros u Hu. destruct (Nat.eq_dec u t) as [->|Hut]; [rewrite upd_same in Hu; discriminate|].
          rewrite upd_other in Hu by assumption. auto.
      + rewrite upd_other by assumption. rewrite (Eoth WData) by discriminate. exact Idlen. }
  destruct (pc t) eqn:Hpc.
  - specialize (Hx (or_introl eq_refl)). cbv zeta in Hx.
    destruct (wrmw (o_s_xchg o) M (view t) WLock (fun _ => 1%N)) as [[v M'] V']. exact Hx.
  - specialize (Hx (or_intror eq_refl)). cbv zeta in Hx.
    destruct (wrmw (o_s_xchg o) M (view t) WLock (fun _ => 1%N)) as [[v M'] V']. exact Hx.
  - clear Hx.
    destruct (wload (o_s_wait o) M (view t) WLock c) as [v V'] eqn:E.
    apply wload_eq in E; auto. cbv zeta in E. destruct E as (_ & _ & _ & _ & Hmono & HwfV & _).
    assert (Hpc' : forall u, ws_holding ((if N.eqb v 0 then upd pc t WSXchg else pc) u) = ws_holding (pc u)).
    { intros u. destruct (N.eqb v 0); [|reflexivity]. destruct (Nat.eq_dec u t) as [->|Hut]; [rewrite upd_same, Hpc; reflexivity|].
      rewrite upd_other by assumption. reflexivity. }
    assert (Hpch : forall h, h <> t -> (if N.eqb v 0 then upd pc t WSXchg else pc) h = pc h).
    { intros h Hh. destruct (N.eqb v 0); [rewrite upd_other by assumption|]; reflexivity. }
    constructor; unfold ws_past_now; wsproj; auto.
    + intros u. destruct (Nat.eq_dec u t) as [->|Hut]; [rewrite upd_same; exact HwfV|rewrite upd_other by assumption; apply Iwfv].
    + destruct holder as [h|].
      * destruct Ih as (A & B & C0 & D0). repeat split; auto; [rewrite Hpc'; exact B|]. intros u Hu. rewrite Hpc' in Hu. auto.
      * destruct Ih as (A & B). split; [exact A|]. intros u. rewrite Hpc'. apply B.
    + destruct holder as [h|]; [|exact Idlen]. destruct Ih as (_ & B & _).
      assert (h <> t) by (intro; subst; rewrite Hpc in B; discriminate). rewrite Hpch by assumption. exact Idlen.
  - clear Hx.
    destruct (wstore Relaxed M (view t) WData (data_next M)) as [M' V'] eqn:E.
    apply wstore_eq in E; auto. destruct E as (EM & Eoth & EVl & EVoth & EM' & EV').
    assert (Hh : ws_holding (pc t) = true) by (rewrite Hpc; reflexivity).
    destruct holder as [h|]; [|destruct Ih as (_ & Hno); rewrite Hno in Hh; discriminate].
    destruct Ih as (Hl1 & Hhh & Huniq & Hhn). assert (t = h) by (apply Huniq; exact Hh). subst h.
    rewrite Hpc in Idlen.
    assert (Hext : mext M M') by (rewrite EM'; apply w_store_mext).
    constructor; unfold ws_past_now; wsproj; auto.
    + rewrite EM'. apply w_store_wf; auto.
    + intros u. destruct (Nat.eq_dec u t) as [->|Hut].
      * rewrite upd_same. rewrite EM', EV'. apply w_store_view_wf; auto.
      * rewrite upd_other by assumption. eapply wf_view_mext; eauto.
    + repeat split; auto.
      * unfold last_msg, msg_at, last_idx. rewrite (Eoth WLock) by discriminate. exact Hl1.
      * rewrite upd_same. reflexivity.
      * intros u Hu. destruct (Nat.eq_dec u t) as [->|Hut]; [reflexivity|]. rewrite upd_other in Hu by assumption. auto.
    + rewrite upd_same. rewrite EM, app_length, Idlen. cbn. lia.
  - clear Hx.
    destruct (wstore (o_s_unl_store o) M (view t) WLock 0%N) as [M' V'] eqn:E.
    apply wstore_eq in E; auto. destruct E as (EM & Eoth & EVl & EVoth & EM' & EV').
    assert (Hh : ws_holding (pc t) = true) by (rewrite Hpc; reflexivity).
    destruct holder as [h|]; [|destruct Ih as (_ & Hno); rewrite Hno in Hh; discriminate].
    destruct Ih as (Hl1 & Hhh & Huniq & Hhn). assert (t = h) by (apply Huniq; exact Hh). subst h.
    rewrite Hpc in Idlen.
    assert (Hext : mext M M') by (rewrite EM'; apply w_store_mext).
    assert (Hnoh : forall u, ws_holding (upd pc t WSOut u) = false).
    { intros u. destruct (Nat.eq_dec u t) as [->|Hut]; [rewrite upd_same; reflexivity|].
      rewrite upd_other by assumption. destruct (ws_holding (pc u)) eqn:Hu; [|reflexivity]. exfalso. apply Hut. auto. }
    constructor; unfold ws_past_now; wsproj; auto.
    + rewrite EM'. apply w_store_wf; auto.
    + intros u. destruct (Nat.eq_dec u t) as [->|Hut].
      * rewrite upd_same. rewrite EM', EV'. apply w_store_view_wf; auto.
      * rewrite upd_other by assumption. eapply wf_view_mext; eauto.
    + split; [|exact Hnoh]. rewrite (last_msg_app M' WLock _ _ EM). reflexivity.
    + rewrite (Eoth WData) by discriminate. rewrite Idlen. lia.
    + lia.
    + rewrite app_length. cbn. lia.
Qed.

Lemma SW1_fold : forall sc s, SW1 s -> SW1 (fold_left (ws_step o n) sc s).
Proof. induction sc as [|[t c] l IH]; intros s I; cbn [fold_left]; [exact I|]. apply IH. apply SW1_step. exact I. Qed.

Lemma SW1_run : forall sc, SW1 (ws_run o n sc).
Proof. intros sc. apply SW1_fold. exact SW1_init. Qed.


(* ---------------------------------------------------------------- hand-over *)
Definition ws_free (s : ws) : Prop := forall u, ws_holding (ws_pc s u) = false.

Lemma ws_free_unlocked : forall s, SW1 s -> ws_free s -> ws_holder s = None /\ mval (last_msg (ws_mem s) WLock) = 0%N.
Proof.
  intros s I Hf. pose proof (sw_holder s I) as Ih. destruct (ws_holder s) as [h|].
  - destruct Ih as (_ & Hh & _). rewrite Hf in Hh. discriminate.
  - split; [reflexivity|apply Ih].
Qed.

Lemma ws_holder_free : forall s, SW1 s -> ws_holder s = None -> ws_free s.
Proof. intros s I Hn. pose proof (sw_holder s I) as Ih. rewrite Hn in Ih. exact (proj2 Ih). Qed.

Lemma ws_step_pc_other : forall s u c t, u <> t -> ws_pc (ws_step o n s (u, c)) t = ws_pc s t.
Proof.
  intros s u c t Hut. unfold ws_step. cbn [fst snd]. destruct (Nat.leb n u); [reflexivity|].
  destruct (ws_pc s u).
  - destruct (wrmw _ _ _ _ _) as [[v M'] V']. destruct (N.eqb v 0); cbn [ws_pc]; apply upd_other; congruence.
  - destruct (wrmw _ _ _ _ _) as [[v M'] V']. destruct (N.eqb v 0); cbn [ws_pc]; apply upd_other; congruence.
  - destruct (wload _ _ _ _ _) as [v V']. cbn [ws_pc]. destruct (N.eqb v 0); [apply upd_other; congruence|reflexivity].
  - destruct (wstore _ _ _ _ _) as [M' V']. cbn [ws_pc]. apply upd_other; congruence.
  - destruct (wstore _ _ _ _ _) as [M' V']. cbn [ws_pc]. apply upd_other; congruence.
Qed.

(* free lock: a thread at its exchange acquires by that step, whatever the choice (an RMW reads the last message) *)
Lemma ws_xchg_acquires : forall s t c, SW1 s -> ws_free s -> t < n ->
  (ws_pc s t = WSOut \/ ws_pc s t = WSXchg) -> ws_pc (ws_step o n s (t, c)) t = WSCrit.
Proof.
  intros s t c I Hf Hlt Hpc. destruct (ws_free_unlocked s I Hf) as (_ & Hl0).
  unfold ws_step. cbn [fst snd]. destruct (Nat.leb_spec n t); [lia|].
  assert (Hv : fst (fst (wrmw (o_s_xchg o) (ws_mem s) (ws_view s t) WLock (fun _ => 1%N))) = 0%N) by (cbn; exact Hl0).
  destruct Hpc as [-> | ->]; destruct (wrmw _ _ _ _ _) as [[v M'] V']; cbn [fst] in Hv; subst v; cbn; apply upd_same.
Qed.

(* a waiter in the inner loop: a load that reads the last message sends it back to the exchange *)
Lemma ws_load_last : forall s t, SW1 s -> ws_free s -> t < n -> ws_pc s t = WSLoad ->
  ws_pc (ws_step o n s (t, 0)) t = WSXchg /\ ws_free (ws_step o n s (t, 0)).
Proof.
  intros s t I Hf Hlt Hpc. destruct (ws_free_unlocked s I Hf) as (_ & Hl0).
  unfold ws_free, ws_step. cbn [fst snd]. destruct (Nat.leb_spec n t); [lia|]. rewrite Hpc.
  unfold wload, ra_load. rewrite pick_zero. fold (last_msg (ws_mem s) WLock). rewrite Hl0. cbn [N.eqb ws_pc].
  split; [apply upd_same|]. intros u. destruct (Nat.eq_dec u t) as [->|Hut]; [rewrite upd_same; reflexivity|].
  rewrite upd_other by assumption. apply Hf.
Qed.

(* if the lock is free and a thread standing at its exchange is scheduled at all in the rest of the schedule,
   then somebody (it, or a faster competitor: the lock is unfair) acquires *)
Lemma ws_handover_eventually : forall sc s t, SW1 s -> ws_free s -> t < n ->
  (ws_pc s t = WSOut \/ ws_pc s t = WSXchg) -> (exists c, In (t, c) sc) ->
  exists p q u, sc = p ++ q /\ ws_holding (ws_pc (fold_left (ws_step o n) p s) u) = true.
Proof.
  induction sc as [|[u c] l IH]; intros s t I Hf Hlt Hpc (c0 & Hin); [destruct Hin|].
  destruct (Nat.eq_dec u t) as [->|Hut].
  - exists [(t, c)], l, t. split; [reflexivity|]. cbn [fold_left]. rewrite (ws_xchg_acquires s t c I Hf Hlt Hpc). reflexivity.
  - pose proof (SW1_step s u c I) as I'. pose proof (sw_holder _ I') as Ih. revert Ih.
    match goal with |- match ?X with _ => _ end -> _ => destruct X as [h|] eqn:Hh end; intros Ih.
    + exists [(u, c)], l, h. split; [reflexivity|]. cbn [fold_left]. apply Ih.
    + clear Ih. destruct Hin as [Heq|Hin]; [congruence|].
      assert (Hpc' : ws_pc (ws_step o n s (u, c)) t = WSOut \/ ws_pc (ws_step o n s (u, c)) t = WSXchg)
        by (rewrite ws_step_pc_other by assumption; exact Hpc).
      destruct (IH _ t I' (ws_holder_free _ I' Hh) Hlt Hpc' (ex_intro _ c0 Hin)) as (p & q & w & -> & Hp).
      exists ((u, c) :: p), q, w. split; [reflexivity|]. cbn [fold_left]. exact Hp.
Qed.

Section SimpleWeakHb.
Hypothesis Ha : is_acq (o_s_xchg o) = true.          (* acquire on the exchange in lock() *)
Hypothesis Hr : is_rel (o_s_unl_store o) = true.     (* release on the store in unlock() *)

Record SW2 (s : ws) : Prop := mk_SW2 {
  sw_norace : ws_race s = false;
  sw_hdata : forall t, ws_holding (ws_pc s t) = true -> ws_view s t WData = last_idx (ws_mem s) WData;
  (* while the lock is free after at least one release, the last message of lock_ is that release store *)
  sw_relmsg : ws_holder s = None -> 1 <= ws_released s ->
              mrel (last_msg (ws_mem s) WLock) = true /\
              mview (last_msg (ws_mem s) WLock) = nth (ws_released s - 1) (ws_relview s) vbot /\
              mview (last_msg (ws_mem s) WLock) WData = ws_released s;
  sw_hb : forall k, S k < length (ws_acqview s) -> vle (nth k (ws_relview s) vbot) (nth (S k) (ws_acqview s) vbot)
}.

Lemma SW2_init : SW2 ws_init.
Proof. constructor; cbn; intros; try lia; try discriminate; reflexivity. Qed.

(* both parts together: one case analysis *)
Lemma SW12_step : forall s t c, SW1 s -> SW2 s -> SW1 (ws_step o n s (t, c)) /\ SW2 (ws_step o n s (t, c)).
Proof.
  intros s t c I J. unfold ws_step. cbn [fst snd]. destruct (Nat.leb n t) eqn:Hle; [split; assumption|].
  apply Nat.leb_gt in Hle.
  pose proof I as I0.
  destruct s as [M pc view holder G R relview acqview race].
  destruct I as [Iwfm Iwfv Ih Idlen Iglen Ialen Irlen].
  destruct J as [Jrace Jhdata Jrel Jhb].
  unfold ws_past_now in *. wsproj.
  assert (Hx : pc t = WSOut \/ pc t = WSXchg ->
    let r := wrmw (o_s_xchg o) M (view t) WLock (fun _ => 1%N) in
    let s' := if N.eqb (fst (fst r)) 0
              then mk_ws (snd (fst r)) (upd pc t WSCrit) (upd view t (snd r)) (Some t) (G ++ [t]) R relview (acqview ++ [snd r]) race
              else mk_ws (snd (fst r)) (upd pc t WSLoad) (upd view t (snd r)) holder G R relview acqview race in
    SW1 s' /\ SW2 s').
  { intros Hpc r s'.
    assert (Hnh : ws_holding (pc t) = false) by (destruct Hpc as [-> | ->]; reflexivity).
    destruct r as [[v M'] V'] eqn:E. unfold r in E. pose proof E as E0.
    apply wrmw_eq in E. destruct E as (Ev & (m & EM & Emv) & Eoth & EM' & EV').
    assert (Hext : mext M M') by (rewrite EM'; apply w_rmw_mext).
    assert (HwfM' : wf_mem M') by (rewrite EM'; apply w_rmw_wf; auto).
    assert (HwfV' : wf_view M' V') by (rewrite EM', EV'; apply w_rmw_view_wf; auto).
    assert (Hwfv' : forall u, wf_view M' (upd view t V' u)).
    { intros u. destruct (Nat.eq_dec u t) as [->|Hut]; [rewrite upd_same; exact HwfV'|].
      rewrite upd_other by assumption. eapply wf_view_mext; eauto. }
    assert (Hlast' : mval (last_msg M' WLock) = 1%N) by (rewrite (last_msg_app M' WLock _ m EM); exact Emv).
    unfold s'. cbn [fst snd]. destruct (N.eqb v 0) eqn:Hv0.
    - (* acquires: the last message of lock_ was 0, so nobody holds *)
      apply N.eqb_eq in Hv0. destruct holder as [h|]; [destruct Ih as (Hl1 & _); rewrite <- Ev, Hv0 in Hl1; discriminate|].
      destruct Ih as (_ & Hnone).
      assert (Hacq : 1 <= R -> vle (nth (R - 1) relview vbot) V' /\ R <= V' WData).
      { intros HR. destruct (Jrel eq_refl HR) as (A & B & C).
        pose proof (w_rmw_acquires (o_s_xchg o) M (view t) WLock (fun _ => 1%N) Ha A) as Hq.
        fold (wrmw (o_s_xchg o) M (view t) WLock (fun _ => 1%N)) in Hq. rewrite E0 in Hq. cbn [snd] in Hq.
        split; [rewrite <- B; exact Hq|]. specialize (Hq WData). lia. }
      split; constructor; unfold ws_past_now; wsproj; auto.
      + repeat split; auto.
        * rewrite upd_same. reflexivity.
        * intros u Hu. destruct (Nat.eq_dec u t) as [->|Hut]; [reflexivity|].
          rewrite upd_other in Hu by assumption. rewrite Hnone in Hu. discriminate.
      + rewrite upd_same. rewrite (Eoth WData) by discriminate. exact Idlen.
      + rewrite app_length. cbn. lia.
      + rewrite !app_length. cbn. lia.
      + intros u Hu. destruct (Nat.eq_dec u t) as [->|Hut].
        * rewrite upd_same. pose proof (HwfV' WData) as Hb. rewrite (Eoth WData) in Hb by discriminate.
          unfold last_idx. rewrite (Eoth WData) by discriminate. rewrite Idlen in Hb |- *.
          destruct (Nat.eq_dec R 0) as [HR0|HR0]; [lia|]. destruct Hacq as (_ & Hge); lia.
        * rewrite upd_other in Hu by assumption. rewrite Hnone in Hu. discriminate.
      + intros Hnone'. discriminate.
      + intros k Hk. rewrite app_length in Hk. cbn [length] in Hk.
        destruct (Nat.eq_dec (S k) (length acqview)) as [Hlast|Hnl].
        * rewrite app_nth2 by lia. rewrite Hlast, Nat.sub_diag. cbn [nth].
          assert (R = S k) as HR by lia. replace k with (R - 1) by lia. apply Hacq. lia.
        * rewrite app_nth1 by lia. apply Jhb. lia.
    - (* fails: somebody holds *)
      apply N.eqb_neq in Hv0. destruct holder as [h|]; [|destruct Ih as (Hl0 & _); rewrite <- Ev in Hl0; contradiction].
      destruct Ih as (_ & Hh & Huniq & Hhn).
      assert (h <> t) as Hht by (intro; subst; congruence).
      split; constructor; unfold ws_past_now; wsproj; auto.
      + repeat split; auto.
        * rewrite upd_other by assumption. exact Hh.
        * intros u Hu. destruct (Nat.eq_dec u t) as [->|Hut]; [rewrite upd_same in Hu; discriminate|].
          rewrite upd_other in Hu by assumption. auto.
      + rewrite upd_other by assumption. rewrite (Eoth WData) by discriminate. exact Idlen.
      + intros u Hu. destruct (Nat.eq_dec u t) as [->|Hut]; [rewrite upd_same in Hu; discriminate|].
        rewrite !upd_other in * by assumption. unfold last_idx. rewrite (Eoth WData) by discriminate. auto.
      + intros Hnone'. discriminate. }
  destruct (pc t) eqn:Hpc.
  - specialize (Hx (or_introl eq_refl)). cbv zeta in Hx.
    destruct (wrmw (o_s_xchg o) M (view t) WLock (fun _ => 1%N)) as [[v M'] V']. exact Hx.
  - specialize (Hx (or_intror eq_refl)). cbv zeta in Hx.
    destruct (wrmw (o_s_xchg o) M (view t) WLock (fun _ => 1%N)) as [[v M'] V']. exact Hx.
  - (* inner-loop load, possibly stale: only gates the retry *)
    clear Hx.
    destruct (wload (o_s_wait o) M (view t) WLock c) as [v V'] eqn:E.
    apply wload_eq in E; auto. cbv zeta in E. destruct E as (_ & _ & _ & _ & Hmono & HwfV & _).
    assert (Hpc' : forall u, ws_holding ((if N.eqb v 0 then upd pc t WSXchg else pc) u) = ws_holding (pc u)).
    { intros u. destruct (N.eqb v 0); [|reflexivity]. destruct (Nat.eq_dec u t) as [->|Hut]; [rewrite upd_same, Hpc; reflexivity|].
      rewrite upd_other by assumption. reflexivity. }
    assert (Hpch : forall h, h <> t -> (if N.eqb v 0 then upd pc t WSXchg else pc) h = pc h).
    { intros h Hh. destruct (N.eqb v 0); [rewrite upd_other by assumption|]; reflexivity. }
    split; constructor; unfold ws_past_now; wsproj; auto.
    + intros u. destruct (Nat.eq_dec u t) as [->|Hut]; [rewrite upd_same; exact HwfV|rewrite upd_other by assumption; apply Iwfv].
    + destruct holder as [h|].
      * destruct Ih as (A & B & C0 & D0). repeat split; auto; [rewrite Hpc'; exact B|]. intros u Hu. rewrite Hpc' in Hu. auto.
      * destruct Ih as (A & B). split; [exact A|]. intros u. rewrite Hpc'. apply B.
    + destruct holder as [h|]; [|exact Idlen]. destruct Ih as (_ & B & _).
      assert (h <> t) by (intro; subst; rewrite Hpc in B; discriminate). rewrite Hpch by assumption. exact Idlen.
    + intros u Hu. rewrite Hpc' in Hu. destruct (Nat.eq_dec u t) as [->|Hut]; [rewrite Hpc in Hu; discriminate|].
      rewrite upd_other by assumption. auto.
  - (* critical section: the plain access *)
    clear Hx.
    destruct (wstore Relaxed M (view t) WData (data_next M)) as [M' V'] eqn:E.
    apply wstore_eq in E; auto. destruct E as (EM & Eoth & EVl & EVoth & EM' & EV').
    assert (Hh : ws_holding (pc t) = true) by (rewrite Hpc; reflexivity).
    destruct holder as [h|]; [|destruct Ih as (_ & Hno); rewrite Hno in Hh; discriminate].
    destruct Ih as (Hl1 & Hhh & Huniq & Hhn). assert (t = h) by (apply Huniq; exact Hh). subst h.
    rewrite Hpc in Idlen.
    assert (Hext : mext M M') by (rewrite EM'; apply w_store_mext).
    split; constructor; unfold ws_past_now; wsproj; auto.
    + rewrite EM'. apply w_store_wf; auto.
    + intros u. destruct (Nat.eq_dec u t) as [->|Hut].
      * rewrite upd_same. rewrite EM', EV'. apply w_store_view_wf; auto.
      * rewrite upd_other by assumption. eapply wf_view_mext; eauto.
    + repeat split; auto.
      * unfold last_msg, msg_at, last_idx. rewrite (Eoth WLock) by discriminate. exact Hl1.
      * rewrite upd_same. reflexivity.
      * intros u Hu. destruct (Nat.eq_dec u t) as [->|Hut]; [reflexivity|]. rewrite upd_other in Hu by assumption. auto.
    + rewrite upd_same. rewrite EM, app_length, Idlen. cbn. lia.
    + rewrite Jrace. unfold data_racy. rewrite (Jhdata t Hh), Nat.eqb_refl. reflexivity.
    + intros u Hu. destruct (Nat.eq_dec u t) as [->|Hut].
      * rewrite upd_same. rewrite EVl. unfold last_idx. rewrite EM, app_length. cbn. lia.
      * rewrite upd_other in Hu by assumption. exfalso. apply Hut. auto.
    + intros Hnone'. discriminate.
  - (* unlock: the release store *)
    clear Hx.
    destruct (wstore (o_s_unl_store o) M (view t) WLock 0%N) as [M' V'] eqn:E.
    apply wstore_eq in E; auto. destruct E as (EM & Eoth & EVl & EVoth & EM' & EV').
    assert (Hh : ws_holding (pc t) = true) by (rewrite Hpc; reflexivity).
    destruct holder as [h|]; [|destruct Ih as (_ & Hno); rewrite Hno in Hh; discriminate].
    destruct Ih as (Hl1 & Hhh & Huniq & Hhn). assert (t = h) by (apply Huniq; exact Hh). subst h.
    rewrite Hpc in Idlen.
    assert (Hext : mext M M') by (rewrite EM'; apply w_store_mext).
    assert (Hnoh : forall u, ws_holding (upd pc t WSOut u) = false).
    { intros u. destruct (Nat.eq_dec u t) as [->|Hut]; [rewrite upd_same; reflexivity|].
      rewrite upd_other by assumption. destruct (ws_holding (pc u)) eqn:Hu; [|reflexivity]. exfalso. apply Hut. auto. }
    split; constructor; unfold ws_past_now; wsproj; auto.
    + rewrite EM'. apply w_store_wf; auto.
    + intros u. destruct (Nat.eq_dec u t) as [->|Hut].
      * rewrite upd_same. rewrite EM', EV'. apply w_store_view_wf; auto.
      * rewrite upd_other by assumption. eapply wf_view_mext; eauto.
    + split; [|exact Hnoh]. rewrite (last_msg_app M' WLock _ _ EM). reflexivity.
    + rewrite (Eoth WData) by discriminate. rewrite Idlen. lia.
    + lia.
    + rewrite app_length. cbn. lia.
    + intros u Hu. rewrite Hnoh in Hu. discriminate.
    + intros _ _. rewrite (last_msg_app M' WLock _ _ EM). cbn [mrel mview]. rewrite Hr. split; [reflexivity|]. split.
      * replace (S R - 1) with R by lia. rewrite app_nth2 by lia. replace (R - length relview) with 0 by lia. reflexivity.
      * rewrite (EVoth WData) by discriminate. rewrite (Jhdata t Hh). unfold last_idx. rewrite Idlen. lia.
    + intros k Hk. rewrite app_nth1 by lia. apply Jhb. exact Hk.
Qed.

Lemma SW2_step : forall s t c, SW1 s -> SW2 s -> SW2 (ws_step o n s (t, c)).
Proof. intros s t c I J. apply SW12_step; assumption. Qed.

Lemma SW12_fold : forall sc s, SW1 s -> SW2 s -> SW1 (fold_left (ws_step o n) sc s) /\ SW2 (fold_left (ws_step o n) sc s).
Proof.
  induction sc as [|[t c] l IH]; intros s I J; cbn [fold_left]; [split; assumption|].
  destruct (SW12_step s t c I J) as (I' & J'). apply IH; assumption.
Qed.

Lemma SW12_run : forall sc, SW1 (ws_run o n sc) /\ SW2 (ws_run o n sc).
Proof. intros sc. apply SW12_fold; [exact SW1_init|exact SW2_init]. Qed.

End SimpleWeakHb.
End SimpleWeak.
