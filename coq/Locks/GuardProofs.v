(* Proofs about the guard model (GuardModel.v): balance of acquire/release calls. *)
From Coq Require Import List NArith ZArith Arith Bool Lia.
From FV Require Import Locks.GuardModel.
Import ListNotations.
Local Open Scope Z_scope.

(* ------------------------------------------------------------------ store lemmas *)

Lemma sget_nil : forall g, sget [] g = None.
Proof. intros [|g]; reflexivity. Qed.

Lemma sget_sset_same : forall s g v, sget (sset s g v) g = v.
Proof.
  intros s g; revert s; induction g as [|g IH]; intros [|x r] v; cbn; try reflexivity.
  - apply (IH [] v).
  - apply IH.
Qed.

Lemma sget_sset_other : forall s g h v, g <> h -> sget (sset s g v) h = sget s h.
Proof.
  unfold sget. intros s g; revert s; induction g as [|g IH]; intros [|x r] [|h] v Hne; cbn [sset nth];
    try reflexivity; try congruence.
  - destruct h; reflexivity.
  - rewrite (IH [] h v) by congruence. destruct h; reflexivity.
  - apply IH. congruence.
Qed.

Lemma cnt_x_sset : forall m s g v, cnt_x m (sset s g v) = cnt_x m s - wx m (sget s g) + wx m v.
Proof.
  intros m s g; revert s; induction g as [|g IH]; intros [|x r] v; cbn [sset cnt_x sget nth].
  - cbn. lia.
  - lia.
  - rewrite (IH [] v). rewrite sget_nil. cbn. lia.
  - rewrite IH. unfold sget. lia.
Qed.

Lemma cnt_s_sset : forall m s g v, cnt_s m (sset s g v) = cnt_s m s - ws m (sget s g) + ws m v.
Proof.
  intros m s g; revert s; induction g as [|g IH]; intros [|x r] v; cbn [sset cnt_s sget nth].
  - cbn. lia.
  - lia.
  - rewrite (IH [] v). rewrite sget_nil. cbn. lia.
  - rewrite IH. unfold sget. lia.
Qed.

Lemma wx_nonneg : forall m o, 0 <= wx m o.
Proof. intros m [g|]; cbn; [destruct (_ && _)|]; cbn; lia. Qed.
Lemma ws_nonneg : forall m o, 0 <= ws m o.
Proof. intros m [g|]; cbn; [destruct (_ && _)|]; cbn; lia. Qed.
Lemma cnt_x_nonneg : forall m s, 0 <= cnt_x m s.
Proof. induction s as [|o r IH]; cbn; [lia|]. pose proof (wx_nonneg m o). lia. Qed.
Lemma cnt_s_nonneg : forall m s, 0 <= cnt_s m s.
Proof. induction s as [|o r IH]; cbn; [lia|]. pose proof (ws_nonneg m o). lia. Qed.

Lemma no_live_cnt : forall m s, no_live s = true -> cnt_x m s = 0 /\ cnt_s m s = 0.
Proof.
  induction s as [|o r IH]; cbn; [lia|]. destruct o; [discriminate|]. intros H. apply IH in H. cbn. lia.
Qed.

Lemma hold_x_app : forall m a b, hold_x m (a ++ b) = hold_x m a + hold_x m b.
Proof. induction a; intros; cbn; [lia|]. rewrite IHa. lia. Qed.
Lemma hold_s_app : forall m a b, hold_s m (a ++ b) = hold_s m a + hold_s m b.
Proof. induction a; intros; cbn; [lia|]. rewrite IHa. lia. Qed.

(* the steps use [movable] for move-construction, move-assignment and swap: it is the [offered] table *)
Lemma movable_offered : forall k,
  movable k = offers k XMoveCons /\ movable k = offers k XMoveAssign /\ movable k = offers k XSwap /\
  offers k XCopyCons = false /\ offers k XCopyAssign = false.
Proof. intros []; repeat split; reflexivity. Qed.

(* ------------------------------------------------------------------ single guards *)

(* what a guard object contributes to the counts *)
Definition gx (m : mid) (g : guard) : Z := wx m (Some g).
Definition gs (m : mid) (g : guard) : Z := ws m (Some g).

Lemma guard_lock_delta : forall g g' cs m,
  guard_lock g = Ok (g', cs) ->
  gx m g' = gx m g + hold_x m cs /\ gs m g' = gs m g + hold_s m cs /\ g_kind g' = g_kind g /\ (length cs <= 1)%nat.
Proof.
  intros [k mu ow] g' cs m. unfold guard_lock; cbn.
  destruct ow; [discriminate|]. destruct mu as [m0|]; [|discriminate].
  intros H; inversion H; subst; clear H. unfold gx, gs, wx, ws, guard_protects; cbn.
  destruct k; cbn; destruct (Nat.eqb m m0); cbn; repeat split; lia.
Qed.

Lemma guard_unlock_delta : forall g g' cs m,
  guard_unlock g = Ok (g', cs) ->
  gx m g' = gx m g + hold_x m cs /\ gs m g' = gs m g + hold_s m cs /\ g_kind g' = g_kind g /\ (length cs <= 1)%nat.
Proof.
  intros [k mu ow] g' cs m. unfold guard_unlock; cbn.
  destruct ow; [|discriminate]. destruct mu as [m0|]; [|discriminate].
  intros H; inversion H; subst; clear H. unfold gx, gs, wx, ws, guard_protects; cbn.
  destruct k; cbn; destruct (Nat.eqb m m0); cbn; repeat split; lia.
Qed.

Lemma guard_destroy_delta : forall g cs m,
  guard_destroy g = Ok cs ->
  0 = gx m g + hold_x m cs /\ 0 = gs m g + hold_s m cs /\ (length cs <= 1)%nat.
Proof.
  intros g cs m. unfold guard_destroy.
  destruct (g_owns g) eqn:Ho.
  - destruct (guard_unlock g) as [[g' cs']| |] eqn:Hu; try discriminate.
    intros H; inversion H; subst.
    destruct (guard_unlock_delta _ _ _ m Hu) as (Hx & Hs & _ & Hl).
    assert (gx m g' = 0 /\ gs m g' = 0) as [Hx0 Hs0].
    { unfold guard_unlock in Hu. rewrite Ho in Hu. cbn in Hu. destruct (g_mutex g); [|discriminate].
      inversion Hu; subst. unfold gx, gs, wx, ws, guard_protects. cbn. rewrite !andb_false_r. cbn. lia. }
    lia.
  - intros H; inversion H; subst. unfold gx, gs, wx, ws, guard_protects. rewrite Ho. cbn.
    rewrite !andb_false_r. cbn. lia.
Qed.

Lemma empty_contrib : forall m k, gx m (guard_empty k) = 0 /\ gs m (guard_empty k) = 0.
Proof. intros. unfold gx, gs, wx, ws, guard_protects. cbn. rewrite !andb_false_r. cbn. lia. Qed.
Lemma defer_contrib : forall m k m0, gx m (guard_defer k m0) = 0 /\ gs m (guard_defer k m0) = 0.
Proof. intros. unfold gx, gs, wx, ws, guard_protects. cbn. rewrite !andb_false_r. cbn. lia. Qed.
Lemma adopt_contrib : forall m k m0, movable k = true ->
  gx m (guard_adopt k m0) = hold_x m [adopt_call k m0] /\ gs m (guard_adopt k m0) = hold_s m [adopt_call k m0].
Proof.
  intros m k m0 Hk. unfold gx, gs, wx, ws, guard_protects. cbn.
  destruct k; try discriminate; cbn; destruct (Nat.eqb m m0); cbn; lia.
Qed.

(* ------------------------------------------------------------------ one step *)

Ltac inv_step H := inversion H; subst; clear H.

Lemma lift_guard_delta : forall s g x r s' cs res m,
  sget s g = x ->
  (forall g' cs, r = Ok (g', cs) ->
     wx m (Some g') = wx m x + hold_x m cs /\ ws m (Some g') = ws m x + hold_s m cs /\ (length cs <= 1)%nat) ->
  lift_guard s g r = (s', cs, res) ->
  cnt_x m s' = cnt_x m s + hold_x m cs /\ cnt_s m s' = cnt_s m s + hold_s m cs /\ (length cs <= 1)%nat.
Proof.
  intros s g x r s' cs res m Hg Hr H. unfold lift_guard in H.
  destruct r as [[g' cs']| |].
  - inv_step H. destruct (Hr _ _ eq_refl) as (Hx & Hs & Hl).
    rewrite cnt_x_sset, cnt_s_sset. lia.
  - inv_step H. cbn. lia.
  - inv_step H. cbn. lia.
Qed.

(* the heart: every step changes the guards' claims by exactly the calls it makes *)
Lemma step_delta : forall s o s' cs r m,
  step s o = (s', cs, r) ->
  cnt_x m s' = cnt_x m s + hold_x m cs /\ cnt_s m s' = cnt_s m s + hold_s m cs /\ (length cs <= 1)%nat.
Proof.
  intros s o s' cs r m H.
  assert (Hnop : cnt_x m s = cnt_x m s + hold_x m [] /\ cnt_s m s = cnt_s m s + hold_s m [] /\ (length (@nil mcall) <= 1)%nat)
    by (cbn; lia).
  destruct o as [k g m0|k g m0|k g m0|k g|k g h|g h|g h|g|g|g|g|g m0]; cbn [step] in H.
  - (* ONew *)
    destruct (sget s g) eqn:Hg; [inv_step H; exact Hnop|].
    eapply lift_guard_delta; [exact Hg| |exact H].
    intros g' cs0 Hn. unfold guard_new in Hn.
    destruct (guard_lock_delta _ _ _ m Hn) as (Hx & Hs & _ & Hl).
    destruct (defer_contrib m k m0) as [D1 D2]. unfold gx, gs in *.
    change (wx m None) with 0; change (ws m None) with 0. lia.
  - (* ODefer *)
    destruct (sget s g) eqn:Hg; [inv_step H; exact Hnop|].
    destruct (movable k); inv_step H; [|exact Hnop].
    rewrite cnt_x_sset, cnt_s_sset, Hg.
    destruct (defer_contrib m k m0) as [D1 D2]. unfold gx, gs in *. cbn [wx ws hold_x hold_s length] in *. lia.
  - (* OAdopt *)
    destruct (sget s g) eqn:Hg; [inv_step H; exact Hnop|].
    destruct (movable k) eqn:Hk; inv_step H; [|exact Hnop].
    rewrite cnt_x_sset, cnt_s_sset, Hg.
    destruct (adopt_contrib m k m0 Hk) as [D1 D2]. unfold gx, gs in *. cbn [wx ws length] in *. lia.
  - (* OEmpty *)
    destruct (sget s g) eqn:Hg; [inv_step H; exact Hnop|].
    destruct (movable k); inv_step H; [|exact Hnop].
    rewrite cnt_x_sset, cnt_s_sset, Hg.
    destruct (empty_contrib m k) as [D1 D2]. unfold gx, gs in *. cbn [wx ws hold_x hold_s length] in *. lia.
  - (* OMoveCons *)
    destruct (sget s g) eqn:Hg; [inv_step H; exact Hnop|].
    destruct (sget s h) as [src|] eqn:Hh; [|inv_step H; exact Hnop].
    destruct (movable k && gkind_eqb k (g_kind src)); inv_step H; [|exact Hnop].
    assert (g <> h) by (intro; subst; congruence).
    rewrite !cnt_x_sset, !cnt_s_sset, sget_sset_other, Hg, Hh by assumption.
    destruct (empty_contrib m k) as [D1 D2]. unfold gx, gs in *. cbn [wx ws hold_x hold_s length] in *. lia.
  - (* OMoveAssign *)
    destruct (sget s g) as [dst|] eqn:Hg; [|inv_step H; exact Hnop].
    destruct (sget s h) as [src|] eqn:Hh; [|inv_step H; exact Hnop].
    destruct (movable (g_kind dst) && gkind_eqb (g_kind dst) (g_kind src)); [|inv_step H; exact Hnop].
    destruct (sget (sset s h (Some (guard_empty (g_kind dst)))) g) as [dst1|] eqn:Hg1; [|inv_step H; exact Hnop].
    destruct (guard_destroy dst1) as [cs0| |] eqn:Hd; inv_step H; try exact Hnop.
    destruct (guard_destroy_delta _ _ m Hd) as (Dx & Ds & Dl).
    rewrite !cnt_x_sset, !cnt_s_sset, Hg1, Hh.
    destruct (empty_contrib m (g_kind dst)) as [E1 E2]. unfold gx, gs in *. cbn [wx ws] in *. lia.
  - (* OSwap *)
    destruct (sget s g) as [a|] eqn:Hg; [|inv_step H; exact Hnop].
    destruct (sget s h) as [b|] eqn:Hh; [|inv_step H; exact Hnop].
    destruct (movable (g_kind a) && gkind_eqb (g_kind a) (g_kind b)); inv_step H; [|exact Hnop].
    rewrite !cnt_x_sset, !cnt_s_sset, Hg.
    destruct (Nat.eq_dec g h) as [->|Hne].
    + rewrite sget_sset_same. rewrite Hg in Hh. inversion Hh; subst. cbn [hold_x hold_s length]. lia.
    + rewrite sget_sset_other, Hh by assumption. cbn [hold_x hold_s length]. lia.
  - (* OLock *)
    destruct (sget s g) as [x|] eqn:Hg; [|inv_step H; exact Hnop].
    eapply lift_guard_delta; [exact Hg| |exact H].
    intros g' cs0 Hn. destruct (guard_lock_delta _ _ _ m Hn) as (Hx & Hs & _ & Hl). unfold gx, gs in *. lia.
  - (* OUnlock *)
    destruct (sget s g) as [x|] eqn:Hg; [|inv_step H; exact Hnop].
    eapply lift_guard_delta; [exact Hg| |exact H].
    intros g' cs0 Hn. destruct (guard_unlock_delta _ _ _ m Hn) as (Hx & Hs & _ & Hl). unfold gx, gs in *. lia.
  - (* ODestroy *)
    destruct (sget s g) as [x|] eqn:Hg; [|inv_step H; exact Hnop].
    destruct (guard_destroy x) as [cs0| |] eqn:Hd; inv_step H; try exact Hnop.
    destruct (guard_destroy_delta _ _ m Hd) as (Dx & Ds & Dl).
    rewrite cnt_x_sset, cnt_s_sset, Hg. unfold gx, gs in *. cbn [wx ws] in *. lia.
  - (* OIsLocked *)
    destruct (sget s g); inv_step H; exact Hnop.
  - (* OProtects *)
    destruct (sget s g); inv_step H; exact Hnop.
Qed.

(* ------------------------------------------------------------------ whole runs *)

Lemma exec_delta : forall ops s s' log st m,
  exec s ops = (s', log, st) ->
  cnt_x m s' = cnt_x m s + hold_x m log /\ cnt_s m s' = cnt_s m s + hold_s m log.
Proof.
  induction ops as [|o r IH]; intros s s' log st m H; cbn [exec] in H.
  - inv_step H. cbn. lia.
  - destruct (step s o) as [[s1 cs] res] eqn:Hs.
    destruct (is_stop res); [inv_step H; cbn; lia|].
    destruct (exec s1 r) as [[s2 cs2] st2] eqn:He. inv_step H.
    destruct (step_delta _ _ _ _ _ m Hs) as (A & B & _).
    destruct (IH _ _ _ _ m He) as (C & D).
    rewrite hold_x_app, hold_s_app. lia.
Qed.

(* never negative, at the granularity of single calls *)
Lemma exec_prefix_nonneg : forall ops s s' log st m p q,
  exec s ops = (s', log, st) -> log = p ++ q ->
  0 <= cnt_x m s + hold_x m p /\ 0 <= cnt_s m s + hold_s m p.
Proof.
  induction ops as [|o r IH]; intros s s' log st m p q H Hpq; cbn [exec] in H.
  - inv_step H. match goal with
      | Hq : [] = _ ++ _ |- _ => symmetry in Hq; apply app_eq_nil in Hq as [-> ->]
      | Hq : _ ++ _ = [] |- _ => apply app_eq_nil in Hq as [-> ->] end. cbn.
    match goal with |- 0 <= cnt_x ?mm ?ss + _ /\ _ => pose proof (cnt_x_nonneg mm ss); pose proof (cnt_s_nonneg mm ss) end; lia.
  - destruct (step s o) as [[s1 cs] res] eqn:Hs.
    destruct (is_stop res).
    { inv_step H. match goal with
      | Hq : [] = _ ++ _ |- _ => symmetry in Hq; apply app_eq_nil in Hq as [-> ->]
      | Hq : _ ++ _ = [] |- _ => apply app_eq_nil in Hq as [-> ->] end. cbn.
      match goal with |- 0 <= cnt_x ?mm ?ss + _ /\ _ => pose proof (cnt_x_nonneg mm ss); pose proof (cnt_s_nonneg mm ss) end; lia. }
    destruct (exec s1 r) as [[s2 cs2] st2] eqn:He. injection H as E1 E2 E3. rewrite <- E2 in Hpq. clear E2.
    destruct (step_delta _ _ _ _ _ m Hs) as (A & B & L).
    destruct p as [|c p'].
    { cbn. pose proof (cnt_x_nonneg m s); pose proof (cnt_s_nonneg m s); lia. }
    destruct cs as [|c0 [|c1 cs']]; [| |cbn in L; lia].
    + cbn [app] in Hpq. destruct (IH _ _ _ _ m (c :: p') q He Hpq) as [C D].
      cbn [hold_x hold_s] in A, B. lia.
    + cbn [app] in Hpq. injection Hpq as Ec Hpq. subst c0.
      destruct (IH _ _ _ _ m p' q He Hpq) as [C D].
      cbn [hold_x hold_s] in *. lia.
Qed.

(* ------------------------------------------------------------------ matching release, transfers *)

Definition is_release (c : mcall) : option mid :=
  match c with CUnlock m | CUnlockShared m => Some m | _ => None end.
Definition is_acquire (c : mcall) : option mid :=
  match c with CLock m | CLockShared m => Some m | _ => None end.

(* the release call that matches how a guard of kind k acquires *)
Definition matching_release (k : gkind) (m : mid) : mcall :=
  match acq_call k m with CLockShared _ => CUnlockShared m | _ => CUnlock m end.

Lemma guard_unlock_matching : forall x g' cs,
  guard_unlock x = Ok (g', cs) ->
  exists m, g_owns x = true /\ g_mutex x = Some m /\ cs = [matching_release (g_kind x) m] /\ g_owns g' = false.
Proof.
  intros [k mu ow] g' cs. unfold guard_unlock; cbn. destruct ow; [|discriminate].
  destruct mu as [m|]; [|discriminate]. intros H; inv_step H. exists m. destruct k; cbn; auto.
Qed.

Lemma guard_destroy_matching : forall x cs c,
  guard_destroy x = Ok cs -> In c cs ->
  exists m, g_owns x = true /\ g_mutex x = Some m /\ cs = [matching_release (g_kind x) m].
Proof.
  intros x cs c H Hin. unfold guard_destroy in H. destruct (g_owns x) eqn:Ho.
  - destruct (guard_unlock x) as [[g' cs']| |] eqn:Hu; try discriminate. inv_step H.
    destruct (guard_unlock_matching _ _ _ Hu) as (m & A & B & C & D). eauto.
  - inv_step H. destruct Hin.
Qed.

(* every release call made by a step is the matching release of a live guard that owned that
   mutex before the step; afterwards that guard object does not own any more (or is gone) *)
Lemma step_release_matching : forall s o s' cs r c m,
  step s o = (s', cs, r) -> In c cs -> is_release c = Some m ->
  exists g x, sget s g = Some x /\ g_owns x = true /\ g_mutex x = Some m /\
              c = matching_release (g_kind x) m /\ cs = [c].
Proof.
  intros s o s' cs r c m H Hin Hrel.
  destruct o as [k g m0|k g m0|k g m0|k g|k g h|g h|g h|g|g|g|g|g m0]; cbn [step] in H.
  - destruct (sget s g); [inv_step H; destruct Hin|]. unfold lift_guard, guard_new, guard_lock in H. cbn in H.
    inv_step H. destruct Hin as [<-|[]]. destruct k; discriminate.
  - destruct (sget s g); [inv_step H; destruct Hin|]. destruct (movable k); inv_step H; destruct Hin.
  - destruct (sget s g); [inv_step H; destruct Hin|]. destruct (movable k); inv_step H; [|destruct Hin].
    destruct Hin as [<-|[]]. destruct k; discriminate.
  - destruct (sget s g); [inv_step H; destruct Hin|]. destruct (movable k); inv_step H; destruct Hin.
  - destruct (sget s g); [inv_step H; destruct Hin|]. destruct (sget s h); [|inv_step H; destruct Hin].
    destruct (_ && _); inv_step H; destruct Hin.
  - destruct (sget s g) as [dst|] eqn:Hg; [|inv_step H; destruct Hin].
    destruct (sget s h) as [src|] eqn:Hh; [|inv_step H; destruct Hin].
    destruct (_ && _); [|inv_step H; destruct Hin].
    destruct (sget (sset s h (Some (guard_empty (g_kind dst)))) g) as [dst1|] eqn:Hg1; [|inv_step H; destruct Hin].
    destruct (guard_destroy dst1) as [cs0| |] eqn:Hd; inv_step H; try destruct Hin.
    destruct (guard_destroy_matching _ _ _ Hd Hin) as (m1 & A & B & C).
    destruct (Nat.eq_dec h g) as [->|Hne].
    + rewrite sget_sset_same in Hg1. inversion Hg1; subst. discriminate.
    + rewrite sget_sset_other in Hg1 by assumption. rewrite Hg in Hg1. inversion Hg1; subst dst1.
      subst cs. destruct Hin as [<-|[]]. exists g, dst.
      assert (m1 = m) as -> by (unfold matching_release in Hrel; destruct (acq_call _ _); cbn in Hrel; congruence).
      auto.
  - destruct (sget s g); [|inv_step H; destruct Hin]. destruct (sget s h); [|inv_step H; destruct Hin].
    destruct (_ && _); inv_step H; destruct Hin.
  - destruct (sget s g) as [x|] eqn:Hg; [|inv_step H; destruct Hin].
    unfold lift_guard, guard_lock in H. destruct (g_owns x); [inv_step H; destruct Hin|].
    destruct (g_mutex x); inv_step H; [|destruct Hin]. destruct Hin as [<-|[]]. destruct (g_kind x); discriminate.
  - destruct (sget s g) as [x|] eqn:Hg; [|inv_step H; destruct Hin].
    unfold lift_guard in H. destruct (guard_unlock x) as [[g' cs']| |] eqn:Hu; inv_step H; try destruct Hin.
    destruct (guard_unlock_matching _ _ _ Hu) as (m1 & A & B & C & D). subst cs. destruct Hin as [<-|[]].
    exists g, x.
    assert (m1 = m) as -> by (unfold matching_release in Hrel; destruct (acq_call _ _); cbn in Hrel; congruence).
    auto.
  - destruct (sget s g) as [x|] eqn:Hg; [|inv_step H; destruct Hin].
    destruct (guard_destroy x) as [cs0| |] eqn:Hd; inv_step H; try destruct Hin.
    destruct (guard_destroy_matching _ _ _ Hd Hin) as (m1 & A & B & C). subst cs. destruct Hin as [<-|[]].
    exists g, x.
    assert (m1 = m) as -> by (unfold matching_release in Hrel; destruct (acq_call _ _); cbn in Hrel; congruence).
    auto.
  - destruct (sget s g); inv_step H; destruct Hin.
  - destruct (sget s g); inv_step H; destruct Hin.
Qed.

(* move-construct and swap make no call and preserve, per mutex and mode, the number of owning guards
   (= the multiset of (mutex, owns) pairs of the owning guards) *)
Definition is_transfer (o : op) : bool :=
  match o with OMoveCons _ _ _ | OSwap _ _ => true | _ => false end.

Lemma step_transfer : forall s o s' cs r,
  is_transfer o = true -> step s o = (s', cs, r) ->
  cs = [] /\ forall m, cnt_x m s' = cnt_x m s /\ cnt_s m s' = cnt_s m s.
Proof.
  intros s o s' cs r Ht H.
  assert (cs = []) as ->.
  { destruct o; try discriminate; cbn [step] in H.
    - destruct (sget s g); [inv_step H; reflexivity|]. destruct (sget s h); [|inv_step H; reflexivity].
      destruct (_ && _); inv_step H; reflexivity.
    - destruct (sget s g); [|inv_step H; reflexivity]. destruct (sget s h); [|inv_step H; reflexivity].
      destruct (_ && _); inv_step H; reflexivity. }
  split; [reflexivity|]. intros m. destruct (step_delta _ _ _ _ _ m H) as (A & B & _). cbn in A, B. lia.
Qed.

Lemma step_swap_exact : forall s g h s' cs,
  step s (OSwap g h) = (s', cs, RUnit) ->
  sget s' g = sget s h /\ sget s' h = sget s g /\ (forall i, i <> g -> i <> h -> sget s' i = sget s i).
Proof.
  intros s g h s' cs H. cbn [step] in H.
  destruct (sget s g) as [a|] eqn:Hg; [|discriminate]. destruct (sget s h) as [b|] eqn:Hh; [|discriminate].
  destruct (_ && _); [|discriminate]. inv_step H.
  destruct (Nat.eq_dec g h) as [->|Hne].
  - rewrite !sget_sset_same. rewrite Hg in Hh. inversion Hh; subst. repeat split; auto.
    intros i Hi _. rewrite !sget_sset_other by congruence. reflexivity.
  - rewrite sget_sset_same. rewrite sget_sset_other, sget_sset_same by congruence. repeat split; auto.
    intros i Hi1 Hi2. rewrite !sget_sset_other by congruence. reflexivity.
Qed.

Lemma step_movecons_exact : forall s k g h s' cs,
  step s (OMoveCons k g h) = (s', cs, RUnit) ->
  sget s g = None /\ sget s' g = sget s h /\ sget s' h = Some (guard_empty k) /\
  (forall i, i <> g -> i <> h -> sget s' i = sget s i).
Proof.
  intros s k g h s' cs H. cbn [step] in H.
  destruct (sget s g) eqn:Hg; [discriminate|]. destruct (sget s h) as [src|] eqn:Hh; [|discriminate].
  destruct (_ && _); [|discriminate]. inv_step H.
  assert (g <> h) by (intro; subst; congruence).
  rewrite sget_sset_same, sget_sset_other, sget_sset_same by congruence. repeat split; auto.
  intros i Hi1 Hi2. rewrite !sget_sset_other by congruence. reflexivity.
Qed.

(* move-assignment g = std::move(h): the target ends up with exactly what the source had, the source is
   left empty, and the lock the target owned before (if any, and g <> h) is released exactly once through
   its matching call -- no other call is made. *)
Lemma step_moveassign_exact : forall s g h s' cs,
  step s (OMoveAssign g h) = (s', cs, RUnit) ->
  exists dst src, sget s g = Some dst /\ sget s h = Some src /\
    sget s' g = Some src /\
    (g <> h -> sget s' h = Some (guard_empty (g_kind dst))) /\
    (forall i, i <> g -> i <> h -> sget s' i = sget s i) /\
    cs = (if Nat.eqb g h then [] else
          if g_owns dst then match g_mutex dst with Some m => [matching_release (g_kind dst) m] | None => cs end else []).
Proof.
  intros s g h s' cs H. cbn [step] in H.
  destruct (sget s g) as [dst|] eqn:Hg; [|discriminate]. destruct (sget s h) as [src|] eqn:Hh; [|discriminate].
  destruct (_ && _); [|discriminate].
  destruct (sget (sset s h (Some (guard_empty (g_kind dst)))) g) as [dst1|] eqn:Hg1; [|discriminate].
  destruct (guard_destroy dst1) as [cs0| |] eqn:Hd; inv_step H.
  exists dst, src. rewrite sget_sset_same. repeat split; auto.
  - intros Hne. rewrite sget_sset_other, sget_sset_same by congruence. reflexivity.
  - intros i Hi1 Hi2. rewrite !sget_sset_other by congruence. reflexivity.
  - destruct (Nat.eqb_spec g h) as [->|Hne].
    + rewrite sget_sset_same in Hg1. inversion Hg1; subst. cbn in Hd. inversion Hd; reflexivity.
    + rewrite sget_sset_other in Hg1 by congruence. rewrite Hg in Hg1. inversion Hg1; subst dst1.
      unfold guard_destroy in Hd. destruct (g_owns dst) eqn:Ho; [|inversion Hd; reflexivity].
      destruct (guard_unlock dst) as [[g' cs']| |] eqn:Hu; try discriminate. inversion Hd; subst.
      destruct (guard_unlock_matching _ _ _ Hu) as (m & A & B & C & D). rewrite B. exact C.
Qed.

(* ------------------------------------------------------------------ assertions and UB *)

(* owning guards have a mutex *)
Definition gwf (o : option guard) : Prop :=
  match o with Some x => g_owns x = true -> g_mutex x <> None | None => True end.
Definition swf (s : store) : Prop := forall g, gwf (sget s g).

Lemma swf_empty : swf empty_store.
Proof. intros g. unfold empty_store. rewrite sget_nil. exact I. Qed.

Lemma swf_sset : forall s g v, swf s -> gwf v -> swf (sset s g v).
Proof.
  intros s g v Hs Hv i. destruct (Nat.eq_dec g i) as [->|Hne].
  - rewrite sget_sset_same. exact Hv.
  - rewrite sget_sset_other by assumption. apply Hs.
Qed.

Lemma step_swf : forall s o s' cs r, swf s -> step s o = (s', cs, r) -> swf s'.
Proof.
  intros s o s' cs r Hw H.
  destruct o as [k g m0|k g m0|k g m0|k g|k g h|g h|g h|g|g|g|g|g m0]; cbn [step] in H.
  - destruct (sget s g); [inv_step H; exact Hw|]. cbn in H. inv_step H. apply swf_sset; [exact Hw|]. cbn. congruence.
  - destruct (sget s g); [inv_step H; exact Hw|]. destruct (movable k); inv_step H; [|exact Hw].
    apply swf_sset; [exact Hw|]. cbn. congruence.
  - destruct (sget s g); [inv_step H; exact Hw|]. destruct (movable k); inv_step H; [|exact Hw].
    apply swf_sset; [exact Hw|]. cbn. congruence.
  - destruct (sget s g); [inv_step H; exact Hw|]. destruct (movable k); inv_step H; [|exact Hw].
    apply swf_sset; [exact Hw|]. cbn. congruence.
  - destruct (sget s g); [inv_step H; exact Hw|]. destruct (sget s h) as [src|] eqn:Hh; [|inv_step H; exact Hw].
    destruct (_ && _); inv_step H; [|exact Hw].
    apply swf_sset; [apply swf_sset; [exact Hw|]|]. { specialize (Hw h). rewrite Hh in Hw. exact Hw. } cbn. congruence.
  - destruct (sget s g) as [dst|] eqn:Hg; [|inv_step H; exact Hw].
    destruct (sget s h) as [src|] eqn:Hh; [|inv_step H; exact Hw].
    destruct (_ && _); [|inv_step H; exact Hw].
    destruct (sget (sset s h (Some (guard_empty (g_kind dst)))) g) as [dst1|]; [|inv_step H; exact Hw].
    destruct (guard_destroy dst1); inv_step H; try exact Hw.
    apply swf_sset; [apply swf_sset; [exact Hw|]|]. { cbn. congruence. } specialize (Hw h). rewrite Hh in Hw. exact Hw.
  - destruct (sget s g) as [a|] eqn:Hg; [|inv_step H; exact Hw].
    destruct (sget s h) as [b|] eqn:Hh; [|inv_step H; exact Hw].
    destruct (_ && _); inv_step H; [|exact Hw].
    apply swf_sset; [apply swf_sset; [exact Hw|]|].
    { specialize (Hw h). rewrite Hh in Hw. exact Hw. } { specialize (Hw g). rewrite Hg in Hw. exact Hw. }
  - destruct (sget s g) as [x|] eqn:Hg; [|inv_step H; exact Hw].
    unfold lift_guard, guard_lock in H. destruct (g_owns x); [inv_step H; exact Hw|].
    destruct (g_mutex x); inv_step H; [|exact Hw]. apply swf_sset; [exact Hw|]. cbn. congruence.
  - destruct (sget s g) as [x|] eqn:Hg; [|inv_step H; exact Hw].
    unfold lift_guard, guard_unlock in H. destruct (negb (g_owns x)); [inv_step H; exact Hw|].
    destruct (g_mutex x); inv_step H; [|exact Hw]. apply swf_sset; [exact Hw|]. cbn. congruence.
  - destruct (sget s g) as [x|] eqn:Hg; [|inv_step H; exact Hw].
    destruct (guard_destroy x); inv_step H; try exact Hw. apply swf_sset; [exact Hw|exact I].
  - destruct (sget s g); inv_step H; exact Hw.
  - destruct (sget s g); inv_step H; exact Hw.
Qed.

(* in a well-formed store, a step stops exactly as the FRG_ASSERTs document, and UB is only
   lock() on a guard that has no mutex (default-constructed or moved-from) *)
Lemma step_stop_exact : forall s o s' cs r,
  swf s -> step s o = (s', cs, r) -> is_stop r = true ->
  s' = s /\ cs = [] /\
  exists g x, sget s g = Some x /\
    ((o = OLock g /\ g_owns x = true /\ r = RAssert ALockWhileOwning) \/
     (o = OUnlock g /\ g_owns x = false /\ r = RAssert AUnlockWhileNotOwning) \/
     (o = OLock g /\ g_owns x = false /\ g_mutex x = None /\ r = RUB)).
Proof.
  intros s o s' cs r Hw H Hstop.
  assert (Hd : forall x cs0, gwf (Some x) -> guard_destroy x <> @AssertStop _ cs0 /\ guard_destroy x <> UB).
  { intros x w Hx. unfold guard_destroy, guard_unlock. destruct (g_owns x) eqn:Ho; cbn; [|split; discriminate].
    cbn in Hx. destruct (g_mutex x); [split; discriminate|]. exfalso. apply Hx; auto. }
  destruct o as [k g m0|k g m0|k g m0|k g|k g h|g h|g h|g|g|g|g|g m0]; cbn [step] in H.
  - destruct (sget s g); [inv_step H; discriminate|]. cbn in H. inv_step H. discriminate.
  - destruct (sget s g); [inv_step H; discriminate|]. destruct (movable k); inv_step H; discriminate.
  - destruct (sget s g); [inv_step H; discriminate|]. destruct (movable k); inv_step H; discriminate.
  - destruct (sget s g); [inv_step H; discriminate|]. destruct (movable k); inv_step H; discriminate.
  - destruct (sget s g); [inv_step H; discriminate|]. destruct (sget s h); [|inv_step H; discriminate].
    destruct (_ && _); inv_step H; discriminate.
  - destruct (sget s g) as [dst|] eqn:Hg; [|inv_step H; discriminate].
    destruct (sget s h) as [src|] eqn:Hh; [|inv_step H; discriminate].
    destruct (_ && _); [|inv_step H; discriminate].
    destruct (sget (sset s h (Some (guard_empty (g_kind dst)))) g) as [dst1|] eqn:Hg1; [|inv_step H; discriminate].
    assert (gwf (Some dst1)) as Hw1.
    { destruct (Nat.eq_dec h g) as [->|Hne].
      - rewrite sget_sset_same in Hg1. inversion Hg1. cbn. congruence.
      - rewrite sget_sset_other in Hg1 by assumption. specialize (Hw g). rewrite Hg1 in Hw. exact Hw. }
    destruct (guard_destroy dst1) eqn:Hdd; inv_step H; try discriminate.
    + exfalso. eapply (proj1 (Hd _ w Hw1)); eauto.
    + exfalso. eapply (proj2 (Hd _ ALockWhileOwning Hw1)); eauto.
  - destruct (sget s g); [|inv_step H; discriminate]. destruct (sget s h); [|inv_step H; discriminate].
    destruct (_ && _); inv_step H; discriminate.
  - destruct (sget s g) as [x|] eqn:Hg; [|inv_step H; discriminate].
    unfold lift_guard, guard_lock in H. destruct (g_owns x) eqn:Ho.
    + inv_step H. repeat split; auto. exists g, x. auto.
    + destruct (g_mutex x) eqn:Hm; inv_step H; [discriminate|]. repeat split; auto. exists g, x. auto 10.
  - destruct (sget s g) as [x|] eqn:Hg; [|inv_step H; discriminate].
    unfold lift_guard, guard_unlock in H. destruct (g_owns x) eqn:Ho; cbn in H.
    + destruct (g_mutex x) eqn:Hm; inv_step H; [discriminate|].
      exfalso. specialize (Hw g). rewrite Hg in Hw. apply Hw; auto.
    + inv_step H. repeat split; auto. exists g, x. auto 10.
  - destruct (sget s g) as [x|] eqn:Hg; [|inv_step H; discriminate].
    assert (gwf (Some x)) as Hwx by (specialize (Hw g); rewrite Hg in Hw; exact Hw).
    destruct (guard_destroy x) eqn:Hdd; inv_step H; try discriminate.
    + exfalso. eapply (proj1 (Hd _ w Hwx)); eauto.
    + exfalso. eapply (proj2 (Hd _ ALockWhileOwning Hwx)); eauto.
  - destruct (sget s g); inv_step H; discriminate.
  - destruct (sget s g); inv_step H; discriminate.
Qed.

(* ------------------------------------------------------------------ the statement of C12 (guards) *)

Definition balanced (s : store) (log : list mcall) : Prop :=
  forall m, hold_x m log = cnt_x m s /\ hold_s m log = cnt_s m s.

Lemma cnt_empty : forall m, cnt_x m empty_store = 0 /\ cnt_s m empty_store = 0.
Proof. intros; cbn; lia. Qed.

Theorem guard_balance_main : forall ops s log st,
  exec empty_store ops = (s, log, st) ->
  (* after every prefix of the script (every prefix of a script is a script) *)
  balanced s log /\
  (* at the granularity of single calls the holds never go negative: every release has its own earlier acquisition *)
  (forall p q m, log = p ++ q -> 0 <= hold_x m p /\ 0 <= hold_s m p) /\
  (* after all guards are destroyed every acquisition has exactly one release *)
  (no_live s = true -> forall m, hold_x m log = 0 /\ hold_s m log = 0).
Proof.
  intros ops s log st H. split; [|split].
  - intros m. destruct (exec_delta _ _ _ _ _ m H) as [A B]. cbn in A, B. lia.
  - intros p q m Hpq. destruct (exec_prefix_nonneg _ _ _ _ _ m p q H Hpq) as [A B]. cbn in A, B. lia.
  - intros Hn m. destruct (exec_delta _ _ _ _ _ m H) as [A B]. destruct (no_live_cnt m s Hn) as [C D].
    cbn in A, B. lia.
Qed.

(* exec visits exactly the stores/steps reachable by prefixes: a per-step property that holds in well-formed
   stores holds along every run from the empty store *)
Lemma exec_swf : forall ops s s' log st, swf s -> exec s ops = (s', log, st) -> swf s'.
Proof.
  induction ops as [|o r IH]; intros s s' log st Hw H; cbn [exec] in H.
  - inv_step H. exact Hw.
  - destruct (step s o) as [[s1 cs] res] eqn:Hs. destruct (is_stop res); [inv_step H; exact Hw|].
    destruct (exec s1 r) as [[s2 cs2] st2] eqn:He. inv_step H.
    eapply IH; [|exact He]. eapply step_swf; eauto.
Qed.

(* when a run is stopped, the stopping op is characterised as in step_stop_exact *)
Lemma exec_stop_exact : forall ops s s' log st r,
  swf s -> exec s ops = (s', log, st) -> st = Some r ->
  exists pre o post, ops = pre ++ o :: post /\ exec s pre = (s', log, None) /\
    exists g x, sget s' g = Some x /\
    ((o = OLock g /\ g_owns x = true /\ r = RAssert ALockWhileOwning) \/
     (o = OUnlock g /\ g_owns x = false /\ r = RAssert AUnlockWhileNotOwning) \/
     (o = OLock g /\ g_owns x = false /\ g_mutex x = None /\ r = RUB)).
Proof.
  induction ops as [|o rest IH]; intros s s' log st r Hw H Hst; cbn [exec] in H.
  - inv_step H. discriminate.
  - destruct (step s o) as [[s1 cs] res] eqn:Hs. destruct (is_stop res) eqn:Hstop.
    + inv_step H. inversion H3; subst res.
      destruct (step_stop_exact _ _ _ _ _ Hw Hs Hstop) as (_ & _ & g & x & Hg & Hcases).
      exists [], o, rest. repeat split; auto. exists g, x. auto.
    + destruct (exec s1 rest) as [[s2 cs2] st2] eqn:He. inv_step H.
      destruct (IH _ _ _ _ r (step_swf _ _ _ _ _ Hw Hs) He eq_refl) as (pre & o' & post & E1 & E2 & E3).
      exists (o :: pre), o', post. split; [cbn; congruence|]. split; [|exact E3].
      cbn [exec]. rewrite Hs, Hstop, E2. reflexivity.
Qed.
