From FV Require Import Common.ExtractTypes Locks.GuardModel.
From Coq Require Extraction.
From Coq Require Import ExtrOcamlBasic.
Extraction "../build/extract/guard_model.ml" types_witness empty_store step exec live_ids sget offered offers helper_op.
