(* Executable model of the lock guards of frigg, as they are in /repo NOW:
     frg::unique_lock<M>, frg::shared_lock<M>   (include/frg/mutex.hpp)
     frg::lock_guard<M>                         (include/frg/qs.hpp, used by the QS domain)
   Definitions only -- proofs are in GuardProofs.v.

   A guard object is {kind; mutex : option mid; owns : bool}.  The only thing a guard does to the
   outside world is call lock()/unlock()/lock_shared()/unlock_shared() on its mutex; the model's
   output is that call sequence.  An adopted lock (adopt_lock constructor) makes no call; it is
   recorded as the ghost event CAdopt/CAdoptShared ("counted at adoption").

   Layer 1 (single guard: guard_new/guard_lock/guard_unlock/guard_destroy/...) is what other
   components (QS domain, slab pool) use; layer 2 is a store of guards driven by op scripts. *)
From Coq Require Import List NArith ZArith Arith Bool.
Import ListNotations.

Definition mid := nat.     (* mutex identity *)
Definition gid := nat.     (* guard slot *)

Inductive gkind := KUnique | KShared | KQs.
Definition gkind_eqb (a b : gkind) : bool :=
  match a, b with KUnique, KUnique | KShared, KShared | KQs, KQs => true | _, _ => false end.

Inductive mcall :=
| CLock (m : mid) | CUnlock (m : mid) | CLockShared (m : mid) | CUnlockShared (m : mid)
| CAdopt (m : mid) | CAdoptShared (m : mid).        (* ghost: lock taken over by an adopt_lock ctor *)

Record guard := mk_guard { g_kind : gkind; g_mutex : option mid; g_owns : bool }.

(* which FRG_ASSERT stopped the run *)
Inductive awhere := ALockWhileOwning | AUnlockWhileNotOwning.

Inductive res (A : Type) :=
| Ok (a : A)
| AssertStop (w : awhere)
| UB.                      (* _mutex->... through a null _mutex *)
Arguments Ok {A} a.
Arguments AssertStop {A} w.
Arguments UB {A}.

(* ---------------------------------------------------------------- layer 1: one guard *)

(* the call lock() makes on the mutex *)
Definition acq_call (k : gkind) (m : mid) : mcall :=
  match k with KShared => CLockShared m | _ => CLock m end.
(* the call unlock() makes on the mutex *)
Definition rel_call (k : gkind) (m : mid) : mcall :=
  match k with
  | KUnique => CUnlock m
  | KShared => CUnlockShared m
  | KQs => CUnlock m    (* after the D04 fix (was: _mutex->lock()) *)
  end.
Definition adopt_call (k : gkind) (m : mid) : mcall :=
  match k with KShared => CAdoptShared m | _ => CAdopt m end.

Definition guard_empty (k : gkind) : guard := mk_guard k None false.             (* default ctor *)
Definition guard_defer (k : gkind) (m : mid) : guard := mk_guard k (Some m) false.  (* dont_lock *)
Definition guard_adopt (k : gkind) (m : mid) : guard := mk_guard k (Some m) true.   (* adopt_lock *)

(* lock(): FRG_ASSERT(!_is_locked); _mutex->lock[_shared](); _is_locked = true; *)
Definition guard_lock (g : guard) : res (guard * list mcall) :=
  if g_owns g then AssertStop ALockWhileOwning else
  match g_mutex g with
  | None => UB
  | Some m => Ok (mk_guard (g_kind g) (Some m) true, [acq_call (g_kind g) m])
  end.

(* unlock(): FRG_ASSERT(_is_locked); _mutex->unlock[_shared](); _is_locked = false; *)
Definition guard_unlock (g : guard) : res (guard * list mcall) :=
  if negb (g_owns g) then AssertStop AUnlockWhileNotOwning else
  match g_mutex g with
  | None => UB
  | Some m => Ok (mk_guard (g_kind g) (Some m) false, [rel_call (g_kind g) m])
  end.

(* G(Mutex &m) : _mutex{&m}, _is_locked{false} { lock(); } *)
Definition guard_new (k : gkind) (m : mid) : res (guard * list mcall) := guard_lock (guard_defer k m).

(* ~G() { if(_is_locked) unlock(); } *)
Definition guard_destroy (g : guard) : res (list mcall) :=
  if g_owns g then
    match guard_unlock g with
    | Ok (_, cs) => Ok cs
    | AssertStop w => AssertStop w
    | UB => UB
    end
  else Ok [].

Definition guard_is_locked (g : guard) : bool := g_owns g.
Definition guard_protects (g : guard) (m : mid) : bool :=
  g_owns g && match g_mutex g with Some m' => Nat.eqb m m' | None => false end.

(* ---------------------------------------------------------------- layer 2: store of guards *)

Definition store := list (option guard).        (* index = slot; None = no live guard there *)
Definition empty_store : store := [].

Definition sget (s : store) (g : gid) : option guard := nth g s None.
Fixpoint sset (s : store) (g : gid) (v : option guard) : store :=
  match g, s with
  | O, [] => [v]
  | O, _ :: r => v :: r
  | S g', [] => None :: sset [] g' v
  | S g', x :: r => x :: sset r g' v
  end.

Inductive op :=
| ONew (k : gkind) (g : gid) (m : mid)        (* G g(m)             *)
| ODefer (k : gkind) (g : gid) (m : mid)      (* G g(dont_lock, m)  *)
| OAdopt (k : gkind) (g : gid) (m : mid)      (* G g(adopt_lock, m) *)
| OEmpty (k : gkind) (g : gid)                (* G g                *)
| OMoveCons (k : gkind) (g h : gid)           (* G g(std::move(h))  *)
| OMoveAssign (g h : gid)                     (* g = std::move(h)   *)
| OSwap (g h : gid)                           (* swap(g, h)         *)
| OLock (g : gid) | OUnlock (g : gid) | ODestroy (g : gid)
| OIsLocked (g : gid) | OProtects (g : gid) (m : mid).

(* the free helper functions of mutex.hpp: guard(&m) = unique_lock(m) (locking), guard(dont_lock, &m) =
   unique_lock(dont_lock, m) (deferred: has the mutex, does not own it).  There is no adopt_lock overload. *)
Inductive helper := HGuard | HGuardDontLock.
Definition helper_op (h : helper) (g : gid) (m : mid) : op :=
  match h with HGuard => ONew KUnique g m | HGuardDontLock => ODefer KUnique g m end.

Inductive ores :=
| RUnit | RBool (b : bool)
| RAssert (w : awhere) | RUB        (* the run stops here *)
| RInvalid.                         (* the script is ill-typed here (dead slot, live target slot, kind mismatch,
                                       lock_guard is neither movable nor default-constructible); no effect *)

Definition is_stop (r : ores) : bool := match r with RAssert _ | RUB => true | _ => false end.

(* QS lock_guard offers only the locking constructor, lock, unlock and the destructor *)
Definition movable (k : gkind) : bool := match k with KQs => false | _ => true end.

(* The API surface through which ownership can be transferred or duplicated, per guard type -- what the C++ type
   traits is_copy_constructible / is_move_constructible / is_copy_assignable / is_move_assignable / is_swappable
   report for the real classes.  unique_lock and shared_lock: deleted copy constructor, move constructor,
   operator= taking its argument BY VALUE (so only rvalues can be assigned) and a friend swap; QS lock_guard:
   copy construction and copy assignment deleted, hence no implicit move operations and no swap.
   The harness prints this table from the real types (script op `api`) and the driver prints [offered]; the
   harness additionally EXECUTES every transfer operation a type offers, expected or not. *)
Inductive xfer_op := XCopyCons | XMoveCons | XCopyAssign | XMoveAssign | XSwap.
Definition offered (k : gkind) : list xfer_op :=
  match k with
  | KUnique | KShared => [XMoveCons; XMoveAssign; XSwap]
  | KQs => []
  end.
Definition xfer_eqb (a b : xfer_op) : bool :=
  match a, b with
  | XCopyCons, XCopyCons | XMoveCons, XMoveCons | XCopyAssign, XCopyAssign | XMoveAssign, XMoveAssign | XSwap, XSwap => true
  | _, _ => false
  end.
Definition offers (k : gkind) (x : xfer_op) : bool := existsb (xfer_eqb x) (offered k).

Definition lift_guard (s : store) (g : gid) (r : res (guard * list mcall)) : store * list mcall * ores :=
  match r with
  | Ok (g', cs) => (sset s g (Some g'), cs, RUnit)
  | AssertStop w => (s, [], RAssert w)
  | UB => (s, [], RUB)
  end.

Definition step (s : store) (o : op) : store * list mcall * ores :=
  match o with
  | ONew k g m =>
      match sget s g with
      | Some _ => (s, [], RInvalid)
      | None => lift_guard s g (guard_new k m)
      end
  | ODefer k g m =>
      match sget s g with
      | Some _ => (s, [], RInvalid)
      | None => if movable k then (sset s g (Some (guard_defer k m)), [], RUnit) else (s, [], RInvalid)
      end
  | OAdopt k g m =>
      match sget s g with
      | Some _ => (s, [], RInvalid)
      | None => if movable k then (sset s g (Some (guard_adopt k m)), [adopt_call k m], RUnit) else (s, [], RInvalid)
      end
  | OEmpty k g =>
      match sget s g with
      | Some _ => (s, [], RInvalid)
      | None => if movable k then (sset s g (Some (guard_empty k)), [], RUnit) else (s, [], RInvalid)
      end
  | OMoveCons k g h =>
      (* G(G &&other) : G() { swap( *this, other); } *)
      match sget s g, sget s h with
      | None, Some src =>
          if movable k && gkind_eqb k (g_kind src)
          then (sset (sset s g (Some src)) h (Some (guard_empty k)), [], RUnit)
          else (s, [], RInvalid)
      | _, _ => (s, [], RInvalid)
      end
  | OMoveAssign g h =>
      (* G &operator= (G other) { swap( *this, other); return *this; }
         the parameter is move-constructed from h, swapped with g, and destroyed *)
      match sget s g, sget s h with
      | Some dst, Some src =>
          if movable (g_kind dst) && gkind_eqb (g_kind dst) (g_kind src) then
            let k := g_kind dst in
            let s1 := sset s h (Some (guard_empty k)) in          (* other(std::move(h)) *)
            match sget s1 g with
            | Some dst1 =>                                        (* = dst, or empty when g = h *)
                let s2 := sset s1 g (Some src) in                 (* swap( *this, other) *)
                match guard_destroy dst1 with                     (* ~other *)
                | Ok cs => (s2, cs, RUnit)
                | AssertStop w => (s, [], RAssert w)
                | UB => (s, [], RUB)
                end
            | None => (s, [], RInvalid)
            end
          else (s, [], RInvalid)
      | _, _ => (s, [], RInvalid)
      end
  | OSwap g h =>
      match sget s g, sget s h with
      | Some a, Some b =>
          if movable (g_kind a) && gkind_eqb (g_kind a) (g_kind b)
          then (sset (sset s g (Some b)) h (Some a), [], RUnit)
          else (s, [], RInvalid)
      | _, _ => (s, [], RInvalid)
      end
  | OLock g =>
      match sget s g with
      | Some x => lift_guard s g (guard_lock x)
      | None => (s, [], RInvalid)
      end
  | OUnlock g =>
      match sget s g with
      | Some x => lift_guard s g (guard_unlock x)
      | None => (s, [], RInvalid)
      end
  | ODestroy g =>
      match sget s g with
      | Some x =>
          match guard_destroy x with
          | Ok cs => (sset s g None, cs, RUnit)
          | AssertStop w => (s, [], RAssert w)
          | UB => (s, [], RUB)
          end
      | None => (s, [], RInvalid)
      end
  | OIsLocked g =>
      match sget s g with
      | Some x => (s, [], RBool (guard_is_locked x))
      | None => (s, [], RInvalid)
      end
  | OProtects g m =>
      match sget s g with
      | Some x => (s, [], RBool (guard_protects x m))
      | None => (s, [], RInvalid)
      end
  end.

(* run a script: stops at the first assertion / UB.  Result: final store, the whole call log
   (in order), and whether the run was stopped. *)
Fixpoint exec (s : store) (ops : list op) : store * list mcall * option ores :=
  match ops with
  | [] => (s, [], None)
  | o :: r =>
      match step s o with
      | (s', cs, res) =>
          if is_stop res then (s, [], Some res) else
          match exec s' r with (s'', cs', st) => (s'', cs ++ cs', st) end
      end
  end.

(* slots holding a live guard, ascending (the "end" of a script destroys them in this order) *)
Fixpoint live_from (i : nat) (s : store) : list gid :=
  match s with
  | [] => []
  | None :: r => live_from (S i) r
  | Some _ :: r => i :: live_from (S i) r
  end.
Definition live_ids (s : store) : list gid := live_from 0 s.
Definition destroy_all (s : store) : list op := map ODestroy (live_ids s).

(* ---------------------------------------------------------------- what the property talks about *)
Local Open Scope Z_scope.

Definition b2z (b : bool) : Z := if b then 1 else 0.

(* exclusive / shared hold of mutex m according to the call log: acquire calls (adoptions
   included) minus release calls *)
Definition dx (m : mid) (c : mcall) : Z :=
  match c with
  | CLock m' | CAdopt m' => b2z (Nat.eqb m m')
  | CUnlock m' => - b2z (Nat.eqb m m')
  | _ => 0
  end.
Definition ds (m : mid) (c : mcall) : Z :=
  match c with
  | CLockShared m' | CAdoptShared m' => b2z (Nat.eqb m m')
  | CUnlockShared m' => - b2z (Nat.eqb m m')
  | _ => 0
  end.
Fixpoint hold_x (m : mid) (log : list mcall) : Z :=
  match log with [] => 0 | c :: r => dx m c + hold_x m r end.
Fixpoint hold_s (m : mid) (log : list mcall) : Z :=
  match log with [] => 0 | c :: r => ds m c + hold_s m r end.

Definition is_shared (k : gkind) : bool := match k with KShared => true | _ => false end.

(* does this slot hold a live guard that owns m exclusively / shared *)
Definition wx (m : mid) (o : option guard) : Z :=
  match o with
  | Some g => b2z (negb (is_shared (g_kind g)) && guard_protects g m)
  | None => 0
  end.
Definition ws (m : mid) (o : option guard) : Z :=
  match o with
  | Some g => b2z (is_shared (g_kind g) && guard_protects g m)
  | None => 0
  end.
(* #{live guards g : owns g /\ mutex g = m}, split by mode *)
Fixpoint cnt_x (m : mid) (s : store) : Z :=
  match s with [] => 0 | o :: r => wx m o + cnt_x m r end.
Fixpoint cnt_s (m : mid) (s : store) : Z :=
  match s with [] => 0 | o :: r => ws m o + cnt_s m r end.

Definition no_live (s : store) : bool := forallb (fun o => match o with None => true | Some _ => false end) s.
