From FV Require Import Common.ExtractTypes Locks.SpinModel.
From Coq Require Extraction.
From Coq Require Import ExtrOcamlBasic.
Extraction "../build/extract/spin_model.ml" types_witness
  treal_init trstep t_is_locked t_api_lock t_api_draw t_api_spin t_api_unlock
  sreal_init srstep s_is_locked s_api_lock s_api_xchg s_api_load s_api_unlock.
