(* frg::ticket_spinlock and frg::simple_spinlock over the multi-writer release/acquire memory of RAMulti.v:
   loads may return STALE values.  Definitions only -- proofs are in SpinWeakProofs.v.

   Arbitrary thread pool (tid -> pc, tid -> view), one memory access per step.  A schedule is an arbitrary
   list of (thread, choice): the thread takes its next step and, when that step is a plain atomic load, the
   choice decides which admissible message it returns (0 = the last one; always 0 = the SC machines of
   SpinModel.v).  Read-modify-writes read the last message; stores append.
   Locations: WNext = next_ticket_, WServing = serving_ticket_, WLock = lock_, WData = the data the lock
   protects.  Inside its critical section a thread performs ONE plain (non-atomic) read-modify-write of WData;
   it is a data race -- recorded in the [race] flag -- unless the thread's view covers the last write to WData.
   The memory orders are the [orders] record of SpinModel.v (one field per access site), instantiated from
   Gen/SpinOrders.v in Properties_C12.v.
   Recorders (do not influence the machine): [draws]/[grants] as in SpinModel.v, [relview] = the releasing
   thread's view right after its k-th release store, [acqview] = the acquiring thread's view right after the k-th
   acquisition. *)
From Coq Require Import List NArith Arith Bool.
From FV Require Import Locks.SpinModel.
From FV Require Import Locks.RAMulti.
Import ListNotations.

Inductive wloc := WNext | WServing | WLock | WData.
Definition wloc_eqb (a b : wloc) : bool :=
  match a, b with
  | WNext, WNext | WServing, WServing | WLock, WLock | WData, WData => true
  | _, _ => false
  end.

Notation wview := (view wloc).
Notation wmsg := (msg wloc).
Notation wmem := (mem wloc).
Definition wload := ra_load wloc wloc_eqb.
Definition wstore := ra_store wloc wloc_eqb.
Definition wrmw := ra_rmw wloc wloc_eqb.
Definition init_msg (v : N) : wmsg := mk_msg v false vbot.

Definition sched := list (tid * nat).

(* the plain access of the critical section: racy unless the view covers the last write *)
Definition data_racy (M : wmem) (V : wview) : bool := negb (Nat.eqb (V WData) (last_idx M WData)).
Definition data_next (M : wmem) : N := (mval (last_msg M WData) + 1)%N.

(* ------------------------------------------------------------------ ticket_spinlock *)

Inductive wpc :=
| WIdle
| WSpin (ticket : N)     (* in lock(): next access is a load of serving_ticket_ *)
| WCrit                  (* lock() returned; next access is the plain access of the protected data *)
| WCritW                 (* critical section done; next access is unlock()'s load of serving_ticket_ *)
| WUnl (current : N).    (* in unlock(): next access is the store *)

Record wt := mk_wt {
  wt_mem : wmem; wt_pc : tid -> wpc; wt_view : tid -> wview;
  wt_draws : list tid; wt_grants : list tid; wt_gt : tid -> nat; wt_released : nat;
  wt_relview : list wview; wt_acqview : list wview; wt_race : bool
}.

Definition wt_init_at (base : N) : wt :=
  mk_wt (fun l => match l with WNext | WServing => [init_msg (N.modulo base W)] | _ => [init_msg 0] end)
        (fun _ => WIdle) (fun _ => vbot) [] [] (fun _ => 0) 0 [] [] false.

Definition wt_step (o : orders) (n : nat) (s : wt) (e : tid * nat) : wt :=
  let t := fst e in let c := snd e in
  if Nat.leb n t then s else
  let M := wt_mem s in let V := wt_view s t in
  match wt_pc s t with
  | WIdle =>
      match wrmw (o_t_draw o) M V WNext (fun x => N.modulo (x + 1) W) with
      | (v, M', V') =>
          mk_wt M' (upd (wt_pc s) t (WSpin v)) (upd (wt_view s) t V')
                (wt_draws s ++ [t]) (wt_grants s) (upd (wt_gt s) t (length (wt_draws s))) (wt_released s)
                (wt_relview s) (wt_acqview s) (wt_race s)
      end
  | WSpin tk =>
      match wload (o_t_spin o) M V WServing c with
      | (v, V') =>
          if N.eqb v tk then
            mk_wt M (upd (wt_pc s) t WCrit) (upd (wt_view s) t V')
                  (wt_draws s) (wt_grants s ++ [t]) (wt_gt s) (wt_released s)
                  (wt_relview s) (wt_acqview s ++ [V']) (wt_race s)
          else
            mk_wt M (wt_pc s) (upd (wt_view s) t V')
                  (wt_draws s) (wt_grants s) (wt_gt s) (wt_released s) (wt_relview s) (wt_acqview s) (wt_race s)
      end
  | WCrit =>
      match wstore Relaxed M V WData (data_next M) with
      | (M', V') =>
          mk_wt M' (upd (wt_pc s) t WCritW) (upd (wt_view s) t V')
                (wt_draws s) (wt_grants s) (wt_gt s) (wt_released s) (wt_relview s) (wt_acqview s)
                (wt_race s || data_racy M V)
      end
  | WCritW =>
      match wload (o_t_unl_load o) M V WServing c with
      | (v, V') =>
          mk_wt M (upd (wt_pc s) t (WUnl v)) (upd (wt_view s) t V')
                (wt_draws s) (wt_grants s) (wt_gt s) (wt_released s) (wt_relview s) (wt_acqview s) (wt_race s)
      end
  | WUnl cur =>
      match wstore (o_t_unl_store o) M V WServing (N.modulo (cur + 1) W) with
      | (M', V') =>
          mk_wt M' (upd (wt_pc s) t WIdle) (upd (wt_view s) t V')
                (wt_draws s) (wt_grants s) (wt_gt s) (S (wt_released s))
                (wt_relview s ++ [V']) (wt_acqview s) (wt_race s)
      end
  end.

Definition wt_run_at (o : orders) (n : nat) (base : N) (sc : sched) : wt := fold_left (wt_step o n) sc (wt_init_at base).

Definition w_holding (p : wpc) : bool := match p with WCrit | WCritW | WUnl _ => true | _ => false end.
Definition w_past (p : wpc) : bool := match p with WCritW | WUnl _ => true | _ => false end.
Definition w_waiting (p : wpc) : bool := match p with WSpin _ => true | _ => false end.

(* the memory never returns a message that is 2^32 - n or more messages behind the last one *)
Definition stale_bounded (n : nat) (sc : sched) : Prop :=
  Forall (fun e => (N.of_nat (snd e) + N.of_nat n <= W)%N) sc.

(* ------------------------------------------------------------------ simple_spinlock *)

Inductive wspc := WSOut | WSXchg | WSLoad | WSCrit | WSCritW.

Record ws := mk_ws {
  ws_mem : wmem; ws_pc : tid -> wspc; ws_view : tid -> wview;
  ws_holder : option tid; ws_grants : list tid; ws_released : nat;
  ws_relview : list wview; ws_acqview : list wview; ws_race : bool
}.

Definition ws_init : ws :=
  mk_ws (fun _ => [init_msg 0]) (fun _ => WSOut) (fun _ => vbot) None [] 0 [] [] false.

Definition ws_step (o : orders) (n : nat) (s : ws) (e : tid * nat) : ws :=
  let t := fst e in let c := snd e in
  if Nat.leb n t then s else
  let M := ws_mem s in let V := ws_view s t in
  match ws_pc s t with
  | WSOut | WSXchg =>
      match wrmw (o_s_xchg o) M V WLock (fun _ => 1%N) with
      | (v, M', V') =>
          if N.eqb v 0 then
            mk_ws M' (upd (ws_pc s) t WSCrit) (upd (ws_view s) t V') (Some t) (ws_grants s ++ [t]) (ws_released s)
                  (ws_relview s) (ws_acqview s ++ [V']) (ws_race s)
          else
            mk_ws M' (upd (ws_pc s) t WSLoad) (upd (ws_view s) t V') (ws_holder s) (ws_grants s) (ws_released s)
                  (ws_relview s) (ws_acqview s) (ws_race s)
      end
  | WSLoad =>
      match wload (o_s_wait o) M V WLock c with
      | (v, V') =>
          mk_ws M (if N.eqb v 0 then upd (ws_pc s) t WSXchg else ws_pc s) (upd (ws_view s) t V')
                (ws_holder s) (ws_grants s) (ws_released s) (ws_relview s) (ws_acqview s) (ws_race s)
      end
  | WSCrit =>
      match wstore Relaxed M V WData (data_next M) with
      | (M', V') =>
          mk_ws M' (upd (ws_pc s) t WSCritW) (upd (ws_view s) t V') (ws_holder s) (ws_grants s) (ws_released s)
                (ws_relview s) (ws_acqview s) (ws_race s || data_racy M V)
      end
  | WSCritW =>
      match wstore (o_s_unl_store o) M V WLock 0%N with
      | (M', V') =>
          mk_ws M' (upd (ws_pc s) t WSOut) (upd (ws_view s) t V') None (ws_grants s) (S (ws_released s))
                (ws_relview s ++ [V']) (ws_acqview s) (ws_race s)
      end
  end.

Definition ws_run (o : orders) (n : nat) (sc : sched) : ws := fold_left (ws_step o n) sc ws_init.

Definition ws_holding (p : wspc) : bool := match p with WSCrit | WSCritW => true | _ => false end.
Definition ws_waiting (p : wspc) : bool := match p with WSXchg | WSLoad => true | _ => false end.
