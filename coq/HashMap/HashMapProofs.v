(* Proofs about the hash_map model: invariant and refinement to an association list,
   for every hash function. *)
From Coq Require Import List NArith Arith Bool Lia Permutation.
From FV Require Import HashMap.HashMapModel.
Import ListNotations.

(* ---------- generic list facts ---------- *)

Lemma upd_nth_length {A} (l : list A) i f : length (upd_nth l i f) = length l.
Proof. revert i; induction l as [|x l IH]; intros [|i]; simpl; auto. Qed.

Lemma nth_upd_nth_same {A} (l : list A) i f d : i < length l -> nth i (upd_nth l i f) d = f (nth i l d).
Proof. revert i; induction l as [|x l IH]; intros [|i] H; simpl in *; try lia; auto. apply IH; lia. Qed.

Lemma nth_upd_nth_other {A} (l : list A) i j f d : i <> j -> nth j (upd_nth l i f) d = nth j l d.
Proof. revert i j; induction l as [|x l IH]; intros [|i] [|j] H; simpl; auto; try lia. Qed.

Lemma concat_upd_nth_cons {A} (t : list (list A)) i e :
  i < length t -> Permutation (concat (upd_nth t i (fun ch => e :: ch))) (e :: concat t).
Proof.
  revert i; induction t as [|c t IH]; intros [|i] H; simpl in *; try lia.
  - apply Permutation_refl.
  - eapply Permutation_trans; [apply Permutation_app_head, IH; lia|].
    apply Permutation_sym, Permutation_middle.
Qed.

Lemma in_concat_nth {A} (t : list (list A)) (e : A) :
  In e (concat t) <-> exists i, i < length t /\ In e (nth i t []).
Proof.
  induction t as [|c t IH]; simpl.
  - split; [tauto|intros (i & H & _); lia].
  - rewrite in_app_iff, IH. split.
    + intros [H|(i & Hi & H)]; [exists 0; split; [lia|auto]|exists (S i); split; [lia|auto]].
    + intros ([|i] & Hi & H); [left; auto|right; exists i; split; [lia|auto]].
Qed.

Lemma filter_id_in {A} (f : A -> bool) l : (forall x, In x l -> f x = true) -> filter f l = l.
Proof.
  induction l as [|a l IH]; intros H; cbn [filter]; [reflexivity|].
  rewrite (H a (or_introl eq_refl)). f_equal. apply IH. intros x Hx. apply H. right; exact Hx.
Qed.

Lemma Permutation_filter_compat {A} (f : A -> bool) l l' :
  Permutation l l' -> Permutation (filter f l) (filter f l').
Proof.
  induction 1 as [|x l l' P IH|x y l|l l' l'' P1 IH1 P2 IH2]; cbn [filter].
  - constructor.
  - destruct (f x); [constructor|]; exact IH.
  - destruct (f x), (f y); try apply Permutation_refl. constructor.
  - eapply Permutation_trans; eauto.
Qed.

(* ---------- association lists with distinct keys ---------- *)

Fixpoint assoc (k : N) (l : list entry) : option N :=
  match l with [] => None | (k', v) :: r => if N.eqb k' k then Some v else assoc k r end.

Lemma chain_find_assoc k l : chain_find k l = assoc k l.
Proof. induction l as [|[k' v] l IH]; simpl; auto. Qed.

Lemma assoc_in k v l : assoc k l = Some v -> In (k, v) l.
Proof.
  induction l as [|[k' v'] l IH]; simpl; [discriminate|].
  destruct (N.eqb_spec k' k) as [->|Hne].
  - intros [= ->]. left; reflexivity.
  - intros H; right; auto.
Qed.

Lemma assoc_none k l : assoc k l = None <-> ~ In k (map fst l).
Proof.
  induction l as [|[k' v'] l IH]; simpl; [tauto|].
  destruct (N.eqb_spec k' k); [split; [discriminate|intros H; exfalso; auto]|].
  rewrite IH. tauto.
Qed.

Lemma in_assoc k v l : NoDup (map fst l) -> In (k, v) l -> assoc k l = Some v.
Proof.
  induction l as [|[k' v'] l IH]; simpl; [tauto|]. intros ND [H|H].
  - inversion H; subst. rewrite N.eqb_refl; auto.
  - inversion ND as [|? ? Hn ND']; subst. destruct (N.eqb_spec k' k); [subst|auto].
    exfalso; apply Hn. change k with (fst (k, v)). apply in_map; auto.
Qed.

Lemma assoc_perm k l l' : NoDup (map fst l) -> Permutation l l' -> assoc k l = assoc k l'.
Proof.
  intros ND P. assert (ND' : NoDup (map fst l')) by (eapply Permutation_NoDup; [apply Permutation_map, P|auto]).
  destruct (assoc k l) eqn:E.
  - symmetry. apply in_assoc; auto. eapply Permutation_in; [apply P|apply assoc_in; auto].
  - symmetry. apply assoc_none. apply assoc_none in E. intros H; apply E.
    eapply Permutation_in; [apply Permutation_sym, Permutation_map, P|auto].
Qed.

(* reference operations on an association list *)
Definition ref := list entry.
Definition ref_set (k v : N) (r : ref) : ref := map (fun e => if N.eqb (fst e) k then (fst e, v) else e) r.
Definition ref_del (k : N) (r : ref) : ref := filter (fun e => negb (N.eqb (fst e) k)) r.

Inductive rout := RUnit | RVal (v : option N) | RList (l : list entry).

Definition ref_step (r : ref) (o : op) : ref * rout :=
  match o with
  | Insert k v => ((k, v) :: r, RUnit)
  | IndexSet k v => match assoc k r with
                    | Some old => (ref_set k v r, RVal (Some old))
                    | None => ((k, v) :: r, RVal None) end
  | Get k => (r, RVal (assoc k r))
  | Remove k => (ref_del k r, RVal (assoc k r))
  | Iterate => (r, RList r)
  | Size => (r, RVal (Some (N.of_nat (length r))))
  end.

(* documented precondition: insert only of absent keys *)
Definition op_ok (r : ref) (o : op) : Prop :=
  match o with Insert k _ => ~ In k (map fst r) | _ => True end.

Fixpoint ops_ok (r : ref) (ops : list op) : Prop :=
  match ops with [] => True | o :: rest => op_ok r o /\ ops_ok (fst (ref_step r o)) rest end.

Lemma ref_set_keys k v r : map fst (ref_set k v r) = map fst r.
Proof. unfold ref_set. rewrite map_map. apply map_ext. intros [a b]; simpl. destruct (N.eqb a k); auto. Qed.

Lemma ref_del_keys_nodup k r : NoDup (map fst r) -> NoDup (map fst (ref_del k r)).
Proof.
  induction r as [|[a b] r IH]; simpl; auto. intros ND. inversion ND as [|? ? Hn ND']; subst.
  destruct (N.eqb a k); simpl; auto. constructor; auto.
  intros H; apply Hn. unfold ref_del in H. rewrite in_map_iff in *. destruct H as (x & Hx & Hin).
  apply filter_In in Hin. exists x; tauto.
Qed.

Section Proofs.
Variable hash : N -> N.

Definition entries (m : hm) : list entry := concat (table m).

Definition chains_ok (c : nat) (t : list chain) : Prop :=
  forall i e, i < length t -> In e (nth i t []) -> bucket_of hash c (fst e) = i.

Record Inv (m : hm) : Prop := {
  inv_size : size m = length (entries m);
  inv_nodup : NoDup (map fst (entries m));
  inv_chains : chains_ok (cap m) (table m);
}.

Lemma bucket_lt c k : 0 < c -> bucket_of hash c k < c.
Proof.
  intros H. unfold bucket_of.
  assert (N.of_nat c <> 0%N) by lia.
  pose proof (N.mod_upper_bound (hash k mod 4294967296) (N.of_nat c) H0). lia.
Qed.

Lemma Inv_empty : Inv empty_hm.
Proof. split; simpl; [reflexivity|constructor|intros i e H; simpl in H; lia]. Qed.

(* ----- push_front ----- *)
Lemma push_front_length t c e : length (push_front hash t c e) = length t.
Proof. apply upd_nth_length. Qed.

Lemma push_front_perm c t e : 0 < c -> length t = c ->
  Permutation (concat (push_front hash t c e)) (e :: concat t).
Proof. intros H L. apply concat_upd_nth_cons. subst c. apply bucket_lt; auto. Qed.

Lemma push_front_chains c t e : 0 < c -> length t = c -> chains_ok c t ->
  chains_ok c (push_front hash t c e).
Proof.
  intros Hc L Hok i x Hi Hin. unfold push_front in *. rewrite upd_nth_length in Hi.
  destruct (Nat.eq_dec (bucket_of hash c (fst e)) i) as [<-|Hne].
  - rewrite nth_upd_nth_same in Hin by (rewrite L; apply bucket_lt; auto).
    destruct Hin as [<-|Hin]; auto.
  - rewrite nth_upd_nth_other in Hin by auto. auto.
Qed.

(* ----- rehash ----- *)
Lemma fold_push_spec c l : 0 < c -> forall t, length t = c -> chains_ok c t ->
  let t' := fold_left (fun t e => push_front hash t c e) l t in
  length t' = c /\ chains_ok c t' /\ Permutation (concat t') (l ++ concat t).
Proof.
  intros Hc. induction l as [|e l IH]; intros t L Hok; simpl.
  - repeat split; auto.
  - assert (L' : length (push_front hash t c e) = c) by (rewrite push_front_length; auto).
    destruct (IH (push_front hash t c e) L' (push_front_chains c t e Hc L Hok)) as (L2 & C & P).
    repeat split; auto.
    eapply Permutation_trans; [apply P|].
    eapply Permutation_trans; [apply Permutation_app_head, push_front_perm; auto|].
    apply Permutation_sym, Permutation_middle.
Qed.

Lemma concat_repeat_nil {A} n : concat (repeat (@nil A) n) = [].
Proof. induction n; simpl; auto. Qed.

Lemma nth_repeat_nil {A} n i : nth i (repeat (@nil A) n) [] = [].
Proof. revert i; induction n; intros [|i]; simpl; auto. Qed.

Lemma rehash_spec m : Inv m ->
  Inv (rehash hash m) /\ Permutation (entries (rehash hash m)) (entries m) /\ size m < cap (rehash hash m).
Proof.
  intros I. unfold rehash, entries, cap. simpl.
  set (c := new_cap m).
  assert (Hc : 0 < c) by (unfold c, new_cap; lia).
  assert (Hok0 : chains_ok c (repeat [] c)).
  { intros i e Hi Hin. rewrite nth_repeat_nil in Hin. destruct Hin. }
  destruct (fold_push_spec c (concat (table m)) Hc (repeat [] c) (repeat_length _ _) Hok0) as (L & C & P).
  rewrite concat_repeat_nil, app_nil_r in P.
  repeat split; simpl.
  - rewrite (inv_size m I). unfold entries. symmetry. apply Permutation_length. exact P.
  - eapply Permutation_NoDup; [apply Permutation_sym, Permutation_map, P|apply (inv_nodup m I)].
  - unfold cap; simpl. rewrite L. exact C.
  - exact P.
  - rewrite L. unfold c, new_cap. lia.
Qed.

Lemma grow_spec m : Inv m ->
  Inv (grow_if_full hash m) /\ Permutation (entries (grow_if_full hash m)) (entries m)
  /\ size (grow_if_full hash m) = size m /\ size m < cap (grow_if_full hash m).
Proof.
  intros I. unfold grow_if_full. destruct (Nat.leb_spec (cap m) (size m)).
  - destruct (rehash_spec m I) as (I' & P & C).
    split; [exact I'|]. split; [exact P|]. split; [reflexivity|exact C].
  - split; [exact I|]. split; [apply Permutation_refl|]. split; [reflexivity|lia].
Qed.

(* ----- lookup ----- *)
Lemma get_spec m k : Inv m -> get hash k m = assoc k (entries m).
Proof.
  intros I. unfold get. destruct (size m) eqn:Es.
  - rewrite (inv_size m I) in Es. destruct (entries m); [reflexivity|discriminate].
  - rewrite chain_find_assoc.
    assert (Hc : 0 < cap m).
    { destruct (table m) eqn:Et; [|unfold cap; rewrite Et; simpl; lia].
      rewrite (inv_size m I) in Es. unfold entries in Es. rewrite Et in Es. discriminate. }
    set (b := bucket_of hash (cap m) k).
    assert (Hb : b < cap m) by (apply bucket_lt; auto).
    destruct (assoc k (nth b (table m) [])) eqn:E.
    + symmetry. apply in_assoc; [apply (inv_nodup m I)|].
      apply in_concat_nth. exists b. split; auto. apply assoc_in; auto.
    + symmetry. apply assoc_none. apply assoc_none in E. intros Hin. apply E.
      apply in_map_iff in Hin. destruct Hin as ([k' v] & Hk & Hin). simpl in Hk; subst k'.
      apply in_concat_nth in Hin. destruct Hin as (i & Hi & Hin).
      pose proof (inv_chains m I i (k, v) Hi Hin) as Hbi. simpl in Hbi. fold b in Hbi. subst i.
      change k with (fst (k, v)). apply in_map; auto.
Qed.

(* ----- insert ----- *)
Lemma push_entry_spec m1 k v : Inv m1 -> 0 < cap m1 -> ~ In k (map fst (entries m1)) ->
  let m' := mk_hm (push_front hash (table m1) (cap m1) (k, v)) (S (size m1)) in
  Inv m' /\ Permutation (entries m') ((k, v) :: entries m1).
Proof.
  intros I Hc Hk m'.
  assert (P : Permutation (entries m') ((k, v) :: entries m1)) by (apply push_front_perm; auto).
  split; [|exact P]. split.
  - simpl. rewrite (Permutation_length P). simpl. rewrite (inv_size m1 I). reflexivity.
  - eapply Permutation_NoDup; [apply Permutation_sym, Permutation_map, P|].
    simpl. constructor; auto. apply (inv_nodup m1 I).
  - unfold cap, m'; simpl. rewrite push_front_length. apply push_front_chains; auto. apply (inv_chains m1 I).
Qed.

Lemma insert_spec m k v : Inv m -> ~ In k (map fst (entries m)) ->
  Inv (insert hash k v m) /\ Permutation (entries (insert hash k v m)) ((k, v) :: entries m).
Proof.
  intros I Hk. unfold insert.
  destruct (grow_spec m I) as (I1 & P1 & S1 & C1).
  set (m1 := grow_if_full hash m) in *.
  assert (Hk1 : ~ In k (map fst (entries m1))).
  { intros H; apply Hk. eapply Permutation_in; [apply Permutation_map, P1|auto]. }
  destruct (push_entry_spec m1 k v I1 ltac:(lia) Hk1) as (I2 & P2).
  split; auto. eapply Permutation_trans; [apply P2|]. constructor; auto.
Qed.

(* ----- chain surgery ----- *)
Lemma concat_split {A} (t : list (list A)) i : i < length t ->
  concat t = concat (firstn i t) ++ nth i t [] ++ concat (skipn (S i) t).
Proof.
  revert i; induction t as [|c t IH]; intros [|i] H; simpl in *; try lia; auto.
  rewrite <- app_assoc. f_equal. apply IH; lia.
Qed.

Lemma concat_upd_split {A} (t : list (list A)) i f : i < length t ->
  concat (upd_nth t i f) = concat (firstn i t) ++ f (nth i t []) ++ concat (skipn (S i) t).
Proof.
  revert i; induction t as [|c t IH]; intros [|i] H; simpl in *; try lia; auto.
  rewrite <- app_assoc. f_equal. apply IH; lia.
Qed.

Lemma chain_set_spec k v ch : NoDup (map fst ch) ->
  chain_set k v ch = ref_set k v ch.
Proof.
  induction ch as [|[a b] ch IH]; simpl; auto. intros ND. inversion ND as [|? ? Hn ND']; subst.
  destruct (N.eqb_spec a k).
  - subst. f_equal. unfold ref_set. symmetry. rewrite <- (map_id ch) at 2. apply map_ext_in.
    intros [a b'] Hin. simpl. destruct (N.eqb_spec a k); auto. subst. exfalso. apply Hn.
    change k with (fst (k, b')). apply in_map; auto.
  - f_equal. apply IH; auto.
Qed.

Lemma chain_remove_spec k ch : NoDup (map fst ch) -> chain_remove k ch = ref_del k ch.
Proof.
  induction ch as [|[a b] ch IH]; simpl; auto. intros ND. inversion ND as [|? ? Hn ND']; subst.
  destruct (N.eqb_spec a k); simpl.
  - subst. symmetry. unfold ref_del. apply filter_id_in.
    intros [a b'] Hin. simpl. destruct (N.eqb_spec a k); auto. subst. exfalso. apply Hn.
    change k with (fst (k, b')). apply in_map; auto.
  - f_equal. apply IH; auto.
Qed.

Lemma ref_set_other k v l : ~ In k (map fst l) -> ref_set k v l = l.
Proof.
  intros H. unfold ref_set. rewrite <- (map_id l) at 2. apply map_ext_in. intros [a b] Hin. simpl.
  destruct (N.eqb_spec a k); auto. subst. exfalso; apply H. change k with (fst (k, b)). apply in_map; auto.
Qed.

Lemma ref_del_other k l : ~ In k (map fst l) -> ref_del k l = l.
Proof.
  intros H. unfold ref_del. apply filter_id_in. intros [a b] Hin. simpl.
  destruct (N.eqb_spec a k); auto. subst. exfalso; apply H. change k with (fst (k, b)). apply in_map; auto.
Qed.

Lemma NoDup_app_l {A} (l1 l2 : list A) : NoDup (l1 ++ l2) -> NoDup l1.
Proof. induction l1; simpl; [constructor|]. inversion 1; subst. constructor; auto. rewrite in_app_iff in *; tauto. Qed.
Lemma NoDup_app_r {A} (l1 l2 : list A) : NoDup (l1 ++ l2) -> NoDup l2.
Proof. induction l1; simpl; auto. inversion 1; auto. Qed.
Lemma NoDup_app_disj {A} (l1 l2 : list A) x : NoDup (l1 ++ l2) -> In x l1 -> ~ In x l2.
Proof. induction l1; simpl; [tauto|]. inversion 1; subst. rewrite in_app_iff in *. intros [->|H']; [tauto|auto]. Qed.

(* key k lives only in its own bucket: rewriting that chain = rewriting the whole entry list *)
Lemma only_in_bucket m k : Inv m -> 0 < cap m ->
  let b := bucket_of hash (cap m) k in
  let l1 := concat (firstn b (table m)) in
  let l2 := concat (skipn (S b) (table m)) in
  entries m = l1 ++ nth b (table m) [] ++ l2 /\
    ~ In k (map fst l1) /\ ~ In k (map fst l2) /\ NoDup (map fst (nth b (table m) [])) /\
    forall f sz, entries (mk_hm (upd_nth (table m) b f) sz) = l1 ++ f (nth b (table m) []) ++ l2.
Proof.
  intros I Hc b l1 l2. assert (Hb : b < cap m) by (apply bucket_lt; auto).
  pose proof (concat_split (table m) b Hb) as E1. fold l1 l2 in E1.
  pose proof (inv_nodup m I) as ND. unfold entries in *. rewrite E1 in ND.
  rewrite !map_app in ND.
  assert (Hkey : forall v, In (k, v) (concat (table m)) -> In (k, v) (nth b (table m) [])).
  { intros v Hin. apply in_concat_nth in Hin. destruct Hin as (i & Hi & Hin).
    pose proof (inv_chains m I i (k, v) Hi Hin) as Hbi. simpl in Hbi. fold b in Hbi. subst; auto. }
  repeat split; auto.
  - intros Hin. apply in_map_iff in Hin. destruct Hin as ([k' v] & Hk & Hin). simpl in Hk; subst k'.
    assert (Hall : In (k, v) (concat (table m))) by (rewrite E1; apply in_or_app; auto).
    apply Hkey in Hall. eapply (NoDup_app_disj _ _ k ND).
    + change k with (fst (k, v)). apply in_map; auto.
    + apply in_or_app; left. change k with (fst (k, v)). apply in_map; auto.
  - intros Hin. apply in_map_iff in Hin. destruct Hin as ([k' v] & Hk & Hin). simpl in Hk; subst k'.
    assert (Hall : In (k, v) (concat (table m))) by (rewrite E1; apply in_or_app; right; apply in_or_app; auto).
    apply Hkey in Hall. apply NoDup_app_r in ND. eapply (NoDup_app_disj _ _ k ND).
    + change k with (fst (k, v)). apply in_map; auto.
    + change k with (fst (k, v)). apply in_map; auto.
  - apply NoDup_app_r in ND. apply NoDup_app_l in ND. auto.
  - intros f sz. simpl. apply concat_upd_split; auto.
Qed.

Lemma cap_pos m : Inv m -> size m <> 0 -> 0 < cap m.
Proof.
  intros I Hs. destruct (table m) eqn:Et; [|unfold cap; rewrite Et; simpl; lia].
  exfalso. apply Hs. rewrite (inv_size m I). unfold entries. rewrite Et. reflexivity.
Qed.

Lemma upd_chains_ok c t b f : chains_ok c t ->
  (forall ch e, In e (f ch) -> exists e', In e' ch /\ fst e' = fst e) ->
  chains_ok c (upd_nth t b f).
Proof.
  intros Hok Hf i e Hi Hin. rewrite upd_nth_length in Hi.
  destruct (Nat.eq_dec b i) as [<-|Hne].
  - rewrite nth_upd_nth_same in Hin by exact Hi.
    apply Hf in Hin. destruct Hin as (e' & Hin' & <-). apply Hok; auto.
  - rewrite nth_upd_nth_other in Hin by exact Hne. apply Hok; auto.
Qed.

Lemma chain_set_in k v ch e : In e (chain_set k v ch) -> exists e', In e' ch /\ fst e' = fst e.
Proof.
  induction ch as [|[a b] ch IH]; cbn [chain_set]; [intros []|].
  destruct (N.eqb a k).
  - intros [<-|H]; [exists (a, b); split; [left; reflexivity|reflexivity]|exists e; split; [right; exact H|reflexivity]].
  - intros [<-|H]; [exists (a, b); split; [left; reflexivity|reflexivity]|].
    destruct (IH H) as (e' & H1 & H2). exists e'; split; [right; exact H1|exact H2].
Qed.

Lemma chain_remove_in k ch e : In e (chain_remove k ch) -> exists e', In e' ch /\ fst e' = fst e.
Proof.
  induction ch as [|[a b] ch IH]; cbn [chain_remove]; [intros []|].
  destruct (N.eqb a k).
  - intros H. exists e; split; [right; exact H|reflexivity].
  - intros [<-|H]; [exists (a, b); split; [left; reflexivity|reflexivity]|].
    destruct (IH H) as (e' & H1 & H2). exists e'; split; [right; exact H1|exact H2].
Qed.

Lemma chain_remove_length k v ch : assoc k ch = Some v -> S (length (chain_remove k ch)) = length ch.
Proof.
  induction ch as [|[a b] ch IH]; cbn [assoc chain_remove]; [discriminate|].
  destruct (N.eqb a k); [reflexivity|]. intros H. cbn [length]. f_equal. apply IH; exact H.
Qed.

Lemma ref_set_app k v l1 l2 : ref_set k v (l1 ++ l2) = ref_set k v l1 ++ ref_set k v l2.
Proof. apply map_app. Qed.
Lemma ref_del_app k l1 l2 : ref_del k (l1 ++ l2) = ref_del k l1 ++ ref_del k l2.
Proof. apply filter_app. Qed.

(* the chain looked at by get / operator[] / remove answers for the whole entry list *)
Lemma bucket_lookup m k : Inv m -> size m <> 0 ->
  chain_find k (nth (bucket_of hash (cap m) k) (table m) []) = assoc k (entries m).
Proof.
  intros I Hs. pose proof (get_spec m k I) as G. unfold get in G.
  destruct (size m); [contradiction|exact G].
Qed.

(* ----- operator[] followed by assignment ----- *)
Lemma index_set_spec m k v : Inv m ->
  let m' := fst (index_set hash k v m) in
  let r := snd (index_set hash k v m) in
  r = assoc k (entries m) /\ Inv m' /\
  Permutation (entries m')
    (match r with Some _ => ref_set k v (entries m) | None => (k, v) :: entries m end).
Proof.
  intros I. cbv zeta. unfold index_set. destruct (size m) eqn:Es.
  - (* empty map: rehash() unconditionally, then link *)
    assert (E0 : entries m = []).
    { pose proof (inv_size m I) as Hs. rewrite Es in Hs. destruct (entries m); [reflexivity|discriminate]. }
    destruct (rehash_spec m I) as (I1 & P1 & C1). rewrite E0 in P1.
    apply Permutation_sym, Permutation_nil in P1.
    assert (Hk1 : ~ In k (map fst (entries (rehash hash m)))) by (rewrite P1; intros []).
    assert (Hc1 : 0 < cap (rehash hash m)) by lia.
    destruct (push_entry_spec (rehash hash m) k v I1 Hc1 Hk1) as (I2 & P2).
    assert (S1 : S (size (rehash hash m)) = 1) by (cbn [rehash size]; rewrite Es; reflexivity).
    rewrite S1 in I2, P2. cbn [fst snd]. rewrite E0. cbn [assoc].
    split; [reflexivity|]. split; [exact I2|]. rewrite P1 in P2. exact P2.
  - assert (Hs : size m <> 0) by lia. rewrite <- Es. clear n Es.
    rewrite (bucket_lookup m k I Hs).
    destruct (assoc k (entries m)) as [old|] eqn:E; cbn [fst snd].
    + (* hit: the value is overwritten in place *)
      pose proof (cap_pos m I Hs) as Hc.
      destruct (only_in_bucket m k I Hc) as (E1 & N1 & N2 & NDb & Eupd).
      set (b := bucket_of hash (cap m) k) in *.
      assert (Eent : entries (mk_hm (upd_nth (table m) b (chain_set k v)) (size m)) = ref_set k v (entries m)).
      { rewrite Eupd, E1, !ref_set_app, (ref_set_other k v _ N1), (ref_set_other k v _ N2).
        rewrite chain_set_spec by exact NDb. reflexivity. }
      split; [reflexivity|]. split; [|rewrite Eent; apply Permutation_refl].
      split.
      * rewrite Eent. cbn [size]. unfold ref_set. rewrite map_length. apply (inv_size m I).
      * rewrite Eent, ref_set_keys. apply (inv_nodup m I).
      * unfold cap; cbn [table]. rewrite upd_nth_length. apply upd_chains_ok; [apply (inv_chains m I)|].
        intros ch e. apply chain_set_in.
    + (* miss: same path as insert *)
      split; [reflexivity|]. apply assoc_none in E.
      exact (insert_spec m k v I E).
Qed.

(* ----- remove ----- *)
Lemma remove_spec m k : Inv m ->
  let m' := fst (remove hash k m) in
  let r := snd (remove hash k m) in
  r = assoc k (entries m) /\ Inv m' /\ entries m' = ref_del k (entries m).
Proof.
  intros I. cbv zeta. unfold remove. destruct (size m) eqn:Es.
  - assert (E0 : entries m = []).
    { pose proof (inv_size m I) as Hs. rewrite Es in Hs. destruct (entries m); [reflexivity|discriminate]. }
    cbn [fst snd]. rewrite E0. split; [reflexivity|]. split; [exact I|reflexivity].
  - assert (Hs : size m <> 0) by lia. rewrite <- Es. clear n Es.
    rewrite (bucket_lookup m k I Hs).
    destruct (assoc k (entries m)) as [old|] eqn:E; cbn [fst snd].
    + pose proof (cap_pos m I Hs) as Hc.
      destruct (only_in_bucket m k I Hc) as (E1 & N1 & N2 & NDb & Eupd).
      set (b := bucket_of hash (cap m) k) in *.
      assert (Eb : assoc k (nth b (table m) []) = Some old).
      { rewrite <- chain_find_assoc. unfold b. rewrite (bucket_lookup m k I Hs). exact E. }
      assert (Eent : entries (mk_hm (upd_nth (table m) b (chain_remove k)) (pred (size m))) = ref_del k (entries m)).
      { rewrite Eupd, E1, !ref_del_app, (ref_del_other k _ N1), (ref_del_other k _ N2).
        rewrite chain_remove_spec by exact NDb. reflexivity. }
      split; [reflexivity|]. split; [|exact Eent].
      split.
      * rewrite Eent. cbn [size]. rewrite (inv_size m I).
        rewrite E1, !ref_del_app, (ref_del_other k _ N1), (ref_del_other k _ N2), !app_length.
        rewrite <- chain_remove_spec by exact NDb.
        pose proof (chain_remove_length k old _ Eb). lia.
      * rewrite Eent. apply ref_del_keys_nodup. apply (inv_nodup m I).
      * unfold cap; cbn [table]. rewrite upd_nth_length. apply upd_chains_ok; [apply (inv_chains m I)|].
        intros ch e. apply chain_remove_in.
    + split; [reflexivity|]. split; [exact I|]. symmetry. apply ref_del_other. apply assoc_none. exact E.
Qed.

Lemma iterate_entries m : Inv m -> iterate m = entries m.
Proof.
  intros I. unfold iterate. destruct (size m) eqn:Es; [|reflexivity].
  pose proof (inv_size m I) as Hs. rewrite Es in Hs. destruct (entries m); [reflexivity|discriminate].
Qed.

(* ----- simulation of the reference association list ----- *)
Definition Sim (m : hm) (r : ref) : Prop := Inv m /\ Permutation (entries m) r.

Inductive out_ok : out -> rout -> Prop :=
| ok_unit : out_ok OUnit RUnit
| ok_val v : out_ok (OVal v) (RVal v)
| ok_list l r : Permutation l r -> NoDup (map fst l) -> out_ok (OList l) (RList r).

Lemma Sim_nodup m r : Sim m r -> NoDup (map fst r).
Proof. intros [I P]. eapply Permutation_NoDup; [apply Permutation_map, P|apply (inv_nodup m I)]. Qed.

Lemma Sim_assoc m r k : Sim m r -> assoc k (entries m) = assoc k r.
Proof. intros [I P]. apply assoc_perm; [apply (inv_nodup m I)|exact P]. Qed.

Lemma step_sim m r o : Sim m r -> op_ok r o ->
  Sim (fst (step hash m o)) (fst (ref_step r o)) /\ out_ok (snd (step hash m o)) (snd (ref_step r o)).
Proof.
  intros S Hok. pose proof S as [I P]. destruct o as [k v|k v|k|k| |]; cbn [step ref_step op_ok] in *.
  - (* insert *)
    assert (Hk : ~ In k (map fst (entries m))).
    { intros H; apply Hok. eapply Permutation_in; [apply Permutation_map, P|exact H]. }
    destruct (insert_spec m k v I Hk) as (I' & P'). cbn [fst snd]. split; [|constructor].
    split; [exact I'|]. eapply Permutation_trans; [exact P'|]. constructor; exact P.
  - (* operator[] = v *)
    destruct (index_set_spec m k v I) as (Er & I' & P').
    destruct (index_set hash k v m) as [m' r0]. cbn [fst snd] in *. subst r0.
    rewrite <- (Sim_assoc m r k S).
    destruct (assoc k (entries m)) as [old|]; cbn [fst snd]; (split; [|constructor]); (split; [exact I'|]).
    + eapply Permutation_trans; [exact P'|]. unfold ref_set. apply Permutation_map. exact P.
    + eapply Permutation_trans; [exact P'|]. constructor; exact P.
  - (* get / find *)
    cbn [fst snd]. split; [exact S|]. rewrite (get_spec m k I), (Sim_assoc m r k S). constructor.
  - (* remove *)
    destruct (remove_spec m k I) as (Er & I' & E').
    destruct (remove hash k m) as [m' r0]. cbn [fst snd] in *. subst r0.
    rewrite (Sim_assoc m r k S). split; [|constructor]. split; [exact I'|].
    rewrite E'. unfold ref_del. apply Permutation_filter_compat. exact P.
  - (* iterate *)
    cbn [fst snd]. split; [exact S|]. rewrite (iterate_entries m I).
    constructor; [exact P|apply (inv_nodup m I)].
  - (* size *)
    cbn [fst snd]. split; [exact S|]. rewrite (inv_size m I), (Permutation_length P). constructor.
Qed.

End Proofs.

(* ---------- histories ---------- *)

Fixpoint ref_run (r : ref) (ops : list op) : ref * list rout :=
  match ops with
  | [] => (r, [])
  | o :: rest => let '(r1, x) := ref_step r o in let '(r2, xs) := ref_run r1 rest in (r2, x :: xs)
  end.

(* histories in which insert is only called with keys that are absent at that moment *)
Definition inserts_absent (ops : list op) : Prop := ops_ok [] ops.

Fixpoint ops_okb (r : ref) (ops : list op) : bool :=
  match ops with
  | [] => true
  | o :: rest =>
    match o with Insert k _ => match assoc k r with None => true | Some _ => false end | _ => true end
    && ops_okb (fst (ref_step r o)) rest
  end.

Lemma ops_okb_sound r ops : ops_okb r ops = true -> ops_ok r ops.
Proof.
  revert r; induction ops as [|o ops IH]; intros r H; cbn [ops_ok ops_okb] in *; [exact Logic.I|].
  apply andb_true_iff in H. destruct H as [H1 H2]. split; [|apply IH; exact H2].
  destruct o; cbn [op_ok]; try exact Logic.I.
  apply assoc_none. destruct (assoc k r); [discriminate|reflexivity].
Qed.

Lemma inserts_absentb_sound ops : ops_okb [] ops = true -> inserts_absent ops.
Proof. apply ops_okb_sound. Qed.

Lemma run_sim hash ops : forall m r, Sim hash m r -> ops_ok r ops ->
  Sim hash (fst (run hash m ops)) (fst (ref_run r ops)) /\
  Forall2 out_ok (snd (run hash m ops)) (snd (ref_run r ops)).
Proof.
  induction ops as [|o ops IH]; intros m r S Hok; cbn [run ref_run].
  - cbn [fst snd]. split; [exact S|constructor].
  - destruct Hok as [Ho Hrest].
    destruct (step_sim hash m r o S Ho) as (S1 & O1).
    destruct (step hash m o) as [m1 x]. destruct (ref_step r o) as [r1 y]. cbn [fst snd] in *.
    destruct (IH m1 r1 S1 Hrest) as (S2 & O2).
    destruct (run hash m1 ops) as [m2 xs]. destruct (ref_run r1 ops) as [r2 ys]. cbn [fst snd] in *.
    split; [exact S2|constructor; assumption].
Qed.

Lemma Sim_empty hash : Sim hash empty_hm [].
Proof. split; [apply Inv_empty|apply Permutation_refl]. Qed.

(* the invariant in the words of DESIGN.md C14 *)
Definition hm_inv (hash : N -> N) (m : hm) : Prop :=
  (forall i e, i < length (table m) -> In e (nth i (table m) []) -> bucket_of hash (cap m) (fst e) = i) /\
  NoDup (map fst (concat (table m))) /\
  size m = length (concat (table m)) /\
  length (table m) = cap m /\
  (0 < cap m \/ size m = 0).

Lemma hm_inv_Inv hash m : hm_inv hash m <-> Inv hash m.
Proof.
  split.
  - intros (C & ND & Sz & _ & _). split; assumption.
  - intros I. split; [apply (inv_chains hash m I)|]. split; [apply (inv_nodup hash m I)|].
    split; [apply (inv_size hash m I)|]. split; [reflexivity|].
    destruct (size m) eqn:Es; [right; reflexivity|left]. apply (cap_pos hash m I). lia.
Qed.

Lemma hm_inv_empty hash : hm_inv hash empty_hm.
Proof. apply hm_inv_Inv, Inv_empty. Qed.

(* preserved by every operation, for every hash; insert needs its documented precondition *)
Lemma hm_inv_step hash m o : hm_inv hash m ->
  (forall k v, o = Insert k v -> get hash k m = None) ->
  hm_inv hash (fst (step hash m o)).
Proof.
  intros H Hins. apply hm_inv_Inv in H. apply hm_inv_Inv.
  assert (S : Sim hash m (entries m)) by (split; [exact H|apply Permutation_refl]).
  refine (proj1 (proj1 (step_sim hash m (entries m) o S _))).
  destruct o; cbn [op_ok]; try exact Logic.I.
  apply assoc_none. rewrite <- (get_spec hash m k H). apply (Hins k v eq_refl).
Qed.

Lemma hm_inv_run hash ops : inserts_absent ops -> hm_inv hash (fst (run hash empty_hm ops)).
Proof.
  intros H. apply hm_inv_Inv. exact (proj1 (proj1 (run_sim hash ops empty_hm [] (Sim_empty hash) H))).
Qed.

(* the refinement statement of C14 *)
Lemma hm_refines_map hash ops : inserts_absent ops ->
  let m := fst (run hash empty_hm ops) in
  let r := fst (ref_run [] ops) in
  Forall2 out_ok (snd (run hash empty_hm ops)) (snd (ref_run [] ops)) /\
  size m = length r /\
  Permutation (iterate m) r /\
  NoDup (map fst (iterate m)).
Proof.
  intros H m r. destruct (run_sim hash ops empty_hm [] (Sim_empty hash) H) as ([I P] & O).
  fold m in I, P. fold r in P.
  split; [exact O|]. rewrite (iterate_entries hash m I).
  split; [rewrite (inv_size hash m I); apply Permutation_length; exact P|].
  split; [exact P|apply (inv_nodup hash m I)].
Qed.

(* what the reference says about the individual operations (the reference is the specification,
   these lemmas show it is the intended one) *)
Lemma ref_remove_absent k r : assoc k (ref_del k r) = None.
Proof.
  apply assoc_none. intros H. apply in_map_iff in H. destruct H as ([a b] & Hk & Hin).
  cbn [fst] in Hk. subst a. unfold ref_del in Hin. apply filter_In in Hin. destruct Hin as [_ Hf].
  cbn [fst] in Hf. rewrite N.eqb_refl in Hf. discriminate.
Qed.

Lemma ref_remove_other k k' r : k' <> k -> assoc k' (ref_del k r) = assoc k' r.
Proof.
  intros Hne. induction r as [|[a b] r IH]; [reflexivity|]. cbn [ref_del filter fst].
  destruct (N.eqb_spec a k) as [->|Ha]; cbn [negb].
  - cbn [assoc]. destruct (N.eqb_spec k k'); [congruence|]. exact IH.
  - cbn [assoc]. destruct (N.eqb a k'); [reflexivity|exact IH].
Qed.

Lemma ref_set_same k v r old : assoc k r = Some old -> assoc k (ref_set k v r) = Some v.
Proof.
  induction r as [|[a b] r IH]; cbn [assoc ref_set map fst]; [discriminate|].
  destruct (N.eqb_spec a k) as [->|Ha]; cbn [assoc fst].
  - rewrite N.eqb_refl. reflexivity.
  - destruct (N.eqb_spec a k); [contradiction|]. exact IH.
Qed.

Lemma ref_set_length k v r : length (ref_set k v r) = length r.
Proof. apply map_length. Qed.

Lemma ref_remove_spec k k' r :
  assoc k (ref_del k r) = None /\ (k' <> k -> assoc k' (ref_del k r) = assoc k' r).
Proof. split; [apply ref_remove_absent|apply ref_remove_other]. Qed.

Lemma ref_index_hit_spec k v r old :
  assoc k r = Some old -> assoc k (ref_set k v r) = Some v /\ length (ref_set k v r) = length r.
Proof. intros H. split; [eapply ref_set_same; exact H|apply ref_set_length]. Qed.

(* after remove(k) the key is absent in the map itself *)
Lemma hm_remove_absent hash ops k : inserts_absent (ops ++ [Remove k]) ->
  get hash k (fst (run hash empty_hm (ops ++ [Remove k]))) = None.
Proof.
  intros H. destruct (run_sim hash _ empty_hm [] (Sim_empty hash) H) as (S & _).
  rewrite (get_spec hash _ k (proj1 S)), (Sim_assoc hash _ _ k S).
  clear S H. generalize (@nil entry). induction ops as [|o ops IH]; intros r; cbn [app ref_run].
  - cbn [ref_step fst]. apply ref_remove_absent.
  - destruct (ref_step r o) as [r1 y]. specialize (IH r1).
    destruct (ref_run r1 (ops ++ [Remove k])) as [r2 ys]. exact IH.
Qed.
