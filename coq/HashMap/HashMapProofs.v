(* Proofs about the hash_map model: invariant and refinement to an association list,
   for every hash function. *)
From Coq Require Import List NArith Arith Bool Lia Permutation.
From FV Require Import HashMap.HashMapModel.
Import ListNotations.

(* ---------- generic list facts ---------- *)

Lemma upd_nth_length {A} (l : list A) i f : length (upd_nth l i f) = length l.
Proof. revert i; induction l as [|x l IH]; intros [|i]; simpl; auto. Qed.

Lemma nth_upd_nth_same {A} (l : list A) i f d : i < length l -> nth i (upd_nth l i f) d = f (nth i l d).
Proof. revert i; induction l as [|x l IH]; intros [|i] H; simpl in *; try lia; auto. apply IH; lia. Qed.

Lemma nth_upd_nth_other {A} (l : list A) i j f d : i <> j -> nth j (upd_nth l i f) d = nth j l d.
Proof. revert i j; induction l as [|x l IH]; intros [|i] [|j] H; simpl; auto; try lia. Qed.

Lemma concat_upd_nth_cons {A} (t : list (list A)) i e :
  i < length t -> Permutation (concat (upd_nth t i (fun ch => e :: ch))) (e :: concat t).
Proof.
  revert i; induction t as [|c t IH]; intros [|i] H; simpl in *; try lia.
  - apply Permutation_refl.
  - eapply Permutation_trans; [apply Permutation_app_head, IH; lia|].
    apply Permutation_sym, Permutation_middle.
Qed.

Lemma in_concat_nth {A} (t : list (list A)) (e : A) :
  In e (concat t) <-> exists i, i < length t /\ In e (nth i t []).
Proof.
  induction t as [|c t IH]; simpl.
  - split; [tauto|intros (i & H & _); lia].
  - rewrite in_app_iff, IH. split.
    + intros [H|(i & Hi & H)]; [exists 0; split; [lia|auto]|exists (S i); split; [lia|auto]].
    + intros ([|i] & Hi & H); [left; auto|right; exists i; split; [lia|auto]].
Qed.

(* ---------- association lists with distinct keys ---------- *)

Fixpoint assoc (k : N) (l : list entry) : option N :=
  match l with [] => None | (k', v) :: r => if N.eqb k' k then Some v else assoc k r end.

Lemma chain_find_assoc k l : chain_find k l = assoc k l.
Proof. induction l as [|[k' v] l IH]; simpl; auto. Qed.

Lemma assoc_in k v l : assoc k l = Some v -> In (k, v) l.
Proof.
  induction l as [|[k' v'] l IH]; simpl; [discriminate|].
  destruct (N.eqb_spec k' k) as [->|Hne].
  - intros [= ->]. left; reflexivity.
  - intros H; right; auto.
Qed.

Lemma assoc_none k l : assoc k l = None <-> ~ In k (map fst l).
Proof.
  induction l as [|[k' v'] l IH]; simpl; [tauto|].
  destruct (N.eqb_spec k' k); [split; [discriminate|intros H; exfalso; auto]|].
  rewrite IH. tauto.
Qed.

Lemma in_assoc k v l : NoDup (map fst l) -> In (k, v) l -> assoc k l = Some v.
Proof.
  induction l as [|[k' v'] l IH]; simpl; [tauto|]. intros ND [H|H].
  - inversion H; subst. rewrite N.eqb_refl; auto.
  - inversion ND as [|? ? Hn ND']; subst. destruct (N.eqb_spec k' k); [subst|auto].
    exfalso; apply Hn. change k with (fst (k, v)). apply in_map; auto.
Qed.

Lemma assoc_perm k l l' : NoDup (map fst l) -> Permutation l l' -> assoc k l = assoc k l'.
Proof.
  intros ND P. assert (ND' : NoDup (map fst l')) by (eapply Permutation_NoDup; [apply Permutation_map, P|auto]).
  destruct (assoc k l) eqn:E.
  - symmetry. apply in_assoc; auto. eapply Permutation_in; [apply P|apply assoc_in; auto].
  - symmetry. apply assoc_none. apply assoc_none in E. intros H; apply E.
    eapply Permutation_in; [apply Permutation_sym, Permutation_map, P|auto].
Qed.

(* reference operations on an association list *)
Definition ref := list entry.
Definition ref_set (k v : N) (r : ref) : ref := map (fun e => if N.eqb (fst e) k then (fst e, v) else e) r.
Definition ref_del (k : N) (r : ref) : ref := filter (fun e => negb (N.eqb (fst e) k)) r.

Inductive rout := RUnit | RVal (v : option N) | RList.

Definition ref_step (r : ref) (o : op) : ref * rout :=
  match o with
  | Insert k v => ((k, v) :: r, RUnit)
  | IndexSet k v => match assoc k r with
                    | Some old => (ref_set k v r, RVal (Some old))
                    | None => ((k, v) :: r, RVal None) end
  | Get k => (r, RVal (assoc k r))
  | Remove k => (ref_del k r, RVal (assoc k r))
  | Iterate => (r, RList)
  | Size => (r, RVal (Some (N.of_nat (length r))))
  end.

(* documented precondition: insert only of absent keys *)
Definition op_ok (r : ref) (o : op) : Prop :=
  match o with Insert k _ => ~ In k (map fst r) | _ => True end.

Fixpoint ops_ok (r : ref) (ops : list op) : Prop :=
  match ops with [] => True | o :: rest => op_ok r o /\ ops_ok (fst (ref_step r o)) rest end.

Lemma ref_set_keys k v r : map fst (ref_set k v r) = map fst r.
Proof. unfold ref_set. rewrite map_map. apply map_ext. intros [a b]; simpl. destruct (N.eqb a k); auto. Qed.

Lemma ref_del_keys_nodup k r : NoDup (map fst r) -> NoDup (map fst (ref_del k r)).
Proof.
  induction r as [|[a b] r IH]; simpl; auto. intros ND. inversion ND as [|? ? Hn ND']; subst.
  destruct (N.eqb a k); simpl; auto. constructor; auto.
  intros H; apply Hn. unfold ref_del in H. rewrite in_map_iff in *. destruct H as (x & Hx & Hin).
  apply filter_In in Hin. exists x; tauto.
Qed.

Section Proofs.
Variable hash : N -> N.

Definition entries (m : hm) : list entry := concat (table m).

Definition chains_ok (c : nat) (t : list chain) : Prop :=
  forall i e, i < length t -> In e (nth i t []) -> bucket_of hash c (fst e) = i.

Record Inv (m : hm) : Prop := {
  inv_size : size m = length (entries m);
  inv_nodup : NoDup (map fst (entries m));
  inv_chains : chains_ok (cap m) (table m);
}.

Lemma bucket_lt c k : 0 < c -> bucket_of hash c k < c.
Proof.
  intros H. unfold bucket_of.
  assert (N.of_nat c <> 0%N) by lia.
  pose proof (N.mod_upper_bound (hash k mod 4294967296) (N.of_nat c) H0). lia.
Qed.

Lemma Inv_empty : Inv empty_hm.
Proof. split; simpl; [reflexivity|constructor|intros i e H; simpl in H; lia]. Qed.

(* ----- push_front ----- *)
Lemma push_front_length t c e : length (push_front hash t c e) = length t.
Proof. apply upd_nth_length. Qed.

Lemma push_front_perm c t e : 0 < c -> length t = c ->
  Permutation (concat (push_front hash t c e)) (e :: concat t).
Proof. intros H L. apply concat_upd_nth_cons. rewrite L. apply bucket_lt; auto. Qed.

Lemma push_front_chains c t e : 0 < c -> length t = c -> chains_ok c t ->
  chains_ok c (push_front hash t c e).
Proof.
  intros Hc L Hok i x Hi Hin. unfold push_front in *. rewrite upd_nth_length in Hi.
  destruct (Nat.eq_dec (bucket_of hash c (fst e)) i) as [<-|Hne].
  - rewrite nth_upd_nth_same in Hin by (rewrite L; apply bucket_lt; auto).
    destruct Hin as [<-|Hin]; auto.
  - rewrite nth_upd_nth_other in Hin by auto. auto.
Qed.

(* ----- rehash ----- *)
Lemma fold_push_spec c l : 0 < c -> forall t, length t = c -> chains_ok c t ->
  let t' := fold_left (fun t e => push_front hash t c e) l t in
  length t' = c /\ chains_ok c t' /\ Permutation (concat t') (l ++ concat t).
Proof.
  intros Hc. induction l as [|e l IH]; intros t L Hok; simpl.
  - repeat split; auto.
  - assert (L' : length (push_front hash t c e) = c) by (rewrite push_front_length; auto).
    destruct (IH (push_front hash t c e) L' (push_front_chains c t e Hc L Hok)) as (L2 & C & P).
    repeat split; auto.
    eapply Permutation_trans; [apply P|].
    eapply Permutation_trans; [apply Permutation_app_head, push_front_perm; auto|].
    apply Permutation_sym, Permutation_middle.
Qed.

Lemma concat_repeat_nil {A} n : concat (repeat (@nil A) n) = [].
Proof. induction n; simpl; auto. Qed.

Lemma nth_repeat_nil {A} n i : nth i (repeat (@nil A) n) [] = [].
Proof. revert i; induction n; intros [|i]; simpl; auto. Qed.

Lemma rehash_spec m : Inv m ->
  Inv (rehash hash m) /\ Permutation (entries (rehash hash m)) (entries m) /\ size m < cap (rehash hash m).
Proof.
  intros I. unfold rehash, entries, cap. simpl.
  set (c := new_cap m).
  assert (Hc : 0 < c) by (unfold c, new_cap; lia).
  assert (Hok0 : chains_ok c (repeat [] c)).
  { intros i e Hi Hin. rewrite nth_repeat_nil in Hin. destruct Hin. }
  destruct (fold_push_spec c (concat (table m)) Hc (repeat [] c) (repeat_length _ _) Hok0) as (L & C & P).
  rewrite concat_repeat_nil, app_nil_r in P.
  repeat split; simpl.
  - rewrite (inv_size m I). unfold entries. symmetry. apply Permutation_length. exact P.
  - eapply Permutation_NoDup; [apply Permutation_sym, Permutation_map, P|apply (inv_nodup m I)].
  - unfold cap; simpl. rewrite L. exact C.
  - exact P.
  - rewrite L. unfold c, new_cap. lia.
Qed.

Lemma grow_spec m : Inv m ->
  Inv (grow_if_full hash m) /\ Permutation (entries (grow_if_full hash m)) (entries m)
  /\ size (grow_if_full hash m) = size m /\ size m < cap (grow_if_full hash m).
Proof.
  intros I. unfold grow_if_full. destruct (Nat.leb_spec (cap m) (size m)).
  - destruct (rehash_spec m I) as (I' & P & C). repeat split; auto.
  - repeat split; auto.
Qed.

(* ----- lookup ----- *)
Lemma get_spec m k : Inv m -> get hash k m = assoc k (entries m).
Proof.
  intros I. unfold get. destruct (size m) eqn:Es.
  - rewrite (inv_size m I) in Es. destruct (entries m); [reflexivity|discriminate].
  - rewrite chain_find_assoc.
    assert (Hc : 0 < cap m).
    { destruct (table m) eqn:Et; [|unfold cap; rewrite Et; simpl; lia].
      rewrite (inv_size m I) in Es. unfold entries in Es. rewrite Et in Es. discriminate. }
    set (b := bucket_of hash (cap m) k).
    assert (Hb : b < cap m) by (apply bucket_lt; auto).
    destruct (assoc k (nth b (table m) [])) eqn:E.
    + symmetry. apply in_assoc; [apply (inv_nodup m I)|].
      apply in_concat_nth. exists b. split; auto. apply assoc_in; auto.
    + symmetry. apply assoc_none. apply assoc_none in E. intros Hin. apply E.
      apply in_map_iff in Hin. destruct Hin as ([k' v] & Hk & Hin). simpl in Hk; subst k'.
      apply in_concat_nth in Hin. destruct Hin as (i & Hi & Hin).
      pose proof (inv_chains m I i (k, v) Hi Hin) as Hbi. simpl in Hbi. fold b in Hbi. subst i.
      change k with (fst (k, v)). apply in_map; auto.
Qed.

(* ----- insert ----- *)
Lemma push_entry_spec m1 k v : Inv m1 -> 0 < cap m1 -> ~ In k (map fst (entries m1)) ->
  let m' := mk_hm (push_front hash (table m1) (cap m1) (k, v)) (S (size m1)) in
  Inv m' /\ Permutation (entries m') ((k, v) :: entries m1).
Proof.
  intros I Hc Hk m'.
  assert (P : Permutation (entries m') ((k, v) :: entries m1)) by (apply push_front_perm; auto).
  split; [|exact P]. split.
  - simpl. rewrite (Permutation_length P). simpl. rewrite (inv_size m1 I). reflexivity.
  - eapply Permutation_NoDup; [apply Permutation_sym, Permutation_map, P|].
    simpl. constructor; auto. apply (inv_nodup m1 I).
  - unfold cap, m'; simpl. rewrite push_front_length. apply push_front_chains; auto. apply (inv_chains m1 I).
Qed.

Lemma insert_spec m k v : Inv m -> ~ In k (map fst (entries m)) ->
  Inv (insert hash k v m) /\ Permutation (entries (insert hash k v m)) ((k, v) :: entries m).
Proof.
  intros I Hk. unfold insert.
  destruct (grow_spec m I) as (I1 & P1 & S1 & C1).
  set (m1 := grow_if_full hash m) in *.
  assert (Hk1 : ~ In k (map fst (entries m1))).
  { intros H; apply Hk. eapply Permutation_in; [apply Permutation_map, P1|auto]. }
  destruct (push_entry_spec m1 k v I1 ltac:(lia) Hk1) as (I2 & P2).
  split; auto. eapply Permutation_trans; [apply P2|]. constructor; auto.
Qed.

(* ----- chain surgery ----- *)
Lemma concat_split {A} (t : list (list A)) i : i < length t ->
  concat t = concat (firstn i t) ++ nth i t [] ++ concat (skipn (S i) t).
Proof.
  revert i; induction t as [|c t IH]; intros [|i] H; simpl in *; try lia; auto.
  rewrite <- app_assoc. f_equal. apply IH; lia.
Qed.

Lemma concat_upd_split {A} (t : list (list A)) i f : i < length t ->
  concat (upd_nth t i f) = concat (firstn i t) ++ f (nth i t []) ++ concat (skipn (S i) t).
Proof.
  revert i; induction t as [|c t IH]; intros [|i] H; simpl in *; try lia; auto.
  rewrite <- app_assoc. f_equal. apply IH; lia.
Qed.

Lemma chain_set_spec k v ch : NoDup (map fst ch) ->
  chain_set k v ch = ref_set k v ch.
Proof.
  induction ch as [|[a b] ch IH]; simpl; auto. intros ND. inversion ND as [|? ? Hn ND']; subst.
  destruct (N.eqb_spec a k).
  - subst. f_equal. unfold ref_set. symmetry. rewrite <- (map_id ch) at 2. apply map_ext_in.
    intros [a b'] Hin. simpl. destruct (N.eqb_spec a k); auto. subst. exfalso. apply Hn.
    change k with (fst (k, b')). apply in_map; auto.
  - f_equal. apply IH; auto.
Qed.

Lemma chain_remove_spec k ch : NoDup (map fst ch) -> chain_remove k ch = ref_del k ch.
Proof.
  induction ch as [|[a b] ch IH]; simpl; auto. intros ND. inversion ND as [|? ? Hn ND']; subst.
  destruct (N.eqb_spec a k); simpl.
  - subst. symmetry. unfold ref_del. apply forallb_filter_id. apply forallb_forall.
    intros [a b'] Hin. simpl. destruct (N.eqb_spec a k); auto. subst. exfalso. apply Hn.
    change k with (fst (k, b')). apply in_map; auto.
  - f_equal. apply IH; auto.
Qed.

Lemma ref_set_other k v l : ~ In k (map fst l) -> ref_set k v l = l.
Proof.
  intros H. unfold ref_set. rewrite <- (map_id l) at 2. apply map_ext_in. intros [a b] Hin. simpl.
  destruct (N.eqb_spec a k); auto. subst. exfalso; apply H. change k with (fst (k, b)). apply in_map; auto.
Qed.

Lemma ref_del_other k l : ~ In k (map fst l) -> ref_del k l = l.
Proof.
  intros H. unfold ref_del. apply forallb_filter_id. apply forallb_forall. intros [a b] Hin. simpl.
  destruct (N.eqb_spec a k); auto. subst. exfalso; apply H. change k with (fst (k, b)). apply in_map; auto.
Qed.

Lemma NoDup_app_l {A} (l1 l2 : list A) : NoDup (l1 ++ l2) -> NoDup l1.
Proof. induction l1; simpl; [constructor|]. inversion 1; subst. constructor; auto. rewrite in_app_iff in *; tauto. Qed.
Lemma NoDup_app_r {A} (l1 l2 : list A) : NoDup (l1 ++ l2) -> NoDup l2.
Proof. induction l1; simpl; auto. inversion 1; auto. Qed.
Lemma NoDup_app_disj {A} (l1 l2 : list A) x : NoDup (l1 ++ l2) -> In x l1 -> ~ In x l2.
Proof. induction l1; simpl; [tauto|]. inversion 1; subst. rewrite in_app_iff in *. intros [->|H']; [tauto|auto]. Qed.

(* key k lives only in its own bucket: rewriting that chain = rewriting the whole entry list *)
Lemma only_in_bucket m k : Inv m -> 0 < cap m ->
  let b := bucket_of hash (cap m) k in
  let l1 := concat (firstn b (table m)) in
  let l2 := concat (skipn (S b) (table m)) in
  entries m = l1 ++ nth b (table m) [] ++ l2 /\
    ~ In k (map fst l1) /\ ~ In k (map fst l2) /\ NoDup (map fst (nth b (table m) [])) /\
    forall f, entries (mk_hm (upd_nth (table m) b f) (size m)) = l1 ++ f (nth b (table m) []) ++ l2.
Proof.
  intros I Hc b l1 l2. assert (Hb : b < cap m) by (apply bucket_lt; auto).
  pose proof (concat_split (table m) b Hb) as E1. fold l1 l2 in E1.
  pose proof (inv_nodup m I) as ND. unfold entries in *. rewrite E1 in ND.
  rewrite !map_app in ND.
  assert (Hkey : forall v, In (k, v) (concat (table m)) -> In (k, v) (nth b (table m) [])).
  { intros v Hin. apply in_concat_nth in Hin. destruct Hin as (i & Hi & Hin).
    pose proof (inv_chains m I i (k, v) Hi Hin) as Hbi. simpl in Hbi. fold b in Hbi. subst; auto. }
  repeat split; auto.
  - intros Hin. apply in_map_iff in Hin. destruct Hin as ([k' v] & Hk & Hin). simpl in Hk; subst k'.
    assert (Hall : In (k, v) (concat (table m))) by (rewrite E1; apply in_or_app; auto).
    apply Hkey in Hall. eapply (NoDup_app_disj _ _ k ND).
    + change k with (fst (k, v)). apply in_map; auto.
    + apply in_or_app; left. change k with (fst (k, v)). apply in_map; auto.
  - intros Hin. apply in_map_iff in Hin. destruct Hin as ([k' v] & Hk & Hin). simpl in Hk; subst k'.
    assert (Hall : In (k, v) (concat (table m))) by (rewrite E1; apply in_or_app; right; apply in_or_app; auto).
    apply Hkey in Hall. apply NoDup_app_r in ND. eapply (NoDup_app_disj _ _ k ND).
    + change k with (fst (k, v)). apply in_map; auto.
    + change k with (fst (k, v)). apply in_map; auto.
  - apply NoDup_app_r in ND. apply NoDup_app_l in ND. auto.
  - intros f. simpl. apply concat_upd_split; auto.
Qed.
