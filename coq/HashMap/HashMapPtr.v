(* Pointer-level model of frg::hash_map (include/frg/hash_map.hpp): the `chain` nodes as a heap
   id -> option node, the `_table` array of `chain *`, `_capacity`, `_size`, and every member function
   transliterated ASSIGNMENT BY ASSIGNMENT in source order.
   Definitions only -- the refinement proof to the chain-level model (HashMapModel.v) is in
   HashMapRefine*.v.

   Conventions
   * a `chain *` is an [option nat]: [None] = nullptr, [Some x] = the node in allocator block x.  Block ids are
     allocation sequence numbers 1, 2, ... ([p_next] = the next one), exactly as HashMapLog.v and the
     harness number them; the table blocks take their numbers from the same sequence.  Id 0 is never
     allocated; a freshly allocated table is filled with the poison pointer [Some 0] (uninitialised).
   * [p_nodes s x = None]: no node lives in block x (never allocated, or released by frg::destruct).
   * `_table` is the pair ([p_tid] = block id of the array, 0 = nullptr; [p_table] = its contents).
   * outcomes: [POk] | [PAssertStop] (an FRG_ASSERT fired) | [PNullDeref] (`p->f` with p == nullptr,
     `_table[i]` with _table == nullptr) | [PUB] (`% _capacity` with _capacity == 0, `_table[i]` outside the array,
     access through a dangling or poison pointer) | [POutOfFuel].
   * loops carry explicit fuel, one unit per ITERATION (the loop condition is evaluated before the fuel is
     looked at); every loop of one call gets the same budget [fuel].
   * `((unsigned int)_hasher(key)) % _capacity`: the hash is a Section variable (any total function, may exceed
     32 bits); every source site has its own definition ([bucket_find] ... [bucket_rehash]) because the sites differ
     in the type the result is stored in (`unsigned int bucket` -- converted back to 32 bits -- at 8 sites, `auto
     bucket` = size_t in rehash).
   * events: the [list ev] of Common/EventLog.v, as HashMapLog.v emits them ([psz] = sizeof(chain * ),
     [nsz] = sizeof(chain)); the value object of node x is [(x, 0)]. *)
From Coq Require Import List NArith Arith Bool.
From FV Require Import Common.EventLog HashMap.HashMapModel.
Import ListNotations.

Record pnode := mk_pnode { n_key : N; n_val : N; n_next : option nat }.
Definition heap := nat -> option pnode.

Record pstate := mk_pstate {
  p_nodes : heap;                  (* the chain nodes, by block id *)
  p_table : list (option nat);     (* contents of the array _table points to *)
  p_tid : nat;                     (* _table: block id of the array, 0 = nullptr *)
  p_cap : nat;                     (* _capacity *)
  p_size : nat;                    (* _size *)
  p_next : nat                     (* next allocation sequence number *)
}.

(* hash_map(hasher, allocator): _table(nullptr), _capacity(0), _size(0) *)
Definition p_init : pstate := mk_pstate (fun _ => None) [] 0 0 0 1.

Inductive pres (A : Type) :=
| POk (a : A)
| PAssertStop
| PNullDeref
| PUB
| POutOfFuel.
Arguments POk {A} a. Arguments PAssertStop {A}. Arguments PNullDeref {A}. Arguments PUB {A}.
Arguments POutOfFuel {A}.

Definition bind {A B} (m : pres A) (k : A -> pres B) : pres B :=
  match m with
  | POk a => k a
  | PAssertStop => PAssertStop
  | PNullDeref => PNullDeref
  | PUB => PUB
  | POutOfFuel => POutOfFuel
  end.

Definition frg_assert {A} (c : bool) (k : pres A) : pres A := if c then k else PAssertStop.

(* ---- memory ---- *)
Definition upd {V} (f : nat -> V) (i : nat) (v : V) : nat -> V := fun j => if Nat.eqb j i then v else f j.

Definition is_null (p : option nat) : bool := match p with None => true | Some _ => false end.
Definition ptr_eqb (p q : option nat) : bool :=
  match p, q with
  | None, None => true
  | Some a, Some b => Nat.eqb a b
  | _, _ => false
  end.

(* *p for a chain pointer *)
Definition rd_node (h : heap) (p : option nat) : pres pnode :=
  match p with
  | None => PNullDeref
  | Some x => match h x with Some n => POk n | None => PUB end
  end.

(* p->next = v *)
Definition wr_next (h : heap) (p : option nat) (v : option nat) : pres heap :=
  match p with
  | None => PNullDeref
  | Some x => match h x with
              | Some n => POk (upd h x (Some (mk_pnode (n_key n) (n_val n) v)))
              | None => PUB
              end
  end.

(* p->entry.get<1>() = v *)
Definition wr_val (h : heap) (p : option nat) (v : N) : pres heap :=
  match p with
  | None => PNullDeref
  | Some x => match h x with
              | Some n => POk (upd h x (Some (mk_pnode (n_key n) v (n_next n))))
              | None => PUB
              end
  end.

(* t[i] for an array of chain pointers in block tid *)
Definition rd_tab (tid : nat) (t : list (option nat)) (i : nat) : pres (option nat) :=
  if Nat.eqb tid 0 then PNullDeref
  else match nth_error t i with Some p => POk p | None => PUB end.

(* t[i] = v *)
Definition wr_tab (tid : nat) (t : list (option nat)) (i : nat) (v : option nat) : pres (list (option nat)) :=
  if Nat.eqb tid 0 then PNullDeref
  else if Nat.ltb i (length t) then POk (upd_nth t i (fun _ => v)) else PUB.

Definition poison : option nat := Some 0.

Definition set_nodes (s : pstate) (h : heap) : pstate :=
  mk_pstate h (p_table s) (p_tid s) (p_cap s) (p_size s) (p_next s).
Definition set_table (s : pstate) (t : list (option nat)) : pstate :=
  mk_pstate (p_nodes s) t (p_tid s) (p_cap s) (p_size s) (p_next s).
Definition set_size (s : pstate) (n : nat) : pstate :=
  mk_pstate (p_nodes s) (p_table s) (p_tid s) (p_cap s) n (p_next s).

Definition vobj (b : nat) : obj := (b, 0).     (* the Value object inside chain node b *)

(* ---- bucket computations ---- *)
Definition u32 (x : N) : N := (x mod 4294967296)%N.              (* (unsigned int)x *)
Definition mod_cap (x : N) (c : nat) : pres N :=                 (* x % c, c a size_t *)
  if Nat.eqb c 0 then PUB else POk (x mod N.of_nat c)%N.

Section WithHash.
Variable hash : N -> N.
Variables psz nsz : N.                         (* sizeof(chain * ), sizeof(chain) *)

(* unsigned int bucket = ((unsigned int)_hasher(key)) % _capacity;   (result stored in an unsigned int) *)
Definition bucket_uint (k : N) (c : nat) : pres nat :=
  bind (mod_cap (u32 (hash k)) c) (fun b => POk (N.to_nat (u32 b))).
(* auto bucket = ((unsigned int)_hasher(key)) % new_capacity;        (size_t) *)
Definition bucket_size_t (k : N) (c : nat) : pres nat :=
  bind (mod_cap (u32 (hash k)) c) (fun b => POk (N.to_nat b)).

Definition bucket_find := bucket_uint.            (* hash_map.hpp:148 (and :178, const) *)
Definition bucket_insert := bucket_uint.          (* :240 (and :253, Value&&) *)
Definition bucket_index_empty := bucket_uint.     (* :266 *)
Definition bucket_index := bucket_uint.           (* :273 *)
Definition bucket_index_rehashed := bucket_uint.  (* :281 *)
Definition bucket_get := bucket_uint.             (* :297 *)
Definition bucket_remove := bucket_uint.          (* :312 *)
Definition bucket_rehash := bucket_size_t.        (* :349 *)

(* ---- rehash() ---- *)

(* for(size_t i = 0; i < new_capacity; i++) new_table[i] = nullptr; *)
Fixpoint rehash_init (fuel : nat) (ntid : nat) (nt : list (option nat)) (newcap i : nat) {struct fuel}
  : pres (list (option nat)) :=
  if Nat.ltb i newcap then
    match fuel with
    | O => POutOfFuel
    | S fuel' => bind (wr_tab ntid nt i None) (fun nt => rehash_init fuel' ntid nt newcap (S i))
    end
  else POk nt.

(* while(item != nullptr) { ... } *)
Fixpoint rehash_chain (fuel : nat) (h : heap) (ntid : nat) (nt : list (option nat)) (newcap : nat)
    (item : option nat) {struct fuel} : pres (heap * list (option nat)) :=
  match item with
  | None => POk (h, nt)
  | Some _ =>
    match fuel with
    | O => POutOfFuel
    | S fuel' =>
      bind (rd_node h item) (fun n =>
      bind (bucket_rehash (n_key n) newcap) (fun bucket =>   (* auto bucket = hash(item->key) % new_capacity *)
      let next := n_next n in                                (* chain *next = item->next; *)
      bind (rd_tab ntid nt bucket) (fun hd =>
      bind (wr_next h item hd) (fun h =>                     (* item->next = new_table[bucket]; *)
      bind (wr_tab ntid nt bucket item) (fun nt =>           (* new_table[bucket] = item; *)
      rehash_chain fuel' h ntid nt newcap next)))))          (* item = next; *)
    end
  end.

(* for(size_t i = 0; i < _capacity; i++) { chain *item = _table[i]; while ... } *)
Fixpoint rehash_buckets (fuel0 fuel : nat) (h : heap) (otid : nat) (ot : list (option nat)) (cap : nat)
    (ntid : nat) (nt : list (option nat)) (newcap i : nat) {struct fuel} : pres (heap * list (option nat)) :=
  if Nat.ltb i cap then
    match fuel with
    | O => POutOfFuel
    | S fuel' =>
      bind (rd_tab otid ot i) (fun item =>
      bind (rehash_chain fuel0 h ntid nt newcap item) (fun hn =>
      rehash_buckets fuel0 fuel' (fst hn) otid ot cap ntid (snd hn) newcap (S i)))
    end
  else POk (h, nt).

Definition p_rehash (fuel : nat) (s : pstate) : pres (pstate * list ev) :=
  let new_capacity := 2 * p_size s in
  let new_capacity := if Nat.ltb new_capacity 10 then 10 else new_capacity in
  (* chain **new_table = (chain ** )_allocator.allocate(sizeof(chain * ) * new_capacity); *)
  let ntid := p_next s in
  let nt := repeat poison new_capacity in
  bind (rehash_init fuel ntid nt new_capacity 0) (fun nt =>
  bind (rehash_buckets fuel fuel (p_nodes s) (p_tid s) (p_table s) (p_cap s) ntid nt new_capacity 0) (fun hn =>
  (* _allocator.deallocate(_table, sizeof(chain * ) * _capacity): no block is involved when _table == nullptr *)
  let evs := EAlloc ntid (psz * N.of_nat new_capacity)%N ::
             (if Nat.eqb (p_tid s) 0 then [] else [EDealloc (p_tid s) (psz * N.of_nat (p_cap s))%N]) in
  (* _table = new_table; _capacity = new_capacity; *)
  POk (mk_pstate (fst hn) (snd hn) ntid new_capacity (p_size s) (S ntid), evs))).

(* auto item = frg::construct<chain>(_allocator, key, value);  -- chain(...) : entry{key, value}, next{nullptr}
   item->next = _table[bucket]; _table[bucket] = item; _size++;
   (the common tail of insert and of the two creating paths of operator[]) *)
Definition link_new (s : pstate) (bucket : nat) (k v : N) : pres (pstate * nat * list ev) :=
  let item := p_next s in
  let h := upd (p_nodes s) item (Some (mk_pnode k v None)) in
  bind (rd_tab (p_tid s) (p_table s) bucket) (fun hd =>
  bind (wr_next h (Some item) hd) (fun h =>
  bind (wr_tab (p_tid s) (p_table s) bucket (Some item)) (fun t =>
  POk (mk_pstate h t (p_tid s) (p_cap s) (S (p_size s)) (S item), item,
       [EAlloc item nsz; EConstruct (vobj item)])))).

(* void insert(const Key &key, const Value &value)  /  (const Key &key, Value &&value) *)
Definition p_insert (fuel : nat) (s : pstate) (k v : N) : pres (pstate * list ev) :=
  bind (if Nat.leb (p_cap s) (p_size s) then p_rehash fuel s else POk (s, [])) (fun se =>
  let s := fst se in
  frg_assert (Nat.ltb 0 (p_cap s)) (
  bind (bucket_insert k (p_cap s)) (fun bucket =>
  bind (link_new s bucket k v) (fun sie =>
  POk (fst (fst sie), snd se ++ snd sie))))).

(* for (chain *item = _table[bucket]; item != nullptr; item = item->next)
     if (item->entry.get<0>() == key) return <item>;
   -- the loop of find, operator[] and get; result: the node found, or nullptr when the loop ends *)
Fixpoint chain_search (fuel : nat) (h : heap) (k : N) (item : option nat) {struct fuel} : pres (option nat) :=
  match item with
  | None => POk None
  | Some _ =>
    match fuel with
    | O => POutOfFuel
    | S fuel' =>
      bind (rd_node h item) (fun n =>
      if N.eqb (n_key n) k then POk item
      else chain_search fuel' h k (n_next n))
    end
  end.

(* Value &operator[] (const Key &key): returns the node whose value is referred to *)
Definition p_index (fuel : nat) (s : pstate) (k : N) : pres (pstate * nat * list ev) :=
  bind (if Nat.eqb (p_size s) 0 then
          (* empty map case *)
          bind (p_rehash fuel s) (fun se =>
          let s := fst se in
          bind (bucket_index_empty k (p_cap s)) (fun bucket =>
          bind (link_new s bucket k 0) (fun sie =>
          POk (fst (fst sie), snd se ++ snd sie))))
        else POk (s, [])) (fun se =>
  let s := fst se in
  bind (bucket_index k (p_cap s)) (fun bucket =>
  bind (rd_tab (p_tid s) (p_table s) bucket) (fun hd =>
  bind (chain_search fuel (p_nodes s) k hd) (fun found =>
  match found with
  | Some item => POk (s, item, snd se)
  | None =>
    bind (if Nat.leb (p_cap s) (p_size s) then
            bind (p_rehash fuel s) (fun se2 =>
            bind (bucket_index_rehashed k (p_cap (fst se2))) (fun bucket => POk (fst se2, bucket, snd se2)))
          else POk (s, bucket, [])) (fun sbe =>
    bind (link_new (fst (fst sbe)) (snd (fst sbe)) k 0) (fun sie =>
    POk (fst (fst sie), snd (fst sie), snd se ++ snd sbe ++ snd sie)))
  end)))).

(* Value *get(const KeyCompatible &key) *)
Definition p_get (fuel : nat) (s : pstate) (k : N) : pres (option nat) :=
  if Nat.eqb (p_size s) 0 then POk None
  else
    bind (bucket_get k (p_cap s)) (fun bucket =>
    bind (rd_tab (p_tid s) (p_table s) bucket) (fun hd =>
    chain_search fuel (p_nodes s) k hd)).

(* ---- iterators: (bucket, item) ---- *)
Definition iter := (nat * option nat)%type.
Definition p_end (s : pstate) : iter := (p_cap s, None).
Definition iter_eqb (a b : iter) : bool := Nat.eqb (fst a) (fst b) && ptr_eqb (snd a) (snd b).

(* iterator find(const Key &key) *)
Definition p_find (fuel : nat) (s : pstate) (k : N) : pres iter :=
  if Nat.eqb (p_size s) 0 then POk (p_end s)
  else
    bind (bucket_find k (p_cap s)) (fun bucket =>
    bind (rd_tab (p_tid s) (p_table s) bucket) (fun hd =>
    bind (chain_search fuel (p_nodes s) k hd) (fun found =>
    match found with
    | Some _ => POk (bucket, found)
    | None => POk (p_end s)
    end))).

(* for(size_t bucket = 0; bucket < _capacity; bucket++) if(_table[bucket]) return iterator(this, bucket, _table[bucket]);
   FRG_ASSERT(!"hash_map corrupted"); *)
Fixpoint begin_loop (fuel : nat) (s : pstate) (bucket : nat) {struct fuel} : pres iter :=
  if Nat.ltb bucket (p_cap s) then
    match fuel with
    | O => POutOfFuel
    | S fuel' =>
      bind (rd_tab (p_tid s) (p_table s) bucket) (fun hd =>
      match hd with
      | Some _ => POk (bucket, hd)
      | None => begin_loop fuel' s (S bucket)
      end)
    end
  else PAssertStop.

Definition p_begin (fuel : nat) (s : pstate) : pres iter :=
  if Nat.eqb (p_size s) 0 then POk (p_cap s, None) else begin_loop fuel s 0.

(* while(true) { bucket++; if(bucket == map->_capacity) break; item = map->_table[bucket]; if(item) break; } *)
Fixpoint incr_loop (fuel : nat) (s : pstate) (bucket : nat) (item : option nat) {struct fuel} : pres iter :=
  match fuel with
  | O => POutOfFuel
  | S fuel' =>
    let bucket := S bucket in
    if Nat.eqb bucket (p_cap s) then POk (bucket, item)
    else
      bind (rd_tab (p_tid s) (p_table s) bucket) (fun item =>
      match item with
      | Some _ => POk (bucket, item)
      | None => incr_loop fuel' s bucket item
      end)
  end.

(* iterator &operator++ () *)
Definition p_incr (fuel : nat) (s : pstate) (it : iter) : pres iter :=
  let bucket := fst it in
  let item := snd it in
  frg_assert (negb (is_null item)) (
  bind (rd_node (p_nodes s) item) (fun n =>
  let item := n_next n in                                  (* item = item->next; *)
  match item with
  | Some _ => POk (bucket, item)
  | None =>
    frg_assert (Nat.ltb bucket (p_cap s)) (incr_loop fuel s bucket item)
  end)).

(* the harness's statement  for(auto it = m.begin(); it != m.end(); ++it) { read it->get<0>(), it->get<1>() }  *)
Fixpoint iter_loop (fuel0 fuel : nat) (s : pstate) (it : iter) {struct fuel} : pres (list entry * list ev) :=
  if iter_eqb it (p_end s) then POk ([], [])
  else
    match fuel with
    | O => POutOfFuel
    | S fuel' =>
      bind (rd_node (p_nodes s) (snd it)) (fun n =>        (* operator->: &item->entry *)
      bind (p_incr fuel0 s it) (fun it' =>
      bind (iter_loop fuel0 fuel' s it') (fun le =>
      POk ((n_key n, n_val n) :: fst le,
           match snd it with Some x => EUse (vobj x) :: snd le | None => snd le end))))
    end.

Definition p_iterate (fuel : nat) (s : pstate) : pres (list entry * list ev) :=
  bind (p_begin fuel s) (fun it => iter_loop fuel fuel s it).

(* ---- remove ---- *)
(* for(chain *item = _table[bucket]; item != nullptr; item = item->next) { if(key matches) { unlink; destruct; _size--; return value; } previous = item; } *)
Fixpoint remove_loop (fuel : nat) (s : pstate) (bucket : nat) (k : N) (previous item : option nat) {struct fuel}
  : pres (pstate * option N * list ev) :=
  match item with
  | None => POk (s, None, [])
  | Some x =>
    match fuel with
    | O => POutOfFuel
    | S fuel' =>
      bind (rd_node (p_nodes s) item) (fun n =>
      if N.eqb (n_key n) k then
        let value := n_val n in                            (* Value value = std::move(item->value); *)
        bind (match previous with
              | None =>                                    (* _table[bucket] = item->next; *)
                bind (wr_tab (p_tid s) (p_table s) bucket (n_next n)) (fun t => POk (set_table s t))
              | Some _ =>                                  (* previous->next = item->next; *)
                bind (wr_next (p_nodes s) previous (n_next n)) (fun h => POk (set_nodes s h))
              end) (fun s =>
        let s := set_nodes s (upd (p_nodes s) x None) in   (* frg::destruct(_allocator, item); *)
        let s := set_size s (pred (p_size s)) in           (* _size--; *)
        POk (s, Some value, [EUse (vobj x); EDestroy (vobj x); EDealloc x nsz]))
      else remove_loop fuel' s bucket k item (n_next n))   (* previous = item; item = item->next *)
    end
  end.

(* optional<Value> remove(const Key &key) *)
Definition p_remove (fuel : nat) (s : pstate) (k : N) : pres (pstate * option N * list ev) :=
  if Nat.eqb (p_size s) 0 then POk (s, None, [])
  else
    bind (bucket_remove k (p_cap s)) (fun bucket =>
    bind (rd_tab (p_tid s) (p_table s) bucket) (fun hd =>
    remove_loop fuel s bucket k None hd)).

(* ---- ~hash_map() ---- *)
(* while(item != nullptr) { chain *next = item->next; frg::destruct(_allocator, item); item = next; } *)
Fixpoint dtor_chain (fuel : nat) (h : heap) (item : option nat) {struct fuel} : pres (heap * list ev) :=
  match item with
  | None => POk (h, [])
  | Some x =>
    match fuel with
    | O => POutOfFuel
    | S fuel' =>
      bind (rd_node h item) (fun n =>
      let next := n_next n in
      let h := upd h x None in
      bind (dtor_chain fuel' h next) (fun he =>
      POk (fst he, EDestroy (vobj x) :: EDealloc x nsz :: snd he)))
    end
  end.

Fixpoint dtor_buckets (fuel0 fuel : nat) (h : heap) (s : pstate) (i : nat) {struct fuel} : pres (heap * list ev) :=
  if Nat.ltb i (p_cap s) then
    match fuel with
    | O => POutOfFuel
    | S fuel' =>
      bind (rd_tab (p_tid s) (p_table s) i) (fun item =>
      bind (dtor_chain fuel0 h item) (fun he =>
      bind (dtor_buckets fuel0 fuel' (fst he) s (S i)) (fun he' =>
      POk (fst he', snd he ++ snd he'))))
    end
  else POk (h, []).

(* result: the node heap after the destructor and its events *)
Definition p_destroy (fuel : nat) (s : pstate) : pres (heap * list ev) :=
  bind (dtor_buckets fuel fuel (p_nodes s) s 0) (fun he =>
  POk (fst he, snd he ++
       (if Nat.eqb (p_tid s) 0 then [] else [EDealloc (p_tid s) (psz * N.of_nat (p_cap s))%N]))).

(* ---- one statement of the harness script (the same op type and outputs as the chain-level model) ---- *)
Definition val_of (h : heap) (p : option nat) : pres (option N) :=
  match p with
  | None => POk None
  | Some _ => bind (rd_node h p) (fun n => POk (Some (n_val n)))
  end.

Definition p_step (fuel : nat) (s : pstate) (o : op) : pres (pstate * out * list ev) :=
  match o with
  | Insert k v =>
    bind (p_insert fuel s k v) (fun se => POk (fst se, OUnit, snd se))
  | IndexSet k v =>
    (* HV &r = m[k]; old = r.get(); r = HV{v};   output: old, or none when the call created the entry *)
    bind (p_index fuel s k) (fun sie =>
    let s' := fst (fst sie) in
    let item := Some (snd (fst sie)) in
    bind (rd_node (p_nodes s') item) (fun n =>
    bind (wr_val (p_nodes s') item v) (fun h =>
    POk (set_nodes s' h,
         OVal (if Nat.eqb (p_size s') (p_size s) then Some (n_val n) else None),
         snd sie ++ [EUse (vobj (snd (fst sie))); EUse (vobj (snd (fst sie)))]))))
  | Get k =>
    (* HV *p = m.get(k); auto it = m.find(k); val = p ? p->get() : 0 *)
    bind (p_get fuel s k) (fun p =>
    bind (p_find fuel s k) (fun it =>
    bind (val_of (p_nodes s) p) (fun r =>
    POk (s, OVal r, match p with Some x => [EUse (vobj x)] | None => [] end))))
  | Remove k =>
    bind (p_remove fuel s k) (fun sre => POk (fst (fst sre), OVal (snd (fst sre)), snd sre))
  | Iterate =>
    bind (p_iterate fuel s) (fun le => POk (s, OList (fst le), snd le))
  | Size => POk (s, OVal (Some (N.of_nat (p_size s))), [])
  end.

(* run a script with the same fuel for every operation; stops at the first step that is not POk *)
Fixpoint p_run (fuel : nat) (s : pstate) (ops : list op) : pres (pstate * list out * list ev) :=
  match ops with
  | [] => POk (s, [], [])
  | o :: r =>
    bind (p_step fuel s o) (fun sxe =>
    bind (p_run fuel (fst (fst sxe)) r) (fun sxs =>
    POk (fst (fst sxs), snd (fst sxe) :: snd (fst sxs), snd sxe ++ snd sxs)))
  end.

End WithHash.

(* ---- abstraction: read the chains back out of the memory (fuel bounds the length of any chain) ---- *)
Fixpoint walk (fuel : nat) (h : heap) (p : option nat) : chain :=
  match p, fuel with
  | Some x, S fuel' =>
    match h x with
    | Some n => (n_key n, n_val n) :: walk fuel' h (n_next n)
    | None => []
    end
  | _, _ => []
  end.

Definition abs (s : pstate) : hm :=
  mk_hm (map (walk (S (p_size s)) (p_nodes s)) (p_table s)) (p_size s).

(* fuel that suffices for every loop of one call on state s *)
Definition fuel_for (s : pstate) : nat := p_cap s + 2 * p_size s + 11.
