(* C16 for hash_map: the event log emitted by HashMapLog.lrun, followed by the destructor's events, is
   well-formed and closed (Common/EventLog.wf_closed), for every hash function, every pair of block
   sizes and every history with inserts of absent keys only. *)
From Coq Require Import List NArith Arith Bool Lia Permutation.
From FV Require Import Common.EventLog HashMap.HashMapModel HashMap.HashMapProofs HashMap.HashMapLog.
Import ListNotations.

(* ---------- what ev_step looks at ---------- *)

Definition hb (b : nat) (l : list (nat * N)) : option N :=
  match find (fun x => Nat.eqb (fst x) b) l with Some x => Some (snd x) | None => None end.

Lemma has_block_hb b st : has_block b st = hb b (blocks st).
Proof. reflexivity. Qed.

Lemma hb_in b n l : NoDup (map fst l) -> In (b, n) l -> hb b l = Some n.
Proof.
  unfold hb. induction l as [|[b' n'] l IH]; cbn [find map fst]; intros ND H; [destruct H|].
  inversion ND as [|? ? Hn ND']; subst. destruct H as [H|H].
  - inversion H; subst. rewrite Nat.eqb_refl. reflexivity.
  - destruct (Nat.eqb_spec b' b) as [->|Hne].
    + exfalso. apply Hn. change b with (fst (b, n)). apply in_map. exact H.
    + apply IH; assumption.
Qed.

Lemma hb_notin b l : ~ In b (map fst l) -> hb b l = None.
Proof.
  unfold hb. induction l as [|[b' n'] l IH]; cbn [find map fst]; intros H; [reflexivity|].
  destruct (Nat.eqb_spec b' b) as [->|Hne]; [exfalso; apply H; left; reflexivity|].
  apply IH. intros H'. apply H. right. exact H'.
Qed.

Lemma obj_eqb_refl o : obj_eqb o o = true.
Proof. unfold obj_eqb. rewrite !Nat.eqb_refl. reflexivity. Qed.

Lemma obj_eqb_eq a b : obj_eqb a b = true -> a = b.
Proof.
  destruct a as [a1 a2], b as [b1 b2]. unfold obj_eqb. cbn [fst snd]. intros H.
  apply andb_true_iff in H. destruct H as [H1 H2].
  apply Nat.eqb_eq in H1. apply Nat.eqb_eq in H2. subst. reflexivity.
Qed.

Lemma live_in o l : In o l -> existsb (obj_eqb o) l = true.
Proof. intros H. apply existsb_exists. exists o. split; [exact H|apply obj_eqb_refl]. Qed.

Lemma live_notin o l : ~ In o l -> existsb (obj_eqb o) l = false.
Proof.
  intros H. destruct (existsb (obj_eqb o) l) eqn:E; [|reflexivity].
  apply existsb_exists in E. destruct E as (x & Hx & He). apply obj_eqb_eq in He. subst x. contradiction.
Qed.

Lemma none_live b (l : list obj) : (forall o, In o l -> fst o <> b) -> forallb (fun o => negb (Nat.eqb (fst o) b)) l = true.
Proof.
  intros H. apply forallb_forall. intros o Ho. apply negb_true_iff. apply Nat.eqb_neq. apply H. exact Ho.
Qed.

Lemma filter_out_fst {B} (b : nat) (l1 l2 : list (nat * B)) x :
  fst x = b -> ~ In b (map fst (l1 ++ l2)) ->
  filter (fun y => negb (Nat.eqb (fst y) b)) (l1 ++ x :: l2) = l1 ++ l2.
Proof.
  intros Hx Hn. rewrite map_app, in_app_iff in Hn.
  assert (Hid : forall l : list (nat * B), ~ In b (map fst l) -> filter (fun y => negb (Nat.eqb (fst y) b)) l = l).
  { intros l Hl. apply filter_id_in. intros y Hy. apply negb_true_iff. apply Nat.eqb_neq. intros E.
    apply Hl. rewrite <- E. apply in_map. exact Hy. }
  rewrite filter_app. cbn [filter]. rewrite Hx, Nat.eqb_refl. cbn [negb].
  rewrite (Hid l1), (Hid l2) by tauto. reflexivity.
Qed.

Lemma filter_out_obj o (l : list obj) : ~ In o l -> filter (fun x => negb (obj_eqb o x)) (o :: l) = l.
Proof.
  intros Hn. cbn [filter]. rewrite obj_eqb_refl. cbn [negb]. apply filter_id_in.
  intros x Hx. apply negb_true_iff. destruct (obj_eqb o x) eqn:E; [|reflexivity].
  apply obj_eqb_eq in E. subst x. contradiction.
Qed.

Lemma flat_map_map {A B C} (g : B -> list C) (h : A -> B) l : flat_map g (map h l) = flat_map (fun a => g (h a)) l.
Proof. induction l as [|a l IH]; cbn [map flat_map]; [reflexivity|]. rewrite IH. reflexivity. Qed.

(* ---------- key -> block id association ---------- *)

Lemma id_of_in k b l : NoDup (map fst l) -> In (k, b) l -> id_of k l = b.
Proof.
  induction l as [|[k' b'] l IH]; cbn [id_of map fst]; intros ND H; [destruct H|].
  inversion ND as [|? ? Hn ND']; subst. destruct H as [H|H].
  - inversion H; subst. rewrite N.eqb_refl. reflexivity.
  - destruct (N.eqb_spec k' k) as [->|Hne].
    + exfalso. apply Hn. change k with (fst (k, b)). apply in_map. exact H.
    + apply IH; assumption.
Qed.

Lemma in_id_of k l : In k (map fst l) -> In (k, id_of k l) l.
Proof.
  induction l as [|[k' b'] l IH]; cbn [id_of map fst]; intros H; [destruct H|].
  destruct (N.eqb_spec k' k) as [->|Hne]; [left; reflexivity|].
  right. apply IH. destruct H as [H|H]; [contradiction|exact H].
Qed.

Lemma keys_filter_in {B} k k' (l : list (N * B)) :
  In k' (map fst (filter (fun e => negb (N.eqb (fst e) k)) l)) <-> k' <> k /\ In k' (map fst l).
Proof.
  rewrite !in_map_iff. split.
  - intros (x & Hx & Hin). apply filter_In in Hin. destruct Hin as [Hin Hf].
    apply negb_true_iff, N.eqb_neq in Hf. subst k'. split; [exact Hf|]. exists x. split; [reflexivity|exact Hin].
  - intros (Hne & x & Hx & Hin). exists x. split; [exact Hx|]. apply filter_In. split; [exact Hin|].
    apply negb_true_iff, N.eqb_neq. rewrite Hx. exact Hne.
Qed.

Lemma keys_filter_nodup {B} k (l : list (N * B)) :
  NoDup (map fst l) -> NoDup (map fst (filter (fun e => negb (N.eqb (fst e) k)) l)).
Proof.
  induction l as [|[a b] l IH]; cbn [filter map fst]; intros ND; [constructor|].
  inversion ND as [|? ? Hn ND']; subst. destruct (N.eqb a k); cbn [negb map fst]; [apply IH; exact ND'|].
  constructor; [|apply IH; exact ND']. intros H. apply keys_filter_in in H. apply Hn. apply H.
Qed.

Lemma kid_del_perm k l : NoDup (map fst l) -> In k (map fst l) ->
  Permutation l ((k, id_of k l) :: kid_del k l).
Proof.
  unfold kid_del. induction l as [|[k' b'] l IH]; cbn [id_of map fst filter]; intros ND H; [destruct H|].
  inversion ND as [|? ? Hn ND']; subst. destruct (N.eqb_spec k' k) as [->|Hne]; cbn [negb].
  - apply perm_skip. rewrite filter_id_in; [apply Permutation_refl|].
    intros [a b] Hin. cbn [fst]. apply negb_true_iff, N.eqb_neq. intros ->. apply Hn.
    change k with (fst (k, b)). apply in_map. exact Hin.
  - destruct H as [H|H]; [contradiction|].
    eapply Permutation_trans; [apply perm_skip, IH; assumption|]. apply perm_swap.
Qed.

(* ---------- the relation between the model's bookkeeping and the EventLog state ---------- *)

Section LogProofs.
Variable hash : N -> N.
Variables psz nsz : N.

Definition nb (kb : N * nat) : nat * N := (snd kb, nsz).     (* node block of an entry *)
Definition no (kb : N * nat) : obj := node (snd kb).          (* its Value object *)
Definition ids (tb : list (nat * N)) (kd : list (N * nat)) : list nat := map fst (tb ++ map nb kd).

Record Rel (tb : list (nat * N)) (kd : list (N * nat)) (nx : nat) (st : lstate) : Prop := {
  rel_blocks : Permutation (blocks st) (tb ++ map nb kd);
  rel_live : Permutation (live st) (map no kd);
  rel_nodup : NoDup (ids tb kd);
  rel_lt : forall b, In b (ids tb kd) -> 0 < b < nx;
  rel_nx : 0 < nx
}.

Lemma ids_cons_kid tb k b kd : Permutation (ids tb ((k, b) :: kd)) (b :: ids tb kd).
Proof.
  unfold ids. cbn [map]. unfold nb at 1. cbn [snd].
  change (b :: map fst (tb ++ map nb kd)) with (map fst ((b, nsz) :: tb ++ map nb kd)).
  apply Permutation_map. apply Permutation_sym, Permutation_middle.
Qed.

Lemma ids_kid_in tb k b kd : In (k, b) kd -> In b (ids tb kd).
Proof.
  intros H. unfold ids. rewrite map_app, in_app_iff. right. rewrite map_map.
  apply in_map_iff. exists (k, b). split; [reflexivity|exact H].
Qed.

Lemma Rel_perm tb kd kd' nx st : Permutation kd kd' -> Rel tb kd nx st -> Rel tb kd' nx st.
Proof.
  intros P R.
  assert (Pi : Permutation (ids tb kd) (ids tb kd')).
  { unfold ids. apply Permutation_map, Permutation_app_head, Permutation_map, P. }
  split.
  - eapply Permutation_trans; [apply (rel_blocks _ _ _ _ R)|]. apply Permutation_app_head, Permutation_map, P.
  - eapply Permutation_trans; [apply (rel_live _ _ _ _ R)|]. apply Permutation_map, P.
  - eapply Permutation_NoDup; [exact Pi|apply (rel_nodup _ _ _ _ R)].
  - intros b Hb. apply (rel_lt _ _ _ _ R). eapply Permutation_in; [apply Permutation_sym, Pi|exact Hb].
  - apply (rel_nx _ _ _ _ R).
Qed.

Lemma Rel_blocks_nodup tb kd nx st : Rel tb kd nx st -> NoDup (map fst (blocks st)).
Proof.
  intros R. eapply Permutation_NoDup; [apply Permutation_sym, Permutation_map, (rel_blocks _ _ _ _ R)|].
  apply (rel_nodup _ _ _ _ R).
Qed.

Lemma Rel_fresh tb kd nx st : Rel tb kd nx st -> ~ In nx (map fst (blocks st)).
Proof.
  intros R H. assert (H' : In nx (ids tb kd)).
  { eapply Permutation_in; [apply Permutation_map, (rel_blocks _ _ _ _ R)|exact H]. }
  apply (rel_lt _ _ _ _ R) in H'. lia.
Qed.

Lemma Rel_live_inv tb kd nx st o : Rel tb kd nx st -> In o (live st) -> exists k b, In (k, b) kd /\ o = node b.
Proof.
  intros R H. assert (H' : In o (map no kd)) by (eapply Permutation_in; [apply (rel_live _ _ _ _ R)|exact H]).
  apply in_map_iff in H'. destruct H' as ([k b] & Ho & Hin). exists k, b. split; [exact Hin|symmetry; exact Ho].
Qed.

(* allocate(n) of a table: block nx *)
Lemma Rel_alloc_tb tb kd nx st n : Rel tb kd nx st ->
  exists st', ev_step st (EAlloc nx n) = Some st' /\ Rel ((nx, n) :: tb) kd (S nx) st'.
Proof.
  intros R. pose proof (rel_nx _ _ _ _ R) as Hnx. pose proof (Rel_fresh _ _ _ _ R) as Hf.
  exists (mk_ls ((nx, n) :: blocks st) (live st)). split.
  - cbn [ev_step]. destruct (Nat.eqb_spec nx 0) as [E|_]; [lia|].
    rewrite has_block_hb, (hb_notin _ _ Hf). reflexivity.
  - split; cbn [blocks live].
    + apply perm_skip, (rel_blocks _ _ _ _ R).
    + apply (rel_live _ _ _ _ R).
    + unfold ids. cbn [app map fst]. constructor; [|apply (rel_nodup _ _ _ _ R)].
      intros H. apply (rel_lt _ _ _ _ R) in H. lia.
    + unfold ids. cbn [app map fst]. intros b [<-|H]; [lia|]. apply (rel_lt _ _ _ _ R) in H. lia.
    + lia.
Qed.

(* frg::construct<chain>: allocate(sizeof(chain)) = block nx, then the Value is constructed in it *)
Lemma Rel_new_node tb kd nx st k : Rel tb kd nx st ->
  exists st', ev_run st (new_node_evs nsz nx) = Some st' /\ Rel tb ((k, nx) :: kd) (S nx) st'.
Proof.
  intros R. pose proof (rel_nx _ _ _ _ R) as Hnx. pose proof (Rel_fresh _ _ _ _ R) as Hf.
  exists (mk_ls ((nx, nsz) :: blocks st) (node nx :: live st)). split.
  - unfold new_node_evs. cbn [ev_run ev_step]. destruct (Nat.eqb_spec nx 0) as [E|_]; [lia|].
    rewrite has_block_hb, (hb_notin _ _ Hf).
    unfold block_ok, is_live. rewrite has_block_hb. cbn [blocks live fst node].
    unfold hb. cbn [find fst]. rewrite Nat.eqb_refl. rewrite orb_true_r.
    rewrite live_notin; [reflexivity|].
    intros H. destruct (Rel_live_inv _ _ _ _ _ R H) as (k' & b & Hin & Eo). inversion Eo; subst b.
    apply (ids_kid_in tb) in Hin. apply (rel_lt _ _ _ _ R) in Hin. lia.
  - assert (Pi : Permutation (ids tb ((k, nx) :: kd)) (nx :: ids tb kd)) by apply ids_cons_kid.
    split; cbn [blocks live].
    + cbn [map]. unfold nb at 1. cbn [snd]. apply Permutation_cons_app, (rel_blocks _ _ _ _ R).
    + cbn [map]. unfold no at 1. cbn [snd]. apply perm_skip, (rel_live _ _ _ _ R).
    + eapply Permutation_NoDup; [apply Permutation_sym, Pi|]. constructor; [|apply (rel_nodup _ _ _ _ R)].
      intros H. apply (rel_lt _ _ _ _ R) in H. lia.
    + intros b Hb. apply (Permutation_in _ Pi) in Hb. destruct Hb as [<-|H]; [lia|].
      apply (rel_lt _ _ _ _ R) in H. lia.
    + lia.
Qed.

(* deallocate(table block t, n) *)
Lemma Rel_dealloc_tb tb1 t n tb2 kd nx st : Rel (tb1 ++ (t, n) :: tb2) kd nx st ->
  exists st', ev_step st (EDealloc t n) = Some st' /\ Rel (tb1 ++ tb2) kd nx st'.
Proof.
  intros R. pose proof (rel_nodup _ _ _ _ R) as ND. unfold ids in ND.
  rewrite <- app_assoc in ND. cbn [app] in ND.
  assert (Hnot : ~ In t (map fst (tb1 ++ tb2 ++ map nb kd))).
  { rewrite map_app in ND. cbn [map fst] in ND. apply NoDup_remove_2 in ND. rewrite <- map_app in ND. exact ND. }
  exists (drop_block t st). split.
  - cbn [ev_step]. rewrite has_block_hb.
    rewrite (hb_in t n _ (Rel_blocks_nodup _ _ _ _ R)).
    2:{ eapply Permutation_in; [apply Permutation_sym, (rel_blocks _ _ _ _ R)|].
        rewrite <- app_assoc. apply in_or_app. right. left. reflexivity. }
    rewrite N.eqb_refl. unfold no_live_in. rewrite none_live; [reflexivity|].
    intros o Ho E. destruct (Rel_live_inv _ _ _ _ _ R Ho) as (k & b & Hin & ->). cbn [node fst] in E. subst b.
    apply Hnot. rewrite app_assoc, map_app, in_app_iff. right. rewrite map_map.
    apply in_map_iff. exists (k, t). split; [reflexivity|exact Hin].
  - split; unfold drop_block; cbn [blocks live].
    + eapply Permutation_trans; [apply Permutation_filter_compat, (rel_blocks _ _ _ _ R)|].
      rewrite <- !app_assoc. cbn [app]. rewrite (filter_out_fst t tb1 (tb2 ++ map nb kd) (t, n) eq_refl Hnot).
      apply Permutation_refl.
    + apply (rel_live _ _ _ _ R).
    + unfold ids. rewrite <- app_assoc. rewrite map_app in ND. cbn [map fst] in ND.
      apply NoDup_remove_1 in ND. rewrite <- map_app in ND. exact ND.
    + intros b Hb. apply (rel_lt _ _ _ _ R). unfold ids in *. rewrite <- app_assoc in *. cbn [app].
      rewrite map_app, in_app_iff in *. cbn [map fst]. destruct Hb as [Hb|Hb]; [left; exact Hb|right; right; exact Hb].
    + apply (rel_nx _ _ _ _ R).
Qed.

(* read / move-from / assign of the Value stored for key k *)
Lemma Rel_use tb kd nx st k b : Rel tb kd nx st -> In (k, b) kd -> ev_step st (EUse (node b)) = Some st.
Proof.
  intros R H. cbn [ev_step]. unfold is_live. rewrite live_in; [reflexivity|].
  eapply Permutation_in; [apply Permutation_sym, (rel_live _ _ _ _ R)|].
  apply in_map_iff. exists (k, b). split; [reflexivity|exact H].
Qed.

(* frg::destruct(node): ~chain then deallocate(node, sizeof(chain)) *)
Lemma Rel_del_node tb kd nx st k b : Rel tb ((k, b) :: kd) nx st ->
  exists st', ev_run st [EDestroy (node b); EDealloc b nsz] = Some st' /\ Rel tb kd nx st'.
Proof.
  intros R.
  pose proof (ids_cons_kid tb k b kd) as Pi.
  assert (ND : NoDup (b :: ids tb kd)) by (eapply Permutation_NoDup; [exact Pi|apply (rel_nodup _ _ _ _ R)]).
  inversion ND as [|? ? Hb ND']; subst.
  assert (Hbk : ~ In (node b) (map no kd)).
  { intros H. apply in_map_iff in H. destruct H as ([k' b'] & E & Hin). unfold no, node in E. cbn [snd] in E.
    inversion E; subst b'. apply Hb. eapply ids_kid_in. exact Hin. }
  set (st1 := mk_ls (blocks st) (filter (fun x => negb (obj_eqb (node b) x)) (live st))).
  assert (L1 : Permutation (live st1) (map no kd)).
  { unfold st1. cbn [live]. eapply Permutation_trans; [apply Permutation_filter_compat, (rel_live _ _ _ _ R)|].
    cbn [map]. unfold no at 1. cbn [snd]. rewrite (filter_out_obj _ _ Hbk). apply Permutation_refl. }
  exists (drop_block b st1). split.
  - cbn [ev_run ev_step]. unfold is_live. rewrite live_in.
    2:{ eapply Permutation_in; [apply Permutation_sym, (rel_live _ _ _ _ R)|]. left. reflexivity. }
    fold st1. rewrite has_block_hb. unfold st1 at 1. cbn [blocks].
    rewrite (hb_in b nsz _ (Rel_blocks_nodup _ _ _ _ R)).
    2:{ eapply Permutation_in; [apply Permutation_sym, (rel_blocks _ _ _ _ R)|].
        apply in_or_app. right. left. reflexivity. }
    rewrite N.eqb_refl. unfold no_live_in. rewrite none_live; [reflexivity|].
    intros o Ho E. apply (Permutation_in _ L1) in Ho. apply in_map_iff in Ho.
    destruct Ho as ([k' b'] & Eo & Hin). subst o. unfold no, node in E. cbn [fst snd] in E. subst b'.
    apply Hb. eapply ids_kid_in. exact Hin.
  - split; unfold drop_block; cbn [blocks live].
    + unfold st1 at 1. cbn [blocks].
      eapply Permutation_trans; [apply Permutation_filter_compat, (rel_blocks _ _ _ _ R)|].
      cbn [map]. unfold nb at 1. cbn [snd].
      rewrite (filter_out_fst b tb (map nb kd) (b, nsz) eq_refl Hb). apply Permutation_refl.
    + exact L1.
    + exact ND'.
    + intros b' Hb'. apply (rel_lt _ _ _ _ R). eapply Permutation_in; [apply Permutation_sym, Pi|]. right. exact Hb'.
    + apply (rel_nx _ _ _ _ R).
Qed.

Lemma Rel_uses tb kd nx st (l : list entry) : Rel tb kd nx st ->
  (forall e, In e l -> In (fst e) (map fst kd)) ->
  ev_run st (map (fun e => EUse (node (id_of (fst e) kd))) l) = Some st.
Proof.
  intros R. induction l as [|e l IH]; intros H; cbn [map ev_run]; [reflexivity|].
  rewrite (Rel_use _ _ _ _ (fst e) _ R (in_id_of _ _ (H e (or_introl eq_refl)))).
  apply IH. intros e' He'. apply H. right. exact He'.
Qed.

Lemma Rel_del_all tb nx : forall kd st, Rel tb kd nx st ->
  exists st', ev_run st (flat_map (fun kb => [EDestroy (node (snd kb)); EDealloc (snd kb) nsz]) kd) = Some st'
    /\ Rel tb [] nx st'.
Proof.
  induction kd as [|[k b] kd IH]; intros st R; cbn [flat_map].
  - exists st. split; [reflexivity|exact R].
  - destruct (Rel_del_node _ _ _ _ _ _ R) as (st1 & E1 & R1).
    destruct (IH st1 R1) as (st2 & E2 & R2).
    exists st2. split; [|exact R2]. rewrite ev_run_app. cbn [snd]. rewrite E1. exact E2.
Qed.

(* ---------- capacities of the functional model ---------- *)

Lemma fold_push_length c l : forall t, length (fold_left (fun t e => push_front hash t c e) l t) = length t.
Proof.
  induction l as [|e l IH]; intros t; cbn [fold_left]; [reflexivity|]. rewrite IH. apply push_front_length.
Qed.

Lemma cap_rehash m : cap (rehash hash m) = new_cap m.
Proof. unfold cap, rehash. cbn [table]. rewrite fold_push_length. apply repeat_length. Qed.

Lemma new_cap_pos m : 0 < new_cap m.
Proof. unfold new_cap. lia. Qed.

Lemma insert_cap m k v : cap (insert hash k v m) = if grows m then new_cap m else cap m.
Proof.
  unfold insert, grow_if_full, grows, cap at 1. cbn [table]. rewrite push_front_length.
  destruct (Nat.leb (cap m) (size m)); [apply cap_rehash|reflexivity].
Qed.

Lemma index_set_cap m k v : Inv hash m ->
  cap (fst (index_set hash k v m)) =
  match assoc k (entries m) with
  | Some _ => cap m
  | None => if Nat.eqb (size m) 0 || grows m then new_cap m else cap m
  end.
Proof.
  intros I. unfold index_set. destruct (size m) eqn:Es.
  - assert (E0 : entries m = []).
    { pose proof (inv_size hash m I) as Hs. rewrite Es in Hs. destruct (entries m); [reflexivity|discriminate]. }
    rewrite E0. cbn [assoc fst Nat.eqb orb]. unfold cap at 1. cbn [table]. rewrite push_front_length. apply cap_rehash.
  - assert (Hs : size m <> 0) by lia. rewrite <- Es.
    rewrite (bucket_lookup hash m k I Hs).
    destruct (assoc k (entries m)); cbn [fst].
    + unfold cap at 1. cbn [table]. apply upd_nth_length.
    + destruct (Nat.eqb_spec (size m) 0) as [E|_]; [contradiction|]. cbn [orb]. apply insert_cap.
Qed.

Lemma remove_cap m k : cap (fst (remove hash k m)) = cap m.
Proof.
  unfold remove. destruct (size m); [reflexivity|].
  destruct (chain_find k _); [|reflexivity]. cbn [fst]. unfold cap at 1. cbn [table]. apply upd_nth_length.
Qed.

(* ---------- the invariant of the logged run ---------- *)

Definition tbl (s : lhm) : list (nat * N) :=
  if Nat.eqb (cap (core s)) 0 then [] else [(tid s, tbytes psz (cap (core s)))].

Record LInv (s : lhm) (st : lstate) : Prop := {
  li_inv : Inv hash (core s);
  li_rel : Rel (tbl s) (kid s) (nxt s) st;
  li_keys_nodup : NoDup (map fst (kid s));
  li_keys : forall k, In k (map fst (kid s)) <-> In k (map fst (entries (core s)))
}.

Lemma LInv_empty : LInv empty_lhm ls0.
Proof.
  split.
  - apply Inv_empty.
  - split; cbn; [constructor|constructor|constructor|intros ? []|lia].
  - constructor.
  - intros k. cbn. tauto.
Qed.

Lemma tbl_same s s' : cap (core s') = cap (core s) -> tid s' = tid s -> tbl s' = tbl s.
Proof. intros Hc Ht. unfold tbl. rewrite Hc, Ht. reflexivity. Qed.

(* optional rehash() followed by one new node *)
Lemma add_node_ok s st m' k v (rh : bool) : LInv s st ->
  Inv hash m' -> Permutation (entries m') ((k, v) :: entries (core s)) ->
  ~ In k (map fst (entries (core s))) ->
  cap m' = (if rh then new_cap (core s) else cap (core s)) ->
  (rh = false -> 0 < cap (core s)) ->
  exists st', ev_run st (snd (add_node psz nsz s m' k rh)) = Some st' /\
    LInv (fst (add_node psz nsz s m' k rh)) st' /\
    core (fst (add_node psz nsz s m' k rh)) = m' /\
    In (k, id_of k (kid (fst (add_node psz nsz s m' k rh)))) (kid (fst (add_node psz nsz s m' k rh))).
Proof.
  intros L I' P' Hk Hcap Hpos. pose proof (li_rel s st L) as R.
  assert (Hkeys : forall b k0, In k0 (map fst ((k, b) :: kid s)) <-> In k0 (map fst (entries m'))).
  { intros b k0. cbn [map fst]. split.
    - intros H. eapply Permutation_in; [apply Permutation_sym, Permutation_map, P'|]. cbn [map fst].
      destruct H as [H|H]; [left; exact H|right; apply (li_keys s st L); exact H].
    - intros H. apply (Permutation_in _ (Permutation_map fst P')) in H. cbn [map fst] in H.
      destruct H as [H|H]; [left; exact H|right; apply (li_keys s st L); exact H]. }
  assert (Hnd : forall b, NoDup (map fst ((k, b) :: kid s))).
  { intros b. cbn [map fst]. constructor; [|apply (li_keys_nodup s st L)].
    intros H. apply Hk. apply (li_keys s st L). exact H. }
  unfold add_node. destruct rh; cbn [fst snd core kid].
  - (* rehash *)
    unfold rehash_evs.
    destruct (Rel_alloc_tb _ _ _ _ (tbytes psz (new_cap (core s))) R) as (st1 & E1 & R1).
    assert (R2 : exists st2, ev_run st1 (if Nat.eqb (cap (core s)) 0 then [] else [EDealloc (tid s) (tbytes psz (cap (core s)))]) = Some st2
                 /\ Rel [(nxt s, tbytes psz (new_cap (core s)))] (kid s) (S (nxt s)) st2).
    { unfold tbl in R1. destruct (Nat.eqb (cap (core s)) 0).
      - exists st1. split; [reflexivity|exact R1].
      - destruct (Rel_dealloc_tb [(nxt s, tbytes psz (new_cap (core s)))] (tid s) _ [] _ _ _ R1) as (st2 & E2 & R2).
        exists st2. split; [cbn [ev_run]; rewrite E2; reflexivity|exact R2]. }
    destruct R2 as (st2 & E2 & R2).
    destruct (Rel_new_node _ _ _ _ k R2) as (st3 & E3 & R3).
    exists st3. split.
    { cbn [app ev_run]. rewrite E1. rewrite ev_run_app, E2. exact E3. }
    split; [|split; [reflexivity|cbn [id_of]; rewrite N.eqb_refl; left; reflexivity]].
    split; cbn [core kid tid nxt].
    + exact I'.
    + unfold tbl. cbn [core tid]. rewrite Hcap. pose proof (new_cap_pos (core s)).
      destruct (Nat.eqb_spec (new_cap (core s)) 0); [lia|]. exact R3.
    + apply Hnd.
    + apply Hkeys.
  - (* no rehash *)
    destruct (Rel_new_node _ _ _ _ k R) as (st1 & E1 & R1).
    exists st1. split; [exact E1|].
    split; [|split; [reflexivity|cbn [id_of]; rewrite N.eqb_refl; left; reflexivity]].
    split; cbn [core kid tid nxt].
    + exact I'.
    + unfold tbl in *. cbn [core tid]. rewrite Hcap. exact R1.
    + apply Hnd.
    + apply Hkeys.
Qed.

Lemma two_uses tb kd nx st k b : Rel tb kd nx st -> In (k, b) kd ->
  ev_run st [EUse (node b); EUse (node b)] = Some st.
Proof. intros R H. cbn [ev_run]. rewrite !(Rel_use _ _ _ _ _ _ R H). reflexivity. Qed.

Definition ins_ok (m : hm) (o : op) : Prop :=
  match o with Insert k _ => ~ In k (map fst (entries m)) | _ => True end.

(* one operation: its events are accepted, the invariant is kept, the functional part is [step] *)
Lemma lstep_ok s st o : LInv s st -> ins_ok (core s) o ->
  exists st', ev_run st (snd (lstep hash psz nsz s o)) = Some st' /\
    LInv (fst (fst (lstep hash psz nsz s o))) st' /\
    core (fst (fst (lstep hash psz nsz s o))) = fst (step hash (core s) o) /\
    snd (fst (lstep hash psz nsz s o)) = snd (step hash (core s) o).
Proof.
  intros L Hok. pose proof (li_inv s st L) as I. pose proof (li_rel s st L) as R.
  unfold lstep. destruct o as [k v|k v|k|k| |]; cbn [step ins_ok] in *.
  - (* insert *)
    destruct (insert_spec hash (core s) k v I Hok) as (I' & P').
    assert (Hpos : grows (core s) = false -> 0 < cap (core s)).
    { unfold grows. intros H. apply Nat.leb_gt in H. lia. }
    destruct (add_node_ok s st _ k v (grows (core s)) L I' P' Hok (insert_cap _ k v) Hpos) as (st' & E & L' & C & _).
    destruct (add_node psz nsz s (insert hash k v (core s)) k (grows (core s))) as [s' e].
    cbn [fst snd] in *. exists st'. repeat (split; [assumption|]). reflexivity.
  - (* operator[] = v *)
    destruct (index_set_spec hash (core s) k v I) as (Er & I' & P').
    pose proof (index_set_cap (core s) k v I) as Hcap.
    destruct (index_set hash k v (core s)) as [m' r0]. cbn [fst snd] in *. subst r0.
    destruct (assoc k (entries (core s))) as [old|] eqn:Ea; cbn [hit].
    + (* hit *)
      assert (Hin : In (k, id_of k (kid s)) (kid s)).
      { apply in_id_of. apply (li_keys s st L). apply assoc_in in Ea.
        change k with (fst (k, old)). apply in_map. exact Ea. }
      exists st. cbn [fst snd core]. split; [apply (two_uses _ _ _ _ _ _ R Hin)|].
      split; [|split; reflexivity].
      split; cbn [core kid tid nxt].
      * exact I'.
      * rewrite (tbl_same s (mk_lhm m' (tid s) (kid s) (nxt s)) Hcap eq_refl). exact R.
      * apply (li_keys_nodup s st L).
      * intros k0. rewrite (li_keys s st L k0).
        split; intros H.
        -- eapply Permutation_in; [apply Permutation_sym, Permutation_map, P'|]. rewrite ref_set_keys. exact H.
        -- apply (Permutation_in _ (Permutation_map fst P')) in H. rewrite ref_set_keys in H. exact H.
    + (* miss *)
      apply assoc_none in Ea.
      assert (Hpos : Nat.eqb (size (core s)) 0 || grows (core s) = false -> 0 < cap (core s)).
      { unfold grows. intros H. apply orb_false_iff in H. destruct H as [_ H]. apply Nat.leb_gt in H. lia. }
      destruct (add_node_ok s st m' k v _ L I' P' Ea Hcap Hpos) as (st' & E & L' & C & Hin).
      destruct (add_node psz nsz s m' k (Nat.eqb (size (core s)) 0 || grows (core s))) as [s' e].
      cbn [fst snd] in *. exists st'. split.
      { rewrite ev_run_app, E. apply (two_uses _ _ _ _ _ _ (li_rel s' st' L') Hin). }
      repeat (split; [assumption|]). reflexivity.
  - (* get / find *)
    cbn [fst snd]. rewrite (get_spec hash (core s) k I).
    assert (L' : LInv (mk_lhm (core s) (tid s) (kid s) (nxt s)) st) by (destruct s; exact L).
    destruct (assoc k (entries (core s))) as [v|] eqn:Ea; cbn [hit].
    + assert (Hin : In (k, id_of k (kid s)) (kid s)).
      { apply in_id_of. apply (li_keys s st L). apply assoc_in in Ea.
        change k with (fst (k, v)). apply in_map. exact Ea. }
      exists st. split; [cbn [ev_run]; rewrite (Rel_use _ _ _ _ _ _ R Hin); reflexivity|].
      split; [exact L'|split; reflexivity].
    + exists st. split; [reflexivity|]. split; [exact L'|split; reflexivity].
  - (* remove *)
    destruct (remove_spec hash (core s) k I) as (Er & I' & E').
    pose proof (remove_cap (core s) k) as Hcap.
    destruct (remove hash k (core s)) as [m' r0]. cbn [fst snd] in *. subst r0.
    destruct (assoc k (entries (core s))) as [old|] eqn:Ea; cbn [hit].
    + assert (Hk : In k (map fst (kid s))).
      { apply (li_keys s st L). apply assoc_in in Ea. change k with (fst (k, old)). apply in_map. exact Ea. }
      pose proof (kid_del_perm k (kid s) (li_keys_nodup s st L) Hk) as Pk.
      pose proof (Rel_perm _ _ _ _ _ Pk R) as R1.
      destruct (Rel_del_node _ _ _ _ _ _ R1) as (st' & E2 & R2).
      exists st'. cbn [fst snd core]. split.
      { change (ev_run st ([EUse (node (id_of k (kid s)))] ++ [EDestroy (node (id_of k (kid s))); EDealloc (id_of k (kid s)) nsz]) = Some st').
        rewrite ev_run_app. cbn [ev_run]. rewrite (Rel_use _ _ _ _ k _ R1 (or_introl eq_refl)). exact E2. }
      split; [|split; reflexivity].
      split; cbn [core kid tid nxt].
      * exact I'.
      * rewrite (tbl_same s (mk_lhm m' (tid s) (kid_del k (kid s)) (nxt s)) Hcap eq_refl). exact R2.
      * apply keys_filter_nodup. apply (li_keys_nodup s st L).
      * intros k0. rewrite E'. unfold kid_del, ref_del. rewrite !keys_filter_in, (li_keys s st L k0). tauto.
    + exists st. cbn [fst snd core]. split; [reflexivity|]. split; [|split; reflexivity].
      split; cbn [core kid tid nxt].
      * exact I'.
      * rewrite (tbl_same s (mk_lhm m' (tid s) (kid s) (nxt s)) Hcap eq_refl). exact R.
      * apply (li_keys_nodup s st L).
      * intros k0. rewrite E'. rewrite ref_del_other by (apply assoc_none; exact Ea). apply (li_keys s st L).
  - (* iterate *)
    cbn [fst snd]. exists st. split.
    { apply (Rel_uses _ _ _ _ _ R). intros e He. apply (li_keys s st L).
      rewrite (iterate_entries hash (core s) I) in He. apply in_map. exact He. }
    split; [destruct s; exact L|split; reflexivity].
  - (* size *)
    cbn [fst snd]. exists st. split; [reflexivity|]. split; [destruct s; exact L|split; reflexivity].
Qed.

(* ~hash_map(): every node is destroyed and released, then the table; nothing is left *)
Lemma destructor_ok s st : LInv s st ->
  exists st', ev_run st (destructor_evs psz nsz s) = Some st' /\ blocks st' = [] /\ live st' = [].
Proof.
  intros L. pose proof (li_inv s st L) as I. pose proof (li_rel s st L) as R.
  set (kd' := map (fun e : entry => (fst e, id_of (fst e) (kid s))) (entries (core s))).
  assert (Pk : Permutation (kid s) kd').
  { apply NoDup_Permutation.
    - apply (NoDup_map_inv fst). apply (li_keys_nodup s st L).
    - apply (NoDup_map_inv fst). unfold kd'. rewrite map_map. cbn [fst]. apply (inv_nodup hash _ I).
    - intros [k b]. unfold kd'. rewrite in_map_iff. split.
      + intros H. assert (Hk : In k (map fst (entries (core s)))).
        { apply (li_keys s st L). change k with (fst (k, b)). apply in_map. exact H. }
        apply in_map_iff in Hk. destruct Hk as (e & Ek & He). exists e. split; [|exact He].
        rewrite Ek. rewrite (id_of_in k b _ (li_keys_nodup s st L) H). reflexivity.
      + intros (e & Ee & He). inversion Ee; subst. apply in_id_of. apply (li_keys s st L).
        apply in_map. exact He. }
  pose proof (Rel_perm _ _ _ _ _ Pk R) as R1.
  destruct (Rel_del_all (tbl s) (nxt s) kd' st R1) as (st1 & E1 & R2).
  assert (Ed : destructor_evs psz nsz s =
               flat_map (fun kb : N * nat => [EDestroy (node (snd kb)); EDealloc (snd kb) nsz]) kd'
               ++ (if Nat.eqb (cap (core s)) 0 then [] else [EDealloc (tid s) (tbytes psz (cap (core s)))])).
  { unfold destructor_evs, kd', entries. rewrite flat_map_map. reflexivity. }
  rewrite Ed, ev_run_app, E1. unfold tbl in R2.
  destruct (Nat.eqb (cap (core s)) 0).
  - exists st1. split; [reflexivity|]. split.
    + apply Permutation_nil. apply Permutation_sym. apply (rel_blocks _ _ _ _ R2).
    + apply Permutation_nil. apply Permutation_sym. apply (rel_live _ _ _ _ R2).
  - destruct (Rel_dealloc_tb [] (tid s) _ [] _ _ _ R2) as (st2 & E2 & R3).
    exists st2. split; [cbn [ev_run]; rewrite E2; reflexivity|]. split.
    + apply Permutation_nil. apply Permutation_sym. apply (rel_blocks _ _ _ _ R3).
    + apply Permutation_nil. apply Permutation_sym. apply (rel_live _ _ _ _ R3).
Qed.

(* histories *)
Lemma lrun_ok ops : forall s st r, LInv s st -> Permutation (entries (core s)) r -> ops_ok r ops ->
  exists st', ev_run st (log_of (lrun hash psz nsz s ops)) = Some st' /\
    LInv (final_of (lrun hash psz nsz s ops)) st'.
Proof.
  induction ops as [|o ops IH]; intros s st r L P Hok; cbn [lrun].
  - exists st. split; [reflexivity|exact L].
  - destruct Hok as [Ho Hrest].
    assert (S0 : Sim hash (core s) r) by (split; [apply (li_inv s st L)|exact P]).
    assert (Hins : ins_ok (core s) o).
    { destruct o; cbn [ins_ok op_ok] in *; try exact Logic.I.
      intros H. apply Ho. eapply Permutation_in; [apply Permutation_map, P|exact H]. }
    destruct (lstep_ok s st o L Hins) as (st1 & E1 & L1 & C1 & _).
    destruct (step_sim hash (core s) r o S0 Ho) as ([_ P1] & _).
    destruct (lstep hash psz nsz s o) as [[s1 x] e]. cbn [fst snd] in *.
    rewrite <- C1 in P1.
    destruct (IH s1 st1 _ L1 P1 Hrest) as (st2 & E2 & L2).
    destruct (lrun hash psz nsz s1 ops) as [[s2 xs] es]. unfold log_of, final_of in *. cbn [fst snd] in *.
    exists st2. split; [rewrite ev_run_app, E1; exact E2|exact L2].
Qed.

End LogProofs.

(* the functional part of the logged run is the C14 model, whatever the history *)
Lemma lstep_step hash psz nsz s o :
  core (fst (fst (lstep hash psz nsz s o))) = fst (step hash (core s) o) /\
  snd (fst (lstep hash psz nsz s o)) = snd (step hash (core s) o).
Proof.
  unfold lstep. destruct (step hash (core s) o) as [m' x]. cbn [fst snd].
  destruct o; cbn [fst snd].
  - unfold add_node. destruct (grows (core s)); cbn [fst snd core]; split; reflexivity.
  - destruct (hit x); cbn [fst snd core]; [split; reflexivity|].
    unfold add_node. destruct (Nat.eqb (size (core s)) 0 || grows (core s)); cbn [fst snd core]; split; reflexivity.
  - split; reflexivity.
  - destruct (hit x); cbn [fst snd core]; split; reflexivity.
  - split; reflexivity.
  - split; reflexivity.
Qed.

Lemma lrun_run hash psz nsz ops : forall s,
  core (final_of (lrun hash psz nsz s ops)) = fst (run hash (core s) ops) /\
  outs_of (lrun hash psz nsz s ops) = snd (run hash (core s) ops).
Proof.
  induction ops as [|o ops IH]; intros s; cbn [lrun run]; [split; reflexivity|].
  destruct (lstep_step hash psz nsz s o) as [C X].
  destruct (lstep hash psz nsz s o) as [[s1 x] e]. destruct (step hash (core s) o) as [m1 x']. cbn [fst snd] in *.
  subst m1 x'. destruct (IH s1) as [C2 X2].
  destruct (lrun hash psz nsz s1 ops) as [[s2 xs] es]. destruct (run hash (core s1) ops) as [m2 xs'].
  unfold final_of, outs_of in *. cbn [fst snd] in *. subst. split; reflexivity.
Qed.

Lemma hashmap_log_functional hash psz nsz ops :
  core (final_of (lrun hash psz nsz empty_lhm ops)) = fst (run hash empty_hm ops) /\
  outs_of (lrun hash psz nsz empty_lhm ops) = snd (run hash empty_hm ops).
Proof. apply (lrun_run hash psz nsz ops empty_lhm). Qed.

(* C16 for hash_map *)
Lemma hashmap_log_wf hash psz nsz ops : inserts_absent ops ->
  wf_closed (log_of (lrun hash psz nsz empty_lhm ops)
             ++ destructor_evs psz nsz (final_of (lrun hash psz nsz empty_lhm ops))) = true.
Proof.
  intros H.
  destruct (lrun_ok hash psz nsz ops empty_lhm ls0 [] (LInv_empty hash psz nsz) (Permutation_refl _) H) as (st1 & E1 & L1).
  destruct (destructor_ok hash psz nsz _ st1 L1) as (st2 & E2 & B & Lv).
  unfold wf_closed. rewrite ev_run_app, E1, E2, B, Lv. reflexivity.
Qed.

(* every prefix of the log is well-formed too (wf_log), in particular the log before the destructor *)
Lemma hashmap_log_prefix_wf hash psz nsz ops : inserts_absent ops ->
  wf_log (log_of (lrun hash psz nsz empty_lhm ops)) = true.
Proof.
  intros H.
  destruct (lrun_ok hash psz nsz ops empty_lhm ls0 [] (LInv_empty hash psz nsz) (Permutation_refl _) H) as (st1 & E1 & _).
  unfold wf_log. rewrite E1. reflexivity.
Qed.
