(* Refinement, part 2: rehash() -- the re-threading of every node into the new table, loop by loop. *)
From Coq Require Import List NArith Arith Bool Lia Permutation.
From FV Require Import Common.EventLog HashMap.HashMapModel HashMap.HashMapProofs HashMap.HashMapPtr
  HashMap.HashMapRefineBase.
Import ListNotations.

Section Rehash.
Variable hash : N -> N.
Variables psz : N.

(* ghost version of "link node x at the head of its new bucket" *)
Definition push_id (kf : nat -> N) (c : nat) (t : list (list nat)) (x : nat) : list (list nat) :=
  upd_nth t (bucket_of hash c (kf x)) (fun ch => x :: ch).

Lemma push_id_length kf c t x : length (push_id kf c t x) = length t.
Proof. apply upd_nth_length. Qed.

Lemma fold_push_id_length kf c ids : forall t, length (fold_left (push_id kf c) ids t) = length t.
Proof. induction ids as [|x r IH]; intros t; cbn [fold_left]; [reflexivity|]. rewrite IH. apply push_id_length. Qed.

Lemma push_id_perm kf c t x : 0 < c -> length t = c -> Permutation (concat (push_id kf c t x)) (x :: concat t).
Proof. intros Hc L. apply concat_upd_nth_cons. rewrite L. apply bucket_lt. exact Hc. Qed.

Lemma fold_push_id_perm kf c ids : 0 < c -> forall t, length t = c ->
  Permutation (concat (fold_left (push_id kf c) ids t)) (ids ++ concat t).
Proof.
  intros Hc. induction ids as [|x r IH]; intros t L; cbn [fold_left app]; [apply Permutation_refl|].
  eapply Permutation_trans; [apply IH; rewrite push_id_length; exact L|].
  eapply Permutation_trans; [apply Permutation_app_head, push_id_perm; assumption|].
  apply Permutation_sym, Permutation_middle.
Qed.

Lemma fold_push_map (f : nat -> entry) kf c ids : (forall x, In x ids -> fst (f x) = kf x) -> forall t,
  map (map f) (fold_left (push_id kf c) ids t) =
  fold_left (fun t e => push_front hash t c e) (map f ids) (map (map f) t).
Proof.
  induction ids as [|x r IH]; intros E t; cbn [fold_left map]; [reflexivity|].
  rewrite IH by (intros y Hy; apply E; right; exact Hy). f_equal.
  unfold push_id, push_front. rewrite (E x (or_introl eq_refl)).
  apply map_upd_nth. intros ch. reflexivity.
Qed.

(* the part of the memory described by the new table *)
Definition NT (h : heap) (nt : list (option nat)) (idn : list (list nat)) (c : nat) : Prop :=
  length nt = c /\ length idn = c /\ forall j, j < c -> lseg h (nth j nt None) (nth j idn []).

Lemma same_kv_upd_next h x n v : h x = Some n -> same_kv h (upd h x (Some (mk_pnode (n_key n) (n_val n) v))).
Proof.
  intros Hn z. destruct (Nat.eq_dec z x) as [->|Hz].
  - rewrite upd_same, Hn. cbn. split; reflexivity.
  - rewrite upd_other by exact Hz. destruct (h z); auto.
Qed.

(* for(size_t i = 0; i < new_capacity; i++) new_table[i] = nullptr; *)
Lemma rehash_init_spec ntid c : ntid <> 0 -> forall n i fuel nt,
  i + n = c -> n <= fuel -> length nt = c -> (forall j, j < i -> nth j nt None = None) ->
  exists nt', rehash_init fuel ntid nt c i = POk nt' /\ length nt' = c /\ forall j, j < c -> nth j nt' None = None.
Proof.
  intros Ht. induction n as [|n IH]; intros i fuel nt Hi Hf L Hnone.
  - exists nt. assert (i = c) by lia. subst i.
    split; [|split; [exact L|exact Hnone]].
    destruct fuel; cbn [rehash_init]; rewrite Nat.ltb_irrefl; reflexivity.
  - destruct fuel as [|fuel]; [lia|]. cbn [rehash_init].
    destruct (Nat.ltb_spec i c) as [Hic|]; [|lia].
    rewrite wr_tab_ok by (try exact Ht; lia). cbn [bind].
    apply IH; [lia|lia|rewrite upd_nth_length; exact L|].
    intros j Hj. destruct (Nat.eq_dec j i) as [->|Hne].
    + rewrite nth_upd_nth_same by lia. reflexivity.
    + rewrite nth_upd_nth_other by lia. apply Hnone. lia.
Qed.

(* while(item != nullptr) { bucket; next = item->next; item->next = new_table[bucket]; new_table[bucket] = item; item = next; } *)
Lemma rehash_chain_spec kf c ntid : 0 < c -> ntid <> 0 -> forall ids fuel h nt idn item,
  lseg h item ids -> NoDup ids -> (forall z, In z ids -> ~ In z (concat idn)) ->
  NT h nt idn c -> (forall z, fst (ent h z) = kf z) -> length ids <= fuel ->
  exists h' nt', rehash_chain hash fuel h ntid nt c item = POk (h', nt') /\
    NT h' nt' (fold_left (push_id kf c) ids idn) c /\
    same_kv h h' /\ (forall z, ~ In z ids -> h' z = h z).
Proof.
  intros Hc Ht. induction ids as [|x r IH]; intros fuel h nt idn item L ND D HNT Hkf Hf; cbn [lseg] in L.
  - subst item. exists h, nt. split; [destruct fuel; reflexivity|]. split; [exact HNT|].
    split; [apply same_kv_refl|reflexivity].
  - destruct L as (-> & n & Hn & L). destruct fuel as [|fuel]; cbn [length] in Hf; [lia|].
    inversion ND as [|? ? Hxr NDr]; subst.
    destruct HNT as (Lnt & Lidn & Hch).
    assert (Ek : n_key n = kf x) by (rewrite <- Hkf; unfold ent; rewrite Hn; reflexivity).
    set (b := bucket_of hash c (kf x)).
    assert (Hb : b < c) by (apply bucket_lt; exact Hc).
    set (hd := nth b nt None).
    set (h1 := upd h x (Some (mk_pnode (n_key n) (n_val n) hd))).
    set (nt1 := upd_nth nt b (fun _ => Some x)).
    assert (Estep : rehash_chain hash (S fuel) h ntid nt c (Some x) = rehash_chain hash fuel h1 ntid nt1 c (n_next n)).
    { cbn [rehash_chain rd_node]. rewrite Hn. cbn [bind]. unfold bucket_rehash.
      rewrite bucket_size_t_ok by exact Hc. cbn [bind]. rewrite Ek. fold b.
      rewrite rd_tab_ok by (try exact Ht; lia). cbn [bind]. fold hd.
      cbn [wr_next]. rewrite Hn. cbn [bind]. fold h1.
      rewrite wr_tab_ok by (try exact Ht; lia). cbn [bind]. reflexivity. }
    assert (Hx_idn : ~ In x (concat idn)) by (apply D; left; reflexivity).
    assert (SK1 : same_kv h h1) by (apply same_kv_upd_next; exact Hn).
    assert (F1 : forall z, z <> x -> h1 z = h z) by (intros z Hz; unfold h1; apply upd_other; exact Hz).
    destruct (IH fuel h1 nt1 (push_id kf c idn x) (n_next n)) as (h' & nt' & E' & HNT' & SK' & F').
    + apply (lseg_ext h); [|exact L]. intros z Hz. apply F1. intros ->. contradiction.
    + exact NDr.
    + intros z Hz Hin.
      assert (Hp : In z (x :: concat idn)).
      { eapply Permutation_in; [apply push_id_perm; [exact Hc|exact Lidn]|exact Hin]. }
      destruct Hp as [<-|Hp]; [contradiction|]. apply (D z); [right; exact Hz|exact Hp].
    + split; [unfold nt1; rewrite upd_nth_length; exact Lnt|].
      split; [rewrite push_id_length; exact Lidn|].
      intros j Hj. unfold nt1, push_id. fold b. destruct (Nat.eq_dec j b) as [->|Hne].
      * rewrite !nth_upd_nth_same by lia. cbn [lseg]. split; [reflexivity|].
        eexists. split; [unfold h1; apply upd_same|]. cbn [n_next].
        apply (lseg_ext h); [|apply Hch; exact Hb].
        intros z Hz. apply F1. intros ->. apply Hx_idn. eapply in_nth_concat; exact Hz.
      * rewrite !nth_upd_nth_other by lia.
        apply (lseg_ext h); [|apply Hch; exact Hj].
        intros z Hz. apply F1. intros ->. apply Hx_idn. eapply in_nth_concat; exact Hz.
    + intros z. rewrite (same_kv_ent h h1 z SK1). apply Hkf.
    + lia.
    + exists h', nt'. split; [rewrite Estep; exact E'|]. split; [exact HNT'|].
      split; [eapply same_kv_trans; eassumption|].
      intros z Hz. rewrite F' by (intros Hin; apply Hz; right; exact Hin).
      apply F1. intros ->. apply Hz. left; reflexivity.
Qed.

(* for(size_t i = 0; i < _capacity; i++) { chain *item = _table[i]; while ... } *)
Lemma rehash_buckets_spec kf c ntid otid ot cap idt fuel0 :
  0 < c -> ntid <> 0 -> (0 < cap -> otid <> 0) -> length ot = cap -> length idt = cap ->
  (forall j, length (nth j idt []) <= fuel0) ->
  forall n i fuel h nt idn, i + n = cap -> n <= fuel ->
  (forall j, i <= j < cap -> lseg h (nth j ot None) (nth j idt [])) ->
  NoDup (concat (skipn i idt)) -> (forall z, In z (concat (skipn i idt)) -> ~ In z (concat idn)) ->
  NT h nt idn c -> (forall z, fst (ent h z) = kf z) ->
  exists h' nt', rehash_buckets hash fuel0 fuel h otid ot cap ntid nt c i = POk (h', nt') /\
    NT h' nt' (fold_left (push_id kf c) (concat (skipn i idt)) idn) c /\
    same_kv h h' /\ (forall z, ~ In z (concat (skipn i idt)) -> h' z = h z).
Proof.
  intros Hc Ht Hot Lot Lidt Hf0. induction n as [|n IH]; intros i fuel h nt idn Hi Hf Hch ND D HNT Hkf.
  - assert (i = cap) by lia. subst i. rewrite skipn_all_nil by lia. cbn [concat fold_left].
    exists h, nt. split; [destruct fuel; cbn [rehash_buckets]; rewrite Nat.ltb_irrefl; reflexivity|].
    split; [exact HNT|]. split; [apply same_kv_refl|reflexivity].
  - destruct fuel as [|fuel]; [lia|]. cbn [rehash_buckets].
    destruct (Nat.ltb_spec i cap) as [Hic|]; [|lia].
    rewrite rd_tab_ok by (try (apply Hot; lia); lia). cbn [bind].
    rewrite (skipn_nth_cons idt i []) in * by lia. cbn [concat] in *.
    set (ids := nth i idt []) in *. set (rest := concat (skipn (S i) idt)) in *.
    destruct (rehash_chain_spec kf c ntid Hc Ht ids fuel0 h nt idn (nth i ot None)) as (h1 & nt1 & E1 & HNT1 & SK1 & F1).
    + apply Hch. lia.
    + eapply NoDup_app_l; exact ND.
    + intros z Hz. apply D. apply in_or_app. left; exact Hz.
    + exact HNT.
    + exact Hkf.
    + apply Hf0.
    + rewrite E1. cbn [bind fst snd].
      destruct HNT as (Lnt & Lidn & _).
      destruct (IH (S i) fuel h1 nt1 (fold_left (push_id kf c) ids idn)) as (h' & nt' & E' & HNT' & SK' & F').
      * lia.
      * lia.
      * intros j Hj. apply (lseg_ext h); [|apply Hch; lia].
        intros z Hz. apply F1. intros Hin. apply (NoDup_app_disj _ _ z ND Hin).
        unfold rest. apply in_concat_nth. exists (j - S i). rewrite skipn_length.
        split; [lia|]. rewrite nth_skipn_add. replace (S i + (j - S i)) with j by lia. exact Hz.
      * eapply NoDup_app_r; exact ND.
      * intros z Hz Hin.
        assert (Hp : In z (ids ++ concat idn)).
        { eapply Permutation_in; [apply fold_push_id_perm; [exact Hc|exact Lidn]|exact Hin]. }
        apply in_app_or in Hp. destruct Hp as [Hp|Hp].
        -- exact (NoDup_app_disj _ _ z ND Hp Hz).
        -- apply (D z); [apply in_or_app; right; exact Hz|exact Hp].
      * exact HNT1.
      * intros z. rewrite (same_kv_ent h h1 z SK1). apply Hkf.
      * exists h', nt'. split; [exact E'|]. rewrite fold_left_app.
        split; [exact HNT'|]. split; [eapply same_kv_trans; eassumption|].
        intros z Hz. rewrite F' by (intros Hin; apply Hz; apply in_or_app; right; exact Hin).
        apply F1. intros Hin. apply Hz. apply in_or_app. left; exact Hin.
Qed.

Definition rehash_evs_p (s : pstate) : list ev :=
  EAlloc (p_next s) (psz * N.of_nat (Nat.max 10 (2 * p_size s)))%N ::
  (if Nat.eqb (p_tid s) 0 then [] else [EDealloc (p_tid s) (psz * N.of_nat (p_cap s))%N]).

(* rehash(): the new state represents exactly rehash of the chain-level model *)
Lemma p_rehash_spec fuel s idt : Rep s idt -> fuel_for s <= fuel ->
  exists s' idt', p_rehash hash psz fuel s = POk (s', rehash_evs_p s) /\ Rep s' idt' /\
    same_kv (p_nodes s) (p_nodes s') /\
    p_size s' = p_size s /\ p_cap s' = Nat.max 10 (2 * p_size s) /\ p_next s' = S (p_next s) /\
    (forall z, In z (concat idt') <-> In z (concat idt)) /\
    absI (p_nodes s') idt' (p_size s') = rehash hash (absI (p_nodes s) idt (p_size s)).
Proof.
  intros R Hf. unfold fuel_for in Hf.
  set (c := Nat.max 10 (2 * p_size s)).
  assert (Ec : (if Nat.ltb (2 * p_size s) 10 then 10 else 2 * p_size s) = c).
  { unfold c. destruct (Nat.ltb_spec (2 * p_size s) 10); lia. }
  assert (Hc : 0 < c) by (unfold c; lia).
  assert (Hnt : p_next s <> 0) by (pose proof (rep_tid s idt R); lia).
  set (kf := fun z => fst (ent (p_nodes s) z)).
  destruct (rehash_init_spec (p_next s) c Hnt c 0 fuel (repeat poison c)) as (nt0 & E0 & L0 & N0);
    [lia|unfold c; lia|apply repeat_length|intros j Hj; lia|].
  destruct (rehash_buckets_spec kf c (p_next s) (p_tid s) (p_table s) (p_cap s) idt fuel Hc Hnt) with
    (n := p_cap s) (i := 0) (fuel := fuel) (h := p_nodes s) (nt := nt0) (idn := repeat (@nil nat) c)
    as (h' & nt' & E' & HNT' & SK' & F').
  - intros Hcap. eapply Rep_tid_pos; eassumption.
  - apply (rep_len_t s idt R).
  - apply (rep_len_i s idt R).
  - intros j. pose proof (Rep_chain_len s idt j R). lia.
  - lia.
  - lia.
  - intros j Hj. apply (rep_chain s idt R). lia.
  - cbn [skipn]. apply (rep_nodup s idt R).
  - intros z _. rewrite concat_repeat_nil. intros [].
  - split; [exact L0|]. split; [apply repeat_length|].
    intros j Hj. rewrite N0 by exact Hj. rewrite nth_repeat_nil. reflexivity.
  - intros z. reflexivity.
  - cbn [skipn] in *.
    set (idt' := fold_left (push_id kf c) (concat idt) (repeat [] c)) in *.
    assert (P : Permutation (concat idt') (concat idt)).
    { unfold idt'. eapply Permutation_trans; [apply fold_push_id_perm; [exact Hc|apply repeat_length]|].
      rewrite concat_repeat_nil, app_nil_r. apply Permutation_refl. }
    exists (mk_pstate h' nt' (p_next s) c (p_size s) (S (p_next s))), idt'.
    split.
    { unfold p_rehash. cbv zeta. rewrite Ec. rewrite E0. cbn [bind]. rewrite E'. cbn [bind fst snd].
      unfold rehash_evs_p. fold c. reflexivity. }
    destruct HNT' as (Lnt' & Lidt' & Hch').
    split.
    { split; cbn [p_table p_cap p_nodes p_size p_next p_tid].
      - exact Lnt'.
      - exact Lidt'.
      - exact Hch'.
      - eapply Permutation_NoDup; [apply Permutation_sym, P|apply (rep_nodup s idt R)].
      - rewrite (Permutation_length P). apply (rep_size s idt R).
      - intros z Hz. pose proof (rep_ids s idt R z (Permutation_in _ P Hz)). lia.
      - intros z Hz. apply (Permutation_in _ (Permutation_sym P)). apply (rep_noleak s idt R).
        intros E. apply Hz. apply (same_kv_none _ _ z SK'). exact E.
      - lia.
      - split; intros; lia. }
    split; [exact SK'|]. cbn [p_size p_cap p_next p_nodes].
    split; [reflexivity|]. split; [reflexivity|]. split; [reflexivity|].
    split.
    { intros z. split; intros H; [apply (Permutation_in _ P H)|apply (Permutation_in _ (Permutation_sym P) H)]. }
    unfold absI, rehash, new_cap. cbn [size table]. fold c. f_equal.
    rewrite (map_ext (map (ent h')) (map (ent (p_nodes s))))
      by (intros l; apply map_ext; intros z; apply same_kv_ent; exact SK').
    unfold idt'. rewrite (fold_push_map (ent (p_nodes s)) kf c) by reflexivity.
    rewrite concat_map, map_repeat_eq. reflexivity.
Qed.

End Rehash.
