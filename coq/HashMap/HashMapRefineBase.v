(* Refinement of the pointer-level hash_map model (HashMapPtr.v) to the chain-level model (HashMapModel.v):
   vocabulary (list segments in the heap, the representation invariant with its ghost table of id chains),
   frame lemmas, the abstraction function under the invariant, bucket computations, the chain search loop. *)
From Coq Require Import List NArith Arith Bool Lia Permutation.
From FV Require Import Common.EventLog HashMap.HashMapModel HashMap.HashMapProofs HashMap.HashMapPtr.
Import ListNotations.

(* ---------- generic list facts ---------- *)

Lemma skipn_nth_cons {A} (l : list A) i d : i < length l -> skipn i l = nth i l d :: skipn (S i) l.
Proof.
  revert i; induction l as [|a l IH]; intros [|i] H; cbn [length] in *; try lia.
  - reflexivity.
  - cbn [skipn nth]. rewrite (IH i) by lia. reflexivity.
Qed.

Lemma skipn_all_nil {A} (l : list A) i : length l <= i -> skipn i l = [].
Proof. revert i; induction l as [|a l IH]; intros [|i] H; cbn [length skipn] in *; try lia; auto. apply IH; lia. Qed.

Lemma nth_skipn_add {A} (l : list A) i j d : nth j (skipn i l) d = nth (i + j) l d.
Proof.
  revert i; induction l as [|a l IH]; intros [|i]; cbn [skipn plus nth]; try reflexivity.
  - destruct j; reflexivity.
  - apply IH.
Qed.

Lemma map_repeat_eq {A B} (f : A -> B) x n : map f (repeat x n) = repeat (f x) n.
Proof. induction n as [|n IH]; cbn [repeat map]; [reflexivity|]. rewrite IH. reflexivity. Qed.

Lemma map_upd_nth {A B} (g : A -> B) (F : A -> A) (F' : B -> B) t b :
  (forall c, g (F c) = F' (g c)) -> map g (upd_nth t b F) = upd_nth (map g t) b F'.
Proof.
  intros H. revert b; induction t as [|c t IH]; intros [|b]; cbn [upd_nth map]; try reflexivity.
  - rewrite H. reflexivity.
  - rewrite IH. reflexivity.
Qed.

Lemma upd_nth_ge {A} (t : list A) b F : length t <= b -> upd_nth t b F = t.
Proof. revert b; induction t as [|c t IH]; intros [|b] H; cbn [upd_nth length] in *; try lia; auto. rewrite IH by lia. reflexivity. Qed.

Lemma in_nth_concat {A} (t : list (list A)) i x : In x (nth i t []) -> In x (concat t).
Proof.
  intros H. destruct (Nat.lt_ge_cases i (length t)) as [Hi|Hi].
  - apply in_concat_nth. exists i. split; assumption.
  - rewrite nth_overflow in H by exact Hi. destruct H.
Qed.

Lemma concat_nodup_nth {A} (t : list (list A)) i j x :
  NoDup (concat t) -> In x (nth i t []) -> In x (nth j t []) -> i = j.
Proof.
  revert i j; induction t as [|c t IH]; intros i j ND Hi Hj.
  - destruct i; destruct Hi.
  - cbn [concat] in ND. destruct i as [|i], j as [|j]; cbn [nth] in *.
    + reflexivity.
    + exfalso. apply (NoDup_app_disj _ _ x ND Hi). eapply in_nth_concat; exact Hj.
    + exfalso. apply (NoDup_app_disj _ _ x ND Hj). eapply in_nth_concat; exact Hi.
    + f_equal. apply IH; [eapply NoDup_app_r; exact ND|exact Hi|exact Hj].
Qed.

Lemma concat_nodup_nth_nodup {A} (t : list (list A)) i : NoDup (concat t) -> NoDup (nth i t []).
Proof.
  revert i; induction t as [|c t IH]; intros i ND.
  - destruct i; constructor.
  - cbn [concat] in ND. destruct i as [|i]; cbn [nth].
    + eapply NoDup_app_l; exact ND.
    + apply IH. eapply NoDup_app_r; exact ND.
Qed.

Lemma nth_map_nil {A B} (f : A -> B) (t : list (list A)) i : nth i (map (map f) t) [] = map f (nth i t []).
Proof. change (@nil B) with (map f []). apply map_nth. Qed.

Lemma NoDup_app_intro {A} (l1 l2 : list A) :
  NoDup l1 -> NoDup l2 -> (forall x, In x l1 -> ~ In x l2) -> NoDup (l1 ++ l2).
Proof.
  induction l1 as [|a l1 IH]; intros N1 N2 D; cbn [app]; [exact N2|].
  inversion N1 as [|? ? Ha N1']; subst. constructor.
  - rewrite in_app_iff. intros [H|H]; [exact (Ha H)|]. exact (D a (or_introl eq_refl) H).
  - apply IH; [exact N1'|exact N2|]. intros x Hx. apply D. right; exact Hx.
Qed.

(* ---------- point updates ---------- *)

Lemma upd_same {V} (f : nat -> V) i v : upd f i v i = v.
Proof. unfold upd. rewrite Nat.eqb_refl. reflexivity. Qed.

Lemma upd_other {V} (f : nat -> V) i v j : j <> i -> upd f i v j = f j.
Proof. intros H. unfold upd. destruct (Nat.eqb_spec j i); [contradiction|reflexivity]. Qed.

(* ---------- the heap read as chains ---------- *)

Definition ent (h : heap) (x : nat) : entry :=
  match h x with Some n => (n_key n, n_val n) | None => (0%N, 0%N) end.

(* from pointer p the next fields lead through exactly the nodes ids (all allocated) to nullptr *)
Fixpoint lseg (h : heap) (p : option nat) (ids : list nat) : Prop :=
  match ids with
  | [] => p = None
  | x :: r => p = Some x /\ exists n, h x = Some n /\ lseg h (n_next n) r
  end.

(* same keys, values and allocation status; next fields may differ *)
Definition same_kv (h h' : heap) : Prop :=
  forall z, match h z, h' z with
            | Some a, Some b => n_key a = n_key b /\ n_val a = n_val b
            | None, None => True
            | _, _ => False
            end.

Lemma same_kv_refl h : same_kv h h.
Proof. intros z. destruct (h z); auto. Qed.

Lemma same_kv_trans h1 h2 h3 : same_kv h1 h2 -> same_kv h2 h3 -> same_kv h1 h3.
Proof.
  intros A B z. specialize (A z). specialize (B z).
  destruct (h1 z), (h2 z), (h3 z); try tauto. destruct A, B. split; congruence.
Qed.

Lemma same_kv_ent h h' z : same_kv h h' -> ent h' z = ent h z.
Proof. intros A. specialize (A z). unfold ent. destruct (h z), (h' z); try tauto. destruct A as [-> ->]. reflexivity. Qed.

Lemma same_kv_none h h' z : same_kv h h' -> (h' z = None <-> h z = None).
Proof. intros A. specialize (A z). destruct (h z), (h' z); try tauto; split; discriminate. Qed.

Lemma lseg_ext h h' p ids : (forall z, In z ids -> h' z = h z) -> lseg h p ids -> lseg h' p ids.
Proof.
  revert p; induction ids as [|x r IH]; intros p E L; cbn [lseg] in *; [exact L|].
  destruct L as (-> & n & Hn & L). split; [reflexivity|]. exists n. split.
  - rewrite E by (left; reflexivity). exact Hn.
  - apply IH; [|exact L]. intros z Hz. apply E. right; exact Hz.
Qed.

(* updates that keep every next field of the nodes on the segment *)
Lemma lseg_same_next h h' p ids :
  (forall z n, In z ids -> h z = Some n -> exists n', h' z = Some n' /\ n_next n' = n_next n) ->
  lseg h p ids -> lseg h' p ids.
Proof.
  revert p; induction ids as [|x r IH]; intros p E L; cbn [lseg] in *; [exact L|].
  destruct L as (-> & n & Hn & L). split; [reflexivity|].
  destruct (E x n (or_introl eq_refl) Hn) as (n' & Hn' & En). exists n'. split; [exact Hn'|].
  rewrite En. apply IH; [|exact L]. intros z m Hz. apply E. right; exact Hz.
Qed.

Lemma lseg_head h x ids : lseg h (Some x) ids -> exists r, ids = x :: r.
Proof. destruct ids as [|y r]; cbn [lseg]; [discriminate|]. intros ([= ->] & _). exists r. reflexivity. Qed.

Lemma lseg_null h ids : lseg h None ids -> ids = [].
Proof. destruct ids as [|y r]; cbn [lseg]; [reflexivity|]. intros (H & _). discriminate. Qed.

Lemma lseg_nil_iff h p ids : lseg h p ids -> (p = None <-> ids = []).
Proof.
  intros L. split.
  - intros ->. eapply lseg_null; exact L.
  - intros ->. exact L.
Qed.

Lemma lseg_alloc h p ids z : lseg h p ids -> In z ids -> exists n, h z = Some n.
Proof.
  revert p; induction ids as [|x r IH]; intros p L Hz; [destruct Hz|].
  cbn [lseg] in L. destruct L as (_ & n & Hn & L). destruct Hz as [<-|Hz]; [exists n; exact Hn|].
  eapply IH; eassumption.
Qed.

Lemma walk_lseg h p ids fuel : lseg h p ids -> length ids <= fuel -> walk fuel h p = map (ent h) ids.
Proof.
  revert p fuel; induction ids as [|x r IH]; intros p fuel L Hf; cbn [lseg] in L.
  - subst p. destruct fuel; reflexivity.
  - destruct L as (-> & n & Hn & L). destruct fuel as [|fuel]; cbn [length] in Hf; [lia|].
    cbn [walk map]. unfold ent at 1. rewrite Hn. f_equal. apply IH; [exact L|lia].
Qed.

(* ---------- first node with key k on a chain ---------- *)

Fixpoint ids_find (h : heap) (k : N) (ids : list nat) : option nat :=
  match ids with
  | [] => None
  | y :: r => if N.eqb (fst (ent h y)) k then Some y else ids_find h k r
  end.

Fixpoint ids_remove (h : heap) (k : N) (ids : list nat) : list nat :=
  match ids with
  | [] => []
  | y :: r => if N.eqb (fst (ent h y)) k then r else y :: ids_remove h k r
  end.

Lemma chain_find_ids h k ids :
  chain_find k (map (ent h) ids) = option_map (fun y => snd (ent h y)) (ids_find h k ids).
Proof.
  induction ids as [|y r IH]; cbn [map chain_find ids_find option_map]; [reflexivity|].
  destruct (ent h y) as [ky vy] eqn:E. cbn [fst]. destruct (N.eqb ky k).
  - cbn [option_map]. rewrite E. reflexivity.
  - exact IH.
Qed.

Lemma chain_remove_ids h k ids : chain_remove k (map (ent h) ids) = map (ent h) (ids_remove h k ids).
Proof.
  induction ids as [|y r IH]; cbn [map chain_remove ids_remove]; [reflexivity|].
  destruct (ent h y) as [ky vy] eqn:E. cbn [fst]. destruct (N.eqb ky k); [reflexivity|].
  cbn [map]. rewrite E, IH. reflexivity.
Qed.

Lemma ids_find_in h k ids x : ids_find h k ids = Some x -> In x ids /\ fst (ent h x) = k.
Proof.
  induction ids as [|y r IH]; cbn [ids_find]; [discriminate|].
  destruct (N.eqb_spec (fst (ent h y)) k) as [E|_].
  - intros [= <-]. split; [left; reflexivity|exact E].
  - intros H. destruct (IH H) as [H1 H2]. split; [right; exact H1|exact H2].
Qed.

Lemma ids_find_none_remove h k ids : ids_find h k ids = None -> ids_remove h k ids = ids.
Proof.
  induction ids as [|y r IH]; cbn [ids_find ids_remove]; [reflexivity|].
  destruct (N.eqb (fst (ent h y)) k); [discriminate|]. intros H. rewrite IH by exact H. reflexivity.
Qed.

Lemma ids_remove_perm h k ids x : ids_find h k ids = Some x -> Permutation ids (x :: ids_remove h k ids).
Proof.
  induction ids as [|y r IH]; cbn [ids_find ids_remove]; [discriminate|].
  destruct (N.eqb (fst (ent h y)) k).
  - intros [= <-]. apply Permutation_refl.
  - intros H. eapply Permutation_trans; [apply perm_skip, IH, H|]. apply perm_swap.
Qed.

Lemma ids_remove_incl h k ids z : In z (ids_remove h k ids) -> In z ids.
Proof.
  induction ids as [|y r IH]; cbn [ids_remove]; [tauto|].
  destruct (N.eqb (fst (ent h y)) k); [intros H; right; exact H|].
  intros [<-|H]; [left; reflexivity|right; apply IH; exact H].
Qed.

Lemma ids_find_ext h h' k ids : (forall z, In z ids -> fst (ent h' z) = fst (ent h z)) ->
  ids_find h' k ids = ids_find h k ids.
Proof.
  induction ids as [|y r IH]; intros E; cbn [ids_find]; [reflexivity|].
  rewrite E by (left; reflexivity). rewrite IH; [reflexivity|]. intros z Hz. apply E. right; exact Hz.
Qed.

(* ---------- representation invariant (ghost: the table of id chains) ---------- *)

Record Rep (s : pstate) (idt : list (list nat)) : Prop := {
  rep_len_t : length (p_table s) = p_cap s;
  rep_len_i : length idt = p_cap s;
  rep_chain : forall j, j < p_cap s -> lseg (p_nodes s) (nth j (p_table s) None) (nth j idt []);
  rep_nodup : NoDup (concat idt);                               (* chains acyclic and pairwise disjoint *)
  rep_size : p_size s = length (concat idt);                    (* _size = number of reachable nodes *)
  rep_ids : forall z, In z (concat idt) -> 0 < z < p_next s;    (* reachable ids were handed out by the allocator *)
  rep_noleak : forall z, p_nodes s z <> None -> In z (concat idt);   (* every allocated node is reachable *)
  rep_tid : p_tid s < p_next s;
  rep_tid0 : p_cap s = 0 <-> p_tid s = 0                        (* _table == nullptr exactly while _capacity == 0 *)
}.

Definition p_inv (s : pstate) : Prop := exists idt, Rep s idt.

Definition absI (h : heap) (idt : list (list nat)) (sz : nat) : hm := mk_hm (map (map (ent h)) idt) sz.

Lemma Rep_init : Rep p_init [].
Proof.
  split; cbn; try reflexivity; try lia; try tauto.
  all: try constructor; try (intros z H; congruence).
Qed.

Lemma Rep_chain_len s idt j : Rep s idt -> length (nth j idt []) <= p_size s.
Proof.
  intros R. rewrite (rep_size s idt R).
  destruct (Nat.lt_ge_cases j (length idt)) as [Hj|Hj].
  - rewrite (concat_split idt j Hj), !app_length. lia.
  - rewrite nth_overflow by exact Hj. cbn. lia.
Qed.

Lemma abs_rep s idt : Rep s idt -> abs s = absI (p_nodes s) idt (p_size s).
Proof.
  intros R. unfold abs, absI. f_equal.
  apply (nth_ext _ _ [] []).
  - rewrite !map_length. rewrite (rep_len_t s idt R), (rep_len_i s idt R). reflexivity.
  - intros j Hj. rewrite map_length, (rep_len_t s idt R) in Hj.
    rewrite nth_map_nil.
    rewrite (nth_indep _ [] (walk (S (p_size s)) (p_nodes s) None))
      by (rewrite map_length, (rep_len_t s idt R); exact Hj).
    rewrite map_nth. apply walk_lseg; [apply (rep_chain s idt R); exact Hj|].
    pose proof (Rep_chain_len s idt j R). lia.
Qed.

Lemma Rep_cap_pos s idt : Rep s idt -> p_size s <> 0 -> 0 < p_cap s.
Proof.
  intros R Hs. rewrite (rep_size s idt R) in Hs. rewrite <- (rep_len_i s idt R).
  destruct idt; [cbn in Hs; congruence|cbn; lia].
Qed.

Lemma Rep_tid_pos s idt : Rep s idt -> 0 < p_cap s -> p_tid s <> 0.
Proof. intros R Hc E. apply (rep_tid0 s idt R) in E. lia. Qed.

Lemma abs_cap s idt : Rep s idt -> cap (abs s) = p_cap s.
Proof. intros R. rewrite (abs_rep s idt R). unfold cap, absI. cbn [table]. rewrite map_length. apply (rep_len_i s idt R). Qed.

(* ---------- table reads and writes ---------- *)

Lemma rd_tab_ok tid t i : tid <> 0 -> i < length t -> rd_tab tid t i = POk (nth i t None).
Proof.
  intros Ht Hi. unfold rd_tab. destruct (Nat.eqb_spec tid 0); [contradiction|].
  rewrite (nth_error_nth' t None Hi). reflexivity.
Qed.

Lemma wr_tab_ok tid t i v : tid <> 0 -> i < length t -> wr_tab tid t i v = POk (upd_nth t i (fun _ => v)).
Proof.
  intros Ht Hi. unfold wr_tab. destruct (Nat.eqb_spec tid 0); [contradiction|].
  destruct (Nat.ltb_spec i (length t)); [reflexivity|lia].
Qed.

(* ---------- bucket computations ---------- *)

Lemma u32_mod_small x c : (c <> 0)%N -> u32 (u32 x mod c) = (u32 x mod c)%N.
Proof.
  intros Hc. unfold u32. apply N.mod_small.
  assert (x mod 4294967296 < 4294967296)%N by (apply N.mod_upper_bound; discriminate).
  pose proof (N.mod_le (x mod 4294967296) c Hc). lia.
Qed.

Lemma bucket_uint_ok hash k c : 0 < c -> bucket_uint hash k c = POk (bucket_of hash c k).
Proof.
  intros Hc. unfold bucket_uint, mod_cap. destruct (Nat.eqb_spec c 0); [lia|]. cbn [bind].
  rewrite u32_mod_small by lia. reflexivity.
Qed.

Lemma bucket_size_t_ok hash k c : 0 < c -> bucket_size_t hash k c = POk (bucket_of hash c k).
Proof. intros Hc. unfold bucket_size_t, mod_cap. destruct (Nat.eqb_spec c 0); [lia|]. reflexivity. Qed.

(* ---------- the search loop of find / operator[] / get ---------- *)

Lemma chain_search_spec h k ids : forall fuel item,
  lseg h item ids -> length ids <= fuel ->
  chain_search fuel h k item = POk (ids_find h k ids).
Proof.
  induction ids as [|y r IH]; intros fuel item L Hf; cbn [lseg] in L.
  - subst item. destruct fuel; reflexivity.
  - destruct L as (-> & n & Hn & L). destruct fuel as [|fuel]; cbn [length] in Hf; [lia|].
    cbn [chain_search rd_node ids_find]. rewrite Hn. cbn [bind]. unfold ent. rewrite Hn. cbn [fst].
    destruct (N.eqb (n_key n) k); [reflexivity|]. apply IH; [exact L|lia].
Qed.
