From FV Require Import Common.ExtractTypes Common.EventLog HashMap.HashMapModel HashMap.HashMapLog HashMap.HashMapPtr.
From Coq Require Extraction.
From Coq Require Import ExtrOcamlBasic.
Extraction "../build/extract/hashmap_model.ml" types_witness empty_hm step run empty_lhm lstep destructor_evs
  p_init p_step p_destroy fuel_for abs p_rehash.
