From FV Require Import Common.ExtractTypes HashMap.HashMapModel.
From Coq Require Extraction.
From Coq Require Import ExtrOcamlBasic.
Extraction "../build/extract/hashmap_model.ml" types_witness empty_hm step run.
