(* Refinement, part 3: insert, operator[] (+ the assignment through the returned reference), get / find. *)
From Coq Require Import List NArith Arith Bool Lia Permutation.
From FV Require Import Common.EventLog HashMap.HashMapModel HashMap.HashMapProofs HashMap.HashMapPtr
  HashMap.HashMapRefineBase HashMap.HashMapRefineRehash.
Import ListNotations.

Lemma map_map_ent_ext h h' (idt : list (list nat)) :
  (forall z, In z (concat idt) -> ent h' z = ent h z) -> map (map (ent h')) idt = map (map (ent h)) idt.
Proof.
  intros E. apply map_ext_in. intros l Hl. apply map_ext_in. intros z Hz. apply E.
  apply in_concat. exists l. split; assumption.
Qed.

Lemma concat_upd_perm {A} (t : list (list A)) b (F : list A -> list A) x :
  b < length t -> Permutation (nth b t []) (x :: F (nth b t [])) ->
  Permutation (concat t) (x :: concat (upd_nth t b F)).
Proof.
  intros Hb P. rewrite (concat_split t b Hb), (concat_upd_split t b F Hb).
  eapply Permutation_trans; [apply Permutation_app_head, Permutation_app_tail, P|].
  cbn [app]. apply Permutation_sym, Permutation_middle.
Qed.

(* the chain-level effect of linking one new entry at the head of its bucket *)
Definition push_hm (hash : N -> N) (m : hm) (k v : N) : hm :=
  mk_hm (push_front hash (table m) (cap m) (k, v)) (S (size m)).

Section Ops.
Variable hash : N -> N.
Variables psz nsz : N.

(* ---------- chain-level unfoldings ---------- *)

Lemma insert_unfold k v m : insert hash k v m = push_hm hash (grow_if_full hash m) k v.
Proof. reflexivity. Qed.

Lemma index_set_empty k v m : size m = 0 ->
  index_set hash k v m = (push_hm hash (rehash hash m) k v, None).
Proof. intros E. unfold index_set, push_hm. rewrite E. cbn [rehash size]. rewrite E. reflexivity. Qed.

Lemma index_set_hit k v m old : size m <> 0 ->
  chain_find k (nth (bucket_of hash (cap m) k) (table m) []) = Some old ->
  index_set hash k v m = (mk_hm (upd_nth (table m) (bucket_of hash (cap m) k) (chain_set k v)) (size m), Some old).
Proof. intros Hs E. unfold index_set. destruct (size m); [congruence|]. rewrite E. reflexivity. Qed.

Lemma index_set_miss k v m : size m <> 0 ->
  chain_find k (nth (bucket_of hash (cap m) k) (table m) []) = None ->
  index_set hash k v m = (push_hm hash (grow_if_full hash m) k v, None).
Proof. intros Hs E. unfold index_set. destruct (size m); [congruence|]. rewrite E. reflexivity. Qed.

Lemma remove_empty k m : size m = 0 -> remove hash k m = (m, None).
Proof. intros E. unfold remove. rewrite E. reflexivity. Qed.

Lemma remove_hit k m v : size m <> 0 ->
  chain_find k (nth (bucket_of hash (cap m) k) (table m) []) = Some v ->
  remove hash k m = (mk_hm (upd_nth (table m) (bucket_of hash (cap m) k) (chain_remove k)) (pred (size m)), Some v).
Proof. intros Hs E. unfold remove. destruct (size m); [congruence|]. rewrite E. reflexivity. Qed.

Lemma remove_miss k m : size m <> 0 ->
  chain_find k (nth (bucket_of hash (cap m) k) (table m) []) = None -> remove hash k m = (m, None).
Proof. intros Hs E. unfold remove. destruct (size m); [congruence|]. rewrite E. reflexivity. Qed.

Lemma absI_cap h idt sz : cap (absI h idt sz) = length idt.
Proof. unfold cap, absI. cbn [table]. apply map_length. Qed.

Lemma absI_chain_find h idt sz k b :
  chain_find k (nth b (table (absI h idt sz)) []) = option_map (fun y => snd (ent h y)) (ids_find h k (nth b idt [])).
Proof. unfold absI. cbn [table]. rewrite nth_map_nil. apply chain_find_ids. Qed.

(* ---------- linking a new node ---------- *)

Definition Linked (s : pstate) (b : nat) (k v : N) (s' : pstate) : Prop :=
  p_nodes s' (p_next s) = Some (mk_pnode k v (nth b (p_table s) None)) /\
  (forall z, z <> p_next s -> p_nodes s' z = p_nodes s z) /\
  p_table s' = upd_nth (p_table s) b (fun _ => Some (p_next s)) /\
  p_tid s' = p_tid s /\ p_cap s' = p_cap s /\ p_size s' = S (p_size s) /\ p_next s' = S (p_next s).

Lemma link_new_ok s idt b k v : Rep s idt -> b < p_cap s ->
  exists s', link_new nsz s b k v = POk (s', p_next s, [EAlloc (p_next s) nsz; EConstruct (vobj (p_next s))]) /\
             Linked s b k v s'.
Proof.
  intros R Hb. unfold link_new.
  assert (Ht : p_tid s <> 0) by (eapply Rep_tid_pos; [exact R|lia]).
  assert (Hl : b < length (p_table s)) by (rewrite (rep_len_t s idt R); exact Hb).
  rewrite rd_tab_ok by assumption. cbn [bind wr_next]. rewrite upd_same. cbn [bind n_key n_val].
  rewrite wr_tab_ok by assumption. cbn [bind].
  eexists. split; [reflexivity|].
  unfold Linked. cbn [p_nodes p_table p_tid p_cap p_size p_next].
  split; [apply upd_same|]. split; [|repeat split; reflexivity].
  intros z Hz. rewrite !upd_other by exact Hz. reflexivity.
Qed.

Lemma Linked_Rep s idt b k v s' : Rep s idt -> b < p_cap s -> Linked s b k v s' ->
  Rep s' (upd_nth idt b (fun ch => p_next s :: ch)) /\
  absI (p_nodes s') (upd_nth idt b (fun ch => p_next s :: ch)) (p_size s') =
    mk_hm (upd_nth (table (absI (p_nodes s) idt (p_size s))) b (fun ch => (k, v) :: ch)) (S (p_size s)).
Proof.
  intros R Hb (Hitem & Hframe & Htab & Htid & Hcap & Hsize & Hnext).
  set (item := p_next s) in *.
  set (idt' := upd_nth idt b (fun ch => item :: ch)).
  assert (Hfresh : ~ In item (concat idt)).
  { intros H. pose proof (rep_ids s idt R item H). unfold item in *. lia. }
  assert (Hbi : b < length idt) by (rewrite (rep_len_i s idt R); exact Hb).
  assert (P : Permutation (concat idt') (item :: concat idt)) by (apply concat_upd_nth_cons; exact Hbi).
  assert (Hold : forall z, In z (concat idt) -> p_nodes s' z = p_nodes s z).
  { intros z Hz. apply Hframe. intros ->. contradiction. }
  split.
  - split.
    + rewrite Htab, upd_nth_length, Hcap. apply (rep_len_t s idt R).
    + unfold idt'. rewrite upd_nth_length, Hcap. apply (rep_len_i s idt R).
    + rewrite Hcap. intros j Hj. rewrite Htab. unfold idt'.
      assert (Hjl : j < length (p_table s)) by (rewrite (rep_len_t s idt R); exact Hj).
      destruct (Nat.eq_dec j b) as [->|Hne].
      * rewrite !nth_upd_nth_same by assumption. cbn [lseg]. split; [reflexivity|].
        eexists. split; [exact Hitem|]. cbn [n_next].
        apply (lseg_ext (p_nodes s)); [|apply (rep_chain s idt R); exact Hb].
        intros z Hz. apply Hold. eapply in_nth_concat; exact Hz.
      * rewrite !nth_upd_nth_other by lia.
        apply (lseg_ext (p_nodes s)); [|apply (rep_chain s idt R); exact Hj].
        intros z Hz. apply Hold. eapply in_nth_concat; exact Hz.
    + eapply Permutation_NoDup; [apply Permutation_sym, P|]. constructor; [exact Hfresh|apply (rep_nodup s idt R)].
    + rewrite Hsize, (Permutation_length P). cbn [length]. rewrite (rep_size s idt R). reflexivity.
    + intros z Hz. rewrite Hnext. apply (Permutation_in _ P) in Hz. destruct Hz as [<-|Hz].
      * pose proof (rep_tid s idt R). unfold item. lia.
      * pose proof (rep_ids s idt R z Hz). lia.
    + intros z Hz. apply (Permutation_in _ (Permutation_sym P)).
      destruct (Nat.eq_dec z item) as [->|Hne]; [left; reflexivity|right].
      apply (rep_noleak s idt R). rewrite <- (Hframe z Hne). exact Hz.
    + rewrite Htid, Hnext. pose proof (rep_tid s idt R). lia.
    + rewrite Hcap, Htid. apply (rep_tid0 s idt R).
  - unfold absI. cbn [table]. rewrite Hsize. f_equal. unfold idt'.
    rewrite (map_upd_nth (map (ent (p_nodes s'))) (fun ch => item :: ch) (fun ch => (k, v) :: ch)).
    + f_equal. apply map_map_ent_ext. intros z Hz. unfold ent. rewrite (Hold z Hz). reflexivity.
    + intros ch. cbn [map]. f_equal. unfold ent. rewrite Hitem. reflexivity.
Qed.

(* link_new into the bucket of k for the current capacity = push_hm of the chain-level model *)
Lemma link_step s idt k v : Rep s idt -> 0 < p_cap s ->
  exists s', link_new nsz s (bucket_of hash (p_cap s) k) k v =
               POk (s', p_next s, [EAlloc (p_next s) nsz; EConstruct (vobj (p_next s))]) /\
             Linked s (bucket_of hash (p_cap s) k) k v s'.
Proof. intros R Hc. apply (link_new_ok s idt); [exact R|apply bucket_lt; exact Hc]. Qed.

Lemma Linked_push s idt k v s' : Rep s idt -> 0 < p_cap s ->
  Linked s (bucket_of hash (p_cap s) k) k v s' ->
  exists idt', Rep s' idt' /\
    absI (p_nodes s') idt' (p_size s') = push_hm hash (absI (p_nodes s) idt (p_size s)) k v.
Proof.
  intros R Hc HL.
  destruct (Linked_Rep s idt _ k v s' R (bucket_lt hash (p_cap s) k Hc) HL) as (R' & E').
  eexists. split; [exact R'|]. rewrite E'. unfold push_hm, push_front.
  rewrite absI_cap, (rep_len_i s idt R). reflexivity.
Qed.

(* the optional rehash() of insert and of the miss path of operator[] *)
Lemma grow_cases fuel s idt : Rep s idt -> fuel_for s <= fuel ->
  (Nat.leb (p_cap s) (p_size s) = true /\
   exists s1 idt1, p_rehash hash psz fuel s = POk (s1, rehash_evs_p psz s) /\ Rep s1 idt1 /\ 0 < p_cap s1 /\
     p_size s1 = p_size s /\
     absI (p_nodes s1) idt1 (p_size s1) = grow_if_full hash (absI (p_nodes s) idt (p_size s))) \/
  (Nat.leb (p_cap s) (p_size s) = false /\ 0 < p_cap s /\
   absI (p_nodes s) idt (p_size s) = grow_if_full hash (absI (p_nodes s) idt (p_size s))).
Proof.
  intros R Hf. unfold grow_if_full. rewrite absI_cap, (rep_len_i s idt R). cbn [size absI].
  destruct (Nat.leb_spec (p_cap s) (p_size s)) as [Hle|Hgt].
  - left. split; [reflexivity|].
    destruct (p_rehash_spec hash psz fuel s idt R Hf) as (s1 & idt1 & E & R1 & _ & Hs & Hc & _ & _ & EA).
    exists s1, idt1. split; [exact E|]. split; [exact R1|]. split; [lia|]. split; [exact Hs|exact EA].
  - right. split; [reflexivity|]. split; [lia|reflexivity].
Qed.

(* ---------- insert ---------- *)

Lemma p_insert_spec fuel s idt k v : Rep s idt -> fuel_for s <= fuel ->
  exists s' idt' evs, p_insert hash psz nsz fuel s k v = POk (s', evs) /\ Rep s' idt' /\
    absI (p_nodes s') idt' (p_size s') = insert hash k v (absI (p_nodes s) idt (p_size s)).
Proof.
  intros R Hf. rewrite insert_unfold. unfold p_insert.
  destruct (grow_cases fuel s idt R Hf) as [(El & s1 & idt1 & E1 & R1 & Hc1 & _ & EA)|(El & Hc & EA)]; rewrite El.
  - rewrite E1. cbn [bind fst snd].
    destruct (Nat.ltb_spec 0 (p_cap s1)); [|lia]. cbn [frg_assert].
    unfold bucket_insert. rewrite bucket_uint_ok by exact Hc1. cbn [bind].
    destruct (link_step s1 idt1 k v R1 Hc1) as (s2 & E2 & HL). rewrite E2. cbn [bind fst snd].
    destruct (Linked_push s1 idt1 k v s2 R1 Hc1 HL) as (idt2 & R2 & EA2).
    eexists s2, idt2, _. split; [reflexivity|]. split; [exact R2|]. rewrite EA2, EA. reflexivity.
  - cbn [bind fst snd].
    destruct (Nat.ltb_spec 0 (p_cap s)); [|lia]. cbn [frg_assert].
    unfold bucket_insert. rewrite bucket_uint_ok by exact Hc. cbn [bind].
    destruct (link_step s idt k v R Hc) as (s2 & E2 & HL). rewrite E2. cbn [bind fst snd].
    destruct (Linked_push s idt k v s2 R Hc HL) as (idt2 & R2 & EA2).
    eexists s2, idt2, _. split; [reflexivity|]. split; [exact R2|]. rewrite EA2, <- EA. reflexivity.
Qed.

(* ---------- assignment through the reference returned by operator[] ---------- *)

Lemma map_ent_set (f : nat -> entry) h k v ids x :
  NoDup ids -> ids_find h k ids = Some x ->
  f x = (fst (ent h x), v) -> (forall z, z <> x -> f z = ent h z) ->
  map f ids = chain_set k v (map (ent h) ids).
Proof.
  intros ND Hx Efx Efo. induction ids as [|y r IH]; cbn [ids_find] in Hx; [discriminate|].
  inversion ND as [|? ? Hyr NDr]; subst. cbn [map chain_set].
  destruct (ent h y) as [ky vy] eqn:Ey. cbn [fst] in Hx.
  destruct (N.eqb_spec ky k) as [->|Hne].
  - injection Hx as <-. rewrite Efx, Ey. cbn [fst]. f_equal.
    apply map_ext_in. intros z Hz. apply Efo. intros ->. contradiction.
  - destruct (ids_find_in h k r x Hx) as [Hin Hk].
    rewrite Efo by (intros ->; rewrite Ey in Hk; cbn in Hk; congruence).
    rewrite Ey. f_equal. apply IH; assumption.
Qed.

Lemma set_val_Rep s idt b x v n : Rep s idt -> b < p_cap s -> In x (nth b idt []) -> p_nodes s x = Some n ->
  let h' := upd (p_nodes s) x (Some (mk_pnode (n_key n) v (n_next n))) in
  Rep (set_nodes s h') idt /\
  forall k, ids_find (p_nodes s) k (nth b idt []) = Some x ->
    absI h' idt (p_size s) =
    mk_hm (upd_nth (table (absI (p_nodes s) idt (p_size s))) b (chain_set k v)) (p_size s).
Proof.
  intros R Hb Hx Hn h'.
  assert (Hsame : forall z m, p_nodes s z = Some m -> exists m', h' z = Some m' /\ n_next m' = n_next m).
  { intros z m Hm. unfold h'. destruct (Nat.eq_dec z x) as [->|Hne].
    - rewrite upd_same. eexists. split; [reflexivity|]. cbn [n_next]. congruence.
    - rewrite upd_other by exact Hne. exists m. split; [exact Hm|reflexivity]. }
  split.
  - split; cbn [set_nodes p_nodes p_table p_cap p_size p_next p_tid].
    + apply (rep_len_t s idt R).
    + apply (rep_len_i s idt R).
    + intros j Hj. apply (lseg_same_next (p_nodes s)); [|apply (rep_chain s idt R); exact Hj].
      intros z m _ Hm. apply Hsame. exact Hm.
    + apply (rep_nodup s idt R).
    + apply (rep_size s idt R).
    + apply (rep_ids s idt R).
    + intros z Hz. apply (rep_noleak s idt R). intros E. apply Hz. unfold h'.
      destruct (Nat.eq_dec z x) as [->|Hne]; [congruence|]. rewrite upd_other by exact Hne. exact E.
    + apply (rep_tid s idt R).
    + apply (rep_tid0 s idt R).
  - intros k Hfind. unfold absI. cbn [table]. f_equal.
    assert (Hbi : b < length idt) by (rewrite (rep_len_i s idt R); exact Hb).
    apply (nth_ext _ _ [] []).
    + rewrite upd_nth_length, !map_length. reflexivity.
    + intros j Hj. rewrite map_length in Hj. rewrite nth_map_nil.
      destruct (Nat.eq_dec j b) as [->|Hne].
      * rewrite nth_upd_nth_same by (rewrite map_length; exact Hbi). rewrite nth_map_nil.
        apply map_ent_set with (x := x).
        -- apply concat_nodup_nth_nodup. apply (rep_nodup s idt R).
        -- exact Hfind.
        -- unfold ent, h'. rewrite upd_same, Hn. reflexivity.
        -- intros z Hz. unfold ent, h'. rewrite upd_other by exact Hz. reflexivity.
      * rewrite nth_upd_nth_other by lia. rewrite nth_map_nil.
        apply map_ext_in. intros z Hz. unfold ent, h'. rewrite upd_other; [reflexivity|].
        intros ->. apply Hne. eapply concat_nodup_nth; [apply (rep_nodup s idt R)|exact Hz|exact Hx].
Qed.

(* ---------- operator[] ---------- *)

(* what the call did: found the node, or linked a new one with value 0 after the rehash()es of the source *)
Inductive index_result (s : pstate) (idt : list (list nat)) (k : N) (s' : pstate) (item : nat) : Prop :=
| ir_hit :
    p_size s <> 0 -> s' = s ->
    ids_find (p_nodes s) k (nth (bucket_of hash (p_cap s) k) idt []) = Some item ->
    index_result s idt k s' item
| ir_new s1 idt1 :
    Rep s1 idt1 -> 0 < p_cap s1 -> p_size s1 = p_size s -> item = p_next s1 ->
    Linked s1 (bucket_of hash (p_cap s1) k) k 0 s' ->
    (forall v, push_hm hash (absI (p_nodes s1) idt1 (p_size s1)) k v =
               fst (index_set hash k v (absI (p_nodes s) idt (p_size s)))) ->
    (forall v, snd (index_set hash k v (absI (p_nodes s) idt (p_size s))) = None) ->
    index_result s idt k s' item.

Lemma p_index_spec fuel s idt k : Rep s idt -> fuel_for s <= fuel ->
  exists s' item evs, p_index hash psz nsz fuel s k = POk (s', item, evs) /\ index_result s idt k s' item.
Proof.
  intros R Hf. unfold p_index.
  set (m := absI (p_nodes s) idt (p_size s)).
  destruct (Nat.eqb_spec (p_size s) 0) as [Hz|Hnz].
  - (* empty map case *)
    destruct (p_rehash_spec hash psz fuel s idt R Hf) as (s1 & idt1 & E1 & R1 & _ & Hs1 & Hc1 & _ & _ & EA1).
    rewrite E1. cbn [bind fst snd].
    assert (Hcp : 0 < p_cap s1) by lia.
    unfold bucket_index_empty. rewrite bucket_uint_ok by exact Hcp. cbn [bind].
    destruct (link_step s1 idt1 k 0 R1 Hcp) as (s2 & E2 & HL). rewrite E2. cbn [bind fst snd].
    pose proof HL as (Hitem & _ & Htab & Htid & Hcap & _ & _).
    unfold bucket_index. rewrite Hcap. rewrite bucket_uint_ok by exact Hcp. cbn [bind].
    set (b := bucket_of hash (p_cap s1) k) in *.
    assert (Hb : b < p_cap s1) by (apply bucket_lt; exact Hcp).
    rewrite rd_tab_ok.
    2:{ rewrite Htid. eapply Rep_tid_pos; eassumption. }
    2:{ rewrite Htab, upd_nth_length, (rep_len_t s1 idt1 R1). exact Hb. }
    rewrite Htab, nth_upd_nth_same by (rewrite (rep_len_t s1 idt1 R1); exact Hb). cbn [bind].
    destruct fuel as [|fuel]; [unfold fuel_for in Hf; lia|].
    cbn [chain_search rd_node]. rewrite Hitem. cbn [bind n_key]. rewrite N.eqb_refl. cbn [bind].
    eexists s2, (p_next s1), _. split; [reflexivity|].
    apply (ir_new s idt k s2 (p_next s1) s1 idt1); try assumption; try reflexivity.
    + intros v. fold m. rewrite index_set_empty by exact Hz. cbn [fst]. rewrite EA1. reflexivity.
    + intros v. fold m. rewrite index_set_empty by exact Hz. reflexivity.
  - cbn [bind fst snd].
    assert (Hcp : 0 < p_cap s) by (eapply Rep_cap_pos; eassumption).
    unfold bucket_index. rewrite bucket_uint_ok by exact Hcp. cbn [bind].
    set (b := bucket_of hash (p_cap s) k) in *.
    assert (Hb : b < p_cap s) by (apply bucket_lt; exact Hcp).
    rewrite rd_tab_ok by (try (eapply Rep_tid_pos; eassumption); rewrite (rep_len_t s idt R); exact Hb).
    cbn [bind].
    rewrite (chain_search_spec (p_nodes s) k (nth b idt [])).
    2:{ apply (rep_chain s idt R). exact Hb. }
    2:{ pose proof (Rep_chain_len s idt b R). unfold fuel_for in Hf. lia. }
    cbn [bind].
    assert (Ecf : chain_find k (nth (bucket_of hash (cap m) k) (table m) []) =
                  option_map (fun y => snd (ent (p_nodes s) y)) (ids_find (p_nodes s) k (nth b idt []))).
    { unfold m. rewrite absI_cap, (rep_len_i s idt R). fold b. apply absI_chain_find. }
    destruct (ids_find (p_nodes s) k (nth b idt [])) as [item|] eqn:Efind.
    + eexists s, item, _. split; [reflexivity|]. apply ir_hit; [exact Hnz|reflexivity|exact Efind].
    + cbn [option_map] in Ecf.
      assert (Hms : size m <> 0) by (unfold m; cbn [absI size]; exact Hnz).
      destruct (grow_cases fuel s idt R Hf) as [(El & s1 & idt1 & E1 & R1 & Hc1 & Hs1 & EA)|(El & Hc & EA)]; rewrite El.
      * rewrite E1. cbn [bind fst snd]. unfold bucket_index_rehashed.
        rewrite bucket_uint_ok by exact Hc1. cbn [bind fst snd].
        destruct (link_step s1 idt1 k 0 R1 Hc1) as (s2 & E2 & HL). rewrite E2. cbn [bind fst snd].
        eexists s2, (p_next s1), _. split; [reflexivity|].
        apply (ir_new s idt k s2 (p_next s1) s1 idt1); try assumption; try reflexivity.
        -- intros v. fold m. rewrite (index_set_miss k v m Hms Ecf). cbn [fst]. rewrite EA. reflexivity.
        -- intros v. fold m. rewrite (index_set_miss k v m Hms Ecf). reflexivity.
      * cbn [bind fst snd].
        destruct (link_step s idt k 0 R Hc) as (s2 & E2 & HL). fold b in E2. rewrite E2. cbn [bind fst snd].
        eexists s2, (p_next s), _. split; [reflexivity|].
        apply (ir_new s idt k s2 (p_next s) s idt); try assumption; try reflexivity.
        -- intros v. fold m. fold m in EA. rewrite (index_set_miss k v m Hms Ecf). cbn [fst]. rewrite <- EA. reflexivity.
        -- intros v. fold m. rewrite (index_set_miss k v m Hms Ecf). reflexivity.
Qed.

(* the script statement  m[k] = v  *)
Lemma p_indexset_spec fuel s idt k v : Rep s idt -> fuel_for s <= fuel ->
  exists s' idt' evs,
    p_step hash psz nsz fuel s (IndexSet k v) =
      POk (s', OVal (snd (index_set hash k v (absI (p_nodes s) idt (p_size s)))), evs) /\
    Rep s' idt' /\
    absI (p_nodes s') idt' (p_size s') = fst (index_set hash k v (absI (p_nodes s) idt (p_size s))).
Proof.
  intros R Hf. cbn [p_step].
  destruct (p_index_spec fuel s idt k R Hf) as (s1 & item & evs & E & HR). rewrite E. cbn [bind fst snd].
  set (m := absI (p_nodes s) idt (p_size s)).
  destruct HR as [Hnz -> Hfind | s0 idt0 R0 Hc0 Hs0 -> HL Hfst Hsnd].
  - (* hit *)
    set (b := bucket_of hash (p_cap s) k) in *.
    assert (Hcp : 0 < p_cap s) by (eapply Rep_cap_pos; eassumption).
    assert (Hb : b < p_cap s) by (apply bucket_lt; exact Hcp).
    destruct (ids_find_in _ _ _ _ Hfind) as [Hin Hk].
    destruct (lseg_alloc _ _ _ item (rep_chain s idt R b Hb) Hin) as (n & Hn).
    cbn [rd_node wr_val]. rewrite Hn. cbn [bind]. rewrite Nat.eqb_refl.
    destruct (set_val_Rep s idt b item v n R Hb Hin Hn) as (R' & EA).
    eexists _, idt, _. split; [|split; [exact R'|]].
    + f_equal. f_equal. f_equal. f_equal.
      assert (Ecf : chain_find k (nth (bucket_of hash (cap m) k) (table m) []) = Some (n_val n)).
      { unfold m. rewrite absI_cap, (rep_len_i s idt R). fold b. rewrite absI_chain_find, Hfind. cbn [option_map].
        unfold ent. rewrite Hn. reflexivity. }
      fold m. rewrite (index_set_hit k v m (n_val n)); [reflexivity| |exact Ecf].
      unfold m. cbn [absI size]. exact Hnz.
    + cbn [set_nodes p_nodes p_size]. rewrite (EA k Hfind).
      assert (Ecf : chain_find k (nth (bucket_of hash (cap m) k) (table m) []) = Some (n_val n)).
      { unfold m. rewrite absI_cap, (rep_len_i s idt R). fold b. rewrite absI_chain_find, Hfind. cbn [option_map].
        unfold ent. rewrite Hn. reflexivity. }
      fold m. rewrite (index_set_hit k v m (n_val n)); [|unfold m; cbn [absI size]; exact Hnz|exact Ecf].
      cbn [fst]. unfold m at 2 3. rewrite absI_cap, (rep_len_i s idt R). reflexivity.
  - (* a node was created with value 0; the assignment stores v *)
    pose proof HL as (Hitem & Hframe & Htab & Htid & Hcap & Hsize & Hnext).
    cbn [rd_node wr_val]. rewrite Hitem. cbn [bind n_key n_val n_next].
    assert (Hne : Nat.eqb (p_size s1) (p_size s) = false).
    { apply Nat.eqb_neq. lia. }
    rewrite Hne.
    set (s2 := set_nodes s1 (upd (p_nodes s1) (p_next s0)
                 (Some (mk_pnode k v (nth (bucket_of hash (p_cap s0) k) (p_table s0) None))))).
    assert (HL2 : Linked s0 (bucket_of hash (p_cap s0) k) k v s2).
    { unfold Linked, s2. cbn [set_nodes p_nodes p_table p_tid p_cap p_size p_next].
      split; [apply upd_same|]. split; [|repeat split; assumption].
      intros z Hz. rewrite upd_other by exact Hz. apply Hframe. exact Hz. }
    destruct (Linked_push s0 idt0 k v s2 R0 Hc0 HL2) as (idt2 & R2 & EA2).
    exists s2, idt2. eexists. split; [|split; [exact R2|]].
    + unfold m. rewrite (Hsnd v). reflexivity.
    + rewrite EA2. unfold m. apply Hfst.
Qed.

(* ---------- get / find ---------- *)

Lemma p_get_spec fuel s idt k : Rep s idt -> fuel_for s <= fuel ->
  exists p, p_get hash fuel s k = POk p /\
    p_find hash fuel s k = POk (match p with Some _ => (bucket_of hash (p_cap s) k, p) | None => p_end s end) /\
    val_of (p_nodes s) p = POk (get hash k (absI (p_nodes s) idt (p_size s))) /\
    match p with
    | Some x => p_size s <> 0 /\ ids_find (p_nodes s) k (nth (bucket_of hash (p_cap s) k) idt []) = Some x
    | None => True
    end.
Proof.
  intros R Hf. unfold p_get, p_find, get. cbn [absI size].
  destruct (Nat.eqb_spec (p_size s) 0) as [Hz|Hnz].
  - exists None. rewrite Hz. repeat split; reflexivity.
  - assert (Hcp : 0 < p_cap s) by (eapply Rep_cap_pos; eassumption).
    unfold bucket_get, bucket_find. rewrite bucket_uint_ok by exact Hcp. cbn [bind].
    set (b := bucket_of hash (p_cap s) k) in *.
    assert (Hb : b < p_cap s) by (apply bucket_lt; exact Hcp).
    rewrite rd_tab_ok by (try (eapply Rep_tid_pos; eassumption); rewrite (rep_len_t s idt R); exact Hb).
    cbn [bind].
    rewrite (chain_search_spec (p_nodes s) k (nth b idt [])).
    2:{ apply (rep_chain s idt R). exact Hb. }
    2:{ pose proof (Rep_chain_len s idt b R). unfold fuel_for in Hf. lia. }
    cbn [bind].
    destruct (p_size s) as [|sz] eqn:Es; [congruence|].
    change (map (map (ent (p_nodes s))) idt) with (table (absI (p_nodes s) idt (S sz))).
    rewrite absI_cap, (rep_len_i s idt R). fold b. rewrite absI_chain_find.
    destruct (ids_find (p_nodes s) k (nth b idt [])) as [x|] eqn:Efind.
    + exists (Some x). split; [reflexivity|]. split; [reflexivity|].
      destruct (ids_find_in _ _ _ _ Efind) as [Hin _].
      destruct (lseg_alloc _ _ _ x (rep_chain s idt R b Hb) Hin) as (n & Hn).
      cbn [val_of rd_node option_map]. rewrite Hn. cbn [bind]. unfold ent. rewrite Hn.
      split; [reflexivity|]. split; [discriminate|reflexivity].
    + exists None. repeat split; reflexivity.
Qed.

End Ops.
