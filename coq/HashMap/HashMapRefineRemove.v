(* Refinement, part 4: remove (the `previous` bookkeeping and the unlink), the iterator (begin / operator++ /
   the harness's iteration statement), the destructor. *)
From Coq Require Import List NArith Arith Bool Lia Permutation.
From FV Require Import Common.EventLog HashMap.HashMapModel HashMap.HashMapProofs HashMap.HashMapPtr
  HashMap.HashMapRefineBase HashMap.HashMapRefineRehash HashMap.HashMapRefineOps.
Import ListNotations.

Section Remove.
Variable hash : N -> N.
Variables psz nsz : N.

(* where the pointer to the current item is stored: _table[bucket] (previous == nullptr) or previous->next *)
Definition holds (s : pstate) (bucket : nat) (previous item : option nat) : Prop :=
  match previous with
  | None => p_tid s <> 0 /\ bucket < length (p_table s) /\ nth bucket (p_table s) None = item
  | Some pv => exists npv, p_nodes s pv = Some npv /\ n_next npv = item
  end.

Definition same_kv_except (x : nat) (h h' : heap) : Prop :=
  forall z, z <> x ->
    match h z, h' z with
    | Some a, Some b => n_key a = n_key b /\ n_val a = n_val b
    | None, None => True
    | _, _ => False
    end.

Record removed (s : pstate) (bucket : nat) (k : N) (previous : option nat) (ids : list nat) (x : nat) (s' : pstate)
  : Prop := {
  rm_gone : p_nodes s' x = None;
  rm_kv : same_kv_except x (p_nodes s) (p_nodes s');
  rm_frame : forall z, ~ In z ids -> previous <> Some z -> p_nodes s' z = p_nodes s z;
  rm_chain : exists item', holds s' bucket previous item' /\
                           lseg (p_nodes s') item' (ids_remove (p_nodes s) k ids);
  rm_tlen : length (p_table s') = length (p_table s);
  rm_tother : forall j, j <> bucket -> nth j (p_table s') None = nth j (p_table s) None;
  rm_tsame : previous <> None -> p_table s' = p_table s;
  rm_size : p_size s' = pred (p_size s);
  rm_cap : p_cap s' = p_cap s;
  rm_tid : p_tid s' = p_tid s;
  rm_next : p_next s' = p_next s
}.

Lemma remove_loop_spec bucket k : forall ids fuel s previous item,
  lseg (p_nodes s) item ids -> NoDup ids -> (forall pv, previous = Some pv -> ~ In pv ids) ->
  holds s bucket previous item -> length ids <= fuel ->
  match ids_find (p_nodes s) k ids with
  | None => remove_loop nsz fuel s bucket k previous item = POk (s, None, [])
  | Some x =>
    exists s', remove_loop nsz fuel s bucket k previous item =
                 POk (s', Some (snd (ent (p_nodes s) x)), [EUse (vobj x); EDestroy (vobj x); EDealloc x nsz]) /\
               removed s bucket k previous ids x s'
  end.
Proof.
  induction ids as [|y r IH]; intros fuel s previous item L ND Hpv Hh Hf; cbn [lseg] in L.
  - subst item. cbn [ids_find]. destruct fuel; reflexivity.
  - destruct L as (-> & n & Hn & L). destruct fuel as [|fuel]; cbn [length] in Hf; [lia|].
    inversion ND as [|? ? Hyr NDr]; subst.
    cbn [ids_find remove_loop rd_node]. rewrite Hn. cbn [bind].
    assert (Ey : ent (p_nodes s) y = (n_key n, n_val n)) by (unfold ent; rewrite Hn; reflexivity).
    rewrite Ey. cbn [fst].
    destruct (N.eqb (n_key n) k) eqn:Ek.
    + (* found: unlink through the location that holds the pointer to item *)
      destruct previous as [pv|].
      * destruct Hh as (npv & Hnpv & Hnext).
        assert (Hpvy : pv <> y) by (intros ->; apply (Hpv y eq_refl); left; reflexivity).
        cbn [wr_next]. rewrite Hnpv. cbn [bind].
        eexists. split; [rewrite Ey; reflexivity|].
        split; unfold same_kv_except; cbn [set_size set_nodes set_table p_nodes p_table p_tid p_cap p_size p_next]; try reflexivity.
        -- apply upd_same.
        -- intros z Hz. rewrite upd_other by exact Hz.
           destruct (Nat.eq_dec z pv) as [->|Hzp].
           ++ rewrite upd_same, Hnpv. cbn. split; reflexivity.
           ++ rewrite upd_other by exact Hzp. destruct (p_nodes s z); auto.
        -- intros z Hz Hzp. rewrite !upd_other; [reflexivity| |].
           ++ intros ->. apply Hzp. reflexivity.
           ++ intros ->. apply Hz. left; reflexivity.
        -- exists (n_next n). split.
           ++ cbn [holds set_size set_nodes set_table p_nodes]. eexists. split; [rewrite upd_other by exact Hpvy; apply upd_same|reflexivity].
           ++ cbn [ids_remove]. rewrite Ey. cbn [fst]. rewrite Ek.
              apply (lseg_ext (p_nodes s)); [|exact L].
              intros z Hz. rewrite !upd_other; [reflexivity| |].
              ** intros ->. apply (Hpv pv eq_refl). right; exact Hz.
              ** intros ->. contradiction.
      * destruct Hh as (Ht & Hbl & Hnth).
        rewrite wr_tab_ok by assumption. cbn [bind].
        eexists. split; [rewrite Ey; reflexivity|].
        split; unfold same_kv_except; cbn [set_size set_nodes set_table p_nodes p_table p_tid p_cap p_size p_next]; try reflexivity.
        -- apply upd_same.
        -- intros z Hz. rewrite upd_other by exact Hz. destruct (p_nodes s z); auto.
        -- intros z Hz _. rewrite upd_other; [reflexivity|]. intros ->. apply Hz. left; reflexivity.
        -- exists (n_next n). split.
           ++ cbn [holds set_size set_nodes set_table p_tid p_table]. split; [exact Ht|]. split; [rewrite upd_nth_length; exact Hbl|].
              rewrite nth_upd_nth_same by exact Hbl. reflexivity.
           ++ cbn [ids_remove]. rewrite Ey. cbn [fst]. rewrite Ek.
              apply (lseg_ext (p_nodes s)); [|exact L].
              intros z Hz. rewrite upd_other; [reflexivity|]. intros ->. contradiction.
        -- apply upd_nth_length.
        -- intros j Hj. rewrite nth_upd_nth_other by lia. reflexivity.
        -- intros H. contradiction.
    + (* previous = item; item = item->next *)
      specialize (IH fuel s (Some y) (n_next n) L NDr).
      assert (Hy : forall pv, Some y = Some pv -> ~ In pv r) by (intros pv [= <-]; exact Hyr).
      assert (Hh' : holds s bucket (Some y) (n_next n)) by (exists n; split; [exact Hn|reflexivity]).
      specialize (IH Hy Hh' ltac:(lia)).
      destruct (ids_find (p_nodes s) k r) as [x|] eqn:Efind; [|exact IH].
      destruct IH as (s' & E' & HR). exists s'. split; [exact E'|].
      destruct (ids_find_in _ _ _ _ Efind) as [Hxr _].
      destruct HR as [Hgone Hkv Hframe (item' & Hhold' & Lseg') Htlen Htother Htsame Hsize Hcap Htid Hnext].
      assert (Htab : p_table s' = p_table s) by (apply Htsame; discriminate).
      split; try assumption.
      * intros z Hz Hzp. apply Hframe.
        -- intros Hin. apply Hz. right; exact Hin.
        -- intros [= ->]. apply Hz. left; reflexivity.
      * exists (Some y). split.
        -- destruct previous as [pv|]; cbn [holds] in *.
           ++ destruct Hh as (npv & Hnpv & Hnx). exists npv. split; [|exact Hnx].
              rewrite Hframe; [exact Hnpv| |].
              ** intros Hin. apply (Hpv pv eq_refl). right; exact Hin.
              ** intros [= ->]. apply (Hpv pv eq_refl). left; reflexivity.
           ++ rewrite Htid, Htab. exact Hh.
        -- cbn [ids_remove]. rewrite Ey. cbn [fst]. rewrite Ek. cbn [lseg]. split; [reflexivity|].
           destruct Hhold' as (ny' & Hny' & Hnx'). exists ny'. split; [exact Hny'|]. rewrite Hnx'. exact Lseg'.
      * intros _. exact Htab.
Qed.

(* optional<Value> remove(const Key &key) *)
Lemma p_remove_spec fuel s idt k : Rep s idt -> fuel_for s <= fuel ->
  exists s' idt' evs,
    p_remove hash nsz fuel s k = POk (s', snd (remove hash k (absI (p_nodes s) idt (p_size s))), evs) /\
    Rep s' idt' /\
    absI (p_nodes s') idt' (p_size s') = fst (remove hash k (absI (p_nodes s) idt (p_size s))).
Proof.
  intros R Hf. unfold p_remove.
  set (m := absI (p_nodes s) idt (p_size s)).
  destruct (Nat.eqb_spec (p_size s) 0) as [Hz|Hnz].
  - rewrite (remove_empty hash k m) by (unfold m; cbn [absI size]; exact Hz).
    exists s, idt, []. split; [reflexivity|]. split; [exact R|reflexivity].
  - assert (Hcp : 0 < p_cap s) by (eapply Rep_cap_pos; eassumption).
    assert (Hms : size m <> 0) by (unfold m; cbn [absI size]; exact Hnz).
    unfold bucket_remove. rewrite bucket_uint_ok by exact Hcp. cbn [bind].
    set (b := bucket_of hash (p_cap s) k) in *.
    assert (Hb : b < p_cap s) by (apply bucket_lt; exact Hcp).
    assert (Ht : p_tid s <> 0) by (eapply Rep_tid_pos; eassumption).
    assert (Hbl : b < length (p_table s)) by (rewrite (rep_len_t s idt R); exact Hb).
    assert (Hbi : b < length idt) by (rewrite (rep_len_i s idt R); exact Hb).
    rewrite rd_tab_ok by assumption. cbn [bind].
    assert (Ecf : chain_find k (nth (bucket_of hash (cap m) k) (table m) []) =
                  option_map (fun y => snd (ent (p_nodes s) y)) (ids_find (p_nodes s) k (nth b idt []))).
    { unfold m. rewrite absI_cap, (rep_len_i s idt R). fold b. apply absI_chain_find. }
    pose proof (remove_loop_spec b k (nth b idt []) fuel s None (nth b (p_table s) None)) as Hloop.
    specialize (Hloop (rep_chain s idt R b Hb)).
    specialize (Hloop (concat_nodup_nth_nodup idt b (rep_nodup s idt R))).
    specialize (Hloop ltac:(intros pv; discriminate)).
    specialize (Hloop ltac:(cbn [holds]; repeat split; assumption)).
    specialize (Hloop ltac:(pose proof (Rep_chain_len s idt b R); unfold fuel_for in Hf; lia)).
    destruct (ids_find (p_nodes s) k (nth b idt [])) as [x|] eqn:Efind; cbn [option_map] in Ecf.
    + destruct Hloop as (s' & E' & HR).
      rewrite (remove_hit hash k m _ Hms Ecf). cbn [fst snd].
      destruct HR as [Hgone Hkv Hframe (item' & Hhold' & Lseg') Htlen Htother _ Hsize Hcap Htid Hnext].
      set (idt' := upd_nth idt b (ids_remove (p_nodes s) k)).
      assert (P : Permutation (concat idt) (x :: concat idt')).
      { apply concat_upd_perm; [exact Hbi|]. apply ids_remove_perm. exact Efind. }
      assert (NDx : NoDup (x :: concat idt')).
      { eapply Permutation_NoDup; [exact P|apply (rep_nodup s idt R)]. }
      inversion NDx as [|? ? Hx' ND']; subst.
      assert (Hent : forall z, In z (concat idt') -> ent (p_nodes s') z = ent (p_nodes s) z).
      { intros z Hz. assert (Hzx : z <> x) by (intros ->; contradiction).
        specialize (Hkv z Hzx). unfold ent.
        destruct (p_nodes s z), (p_nodes s' z); try tauto. destruct Hkv as [-> ->]. reflexivity. }
      exists s', idt'. eexists. split; [exact E'|]. split.
      * split.
        -- rewrite Htlen, Hcap. apply (rep_len_t s idt R).
        -- unfold idt'. rewrite upd_nth_length, Hcap. apply (rep_len_i s idt R).
        -- rewrite Hcap. intros j Hj. unfold idt'. destruct (Nat.eq_dec j b) as [->|Hne].
           ++ rewrite nth_upd_nth_same by exact Hbi.
              destruct Hhold' as (_ & _ & Hnth'). rewrite Hnth'. exact Lseg'.
           ++ rewrite nth_upd_nth_other by lia. rewrite Htother by exact Hne.
              apply (lseg_ext (p_nodes s)); [|apply (rep_chain s idt R); exact Hj].
              intros z Hz. apply Hframe; [|discriminate].
              intros Hin. apply Hne. eapply concat_nodup_nth; [apply (rep_nodup s idt R)|exact Hz|exact Hin].
        -- exact ND'.
        -- rewrite Hsize, (rep_size s idt R), (Permutation_length P). reflexivity.
        -- intros z Hz. rewrite Hnext. apply (rep_ids s idt R). apply (Permutation_in _ (Permutation_sym P)).
           right; exact Hz.
        -- intros z Hz. assert (Hzx : z <> x) by (intros ->; contradiction).
           assert (Hin : In z (concat idt)).
           { apply (rep_noleak s idt R). intros E. apply Hz. specialize (Hkv z Hzx). rewrite E in Hkv.
             destruct (p_nodes s' z); [destruct Hkv|reflexivity]. }
           apply (Permutation_in _ P) in Hin. destruct Hin as [->|Hin]; [contradiction|exact Hin].
        -- rewrite Htid, Hnext. apply (rep_tid s idt R).
        -- rewrite Hcap, Htid. apply (rep_tid0 s idt R).
      * unfold absI. rewrite Hsize. cbn [size]. f_equal.
        rewrite (map_map_ent_ext (p_nodes s) (p_nodes s') idt' Hent).
        unfold idt', m. cbn [absI table]. rewrite absI_cap, (rep_len_i s idt R). fold b.
        apply map_upd_nth. intros c. symmetry. apply chain_remove_ids.
    + rewrite Hloop. rewrite (remove_miss hash k m Hms Ecf).
      exists s, idt, []. split; [reflexivity|]. split; [exact R|reflexivity].
Qed.

(* ---------- iteration ---------- *)

Lemma chain_nil_iff s idt j : Rep s idt -> j < p_cap s -> (nth j (p_table s) None = None <-> nth j idt [] = []).
Proof. intros R Hj. apply (lseg_nil_iff (p_nodes s)). apply (rep_chain s idt R). exact Hj. Qed.

Lemma begin_loop_spec s idt : Rep s idt -> 0 < p_cap s -> forall n i fuel,
  i + n = p_cap s -> n <= fuel -> concat (skipn i idt) <> [] ->
  exists b x, begin_loop fuel s i = POk (b, Some x) /\ b < p_cap s /\
    nth b (p_table s) None = Some x /\ concat (skipn i idt) = concat (skipn b idt).
Proof.
  intros R Hcp. induction n as [|n IH]; intros i fuel Hi Hf Hne.
  - exfalso. apply Hne. rewrite skipn_all_nil by (rewrite (rep_len_i s idt R); lia). reflexivity.
  - destruct fuel as [|fuel]; [lia|]. cbn [begin_loop].
    destruct (Nat.ltb_spec i (p_cap s)) as [Hic|]; [|lia].
    rewrite rd_tab_ok by (try (eapply Rep_tid_pos; eassumption); rewrite (rep_len_t s idt R); exact Hic).
    cbn [bind].
    destruct (nth i (p_table s) None) as [x|] eqn:Ehd.
    + exists i, x. repeat split; assumption.
    + apply (chain_nil_iff s idt i R Hic) in Ehd.
      rewrite (skipn_nth_cons idt i []) in * by (rewrite (rep_len_i s idt R); exact Hic).
      cbn [concat] in *. rewrite Ehd in *. cbn [app] in *.
      apply IH; [lia|lia|exact Hne].
Qed.

Lemma incr_loop_spec s idt : Rep s idt -> forall n i fuel,
  S i + n = p_cap s -> n < fuel ->
  (incr_loop fuel s i None = POk (p_end s) /\ concat (skipn (S i) idt) = []) \/
  (exists b x, incr_loop fuel s i None = POk (b, Some x) /\ b < p_cap s /\
     nth b (p_table s) None = Some x /\ concat (skipn (S i) idt) = concat (skipn b idt)).
Proof.
  intros R. induction n as [|n IH]; intros i fuel Hi Hf.
  - destruct fuel as [|fuel]; [lia|]. cbn [incr_loop].
    destruct (Nat.eqb_spec (S i) (p_cap s)) as [E|]; [|lia].
    left. split; [unfold p_end; rewrite E; reflexivity|].
    rewrite skipn_all_nil by (rewrite (rep_len_i s idt R); lia). reflexivity.
  - destruct fuel as [|fuel]; [lia|]. cbn [incr_loop].
    destruct (Nat.eqb_spec (S i) (p_cap s)) as [E|_]; [lia|].
    assert (Hic : S i < p_cap s) by lia.
    assert (Hcp : 0 < p_cap s) by lia.
    rewrite rd_tab_ok by (try (eapply Rep_tid_pos; eassumption); rewrite (rep_len_t s idt R); exact Hic).
    cbn [bind].
    destruct (nth (S i) (p_table s) None) as [x|] eqn:Ehd.
    + right. exists (S i), x. repeat split; assumption.
    + apply (chain_nil_iff s idt (S i) R Hic) in Ehd.
      rewrite (skipn_nth_cons idt (S i) []) by (rewrite (rep_len_i s idt R); exact Hic).
      cbn [concat]. rewrite Ehd. cbn [app].
      apply IH; lia.
Qed.

Definition use_evs (ids : list nat) : list ev := map (fun x => EUse (vobj x)) ids.

(* iterator at (b, x): x and the rest of its chain, then all later buckets *)
Lemma iter_loop_spec s idt fuel0 : Rep s idt -> p_cap s < fuel0 -> forall n fuel b x post,
  b < p_cap s -> lseg (p_nodes s) (Some x) (x :: post) ->
  length (x :: post ++ concat (skipn (S b) idt)) = n -> n <= fuel ->
  iter_loop fuel0 fuel s (b, Some x) =
    POk (map (ent (p_nodes s)) (x :: post ++ concat (skipn (S b) idt)),
         use_evs (x :: post ++ concat (skipn (S b) idt))).
Proof.
  intros R Hf0. induction n as [|n IH]; intros fuel b x post Hb L Hn Hf; [cbn [length] in Hn; lia|].
  destruct fuel as [|fuel]; [lia|].
  cbn [lseg] in L. destruct L as (_ & nx & Hnx & L).
  cbn [iter_loop]. unfold iter_eqb, p_end. cbn [fst snd ptr_eqb]. rewrite andb_false_r.
  cbn [rd_node]. rewrite Hnx. cbn [bind].
  unfold p_incr. cbn [fst snd is_null negb frg_assert rd_node]. rewrite Hnx. cbn [bind].
  assert (Eent : ent (p_nodes s) x = (n_key nx, n_val nx)) by (unfold ent; rewrite Hnx; reflexivity).
  destruct post as [|y post'].
  - cbn [lseg] in L. rewrite L.
    destruct (Nat.ltb_spec b (p_cap s)); [|lia]. cbn [frg_assert].
    cbn [app] in *.
    destruct (incr_loop_spec s idt R (p_cap s - S b) b fuel0 ltac:(lia) ltac:(lia))
      as [(E & Enil)|(b' & x' & E & Hb' & Hnth & Econc)]; rewrite E; cbn [bind].
    + rewrite Enil. destruct fuel; cbn [iter_loop]; unfold iter_eqb; cbn [fst snd ptr_eqb];
        rewrite Nat.eqb_refl; cbn [andb bind fst snd map use_evs]; rewrite Eent; reflexivity.
    + pose proof (rep_chain s idt R b' Hb') as Lb'. rewrite Hnth in Lb'.
      destruct (lseg_head _ _ _ Lb') as (post' & Epost).
      rewrite Econc. rewrite (skipn_nth_cons idt b' []) by (rewrite (rep_len_i s idt R); exact Hb').
      cbn [concat]. rewrite Epost. cbn [app].
      rewrite (IH fuel b' x' post' Hb').
      * cbn [bind fst snd map use_evs]. rewrite Eent. reflexivity.
      * rewrite <- Epost. exact Lb'.
      * cbn [length] in Hn. rewrite Econc in Hn.
        rewrite (skipn_nth_cons idt b' []) in Hn by (rewrite (rep_len_i s idt R); exact Hb').
        cbn [concat] in Hn. rewrite Epost in Hn. cbn [app length] in Hn. cbn [length]. lia.
      * lia.
  - cbn [lseg] in L. destruct L as (Enext & L'). rewrite Enext. cbn [bind].
    rewrite (IH fuel b y post' Hb).
    + cbn [bind fst snd map use_evs app]. rewrite Eent. reflexivity.
    + cbn [lseg]. split; [reflexivity|exact L'].
    + cbn [length app] in *. lia.
    + lia.
Qed.

Lemma p_iterate_spec fuel s idt : Rep s idt -> fuel_for s <= fuel ->
  p_iterate fuel s = POk (iterate (absI (p_nodes s) idt (p_size s)),
                          if Nat.eqb (p_size s) 0 then [] else use_evs (concat idt)).
Proof.
  intros R Hf. unfold p_iterate, p_begin, iterate. cbn [absI size table].
  destruct (Nat.eqb_spec (p_size s) 0) as [Hz|Hnz].
  - rewrite Hz. cbn [bind].
    destruct fuel; cbn [iter_loop]; unfold iter_eqb, p_end; cbn [fst snd ptr_eqb];
      rewrite Nat.eqb_refl; reflexivity.
  - assert (Hcp : 0 < p_cap s) by (eapply Rep_cap_pos; eassumption).
    unfold fuel_for in Hf.
    destruct (begin_loop_spec s idt R Hcp (p_cap s) 0 fuel ltac:(lia) ltac:(lia)) as (b & x & E & Hb & Hnth & Econc).
    { cbn [skipn]. intros E. apply Hnz. rewrite (rep_size s idt R), E. reflexivity. }
    rewrite E. cbn [bind]. cbn [skipn] in Econc.
    pose proof (rep_chain s idt R b Hb) as Lb. rewrite Hnth in Lb.
    destruct (lseg_head _ _ _ Lb) as (post & Epost).
    assert (Eall : concat idt = x :: post ++ concat (skipn (S b) idt)).
    { rewrite Econc. rewrite (skipn_nth_cons idt b []) by (rewrite (rep_len_i s idt R); exact Hb).
      cbn [concat]. rewrite Epost. reflexivity. }
    rewrite (iter_loop_spec s idt fuel R ltac:(lia) (p_size s) fuel b x post Hb).
    + destruct (p_size s); [congruence|]. rewrite <- concat_map, Eall. reflexivity.
    + rewrite <- Epost. exact Lb.
    + rewrite <- Eall. symmetry. apply (rep_size s idt R).
    + lia.
Qed.

(* ---------- ~hash_map() ---------- *)

Definition dtor_evs (ids : list nat) : list ev := flat_map (fun x => [EDestroy (vobj x); EDealloc x nsz]) ids.

Lemma dtor_chain_spec : forall ids fuel h item,
  lseg h item ids -> NoDup ids -> length ids <= fuel ->
  exists h', dtor_chain nsz fuel h item = POk (h', dtor_evs ids) /\
    (forall z, In z ids -> h' z = None) /\ (forall z, ~ In z ids -> h' z = h z).
Proof.
  induction ids as [|x r IH]; intros fuel h item L ND Hf; cbn [lseg] in L.
  - subst item. exists h. split; [destruct fuel; reflexivity|]. split; [intros z []|reflexivity].
  - destruct L as (-> & n & Hn & L). destruct fuel as [|fuel]; cbn [length] in Hf; [lia|].
    inversion ND as [|? ? Hxr NDr]; subst.
    cbn [dtor_chain rd_node]. rewrite Hn. cbn [bind].
    destruct (IH fuel (upd h x None) (n_next n)) as (h' & E' & Hin & Hout).
    + apply (lseg_ext h); [|exact L]. intros z Hz. apply upd_other. intros ->. contradiction.
    + exact NDr.
    + lia.
    + rewrite E'. cbn [bind fst snd]. exists h'. split; [reflexivity|]. split.
      * intros z [<-|Hz]; [|apply Hin; exact Hz]. rewrite Hout by exact Hxr. apply upd_same.
      * intros z Hz. rewrite Hout by (intros H; apply Hz; right; exact H).
        apply upd_other. intros ->. apply Hz. left; reflexivity.
Qed.

Lemma dtor_buckets_spec s idt fuel0 : Rep s idt -> (forall j, length (nth j idt []) <= fuel0) ->
  forall n i fuel h, i + n = p_cap s -> n <= fuel ->
  (forall z, In z (concat (skipn i idt)) -> h z = p_nodes s z) ->
  exists h', dtor_buckets nsz fuel0 fuel h s i = POk (h', dtor_evs (concat (skipn i idt))) /\
    (forall z, In z (concat (skipn i idt)) -> h' z = None) /\
    (forall z, ~ In z (concat (skipn i idt)) -> h' z = h z).
Proof.
  intros R Hf0. induction n as [|n IH]; intros i fuel h Hi Hf Hh.
  - rewrite skipn_all_nil by (rewrite (rep_len_i s idt R); lia). cbn [concat].
    exists h. split; [|split; [intros z []|reflexivity]].
    destruct fuel; cbn [dtor_buckets]; (destruct (Nat.ltb_spec i (p_cap s)); [lia|reflexivity]).
  - destruct fuel as [|fuel]; [lia|]. cbn [dtor_buckets].
    destruct (Nat.ltb_spec i (p_cap s)) as [Hic|]; [|lia].
    assert (Hcp : 0 < p_cap s) by lia.
    rewrite rd_tab_ok by (try (eapply Rep_tid_pos; eassumption); rewrite (rep_len_t s idt R); exact Hic).
    cbn [bind].
    assert (Hil : i < length idt) by (rewrite (rep_len_i s idt R); exact Hic).
    rewrite (skipn_nth_cons idt i []) in * by exact Hil. cbn [concat] in *.
    pose proof (rep_nodup s idt R) as NDall.
    rewrite (concat_split idt i Hil) in NDall. apply NoDup_app_r in NDall.
    assert (Econc : concat (skipn (S i) idt) = concat (skipn (S i) idt)) by reflexivity.
    destruct (dtor_chain_spec (nth i idt []) fuel0 h (nth i (p_table s) None)) as (h1 & E1 & Hin1 & Hout1).
    + apply (lseg_ext (p_nodes s)); [|apply (rep_chain s idt R); exact Hic].
      intros z Hz. apply Hh. apply in_or_app. left; exact Hz.
    + eapply NoDup_app_l; exact NDall.
    + apply Hf0.
    + rewrite E1. cbn [bind fst snd].
      destruct (IH (S i) fuel h1 ltac:(lia) ltac:(lia)) as (h' & E' & Hin' & Hout').
      * intros z Hz. rewrite Hout1; [apply Hh; apply in_or_app; right; exact Hz|].
        intros Hin. exact (NoDup_app_disj _ _ z NDall Hin Hz).
      * rewrite E'. cbn [bind fst snd]. exists h'. split; [unfold dtor_evs; rewrite flat_map_app; reflexivity|].
        split.
        -- intros z Hz. apply in_app_or in Hz.
           destruct (in_dec Nat.eq_dec z (concat (skipn (S i) idt))) as [Hr|Hr]; [apply Hin'; exact Hr|].
           destruct Hz as [Hz|Hz]; [|contradiction]. rewrite Hout' by exact Hr. apply Hin1. exact Hz.
        -- intros z Hz. rewrite Hout' by (intros H; apply Hz; apply in_or_app; right; exact H).
           apply Hout1. intros H. apply Hz. apply in_or_app. left; exact H.
Qed.

(* the destructor releases every node (nothing stays allocated) and then the table *)
Lemma p_destroy_spec fuel s idt : Rep s idt -> fuel_for s <= fuel ->
  exists h', p_destroy psz nsz fuel s =
      POk (h', dtor_evs (concat idt) ++
               (if Nat.eqb (p_tid s) 0 then [] else [EDealloc (p_tid s) (psz * N.of_nat (p_cap s))%N])) /\
    forall z, h' z = None.
Proof.
  intros R Hf. unfold p_destroy. unfold fuel_for in Hf.
  destruct (dtor_buckets_spec s idt fuel R) with (n := p_cap s) (i := 0) (fuel := fuel) (h := p_nodes s)
    as (h' & E' & Hin & Hout).
  - intros j. pose proof (Rep_chain_len s idt j R). lia.
  - lia.
  - lia.
  - reflexivity.
  - cbn [skipn] in *. rewrite E'. cbn [bind fst snd]. exists h'. split; [reflexivity|].
    intros z. destruct (in_dec Nat.eq_dec z (concat idt)) as [Hz|Hz]; [apply Hin; exact Hz|].
    rewrite Hout by exact Hz. destruct (p_nodes s z) eqn:E; [|reflexivity].
    exfalso. apply Hz. apply (rep_noleak s idt R). congruence.
Qed.

End Remove.
