(* Executable model of frg::hash_map (include/frg/hash_map.hpp): chain-level table.
   Definitions only -- proofs live in HashMapProofs.v so the model still runs if a proof breaks. *)
From Coq Require Import List NArith Arith Bool.
Import ListNotations.
Local Open Scope N_scope.

Definition entry := (N * N)%type.          (* key, value *)
Notation chain := (list entry).            (* head of the C++ chain first *)
Record hm := mk_hm { table : list chain; size : nat }.   (* _capacity = length table *)

Definition empty_hm : hm := mk_hm [] 0.
Definition cap (m : hm) : nat := length (table m).

Section WithHash.
Variable hash : N -> N.                    (* the user's hasher, any total function *)
(* Modelling assumptions about the hasher, both CHECKED on the real code by comp/hashmap/harness.cpp:
   - it is fixed when the map is constructed: hash_map copies the hasher object (`Hash _hasher`), so later changes to the
     caller's object, or its death, do not reach the map (harness: stateful hasher, op "reseed", temporary hasher);
   - it is a function of the key VALUE: the templated get<KeyCompatible>() hashes its argument as given, so the hasher must
     give one result per value whatever integer type carries it (harness: get() through int/short/long/Key arguments,
     signed keys with frg::hash<int64_t>). *)

(* ((unsigned int)_hasher(key)) % _capacity *)
Definition bucket_of (c : nat) (k : N) : nat := N.to_nat ((hash k mod 4294967296) mod N.of_nat c).

Fixpoint upd_nth {A} (l : list A) (i : nat) (f : A -> A) : list A :=
  match l, i with
  | [], _ => []
  | x :: r, O => f x :: r
  | x :: r, S j => x :: upd_nth r j f
  end.

Definition push_front (t : list chain) (c : nat) (e : entry) : list chain :=
  upd_nth t (bucket_of c (fst e)) (fun ch => e :: ch).

(* rehash(): new capacity max 10 (2*size); old buckets ascending, each chain head to tail,
   every item pushed at the head of its new chain. *)
Definition new_cap (m : hm) : nat := Nat.max 10 (2 * size m).
Definition rehash (m : hm) : hm :=
  let c := new_cap m in
  mk_hm (fold_left (fun t e => push_front t c e) (concat (table m)) (repeat [] c)) (size m).

Definition grow_if_full (m : hm) : hm := if Nat.leb (cap m) (size m) then rehash m else m.

Inductive out :=
| OUnit | OVal (v : option N) | OBool (b : bool) | OList (l : list entry) | OAssert.

(* insert(key, value) *)
Definition insert (k v : N) (m : hm) : hm :=
  let m1 := grow_if_full m in
  mk_hm (push_front (table m1) (cap m1) (k, v)) (S (size m1)).

Fixpoint chain_find (k : N) (ch : chain) : option N :=
  match ch with
  | [] => None
  | (k', v) :: r => if N.eqb k' k then Some v else chain_find k r
  end.

(* get(key) / find(key) *)
Definition get (k : N) (m : hm) : option N :=
  match size m with
  | O => None
  | _ => chain_find k (nth (bucket_of (cap m) k) (table m) [])
  end.

Fixpoint chain_set (k v : N) (ch : chain) : chain :=
  match ch with
  | [] => []
  | (k', v') :: r => if N.eqb k' k then (k', v) :: r else (k', v') :: chain_set k v r
  end.

(* m[key] = v  : operator[] then assignment through the returned reference.
   Result: the value found before the assignment (None when a default was inserted). *)
Definition index_set (k v : N) (m : hm) : hm * option N :=
  match size m with
  | O => let m1 := rehash m in
         (mk_hm (push_front (table m1) (cap m1) (k, v)) 1, None)
  | _ =>
    let b := bucket_of (cap m) k in
    match chain_find k (nth b (table m) []) with
    | Some old => (mk_hm (upd_nth (table m) b (chain_set k v)) (size m), Some old)
    | None =>
      let m1 := grow_if_full m in       (* bucket recomputed for the capacity after rehash() *)
      (mk_hm (push_front (table m1) (cap m1) (k, v)) (S (size m1)), None)
    end
  end.

Fixpoint chain_remove (k : N) (ch : chain) : chain :=
  match ch with
  | [] => []
  | (k', v') :: r => if N.eqb k' k then r else (k', v') :: chain_remove k r
  end.

(* remove(key) *)
Definition remove (k : N) (m : hm) : hm * option N :=
  match size m with
  | O => (m, None)
  | _ =>
    let b := bucket_of (cap m) k in
    match chain_find k (nth b (table m) []) with
    | Some v => (mk_hm (upd_nth (table m) b (chain_remove k)) (pred (size m)), Some v)
    | None => (m, None)
    end
  end.

(* begin()/++/end(): buckets ascending, each chain head to tail; empty when _size == 0 *)
Definition iterate (m : hm) : list entry :=
  match size m with O => [] | _ => concat (table m) end.

Inductive op := Insert (k v : N) | IndexSet (k v : N) | Get (k : N) | Remove (k : N) | Iterate | Size.

Definition step (m : hm) (o : op) : hm * out :=
  match o with
  | Insert k v => (insert k v m, OUnit)
  | IndexSet k v => let '(m', r) := index_set k v m in (m', OVal r)
  | Get k => (m, OVal (get k m))
  | Remove k => let '(m', r) := remove k m in (m', OVal r)
  | Iterate => (m, OList (iterate m))
  | Size => (m, OVal (Some (N.of_nat (size m))))
  end.

Fixpoint run (m : hm) (ops : list op) : hm * list out :=
  match ops with
  | [] => (m, [])
  | o :: r => let '(m1, x) := step m o in let '(m2, xs) := run m1 r in (m2, x :: xs)
  end.

End WithHash.
