(* Lifetime / allocation event log of frg::hash_map (property C16): the functional model of
   HashMapModel.v ([step], unchanged) run side by side with the bookkeeping needed to name the
   allocator blocks, emitting the [list ev] of Common/EventLog.v that the real code produces.
   Definitions only; proofs in HashMapLogProofs.v.

   What the real code allocates (include/frg/hash_map.hpp, include/frg/allocation.hpp):
     rehash()            allocate(sizeof(chain * ) * new_capacity), re-thread the nodes (no element is
                         touched), deallocate(_table, sizeof(chain * ) * _capacity); with _capacity == 0
                         the call is deallocate(nullptr, 0) -- no block is involved, no event
     insert/operator[]   frg::construct<chain>: allocate(sizeof(chain)), placement-new of the node
                         (the Value object is move/copy-constructed inside the block)
     remove              move-from the node's Value, frg::destruct: ~chain, deallocate(node, sizeof(chain))
     ~hash_map           every node, buckets ascending, chain head to tail: ~chain, deallocate(node,
                         sizeof(chain)); then deallocate(_table, sizeof(chain * ) * _capacity)
   Block ids are allocation sequence numbers (1, 2, ...), as the harness numbers them. *)
From Coq Require Import List NArith Arith Bool.
From FV Require Import Common.EventLog HashMap.HashMapModel.
Import ListNotations.

Record lhm := mk_lhm {
  core : hm;                  (* the functional state *)
  tid : nat;                  (* block id of _table (meaningless while capacity = 0) *)
  kid : list (N * nat);       (* key -> block id of the chain node holding it *)
  nxt : nat                   (* next allocation sequence number *)
}.
Definition empty_lhm : lhm := mk_lhm empty_hm 0 [] 1.

Fixpoint id_of (k : N) (l : list (N * nat)) : nat :=
  match l with
  | [] => 0
  | (k', b) :: r => if N.eqb k' k then b else id_of k r
  end.
Definition kid_del (k : N) (l : list (N * nat)) : list (N * nat) :=
  filter (fun kb => negb (N.eqb (fst kb) k)) l.

Definition node (b : nat) : obj := (b, 0).     (* the Value object inside chain node b *)

Section WithHash.
Variable hash : N -> N.
Variables psz nsz : N.                         (* sizeof(chain * ), sizeof(chain) *)

Definition tbytes (c : nat) : N := (psz * N.of_nat c)%N.

Definition grows (m : hm) : bool := Nat.leb (cap m) (size m).      (* _size >= _capacity *)

(* rehash() of map m whose table is block t; the new table becomes block b *)
Definition rehash_evs (m : hm) (t b : nat) : list ev :=
  EAlloc b (tbytes (new_cap m)) ::
  (if Nat.eqb (cap m) 0 then [] else [EDealloc t (tbytes (cap m))]).

Definition new_node_evs (b : nat) : list ev := [EAlloc b nsz; EConstruct (node b)].

(* the allocation path shared by insert and a missing operator[]: optional rehash(), one new node *)
Definition add_node (s : lhm) (m' : hm) (k : N) (rh : bool) : lhm * list ev :=
  if rh then
    (mk_lhm m' (nxt s) ((k, S (nxt s)) :: kid s) (S (S (nxt s))),
     rehash_evs (core s) (tid s) (nxt s) ++ new_node_evs (S (nxt s)))
  else
    (mk_lhm m' (tid s) ((k, nxt s) :: kid s) (S (nxt s)), new_node_evs (nxt s)).

Definition hit (x : out) : bool := match x with OVal (Some _) => true | _ => false end.

(* one operation of the harness script: functional result from [step], plus the events.
   EUse events are the accesses to a stored Value made by the library (move-from in remove) and by
   the script's statement itself (m[k] = v reads then assigns; get reads; iteration reads). *)
Definition lstep (s : lhm) (o : op) : lhm * out * list ev :=
  let m := core s in
  let '(m', x) := step hash m o in
  match o with
  | Insert k _ =>
      let '(s', e) := add_node s m' k (grows m) in (s', x, e)
  | IndexSet k _ =>
      if hit x then
        let b := id_of k (kid s) in
        (mk_lhm m' (tid s) (kid s) (nxt s), x, [EUse (node b); EUse (node b)])
      else
        let '(s', e) := add_node s m' k (Nat.eqb (size m) 0 || grows m) in
        let b := id_of k (kid s') in
        (s', x, e ++ [EUse (node b); EUse (node b)])
  | Get k =>
      (mk_lhm m' (tid s) (kid s) (nxt s), x,
       if hit x then [EUse (node (id_of k (kid s)))] else [])
  | Remove k =>
      if hit x then
        let b := id_of k (kid s) in
        (mk_lhm m' (tid s) (kid_del k (kid s)) (nxt s), x,
         [EUse (node b); EDestroy (node b); EDealloc b nsz])
      else (mk_lhm m' (tid s) (kid s) (nxt s), x, [])
  | Iterate =>
      (mk_lhm m' (tid s) (kid s) (nxt s), x,
       map (fun e => EUse (node (id_of (fst e) (kid s)))) (iterate m))
  | Size => (mk_lhm m' (tid s) (kid s) (nxt s), x, [])
  end.

(* ~hash_map() *)
Definition destructor_evs (s : lhm) : list ev :=
  flat_map (fun e => let b := id_of (fst e) (kid s) in [EDestroy (node b); EDealloc b nsz])
           (concat (table (core s)))
  ++ (if Nat.eqb (cap (core s)) 0 then [] else [EDealloc (tid s) (tbytes (cap (core s)))]).

Fixpoint lrun (s : lhm) (ops : list op) : lhm * list out * list ev :=
  match ops with
  | [] => (s, [], [])
  | o :: r =>
    let '(s1, x, e) := lstep s o in
    let '(s2, xs, es) := lrun s1 r in (s2, x :: xs, e ++ es)
  end.

Definition final_of (r : lhm * list out * list ev) : lhm := fst (fst r).
Definition outs_of (r : lhm * list out * list ev) : list out := snd (fst r).
Definition log_of (r : lhm * list out * list ev) : list ev := snd r.

End WithHash.
