(* Refinement, part 5: every script statement, every history from the empty map, and the transfer of the C14
   theorems (HashMapProofs.v) to the pointer-level state. *)
From Coq Require Import List NArith Arith Bool Lia Permutation.
From FV Require Import Common.EventLog HashMap.HashMapModel HashMap.HashMapProofs HashMap.HashMapPtr
  HashMap.HashMapRefineBase HashMap.HashMapRefineRehash HashMap.HashMapRefineOps HashMap.HashMapRefineRemove.
Import ListNotations.

Section Main.
Variable hash : N -> N.
Variables psz nsz : N.

(* ---------- chain-level growth bounds (used for the fuel of whole histories) ---------- *)

Lemma fold_push_len c l : forall t, length (fold_left (fun t e => push_front hash t c e) l t) = length t.
Proof. induction l as [|e l IH]; intros t; cbn [fold_left]; [reflexivity|]. rewrite IH. apply push_front_length. Qed.

Lemma cap_rehash_eq m : cap (rehash hash m) = new_cap m.
Proof. unfold cap, rehash. cbn [table]. rewrite fold_push_len. apply repeat_length. Qed.

Lemma grow_bounds m : size (grow_if_full hash m) = size m /\ cap (grow_if_full hash m) <= Nat.max (cap m) (new_cap m).
Proof.
  unfold grow_if_full. destruct (Nat.leb (cap m) (size m)).
  - split; [reflexivity|]. rewrite cap_rehash_eq. lia.
  - split; [reflexivity|lia].
Qed.

Lemma push_hm_bounds m k v : size (push_hm hash m k v) = S (size m) /\ cap (push_hm hash m k v) = cap m.
Proof. unfold push_hm, cap. cbn [size table]. rewrite push_front_length. split; reflexivity. Qed.

Lemma step_bounds m o :
  size (fst (step hash m o)) <= S (size m) /\ cap (fst (step hash m o)) <= Nat.max (cap m) (new_cap m).
Proof.
  destruct o as [k v|k v|k|k| |]; cbn [step].
  - cbn [fst]. rewrite insert_unfold.
    destruct (push_hm_bounds (grow_if_full hash m) k v) as [-> ->]. destruct (grow_bounds m) as [-> H]. lia.
  - destruct (index_set hash k v m) as [m' r] eqn:E. cbn [fst].
    assert (Em : m' = fst (index_set hash k v m)) by (rewrite E; reflexivity). subst m'. clear E r.
    destruct (Nat.eq_dec (size m) 0) as [Hz|Hnz].
    + rewrite (index_set_empty hash k v m Hz). cbn [fst].
      destruct (push_hm_bounds (rehash hash m) k v) as [-> ->]. rewrite cap_rehash_eq. cbn [rehash size]. lia.
    + destruct (chain_find k (nth (bucket_of hash (cap m) k) (table m) [])) as [old|] eqn:Ecf.
      * rewrite (index_set_hit hash k v m old Hnz Ecf). cbn [fst size]. unfold cap at 1. cbn [table].
        rewrite upd_nth_length. fold (cap m). lia.
      * rewrite (index_set_miss hash k v m Hnz Ecf). cbn [fst].
        destruct (push_hm_bounds (grow_if_full hash m) k v) as [-> ->]. destruct (grow_bounds m) as [-> H]. lia.
  - cbn [fst]. lia.
  - destruct (remove hash k m) as [m' r] eqn:E. cbn [fst].
    assert (Em : m' = fst (remove hash k m)) by (rewrite E; reflexivity). subst m'. clear E r.
    destruct (Nat.eq_dec (size m) 0) as [Hz|Hnz].
    + rewrite (remove_empty hash k m Hz). cbn [fst]. lia.
    + destruct (chain_find k (nth (bucket_of hash (cap m) k) (table m) [])) as [old|] eqn:Ecf.
      * rewrite (remove_hit hash k m old Hnz Ecf). cbn [fst size]. unfold cap at 1. cbn [table].
        rewrite upd_nth_length. fold (cap m). lia.
      * rewrite (remove_miss hash k m Hnz Ecf). cbn [fst]. lia.
  - cbn [fst]. lia.
  - cbn [fst]. lia.
Qed.

Lemma abs_size s : size (abs s) = p_size s.
Proof. reflexivity. Qed.

Lemma abs_cap_inv s : p_inv s -> cap (abs s) = p_cap s.
Proof. intros (idt & R). eapply abs_cap; exact R. Qed.

Lemma abs_init : abs p_init = empty_hm.
Proof. reflexivity. Qed.

Lemma p_inv_init : p_inv p_init.
Proof. exists []. apply Rep_init. Qed.

(* ---------- the invariant in plain words; single member functions ---------- *)

Lemma p_inv_def s : p_inv s <->
  exists idt : list (list nat),                     (* ghost: per bucket the ids of its chain, head first *)
    length (p_table s) = p_cap s /\ length idt = p_cap s /\
    (forall j, j < p_cap s -> lseg (p_nodes s) (nth j (p_table s) None) (nth j idt [])) /\
    NoDup (concat idt) /\
    p_size s = length (concat idt) /\
    (forall z, In z (concat idt) -> 0 < z < p_next s) /\
    (forall z, p_nodes s z <> None -> In z (concat idt)) /\
    p_tid s < p_next s /\ (p_cap s = 0 <-> p_tid s = 0).
Proof.
  split.
  - intros (idt & [H1 H2 H3 H4 H5 H6 H7 H8 H9]). exists idt.
    exact (conj H1 (conj H2 (conj H3 (conj H4 (conj H5 (conj H6 (conj H7 (conj H8 H9)))))))).
  - intros (idt & H1 & H2 & H3 & H4 & H5 & H6 & H7 & H8 & H9). exists idt. split; assumption.
Qed.

Theorem p_rehash_refines fuel s : p_inv s -> fuel_for s <= fuel ->
  exists s' evs, p_rehash hash psz fuel s = POk (s', evs) /\ p_inv s' /\ abs s' = rehash hash (abs s) /\
    p_cap s' = Nat.max 10 (2 * p_size s) /\ p_size s' = p_size s.
Proof.
  intros (idt & R) Hf.
  destruct (p_rehash_spec hash psz fuel s idt R Hf) as (s' & idt' & E & R' & _ & Hs & Hc & _ & _ & EA).
  exists s'. eexists. split; [exact E|]. split; [exists idt'; exact R'|].
  split; [rewrite (abs_rep s' idt' R'), (abs_rep s idt R); exact EA|]. split; [exact Hc|exact Hs].
Qed.

Theorem p_get_refines fuel s k : p_inv s -> fuel_for s <= fuel ->
  exists p, p_get hash fuel s k = POk p /\
    p_find hash fuel s k = POk (match p with Some _ => (bucket_of hash (p_cap s) k, p) | None => p_end s end) /\
    val_of (p_nodes s) p = POk (get hash k (abs s)).
Proof.
  intros (idt & R) Hf. destruct (p_get_spec hash fuel s idt k R Hf) as (p & E1 & E2 & E3 & _).
  exists p. rewrite (abs_rep s idt R). repeat split; assumption.
Qed.

Theorem p_iterate_refines fuel s : p_inv s -> fuel_for s <= fuel ->
  exists evs, p_iterate fuel s = POk (iterate (abs s), evs).
Proof.
  intros (idt & R) Hf. eexists. rewrite (abs_rep s idt R). apply (p_iterate_spec fuel s idt R Hf).
Qed.

Theorem p_destroy_refines fuel s : p_inv s -> fuel_for s <= fuel ->
  exists h' evs, p_destroy psz nsz fuel s = POk (h', evs) /\ forall z, h' z = None.
Proof.
  intros (idt & R) Hf. destruct (p_destroy_spec psz nsz fuel s idt R Hf) as (h' & E & H).
  exists h'. eexists. split; [exact E|exact H].
Qed.

(* ---------- one script statement ---------- *)

Theorem p_step_refines fuel s o : p_inv s -> fuel_for s <= fuel ->
  exists s' evs, p_step hash psz nsz fuel s o = POk (s', snd (step hash (abs s) o), evs) /\
    p_inv s' /\ abs s' = fst (step hash (abs s) o).
Proof.
  intros (idt & R) Hf. rewrite (abs_rep s idt R).
  set (m := absI (p_nodes s) idt (p_size s)).
  destruct o as [k v|k v|k|k| |].
  - destruct (p_insert_spec hash psz nsz fuel s idt k v R Hf) as (s' & idt' & evs & E & R' & EA).
    exists s', evs. cbn [p_step step fst snd]. rewrite E. cbn [bind fst snd].
    split; [reflexivity|]. split; [exists idt'; exact R'|]. rewrite (abs_rep s' idt' R'). exact EA.
  - destruct (p_indexset_spec hash psz nsz fuel s idt k v R Hf) as (s' & idt' & evs & E & R' & EA).
    exists s', evs. rewrite E. fold m in EA |- *. cbn [step].
    destruct (index_set hash k v m) as [m' r]. cbn [fst snd] in *.
    split; [reflexivity|]. split; [exists idt'; exact R'|]. rewrite (abs_rep s' idt' R'). exact EA.
  - destruct (p_get_spec hash fuel s idt k R Hf) as (p & E1 & E2 & E3 & _).
    exists s. eexists. cbn [p_step step fst snd]. rewrite E1. cbn [bind]. rewrite E2. cbn [bind].
    rewrite E3. cbn [bind]. split; [reflexivity|]. split; [exists idt; exact R|].
    rewrite (abs_rep s idt R). reflexivity.
  - destruct (p_remove_spec hash nsz fuel s idt k R Hf) as (s' & idt' & evs & E & R' & EA).
    exists s', evs. cbn [p_step]. rewrite E. cbn [bind fst snd]. fold m in EA |- *. cbn [step].
    destruct (remove hash k m) as [m' r]. cbn [fst snd] in *.
    split; [reflexivity|]. split; [exists idt'; exact R'|]. rewrite (abs_rep s' idt' R'). exact EA.
  - exists s. eexists. cbn [p_step step fst snd]. rewrite (p_iterate_spec fuel s idt R Hf). cbn [bind fst snd].
    split; [reflexivity|]. split; [exists idt; exact R|]. rewrite (abs_rep s idt R). reflexivity.
  - exists s, []. cbn [p_step step fst snd]. split; [reflexivity|]. split; [exists idt; exact R|].
    rewrite (abs_rep s idt R). reflexivity.
Qed.

(* fuel_for s suffices: never out of fuel, no null dereference, no UB, no assertion *)
Corollary p_step_fuel s o : p_inv s ->
  let r := p_step hash psz nsz (fuel_for s) s o in
  r <> POutOfFuel /\ r <> PNullDeref /\ r <> PUB /\ r <> PAssertStop.
Proof.
  intros I. destruct (p_step_refines (fuel_for s) s o I (le_n _)) as (s' & evs & E & _).
  cbv zeta. rewrite E. repeat split; discriminate.
Qed.

Lemma p_step_bounds fuel s o s' x evs : p_inv s -> p_inv s' ->
  p_step hash psz nsz fuel s o = POk (s', x, evs) -> abs s' = fst (step hash (abs s) o) ->
  p_size s' <= S (p_size s) /\ p_cap s' <= Nat.max (p_cap s) (Nat.max 10 (2 * p_size s)).
Proof.
  intros I I' _ EA. destruct (step_bounds (abs s) o) as [H1 H2]. rewrite <- EA in H1, H2.
  rewrite abs_size in H1. rewrite (abs_cap_inv s' I'), (abs_cap_inv s I) in H2.
  unfold new_cap in H2. rewrite !abs_size in *. lia.
Qed.

(* ---------- every history ---------- *)

Theorem p_run_refines ops : forall s j fuel,
  p_inv s -> p_size s <= j -> p_cap s <= 10 + 2 * j -> 4 * (j + length ops) + 21 <= fuel ->
  exists s' evs, p_run hash psz nsz fuel s ops = POk (s', snd (run hash (abs s) ops), evs) /\
    p_inv s' /\ abs s' = fst (run hash (abs s) ops) /\
    p_size s' <= j + length ops /\ p_cap s' <= 10 + 2 * (j + length ops).
Proof.
  induction ops as [|o r IH]; intros s j fuel I Hs Hc Hf.
  - exists s, []. cbn [p_run run fst snd length]. split; [reflexivity|]. split; [exact I|].
    split; [reflexivity|]. lia.
  - cbn [length] in Hf.
    assert (Hfs : fuel_for s <= fuel) by (unfold fuel_for; lia).
    destruct (p_step_refines fuel s o I Hfs) as (s1 & e1 & E1 & I1 & EA1).
    destruct (p_step_bounds fuel s o s1 _ e1 I I1 E1 EA1) as [Hs1 Hc1].
    destruct (IH s1 (S j) fuel I1 ltac:(lia) ltac:(lia) ltac:(lia)) as (s2 & e2 & E2 & I2 & EA2 & Hs2 & Hc2).
    exists s2, (e1 ++ e2). cbn [p_run run]. rewrite E1. cbn [bind fst snd]. rewrite E2. cbn [bind fst snd].
    rewrite EA1 in E2, EA2 |- *.
    destruct (step hash (abs s) o) as [m1 x]. cbn [fst snd] in *.
    destruct (run hash m1 r) as [m2 xs]. cbn [fst snd] in *.
    split; [reflexivity|]. split; [exact I2|]. split; [exact EA2|]. cbn [length]. lia.
Qed.

Theorem p_run_history ops fuel : 4 * length ops + 21 <= fuel ->
  exists s evs, p_run hash psz nsz fuel p_init ops = POk (s, snd (run hash empty_hm ops), evs) /\
    p_inv s /\ abs s = fst (run hash empty_hm ops) /\ fuel_for s <= fuel.
Proof.
  intros Hf.
  destruct (p_run_refines ops p_init 0 fuel p_inv_init) as (s & evs & E & I & EA & Hs & Hc);
    [cbn; lia|cbn; lia|lia|].
  rewrite abs_init in *. exists s, evs. split; [exact E|]. split; [exact I|]. split; [exact EA|].
  unfold fuel_for. lia.
Qed.

(* ---------- C14 transferred to the pointer-level state ---------- *)

Theorem ptr_refines_map ops fuel : inserts_absent ops -> 4 * length ops + 21 <= fuel ->
  let r := fst (ref_run [] ops) in
  exists s outs evs, p_run hash psz nsz fuel p_init ops = POk (s, outs, evs) /\
    p_inv s /\ hm_inv hash (abs s) /\
    Forall2 out_ok outs (snd (ref_run [] ops)) /\
    p_size s = length r /\
    (exists l e, p_iterate fuel s = POk (l, e) /\ Permutation l r /\ NoDup (map fst l)) /\
    (forall k, exists p, p_get hash fuel s k = POk p /\ val_of (p_nodes s) p = POk (assoc k r)) /\
    (exists h' e, p_destroy psz nsz fuel s = POk (h', e) /\ forall z, h' z = None).
Proof.
  intros Hok Hf r.
  destruct (p_run_history ops fuel Hf) as (s & evs & E & I & EA & Hfs).
  destruct (hm_refines_map hash ops Hok) as (HO & Hsz & HP & HN).
  pose proof (hm_inv_run hash ops Hok) as HI.
  rewrite <- EA in Hsz, HP, HN, HI. fold r in Hsz, HP.
  exists s, (snd (run hash empty_hm ops)), evs.
  split; [exact E|]. split; [exact I|]. split; [exact HI|]. split; [exact HO|].
  split; [exact Hsz|].
  destruct I as (idt & R).
  split.
  - eexists _, _. split; [apply (p_iterate_spec fuel s idt R Hfs)|].
    rewrite <- (abs_rep s idt R). split; [exact HP|exact HN].
  - split.
    + intros k. destruct (p_get_spec hash fuel s idt k R Hfs) as (p & E1 & _ & E3 & _).
      exists p. split; [exact E1|]. rewrite E3. rewrite <- (abs_rep s idt R). f_equal.
      apply hm_inv_Inv in HI. rewrite (get_spec hash (abs s) k HI).
      rewrite <- (iterate_entries hash (abs s) HI).
      apply assoc_perm; [exact HN|exact HP].
    + destruct (p_destroy_spec psz nsz fuel s idt R Hfs) as (h' & E' & Hnone).
      eexists h', _. split; [exact E'|exact Hnone].
Qed.

End Main.
