(* Concrete inputs used by the non-vacuity Examples of Props/Properties_C14.v and
   Props/Properties_C16_hashmap.v (definitions only). *)
From Coq Require Import List NArith.
From FV Require Import HashMap.HashMapModel.
Import ListNotations.
Local Open Scope N_scope.

(* m[0..20] = i+1 (the D10 script: the 11th and the 21st operator[] rehash), insert of 8 absent keys,
   overwrite through operator[], removes from head/middle of chains, then queries. *)
Definition ex_ops : list op :=
  map (fun i => IndexSet (N.of_nat i) (N.of_nat i + 1)) (seq 0 21) ++
  map (fun i => Insert (100 + N.of_nat i) 7) (seq 0 8) ++
  [IndexSet 5 500; Remove 3; Remove 20; Remove 999; Get 20; Get 19; Get 5; Size; Iterate].

Definition ex_id (k : N) : N := k.              (* identity hash *)
Definition ex_const (k : N) : N := 7.           (* every key collides *)

