(* RbPtrRefineFix.v — refinement (c), first half: the bottom-up loop fix_insert of rbtree.hpp, started at a node n
   whose colour is not yet set, on a heap that represents [plug ctx sub] (sub rooted at n), terminates within
   [length ctx + 1] iterations, never stops in an assertion / null dereference, and leaves a heap that represents
   what the functional model's [up_ins] chain computes: [finish_ins (ins_up ctx (sub, IFix))]. *)
From Coq Require Import NArith List Bool Lia PeanoNat.
From FV Require Import Rb.RbModel Rb.RbLayout Rb.RbPtr Rb.RbPtrBase Rb.RbPtrRefineRot.
Import ListNotations.

Section Fix.
  Variables elt annot : Type.
  Variable id_of : elt -> N.
  Variable agg : elt -> option annot -> option annot -> annot.
  Variable aeqb : annot -> annot -> bool.
  Variable ek : N -> elt.
  Notation tree := (tree elt unit).
  Notation ids t := (map id_of (inorder t)).
  Notation pstate := (pstate annot).
  Notation reprs := (reprs elt annot id_of).
  Notation uagg := (uagg elt).

  (* the functional model seen from the zipper: one [up_ins] per frame, innermost first *)
  Definition up_frame (fr : frame elt) (p : tree * ist) : tree * ist :=
    match fr with
    | FL c x r => up_ins uagg c (fst p) x r SL (snd p)
    | FR c l x => up_ins uagg c l x (fst p) SR (snd p)
    end.
  Fixpoint ins_up (ctx : list (frame elt)) (p : tree * ist) : tree * ist :=
    match ctx with [] => p | fr :: ctx' => ins_up ctx' (up_frame fr p) end.

  Lemma ins_up_done ctx t : ins_up ctx (t, IDone) = (plug ctx t, IDone).
  Proof.
    revert t. induction ctx as [|fr ctx IH]; intros t; cbn [ins_up plug]; [reflexivity|].
    destruct fr; cbn [up_frame fst snd up_ins fill]; rewrite IH; reflexivity.
  Qed.

  (* colours along the path: a red frame has a black frame above it (in particular the outermost frame is black) *)
  Fixpoint cok (ctx : list (frame elt)) : Prop :=
    match ctx with
    | [] => True
    | fr :: ctx' => (fcolor fr = Red -> match ctx' with [] => False | fr' :: _ => fcolor fr' = Black end) /\ cok ctx'
    end.

  Lemma p_isRed_root (s : pstate) t par :
    tinv id_of None (p_hooks s) t par -> p_isRed s (root_id id_of t) = isRed t.
  Proof.
    destruct t as [|c l x a r]; cbn [tinv root_id p_isRed isRed]; [reflexivity|].
    intros ((_ & _ & _ & A) & _). unfold get_color. rewrite (A ltac:(discriminate)). destruct c; reflexivity.
  Qed.
  Lemma oeqb_root_neq (t : tree) p : ~ In p (ids t) -> oeqb (root_id id_of t) (Some p) = false.
  Proof.
    destruct t as [|c l x a r]; cbn [root_id oeqb]; [reflexivity|]. intros H. apply N.eqb_neq. intros E0. subst p. apply H.
    cbn [inorder]. rewrite map_app, in_app_iff. right. left. reflexivity.
  Qed.
  Lemma oeqb_neq_root (t : tree) p : ~ In p (ids t) -> oeqb (Some p) (root_id id_of t) = false.
  Proof. intros H. rewrite oeqb_sym. apply oeqb_root_neq, H. Qed.

  Lemma nodup_same_ids ctx (t t' : tree) : ids t' = ids t -> NoDup (ids (plug ctx t)) -> NoDup (ids (plug ctx t')).
  Proof. intros E. rewrite !ids_plug, E. auto. Qed.

  (* NoDup of the ids of a tree with the same in-order walk (recoloured / rotated / differently focused) *)
  Ltac nd_from H :=
    let H' := fresh in
    pose proof H as H'; cbn [plug fill] in H' |- *; rewrite ids_plug in H' |- *;
    first [exact H'
          | repeat (progress (cbn [inorder map app] in H'; rewrite ?map_app in H'; rewrite <- ?app_assoc in H'));
            repeat (progress (cbn [inorder map app]; rewrite ?map_app; rewrite <- ?app_assoc)); exact H'].

  Theorem fix_insert_ok fuel : forall ctx c l x a r (s : pstate),
    NoDup (ids (plug ctx (T c l x a r))) -> cok ctx ->
    reprs (Some (id_of x)) s (plug ctx (T c l x a r)) -> length ctx < fuel ->
    exists s', fix_insert agg aeqb ek fuel s (id_of x) = POk s'
               /\ reprs None s' (finish_ins (ins_up ctx (T c l x a r, IFix))).
  Proof.
    induction fuel as [|k IH]; intros ctx c l x a r s Nd Hok H Hf; [lia|].
    cbn [fix_insert].
    destruct (reprS_focus _ id_of _ _ _ _ _ _ _ _ _ H) as ((X1 & _) & _). replace (get_parent s (id_of x)) with (cpar id_of ctx) by (symmetry; exact X1).
    destruct ctx as [|fr1 ctx1]; cbn [cpar].
    { (* n is the root *)
      eexists. split; [reflexivity|]. cbn [ins_up finish_ins paintB].
      apply (set_color_ok _ _ id_of (Some (id_of x)) [] c l x a r s Black Nd); [right; reflexivity|exact H]. }
    (* h(n)->color = red *)
    pose proof (set_color_ok _ _ id_of (Some (id_of x)) (fr1 :: ctx1) c l x a r s Red Nd (or_intror eq_refl) H) as H1.
    assert (Nd1 : NoDup (ids (plug (fr1 :: ctx1) (T Red l x a r)))) by (revert Nd; apply nodup_same_ids; reflexivity).
    clear H X1. set (s1 := set_color s (id_of x) (Some Red)) in *. set (n := id_of x) in *.
    (* the parent's colour *)
    assert (Hpc : get_color s1 (fid id_of fr1) = Some (fcolor fr1)).
    { destruct H1 as (_ & B & _). apply tinv_plug in B. destruct B as [_ Bc].
      destruct fr1; cbn [cinv fid fcolor] in *; unfold node_ok in Bc; unfold get_color; apply Bc; discriminate. }
    rewrite Hpc. destruct (fcolor fr1) eqn:Ec1; cbn [ceqb].
    2:{ (* parent black: done *)
      eexists. split; [reflexivity|]. cbn [ins_up].
      replace (up_frame fr1 (T c l x a r, IFix)) with (fill fr1 (T Red l x a r), IDone)
        by (destruct fr1 as [c1 y1 r1|c1 l1 y1]; cbn [fcolor] in Ec1; subst c1; reflexivity).
      rewrite ins_up_done. exact H1. }
    (* parent red: the grandparent exists and is black *)
    cbn [cok] in Hok. destruct Hok as [Hg Hok1]. specialize (Hg Ec1).
    destruct ctx1 as [|fr2 ctx2]; [contradiction|]. cbn [cok] in Hok1. destruct Hok1 as [_ Hok2].
    assert (Hpp : get_parent s1 (fid id_of fr1) = Some (fid id_of fr2)).
    { destruct H1 as (_ & B & _). apply tinv_plug in B. destruct B as [_ Bc].
      destruct fr1; cbn [cinv fid cpar] in *; unfold node_ok in Bc; unfold get_parent; apply Bc. }
    rewrite Hpp.
    assert (Hgc : get_color s1 (fid id_of fr2) = Some Black).
    { destruct H1 as (_ & B & _). apply tinv_plug in B. destruct B as [_ Bc].
      destruct fr1, fr2; cbn [cinv fid fcolor] in *; unfold node_ok in Bc; unfold get_color; subst;
        apply Bc; discriminate. }
    rewrite Hgc. cbn [ceqb negb].
    cbn [length] in Hf.
    destruct fr2 as [c2 g ur|c2 ul g]; cbn [fcolor] in Hg; subst c2;
      destruct fr1 as [c1 p pr|c1 pl p]; cbn [fcolor] in Ec1; subst c1; cbn [fid] in *.
    - (* parent = left child of grand, n = left child of parent *)
      pose proof H1 as (A1 & B1 & _). cbn [plug fill] in B1. apply tinv_plug in B1. destruct B1 as [B1 Bc2].
      cbn [tinv root_id] in B1. destruct B1 as ((G1 & G2 & G3 & G4) & ((P1 & P2 & P3 & P4) & (_ & Tl & Tr) & Tpr) & Tur).
      unfold get_left, get_right. rewrite G2, G3. fold n. rewrite oeqb_refl. cbn [andb].
      rewrite (p_isRed_root s1 ur _ Tur).
      destruct (isRed ur) eqn:Eur.
      + (* red uncle: recolour, continue at the grandparent *)
        destruct ur as [|[] ul xu au ur']; try discriminate. cbn [root_id].
        cbn [plug fill] in H1, Nd1.
        pose proof (set_color_ok _ _ id_of None ctx2 Black _ g tt _ s1 Red Nd1 (or_introl eq_refl) H1) as H2.
        assert (Nd2 : NoDup (ids (plug (FL Red g (T Red ul xu au ur') :: ctx2) (T Red (T Red l x a r) p tt pr))))
          by (nd_from Nd1).
        pose proof (set_color_ok _ _ id_of None (FL Red g (T Red ul xu au ur') :: ctx2) Red _ p tt _ _ Black Nd2
                      (or_introl eq_refl) H2) as H3.
        assert (Nd3 : NoDup (ids (plug (FR Red (T Black (T Red l x a r) p tt pr) g :: ctx2) (T Red ul xu au ur'))))
          by (nd_from Nd1).
        pose proof (set_color_ok _ _ id_of None (FR Red (T Black (T Red l x a r) p tt pr) g :: ctx2) Red ul xu au ur' _ Black Nd3
                      (or_introl eq_refl) H3) as H4.
        set (s2 := set_color s1 (id_of g) (Some Red)) in *. set (s3 := set_color s2 (id_of p) (Some Black)) in *.
        assert (Hr3 : h_right (p_hooks s3 (id_of g)) = Some (id_of xu)).
        { destruct H3 as (_ & B & _). cbn [plug fill] in B. apply tinv_plug in B. destruct B as [B _].
          cbn [tinv root_id] in B. unfold node_ok in B. tauto. }
        rewrite Hr3.
        assert (Nd4 : NoDup (ids (plug ctx2 (T Red (T Black (T Red l x a r) p tt pr) g tt (T Black ul xu au ur')))))
          by (nd_from Nd1).
        destruct (IH ctx2 Red _ g tt _ _ Nd4 Hok2 (reprS_skip _ id_of _ _ _ _ H4) ltac:(lia)) as (s' & E' & H').
        exists s'. split; [exact E'|]. cbn [ins_up up_frame fst snd up_ins paintR mk isRed paintB]. exact H'.
      + (* black uncle, outer grandchild: rotateRight(parent) *)
        assert (Npu : ~ In (id_of p) (ids ur)) by (cbn [plug fill] in Nd1; rewrite ids_plug in Nd1; ni Nd1).
        rewrite (oeqb_root_neq ur _ Npu). cbn [andb]. rewrite ?oeqb_refl.
        assert (Nnpr : ~ In n (ids pr)) by (cbn [plug fill] in Nd1; rewrite ids_plug in Nd1; subst n; ni Nd1).
        rewrite P3, (oeqb_neq_root pr _ Nnpr).
        cbn [plug fill] in H1, Nd1.
        destruct (rotateRight_ok _ _ id_of agg aeqb ek ctx2 Black ur g tt Red pr p tt (T Red l x a r) s1 Nd1 H1) as (s2 & E2 & H2).
        rewrite E2. cbn [pbind].
        assert (Nd2 : NoDup (ids (plug ctx2 (T Red (T Red l x a r) p tt (T Black pr g tt ur)))))
          by (nd_from Nd1).
        pose proof (set_color_ok _ _ id_of None ctx2 Red _ p tt _ s2 Black Nd2 (or_introl eq_refl) H2) as H3.
        assert (Nd3 : NoDup (ids (plug (FR Black (T Red l x a r) p :: ctx2) (T Black pr g tt ur))))
          by (nd_from Nd2).
        pose proof (set_color_ok _ _ id_of None (FR Black (T Red l x a r) p :: ctx2) Black pr g tt ur _ Red Nd3 (or_introl eq_refl) H3) as H4.
        eexists. split; [reflexivity|].
        cbn [ins_up up_frame fst snd up_ins paintR mk]. rewrite Eur. cbn [mk]. rewrite ins_up_done. exact H4.
    - (* parent = left child of grand, n = right child of parent *)
      pose proof H1 as (A1 & B1 & _). cbn [plug fill] in B1. apply tinv_plug in B1. destruct B1 as [B1 Bc2].
      cbn [tinv root_id] in B1. destruct B1 as ((G1 & G2 & G3 & G4) & ((P1 & P2 & P3 & P4) & Tpl & (_ & Tl & Tr)) & Tur).
      unfold get_left, get_right. rewrite G2, G3. fold n. rewrite oeqb_refl. cbn [andb].
      rewrite (p_isRed_root s1 ur _ Tur).
      destruct (isRed ur) eqn:Eur.
      + destruct ur as [|[] ul xu au ur']; try discriminate. cbn [root_id].
        cbn [plug fill] in H1, Nd1.
        pose proof (set_color_ok _ _ id_of None ctx2 Black _ g tt _ s1 Red Nd1 (or_introl eq_refl) H1) as H2.
        assert (Nd2 : NoDup (ids (plug (FL Red g (T Red ul xu au ur') :: ctx2) (T Red pl p tt (T Red l x a r)))))
          by (nd_from Nd1).
        pose proof (set_color_ok _ _ id_of None (FL Red g (T Red ul xu au ur') :: ctx2) Red _ p tt _ _ Black Nd2
                      (or_introl eq_refl) H2) as H3.
        assert (Nd3 : NoDup (ids (plug (FR Red (T Black pl p tt (T Red l x a r)) g :: ctx2) (T Red ul xu au ur'))))
          by (nd_from Nd1).
        pose proof (set_color_ok _ _ id_of None (FR Red (T Black pl p tt (T Red l x a r)) g :: ctx2) Red ul xu au ur' _ Black Nd3
                      (or_introl eq_refl) H3) as H4.
        set (s2 := set_color s1 (id_of g) (Some Red)) in *. set (s3 := set_color s2 (id_of p) (Some Black)) in *.
        assert (Hr3 : h_right (p_hooks s3 (id_of g)) = Some (id_of xu)).
        { destruct H3 as (_ & B & _). cbn [plug fill] in B. apply tinv_plug in B. destruct B as [B _].
          cbn [tinv root_id] in B. unfold node_ok in B. tauto. }
        rewrite Hr3.
        assert (Nd4 : NoDup (ids (plug ctx2 (T Red (T Black pl p tt (T Red l x a r)) g tt (T Black ul xu au ur')))))
          by (nd_from Nd1).
        destruct (IH ctx2 Red _ g tt _ _ Nd4 Hok2 (reprS_skip _ id_of _ _ _ _ H4) ltac:(lia)) as (s' & E' & H').
        exists s'. split; [exact E'|]. cbn [ins_up up_frame fst snd up_ins paintR mk isRed paintB]. exact H'.
      + (* black uncle, inner grandchild: rotateLeft(n); rotateRight(n) *)
        assert (Npu : ~ In (id_of p) (ids ur)) by (cbn [plug fill] in Nd1; rewrite ids_plug in Nd1; ni Nd1).
        rewrite (oeqb_root_neq ur _ Npu). cbn [andb]. rewrite ?oeqb_refl.
        rewrite P3. cbn [root_id]. fold n. rewrite oeqb_refl.
        destruct (rotateLeft_ok _ _ id_of agg aeqb ek (FL Black g ur :: ctx2) Red pl p tt Red l x a r s1 Nd1 H1) as (s2 & E2 & H2).
        fold n in E2. rewrite E2. cbn [pbind].
        assert (Nd2 : NoDup (ids (plug ctx2 (T Black (T Red (T Red pl p tt l) x tt r) g tt ur)))) by (nd_from Nd1).
        cbn [plug fill] in H2.
        destruct (rotateRight_ok _ _ id_of agg aeqb ek ctx2 Black ur g tt Red r x tt (T Red pl p tt l) s2 Nd2 H2) as (s3 & E3 & H3).
        fold n in E3. rewrite E3. cbn [pbind].
        assert (Nd3 : NoDup (ids (plug ctx2 (T Red (T Red pl p tt l) x tt (T Black r g tt ur))))) by (nd_from Nd1).
        pose proof (set_color_ok _ _ id_of None ctx2 Red _ x tt _ s3 Black Nd3 (or_introl eq_refl) H3) as H4.
        assert (Nd4 : NoDup (ids (plug (FR Black (T Red pl p tt l) x :: ctx2) (T Black r g tt ur)))) by (nd_from Nd1).
        pose proof (set_color_ok _ _ id_of None (FR Black (T Red pl p tt l) x :: ctx2) Black r g tt ur _ Red Nd4 (or_introl eq_refl) H4) as H5.
        eexists. split; [reflexivity|].
        cbn [ins_up up_frame fst snd up_ins paintR mk]. rewrite Eur. cbn [mk]. rewrite ins_up_done. exact H5.
    - (* parent = right child of grand, n = left child of parent *)
      pose proof H1 as (A1 & B1 & _). cbn [plug fill] in B1. apply tinv_plug in B1. destruct B1 as [B1 Bc2].
      cbn [tinv root_id] in B1. destruct B1 as ((G1 & G2 & G3 & G4) & Tul & ((P1 & P2 & P3 & P4) & (_ & Tl & Tr) & Tpr)).
      assert (Npu : ~ In (id_of p) (ids ul)) by (cbn [plug fill] in Nd1; rewrite ids_plug in Nd1; ni Nd1).
      unfold get_left, get_right. rewrite G2, G3. fold n. rewrite (oeqb_root_neq ul _ Npu). cbn [andb]. rewrite oeqb_refl. cbn [andb].
      rewrite (p_isRed_root s1 ul _ Tul).
      destruct (isRed ul) eqn:Eul.
      + destruct ul as [|[] ul' xu au ur]; try discriminate. cbn [root_id].
        cbn [plug fill] in H1, Nd1.
        pose proof (set_color_ok _ _ id_of None ctx2 Black _ g tt _ s1 Red Nd1 (or_introl eq_refl) H1) as H2.
        assert (Nd2 : NoDup (ids (plug (FR Red (T Red ul' xu au ur) g :: ctx2) (T Red (T Red l x a r) p tt pr))))
          by (nd_from Nd1).
        pose proof (set_color_ok _ _ id_of None (FR Red (T Red ul' xu au ur) g :: ctx2) Red _ p tt _ _ Black Nd2
                      (or_introl eq_refl) H2) as H3.
        assert (Nd3 : NoDup (ids (plug (FL Red g (T Black (T Red l x a r) p tt pr) :: ctx2) (T Red ul' xu au ur))))
          by (nd_from Nd1).
        pose proof (set_color_ok _ _ id_of None (FL Red g (T Black (T Red l x a r) p tt pr) :: ctx2) Red ul' xu au ur _ Black Nd3
                      (or_introl eq_refl) H3) as H4.
        set (s2 := set_color s1 (id_of g) (Some Red)) in *. set (s3 := set_color s2 (id_of p) (Some Black)) in *.
        assert (Hr3 : h_left (p_hooks s3 (id_of g)) = Some (id_of xu)).
        { destruct H3 as (_ & B & _). cbn [plug fill] in B. apply tinv_plug in B. destruct B as [B _].
          cbn [tinv root_id] in B. unfold node_ok in B. tauto. }
        rewrite Hr3.
        assert (Nd4 : NoDup (ids (plug ctx2 (T Red (T Black ul' xu au ur) g tt (T Black (T Red l x a r) p tt pr)))))
          by (nd_from Nd1).
        destruct (IH ctx2 Red _ g tt _ _ Nd4 Hok2 (reprS_skip _ id_of _ _ _ _ H4) ltac:(lia)) as (s' & E' & H').
        exists s'. split; [exact E'|]. cbn [ins_up up_frame fst snd up_ins paintR mk isRed paintB]. exact H'.
      + (* black uncle, inner grandchild: rotateRight(n); rotateLeft(n) *)
        rewrite (oeqb_neq_root ul _ Npu). rewrite ?oeqb_refl. cbn [negb].
        rewrite P2. cbn [root_id]. fold n. rewrite ?oeqb_refl.
        destruct (rotateRight_ok _ _ id_of agg aeqb ek (FR Black ul g :: ctx2) Red pr p tt Red r x a l s1 Nd1 H1) as (s2 & E2 & H2).
        fold n in E2. rewrite E2. cbn [pbind].
        assert (Nd2 : NoDup (ids (plug ctx2 (T Black ul g tt (T Red l x tt (T Red r p tt pr)))))) by (nd_from Nd1).
        cbn [plug fill] in H2.
        destruct (rotateLeft_ok _ _ id_of agg aeqb ek ctx2 Black ul g tt Red l x tt (T Red r p tt pr) s2 Nd2 H2) as (s3 & E3 & H3).
        fold n in E3. rewrite E3. cbn [pbind].
        assert (Nd3 : NoDup (ids (plug ctx2 (T Red (T Black ul g tt l) x tt (T Red r p tt pr))))) by (nd_from Nd1).
        pose proof (set_color_ok _ _ id_of None ctx2 Red _ x tt _ s3 Black Nd3 (or_introl eq_refl) H3) as H4.
        assert (Nd4 : NoDup (ids (plug (FL Black x (T Red r p tt pr) :: ctx2) (T Black ul g tt l)))) by (nd_from Nd1).
        pose proof (set_color_ok _ _ id_of None (FL Black x (T Red r p tt pr) :: ctx2) Black ul g tt l _ Red Nd4 (or_introl eq_refl) H4) as H5.
        eexists. split; [reflexivity|].
        cbn [ins_up up_frame fst snd up_ins paintR mk]. rewrite Eul. cbn [mk]. rewrite ins_up_done. exact H5.
    - (* parent = right child of grand, n = right child of parent *)
      pose proof H1 as (A1 & B1 & _). cbn [plug fill] in B1. apply tinv_plug in B1. destruct B1 as [B1 Bc2].
      cbn [tinv root_id] in B1. destruct B1 as ((G1 & G2 & G3 & G4) & Tul & ((P1 & P2 & P3 & P4) & Tpl & (_ & Tl & Tr))).
      assert (Npu : ~ In (id_of p) (ids ul)) by (cbn [plug fill] in Nd1; rewrite ids_plug in Nd1; ni Nd1).
      unfold get_left, get_right. rewrite G2, G3. fold n. rewrite (oeqb_root_neq ul _ Npu). cbn [andb]. rewrite oeqb_refl. cbn [andb].
      rewrite (p_isRed_root s1 ul _ Tul).
      destruct (isRed ul) eqn:Eul.
      + destruct ul as [|[] ul' xu au ur]; try discriminate. cbn [root_id].
        cbn [plug fill] in H1, Nd1.
        pose proof (set_color_ok _ _ id_of None ctx2 Black _ g tt _ s1 Red Nd1 (or_introl eq_refl) H1) as H2.
        assert (Nd2 : NoDup (ids (plug (FR Red (T Red ul' xu au ur) g :: ctx2) (T Red pl p tt (T Red l x a r)))))
          by (nd_from Nd1).
        pose proof (set_color_ok _ _ id_of None (FR Red (T Red ul' xu au ur) g :: ctx2) Red _ p tt _ _ Black Nd2
                      (or_introl eq_refl) H2) as H3.
        assert (Nd3 : NoDup (ids (plug (FL Red g (T Black pl p tt (T Red l x a r)) :: ctx2) (T Red ul' xu au ur))))
          by (nd_from Nd1).
        pose proof (set_color_ok _ _ id_of None (FL Red g (T Black pl p tt (T Red l x a r)) :: ctx2) Red ul' xu au ur _ Black Nd3
                      (or_introl eq_refl) H3) as H4.
        set (s2 := set_color s1 (id_of g) (Some Red)) in *. set (s3 := set_color s2 (id_of p) (Some Black)) in *.
        assert (Hr3 : h_left (p_hooks s3 (id_of g)) = Some (id_of xu)).
        { destruct H3 as (_ & B & _). cbn [plug fill] in B. apply tinv_plug in B. destruct B as [B _].
          cbn [tinv root_id] in B. unfold node_ok in B. tauto. }
        rewrite Hr3.
        assert (Nd4 : NoDup (ids (plug ctx2 (T Red (T Black ul' xu au ur) g tt (T Black pl p tt (T Red l x a r))))))
          by (nd_from Nd1).
        destruct (IH ctx2 Red _ g tt _ _ Nd4 Hok2 (reprS_skip _ id_of _ _ _ _ H4) ltac:(lia)) as (s' & E' & H').
        exists s'. split; [exact E'|]. cbn [ins_up up_frame fst snd up_ins paintR mk isRed paintB]. exact H'.
      + (* black uncle, outer grandchild: rotateLeft(parent) *)
        rewrite (oeqb_neq_root ul _ Npu). rewrite ?oeqb_refl. cbn [negb].
        assert (Nnpl : ~ In n (ids pl)) by (cbn [plug fill] in Nd1; rewrite ids_plug in Nd1; subst n; ni Nd1).
        rewrite P2, (oeqb_neq_root pl _ Nnpl).
        cbn [plug fill] in H1, Nd1.
        destruct (rotateLeft_ok _ _ id_of agg aeqb ek ctx2 Black ul g tt Red pl p tt (T Red l x a r) s1 Nd1 H1) as (s2 & E2 & H2).
        rewrite E2. cbn [pbind].
        assert (Nd2 : NoDup (ids (plug ctx2 (T Red (T Black ul g tt pl) p tt (T Red l x a r))))) by (nd_from Nd1).
        pose proof (set_color_ok _ _ id_of None ctx2 Red _ p tt _ s2 Black Nd2 (or_introl eq_refl) H2) as H3.
        assert (Nd3 : NoDup (ids (plug (FL Black p (T Red l x a r) :: ctx2) (T Black ul g tt pl)))) by (nd_from Nd1).
        pose proof (set_color_ok _ _ id_of None (FL Black p (T Red l x a r) :: ctx2) Black ul g tt pl _ Red Nd3 (or_introl eq_refl) H3) as H4.
        eexists. split; [reflexivity|].
        cbn [ins_up up_frame fst snd up_ins paintR mk]. rewrite Eul. cbn [mk]. rewrite ins_up_done. exact H4.
  Qed.
End Fix.
