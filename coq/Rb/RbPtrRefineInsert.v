(* RbPtrRefineInsert.v — refinement (c), second half: tree_struct::insert.  The descent loop of the pointer code
   follows the path the functional [ins] takes, insert_left / insert_right attach the leaf, fix_insert replays the
   [up_ins] chain: for EVERY tree t with unique ids whose colouring has a black root and no red node with a red
   child (in particular every red-black tree), on every heap that represents t,

       p_insert fuel s (id x) = POk s'   and   s' represents  insert less _ x t

   provided fuel > height t.  No FRG_ASSERT fires, no null pointer is dereferenced, fuel is not exhausted. *)
From Coq Require Import NArith List Bool Lia PeanoNat.
From FV Require Import Rb.RbModel Rb.RbInorder Rb.RbInvariant Rb.RbLayout Rb.RbPtr Rb.RbPtrBase Rb.RbPtrRefineRot
  Rb.RbPtrRefineIns Rb.RbPtrRefineFix.
Import ListNotations.

Section Insert.
  Variables elt annot : Type.
  Variable id_of : elt -> N.
  Variable less : elt -> elt -> bool.
  Variable agg : elt -> option annot -> option annot -> annot.
  Variable aeqb : annot -> annot -> bool.
  Variable ek : N -> elt.
  Notation tree := (tree elt unit).
  Notation ids t := (map id_of (inorder t)).
  Notation pstate := (pstate annot).
  Notation reprs := (reprs elt annot id_of).
  Notation uagg := (uagg elt).
  Notation frame := (frame elt).
  Notation ins_up := (ins_up elt).
  Notation up_frame := (up_frame elt).
  Notation cok := (cok elt).

  (* ---- the functional insertion through the zipper *)
  Fixpoint descend (x : elt) (t : tree) (ctx : list frame) : list frame :=
    match t with
    | E => ctx
    | T c l y _ r => if less x y then descend x l (FL c y r :: ctx) else descend x r (FR c l y :: ctx)
    end.

  Lemma plug_descend x t ctx : plug (descend x t ctx) E = plug ctx t.
  Proof.
    revert ctx. induction t as [|c l IHl y a r IHr]; intros ctx; cbn [descend]; [reflexivity|].
    destruct a. destruct (less x y); [rewrite IHl|rewrite IHr]; reflexivity.
  Qed.
  Lemma ins_descend x t ctx : ins_up ctx (ins less uagg x t) = ins_up (descend x t ctx) (T Red E x tt E, IFix).
  Proof.
    revert ctx. induction t as [|c l IHl y a r IHr]; intros ctx; cbn [descend ins]; [reflexivity|].
    destruct (less x y).
    - rewrite <- IHl. cbn [RbPtrRefineFix.ins_up RbPtrRefineFix.up_frame]. destruct (ins less uagg x l); reflexivity.
    - rewrite <- IHr. cbn [RbPtrRefineFix.ins_up RbPtrRefineFix.up_frame]. destruct (ins less uagg x r); reflexivity.
  Qed.
  Lemma insert_zipper x t : insert less uagg x t = finish_ins (ins_up (descend x t []) (T Red E x tt E, IFix)).
  Proof. unfold insert. rewrite <- ins_descend. reflexivity. Qed.

  Lemma length_descend x t ctx : length (descend x t ctx) <= length ctx + height t.
  Proof.
    revert ctx. induction t as [|c l IHl y a r IHr]; intros ctx; cbn [descend height]; [lia|].
    destruct (less x y); [specialize (IHl (FL c y r :: ctx))|specialize (IHr (FR c l y :: ctx))]; cbn [length] in *; lia.
  Qed.

  (* ---- colours: no red node has a red child *)
  Fixpoint norr (t : tree) : Prop :=
    match t with
    | E => True
    | T c l _ _ r => (c = Red -> isRed l = false /\ isRed r = false) /\ norr l /\ norr r
    end.
  Lemma rbt_norr (t : tree) n : rbt t n -> norr t.
  Proof.
    induction 1 as [|l x a r n Hl IHl Hr IHr Bl Br|l x a r n Hl IHl Hr IHr]; cbn [norr]; [exact I| |].
    - split; [|auto]. intros _. unfold isBlack in *. destruct (isRed l), (isRed r); cbn in *; auto; discriminate.
    - split; [|auto]. discriminate.
  Qed.
  Lemma descend_cok x t ctx :
    norr t -> cok ctx -> (isRed t = true -> match ctx with [] => False | fr :: _ => fcolor fr = Black end) ->
    cok (descend x t ctx).
  Proof.
    revert ctx. induction t as [|c l IHl y a r IHr]; intros ctx Hn Hc Hr; cbn [descend]; [exact Hc|].
    cbn [norr] in Hn. destruct Hn as (Hn0 & Hnl & Hnr).
    destruct (less x y).
    - apply IHl; [exact Hnl| |].
      + cbn [RbPtrRefineFix.cok fcolor]. split; [|exact Hc]. intros ->. apply Hr. reflexivity.
      + intros Hl. cbn [fcolor]. destruct c; [|reflexivity]. destruct (Hn0 eq_refl) as [E1 _]. congruence.
    - apply IHr; [exact Hnr| |].
      + cbn [RbPtrRefineFix.cok fcolor]. split; [|exact Hc]. intros ->. apply Hr. reflexivity.
      + intros Hl. cbn [fcolor]. destruct c; [|reflexivity]. destruct (Hn0 eq_refl) as [_ E1]. congruence.
  Qed.

  (* ---- in-order walk of the functional result (for the uniqueness of ids of the result) *)
  Lemma inorder_ins_up ctx (p : tree * ist) : inorder (fst (ins_up ctx p)) = inorder (plug ctx (fst p)).
  Proof.
    revert p. induction ctx as [|fr ctx IH]; intros p; cbn [RbPtrRefineFix.ins_up plug]; [reflexivity|].
    rewrite IH. rewrite !(inorder_plug _ ctx). f_equal. f_equal.
    destruct fr; cbn [RbPtrRefineFix.up_frame fill]; rewrite inorder_up_ins; reflexivity.
  Qed.

  (* the keys the comparator sees are those of the tree *)
  Definition ek_ok (t : tree) : Prop := forall y, In y (inorder t) -> ek (id_of y) = y.

  (* ---- the descent loop *)
  Lemma insert_loop_ok x fuel : forall sub ctx k (s : pstate),
    sub <> E -> reprs None s (plug ctx sub) -> ek (id_of x) = x -> ek_ok (plug ctx sub) -> height sub <= k ->
    insert_loop less agg aeqb ek k fuel s (id_of x) (match root_id id_of sub with Some i => i | None => 0%N end)
    = match descend x sub ctx with
      | FL _ y _ :: _ => insert_left agg aeqb ek fuel s (id_of y) (id_of x)
      | FR _ _ y :: _ => insert_right agg aeqb ek fuel s (id_of y) (id_of x)
      | [] => POutOfFuel
      end.
  Proof.
    induction sub as [|c l IHl y a r IHr]; intros ctx k s Hne H Hx Hek Hk; [contradiction|].
    cbn [height] in Hk. destruct k as [|k]; [lia|]. cbn [root_id insert_loop descend]. destruct a.
    assert (Ey : ek (id_of y) = y).
    { apply Hek. rewrite (inorder_plug _ ctx). rewrite !in_app_iff. right. left. cbn [inorder]. rewrite in_app_iff. right. left. reflexivity. }
    rewrite Hx, Ey.
    destruct (reprS_focus _ id_of _ _ _ _ _ _ _ _ _ H) as ((_ & X2 & X3 & _) & _).
    unfold get_left, get_right. rewrite X2, X3.
    destruct (less x y).
    - destruct l as [|cl ll yl al lr]; cbn [root_id descend]; [reflexivity|].
      apply (IHl (FL c y r :: ctx) k s); [discriminate|exact H|exact Hx|exact Hek|lia].
    - destruct r as [|cr rl yr ar rr]; cbn [root_id descend]; [reflexivity|].
      apply (IHr (FR c l y :: ctx) k s); [discriminate|exact H|exact Hx|exact Hek|lia].
  Qed.

  Lemma nodup_insert_mid (A B : list N) n : NoDup (n :: A ++ B) -> NoDup (A ++ n :: B).
  Proof.
    intros H. apply NoDup_count_occ with (decA := N.eq_dec). intros j.
    pose proof (count_le_1 _ j H) as C. rewrite count_occ_app. cbn [count_occ] in *. rewrite count_occ_app in C.
    destruct (N.eq_dec n j); lia.
  Qed.

  (* ---- tree_struct::insert refines the functional insert *)
  Theorem p_insert_reprS x (t : tree) (s : pstate) fuel :
    NoDup (id_of x :: ids t) -> isRed t = false -> norr t ->
    ek (id_of x) = x -> ek_ok t ->
    reprs None s t -> height t < fuel ->
    exists s', p_insert less agg aeqb ek fuel s (id_of x) = POk s'
               /\ reprs None s' (insert less uagg x t)
               /\ NoDup (ids (insert less uagg x t)).
  Proof.
    intros Nd Hb Hn Hx Hek H Hf.
    set (ctx := descend x t []).
    assert (Ept : plug ctx E = t) by (apply plug_descend).
    assert (Hok : cok ctx) by (apply descend_cok; [exact Hn|exact I|rewrite Hb; discriminate]).
    assert (Hlen : length ctx <= height t) by (apply (length_descend x t [])).
    assert (Ndl : NoDup (ids (plug ctx (T Red E x tt E)))).
    { rewrite ids_plug. cbn [inorder map app]. apply nodup_insert_mid.
      rewrite <- Ept, ids_plug in Nd. cbn [inorder map app] in Nd. exact Nd. }
    assert (Ndr : NoDup (ids (insert less uagg x t))).
    { rewrite insert_zipper. fold ctx. rewrite inorder_finish_ins, inorder_ins_up. cbn [fst]. exact Ndl. }
    cut (exists s', p_insert less agg aeqb ek fuel s (id_of x) = POk s' /\ reprs None s' (insert less uagg x t)).
    { intros (s' & A & B). exists s'. auto. }
    rewrite insert_zipper. fold ctx.
    unfold p_insert. destruct H as (A & B & C & D).
    destruct t as [|c l y a r].
    - (* empty tree: insert_root *)
      cbn [root_id] in A. rewrite A. unfold insert_root. rewrite A.
      cbn [descend] in ctx. subst ctx.
      destruct (aggregate_node_hooks _ _ agg aeqb ek (set_root s (Some (id_of x))) (id_of x)) as [E1 E2].
      apply (fix_insert_ok _ _ id_of agg aeqb ek fuel [] Red E x tt E); [exact Ndl|exact I| |cbn [length]; lia].
      unfold RbPtrRefineRot.reprs. rewrite E1, E2. cbn [plug p_root set_root p_hooks].
      split; [reflexivity|]. split; [|split].
      + cbn [tinv root_id]. destruct (D (id_of x)) as (D1 & D2 & D3 & _); [cbn; tauto|].
        repeat split; auto. intros H0. exfalso. apply H0. reflexivity.
      + cbn [inorder map app dll]. destruct (D (id_of x)) as (_ & _ & _ & D4 & D5); [cbn; tauto|]. auto.
      + intros j Hj. apply D. cbn. tauto.
    - cbn [root_id] in A. rewrite A.
      pose proof (insert_loop_ok x fuel (T c l y a r) [] fuel s ltac:(discriminate) (conj A (conj B (conj C D))) Hx Hek ltac:(lia)) as EL.
      cbn [root_id] in EL. rewrite EL. fold ctx.
      assert (Hs : reprs None s (plug ctx E)) by (rewrite Ept; exact (conj A (conj B (conj C D)))).
      assert (Hne : ctx <> []).
      { subst ctx. cbn [descend].
        assert (G : forall t0 c0, c0 <> [] -> descend x t0 c0 <> []).
        { induction t0 as [|c0 l0 IHl0 y0 a0 r0 IHr0]; intros c1 Hc; cbn [descend]; [exact Hc|].
          destruct (less x y0); [apply IHl0|apply IHr0]; discriminate. }
        destruct (less x y); apply G; discriminate. }
      clearbody ctx. destruct ctx as [|fr ctx']; [contradiction Hne; reflexivity|].
      destruct fr as [cf yf rf|cf lf yf].
      + (* insert_left *)
        unfold insert_left.
        destruct (reprS_focus_hole _ id_of _ _ _ _ Hs) as (Hc & _). cbn [cinv] in Hc. destruct Hc as ((_ & L & _) & _).
        unfold get_left. rewrite L.
        pose proof (insert_left_links_ok _ _ id_of ctx' cf yf rf x s Ndl Hs) as H1.
        set (s1 := insert_left_links s (id_of yf) (id_of x)) in *.
        destruct (aggregate_node_hooks _ _ agg aeqb ek s1 (id_of x)) as [E1 E2].
        set (s2 := aggregate_node agg aeqb ek s1 (id_of x)) in *.
        assert (H2 : reprs (Some (id_of x)) s2 (plug (FL cf yf rf :: ctx') (T Red E x tt E))).
        { unfold RbPtrRefineRot.reprs. rewrite E1, E2. exact H1. }
        assert (Hc2 : cinv id_of (Some (id_of x)) (p_hooks s2) (FL cf yf rf :: ctx') (Some (id_of x))).
        { destruct H2 as (_ & B2 & _). apply tinv_plug in B2. apply B2. }
        destruct (aggregate_path_ok _ _ id_of agg aeqb ek _ _ _ fuel s2 Hc2 ltac:(lia)) as (s3 & E3 & E3h & E3r).
        cbn [cpar fid] in E3. rewrite E3. cbn [pbind].
        apply (fix_insert_ok _ _ id_of agg aeqb ek fuel (FL cf yf rf :: ctx') Red E x tt E); [exact Ndl|exact Hok| |lia].
        unfold RbPtrRefineRot.reprs. rewrite E3h, E3r. exact H2.
      + (* insert_right *)
        unfold insert_right.
        destruct (reprS_focus_hole _ id_of _ _ _ _ Hs) as (Hc & _). cbn [cinv] in Hc. destruct Hc as ((_ & _ & L & _) & _).
        unfold get_right. rewrite L.
        pose proof (insert_right_links_ok _ _ id_of ctx' cf lf yf x s Ndl Hs) as H1.
        set (s1 := insert_right_links s (id_of yf) (id_of x)) in *.
        destruct (aggregate_node_hooks _ _ agg aeqb ek s1 (id_of x)) as [E1 E2].
        set (s2 := aggregate_node agg aeqb ek s1 (id_of x)) in *.
        assert (H2 : reprs (Some (id_of x)) s2 (plug (FR cf lf yf :: ctx') (T Red E x tt E))).
        { unfold RbPtrRefineRot.reprs. rewrite E1, E2. exact H1. }
        assert (Hc2 : cinv id_of (Some (id_of x)) (p_hooks s2) (FR cf lf yf :: ctx') (Some (id_of x))).
        { destruct H2 as (_ & B2 & _). apply tinv_plug in B2. apply B2. }
        destruct (aggregate_path_ok _ _ id_of agg aeqb ek _ _ _ fuel s2 Hc2 ltac:(lia)) as (s3 & E3 & E3h & E3r).
        cbn [cpar fid] in E3. rewrite E3. cbn [pbind].
        apply (fix_insert_ok _ _ id_of agg aeqb ek fuel (FR cf lf yf :: ctx') Red E x tt E); [exact Ndl|exact Hok| |lia].
        unfold RbPtrRefineRot.reprs. rewrite E3h, E3r. exact H2.
  Qed.
End Insert.
