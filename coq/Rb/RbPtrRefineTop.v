(* RbPtrRefineTop.v — the refinement theorems in their final form: for an arbitrary annotation type / aggregate,
   on the level of [layout]:

     repr s t  :=  _root of s is the root of t, and every hook of s has the fields of [layout t]
                   (the colour of a non-member is not compared: the C++ leaves it stale)

   * [strip] erases annotations; [layout] does not see them, the functional operations commute with it;
   * [p_insert_refines]: the pointer-level insert on a heap that represents a red-black tree t produces a heap
     that represents [insert less agg x t] (for ANY comparator: no order axioms are needed here);
   * [p_run_refines]: a whole history of insertions run on the pointer level from the empty heap stays in [repr]
     with the functional run, never asserts, never dereferences null, never runs out of the stated fuel. *)
From Coq Require Import NArith List Bool Lia PeanoNat.
From FV Require Import Rb.RbModel Rb.RbInorder Rb.RbInvariant Rb.RbLayout Rb.RbPtr Rb.RbPtrBase Rb.RbPtrRefineRot
  Rb.RbPtrRefineIns Rb.RbPtrRefineFix Rb.RbPtrRefineInsert Rb.RbPtrRemF Rb.RbPtrRefineRem Rb.RbPtrRefineUnlink
  Rb.RbPtrRefineReplace Rb.RbPtrRefineRemove Rb.RbAnnot Rb.RbPtrAnnot Rb.RbPtrRefineAttach Rb.RbPtrRefineOrder.
Import ListNotations.

Section Strip.
  Variables elt annot : Type.
  Variable id_of : elt -> N.
  Variable less : elt -> elt -> bool.
  Variable agg : elt -> option annot -> option annot -> annot.
  Notation uagg := (uagg elt).

  Fixpoint strip (t : tree elt annot) : tree elt unit :=
    match t with E => E | T c l x _ r => T c (strip l) x tt (strip r) end.

  Lemma root_id_strip t : root_id id_of (strip t) = root_id id_of t.
  Proof. destruct t; reflexivity. Qed.
  Lemma min_id_strip t : min_id id_of (strip t) = min_id id_of t.
  Proof. induction t as [|c l IHl x a r _]; cbn [strip min_id]; [reflexivity|]. destruct l; [reflexivity|exact IHl]. Qed.
  Lemma max_id_strip t : max_id id_of (strip t) = max_id id_of t.
  Proof. induction t as [|c l _ x a r IHr]; cbn [strip max_id]; [reflexivity|]. destruct r; [reflexivity|exact IHr]. Qed.
  Lemma lay_strip t par lo hi : lay id_of (strip t) par lo hi = lay id_of t par lo hi.
  Proof.
    revert par lo hi. induction t as [|c l IHl x a r IHr]; intros par lo hi; cbn [strip lay]; [reflexivity|].
    rewrite IHl, IHr, !root_id_strip, min_id_strip, max_id_strip. reflexivity.
  Qed.
  Lemma layout_strip t i : layout id_of (strip t) i = layout id_of t i.
  Proof. unfold layout, layout_list. rewrite lay_strip. reflexivity. Qed.
  Lemma inorder_strip t : inorder (strip t) = inorder t.
  Proof. induction t as [|c l IHl x a r IHr]; cbn [strip inorder]; [reflexivity|]. rewrite IHl, IHr. reflexivity. Qed.
  Lemma height_strip t : height (strip t) = height t.
  Proof. induction t as [|c l IHl x a r IHr]; cbn [strip height]; [reflexivity|]. rewrite IHl, IHr. reflexivity. Qed.
  Lemma isRed_strip t : isRed (strip t) = isRed t.
  Proof. destruct t as [|[] ? ? ? ?]; reflexivity. Qed.
  Lemma strip_paintB t : strip (paintB t) = paintB (strip t).
  Proof. destruct t; reflexivity. Qed.
  Lemma strip_paintR t : strip (paintR t) = paintR (strip t).
  Proof. destruct t; reflexivity. Qed.

  Definition sp (p : tree elt annot * ist) : tree elt unit * ist := (strip (fst p), snd p).

  Lemma strip_up_ins c l x r sd st :
    sp (up_ins agg c l x r sd st) = up_ins uagg c (strip l) x (strip r) sd st.
  Proof.
    unfold sp. destruct st as [| |s]; cbn [up_ins].
    - reflexivity.
    - destruct sd, c; cbn [fst snd mk strip]; rewrite ?strip_paintR; reflexivity.
    - destruct sd.
      + rewrite isRed_strip. destruct (isRed r); [cbn [fst snd mk strip]; rewrite !strip_paintB; reflexivity|].
        destruct l as [|lc pl px pa pr]; [reflexivity|]. cbn [strip].
        destruct s; [reflexivity|]. destruct pr as [|nc nl nx na nr]; reflexivity.
      + rewrite isRed_strip. destruct (isRed l); [cbn [fst snd mk strip]; rewrite !strip_paintB; reflexivity|].
        destruct r as [|rc pl px pa pr]; [reflexivity|]. cbn [strip].
        destruct s; [|reflexivity]. destruct pl as [|nc nl nx na nr]; reflexivity.
  Qed.
  Lemma strip_ins x t : sp (ins less agg x t) = ins less uagg x (strip t).
  Proof.
    induction t as [|c l IHl y a r IHr]; cbn [ins strip]; [reflexivity|].
    destruct (less x y).
    - rewrite <- IHl. destruct (ins less agg x l) as [l' st]. unfold sp at 2. cbn [fst snd]. apply strip_up_ins.
    - rewrite <- IHr. destruct (ins less agg x r) as [r' st]. unfold sp at 2. cbn [fst snd]. apply strip_up_ins.
  Qed.
  Lemma strip_insert x t : strip (insert less agg x t) = insert less uagg x (strip t).
  Proof.
    unfold insert. rewrite <- strip_ins. destruct (ins less agg x t) as [t' st]. unfold sp. cbn [fst snd finish_ins].
    destruct st; rewrite ?strip_paintB; reflexivity.
  Qed.
  Lemma rbt_strip t n : rbt t n -> rbt (strip t) n.
  Proof.
    induction 1 as [|l x a r n Hl IHl Hr IHr Bl Br|l x a r n Hl IHl Hr IHr]; cbn [strip]; constructor; auto;
      unfold isBlack in *; rewrite isRed_strip; assumption.
  Qed.
  (* ---- the same for removal *)
  Definition spb (p : tree elt annot * bool) : tree elt unit * bool := (strip (fst p), snd p).
  Lemma isBlack_strip t : isBlack (strip t) = isBlack t.
  Proof. unfold isBlack. rewrite isRed_strip. reflexivity. Qed.
  Lemma strip_bsL c l x rl y rr : spb (bsL agg c l x rl y rr) = bsL uagg c (strip l) x (strip rl) y (strip rr).
  Proof.
    unfold spb, bsL. rewrite !isBlack_strip, isRed_strip. destruct (isBlack rl && isBlack rr); [reflexivity|].
    destruct (isRed rl && isBlack rr); [destruct rl; reflexivity|]. cbn [fst snd mk strip]. rewrite strip_paintB. reflexivity.
  Qed.
  Lemma strip_bsR c ll y lr x r : spb (bsR agg c ll y lr x r) = bsR uagg c (strip ll) y (strip lr) x (strip r).
  Proof.
    unfold spb, bsR. rewrite !isBlack_strip, isRed_strip. destruct (isBlack ll && isBlack lr); [reflexivity|].
    destruct (isRed lr && isBlack ll); [destruct lr; reflexivity|]. cbn [fst snd mk strip]. rewrite strip_paintB. reflexivity.
  Qed.
  Lemma strip_balL c l x r : spb (balL agg c l x r) = balL uagg c (strip l) x (strip r).
  Proof.
    unfold balL. destruct r as [|[] rl y a rr]; cbn [strip]; [reflexivity| |apply strip_bsL].
    destruct rl as [|? a1 z ? b]; cbn [strip]; [reflexivity|].
    pose proof (strip_bsL Red l x a1 z b) as E0. destruct (bsL agg Red l x a1 z b) as [p' sh]. cbn [strip] in E0.
    rewrite <- E0. reflexivity.
  Qed.
  Lemma strip_balR c l x r : spb (balR agg c l x r) = balR uagg c (strip l) x (strip r).
  Proof.
    unfold balR. destruct l as [|[] ll y a lr]; cbn [strip]; [reflexivity| |apply strip_bsR].
    destruct lr as [|? a1 z ? b]; cbn [strip]; [reflexivity|].
    pose proof (strip_bsR Red a1 z b x r) as E0. destruct (bsR agg Red a1 z b x r) as [p' sh]. cbn [strip] in E0.
    rewrite <- E0. reflexivity.
  Qed.
  Lemma strip_half c ch : spb (half c ch) = half c (strip ch).
  Proof. unfold spb, half. destruct c; [reflexivity|]. rewrite isRed_strip. destruct (isRed ch); [cbn; rewrite strip_paintB|]; reflexivity. Qed.
  Lemma strip_remove_max t :
    option_map (fun q : tree elt annot * elt * bool => (strip (fst (fst q)), snd (fst q), snd q)) (remove_max agg t)
    = remove_max uagg (strip t).
  Proof.
    induction t as [|c l _ x a r IHr]; cbn [remove_max strip]; [reflexivity|].
    rewrite <- IHr. destruct (remove_max agg r) as [[[r' m] sh]|]; cbn [option_map fst snd].
    - destruct sh.
      + pose proof (strip_balR c l x r') as E0. destruct (balR agg c l x r') as [t' sh']. rewrite <- E0. reflexivity.
      + reflexivity.
    - pose proof (strip_half c l) as E0. destruct (half c l) as [t' sh]. rewrite <- E0. reflexivity.
  Qed.
  Lemma strip_del_root c l x r : spb (del_root agg c l x r) = del_root uagg c (strip l) x (strip r).
  Proof.
    unfold del_root. destruct l as [|cl ll xl al lr]; [apply strip_half|].
    destruct r as [|cr rl xr ar rr]; [apply (strip_half c (T cl ll xl al lr))|].
    change (strip (T cl ll xl al lr)) with (T cl (strip ll) xl tt (strip lr)).
    change (strip (T cr rl xr ar rr)) with (T cr (strip rl) xr tt (strip rr)).
    pose proof (strip_remove_max (T cl ll xl al lr)) as E0. cbn [strip] in E0. rewrite <- E0.
    destruct (remove_max agg (T cl ll xl al lr)) as [[[l' m] sh]|]; cbn [option_map fst snd]; [|reflexivity].
    destruct sh; [apply (strip_balL c l' m (T cr rl xr ar rr))|reflexivity].
  Qed.
  Lemma strip_del i t : option_map spb (del id_of agg i t) = del id_of uagg i (strip t).
  Proof.
    induction t as [|c l IHl x a r IHr]; cbn [del strip]; [reflexivity|].
    destruct (N.eqb (id_of x) i); [cbn [option_map]; rewrite strip_del_root; reflexivity|].
    rewrite <- IHl. destruct (del id_of agg i l) as [[l' sh]|]; cbn [option_map].
    - destruct sh; [rewrite strip_balL|]; reflexivity.
    - rewrite <- IHr. destruct (del id_of agg i r) as [[r' sh]|]; cbn [option_map]; [|reflexivity].
      destruct sh; [rewrite strip_balR|]; reflexivity.
  Qed.
  Lemma strip_remove i t : strip (remove id_of agg i t) = remove id_of uagg i (strip t).
  Proof.
    unfold remove. rewrite <- strip_del. destruct (del id_of agg i t) as [[t' sh]|]; reflexivity.
  Qed.
  Lemma size_strip t : size (strip t) = size t.
  Proof. induction t as [|c l IHl x a r IHr]; cbn [strip size]; [reflexivity|]. rewrite IHl, IHr. reflexivity. Qed.
  (* ---- and for the order variant *)
  Lemma strip_ins_last x t : sp (ins_last agg x t) = ins_last uagg x (strip t).
  Proof.
    induction t as [|c l _ y a r IHr]; cbn [ins_last strip]; [reflexivity|].
    rewrite <- IHr. destruct (ins_last agg x r) as [r' st]. unfold sp at 2. cbn [fst snd]. apply strip_up_ins.
  Qed.
  Lemma strip_ins_bef b x t : option_map sp (ins_bef id_of agg b x t) = ins_bef id_of uagg b x (strip t).
  Proof.
    induction t as [|c l IHl y a r IHr]; cbn [ins_bef strip]; [reflexivity|].
    destruct (N.eqb (id_of y) b).
    - rewrite <- strip_ins_last. destruct (ins_last agg x l) as [l' st]. unfold sp at 2. cbn [fst snd option_map]. rewrite strip_up_ins. reflexivity.
    - rewrite <- IHl. destruct (ins_bef id_of agg b x l) as [[l' st]|]; cbn [option_map].
      + unfold sp at 2. cbn [fst snd]. rewrite strip_up_ins. reflexivity.
      + rewrite <- IHr. destruct (ins_bef id_of agg b x r) as [[r' st]|]; cbn [option_map]; [|reflexivity].
        unfold sp at 2. cbn [fst snd]. rewrite strip_up_ins. reflexivity.
  Qed.
  Lemma strip_finish_ins p : strip (finish_ins p) = finish_ins (sp p).
  Proof. destruct p as [t' st]. unfold sp. cbn [fst snd finish_ins]. destruct st; rewrite ?strip_paintB; reflexivity. Qed.
  Lemma strip_insert_before b x t : strip (insert_before id_of agg b x t) = insert_before id_of uagg b x (strip t).
  Proof.
    unfold insert_before. destruct b as [b|].
    - rewrite <- strip_ins_bef. destruct (ins_bef id_of agg b x t) as [p|]; cbn [option_map]; [apply strip_finish_ins|reflexivity].
    - rewrite <- strip_ins_last. apply strip_finish_ins.
  Qed.

  (* ---- annotations: the annotation heap holds the annotations of t *)
  Fixpoint areq (an : N -> annot) (t : tree elt annot) : Prop :=
    match t with E => True | T _ l x a r => an (id_of x) = a /\ areq an l /\ areq an r end.
  Lemma areq_aval an t : areq an t -> aval elt annot id_of an (strip t) = ann t.
  Proof. destruct t as [|c l x a r]; cbn; [reflexivity|]. intros (-> & _). reflexivity. Qed.
  Lemma areq_ainv an t : ann_ok agg t -> areq an t -> ainv elt annot id_of agg an (strip t).
  Proof.
    induction t as [|c l IHl x a r IHr]; cbn [ann_ok areq strip RbPtrAnnot.ainv]; [auto|].
    intros (Ea & Ol & Or) (Ex & Al & Ar). rewrite (areq_aval an l Al), (areq_aval an r Ar). split; [congruence|auto].
  Qed.
  Lemma ainv_areq an t : ann_ok agg t -> ainv elt annot id_of agg an (strip t) -> areq an t.
  Proof.
    induction t as [|c l IHl x a r IHr]; cbn [ann_ok areq strip RbPtrAnnot.ainv]; [auto|].
    intros (Ea & Ol & Or) (Ex & Al & Ar). specialize (IHl Ol Al). specialize (IHr Or Ar).
    rewrite (areq_aval an l IHl), (areq_aval an r IHr) in Ex. split; [congruence|auto].
  Qed.
End Strip.
Arguments strip {elt annot} t.
Arguments areq {elt annot} id_of an t.

Section Top.
  Variables elt annot : Type.
  Variable id_of : elt -> N.
  Variable less : elt -> elt -> bool.
  Variable agg : elt -> option annot -> option annot -> annot.
  Variable aeqb : annot -> annot -> bool.
  Notation tree := (tree elt annot).
  Notation ids t := (map id_of (inorder t)).
  Notation pstate := (pstate annot).
  Notation uagg := (uagg elt).
  Notation tree_u := (RbModel.tree elt unit).

  (* the heap [s] represents the tree [t] *)
  Definition repr (s : pstate) (t : tree) : Prop :=
    p_root s = root_id id_of t /\ forall j, hook_sim (p_hooks s j) (layout id_of t j).

  Lemma repr_strip s t : repr s t <-> repr_f id_of (p_hooks s) (p_root s) (strip t).
  Proof.
    unfold repr, repr_f. rewrite root_id_strip. split; intros [A B]; (split; [exact A|]); intros j;
      [rewrite layout_strip|rewrite <- layout_strip]; apply B.
  Qed.
  Lemma repr_reprS s t : NoDup (ids t) -> (repr s t <-> reprs elt annot id_of None s (strip t)).
  Proof.
    intros Nd. rewrite repr_strip. symmetry. apply reprS_repr. rewrite inorder_strip. exact Nd.
  Qed.

  (* the layout state itself *)
  Definition layout_state (t : tree) (a0 : annot) : pstate :=
    mkP (layout id_of t) (root_id id_of t) (fun _ => a0) [].
  Lemma repr_layout_state t a0 : repr (layout_state t a0) t.
  Proof. split; [reflexivity|]. intros j. split; [repeat split|]. intros _. reflexivity. Qed.

  (* ---- (a) in layout form: rotations at ANY node of ANY tree with unique ids *)
  Theorem rotateLeft_refines (ek : N -> elt) ctx cu xl xu a1 cn v xn a2 y (s : pstate) :
    NoDup (map id_of (inorder (plug ctx (T cu xl xu a1 (T cn v xn a2 y))))) ->
    repr_f id_of (p_hooks s) (p_root s) (plug ctx (T cu xl xu a1 (T cn v xn a2 y))) ->
    exists s', rotateLeft agg aeqb ek s (id_of xn) = POk s'
               /\ repr_f id_of (p_hooks s') (p_root s') (plug ctx (T cn (T cu xl xu tt v) xn tt y)).
  Proof.
    intros Nd H. apply (reprS_repr elt id_of _ _ _ Nd) in H.
    destruct (rotateLeft_ok elt annot id_of agg aeqb ek ctx cu xl xu a1 cn v xn a2 y s Nd H) as (s' & A & B).
    exists s'. split; [exact A|]. apply reprS_repr; [|exact B].
    rewrite ids_plug in *. cbn [inorder] in *. rewrite <- app_assoc. exact Nd.
  Qed.
  Theorem rotateRight_refines (ek : N -> elt) ctx cu xl xu a1 cn v xn a2 y (s : pstate) :
    NoDup (map id_of (inorder (plug ctx (T cu (T cn y xn a2 v) xu a1 xl)))) ->
    repr_f id_of (p_hooks s) (p_root s) (plug ctx (T cu (T cn y xn a2 v) xu a1 xl)) ->
    exists s', rotateRight agg aeqb ek s (id_of xn) = POk s'
               /\ repr_f id_of (p_hooks s') (p_root s') (plug ctx (T cn y xn tt (T cu v xu tt xl))).
  Proof.
    intros Nd H. apply (reprS_repr elt id_of _ _ _ Nd) in H.
    destruct (rotateRight_ok elt annot id_of agg aeqb ek ctx cu xl xu a1 cn v xn a2 y s Nd H) as (s' & A & B).
    exists s'. split; [exact A|]. apply reprS_repr; [|exact B].
    rewrite ids_plug in *. cbn [inorder] in *. rewrite <- app_assoc in Nd. exact Nd.
  Qed.
  Definition keys_ok (ek : N -> elt) (t : tree) : Prop := forall y, In y (inorder t) -> ek (id_of y) = y.

  Theorem p_insert_refines (ek : N -> elt) x (t : tree) (s : pstate) fuel :
    NoDup (id_of x :: ids t) -> rb t -> ek (id_of x) = x -> keys_ok ek t ->
    repr s t -> height t < fuel ->
    exists s', p_insert less agg aeqb ek fuel s (id_of x) = POk s' /\ repr s' (insert less agg x t)
               /\ NoDup (ids (insert less agg x t)).
  Proof.
    intros Nd [Hb [n Hr]] Hx Hk H Hf.
    assert (Nd0 : NoDup (ids t)) by (inversion Nd; assumption).
    apply (repr_reprS s t Nd0) in H.
    destruct (p_insert_reprS elt annot id_of less agg aeqb ek x (strip t) s fuel) as (s' & A & B & C).
    - rewrite inorder_strip. exact Nd.
    - rewrite isRed_strip. unfold isBlack in Hb. destruct (isRed t); [discriminate|reflexivity].
    - apply (rbt_norr _ _ n). apply rbt_strip. exact Hr.
    - exact Hx.
    - intros y Hy. rewrite inorder_strip in Hy. apply Hk, Hy.
    - exact H.
    - rewrite height_strip. exact Hf.
    - rewrite <- (strip_insert elt annot less agg) in B, C. rewrite inorder_strip in C.
      exists s'. split; [exact A|]. split; [|exact C]. apply (repr_reprS s' _ C). exact B.
  Qed.

  (* elements of the result (no order axioms) *)
  Lemma insert_elems x (t : tree) y : In y (inorder (insert less agg x t)) <-> y = x \/ In y (inorder t).
  Proof.
    rewrite <- (inorder_strip _ _ (insert less agg x t)), strip_insert, insert_zipper.
    rewrite inorder_finish_ins, inorder_ins_up. cbn [fst].
    rewrite <- (inorder_strip _ _ t). rewrite <- (plug_descend elt less x (strip t) []) at 2.
    rewrite !inorder_plug. repeat (progress (rewrite ?in_app_iff; cbn [In app inorder])). intuition congruence.
  Qed.

  (* ---- histories of insertions on the pointer level; the key of a node is written before it is inserted *)
  Definition set_key (ek : N -> elt) (x : elt) : N -> elt := fun i => if N.eqb i (id_of x) then x else ek i.
  Definition p_ins_step (fuel : nat) (st : pres (pstate * (N -> elt))) (x : elt) : pres (pstate * (N -> elt)) :=
    match st with
    | POk (s, ek) =>
        let ek' := set_key ek x in
        match p_insert less agg aeqb ek' fuel s (id_of x) with
        | POk s' => POk (s', ek')
        | PAssert l => PAssert l | PUB l => PUB l | POutOfFuel => POutOfFuel
        end
    | PAssert l => PAssert l | PUB l => PUB l | POutOfFuel => POutOfFuel
    end.
  Definition p_ins_run (fuel : nat) (xs : list elt) (s0 : pstate) (ek0 : N -> elt) : pres (pstate * (N -> elt)) :=
    fold_left (p_ins_step fuel) xs (POk (s0, ek0)).
  Definition f_ins_run (xs : list elt) (t0 : tree) : tree := fold_left (fun t x => insert less agg x t) xs t0.

  Lemma size_length (t : tree) : size t = length (inorder t).
  Proof. induction t as [|c l IHl x a r IHr]; cbn [size inorder]; [reflexivity|]. rewrite app_length. cbn [length]. lia. Qed.

  Lemma size_remove i (t : tree) : NoDup (ids t) -> size (remove id_of agg i t) <= size t.
  Proof.
    intros Nd. rewrite !size_length, (inorder_remove elt annot id_of agg i t Nd).
    clear. induction (inorder t) as [|e l IH]; cbn [filter length]; [lia|]. destruct (not_id id_of i e); cbn [length]; lia.
  Qed.

  (* ---- tree_crtp_struct::remove refines the functional remove *)
  Theorem p_remove_refines (ek : N -> elt) i (t : tree) (s : pstate) fuel :
    NoDup (ids t) -> rb t -> In i (ids t) -> repr s t ->
    2 * Nat.log2 (size t + 1) + 2 < fuel ->
    exists s', p_remove agg aeqb ek fuel s i = POk s' /\ repr s' (remove id_of agg i t)
               /\ NoDup (ids (remove id_of agg i t)).
  Proof.
    intros Nd Hrb Hi H Hf. pose proof Hrb as [Hb [n Hr]].
    assert (Ndr : NoDup (ids (remove id_of agg i t))).
    { rewrite (inorder_remove elt annot id_of agg i t Nd). apply (filter_nodup elt id_of), Nd. }
    apply (repr_reprS s t Nd) in H.
    pose proof (rb_height elt annot t Hrb) as Hh.
    pose proof (rb_height elt annot _ (remove_rb elt annot id_of agg i t Hrb)) as Hh'.
    assert (Hlog : Nat.log2 (size (remove id_of agg i t) + 1) <= Nat.log2 (size t + 1)).
    { apply Nat.log2_le_mono. pose proof (size_remove i t Nd). lia. }
    destruct (p_remove_reprS elt annot id_of agg aeqb ek (strip t) n i s fuel) as (s' & A & B & _).
    - rewrite inorder_strip. exact Nd.
    - apply rbt_strip, Hr.
    - rewrite inorder_strip. exact Hi.
    - exact H.
    - rewrite height_strip. lia.
    - rewrite <- (strip_remove elt annot id_of agg), height_strip. lia.
    - rewrite <- (strip_remove elt annot id_of agg) in B.
      exists s'. split; [exact A|]. split; [|exact Ndr]. apply (repr_reprS s' _ Ndr). exact B.
  Qed.

  (* ---- the same three operations INCLUDING the annotation heap, for aggregators with [agg_ok]:
     [repr_a s t]: s represents t and stores at every member the annotation t carries there *)
  Definition repr_a (s : pstate) (t : tree) : Prop := repr s t /\ areq id_of (p_annots s) t.

  Lemma keys_tkeys ek (t : tree) : keys_ok ek t -> tkeys elt id_of ek (strip t).
  Proof. intros H y Hy. rewrite inorder_strip in Hy. apply H, Hy. Qed.

  Theorem p_insert_refines_a (ek : N -> elt) x (t : tree) (s : pstate) fuel :
    agg_ok agg aeqb -> ann_ok agg t ->
    NoDup (id_of x :: ids t) -> rb t -> ek (id_of x) = x -> keys_ok ek t ->
    repr_a s t -> height t < fuel ->
    exists s', p_insert less agg aeqb ek fuel s (id_of x) = POk s' /\ repr_a s' (insert less agg x t)
               /\ NoDup (ids (insert less agg x t)).
  Proof.
    intros Ao Oa Nd [Hb [n Hr]] Hx Hk [H Ha] Hf.
    assert (Nd0 : NoDup (ids t)) by (inversion Nd; assumption).
    apply (repr_reprS s t Nd0) in H.
    destruct (p_insert_reprS2 elt annot id_of less agg aeqb ek x (strip t) s fuel) as (s' & A & B & C & D).
    - rewrite inorder_strip. exact Nd.
    - rewrite isRed_strip. unfold isBlack in Hb. destruct (isRed t); [discriminate|reflexivity].
    - apply (rbt_norr _ _ n). apply rbt_strip. exact Hr.
    - exact Hx.
    - intros y Hy. rewrite inorder_strip in Hy. apply Hk, Hy.
    - exact H.
    - rewrite height_strip. exact Hf.
    - rewrite <- (strip_insert elt annot less agg) in B, C, D. rewrite inorder_strip in C.
      exists s'. split; [exact A|]. split; [|exact C]. split; [apply (repr_reprS s' _ C); exact B|].
      apply (ainv_areq elt annot id_of agg); [apply (insert_ann elt annot id_of less agg), Oa|].
      apply D; [exact Ao|]. apply areq_ainv; assumption.
  Qed.

  Theorem p_remove_refines_a (ek : N -> elt) i (t : tree) (s : pstate) fuel :
    agg_ok agg aeqb -> ann_ok agg t -> keys_ok ek t ->
    NoDup (ids t) -> rb t -> In i (ids t) -> repr_a s t ->
    2 * Nat.log2 (size t + 1) + 2 < fuel ->
    exists s', p_remove agg aeqb ek fuel s i = POk s' /\ repr_a s' (remove id_of agg i t)
               /\ NoDup (ids (remove id_of agg i t)).
  Proof.
    intros Ao Oa Hk Nd Hrb Hi [H Ha] Hf. pose proof Hrb as [Hb [n Hr]].
    assert (Ndr : NoDup (ids (remove id_of agg i t))).
    { rewrite (inorder_remove elt annot id_of agg i t Nd). apply (filter_nodup elt id_of), Nd. }
    apply (repr_reprS s t Nd) in H.
    pose proof (rb_height elt annot t Hrb) as Hh.
    pose proof (rb_height elt annot _ (remove_rb elt annot id_of agg i t Hrb)) as Hh'.
    assert (Hlog : Nat.log2 (size (remove id_of agg i t) + 1) <= Nat.log2 (size t + 1)).
    { apply Nat.log2_le_mono. pose proof (size_remove i t Nd). lia. }
    destruct (p_remove_reprS elt annot id_of agg aeqb ek (strip t) n i s fuel) as (s' & A & B & C).
    - rewrite inorder_strip. exact Nd.
    - apply rbt_strip, Hr.
    - rewrite inorder_strip. exact Hi.
    - exact H.
    - rewrite height_strip. lia.
    - rewrite <- (strip_remove elt annot id_of agg), height_strip. lia.
    - rewrite <- (strip_remove elt annot id_of agg) in B, C.
      exists s'. split; [exact A|]. split; [|exact Ndr]. split; [apply (repr_reprS s' _ Ndr); exact B|].
      apply (ainv_areq elt annot id_of agg); [apply (remove_ann elt annot id_of less agg), Oa|].
      apply C; [exact Ao|apply keys_tkeys, Hk|apply areq_ainv; assumption].
  Qed.

  (* tree_order_struct::insert(before, node) refines insert_before (hooks: any aggregator; annotations: agg_ok) *)
  Theorem p_insert_before_refines (ek : N -> elt) before x (t : tree) (s : pstate) fuel :
    NoDup (id_of x :: ids t) -> rb t -> (forall b, before = Some b -> In b (ids t)) ->
    repr s t -> height t < fuel ->
    exists s', p_insert_before agg aeqb ek fuel s before (id_of x) = POk s'
               /\ repr s' (insert_before id_of agg before x t)
               /\ NoDup (ids (insert_before id_of agg before x t))
               /\ (agg_ok agg aeqb -> ann_ok agg t -> ek (id_of x) = x -> keys_ok ek t -> areq id_of (p_annots s) t ->
                   areq id_of (p_annots s') (insert_before id_of agg before x t)).
  Proof.
    intros Nd [Hb [n Hr]] Hbef H Hf.
    assert (Nd0 : NoDup (ids t)) by (inversion Nd; assumption).
    apply (repr_reprS s t Nd0) in H.
    destruct (p_insert_before_reprS elt annot id_of agg aeqb ek before x (strip t) s fuel) as (s' & A & B & C & D).
    - rewrite inorder_strip. exact Nd.
    - rewrite isRed_strip. unfold isBlack in Hb. destruct (isRed t); [discriminate|reflexivity].
    - apply (rbt_norr _ _ n). apply rbt_strip. exact Hr.
    - intros b Eb. rewrite inorder_strip. apply Hbef, Eb.
    - exact H.
    - rewrite height_strip. exact Hf.
    - rewrite <- (strip_insert_before elt annot id_of agg) in B, C, D. rewrite inorder_strip in C.
      exists s'. split; [exact A|]. split; [apply (repr_reprS s' _ C); exact B|]. split; [exact C|].
      intros Ao Oa Hx Hk Ha.
      apply (ainv_areq elt annot id_of agg); [apply (insert_before_ann elt annot id_of less agg), Oa|].
      apply D; [exact Ao|exact Hx|apply keys_tkeys, Hk|apply areq_ainv; assumption].
  Qed.

  Theorem p_ins_run_refines (xs : list elt) : forall (t : tree) (s : pstate) ek fuel,
    NoDup (map id_of xs ++ ids t) -> rb t -> keys_ok ek t -> repr s t ->
    2 * Nat.log2 (length xs + size t + 1) < fuel ->
    exists s' ek', p_ins_run fuel xs s ek = POk (s', ek')
                   /\ repr s' (f_ins_run xs t) /\ rb (f_ins_run xs t) /\ NoDup (ids (f_ins_run xs t))
                   /\ keys_ok ek' (f_ins_run xs t).
  Proof.
    induction xs as [|x xs IH]; intros t s ek fuel Nd Hrb Hk H Hf; unfold p_ins_run, f_ins_run; cbn [fold_left].
    - exists s, ek. cbn [map app] in Nd. auto.
    - cbn [map app] in Nd. apply NoDup_cons_iff in Nd. destruct Nd as [Nx Nd]. rewrite in_app_iff in Nx.
      assert (Nd0 : NoDup (ids t)).
      { clear -Nd. induction (map id_of xs) as [|a l IHl]; cbn [app] in Nd; [exact Nd|]. inversion Nd; auto. }
      assert (Hh : height t < fuel).
      { pose proof (rb_height elt annot t Hrb) as Hh.
        assert (Nat.log2 (size t + 1) <= Nat.log2 (length (x :: xs) + size t + 1)) by (apply Nat.log2_le_mono; lia). lia. }
      assert (Hk' : keys_ok (set_key ek x) t).
      { intros y Hy. unfold set_key. destruct (N.eqb_spec (id_of y) (id_of x)) as [E0|_]; [|apply Hk, Hy].
        exfalso. apply Nx. right. rewrite <- E0. apply in_map, Hy. }
      assert (Hx' : set_key ek x (id_of x) = x) by (unfold set_key; rewrite N.eqb_refl; reflexivity).
      destruct (p_insert_refines (set_key ek x) x t s fuel) as (s1 & E1 & R1 & N1); try assumption.
      { constructor; [tauto|exact Nd0]. }
      cbn [p_ins_step]. rewrite E1.
      assert (Hel : forall j, In j (ids (insert less agg x t)) <-> j = id_of x \/ In j (ids t)).
      { intros j. rewrite !in_map_iff. split.
        - intros (y & <- & Hy). apply insert_elems in Hy. destruct Hy as [->|Hy]; [left; reflexivity|right; exists y; auto].
        - intros [->|(y & <- & Hy)]; [exists x|exists y]; (split; [reflexivity|]); apply insert_elems; auto. }
      assert (Hsz : size (insert less agg x t) = S (size t)).
      { rewrite !size_length.
        assert (G : forall l1 l2 : list N, NoDup l1 -> NoDup l2 -> (forall j, In j l1 <-> In j l2) -> length l1 = length l2).
        { intros l1 l2 A B C. apply Nat.le_antisymm; apply NoDup_incl_length; auto; intros j Hj; apply C; exact Hj. }
        rewrite <- (map_length id_of), <- (map_length id_of (inorder t)).
        change (S (length (ids t))) with (length (id_of x :: ids t)). apply G; [exact N1|constructor; [tauto|exact Nd0]|].
        intros j. rewrite Hel. cbn [In]. intuition congruence. }
      destruct (IH (insert less agg x t) s1 (set_key ek x) fuel) as (s' & ek' & E' & R' & B' & N' & K').
      + clear -Nd Nx Hel N1. apply NoDup_count_occ with (decA := N.eq_dec). intros j.
        rewrite count_occ_app.
        pose proof (count_le_1 _ j Nd) as C1. rewrite count_occ_app in C1.
        pose proof (count_le_1 _ j N1) as C2.
        destruct (in_dec N.eq_dec j (map id_of xs)) as [Hin|Hout].
        * assert (~ In j (ids (insert less agg x t))).
          { rewrite Hel. intros [->|Hj]; [tauto|]. apply count_in in Hin, Hj. lia. }
          apply (count_occ_not_In N.eq_dec) in H. lia.
        * apply (count_occ_not_In N.eq_dec) in Hout. lia.
      + apply insert_rb, Hrb.
      + intros y Hy. apply insert_elems in Hy. destruct Hy as [->|Hy]; [exact Hx'|apply Hk', Hy].
      + exact R1.
      + rewrite Hsz. cbn [length] in Hf. replace (length xs + S (size t) + 1) with (S (length xs) + size t + 1) by lia. exact Hf.
      + exists s', ek'. unfold p_ins_run, f_ins_run in *. auto.
  Qed.
End Top.
