(* RbPtrRefineUnlink.v — refinement (d), first half: remove_half_leaf.  A node with at most one child is taken out of
   the predecessor/successor list, the tree is rebalanced while the node is still in place (fix_remove / blackening of a
   red child), then the node is cut out of the tree and its five links are reset.  The heap afterwards represents what
   the functional model computes for the half leaf: [fst (del_up ctx (half c child))]. *)
From Coq Require Import NArith List Bool Lia PeanoNat.
From FV Require Import Rb.RbModel Rb.RbInorder Rb.RbLayout Rb.RbPtr Rb.RbPtrBase Rb.RbPtrRefineRot Rb.RbPtrRefineIns
  Rb.RbPtrRefineFix Rb.RbPtrRemF Rb.RbPtrRefineRem Rb.RbPtrRefineReplace Rb.RbPtrAnnot Rb.RbPtrAnnotRot Rb.RbPtrAnnotLoops.
Import ListNotations.

Section Unlink.
  Variables elt annot : Type.
  Variable id_of : elt -> N.
  Variable agg : elt -> option annot -> option annot -> annot.
  Variable aeqb : annot -> annot -> bool.
  Variable ek : N -> elt.
  Notation tree := (tree elt unit).
  Notation frame := (frame elt).
  Notation ids t := (map id_of (inorder t)).
  Notation pstate := (pstate annot).
  Notation treeSs := (treeSs elt annot id_of).
  Notation reprs := (reprs elt annot id_of).
  Notation uagg := (uagg elt).
  Notation ainv := (ainv elt annot id_of agg).
  Notation tkeys := (tkeys elt id_of ek).

  (* ---- the list part: pred->successor = succ; succ->predecessor = pred *)
  Definition list_unlink (s : pstate) (x : N) : pstate :=
    let pred := get_pred s x in
    let succ := get_succ s x in
    let s := match pred with Some p => set_succ s p succ | None => s end in
    match succ with Some q => set_pred s q pred | None => s end.

  Lemma list_unlink_ok (s : pstate) L1 x L2 :
    NoDup (L1 ++ x :: L2) -> dll (p_hooks s) None (L1 ++ x :: L2) None ->
    dll (p_hooks (list_unlink s x)) None (L1 ++ L2) None
    /\ ts_same (p_hooks s) (p_hooks (list_unlink s x))
    /\ (forall j, ~ In j (L1 ++ L2) -> p_hooks (list_unlink s x) j = p_hooks s j)
    /\ p_root (list_unlink s x) = p_root s.
  Proof.
    clear agg aeqb ek.
    intros Nd C. apply dll_app in C. destruct C as [C1 C2]. cbn [head_or dll] in C1, C2. destruct C2 as (P1 & P2 & C3).
    unfold list_unlink, get_pred, get_succ. rewrite P1, P2.
    set (q1 := last_or L1 None) in *. set (q2 := match L2 with [] => None | y :: _ => Some y end) in *.
    assert (Hq1 : match q1 with Some q => In q L1 | None => True end).
    { destruct q1 as [q|] eqn:E0; [|exact I]. destruct (last_or_in _ _ _ E0); [discriminate|assumption]. }
    assert (Hq2 : match q2 with Some q => In q L2 | None => True end).
    { subst q2. destruct L2; [exact I|left; reflexivity]. }
    set (s1 := match q1 with Some p => set_succ s p q2 | None => s end).
    set (s2 := match q2 with Some q => set_pred s1 q q1 | None => s1 end).
    assert (F1 : forall j, Some j <> q1 -> p_hooks s1 j = p_hooks s j).
    { intros j Hj. subst s1. destruct q1 as [q|]; [|reflexivity]. rewrite hooks_set_succ, hupd_other; [reflexivity|].
      intros ->. apply Hj. reflexivity. }
    assert (F2 : forall j, Some j <> q2 -> p_hooks s2 j = p_hooks s1 j).
    { intros j Hj. subst s2. destruct q2 as [q|]; [|reflexivity]. rewrite hooks_set_pred, hupd_other; [reflexivity|].
      intros ->. apply Hj. reflexivity. }
    assert (NdL1 : NoDup L1).
    { apply NoDup_count_occ with (decA := N.eq_dec). intros j. pose proof (count_le_1 _ j Nd) as C0.
      rewrite count_occ_app in C0. lia. }
    assert (NdL2 : NoDup L2).
    { apply NoDup_count_occ with (decA := N.eq_dec). intros j. pose proof (count_le_1 _ j Nd) as C0.
      rewrite count_occ_app in C0. cbn [count_occ] in C0. destruct (N.eq_dec x j); lia. }
    split; [|split; [|split]].
    - apply dll_app. split.
      + apply (dll_relink_next (p_hooks s)) with (nx := Some x); [exact C1|exact NdL1| | |].
        * intros j Hj. rewrite F2.
          -- subst s1. destruct q1 as [q|]; [|reflexivity]. rewrite hooks_set_succ. unfold hupd.
             destruct (N.eqb_spec j q) as [->|]; reflexivity.
          -- destruct q2 as [q|]; [|discriminate]. intros E0. injection E0 as ->. nix Nd q.
        * intros j Hj Hl. fold q1 in Hl. rewrite F2, F1; [reflexivity|exact Hl|].
          destruct q2 as [q|]; [|discriminate]. intros E0. injection E0 as ->. nix Nd q.
        * fold q1. destruct q1 as [q|] eqn:E1; [|exact I]. rewrite F2.
          -- subst s1. rewrite hooks_set_succ, hupd_same. cbn. subst q2. destruct L2; reflexivity.
          -- destruct q2 as [q'|]; [|discriminate]. intros E0. injection E0 as ->. nix Nd q'.
      + apply (dll_relink_prev (p_hooks s)) with (p := Some x); [exact C3|exact NdL2| | |].
        * intros j Hj. destruct q2 as [q|] eqn:E2.
          -- destruct (N.eq_dec j q) as [->|Hne].
             ++ subst s2. rewrite hooks_set_pred, hupd_same. cbn [h_succ with_pred]. rewrite F1; [reflexivity|].
                destruct q1 as [q'|]; [|discriminate]. intros E0. injection E0 as ->. nix Nd q'.
             ++ rewrite F2 by (intros E0; injection E0 as ->; apply Hne; reflexivity). rewrite F1; [reflexivity|].
                destruct q1 as [q'|]; [|discriminate]. intros E0. injection E0 as ->. nix Nd q'.
          -- rewrite F2 by discriminate. rewrite F1; [reflexivity|].
             destruct q1 as [q'|]; [|discriminate]. intros E0. injection E0 as ->. nix Nd q'.
        * intros j Hj Hh. assert (E0 : head_or L2 None = q2) by (subst q2; destruct L2; reflexivity).
          rewrite E0 in Hh. rewrite F2 by exact Hh. rewrite F1; [reflexivity|].
          destruct q1 as [q'|]; [|discriminate]. intros E1. injection E1 as ->. nix Nd q'.
        * assert (E0 : head_or L2 None = q2) by (subst q2; destruct L2; reflexivity). rewrite E0.
          destruct q2 as [q|]; [|exact I]. subst s2. rewrite hooks_set_pred, hupd_same. reflexivity.
    - eapply ts_trans; [|subst s2; destruct q2; [apply ts_set_pred|apply ts_refl]].
      subst s1. destruct q1; [apply ts_set_succ|apply ts_refl].
    - intros j Hj. rewrite in_app_iff in Hj. rewrite F2, F1; [reflexivity| |].
      + destruct q1 as [q|]; [|discriminate]. intros E0. injection E0 as ->. tauto.
      + destruct q2 as [q|]; [|discriminate]. intros E0. injection E0 as ->. tauto.
    - subst s2 s1. destruct q1, q2; reflexivity.
  Qed.

  (* ---- the tree part: the slot of the parent gets the child, the child gets the parent, the node is reset *)
  Definition hl (side : bool) (c : color) (ch : tree) (x : elt) (a : unit) : tree :=
    if side then T c E x a ch else T c ch x a E.
  Definition tree_unlink (s : pstate) (ctx : list frame) (x : N) (child : option N) : pstate :=
    let s := set_slot elt annot id_of s ctx child in
    let s := match child with Some c0 => set_parent s c0 (cpar id_of ctx) | None => s end in
    reset_links s x.

  Lemma ids_hl side c ch x a : exists pre post, ids (hl side c ch x a) = pre ++ id_of x :: post /\ ids ch = pre ++ post.
  Proof.
    destruct side; cbn [hl inorder map app].
    - exists [], (ids ch). auto.
    - exists (ids ch), []. rewrite map_app, app_nil_r. auto.
  Qed.

  Lemma tree_unlink_ok side (s : pstate) ctx c ch x a :
    NoDup (ids (plug ctx (hl side c ch x a))) ->
    treeSs None s (plug ctx (hl side c ch x a)) ->
    let s' := tree_unlink s ctx (id_of x) (root_id id_of ch) in
    treeSs None s' (plug ctx ch)
    /\ (forall j, j <> id_of x -> h_pred (p_hooks s' j) = h_pred (p_hooks s j) /\ h_succ (p_hooks s' j) = h_succ (p_hooks s j))
    /\ h_pred (p_hooks s' (id_of x)) = None /\ h_succ (p_hooks s' (id_of x)) = None
    /\ cinv id_of None (p_hooks s') ctx (root_id id_of ch).
  Proof.
    clear agg aeqb ek.
    intros Nd (A & B & D) s'. rewrite ids_plug in Nd, D. rewrite root_plug in A.
    apply tinv_plug in B. destruct B as [Bs Bc].
    assert (Hx : root_id id_of (hl side c ch x a) = Some (id_of x)) by (destruct side; reflexivity).
    rewrite Hx in A, Bc.
    assert (Tch : tinv id_of None (p_hooks s) ch (Some (id_of x))) by (destruct side; cbn [hl tinv] in Bs; tauto).
    destruct (ids_hl side c ch x a) as (pre & post & E1 & E2). rewrite E1 in Nd, D.
    (* the slot *)
    destruct (set_slot_props _ _ id_of ctx _ s (Some (id_of x)) (root_id id_of ch) Nd Bc A) as (R1 & C1 & F1 & P1 & Q1).
    set (s1 := set_slot elt annot id_of s ctx (root_id id_of ch)) in *.
    assert (Nxc : ~ In (id_of x) (cids id_of ctx)) by (unfold cids; ni Nd).
    assert (Nchc : forall j, In j (ids ch) -> ~ In j (cids id_of ctx)).
    { intros j Hj. rewrite E2, in_app_iff in Hj. unfold cids. destruct Hj as [Hj|Hj]; ni Nd. }
    assert (Nxch : ~ In (id_of x) (ids ch)) by (rewrite E2; ni Nd).
    assert (Ndch : NoDup (ids ch)).
    { rewrite E2. apply NoDup_count_occ with (decA := N.eq_dec). intros j. pose proof (count_le_1 _ j Nd) as C0.
      rewrite !count_occ_app in *. cbn [count_occ] in C0. destruct (N.eq_dec (id_of x) j); lia. }
    assert (T1 : tinv id_of None (p_hooks s1) ch (Some (id_of x))).
    { eapply tinv_ext; [|exact Tch]. intros j Hj. apply F1, Nchc, Hj. }
    (* the child's parent *)
    set (s2 := match root_id id_of ch with Some c0 => set_parent s1 c0 (cpar id_of ctx) | None => s1 end).
    assert (T2 : tinv id_of None (p_hooks s2) ch (cpar id_of ctx) /\ cinv id_of None (p_hooks s2) ctx (root_id id_of ch)
                 /\ p_root s2 = p_root s1 /\ ps_same (p_hooks s1) (p_hooks s2)
                 /\ (forall j, ~ In j (ids ch) -> p_hooks s2 j = p_hooks s1 j)).
    { subst s2. pose proof (tinv_reparent _ id_of None (p_hooks s1) ch _ (cpar id_of ctx) T1) as TR.
      destruct ch as [|cc cl cx ca cr]; cbn [root_id] in *.
      - split; [exact TR|]. split; [exact C1|]. split; [reflexivity|]. split; [apply ps_refl|auto].
      - rewrite hooks_set_parent. split.
        + apply TR; [reflexivity| |]; cbn [inorder] in Ndch; ni Ndch.
        + split; [apply cinv_hupd; [apply Nchc; cbn [inorder]; rewrite map_app, in_app_iff; right; left; reflexivity|exact C1]|].
          split; [reflexivity|]. split; [apply ps_hupd; reflexivity|].
          intros j Hj. apply hupd_other. intros ->. apply Hj. cbn [inorder]. rewrite map_app, in_app_iff. right. left. reflexivity. }
    destruct T2 as (T2 & C2 & R2 & P2 & F2).
    (* the reset *)
    assert (F3 : forall j, j <> id_of x -> p_hooks s' j = p_hooks s2 j).
    { intros j Hj. subst s'. unfold tree_unlink. fold s1. fold s2. unfold reset_links.
      rewrite hooks_set_succ, hooks_set_pred, hooks_set_parent, hooks_set_right, hooks_set_left, !hupd_other by exact Hj. reflexivity. }
    assert (X3 : p_hooks s' (id_of x) = mkHook None None None None None (h_color (p_hooks s2 (id_of x)))).
    { subst s'. unfold tree_unlink. fold s1. fold s2. unfold reset_links.
      rewrite hooks_set_succ, hupd_same, hooks_set_pred, hupd_same, hooks_set_parent, hupd_same, hooks_set_right, hupd_same,
        hooks_set_left, hupd_same. reflexivity. }
    assert (R3 : p_root s' = p_root s2) by reflexivity.
    split; [|split; [|split; [|split]]].
    - split; [rewrite root_plug, R3, R2; exact R1|]. split.
      + apply tinv_plug. split.
        * eapply tinv_ext; [|exact T2]. intros j Hj. apply F3. intros ->. contradiction.
        * eapply cinv_ext; [|exact C2]. intros j Hj. apply F3. intros ->. contradiction.
      + rewrite ids_plug, E2. intros j Hj. destruct (N.eq_dec j (id_of x)) as [->|Hne].
        * rewrite X3. repeat split.
        * rewrite F3 by exact Hne. rewrite F2 by (rewrite E2; rewrite !in_app_iff in *; tauto).
          rewrite F1 by (unfold cids; rewrite !in_app_iff in *; tauto).
          apply D. rewrite !in_app_iff in *. cbn [In].
          assert (id_of x <> j) by (intros E0; apply Hne; symmetry; exact E0). tauto.
    - intros j Hj. rewrite F3 by exact Hj. destruct (P2 j) as [-> ->]. apply P1.
    - rewrite X3. reflexivity.
    - rewrite X3. reflexivity.
    - eapply cinv_ext; [|exact C2]. intros j Hj. apply F3. intros ->. contradiction.
  Qed.

  Lemma root_id_half c (ch : tree) : root_id id_of (fst (half c ch)) = root_id id_of ch.
  Proof. unfold half. destruct c; [reflexivity|]. destruct (isRed ch); [destruct ch|]; reflexivity. Qed.
  Lemma inorder_half' c (ch : tree) : inorder (fst (half c ch)) = inorder ch.
  Proof. apply inorder_half. Qed.

  Lemma an_reset_links (s : pstate) i : p_annots (reset_links s i) = p_annots s.
  Proof. reflexivity. Qed.
  Lemma an_match_parent (s : pstate) (o : option N) v :
    p_annots (match o with Some c0 => set_parent s c0 v | None => s end) = p_annots s.
  Proof. destruct o; reflexivity. Qed.

  (* ---- remove_half_leaf(node, child): node = x with the single (possibly empty) child subtree ch *)
  Theorem remove_half_leaf_ok side fuel ctx c ch x a (s : pstate) :
    NoDup (ids (plug ctx (hl side c ch x a))) ->
    reprs None s (plug ctx (hl side c ch x a)) ->
    (snd (half c ch) = true -> rem_ok elt ctx) ->
    length ctx + 2 < fuel ->
    exists s', remove_half_leaf agg aeqb ek fuel s (id_of x) (root_id id_of ch) = POk s'
               /\ reprs None s' (fst (del_up ctx (half c ch)))
               /\ (agg_ok agg aeqb -> tkeys (plug ctx (hl side c ch x a)) -> ainv (p_annots s) (plug ctx (hl side c ch x a)) ->
                   ainv (p_annots s') (fst (del_up ctx (half c ch)))).
  Proof.
    intros Nd H Hok Hf. destruct a. apply reprS_split in H. destruct H as [Ht Hl].
    destruct (ids_hl side c ch x tt) as (pre & post & E1 & E2).
    set (L1 := cbefore id_of ctx ++ pre). set (L2 := post ++ cafter id_of ctx).
    assert (EL : ids (plug ctx (hl side c ch x tt)) = L1 ++ id_of x :: L2).
    { rewrite ids_plug, E1. subst L1 L2. rewrite <- !app_assoc. reflexivity. }
    rewrite EL in Hl. destruct Hl as [Hd Hn]. pose proof Nd as NdL. rewrite EL in NdL.
    (* 1: the list *)
    destruct (list_unlink_ok s L1 (id_of x) L2 NdL Hd) as (D1 & TS1 & F1 & R1).
    unfold remove_half_leaf. cbv zeta.
    change (match get_succ s (id_of x) with
            | Some q => set_pred match get_pred s (id_of x) with
                                 | Some p => set_succ s p (get_succ s (id_of x)) | None => s end q (get_pred s (id_of x))
            | None => match get_pred s (id_of x) with Some p => set_succ s p (get_succ s (id_of x)) | None => s end
            end) with (list_unlink s (id_of x)).
    set (s1 := list_unlink s (id_of x)) in *.
    assert (Ht1 : treeSs None s1 (plug ctx (hl side c ch x tt))).
    { unfold RbPtrRefineRot.treeSs. rewrite R1. eapply treeS_ts; [exact TS1|exact Ht]. }
    assert (An1 : p_annots s1 = p_annots s).
    { subst s1. unfold list_unlink. destruct (get_pred s (id_of x)), (get_succ s (id_of x)); reflexivity. }
    (* 2: the colours / fix_remove, with the node still in place *)
    set (hf := half c ch). set (ch' := fst hf). set (sh := snd hf). set (ctx2 := rem_ctx_b ctx sh).
    assert (Ech : ids ch' = ids ch) by (subst ch' hf; rewrite inorder_half'; reflexivity).
    assert (Erc : root_id id_of ch' = root_id id_of ch) by apply root_id_half.
    assert (Hx1 : get_color s1 (id_of x) = Some c /\ tinv id_of None (p_hooks s1) ch (Some (id_of x))).
    { destruct Ht1 as (_ & B & _). apply tinv_plug in B. destruct B as [B _]. unfold get_color.
      destruct side; cbn [hl tinv] in B; unfold node_ok in B; (split; [apply B; discriminate|tauto]). }
    destruct Hx1 as [Hc1 Tch1].
    assert (Step2 : exists s2,
      (if ceqb (get_color s1 (id_of x)) (Some Black) then
         if p_isRed s1 (root_id id_of ch) then
           match root_id id_of ch with Some c0 => POk (set_color s1 c0 (Some Black)) | None => PUB 334 end
         else fix_remove agg aeqb ek fuel s1 (id_of x)
       else POk s1) = POk s2
      /\ treeSs None s2 (plug ctx2 (hl side c ch' x tt)) /\ ps_same (p_hooks s1) (p_hooks s2)
      /\ (agg_ok agg aeqb -> tkeys (plug ctx (hl side c ch x tt)) -> ainv (p_annots s1) (plug ctx (hl side c ch x tt)) ->
          ainv (p_annots s2) (plug ctx2 (hl side c ch' x tt)))).
    { rewrite Hc1. rewrite (p_isRed_root _ _ id_of s1 ch _ Tch1).
      subst ctx2 sh ch' hf. unfold half. destruct c; cbn [ceqb].
      - exists s1. split; [reflexivity|]. cbn [fst snd rem_ctx_b]. split; [exact Ht1|]. split; [apply ps_refl|auto].
      - destruct (isRed ch) eqn:Er.
        + destruct ch as [|[] cl cx ca cr]; try discriminate. cbn [root_id fst snd rem_ctx_b paintB].
          eexists. split; [reflexivity|]. split; [|split; [apply ps_set_color|]].
          { destruct side; cbn [hl] in *.
            * apply (set_color_t _ _ id_of None (FR Black E x :: ctx) Red cl cx ca cr s1 Black); [exact Nd|left; reflexivity|exact Ht1].
            * apply (set_color_t _ _ id_of None (FL Black x E :: ctx) Red cl cx ca cr s1 Black); [exact Nd|left; reflexivity|exact Ht1]. }
          intros _ _ Ha. change (p_annots (set_color s1 (id_of cx) (Some Black))) with (p_annots s1).
          apply ainv_plug in Ha. apply ainv_plug. destruct side; cbn [hl] in *; exact Ha.
        + cbn [fst snd rem_ctx_b].
          assert (Hs : snd (half Black ch) = true) by (unfold half; rewrite Er; reflexivity).
          destruct side; cbn [hl] in *.
          * destruct (fix_remove_t _ _ id_of agg aeqb ek fuel ctx E x tt ch s1 Nd (Hok Hs) Ht1 ltac:(lia)) as (s2 & A & B & C).
            exists s2. split; [exact A|]. split; [exact B|]. split; [exact C|].
            intros [Ao1 Ao2] Hk Ha.
            destruct (fix_remove_PA _ _ id_of agg aeqb ek Ao1 Ao2 fuel s1 (id_of x) s2 A) as (t2 & N2 & T2 & K2 & A2).
            { exists (plug ctx (T Black E x tt ch)). auto. }
            assert (Kr : tkeys (plug (rem_ctx ctx) (T Black E x tt ch))).
            { intros e He. apply Hk. rewrite <- (inorder_rem_ctx_b elt ctx true). exact He. }
            rewrite <- (treeS_unique _ _ id_of ek None s2 _ _ T2 B eq_refl K2 Kr). exact A2.
          * destruct (fix_remove_t _ _ id_of agg aeqb ek fuel ctx ch x tt E s1 Nd (Hok Hs) Ht1 ltac:(lia)) as (s2 & A & B & C).
            exists s2. split; [exact A|]. split; [exact B|]. split; [exact C|].
            intros [Ao1 Ao2] Hk Ha.
            destruct (fix_remove_PA _ _ id_of agg aeqb ek Ao1 Ao2 fuel s1 (id_of x) s2 A) as (t2 & N2 & T2 & K2 & A2).
            { exists (plug ctx (T Black ch x tt E)). auto. }
            assert (Kr : tkeys (plug (rem_ctx ctx) (T Black ch x tt E))).
            { intros e He. apply Hk. rewrite <- (inorder_rem_ctx_b elt ctx true). exact He. }
            rewrite <- (treeS_unique _ _ id_of ek None s2 _ _ T2 B eq_refl K2 Kr). exact A2. }
    destruct Step2 as (s2 & E2' & Ht2 & PS2 & AN2). rewrite E2'. cbn [pbind].
    (* in-order walk unchanged *)
    assert (EL2 : ids (plug ctx2 (hl side c ch' x tt)) = L1 ++ id_of x :: L2).
    { subst ctx2. rewrite inorder_rem_ctx_b. rewrite <- EL. rewrite !ids_plug. f_equal. f_equal.
      destruct side; cbn [hl inorder]; rewrite !map_app; cbn [map]; rewrite ?Ech; reflexivity. }
    assert (Nd2 : NoDup (ids (plug ctx2 (hl side c ch' x tt)))) by (rewrite EL2; exact NdL).
    (* 3: the assertion, the slot, the child's parent, the reset *)
    assert (Hx2 : get_left s2 (id_of x) = root_id id_of (if side then E else ch')
                  /\ get_right s2 (id_of x) = root_id id_of (if side then ch' else E)
                  /\ get_parent s2 (id_of x) = cpar id_of ctx2
                  /\ cinv id_of None (p_hooks s2) ctx2 (Some (id_of x))).
    { destruct Ht2 as (_ & B & _). apply tinv_plug in B. destruct B as [B Bc]. unfold get_left, get_right, get_parent.
      destruct side; cbn [hl tinv root_id] in B, Bc; unfold node_ok in B; tauto. }
    destruct Hx2 as (HL2 & HR2 & HP2 & Hc2).
    rewrite HL2, HR2, HP2. rewrite <- Erc.
    assert (Eas : (oeqb (root_id id_of (if side then E else ch')) None && oeqb (root_id id_of (if side then ch' else E)) (root_id id_of ch')
                   || oeqb (root_id id_of (if side then E else ch')) (root_id id_of ch') && oeqb (root_id id_of (if side then ch' else E)) None) = true).
    { destruct side; cbn [root_id]; rewrite ?oeqb_refl; cbn; rewrite ?orb_true_r; reflexivity. }
    rewrite Eas. cbn [negb].
    assert (NdC : NoDup (cbefore id_of ctx2 ++ ids (hl side c ch' x tt) ++ cafter id_of ctx2)) by (rewrite <- ids_plug; exact Nd2).
    assert (Hin : In (id_of x) (ids (hl side c ch' x tt))).
    { destruct side; cbn [hl inorder]; rewrite map_app, in_app_iff; cbn [map In]; tauto. }
    pose proof (slot_code _ _ id_of ctx2 _ (id_of x) 352 s2 (root_id id_of ch') NdC Hin Hc2) as ES.
    rewrite ES. cbn [pbind].
    destruct (tree_unlink_ok side s2 ctx2 c ch' x tt Nd2 Ht2) as (Ht3 & PS3 & PX1 & PX2 & Hc3).
    change (reset_links match root_id id_of ch' with
                        | Some c0 => set_parent (set_slot elt annot id_of s2 ctx2 (root_id id_of ch')) c0 (cpar id_of ctx2)
                        | None => set_slot elt annot id_of s2 ctx2 (root_id id_of ch') end (id_of x))
      with (tree_unlink s2 ctx2 (id_of x) (root_id id_of ch')).
    set (s3 := tree_unlink s2 ctx2 (id_of x) (root_id id_of ch')) in *.
    (* aggregate_path *)
    assert (AP : exists s4, match cpar id_of ctx2 with Some _ => aggregate_path agg aeqb ek fuel s3 (cpar id_of ctx2) | None => POk s3 end = POk s4
                            /\ p_hooks s4 = p_hooks s3 /\ p_root s4 = p_root s3
                            /\ (agg_ok agg aeqb -> ckeys elt id_of ek ctx2 -> acopen elt annot id_of agg (p_annots s3) ctx2 ->
                                acinv elt annot id_of agg (p_annots s4) ctx2 (option_map (p_annots s3) (root_id id_of ch'))
                                /\ forall j, ~ In j (cnodes elt id_of ctx2) -> p_annots s4 j = p_annots s3 j)).
    { assert (Hlen : length ctx2 <= fuel) by (subst ctx2; pose proof (length_rem_ctx_b elt ctx sh); lia).
      destruct (aggregate_path_ok _ _ id_of agg aeqb ek None ctx2 _ fuel s3 Hc3 Hlen) as (s4 & A & B & C).
      assert (G : agg_ok agg aeqb -> ckeys elt id_of ek ctx2 -> acopen elt annot id_of agg (p_annots s3) ctx2 ->
                  acinv elt annot id_of agg (p_annots s4) ctx2 (option_map (p_annots s3) (root_id id_of ch'))
                  /\ forall j, ~ In j (cnodes elt id_of ctx2) -> p_annots s4 j = p_annots s3 j).
      { intros [Ao1 Ao2] Hk Ho.
        destruct (aggregate_path_annots _ _ id_of agg aeqb ek Ao1 None ctx2 (ids ch') (root_id id_of ch') fuel s3) as (s4' & A' & _ & _ & G1 & G2);
          try assumption.
        - rewrite ids_plug in Nd2. revert Nd2. destruct side; cbn [hl inorder]; rewrite ?map_app; cbn [map app]; rewrite ?app_nil_r; intros Nd2;
            apply NoDup_count_occ with (decA := N.eq_dec); intros j; pose proof (count_le_1 _ j Nd2) as C0;
            repeat rewrite ?count_occ_app in *; cbn [count_occ] in *; repeat rewrite ?count_occ_app in *; cbn [count_occ] in *;
            destruct (N.eq_dec (id_of x) j); lia.
        - intros i Hi. destruct ch' as [|? ? ? ? ?]; [discriminate|]. cbn in Hi. injection Hi as <-. cbn [inorder].
          rewrite map_app, in_app_iff. right. left. reflexivity.
        - rewrite A in A'. injection A' as <-. auto. }
      destruct (cpar id_of ctx2) eqn:Ecp; [exists s4; auto|]. exists s3. split; [reflexivity|]. split; [reflexivity|]. split; [reflexivity|].
      intros Ao Hk Ho. destruct ctx2; [|discriminate]. cbn. auto. }
    destruct AP as (s4 & E4 & H4h & H4r & AN4). rewrite E4.
    exists s4. split; [reflexivity|].
    assert (Eres : fst (del_up ctx hf) = plug ctx2 ch') by (subst ctx2 ch' sh; apply del_up_ctx').
    rewrite Eres.
    assert (Ex0 : forall j, ~ In j (cids id_of ctx2) -> ~ In j (cnodes elt id_of ctx2)).
    { intros j Hj Hc0. apply Hj. apply cnodes_cids. exact Hc0. }
    split; [|
      intros Ao Hk Ha;
      assert (An3 : p_annots s3 = p_annots s2) by
        (subst s3; unfold tree_unlink; rewrite (an_reset_links _ _), (an_match_parent _ _), (an_set_slot _ _ id_of); reflexivity);
      rewrite An1 in AN2; specialize (AN2 Ao Hk Ha);
      assert (Kc : tkeys (plug ctx2 (hl side c ch' x tt))) by
        (intros e He; apply Hk; subst ctx2; rewrite (inorder_rem_ctx_b elt ctx sh) in He;
         rewrite inorder_plug in *; revert He; destruct side; cbn [hl inorder]; subst ch' hf; rewrite inorder_half'; auto);
      apply tkeys_plug in Kc; destruct Kc as [Kh Kc];
      apply ainv_plug in AN2; destruct AN2 as [Ah Ac];
      destruct (AN4 Ao Kc) as [G1 G2]; [rewrite An3; eapply acinv_open; exact Ac|];
      apply ainv_plug; rewrite An3 in G1, G2;
      assert (Fch : forall j, In j (ids ch') -> p_annots s4 j = p_annots s2 j) by
        (intros j Hj; apply G2, Ex0; unfold cids; rewrite ids_plug in Nd2; revert Hj Nd2; clear;
         destruct side; cbn [hl inorder]; rewrite ?map_app; cbn [map]; intros Hj Nd2; ni Nd2);
      split; [eapply ainv_ext; [exact Fch|destruct side; cbn [hl RbPtrAnnot.ainv] in Ah; tauto]|];
      rewrite (aval_ext _ _ id_of _ _ ch' Fch); exact G1 ].
    (* the result *)
    apply reprS_split. unfold RbPtrRefineRot.treeSs in Ht3. rewrite H4h, H4r. split; [exact Ht3|].
    assert (EL3 : ids (plug ctx2 ch') = L1 ++ L2).
    { rewrite ids_plug in EL2 |- *.
      assert (Eh : ids (hl side c ch' x tt) = pre ++ id_of x :: post).
      { rewrite <- E1. destruct side; cbn [hl inorder]; rewrite !map_app; cbn [map]; rewrite ?Ech; reflexivity. }
      rewrite Eh in EL2.
      assert (E0 : (cbefore id_of ctx2 ++ pre) ++ id_of x :: (post ++ cafter id_of ctx2) = L1 ++ id_of x :: L2).
      { rewrite <- EL2. rewrite <- !app_assoc. reflexivity. }
      symmetry in E0. destruct (nodup_split_unique_N _ _ _ _ _ NdL E0) as [G1 G2].
      rewrite Ech, E2, G1, G2. rewrite <- !app_assoc. reflexivity. }
    rewrite EL3.
    assert (Nx : ~ In (id_of x) (L1 ++ L2)).
    { apply count_notin. pose proof (count_le_1 _ (id_of x) NdL) as C0. rewrite !count_occ_app in *. cbn [count_occ] in C0.
      destruct (N.eq_dec (id_of x) (id_of x)); [lia|contradiction]. }
    split.
    - revert D1. apply dll_ext. intros j Hj.
      assert (j <> id_of x) by (intros ->; contradiction).
      destruct (PS3 j H) as [-> ->]. apply PS2.
    - intros j Hj. destruct (N.eq_dec j (id_of x)) as [->|Hne]; [auto|].
      destruct (PS3 j Hne) as [-> ->]. destruct (PS2 j) as [-> ->]. rewrite (F1 j Hj). apply Hn.
      rewrite in_app_iff in *. cbn [In]. intros [G|[G|G]]; [tauto|apply Hne; symmetry; exact G|tauto].
  Qed.
End Unlink.
