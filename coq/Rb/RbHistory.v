(* RbHistory.v — everything together over arbitrary histories (generic element type / aggregate), and the
   explicit position statement for stable insertion. *)
From Coq Require Import NArith List Bool Sorted Lia PeanoNat.
From FV Require Import Rb.RbModel Rb.RbInorder Rb.RbInvariant Rb.RbLayout.
Import ListNotations.

Section RbHistory.
  Variables elt annot : Type.
  Variable id_of : elt -> N.
  Variable less : elt -> elt -> bool.
  Variable agg : elt -> option annot -> option annot -> annot.
  Notation tree := (tree elt annot).
  Hypothesis less_asym : forall a b, less a b = true -> less b a = false.
  Hypothesis less_negtrans : forall a b c, less a b = false -> less b c = false -> less a c = false.

  Local Notation ins_stable := (@ins_stable elt less).
  Local Notation list_step := (@list_step elt id_of less).
  Local Notation ids := (@ids elt id_of).
  Local Notation sorted := (@sorted elt less).
  Local Notation not_id := (@not_id elt id_of).

  (* where stable insertion puts x: after every element that is not greater (in particular after all equal
     ones, i.e. equal keys stay in insertion order), before every greater one *)
  Lemma ins_stable_position x l : sorted l ->
    exists l1 l2, l = l1 ++ l2 /\ ins_stable x l = l1 ++ x :: l2
                  /\ Forall (fun e => less x e = false) l1 /\ Forall (fun e => less x e = true) l2.
  Proof.
    induction 1 as [|y l Hs IH Hf]; cbn [RbInorder.ins_stable].
    - exists [], []. repeat split; constructor.
    - destruct (less x y) eqn:Hxy.
      + exists [], (y :: l). repeat split; [constructor|]. constructor; [exact Hxy|].
        rewrite Forall_forall in *. intros z Hz. specialize (Hf z Hz). unfold le in Hf.
        destruct (less x z) eqn:Hxz; [reflexivity|]. exfalso.
        (* less x z = false, less z y = false -> less x y = false *)
        rewrite (less_negtrans x z y Hxz Hf) in Hxy. discriminate.
      + destruct IH as (l1 & l2 & -> & E2 & F1 & F2).
        exists (y :: l1), l2. repeat split; [cbn; rewrite E2; reflexivity| |exact F2].
        constructor; assumption.
  Qed.

  (* first() is a minimum: nothing contained is smaller (used by the slab pool, C01) *)
  Theorem first_minimal (t : tree) x : sorted (inorder t) -> first t = Some x ->
    Forall (fun e => less e x = false) (inorder t).
  Proof.
    intros Hs Hf. rewrite (first_is_head elt annot t) in Hf.
    destruct (inorder t) as [|y l]; [discriminate|]. cbn in Hf. injection Hf as ->.
    inversion Hs as [|? ? _ Hall]; subst. constructor; [|exact Hall].
    destruct (less x x) eqn:E0; [|reflexivity]. rewrite (less_asym x x E0) in E0. discriminate.
  Qed.

  Lemma history_rb (ops : list (op elt)) (t : tree) :
    rb t -> rb (fold_left (rb_step id_of less agg) ops t).
  Proof.
    revert t. induction ops as [|o ops IH]; intros t H; cbn [fold_left]; [exact H|].
    apply IH. destruct o; cbn [rb_step]; [apply insert_rb|apply remove_rb]; exact H.
  Qed.
  Lemma order_history_rb (ops : list (oop elt)) (t : tree) :
    rb t -> rb (fold_left (rbo_step id_of agg) ops t).
  Proof.
    revert t. induction ops as [|o ops IH]; intros t H; cbn [fold_left]; [exact H|].
    apply IH. destruct o; cbn [rbo_step]; [apply insert_before_rb|apply remove_rb]; exact H.
  Qed.

  Theorem history_all (ops : list (op elt)) :
    ids_fresh id_of less ops ->
    let t := fold_left (rb_step id_of less agg) ops E in
    inorder t = fold_left list_step ops []
    /\ sorted (inorder t) /\ NoDup (ids (inorder t))
    /\ rb t /\ height t <= 2 * Nat.log2 (size t + 1)
    /\ links_consistent id_of (layout id_of t) t
    /\ forall i, ~ In i (ids (inorder t)) -> layout id_of t i = null_hook.
  Proof.
    intros Hok t.
    destruct (history_refines elt annot id_of less agg less_asym less_negtrans ops E [] eq_refl
                (SSorted_nil _) (NoDup_nil _) Hok) as (A & B & C).
    fold t in A. rewrite <- A in B, C.
    assert (R : rb t) by (apply history_rb, rb_E_ok).
    split; [exact A|]. split; [exact B|]. split; [exact C|]. split; [exact R|].
    split; [apply rb_height, R|]. split; [apply layout_links_consistent, C|].
    apply layout_nonmember.
  Qed.

  Theorem order_history_all (ops : list (oop elt)) :
    oops_ok id_of [] ops ->
    let t := fold_left (rbo_step id_of agg) ops E in
    inorder t = fold_left (olist_step id_of) ops []
    /\ NoDup (ids (inorder t))
    /\ rb t /\ height t <= 2 * Nat.log2 (size t + 1)
    /\ links_consistent id_of (layout id_of t) t.
  Proof.
    intros Hok t.
    destruct (order_history_refines elt annot id_of agg ops E [] eq_refl (NoDup_nil _) Hok) as (A & C).
    fold t in A. rewrite <- A in C.
    assert (R : rb t) by (apply order_history_rb, rb_E_ok).
    split; [exact A|]. split; [exact C|]. split; [exact R|]. split; [apply rb_height, R|].
    apply layout_links_consistent, C.
  Qed.

  (* a removed element's hook is fully reset *)
  Theorem removed_hook_reset (t : tree) i : NoDup (ids (inorder t)) ->
    layout id_of (remove id_of agg i t) i = null_hook.
  Proof.
    intros Nd. apply layout_nonmember. rewrite (inorder_remove elt annot id_of agg i t Nd).
    intros Hin. apply filter_ids_in in Hin. tauto.
  Qed.

  (* a removed element can be inserted again and everything holds for the result *)
  Theorem reinsert_all (t : tree) x :
    rb t -> sorted (inorder t) -> NoDup (ids (inorder t)) ->
    let t' := insert less agg x (remove id_of agg (id_of x) t) in
    inorder t' = ins_stable x (filter (not_id (id_of x)) (inorder t))
    /\ sorted (inorder t') /\ NoDup (ids (inorder t'))
    /\ rb t' /\ height t' <= 2 * Nat.log2 (size t' + 1)
    /\ links_consistent id_of (layout id_of t') t'
    /\ layout id_of (remove id_of agg (id_of x) t) (id_of x) = null_hook.
  Proof.
    intros R S Nd t'.
    pose proof (inorder_remove elt annot id_of agg (id_of x) t Nd) as E1.
    assert (S1 : sorted (inorder (remove id_of agg (id_of x) t))) by (rewrite E1; apply filter_sorted, S).
    assert (N1 : NoDup (ids (inorder (remove id_of agg (id_of x) t)))) by (rewrite E1; apply filter_nodup, Nd).
    assert (Hni : ~ In (id_of x) (ids (inorder (remove id_of agg (id_of x) t)))).
    { rewrite E1. intros Hin. apply filter_ids_in in Hin. tauto. }
    pose proof (inorder_insert elt annot less agg less_negtrans x _ S1) as E2. fold t' in E2.
    assert (R' : rb t') by (apply insert_rb, remove_rb, R).
    assert (N2 : NoDup (ids (inorder t'))) by (rewrite E2; apply ins_stable_nodup; assumption).
    split; [rewrite E2, E1; reflexivity|].
    split; [rewrite E2; apply ins_stable_sorted; assumption|].
    split; [exact N2|]. split; [exact R'|]. split; [apply rb_height, R'|].
    split; [apply layout_links_consistent, N2|].
    apply layout_nonmember, Hni.
  Qed.
End RbHistory.
