(* RbInorder.v — the in-order walk of the model: insertion = stable sorted insertion, removal = filter,
   insert_before = list insertion, first = head; refinement of every history to the list specification. *)
From Coq Require Import NArith List Bool Sorted Lia.
From FV Require Import Rb.RbModel.
Import ListNotations.

Section OrderSpec.
  Variable elt : Type.
  Variable less : elt -> elt -> bool.
  Hypothesis less_asym : forall a b, less a b = true -> less b a = false.
  Hypothesis less_negtrans : forall a b c, less a b = false -> less b c = false -> less a c = false.

  Fixpoint ins_stable (x : elt) (l : list elt) : list elt :=
    match l with
    | [] => [x]
    | y :: l' => if less x y then x :: y :: l' else y :: ins_stable x l'
    end.
  Definition le (a b : elt) : Prop := less b a = false.
  Definition sorted (l : list elt) : Prop := StronglySorted le l.

  Lemma ins_stable_left x y l r :
    less x y = true -> ins_stable x (l ++ y :: r) = ins_stable x l ++ y :: r.
  Proof.
    intros H. induction l as [|e l IH]; cbn [ins_stable app].
    - rewrite H. reflexivity.
    - destruct (less x e); [reflexivity|]. rewrite IH. reflexivity.
  Qed.
  Lemma ins_stable_right x l r :
    Forall (fun e => less x e = false) l -> ins_stable x (l ++ r) = l ++ ins_stable x r.
  Proof.
    induction 1 as [|e l He _ IH]; cbn [ins_stable app]; [reflexivity|].
    rewrite He, IH. reflexivity.
  Qed.

  Lemma sorted_app_inv l y r : sorted (l ++ y :: r) ->
    sorted l /\ sorted r /\ Forall (fun e => le e y) l /\ Forall (fun e => le y e) r.
  Proof.
    induction l as [|e l IH]; cbn [app]; intros H.
    - inversion H; subst. repeat split; auto. constructor.
    - inversion H as [|? ? Hs Hf]; subst. destruct (IH Hs) as (A & B & C & D).
      repeat split; auto.
      + constructor; auto. rewrite Forall_app in Hf. tauto.
      + constructor; auto. rewrite Forall_app in Hf. destruct Hf as [_ Hf]. inversion Hf; auto.
  Qed.

  Lemma ins_stable_sorted x l : sorted l -> sorted (ins_stable x l).
  Proof.
    induction 1 as [|y l Hs IH Hf]; cbn [ins_stable].
    - repeat constructor.
    - destruct (less x y) eqn:Hxy.
      + constructor; [constructor; assumption|].
        constructor; [exact (less_asym _ _ Hxy)|].
        eapply Forall_impl; [|exact Hf]. intros z Hz. unfold le in *.
        eapply less_negtrans; [exact Hz|]. exact (less_asym _ _ Hxy).
      + constructor; [exact IH|].
        clear IH Hs. induction l as [|z l IHl]; cbn [ins_stable].
        * constructor; [exact Hxy|constructor].
        * inversion Hf; subst. destruct (less x z); repeat constructor; auto.
  Qed.

End OrderSpec.
Arguments ins_stable {elt} less x l.
Arguments le {elt} less a b.
Arguments sorted {elt} less l.

Section IdSpec.
  Variable elt : Type.
  Variable id_of : elt -> N.

  Definition not_id (i : N) (e : elt) : bool := negb (N.eqb (id_of e) i).
  Definition ids (l : list elt) : list N := map id_of l.
  (* "a may stand before b" *)
  Lemma nodup_split_unique (l1 l2 l1' l2' : list elt) y y' :
    NoDup (ids (l1 ++ y :: l2)) -> l1 ++ y :: l2 = l1' ++ y' :: l2' -> id_of y = id_of y' ->
    l1 = l1' /\ y = y' /\ l2 = l2'.
  Proof.
    revert l1'. induction l1 as [|e l1 IH]; intros l1' Hn He Hid.
    - destruct l1' as [|e' l1']; cbn [app] in *.
      + inversion He; subst. auto.
      + inversion He; subst. exfalso. cbn [ids map] in Hn. inversion Hn as [|? ? Hni _]; subst.
        apply Hni. unfold ids. rewrite Hid, map_app, in_app_iff. right. left. reflexivity.
    - destruct l1' as [|e' l1']; cbn [app] in *.
      + inversion He; subst. exfalso. cbn [ids map] in Hn. inversion Hn as [|? ? Hni _]; subst.
        apply Hni. unfold ids. rewrite <- Hid, map_app, in_app_iff. right. left. reflexivity.
      + inversion He; subst. cbn [ids map] in Hn. inversion Hn; subst.
        destruct (IH l1') as (-> & -> & ->); auto.
  Qed.

  Lemma filter_not_id_notin i l : ~ In i (ids l) -> filter (not_id i) l = l.
  Proof.
    induction l as [|e l IH]; cbn [filter ids map In]; intros H; [reflexivity|].
    unfold not_id at 1. destruct (N.eqb (id_of e) i) eqn:He.
    - apply N.eqb_eq in He. tauto.
    - cbn [negb]. rewrite IH; tauto.
  Qed.

  Lemma filter_ids_in i j l : In j (ids (filter (not_id i) l)) <-> In j (ids l) /\ j <> i.
  Proof.
    unfold ids. rewrite !in_map_iff. split.
    - intros (e & <- & He). apply filter_In in He. destruct He as [He Hne]. split; [eauto|].
      unfold not_id in Hne. apply negb_true_iff, N.eqb_neq in Hne. exact Hne.
    - intros ((e & <- & He) & Hne). exists e. split; [reflexivity|]. apply filter_In. split; [exact He|].
      unfold not_id. apply negb_true_iff, N.eqb_neq. exact Hne.
  Qed.
  Lemma filter_nodup i l : NoDup (ids l) -> NoDup (ids (filter (not_id i) l)).
  Proof.
    induction l as [|e l IH]; cbn [filter ids map]; intros Hn; [constructor|].
    inversion Hn; subst. destruct (not_id i e); cbn [map]; [|auto].
    constructor; [|auto]. intros Hin. apply filter_ids_in in Hin. tauto.
  Qed.

  Fixpoint insert_at (b : N) (x : elt) (l : list elt) : list elt :=
    match l with
    | [] => []          (* b not contained: precondition violated; excluded by oops_ok *)
    | y :: l' => if N.eqb (id_of y) b then x :: y :: l' else y :: insert_at b x l'
    end.
  Definition olist_step (l : list elt) (o : oop elt) : list elt :=
    match o with
    | OInsBefore None x => l ++ [x]
    | OInsBefore (Some b) x => insert_at b x l
    | OORem i => filter (not_id i) l
    end.
  Fixpoint oops_ok (l : list elt) (ops : list (oop elt)) : Prop :=
    match ops with
    | [] => True
    | o :: rest =>
        match o with
        | OInsBefore b x => ~ In (id_of x) (ids l) /\ match b with Some b => In b (ids l) | None => True end
        | OORem i => In i (ids l)
        end /\ oops_ok (olist_step l o) rest
    end.

  Lemma insert_at_split b x l1 y l2 :
    ~ In b (ids l1) -> id_of y = b -> insert_at b x (l1 ++ y :: l2) = l1 ++ x :: y :: l2.
  Proof.
    intros Hn Hy. induction l1 as [|e l1 IH]; cbn [insert_at app].
    - rewrite (proj2 (N.eqb_eq _ _) Hy). reflexivity.
    - cbn [ids map In] in Hn. destruct (N.eqb (id_of e) b) eqn:He.
      + apply N.eqb_eq in He. tauto.
      + rewrite IH; tauto.
  Qed.

  Lemma insert_at_ids b x l j : In b (ids l) -> In j (ids (insert_at b x l)) <-> j = id_of x \/ In j (ids l).
  Proof.
    induction l as [|y l IH]; cbn [insert_at ids map In]; [tauto|].
    intros Hb. destruct (N.eqb (id_of y) b) eqn:Hy; cbn [map In].
    - intuition congruence.
    - apply N.eqb_neq in Hy. destruct Hb as [Hb|Hb]; [tauto|]. unfold ids in IH. rewrite (IH Hb). intuition congruence.
  Qed.
  Lemma insert_at_nodup b x l : NoDup (ids l) -> In b (ids l) -> ~ In (id_of x) (ids l) -> NoDup (ids (insert_at b x l)).
  Proof.
    induction l as [|y l IH]; cbn [insert_at ids map In]; intros Hn Hb Hx; [constructor|].
    destruct (N.eqb (id_of y) b) eqn:Hy; cbn [map].
    - constructor; [cbn [In]; tauto|exact Hn].
    - apply N.eqb_neq in Hy. inversion Hn; subst. destruct Hb as [Hb|Hb]; [tauto|].
      constructor.
      + intros Hin. apply (insert_at_ids b x l _ Hb) in Hin. destruct Hin as [Heq|Hin]; [|tauto]. apply Hx. left. exact Heq.
      + apply IH; tauto.
  Qed.

  Lemma nodup_snoc (l : list N) x : NoDup l -> ~ In x l -> NoDup (l ++ [x]).
  Proof.
    induction l as [|y l IH]; cbn [app In]; intros Hn Hx.
    - constructor; [intros []|constructor].
    - inversion Hn; subst. constructor.
      + rewrite in_app_iff. cbn [In]. intuition congruence.
      + apply IH; tauto.
  Qed.

End IdSpec.
Arguments not_id {elt} id_of i e.
Arguments ids {elt} id_of l.
Arguments insert_at {elt} id_of b x l.
Arguments olist_step {elt} id_of l o.
Arguments oops_ok {elt} id_of l ops.

Section ListSpec.
  Variable elt : Type.
  Variable id_of : elt -> N.
  Variable less : elt -> elt -> bool.
  Hypothesis less_asym : forall a b, less a b = true -> less b a = false.
  Hypothesis less_negtrans : forall a b c, less a b = false -> less b c = false -> less a c = false.
  Local Notation ins_stable := (@ins_stable elt less).
  Local Notation not_id := (@not_id elt id_of).
  Local Notation ids := (@ids elt id_of).
  Local Notation le := (@le elt less).
  Local Notation sorted := (@sorted elt less).

  Lemma ins_stable_ids_perm x l i : In i (ids (ins_stable x l)) <-> i = id_of x \/ In i (ids l).
  Proof.
    induction l as [|y l IH]; cbn [ins_stable ids map In] in *.
    - intuition.
    - destruct (less x y); cbn [map In]; [intuition|]. unfold ids in IH. rewrite IH. intuition.
  Qed.
  Lemma ins_stable_nodup x l : NoDup (ids l) -> ~ In (id_of x) (ids l) -> NoDup (ids (ins_stable x l)).
  Proof.
    induction l as [|y l IH]; cbn [ins_stable ids map]; intros Hn Hx.
    - constructor; [intros []|constructor].
    - inversion Hn; subst. destruct (less x y); cbn [map].
      + constructor; [exact Hx|exact Hn].
      + constructor.
        * intros Hin. apply ins_stable_ids_perm in Hin. destruct Hin as [Heq|Hin]; [apply Hx; left; exact Heq|]. contradiction.
        * apply IH; [assumption|]. intros Hin. apply Hx. right. exact Hin.
  Qed.

  Lemma filter_sorted i l : sorted l -> sorted (filter (not_id i) l).
  Proof.
    induction 1 as [|y l Hs IH Hf]; cbn [filter]; [constructor|].
    destruct (not_id i y); [|exact IH].
    constructor; [exact IH|]. rewrite Forall_forall in *. intros z Hz. apply filter_In in Hz. apply Hf, Hz.
  Qed.
  Definition list_step (l : list elt) (o : op elt) : list elt :=
    match o with OIns x => ins_stable x l | ORem i => filter (not_id i) l end.
  (* the documented preconditions: insert only what is not contained, remove only what is contained *)
  Fixpoint ops_ok (l : list elt) (ops : list (op elt)) : Prop :=
    match ops with
    | [] => True
    | o :: rest =>
        match o with
        | OIns x => ~ In (id_of x) (ids l)
        | ORem i => In i (ids l)
        end /\ ops_ok (list_step l o) rest
    end.
  Definition ids_fresh (ops : list (op elt)) : Prop := ops_ok [] ops.

  Lemma list_step_inv l o : sorted l -> NoDup (ids l) ->
    match o with OIns x => ~ In (id_of x) (ids l) | ORem _ => True end ->
    sorted (list_step l o) /\ NoDup (ids (list_step l o)).
  Proof.
    intros Hs Hn Ho. destruct o as [x|i]; cbn [list_step].
    - split; [apply ins_stable_sorted|apply ins_stable_nodup]; assumption.
    - split; [apply filter_sorted|apply filter_nodup]; assumption.
  Qed.

End ListSpec.

Arguments list_step {elt} id_of less l o.
Arguments ops_ok {elt} id_of less l ops.
Arguments ids_fresh {elt} id_of less ops.

Section RbInorder.
  Variables elt annot : Type.
  Variable id_of : elt -> N.
  Variable less : elt -> elt -> bool.
  Variable agg : elt -> option annot -> option annot -> annot.
  Notation tree := (tree elt annot).
  Hypothesis less_asym : forall a b, less a b = true -> less b a = false.
  Hypothesis less_negtrans : forall a b c, less a b = false -> less b c = false -> less a c = false.
  Local Notation ins_stable := (@ins_stable elt less).
  Local Notation not_id := (@not_id elt id_of).
  Local Notation ids := (@ids elt id_of).
  Local Notation le := (@le elt less).
  Local Notation sorted := (@sorted elt less).
  Local Notation list_step := (@list_step elt id_of less).
  Local Notation ops_ok := (@ops_ok elt id_of less).
  Local Notation insert_at := (@insert_at elt id_of).
  Local Notation olist_step := (@olist_step elt id_of).
  Local Notation oops_ok := (@oops_ok elt id_of).

  Lemma inorder_mk c l x r : inorder (mk agg c l x r) = inorder l ++ x :: inorder r.
  Proof. reflexivity. Qed.
  Lemma inorder_paintB (t : tree) : inorder (paintB t) = inorder t.
  Proof. destruct t; reflexivity. Qed.
  Lemma inorder_paintR (t : tree) : inorder (paintR t) = inorder t.
  Proof. destruct t; reflexivity. Qed.

  Ltac norm := repeat (rewrite ?inorder_mk, ?inorder_paintB, ?inorder_paintR; cbn [inorder]);
               repeat rewrite <- ?app_assoc, <- ?app_comm_cons; cbn [app].

  Lemma inorder_up_ins c l x r sd st :
    inorder (fst (up_ins agg c l x r sd st)) = inorder l ++ x :: inorder r.
  Proof.
    destruct st as [| |s]; cbn [up_ins].
    - reflexivity.
    - destruct sd, c; cbn [fst]; norm; reflexivity.
    - destruct sd.
      + destruct (isRed r); [cbn [fst]; norm; reflexivity|].
        destruct l as [|lc pl px pa pr]; [reflexivity|].
        destruct s; [cbn [fst]; norm; reflexivity|].
        destruct pr as [|nc nl nx na nr]; cbn [fst]; norm; reflexivity.
      + destruct (isRed l); [cbn [fst]; norm; reflexivity|].
        destruct r as [|rc pl px pa pr]; [reflexivity|].
        destruct s; [|cbn [fst]; norm; reflexivity].
        destruct pl as [|nc nl nx na nr]; cbn [fst]; norm; reflexivity.
  Qed.

  Lemma inorder_finish_ins (p : tree * ist) : inorder (finish_ins p) = inorder (fst p).
  Proof. destruct p as [t st]; destruct st; cbn [finish_ins fst]; rewrite ?inorder_paintB; reflexivity. Qed.

  Lemma inorder_ins x (t : tree) :
    sorted (inorder t) -> inorder (fst (ins less agg x t)) = ins_stable x (inorder t).
  Proof.
    induction t as [|c l IHl y a r IHr]; cbn [ins inorder]; intros Hs; [reflexivity|].
    pose proof Hs as Hs'. apply sorted_app_inv in Hs'. destruct Hs' as (Sl & Sr & Fl & Fr).
    destruct (less x y) eqn:Hxy.
    - specialize (IHl Sl). destruct (ins less agg x l) as [l' st]. cbn [fst] in IHl.
      rewrite inorder_up_ins, IHl, ins_stable_left by assumption. reflexivity.
    - specialize (IHr Sr). destruct (ins less agg x r) as [r' st]. cbn [fst] in IHr.
      rewrite inorder_up_ins, IHr.
      rewrite ins_stable_right.
      + cbn [ins_stable]. rewrite Hxy. reflexivity.
      + eapply Forall_impl; [|exact Fl]. intros e He. unfold le in He. eauto.
  Qed.

  Theorem inorder_insert x (t : tree) :
    sorted (inorder t) -> inorder (insert less agg x t) = ins_stable x (inorder t).
  Proof. intros H. unfold insert. rewrite inorder_finish_ins. apply inorder_ins, H. Qed.

  Lemma inorder_ins_last x (t : tree) : inorder (fst (ins_last agg x t)) = inorder t ++ [x].
  Proof.
    induction t as [|c l _ y a r IHr]; cbn [ins_last inorder]; [reflexivity|].
    destruct (ins_last agg x r) as [r' st]. cbn [fst] in IHr.
    rewrite inorder_up_ins, IHr, <- app_assoc. reflexivity.
  Qed.

  Lemma ins_bef_spec b x (t : tree) :
    match ins_bef id_of agg b x t with
    | Some (t', _) => exists l1 y l2, inorder t = l1 ++ y :: l2 /\ id_of y = b
                                      /\ inorder t' = l1 ++ x :: y :: l2
    | None => ~ In b (ids (inorder t))
    end.
  Proof.
    induction t as [|c l IHl y a r IHr]; cbn [ins_bef inorder]; [intros []|].
    destruct (N.eqb (id_of y) b) eqn:Hy.
    - apply N.eqb_eq in Hy.
      pose proof (inorder_ins_last x l) as Hl. destruct (ins_last agg x l) as [l' st]. cbn [fst] in Hl.
      destruct (up_ins agg c l' y r SL st) as [t' st'] eqn:Hu.
      pose proof (inorder_up_ins c l' y r SL st) as Hi. rewrite Hu in Hi. cbn [fst] in Hi.
      exists (inorder l), y, (inorder r). repeat split; auto.
      rewrite Hi, Hl, <- app_assoc. reflexivity.
    - apply N.eqb_neq in Hy.
      destruct (ins_bef id_of agg b x l) as [[l' st]|].
      + destruct IHl as (l1 & z & l2 & E1 & E2 & E3).
        destruct (up_ins agg c l' y r SL st) as [t' st'] eqn:Hu.
        pose proof (inorder_up_ins c l' y r SL st) as Hi. rewrite Hu in Hi. cbn [fst] in Hi.
        exists l1, z, (l2 ++ y :: inorder r). repeat split; auto.
        * rewrite E1, <- app_assoc. reflexivity.
        * rewrite Hi, E3, <- app_assoc. reflexivity.
      + destruct (ins_bef id_of agg b x r) as [[r' st]|].
        * destruct IHr as (l1 & z & l2 & E1 & E2 & E3).
          destruct (up_ins agg c l y r' SR st) as [t' st'] eqn:Hu.
          pose proof (inorder_up_ins c l y r' SR st) as Hi. rewrite Hu in Hi. cbn [fst] in Hi.
          exists (inorder l ++ y :: l1), z, l2. repeat split; auto.
          -- rewrite E1, <- app_assoc. reflexivity.
          -- rewrite Hi, E3, <- app_assoc. reflexivity.
        * unfold ids in *. rewrite map_app, in_app_iff. cbn [map In]. tauto.
  Qed.

  Theorem inorder_insert_before_none x (t : tree) :
    inorder (insert_before id_of agg None x t) = inorder t ++ [x].
  Proof. cbn [insert_before]. rewrite inorder_finish_ins. apply inorder_ins_last. Qed.

  Theorem inorder_insert_before_some x (t : tree) l1 b l2 :
    NoDup (ids (inorder t)) -> inorder t = l1 ++ b :: l2 ->
    inorder (insert_before id_of agg (Some (id_of b)) x t) = l1 ++ x :: b :: l2.
  Proof.
    intros Hn He. cbn [insert_before].
    pose proof (ins_bef_spec (id_of b) x t) as S.
    destruct (ins_bef id_of agg (id_of b) x t) as [[t' st]|].
    - destruct S as (k1 & y & k2 & E1 & E2 & E3).
      rewrite inorder_finish_ins. cbn [fst]. rewrite E3.
      rewrite He in Hn. rewrite He in E1.
      destruct (nodup_split_unique elt id_of _ _ _ _ _ _ Hn E1 (eq_sym E2)) as (-> & -> & ->). reflexivity.
    - exfalso. apply S. rewrite He. unfold ids. rewrite map_app, in_app_iff. right. left. reflexivity.
  Qed.

  Lemma inorder_bsL c l x rl y rr :
    inorder (fst (bsL agg c l x rl y rr)) = inorder l ++ x :: inorder rl ++ y :: inorder rr.
  Proof.
    unfold bsL. destruct (isBlack rl && isBlack rr); [reflexivity|].
    destruct (isRed rl && isBlack rr).
    - destruct rl; cbn [fst]; norm; reflexivity.
    - cbn [fst]; norm; reflexivity.
  Qed.
  Lemma inorder_bsR c ll y lr x r :
    inorder (fst (bsR agg c ll y lr x r)) = inorder ll ++ y :: inorder lr ++ x :: inorder r.
  Proof.
    unfold bsR. destruct (isBlack ll && isBlack lr); [cbn [fst]; norm; reflexivity|].
    destruct (isRed lr && isBlack ll).
    - destruct lr; cbn [fst]; norm; reflexivity.
    - cbn [fst]; norm; reflexivity.
  Qed.
  Lemma inorder_balL c l x r : inorder (fst (balL agg c l x r)) = inorder l ++ x :: inorder r.
  Proof.
    unfold balL. destruct r as [|[] rl y ra rr]; [reflexivity| |].
    - destruct rl as [|c2 a z za b]; [reflexivity|].
      pose proof (inorder_bsL Red l x a z b) as H. destruct (bsL agg Red l x a z b) as [p' s].
      cbn [fst] in *. norm. rewrite H. norm. reflexivity.
    - rewrite inorder_bsL. reflexivity.
  Qed.
  Lemma inorder_balR c l x r : inorder (fst (balR agg c l x r)) = inorder l ++ x :: inorder r.
  Proof.
    unfold balR. destruct l as [|[] ll y la lr]; [reflexivity| |].
    - destruct lr as [|c2 a z za b]; [reflexivity|].
      pose proof (inorder_bsR Red a z b x r) as H. destruct (bsR agg Red a z b x r) as [p' s].
      cbn [fst] in *. norm. rewrite H. norm. reflexivity.
    - rewrite inorder_bsR. norm. reflexivity.
  Qed.
  Lemma inorder_half c (child : tree) : inorder (fst (half c child)) = inorder child.
  Proof. unfold half. destruct c; [reflexivity|]. destruct (isRed child); cbn [fst]; norm; reflexivity. Qed.

  Lemma remove_max_spec (t : tree) :
    match remove_max agg t with
    | Some (t', m, _) => inorder t = inorder t' ++ [m]
    | None => t = E
    end.
  Proof.
    induction t as [|c l _ x a r IHr]; cbn [remove_max]; [reflexivity|].
    destruct (remove_max agg r) as [[[r' m] sh]|].
    - destruct sh.
      + pose proof (inorder_balR c l x r') as H. destruct (balR agg c l x r') as [t' sh'].
        cbn [fst inorder] in *. rewrite H, IHr, <- app_assoc. reflexivity.
      + cbn [inorder]. rewrite inorder_mk, IHr, <- app_assoc. reflexivity.
    - subst r. pose proof (inorder_half c l) as H. destruct (half c l) as [t' sh]. cbn [fst inorder] in *.
      rewrite H. reflexivity.
  Qed.

  Lemma inorder_del_root c l x r : inorder (fst (del_root agg c l x r)) = inorder l ++ inorder r.
  Proof.
    unfold del_root. destruct l as [|lc ll lx la lr].
    - rewrite inorder_half. reflexivity.
    - destruct r as [|rc rl rx ra rr].
      + rewrite inorder_half, app_nil_r. reflexivity.
      + pose proof (remove_max_spec (T lc ll lx la lr)) as H.
        destruct (remove_max agg (T lc ll lx la lr)) as [[[l' m] sh]|]; [|discriminate].
        rewrite H, <- app_assoc. cbn [app].
        destruct sh; [rewrite inorder_balL|]; reflexivity.
  Qed.

  Lemma del_spec i (t : tree) :
    match del id_of agg i t with
    | Some (t', _) => exists l1 y l2, inorder t = l1 ++ y :: l2 /\ id_of y = i /\ inorder t' = l1 ++ l2
    | None => ~ In i (ids (inorder t))
    end.
  Proof.
    induction t as [|c l IHl y a r IHr]; cbn [del inorder]; [intros []|].
    destruct (N.eqb (id_of y) i) eqn:Hy.
    - apply N.eqb_eq in Hy. pose proof (inorder_del_root c l y r) as H.
      destruct (del_root agg c l y r) as [t' sh]. cbn [fst] in H.
      exists (inorder l), y, (inorder r). auto.
    - apply N.eqb_neq in Hy.
      destruct (del id_of agg i l) as [[l' sh]|].
      + destruct IHl as (l1 & z & l2 & E1 & E2 & E3).
        assert (Hi : inorder (fst (if sh then balL agg c l' y r else (mk agg c l' y r, false))) = inorder l' ++ y :: inorder r)
          by (destruct sh; [apply inorder_balL|reflexivity]).
        destruct (if sh then balL agg c l' y r else (mk agg c l' y r, false)) as [t' sh']. cbn [fst] in Hi.
        exists l1, z, (l2 ++ y :: inorder r). repeat split; auto.
        * rewrite E1, <- app_assoc. reflexivity.
        * rewrite Hi, E3, <- app_assoc. reflexivity.
      + destruct (del id_of agg i r) as [[r' sh]|].
        * destruct IHr as (l1 & z & l2 & E1 & E2 & E3).
          assert (Hi : inorder (fst (if sh then balR agg c l y r' else (mk agg c l y r', false))) = inorder l ++ y :: inorder r')
            by (destruct sh; [apply inorder_balR|reflexivity]).
          destruct (if sh then balR agg c l y r' else (mk agg c l y r', false)) as [t' sh']. cbn [fst] in Hi.
          exists (inorder l ++ y :: l1), z, l2. repeat split; auto.
          -- rewrite E1, <- app_assoc. reflexivity.
          -- rewrite Hi, E3, <- app_assoc. reflexivity.
        * unfold ids in *. rewrite map_app, in_app_iff. cbn [map In]. tauto.
  Qed.

  Theorem inorder_remove i (t : tree) :
    NoDup (ids (inorder t)) -> inorder (remove id_of agg i t) = filter (not_id i) (inorder t).
  Proof.
    intros Hn. unfold remove. pose proof (del_spec i t) as S.
    destruct (del id_of agg i t) as [[t' sh]|].
    - destruct S as (l1 & y & l2 & E1 & E2 & E3). rewrite E3, E1. rewrite E1 in Hn.
      unfold ids in Hn. rewrite map_app in Hn. cbn [map] in Hn.
      pose proof (NoDup_remove_2 _ _ _ Hn) as Hni. rewrite in_app_iff in Hni.
      rewrite filter_app. cbn [filter]. unfold not_id at 2. rewrite (proj2 (N.eqb_eq _ _) E2). cbn [negb].
      rewrite !filter_not_id_notin; [reflexivity| |]; unfold ids; rewrite <- E2; tauto.
    - symmetry. apply filter_not_id_notin. exact S.
  Qed.

  Theorem first_is_head (t : tree) : first t = hd_error (inorder t).
  Proof.
    induction t as [|c l IHl x a r _]; cbn [first inorder]; [reflexivity|].
    destruct l as [|lc ll lx la lr]; [reflexivity|].
    rewrite IHl. cbn [inorder]. destruct (inorder ll); reflexivity.
  Qed.

  Lemma step_refines (t : tree) l o : inorder t = l -> sorted l -> NoDup (ids l) ->
    inorder (rb_step id_of less agg t o) = list_step l o.
  Proof.
    intros <- Hs Hn. destruct o as [x|i]; cbn [rb_step list_step].
    - apply inorder_insert, Hs.
    - apply inorder_remove, Hn.
  Qed.

  Theorem history_refines (ops : list (op elt)) (t : tree) l :
    inorder t = l -> sorted l -> NoDup (ids l) -> ops_ok l ops ->
    let t' := fold_left (rb_step id_of less agg) ops t in
    let l' := fold_left list_step ops l in
    inorder t' = l' /\ sorted l' /\ NoDup (ids l').
  Proof.
    revert t l. induction ops as [|o ops IH]; intros t l Ht Hs Hn Hok; cbn [fold_left].
    - auto.
    - cbn [ops_ok] in Hok. destruct Hok as [Ho Hok].
      destruct (list_step_inv elt id_of less less_asym less_negtrans l o Hs Hn) as [Hs' Hn']; [destruct o; auto|].
      apply IH; auto. apply step_refines; assumption.
  Qed.

  Lemma inorder_insert_before_at b x (t : tree) :
    NoDup (ids (inorder t)) -> In b (ids (inorder t)) ->
    inorder (insert_before id_of agg (Some b) x t) = insert_at b x (inorder t).
  Proof.
    intros Hn Hin. unfold ids in Hin. apply in_map_iff in Hin. destruct Hin as (y & Hy & Hin).
    apply in_split in Hin. destruct Hin as (l1 & l2 & He). subst b.
    rewrite (inorder_insert_before_some x t l1 y l2 Hn He). rewrite He.
    rewrite insert_at_split; auto.
    rewrite He in Hn. unfold ids in Hn. rewrite map_app in Hn. cbn [map] in Hn.
    pose proof (NoDup_remove_2 _ _ _ Hn) as H. rewrite in_app_iff in H. tauto.
  Qed.

  Theorem order_history_refines (ops : list (oop elt)) (t : tree) l :
    inorder t = l -> NoDup (ids l) -> oops_ok l ops ->
    let t' := fold_left (rbo_step id_of agg) ops t in
    let l' := fold_left olist_step ops l in
    inorder t' = l' /\ NoDup (ids l').
  Proof.
    revert t l. induction ops as [|o ops IH]; intros t l Ht Hn Hok; cbn [fold_left].
    - auto.
    - cbn [oops_ok] in Hok. destruct Hok as [Ho Hok]. subst l.
      apply IH; auto.
      + destruct o as [[b|] x|i]; cbn [rbo_step olist_step].
        * apply inorder_insert_before_at; tauto.
        * apply inorder_insert_before_none.
        * apply inorder_remove, Hn.
      + destruct o as [[b|] x|i]; cbn [olist_step].
        * apply insert_at_nodup; tauto.
        * unfold ids. rewrite map_app. cbn [map]. apply nodup_snoc; tauto.
        * apply filter_nodup, Hn.
  Qed.
End RbInorder.
