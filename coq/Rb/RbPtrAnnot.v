(* RbPtrAnnot.v — the annotation heap (p_annots) of the pointer-level model: values written by aggregate_node /
   aggregate_path (WITH its early stop).

   [ainv an t]: every node of t stores the aggregate of its element and its children's stored values;
   [acinv an ctx hv]: the same for the nodes / sibling subtrees of a context, [hv] = the value stored at the root of what
   hangs in the hole; [acopen]: all of that except the equation of the innermost frame (the node whose child changed).

   * aggregate_path started at the innermost frame of a context that is consistent except there re-establishes
     consistency of the whole context, even though it stops at the first unchanged node ([aggregate_path_annots]);
   * a rotation followed by aggregate_node(u); aggregate_node(n) keeps a consistent tree consistent — for aggregates
     that are invariant under rotation ([agg_rot]: max, sum, size ...; the C++ does NOT re-aggregate the ancestors after
     a rotation, so for other aggregates the real code does not maintain them either);
   * hence fix_insert / fix_remove keep consistency ([fix_insert_PA], [fix_remove_PA]: invariance of "the heap represents
     SOME tree with consistent annotations", proved by walking the code once, without the case analysis of the shapes);
   * the tree a heap represents is unique ([treeS_unique]). *)
From Coq Require Import NArith List Bool Lia PeanoNat.
From FV Require Import Rb.RbModel Rb.RbLayout Rb.RbPtr Rb.RbPtrBase Rb.RbPtrRefineRot Rb.RbPtrRefineIns.
Import ListNotations.

Section Annot.
  Variables elt annot : Type.
  Variable id_of : elt -> N.
  Variable agg : elt -> option annot -> option annot -> annot.
  Variable aeqb : annot -> annot -> bool.
  Variable ek : N -> elt.
  Notation tree := (tree elt unit).
  Notation frame := (frame elt).
  Notation ids t := (map id_of (inorder t)).
  Notation pstate := (pstate annot).
  Notation treeSs := (treeSs elt annot id_of).

  Hypothesis aeqb_eq : forall a b, aeqb a b = true <-> a = b.
  Hypothesis agg_rot : forall u n (A B C : option annot), agg n (Some (agg u A B)) C = agg u A (Some (agg n B C)).

  Definition aval (an : N -> annot) (t : tree) : option annot := option_map an (root_id id_of t).
  Fixpoint ainv (an : N -> annot) (t : tree) : Prop :=
    match t with
    | E => True
    | T _ l x _ r => an (id_of x) = agg x (aval an l) (aval an r) /\ ainv an l /\ ainv an r
    end.
  Fixpoint acinv (an : N -> annot) (ctx : list frame) (hv : option annot) : Prop :=
    match ctx with
    | [] => True
    | FL _ x r :: ctx' => an (id_of x) = agg x hv (aval an r) /\ ainv an r /\ acinv an ctx' (Some (an (id_of x)))
    | FR _ l x :: ctx' => an (id_of x) = agg x (aval an l) hv /\ ainv an l /\ acinv an ctx' (Some (an (id_of x)))
    end.
  Definition acopen (an : N -> annot) (ctx : list frame) : Prop :=
    match ctx with
    | [] => True
    | FL _ x r :: ctx' => ainv an r /\ acinv an ctx' (Some (an (id_of x)))
    | FR _ l x :: ctx' => ainv an l /\ acinv an ctx' (Some (an (id_of x)))
    end.
  Lemma acinv_open an ctx hv : acinv an ctx hv -> acopen an ctx.
  Proof. clear aeqb_eq agg_rot aeqb ek. destruct ctx as [|[] ?]; cbn; tauto. Qed.

  Lemma ainv_plug an ctx : forall sub, ainv an (plug ctx sub) <-> ainv an sub /\ acinv an ctx (aval an sub).
  Proof. clear aeqb_eq agg_rot aeqb ek.
    induction ctx as [|fr ctx IH]; intros sub; cbn [plug acinv]; [tauto|].
    rewrite IH. destruct fr as [c x r|c l x]; cbn [fill ainv aval root_id option_map]; tauto.
  Qed.

  Lemma aval_ext an an' (t : tree) : (forall j, In j (ids t) -> an' j = an j) -> aval an' t = aval an t.
  Proof. clear aeqb_eq agg_rot aeqb ek.
    destruct t as [|c l x a r]; intros H; cbn; [reflexivity|]. rewrite H; [reflexivity|].
    cbn [inorder]. rewrite map_app, in_app_iff. right. left. reflexivity.
  Qed.
  Lemma ainv_ext an an' (t : tree) : (forall j, In j (ids t) -> an' j = an j) -> ainv an t -> ainv an' t.
  Proof. clear aeqb_eq agg_rot aeqb ek.
    induction t as [|c l IHl x a r IHr]; intros He H; cbn [ainv] in *; [exact I|].
    destruct H as (A & B & C).
    assert (Hl : forall j, In j (ids l) -> an' j = an j) by (intros j Hj; apply He; cbn [inorder]; rewrite map_app, in_app_iff; tauto).
    assert (Hr : forall j, In j (ids r) -> an' j = an j) by (intros j Hj; apply He; cbn [inorder]; rewrite map_app, in_app_iff; cbn [map In]; tauto).
    rewrite (aval_ext an an' l Hl), (aval_ext an an' r Hr), He by (cbn [inorder]; rewrite map_app, in_app_iff; cbn [map In]; tauto).
    auto.
  Qed.
  Lemma acinv_ext an an' ctx hv : (forall j, In j (cids id_of ctx) -> an' j = an j) -> acinv an ctx hv -> acinv an' ctx hv.
  Proof. clear aeqb_eq agg_rot aeqb ek.
    unfold cids. revert hv. induction ctx as [|fr ctx IH]; intros hv He H; cbn [acinv] in *; [exact I|].
    destruct fr as [c x r|c l x]; destruct H as (A & B & C); cbn [cbefore cafter] in He.
    - assert (Hr : forall j, In j (ids r) -> an' j = an j) by (intros j Hj; apply He; rewrite !in_app_iff; cbn [In]; tauto).
      rewrite (aval_ext an an' r Hr), He by (rewrite !in_app_iff; cbn [In]; tauto).
      split; [exact A|]. split; [eapply ainv_ext; eassumption|]. apply IH; [|exact C].
      intros j Hj. apply He. rewrite !in_app_iff in *. cbn [In]. tauto.
    - assert (Hl : forall j, In j (ids l) -> an' j = an j) by (intros j Hj; apply He; rewrite !in_app_iff; cbn [In]; tauto).
      rewrite (aval_ext an an' l Hl), He by (rewrite !in_app_iff; cbn [In]; tauto).
      split; [exact A|]. split; [eapply ainv_ext; eassumption|]. apply IH; [|exact C].
      intros j Hj. apply He. rewrite !in_app_iff in *. cbn [In]. tauto.
  Qed.

  (* the elements of a tree / a context are what the key memory holds *)
  Definition tkeys (t : tree) : Prop := forall y, In y (inorder t) -> ek (id_of y) = y.
  Fixpoint ckeys (ctx : list frame) : Prop :=
    match ctx with
    | [] => True
    | FL _ x r :: ctx' => ek (id_of x) = x /\ tkeys r /\ ckeys ctx'
    | FR _ l x :: ctx' => ek (id_of x) = x /\ tkeys l /\ ckeys ctx'
    end.
  Lemma tkeys_plug ctx : forall sub, tkeys (plug ctx sub) <-> tkeys sub /\ ckeys ctx.
  Proof.
    induction ctx as [|fr ctx IH]; intros sub; cbn [plug ckeys]; [tauto|].
    rewrite IH. unfold tkeys. destruct fr as [c x r|c l x]; cbn [fill inorder]; split.
    - intros [H1 H2]. repeat split; auto; try (intros y Hy; apply H1; rewrite in_app_iff; cbn [In]; tauto).
      apply H1. rewrite in_app_iff. cbn [In]. tauto.
    - intros (H1 & H2 & H3 & H4). split; [|exact H4]. intros y Hy. rewrite in_app_iff in Hy. cbn [In] in Hy.
      destruct Hy as [Hy|[<-|Hy]]; auto.
    - intros [H1 H2]. repeat split; auto; try (intros y Hy; apply H1; rewrite in_app_iff; cbn [In]; tauto).
      apply H1. rewrite in_app_iff. cbn [In]. tauto.
    - intros (H1 & H2 & H3 & H4). split; [|exact H4]. intros y Hy. rewrite in_app_iff in Hy. cbn [In] in Hy.
      destruct Hy as [Hy|[<-|Hy]]; auto.
  Qed.
  Lemma tkeys_same_elems (t t' : tree) : (forall y, In y (inorder t') -> In y (inorder t)) -> tkeys t -> tkeys t'.
  Proof. intros H K y Hy. apply K, H, Hy. Qed.

  (* ---- aggregate_node *)
  Definition agg_at (hk : N -> hook) (an : N -> annot) (j : N) : N -> annot :=
    fun i => if N.eqb i j then agg (ek j) (option_map an (h_left (hk j))) (option_map an (h_right (hk j))) else an i.

  Lemma aggregate_annots (s : pstate) j :
    (forall i, p_annots (fst (aggregate agg aeqb ek s j)) i = agg_at (p_hooks s) (p_annots s) j i)
    /\ (snd (aggregate agg aeqb ek s j) = false -> agg_at (p_hooks s) (p_annots s) j j = p_annots s j).
  Proof.
    unfold aggregate, agg_at, get_left, get_right.
    destruct (aeqb _ (p_annots s j)) eqn:Ea; cbn [fst snd set_annot p_annots].
    - apply aeqb_eq in Ea. split; [|intros _; rewrite N.eqb_refl; exact Ea].
      intros i. destruct (N.eqb_spec i j) as [->|]; [symmetry; exact Ea|reflexivity].
    - split; [reflexivity|discriminate].
  Qed.
  Lemma aggregate_node_annots (s : pstate) j i :
    p_annots (aggregate_node agg aeqb ek s j) i = agg_at (p_hooks s) (p_annots s) j i.
  Proof. apply aggregate_annots. Qed.

  (* ---- aggregate_path with the early stop *)
  Definition cnodes (ctx : list frame) : list N := map (fid id_of) ctx.

  Lemma cnodes_cids ctx j : In j (cnodes ctx) -> In j (cids id_of ctx).
  Proof. clear aeqb_eq agg_rot aeqb ek agg.
    unfold cnodes, cids. induction ctx as [|fr ctx IH]; cbn [map In cbefore cafter]; [tauto|].
    intros [<-|H]; destruct fr as [c x r|c l x]; cbn [fid cbefore cafter]; rewrite !in_app_iff; cbn [In];
      try tauto; specialize (IH H); rewrite in_app_iff in IH; tauto.
  Qed.

  Lemma aggregate_path_annots sk ctx : forall L rid fuel (s : pstate),
    NoDup (cbefore id_of ctx ++ L ++ cafter id_of ctx) -> (forall i, rid = Some i -> In i L) ->
    cinv id_of sk (p_hooks s) ctx rid -> ckeys ctx -> acopen (p_annots s) ctx -> length ctx <= fuel ->
    exists s', aggregate_path agg aeqb ek fuel s (cpar id_of ctx) = POk s'
               /\ p_hooks s' = p_hooks s /\ p_root s' = p_root s
               /\ acinv (p_annots s') ctx (option_map (p_annots s) rid)
               /\ (forall j, ~ In j (cnodes ctx) -> p_annots s' j = p_annots s j).
  Proof.
    induction ctx as [|fr ctx IH]; intros L rid fuel s Nd Hrid Hc Hk Ho Hf; cbn [cpar].
    - exists s. split; [destruct fuel; reflexivity|]. cbn. auto.
    - destruct fuel as [|k]; [cbn [length] in Hf; lia|]. cbn [aggregate_path length] in *.
      set (w := fid id_of fr) in *.
      destruct (aggregate_annots s w) as [A1 A2].
      destruct (aggregate_hooks _ _ agg aeqb ek s w) as [E1 E2].
      destruct (aggregate agg aeqb ek s w) as [s1 ch]. cbn [fst snd] in *.
      (* the recomputed value is the right-hand side of the frame's equation *)
      assert (Hv : agg_at (p_hooks s) (p_annots s) w w
                   = match fr with
                     | FL _ x r => agg x (option_map (p_annots s) rid) (aval (p_annots s) r)
                     | FR _ l x => agg x (aval (p_annots s) l) (option_map (p_annots s) rid)
                     end).
      { unfold agg_at. rewrite N.eqb_refl. subst w.
        destruct fr as [c x r|c l x]; cbn [cinv fid ckeys] in *; unfold node_ok in Hc;
          destruct Hc as ((_ & -> & -> & _) & _); destruct Hk as (-> & _); reflexivity. }
      assert (Nw : ~ In w (cids id_of ctx) /\ ~ In w (match fr with FL _ _ r => ids r | FR _ l _ => ids l end) /\ rid <> Some w).
      { subst w. destruct fr as [c x r|c l x]; cbn [fid cbefore cafter] in *; unfold cids.
        - split; [ni Nd|]. split; [ni Nd|]. intros E0. specialize (Hrid _ E0). nix Nd (id_of x).
        - split; [ni Nd|]. split; [ni Nd|]. intros E0. specialize (Hrid _ E0). nix Nd (id_of x). }
      destruct Nw as (Nw1 & Nw2 & Nw3).
      destruct ch.
      + (* changed: continue at the parent *)
        assert (Hp : get_parent s1 w = cpar id_of ctx).
        { unfold get_parent. rewrite E1. subst w. destruct fr as [c x r|c l x]; cbn [cinv fid] in *; unfold node_ok in *; tauto. }
        rewrite Hp.
        assert (Hc' : cinv id_of sk (p_hooks s1) ctx (Some w)).
        { rewrite E1. subst w. destruct fr as [c x r|c l x]; cbn [cinv fid] in *; tauto. }
        assert (Hk' : ckeys ctx) by (destruct fr; cbn [ckeys] in Hk; tauto).
        assert (Ho' : acopen (p_annots s1) ctx).
        { assert (G : acinv (p_annots s) ctx (Some (p_annots s w))) by (subst w; destruct fr; cbn [acopen fid] in *; tauto).
          apply acinv_open with (hv := Some (p_annots s w)). revert G. apply acinv_ext.
          intros j Hj. rewrite A1. unfold agg_at. destruct (N.eqb_spec j w) as [->|]; [contradiction|reflexivity]. }
        destruct (IH (w :: match fr with FL _ _ r => ids r | FR _ l _ => ids l end ++ L) (Some w) k s1) as (s' & B1 & B2 & B3 & B4 & B5);
          try assumption; try lia.
        { subst w. apply NoDup_count_occ with (decA := N.eq_dec). intros j. pose proof (count_le_1 _ j Nd) as C0.
          destruct fr as [c x r|c l x]; cbn [fid cbefore cafter] in *; repeat rewrite ?count_occ_app in *; cbn [count_occ] in *;
            repeat rewrite ?count_occ_app in *; cbn [count_occ] in *; destruct (N.eq_dec (id_of x) j); lia. }
        { intros i E0. injection E0 as <-. left. reflexivity. }
        exists s'. split; [exact B1|]. split; [congruence|]. split; [congruence|]. split.
        * assert (Ew : p_annots s' w = agg_at (p_hooks s) (p_annots s) w w).
          { rewrite B5, A1; [reflexivity|]. intros Hin. apply Nw1. apply cnodes_cids, Hin. }
          assert (Esib : forall j, In j (match fr with FL _ _ r => ids r | FR _ l _ => ids l end) -> p_annots s' j = p_annots s j).
          { intros j Hj. rewrite B5, A1.
            - unfold agg_at. destruct (N.eqb_spec j w) as [->|]; [contradiction|reflexivity].
            - intros Hin. apply cnodes_cids in Hin. unfold cids in Hin.
              destruct fr as [c x r|c l x]; cbn [cbefore cafter] in Nd; nix Nd j. }
          cbn [option_map] in B4. rewrite A1 in B4. rewrite <- Ew in B4.
          subst w. destruct fr as [c x r|c l x]; cbn [acinv fid acopen] in *.
          -- rewrite (aval_ext _ _ r Esib). split; [rewrite Ew; exact Hv|]. split; [eapply ainv_ext; [exact Esib|tauto]|exact B4].
          -- rewrite (aval_ext _ _ l Esib). split; [rewrite Ew; exact Hv|]. split; [eapply ainv_ext; [exact Esib|tauto]|exact B4].
        * intros j Hj. cbn [cnodes map In] in Hj. rewrite B5 by tauto. rewrite A1. unfold agg_at.
          destruct (N.eqb_spec j w) as [->|]; [exfalso; apply Hj; left; reflexivity|reflexivity].
      + (* unchanged: stop; the frame's equation holds already *)
        specialize (A2 eq_refl).
        assert (Ean : forall i, p_annots s1 i = p_annots s i).
        { intros i. rewrite A1. unfold agg_at. destruct (N.eqb_spec i w) as [->|]; [|reflexivity].
          unfold agg_at in A2. rewrite N.eqb_refl in A2. exact A2. }
        exists s1. split; [reflexivity|]. split; [exact E1|]. split; [exact E2|]. split; [|intros j _; apply Ean].
        assert (G : acinv (p_annots s) (fr :: ctx) (option_map (p_annots s) rid)).
        { subst w. destruct fr as [c x r|c l x]; cbn [acinv acopen fid] in *; (split; [rewrite <- A2; exact Hv|tauto]). }
        revert G. apply acinv_ext. intros j _. apply Ean.
  Qed.
  Lemma ainv_paintB an (t : tree) : ainv an (paintB t) <-> ainv an t.
  Proof. clear aeqb_eq agg_rot aeqb ek. destruct t; cbn; tauto. Qed.
  Lemma aval_paintB an (t : tree) : aval an (paintB t) = aval an t.
  Proof. destruct t; reflexivity. Qed.
End Annot.

(* the two properties of the aggregator the annotation theorems need: the "changed?" test reflects equality, and the
   aggregate of a subtree is invariant under rotation (the C++ does not re-aggregate the ancestors after a rotation) *)
Definition agg_ok {elt annot : Type} (agg : elt -> option annot -> option annot -> annot) (aeqb : annot -> annot -> bool) : Prop :=
  (forall a b, aeqb a b = true <-> a = b)
  /\ (forall u n (A B C : option annot), agg n (Some (agg u A B)) C = agg u A (Some (agg n B C))).
