(* RbPtr.v — POINTER-LEVEL model of include/frg/rbtree.hpp.  Definitions only, no proofs.

   A heap of hooks indexed by node identity (pool index), the tree's [_root] pointer, and (for the aggregator)
   one annotation per node.  Every function of rbtree.hpp that writes a hook is transliterated ASSIGNMENT BY
   ASSIGNMENT, in source order; every read is a read of the CURRENT heap (so a re-read after a write sees the
   write, exactly as in the C++):

     tree_crtp_struct::first, insert_root, insert_left, insert_right, fix_insert, remove, replace_node,
     remove_half_leaf, fix_remove, rotateLeft, rotateRight, aggregate_node, aggregate_path,
     tree_struct::insert, tree_order_struct::insert(before, node).

   Outcomes (DESIGN 3.1):  POk v | PAssert line (an FRG_ASSERT of rbtree.hpp fired; [line] is its source line)
   | PUB line (the C++ would dereference a null pointer at that line) | POutOfFuel.
   The loops (descent of insert, the tail-recursive fix_insert / fix_remove, aggregate_path, the rightmost
   descent of the order variant, first) take explicit fuel; exhaustion is the distinct outcome POutOfFuel.
   [enable_checking] is a compile-time false: the check_invariant calls are not part of the code.

   Aggregator A: the model covers aggregators of the form "recompute the node's annotation from its element and
   its children's annotations, store it if it differs, return whether it changed" — [agg] computes, [aeqb]
   compares.  frg::null_aggregator is [annot := unit], [aeqb _ _ := true] (never changes: aggregate returns
   false); frg::interval_tree's aggregator is [agg := max3], [aeqb := N.eqb].

   [p_wlog] is instrumentation only: every hook write prepends the written id.  Nothing reads it; the model
   driver uses it to keep the extracted heap (a closure chain) flat on trees of 10^4 nodes. *)
From Coq Require Import NArith List Bool.
From FV Require Import Rb.RbModel.
Import ListNotations.

Inductive pres (A : Type) := POk (a : A) | PAssert (line : N) | PUB (line : N) | POutOfFuel.
Arguments POk {A} a.
Arguments PAssert {A} line.
Arguments PUB {A} line.
Arguments POutOfFuel {A}.

Definition pbind {A B : Type} (m : pres A) (k : A -> pres B) : pres B :=
  match m with POk a => k a | PAssert l => PAssert l | PUB l => PUB l | POutOfFuel => POutOfFuel end.
Notation "'LET' x <- m 'IN' k" := (pbind m (fun x => k)) (at level 200, x name, m at level 100, k at level 200).

(* pointer comparison / colour comparison *)
Definition oeqb (a b : option N) : bool :=
  match a, b with Some x, Some y => N.eqb x y | None, None => true | _, _ => false end.
Definition ceqb (a b : option color) : bool :=
  match a, b with Some Red, Some Red => true | Some Black, Some Black => true | None, None => true | _, _ => false end.

Section RbPtr.
  Variables elt annot : Type.
  Variable less : elt -> elt -> bool.
  Variable agg : elt -> option annot -> option annot -> annot.
  Variable aeqb : annot -> annot -> bool.
  (* the element (key) stored in node i: not touched by rbtree.hpp *)
  Variable ek : N -> elt.

  Record pstate := mkP { p_hooks : N -> hook; p_root : option N; p_annots : N -> annot; p_wlog : list N }.

  (* ---- h(x)->field reads *)
  Definition get_parent (s : pstate) (i : N) := h_parent (p_hooks s i).
  Definition get_left (s : pstate) (i : N) := h_left (p_hooks s i).
  Definition get_right (s : pstate) (i : N) := h_right (p_hooks s i).
  Definition get_pred (s : pstate) (i : N) := h_pred (p_hooks s i).
  Definition get_succ (s : pstate) (i : N) := h_succ (p_hooks s i).
  Definition get_color (s : pstate) (i : N) := h_color (p_hooks s i).

  (* ---- h(x)->field = v *)
  Definition upd (s : pstate) (i : N) (f : hook -> hook) : pstate :=
    let h' := f (p_hooks s i) in
    mkP (fun j => if N.eqb j i then h' else p_hooks s j) (p_root s) (p_annots s) (i :: p_wlog s).
  Definition set_parent s i v := upd s i (fun h => mkHook v (h_left h) (h_right h) (h_pred h) (h_succ h) (h_color h)).
  Definition set_left s i v := upd s i (fun h => mkHook (h_parent h) v (h_right h) (h_pred h) (h_succ h) (h_color h)).
  Definition set_right s i v := upd s i (fun h => mkHook (h_parent h) (h_left h) v (h_pred h) (h_succ h) (h_color h)).
  Definition set_pred s i v := upd s i (fun h => mkHook (h_parent h) (h_left h) (h_right h) v (h_succ h) (h_color h)).
  Definition set_succ s i v := upd s i (fun h => mkHook (h_parent h) (h_left h) (h_right h) (h_pred h) v (h_color h)).
  Definition set_color s i v := upd s i (fun h => mkHook (h_parent h) (h_left h) (h_right h) (h_pred h) (h_succ h) v).
  Definition set_root (s : pstate) (v : option N) : pstate := mkP (p_hooks s) v (p_annots s) (p_wlog s).
  Definition set_annot (s : pstate) (i : N) (a : annot) : pstate :=
    mkP (p_hooks s) (p_root s) (fun j => if N.eqb j i then a else p_annots s j) (p_wlog s).

  (* isRed / isBlack (null: not red, black) *)
  Definition p_isRed (s : pstate) (o : option N) : bool :=
    match o with None => false | Some i => ceqb (get_color s i) (Some Red) end.
  Definition p_isBlack (s : pstate) (o : option N) : bool :=
    match o with None => true | Some i => ceqb (get_color s i) (Some Black) end.

  (* ---- first(): leftmost node *)
  Fixpoint first_loop (fuel : nat) (s : pstate) (current : N) : pres (option N) :=
    match fuel with
    | O => POutOfFuel
    | S k => match get_left s current with
             | Some l => first_loop k s l
             | None => POk (Some current)
             end
    end.
  Definition p_first (fuel : nat) (s : pstate) : pres (option N) :=
    match p_root s with None => POk None | Some r => first_loop fuel s r end.

  (* ---- aggregate_node / aggregate_path *)
  (* A::aggregate(node): true iff the stored annotation changed *)
  Definition aggregate (s : pstate) (node : N) : pstate * bool :=
    let v := agg (ek node) (option_map (p_annots s) (get_left s node)) (option_map (p_annots s) (get_right s node)) in
    if aeqb v (p_annots s node) then (s, false) else (set_annot s node v, true).
  Definition aggregate_node (s : pstate) (node : N) : pstate := fst (aggregate s node).

  (* T *current = node; while(current) { if(!A::aggregate(current)) break; current = get_parent(current); } *)
  Fixpoint aggregate_path (fuel : nat) (s : pstate) (current : option N) : pres pstate :=
    match current with
    | None => POk s
    | Some c =>
        match fuel with
        | O => POutOfFuel
        | S k => let '(s1, changed) := aggregate s c in
                 if changed then aggregate_path k s1 (get_parent s1 c) else POk s1
        end
    end.

  (* ---- rotations (rbtree.hpp:478-537) *)
  Definition rotateLeft (s : pstate) (n : N) : pres pstate :=
    match get_parent s n with                                   (* T *u = get_parent(n); *)
    | None => PAssert 480                                       (* FRG_ASSERT(u != nullptr && get_right(u) == n); *)
    | Some u =>
        if negb (oeqb (get_right s u) (Some n)) then PAssert 480 else
        let v := get_left s n in                                (* T *v = get_left(n); *)
        let w := get_parent s u in                              (* T *w = get_parent(u); *)
        let s := match v with Some v' => set_parent s v' (Some u) | None => s end in   (* if(v) h(v)->parent = u; *)
        let s := set_right s u v in                             (* h(u)->right = v; *)
        let s := set_parent s u (Some n) in                     (* h(u)->parent = n; *)
        let s := set_left s n (Some u) in                       (* h(n)->left = u; *)
        let s := set_parent s n w in                            (* h(n)->parent = w; *)
        LET s <- match w with
                | None => POk (set_root s (Some n))             (* _root = n; *)
                | Some w' =>
                    if oeqb (get_left s w') (Some u) then POk (set_left s w' (Some n))        (* h(w)->left = n; *)
                    else if oeqb (get_right s w') (Some u) then POk (set_right s w' (Some n)) (* h(w)->right = n; *)
                    else PAssert 496
                end IN
        let s := aggregate_node s u in
        let s := aggregate_node s n in
        POk s
    end.

  Definition rotateRight (s : pstate) (n : N) : pres pstate :=
    match get_parent s n with
    | None => PAssert 515
    | Some u =>
        if negb (oeqb (get_left s u) (Some n)) then PAssert 515 else
        let v := get_right s n in
        let w := get_parent s u in
        let s := match v with Some v' => set_parent s v' (Some u) | None => s end in
        let s := set_left s u v in
        let s := set_parent s u (Some n) in
        let s := set_right s n (Some u) in
        let s := set_parent s n w in
        LET s <- match w with
                | None => POk (set_root s (Some n))
                | Some w' =>
                    if oeqb (get_left s w') (Some u) then POk (set_left s w' (Some n))
                    else if oeqb (get_right s w') (Some u) then POk (set_right s w' (Some n))
                    else PAssert 531
                end IN
        let s := aggregate_node s u in
        let s := aggregate_node s n in
        POk s
    end.

  (* ---- fix_insert (rbtree.hpp:194-251); the tail calls fix_insert(grand) consume fuel *)
  Fixpoint fix_insert (fuel : nat) (s : pstate) (n : N) : pres pstate :=
    match fuel with
    | O => POutOfFuel
    | S k =>
      match get_parent s n with
      | None => POk (set_color s n (Some Black))                 (* h(n)->color = black; return; *)
      | Some parent =>
        let s := set_color s n (Some Red) in                     (* h(n)->color = red; *)
        if ceqb (get_color s parent) (Some Black) then POk s else
        match get_parent s parent with                           (* T *grand = get_parent(parent); *)
        | None => PAssert 209                                    (* FRG_ASSERT(grand && h(grand)->color == black); *)
        | Some grand =>
          if negb (ceqb (get_color s grand) (Some Black)) then PAssert 209 else
          if oeqb (get_left s grand) (Some parent) && p_isRed s (get_right s grand) then
            let s := set_color s grand (Some Red) in
            let s := set_color s parent (Some Black) in
            match get_right s grand with
            | None => PUB 216
            | Some uncle => let s := set_color s uncle (Some Black) in fix_insert k s grand
            end
          else if oeqb (get_right s grand) (Some parent) && p_isRed s (get_left s grand) then
            let s := set_color s grand (Some Red) in
            let s := set_color s parent (Some Black) in
            match get_left s grand with
            | None => PUB 223
            | Some uncle => let s := set_color s uncle (Some Black) in fix_insert k s grand
            end
          else if oeqb (Some parent) (get_left s grand) then
            LET s <- (if oeqb (Some n) (get_right s parent) then
                       LET s <- rotateLeft s n IN
                       LET s <- rotateRight s n IN
                       POk (set_color s n (Some Black))
                     else
                       LET s <- rotateRight s parent IN
                       POk (set_color s parent (Some Black))) IN
            POk (set_color s grand (Some Red))
          else
            if negb (oeqb (Some parent) (get_right s grand)) then PAssert 240 else
            LET s <- (if oeqb (Some n) (get_left s parent) then
                       LET s <- rotateRight s n IN
                       LET s <- rotateLeft s n IN
                       POk (set_color s n (Some Black))
                     else
                       LET s <- rotateLeft s parent IN
                       POk (set_color s parent (Some Black))) IN
            POk (set_color s grand (Some Red))
        end
      end
    end.

  (* ---- insert_root / insert_left / insert_right (rbtree.hpp:124-182) *)
  Definition insert_root (fuel : nat) (s : pstate) (node : N) : pres pstate :=
    match p_root s with Some _ => PAssert 125 | None =>
      let s := set_root s (Some node) in
      let s := aggregate_node s node in
      fix_insert fuel s node
    end.

  (* the link assignments of insert_left, before the aggregate / fix_insert calls *)
  Definition insert_left_links (s : pstate) (parent node : N) : pstate :=
    let s := set_left s parent (Some node) in                    (* h(parent)->left = node; *)
    let s := set_parent s node (Some parent) in                  (* h(node)->parent = parent; *)
    let pred := get_pred s parent in                             (* T *pred = predecessor(parent); *)
    let s := match pred with Some p => set_succ s p (Some node) | None => s end in   (* if(pred) h(pred)->successor = node; *)
    let s := set_pred s node pred in                             (* h(node)->predecessor = pred; *)
    let s := set_succ s node (Some parent) in                    (* h(node)->successor = parent; *)
    set_pred s parent (Some node).                               (* h(parent)->predecessor = node; *)

  Definition insert_left (fuel : nat) (s : pstate) (parent node : N) : pres pstate :=
    (* FRG_ASSERT(parent): parent is a non-null node id by construction *)
    match get_left s parent with Some _ => PAssert 136 | None =>
      let s := insert_left_links s parent node in
      let s := aggregate_node s node in
      LET s <- aggregate_path fuel s (Some parent) IN
      fix_insert fuel s node
    end.

  Definition insert_right_links (s : pstate) (parent node : N) : pstate :=
    let s := set_right s parent (Some node) in                   (* h(parent)->right = node; *)
    let s := set_parent s node (Some parent) in                  (* h(node)->parent = parent; *)
    let succ := get_succ s parent in                             (* T *succ = successor(parent); *)
    let s := set_succ s parent (Some node) in                    (* h(parent)->successor = node; *)
    let s := set_pred s node (Some parent) in                    (* h(node)->predecessor = parent; *)
    let s := set_succ s node succ in                             (* h(node)->successor = succ; *)
    match succ with Some q => set_pred s q (Some node) | None => s end.   (* if(succ) h(succ)->predecessor = node; *)

  Definition insert_right (fuel : nat) (s : pstate) (parent node : N) : pres pstate :=
    match get_right s parent with Some _ => PAssert 161 | None =>
      let s := insert_right_links s parent node in
      let s := aggregate_node s node in
      LET s <- aggregate_path fuel s (Some parent) IN
      fix_insert fuel s node
    end.

  (* ---- tree_struct::insert (rbtree.hpp:666-690): descent with _less(node, current) *)
  Fixpoint insert_loop (k fuel : nat) (s : pstate) (node current : N) : pres pstate :=
    match k with
    | O => POutOfFuel
    | S k' =>
        if less (ek node) (ek current) then
          match get_left s current with
          | None => insert_left fuel s current node
          | Some c => insert_loop k' fuel s node c
          end
        else
          match get_right s current with
          | None => insert_right fuel s current node
          | Some c => insert_loop k' fuel s node c
          end
    end.
  Definition p_insert (fuel : nat) (s : pstate) (node : N) : pres pstate :=
    match p_root s with
    | None => insert_root fuel s node
    | Some r => insert_loop fuel fuel s node r
    end.

  (* ---- tree_order_struct::insert(before, node) (rbtree.hpp:713-739) *)
  Fixpoint rightmost_loop (k : nat) (s : pstate) (current : N) : pres N :=
    match k with
    | O => POutOfFuel
    | S k' => match get_right s current with Some c => rightmost_loop k' s c | None => POk current end
    end.
  Definition p_insert_before (fuel : nat) (s : pstate) (before : option N) (node : N) : pres pstate :=
    match before with
    | None =>
        match p_root s with
        | None => insert_root fuel s node
        | Some r => LET current <- rightmost_loop fuel s r IN insert_right fuel s current node
        end
    | Some b =>
        match get_left s b with
        | None => insert_left fuel s b node
        | Some c => LET current <- rightmost_loop fuel s c IN insert_right fuel s current node
        end
    end.

  (* ---- fix_remove (rbtree.hpp:376-463); the tail call fix_remove(parent) consumes fuel.
     The body is cut into two definitions at the comment "now s is the (black) sibling" only to keep the refinement
     proof readable; [fix_remove] below is their composition in source order. *)
  (* lines 383-410: rotate so that our node has a black sibling; returns the heap and the sibling [s] *)
  Definition fix_remove_sibling (s : pstate) (n parent : N) : pres (pstate * N) :=
    if oeqb (get_left s parent) (Some n) then
      match get_right s parent with
      | None => PAssert 386
      | Some x =>
          LET s <- (if ceqb (get_color s x) (Some Red) then
                     LET s <- rotateLeft s x IN
                     if negb (oeqb (Some n) (get_left s parent)) then PAssert 390 else
                     let s := set_color s parent (Some Red) in
                     POk (set_color s x (Some Black))
                   else POk s) IN
          match get_right s parent with Some sb => POk (s, sb) | None => PUB 396 end
      end
    else
      if negb (oeqb (get_right s parent) (Some n)) then PAssert 398 else
      match get_left s parent with
      | None => PAssert 399
      | Some x =>
          LET s <- (if ceqb (get_color s x) (Some Red) then
                     LET s <- rotateRight s x IN
                     if negb (oeqb (Some n) (get_right s parent)) then PAssert 403 else
                     let s := set_color s parent (Some Red) in
                     POk (set_color s x (Some Black))
                   else POk s) IN
          match get_left s parent with Some sb => POk (s, sb) | None => PUB 409 end
      end.

  (* lines 412-462; [again] is the tail call fix_remove(parent) *)
  Definition fix_remove_rest (again : pstate -> N -> pres pstate) (s : pstate) (n parent sb : N) : pres pstate :=
    if p_isBlack s (get_left s sb) && p_isBlack s (get_right s sb) then
      if ceqb (get_color s parent) (Some Black) then
        let s := set_color s sb (Some Red) in
        again s parent
      else
        let s := set_color s parent (Some Black) in
        POk (set_color s sb (Some Red))
    else
      (* now at least one of s children is red *)
      let parent_color := get_color s parent in
      if oeqb (get_left s parent) (Some n) then
        (* rotate so that get_right(s) is red *)
        LET ssb <- (if p_isRed s (get_left s sb) && p_isBlack s (get_right s sb) then
                     match get_left s sb with
                     | None => PUB 429
                     | Some child =>
                         LET s <- rotateRight s child IN
                         let s := set_color s sb (Some Red) in
                         let s := set_color s child (Some Black) in
                         POk (s, child)
                     end
                   else POk (s, sb)) IN
        let '(s, sb) := ssb in
        if negb (p_isRed s (get_right s sb)) then PAssert 437 else
        LET s <- rotateLeft s sb IN
        let s := set_color s parent (Some Black) in
        let s := set_color s sb parent_color in
        match get_right s sb with
        | None => PUB 442
        | Some far => POk (set_color s far (Some Black))
        end
      else
        if negb (oeqb (get_right s parent) (Some n)) then PAssert 444 else
        (* rotate so that get_left(s) is red *)
        LET ssb <- (if p_isRed s (get_right s sb) && p_isBlack s (get_left s sb) then
                     match get_right s sb with
                     | None => PUB 448
                     | Some child =>
                         LET s <- rotateLeft s child IN
                         let s := set_color s sb (Some Red) in
                         let s := set_color s child (Some Black) in
                         POk (s, child)
                     end
                   else POk (s, sb)) IN
        let '(s, sb) := ssb in
        if negb (p_isRed s (get_left s sb)) then PAssert 456 else
        LET s <- rotateRight s sb IN
        let s := set_color s parent (Some Black) in
        let s := set_color s sb parent_color in
        match get_left s sb with
        | None => PUB 461
        | Some far => POk (set_color s far (Some Black))
        end.

  Fixpoint fix_remove (fuel : nat) (s : pstate) (n : N) : pres pstate :=
    match fuel with
    | O => POutOfFuel
    | S k =>
      if negb (ceqb (get_color s n) (Some Black)) then PAssert 377 else
      match get_parent s n with
      | None => POk s
      | Some parent =>
        LET ssb <- fix_remove_sibling s n parent IN
        let '(s, sb) := ssb in
        fix_remove_rest (fix_remove k) s n parent sb
      end
    end.

  (* the five resets at the end of replace_node / remove_half_leaf *)
  Definition reset_links (s : pstate) (node : N) : pstate :=
    let s := set_left s node None in
    let s := set_right s node None in
    let s := set_parent s node None in
    let s := set_pred s node None in
    set_succ s node None.

  (* ---- remove_half_leaf (rbtree.hpp:324-366) *)
  Definition remove_half_leaf (fuel : nat) (s : pstate) (node : N) (child : option N) : pres pstate :=
    let pred := get_pred s node in                               (* T *pred = predecessor(node); *)
    let succ := get_succ s node in                               (* T *succ = successor(node); *)
    let s := match pred with Some p => set_succ s p succ | None => s end in   (* if(pred) h(pred)->successor = succ; *)
    let s := match succ with Some q => set_pred s q pred | None => s end in   (* if(succ) h(succ)->predecessor = pred; *)
    LET s <- (if ceqb (get_color s node) (Some Black) then
               if p_isRed s child then
                 match child with Some c => POk (set_color s c (Some Black)) | None => PUB 334 end
               else fix_remove fuel s node
             else POk s) IN
    if negb ((oeqb (get_left s node) None && oeqb (get_right s node) child)
             || (oeqb (get_left s node) child && oeqb (get_right s node) None)) then PAssert 343 else
    let parent := get_parent s node in                           (* T *parent = get_parent(node); *)
    LET s <- match parent with
            | None => POk (set_root s child)                     (* _root = child; *)
            | Some p =>
                if oeqb (get_left s p) (Some node) then POk (set_left s p child)           (* h(parent)->left = child; *)
                else if oeqb (get_right s p) (Some node) then POk (set_right s p child)    (* h(parent)->right = child; *)
                else PAssert 352
            end IN
    let s := match child with Some c => set_parent s c parent | None => s end in   (* if(child) h(child)->parent = parent; *)
    let s := reset_links s node in
    match parent with Some _ => aggregate_path fuel s parent | None => POk s end.

  (* ---- replace_node (rbtree.hpp:281-322) *)
  Definition replace_node (fuel : nat) (s : pstate) (node replacement : N) : pres pstate :=
    let parent := get_parent s node in
    let left := get_left s node in
    let right := get_right s node in
    LET s <- match parent with
            | None => POk (set_root s (Some replacement))        (* _root = replacement; *)
            | Some p =>
                if oeqb (Some node) (get_left s p) then POk (set_left s p (Some replacement))
                else if oeqb (Some node) (get_right s p) then POk (set_right s p (Some replacement))
                else PAssert 292
            end IN
    let s := set_parent s replacement parent in                  (* h(replacement)->parent = parent; *)
    let s := set_color s replacement (get_color s node) in       (* h(replacement)->color = h(node)->color; *)
    let s := set_left s replacement left in                      (* h(replacement)->left = left; *)
    let s := match left with Some l => set_parent s l (Some replacement) | None => s end in
    let s := set_right s replacement right in                    (* h(replacement)->right = right; *)
    let s := match right with Some r => set_parent s r (Some replacement) | None => s end in
    (* fix the linked list; predecessor(node) / successor(node) are re-read each time, as in the source *)
    let s := match get_pred s node with Some p => set_succ s p (Some replacement) | None => s end in
    let s := set_pred s replacement (get_pred s node) in
    let s := set_succ s replacement (get_succ s node) in
    let s := match get_succ s node with Some q => set_pred s q (Some replacement) | None => s end in
    let s := reset_links s node in
    let s := aggregate_node s replacement in
    aggregate_path fuel s parent.

  (* ---- remove (rbtree.hpp:257-277) *)
  Definition p_remove (fuel : nat) (s : pstate) (node : N) : pres pstate :=
    let left_ptr := get_left s node in
    let right_ptr := get_right s node in
    match left_ptr with
    | None => remove_half_leaf fuel s node right_ptr
    | Some _ =>
        match right_ptr with
        | None => remove_half_leaf fuel s node left_ptr
        | Some _ =>
            match get_pred s node with                           (* T *pred = predecessor(node); *)
            | None => PUB 271                                    (* get_left(pred) *)
            | Some pred =>
                LET s <- remove_half_leaf fuel s pred (get_left s pred) IN
                replace_node fuel s node pred
            end
        end
    end.

  Definition p_empty (a0 : annot) : pstate := mkP (fun _ => null_hook) None (fun _ => a0) [].
End RbPtr.

Arguments mkP {annot} p_hooks p_root p_annots p_wlog.
Arguments p_hooks {annot} p.
Arguments p_root {annot} p.
Arguments p_annots {annot} p.
Arguments p_wlog {annot} p.
Arguments get_parent {annot} s i.
Arguments get_left {annot} s i.
Arguments get_right {annot} s i.
Arguments get_pred {annot} s i.
Arguments get_succ {annot} s i.
Arguments get_color {annot} s i.
Arguments upd {annot} s i f.
Arguments set_parent {annot} s i v.
Arguments set_left {annot} s i v.
Arguments set_right {annot} s i v.
Arguments set_pred {annot} s i v.
Arguments set_succ {annot} s i v.
Arguments set_color {annot} s i v.
Arguments set_root {annot} s v.
Arguments set_annot {annot} s i a.
Arguments p_isRed {annot} s o.
Arguments p_isBlack {annot} s o.
Arguments first_loop {annot} fuel s current.
Arguments p_first {annot} fuel s.
Arguments aggregate {elt annot} agg aeqb ek s node.
Arguments aggregate_node {elt annot} agg aeqb ek s node.
Arguments aggregate_path {elt annot} agg aeqb ek fuel s current.
Arguments rotateLeft {elt annot} agg aeqb ek s n.
Arguments rotateRight {elt annot} agg aeqb ek s n.
Arguments fix_insert {elt annot} agg aeqb ek fuel s n.
Arguments insert_root {elt annot} agg aeqb ek fuel s node.
Arguments insert_left_links {annot} s parent node.
Arguments insert_left {elt annot} agg aeqb ek fuel s parent node.
Arguments insert_right_links {annot} s parent node.
Arguments insert_right {elt annot} agg aeqb ek fuel s parent node.
Arguments insert_loop {elt annot} less agg aeqb ek k fuel s node current.
Arguments p_insert {elt annot} less agg aeqb ek fuel s node.
Arguments rightmost_loop {annot} k s current.
Arguments p_insert_before {elt annot} agg aeqb ek fuel s before node.
Arguments fix_remove_sibling {elt annot} agg aeqb ek s n parent.
Arguments fix_remove_rest {elt annot} agg aeqb ek again s n parent sb.
Arguments fix_remove {elt annot} agg aeqb ek fuel s n.
Arguments reset_links {annot} s node.
Arguments remove_half_leaf {elt annot} agg aeqb ek fuel s node child.
Arguments replace_node {elt annot} agg aeqb ek fuel s node replacement.
Arguments p_remove {elt annot} agg aeqb ek fuel s node.
Arguments p_empty {annot} a0.

(* The plain instance of C06 (frg::null_aggregator): no annotation, aggregate never reports a change. *)
Definition paeqb (_ _ : unit) : bool := true.
Definition ppstate := pstate unit.
Definition pp_empty : ppstate := p_empty tt.
