(* RbInvariant.v — the red-black colouring is preserved by insert, insert_before and remove; height bound. *)
From Coq Require Import NArith List Bool Lia PeanoNat.
From FV Require Import Rb.RbModel.
Import ListNotations.

Section RbInvariant.
  Variables elt annot : Type.
  Variable id_of : elt -> N.
  Variable less : elt -> elt -> bool.
  Variable agg : elt -> option annot -> option annot -> annot.
  Notation tree := (tree elt annot).

  (* [rbt t n]: no red node has a red child, every path to a leaf has n black nodes *)
  Inductive rbt : tree -> nat -> Prop :=
  | rb_E : rbt E 0
  | rb_R l x a r n : rbt l n -> rbt r n -> isBlack l = true -> isBlack r = true -> rbt (T Red l x a r) n
  | rb_B l x a r n : rbt l n -> rbt r n -> rbt (T Black l x a r) (S n).
  Hint Constructors rbt : core.

  (* the whole tree: additionally the root is black *)
  Definition rb (t : tree) : Prop := isBlack t = true /\ exists n, rbt t n.

  Ltac inv H := inversion H; subst; clear H.

  Lemma rbt_mkB l x r n : rbt l n -> rbt r n -> rbt (mk agg Black l x r) (S n).
  Proof. unfold mk; auto. Qed.
  Lemma rbt_mkR l x r n : rbt l n -> rbt r n -> isBlack l = true -> isBlack r = true -> rbt (mk agg Red l x r) n.
  Proof. unfold mk; auto. Qed.
  Hint Resolve rbt_mkB rbt_mkR : core.

  Lemma paintB_red (t : tree) n : isRed t = true -> rbt t n -> rbt (paintB t) (S n).
  Proof. destruct t as [|[] l x a r]; cbn; try discriminate. intros _ H; inv H; auto. Qed.
  Lemma isBlack_paintB (t : tree) : isBlack (paintB t) = true.
  Proof. destruct t as [|[]]; reflexivity. Qed.
  Lemma isRed_paintB (t : tree) : isRed (paintB t) = false.
  Proof. destruct t as [|[]]; reflexivity. Qed.
  Lemma rbt_paintR_inv (t : tree) n : rbt (paintR t) n -> t <> E ->
    exists l x a r c, t = T c l x a r /\ rbt l n /\ rbt r n /\ isBlack l = true /\ isBlack r = true.
  Proof. destruct t as [|c l x a r]; [congruence|]. cbn. intros H _. inv H. eauto 12. Qed.
  Lemma black_not_red (t : tree) : isBlack t = true -> isRed t = true -> False.
  Proof. unfold isBlack. intros H1 H2. rewrite H2 in H1. discriminate. Qed.
  Lemma notred_black (t : tree) : isRed t = false -> isBlack t = true.
  Proof. unfold isBlack. intros ->. reflexivity. Qed.
  Lemma isBlack_mkB l x r : isBlack (mk agg Black l x r) = true. Proof. reflexivity. Qed.
  Lemma isRed_mk c l x r : isRed (mk agg c l x r) = match c with Red => true | Black => false end.
  Proof. destruct c; reflexivity. Qed.
  Hint Resolve isBlack_paintB notred_black isBlack_mkB : core.

  (* ---------------------------------------------------------------------------------------------
     insertion *)
  (* what the status promises about the returned subtree, relative to the original one *)
  Definition ins_post (t : tree) (n : nat) (t' : tree) (st : ist) : Prop :=
    match st with
    | IDone => rbt t' n /\ isRed t' = isRed t
    | IFix => isRed t = false /\ rbt (paintR t') n /\ t' <> E
    | IRedRed s => isRed t = true /\
        exists l x a r, t' = T Red l x a r /\ rbt l n /\ rbt r n /\
          match s with
          | SL => isRed l = true /\ isBlack r = true
          | SR => isRed r = true /\ isBlack l = true
          end
    end.

  Definition sub_height (c : color) (n : nat) : nat := match c with Black => pred n | Red => n end.

  Lemma up_ins_ok_L c l' x a0 l0 r0 n st :
    rbt (T c l0 x a0 r0) n -> ins_post l0 (sub_height c n) l' st ->
    let '(t', st') := up_ins agg c l' x r0 SL st in ins_post (T c l0 x a0 r0) n t' st'.
  Proof.
    intros Hrb Hpost. destruct st as [| |s]; cbn [ins_post] in Hpost.
    - destruct Hpost as [Hc Hcol]. cbn [up_ins]. inv Hrb; cbn [sub_height pred] in *; cbn [ins_post].
      + split; [|reflexivity]. apply rbt_mkR; auto. unfold isBlack in *. rewrite Hcol; auto.
      + split; [|reflexivity]. auto.
    - destruct Hpost as (Hnr & Hp & Hne).
      destruct (rbt_paintR_inv _ _ Hp Hne) as (p & y & ya & q & c' & -> & Hp1 & Hq & Hbp & Hbq).
      inv Hrb; cbn [up_ins paintR sub_height pred ins_post] in *.
      + split; [reflexivity|]. unfold mk. eexists _, _, _, _. split; [reflexivity|]. repeat split; auto.
      + split; [|reflexivity]. apply rbt_mkB; auto.
    - destruct Hpost as (Hred & pl & px & pa & pr & -> & Hpl & Hpr & Hs).
      inv Hrb; [exfalso; eauto using black_not_red|].
      cbn [sub_height pred] in *. cbn [up_ins].
      destruct (isRed r0) eqn:Er.
      + cbn [ins_post]. split; [reflexivity|]. split; [|discriminate].
        cbn [paintR mk]. unfold mk. cbn [paintR]. constructor; auto.
        * cbn [paintB]. destruct s; constructor; auto.
        * apply paintB_red; auto.
      + destruct s.
        * destruct Hs as [Hrl Hbr]. cbn [ins_post]. split; [|reflexivity].
          destruct pl as [|[] p1 z za p2]; cbn in Hrl; try discriminate.
          apply rbt_mkB; [auto|]. apply rbt_mkR; auto.
        * destruct Hs as [Hrr Hbl].
          destruct pr as [|[] p1 z za p2]; cbn in Hrr; try discriminate.
          cbn [ins_post]. split; [|reflexivity]. inv Hpr.
          apply rbt_mkB; apply rbt_mkR; auto.
  Qed.

  Lemma up_ins_ok_R c r' x a0 l0 r0 n st :
    rbt (T c l0 x a0 r0) n -> ins_post r0 (sub_height c n) r' st ->
    let '(t', st') := up_ins agg c l0 x r' SR st in ins_post (T c l0 x a0 r0) n t' st'.
  Proof.
    intros Hrb Hpost. destruct st as [| |s]; cbn [ins_post] in Hpost.
    - destruct Hpost as [Hc Hcol]. cbn [up_ins]. inv Hrb; cbn [sub_height pred] in *; cbn [ins_post].
      + split; [|reflexivity]. apply rbt_mkR; auto. unfold isBlack in *. rewrite Hcol; auto.
      + split; [|reflexivity]. auto.
    - destruct Hpost as (Hnr & Hp & Hne).
      destruct (rbt_paintR_inv _ _ Hp Hne) as (p & y & ya & q & c' & -> & Hp1 & Hq & Hbp & Hbq).
      inv Hrb; cbn [up_ins paintR sub_height pred ins_post] in *.
      + split; [reflexivity|]. unfold mk. eexists _, _, _, _. split; [reflexivity|]. repeat split; auto.
      + split; [|reflexivity]. apply rbt_mkB; auto.
    - destruct Hpost as (Hred & pl & px & pa & pr & -> & Hpl & Hpr & Hs).
      inv Hrb; [exfalso; eauto using black_not_red|].
      cbn [sub_height pred] in *. cbn [up_ins].
      destruct (isRed l0) eqn:El.
      + cbn [ins_post]. split; [reflexivity|]. split; [|discriminate].
        unfold mk. cbn [paintR]. constructor; auto.
        * apply paintB_red; auto.
        * cbn [paintB]. destruct s; constructor; auto.
      + destruct s.
        * destruct Hs as [Hrl Hbr].
          destruct pl as [|[] p1 z za p2]; cbn in Hrl; try discriminate.
          cbn [ins_post]. split; [|reflexivity]. inv Hpl.
          apply rbt_mkB; apply rbt_mkR; auto.
        * destruct Hs as [Hrr Hbl]. cbn [ins_post]. split; [|reflexivity].
          destruct pr as [|[] p1 z za p2]; cbn in Hrr; try discriminate.
          apply rbt_mkB; [|auto]. apply rbt_mkR; auto.
  Qed.

  Lemma rbt_children c l x a r n : rbt (T c l x a r) n -> rbt l (sub_height c n) /\ rbt r (sub_height c n).
  Proof. intros H; inv H; cbn; auto. Qed.

  Lemma ins_post_leaf x : ins_post E 0 (mk agg Red E x E) IFix.
  Proof. cbn. repeat split; auto; discriminate. Qed.

  Lemma ins_ok x (t : tree) : forall n, rbt t n -> let '(t', st) := ins less agg x t in ins_post t n t' st.
  Proof.
    induction t as [|c l IHl y a r IHr]; intros n H; cbn [ins].
    - inv H. apply ins_post_leaf.
    - destruct (rbt_children _ _ _ _ _ _ H) as [Hl Hr].
      destruct (less x y).
      + specialize (IHl _ Hl). destruct (ins less agg x l) as [l' st].
        exact (up_ins_ok_L c l' y a l r n st H IHl).
      + specialize (IHr _ Hr). destruct (ins less agg x r) as [r' st].
        exact (up_ins_ok_R c r' y a l r n st H IHr).
  Qed.

  Lemma ins_last_ok x (t : tree) : forall n, rbt t n -> let '(t', st) := ins_last agg x t in ins_post t n t' st.
  Proof.
    induction t as [|c l _ y a r IHr]; intros n H; cbn [ins_last].
    - inv H. apply ins_post_leaf.
    - destruct (rbt_children _ _ _ _ _ _ H) as [Hl Hr].
      specialize (IHr _ Hr). destruct (ins_last agg x r) as [r' st].
      exact (up_ins_ok_R c r' y a l r n st H IHr).
  Qed.

  Lemma ins_bef_ok b x (t : tree) : forall n, rbt t n ->
    match ins_bef id_of agg b x t with Some (t', st) => ins_post t n t' st | None => True end.
  Proof.
    induction t as [|c l IHl y a r IHr]; intros n H; cbn [ins_bef]; [exact I|].
    destruct (rbt_children _ _ _ _ _ _ H) as [Hl Hr].
    destruct (N.eqb (id_of y) b).
    - pose proof (ins_last_ok x l _ Hl) as P. destruct (ins_last agg x l) as [l' st].
      pose proof (up_ins_ok_L c l' y a l r n st H P) as Q. destruct (up_ins agg c l' y r SL st). exact Q.
    - specialize (IHl _ Hl). destruct (ins_bef id_of agg b x l) as [[l' st]|].
      + pose proof (up_ins_ok_L c l' y a l r n st H IHl) as Q. destruct (up_ins agg c l' y r SL st). exact Q.
      + specialize (IHr _ Hr). destruct (ins_bef id_of agg b x r) as [[r' st]|]; [|exact I].
        pose proof (up_ins_ok_R c r' y a l r n st H IHr) as Q. destruct (up_ins agg c l y r' SR st). exact Q.
  Qed.

  Lemma finish_ins_rb (t t' : tree) st n : rbt t n -> isBlack t = true -> ins_post t n t' st -> rb (finish_ins (t', st)).
  Proof.
    intros H Hb P. unfold rb. destruct st; cbn [ins_post finish_ins] in *.
    - destruct P as [P1 P2]. split; [unfold isBlack in *; rewrite P2; auto|eauto].
    - destruct P as (_ & P & Hne). destruct (rbt_paintR_inv _ _ P Hne) as (p & y & ya & q & c' & -> & ? & ? & ? & ?).
      cbn [paintB]. split; [reflexivity|]. exists (S n). auto.
    - destruct P as (Hr & _). exfalso; eauto using black_not_red.
  Qed.

  Theorem insert_rb x (t : tree) : rb t -> rb (insert less agg x t).
  Proof.
    intros [Hb [n H]]. unfold insert. pose proof (ins_ok x t n H) as P.
    destruct (ins less agg x t) as [t' st]. eapply finish_ins_rb; eauto.
  Qed.

  Theorem insert_before_rb before x (t : tree) : rb t -> rb (insert_before id_of agg before x t).
  Proof.
    intros [Hb [n H]]. destruct before as [b|]; cbn [insert_before].
    - pose proof (ins_bef_ok b x t n H) as P. destruct (ins_bef id_of agg b x t) as [[t' st]|].
      + eapply finish_ins_rb; eauto.
      + split; eauto.
    - pose proof (ins_last_ok x t n H) as P. destruct (ins_last agg x t) as [t' st]. eapply finish_ins_rb; eauto.
  Qed.

  (* ---------------------------------------------------------------------------------------------
     removal.  Postcondition of a rebuilt subtree (t', short) relative to the original subtree, which had
     root colour c and black height n. *)
  Definition del_post (c : color) (n : nat) (t' : tree) (sh : bool) : Prop :=
    if sh then c = Black /\ exists m, n = S m /\ rbt t' m /\ isBlack t' = true
    else rbt t' n /\ (c = Black -> isBlack t' = true).

  Definition node_height (c : color) (m : nat) : nat := match c with Black => S m | Red => m end.

  Lemma rbt_black_nonempty (t : tree) m : rbt t (S m) -> isBlack t = true ->
    exists l x a r, t = T Black l x a r /\ rbt l m /\ rbt r m.
  Proof. intros H Hb. inv H; [discriminate Hb|eauto 8]. Qed.
  Lemma rbt_red_inv (t : tree) m : rbt t m -> isRed t = true ->
    exists l x a r, t = T Red l x a r /\ rbt l m /\ rbt r m /\ isBlack l = true /\ isBlack r = true.
  Proof. intros H Hr. inv H; try discriminate Hr. eauto 10. Qed.

  (* sibling T Black rl y rr (black height S m), n = l is short: rbt l m *)
  Lemma bsL_ok c l x rl y rr m :
    rbt l m -> isBlack l = true -> rbt rl m -> rbt rr m ->
    let '(t', sh) := bsL agg c l x rl y rr in del_post c (node_height c (S m)) t' sh.
  Proof.
    intros Hl Hbl Hrl Hrr. unfold bsL.
    destruct (isBlack rl && isBlack rr) eqn:Hbb.
    - apply andb_true_iff in Hbb. destruct Hbb as [B1 B2].
      destruct c; cbn [del_post node_height].
      + split; [|discriminate]. apply rbt_mkB; auto.
      + split; [reflexivity|]. exists (S m). repeat split; auto.
    - destruct (isRed rl && isBlack rr) eqn:Hnear.
      + apply andb_true_iff in Hnear. destruct Hnear as [R1 B2].
        destruct (rbt_red_inv _ _ Hrl R1) as (p & z & za & q & -> & Hp & Hq & Bp & Bq).
        cbn [del_post]. split.
        * destruct c; cbn [node_height]; [apply rbt_mkR|apply rbt_mkB]; auto.
        * intros ->. reflexivity.
      + assert (R2 : isRed rr = true).
        { unfold isBlack in *. destruct (isRed rl), (isRed rr); cbn in *; congruence. }
        cbn [del_post]. split.
        * destruct c; cbn [node_height]; [apply rbt_mkR|apply rbt_mkB]; auto using paintB_red.
        * intros ->. reflexivity.
  Qed.

  Lemma bsR_ok c ll y lr x r m :
    rbt r m -> isBlack r = true -> rbt ll m -> rbt lr m ->
    let '(t', sh) := bsR agg c ll y lr x r in del_post c (node_height c (S m)) t' sh.
  Proof.
    intros Hr Hbr Hll Hlr. unfold bsR.
    destruct (isBlack ll && isBlack lr) eqn:Hbb.
    - apply andb_true_iff in Hbb. destruct Hbb as [B1 B2].
      destruct c; cbn [del_post node_height].
      + split; [|discriminate]. apply rbt_mkB; auto.
      + split; [reflexivity|]. exists (S m). repeat split; auto.
    - destruct (isRed lr && isBlack ll) eqn:Hnear.
      + apply andb_true_iff in Hnear. destruct Hnear as [R1 B2].
        destruct (rbt_red_inv _ _ Hlr R1) as (p & z & za & q & -> & Hp & Hq & Bp & Bq).
        cbn [del_post]. split.
        * destruct c; cbn [node_height]; [apply rbt_mkR|apply rbt_mkB]; auto.
        * intros ->. reflexivity.
      + assert (R2 : isRed ll = true).
        { unfold isBlack in *. destruct (isRed ll), (isRed lr); cbn in *; congruence. }
        cbn [del_post]. split.
        * destruct c; cbn [node_height]; [apply rbt_mkR|apply rbt_mkB]; auto using paintB_red.
        * intros ->. reflexivity.
  Qed.

  (* l is the short rebuilt left child (rbt l m, black); the untouched sibling r has black height S m *)
  Lemma balL_ok c l x r m :
    rbt l m -> isBlack l = true -> rbt r (S m) -> (c = Red -> isBlack r = true) ->
    let '(t', sh) := balL agg c l x r in del_post c (node_height c (S m)) t' sh.
  Proof.
    intros Hl Hbl Hr Hc. unfold balL. destruct r as [|[] rl y ra rr].
    - inv Hr.
    - (* red sibling: the parent is black *)
      destruct c; [specialize (Hc eq_refl); discriminate Hc|].
      inv Hr.
      match goal with H : rbt rl (S m) |- _ => destruct (rbt_black_nonempty _ _ H ltac:(assumption)) as (p & z & za & q & -> & Hp & Hq) end.
      pose proof (bsL_ok Red l x p z q m Hl Hbl Hp Hq) as P.
      destruct (bsL agg Red l x p z q) as [p' s]. cbn [del_post node_height] in *.
      destruct s; [destruct P as [P _]; discriminate P|].
      destruct P as [P _]. split; [|reflexivity]. apply rbt_mkB; auto.
    - inv Hr. apply bsL_ok; auto.
  Qed.

  Lemma balR_ok c l x r m :
    rbt r m -> isBlack r = true -> rbt l (S m) -> (c = Red -> isBlack l = true) ->
    let '(t', sh) := balR agg c l x r in del_post c (node_height c (S m)) t' sh.
  Proof.
    intros Hr Hbr Hl Hc. unfold balR. destruct l as [|[] ll y la lr].
    - inv Hl.
    - destruct c; [specialize (Hc eq_refl); discriminate Hc|].
      inv Hl.
      match goal with H : rbt lr (S m) |- _ => destruct (rbt_black_nonempty _ _ H ltac:(assumption)) as (p & z & za & q & -> & Hp & Hq) end.
      pose proof (bsR_ok Red p z q x r m Hr Hbr Hp Hq) as P.
      destruct (bsR agg Red p z q x r) as [p' s]. cbn [del_post node_height] in *.
      destruct s; [destruct P as [P _]; discriminate P|].
      destruct P as [P _]. split; [|reflexivity]. apply rbt_mkB; auto.
    - inv Hl. apply bsR_ok; auto.
  Qed.

  (* the unlinked node had colour c, one child [child] (black height m) and E on the other side *)
  Lemma half_ok c (child : tree) m :
    rbt child m -> (c = Red -> isBlack child = true) ->
    let '(t', sh) := half c child in del_post c (node_height c m) t' sh.
  Proof.
    intros Hc Hb. unfold half. destruct c; cbn [del_post node_height].
    - split; [exact Hc|discriminate].
    - destruct (isRed child) eqn:Er; cbn [del_post].
      + split; [apply paintB_red; auto|auto].
      + split; [reflexivity|]. exists m. auto.
  Qed.

  (* a node T c l x r of black height n: children have height k with n = node_height c k *)
  Lemma rbt_node_inv c l x a r n : rbt (T c l x a r) n ->
    exists k, n = node_height c k /\ rbt l k /\ rbt r k /\ (c = Red -> isBlack l = true /\ isBlack r = true).
  Proof.
    intros H. inv H.
    - exists n. cbn. auto.
    - eexists. cbn. repeat split; eauto; discriminate.
  Qed.

  (* rebuilding the parent after its LEFT child l0 (colour cl) was replaced by (l', sh) *)
  Lemma up_del_L c (l0 l' : tree) sh x r k :
    rbt r k -> (c = Red -> isBlack l0 = true /\ isBlack r = true) ->
    del_post (if isRed l0 then Red else Black) k l' sh ->
    let '(t', sh') := if sh then balL agg c l' x r else (mk agg c l' x r, false) in
    del_post c (node_height c k) t' sh'.
  Proof.
    intros Hr Hc P. destruct sh; cbn [del_post] in P.
    - destruct P as (_ & m & -> & Hl' & Hb'). apply balL_ok; auto. intros E0. apply Hc, E0.
    - destruct P as [Hl' Hb']. cbn [del_post]. split.
      + destruct c; cbn [node_height]; [|apply rbt_mkB; auto].
        destruct (Hc eq_refl) as [B1 B2]. apply rbt_mkR; auto.
        apply Hb'. unfold isBlack in B1. destruct (isRed l0); [discriminate|reflexivity].
      + intros ->. reflexivity.
  Qed.

  Lemma up_del_R c (l r0 r' : tree) sh x k :
    rbt l k -> (c = Red -> isBlack l = true /\ isBlack r0 = true) ->
    del_post (if isRed r0 then Red else Black) k r' sh ->
    let '(t', sh') := if sh then balR agg c l x r' else (mk agg c l x r', false) in
    del_post c (node_height c k) t' sh'.
  Proof.
    intros Hl Hc P. destruct sh; cbn [del_post] in P.
    - destruct P as (_ & m & -> & Hr' & Hb'). apply balR_ok; auto. intros E0. apply Hc, E0.
    - destruct P as [Hr' Hb']. cbn [del_post]. split.
      + destruct c; cbn [node_height]; [|apply rbt_mkB; auto].
        destruct (Hc eq_refl) as [B1 B2]. apply rbt_mkR; auto.
        apply Hb'. unfold isBlack in B2. destruct (isRed r0); [discriminate|reflexivity].
      + intros ->. reflexivity.
  Qed.

  Definition col (t : tree) : color := if isRed t then Red else Black.
  Lemma col_T c l x a r : col (T c l x a r) = c. Proof. destruct c; reflexivity. Qed.

  Lemma remove_max_ok (t : tree) : forall n, rbt t n ->
    match remove_max agg t with
    | Some (t', _, sh) => del_post (col t) n t' sh
    | None => t = E
    end.
  Proof.
    induction t as [|c l _ x a r IHr]; intros n H; cbn [remove_max]; [reflexivity|].
    rewrite col_T.
    destruct (rbt_node_inv _ _ _ _ _ _ H) as (k & -> & Hl & Hr & Hc).
    specialize (IHr _ Hr).
    destruct (remove_max agg r) as [[[r' mx] sh]|].
    - pose proof (up_del_R c l r r' sh x k Hl Hc IHr) as P.
      destruct (if sh then balR agg c l x r' else (mk agg c l x r', false)) as [t' sh']. exact P.
    - subst r. inv Hr.
      pose proof (half_ok c l 0 Hl (fun e => proj1 (Hc e))) as P.
      destruct (half c l) as [t' sh]. exact P.
  Qed.

  Lemma del_root_ok c l x a r n : rbt (T c l x a r) n ->
    let '(t', sh) := del_root agg c l x r in del_post c n t' sh.
  Proof.
    intros H. destruct (rbt_node_inv _ _ _ _ _ _ H) as (k & -> & Hl & Hr & Hc).
    unfold del_root. destruct l as [|lc ll lx la lr].
    - inv Hl. apply half_ok; auto. intros e. apply Hc, e.
    - destruct r as [|rc rl rx ra rr].
      + inv Hr. apply half_ok; auto. intros e. apply Hc, e.
      + pose proof (remove_max_ok _ _ Hl) as P.
        destruct (remove_max agg (T lc ll lx la lr)) as [[[l' m] sh]|]; [|discriminate P].
        exact (up_del_L c (T lc ll lx la lr) l' sh m (T rc rl rx ra rr) k Hr Hc P).
  Qed.

  Lemma del_ok i (t : tree) : forall n, rbt t n ->
    match del id_of agg i t with
    | Some (t', sh) => del_post (col t) n t' sh
    | None => True
    end.
  Proof.
    induction t as [|c l IHl x a r IHr]; intros n H; cbn [del]; [exact I|].
    rewrite col_T.
    destruct (N.eqb (id_of x) i).
    - pose proof (del_root_ok _ _ _ _ _ _ H) as P. destruct (del_root agg c l x r). exact P.
    - destruct (rbt_node_inv _ _ _ _ _ _ H) as (k & -> & Hl & Hr & Hc).
      specialize (IHl _ Hl). destruct (del id_of agg i l) as [[l' sh]|].
      + pose proof (up_del_L c l l' sh x r k Hr Hc IHl) as P.
        destruct (if sh then balL agg c l' x r else (mk agg c l' x r, false)). exact P.
      + specialize (IHr _ Hr). destruct (del id_of agg i r) as [[r' sh]|]; [|exact I].
        pose proof (up_del_R c l r r' sh x k Hl Hc IHr) as P.
        destruct (if sh then balR agg c l x r' else (mk agg c l x r', false)). exact P.
  Qed.

  Theorem remove_rb i (t : tree) : rb t -> rb (remove id_of agg i t).
  Proof.
    intros [Hb [n H]]. unfold remove. pose proof (del_ok i t n H) as P.
    destruct (del id_of agg i t) as [[t' sh]|]; [|split; eauto].
    assert (Ec : col t = Black) by (unfold col, isBlack in *; destruct (isRed t); [discriminate|reflexivity]).
    rewrite Ec in P. destruct sh; cbn [del_post] in P.
    - destruct P as (_ & m & -> & P & B). split; eauto.
    - destruct P as [P B]. split; eauto.
  Qed.

  (* ---------------------------------------------------------------------------------------------
     height bound *)
  Lemma rbt_height (t : tree) n : rbt t n -> height t <= 2 * n + (if isRed t then 1 else 0).
  Proof.
    induction 1 as [|l x a r n Hl IHl Hr IHr Bl Br|l x a r n Hl IHl Hr IHr]; cbn [height isRed].
    - lia.
    - unfold isBlack in *. destruct (isRed l), (isRed r); try discriminate. lia.
    - destruct (isRed l), (isRed r); lia.
  Qed.
  Lemma rbt_size (t : tree) n : rbt t n -> 2 ^ n <= size t + 1.
  Proof.
    induction 1 as [|l x a r n Hl IHl Hr IHr Bl Br|l x a r n Hl IHl Hr IHr]; cbn [size].
    - cbn. lia.
    - lia.
    - rewrite Nat.pow_succ_r'. lia.
  Qed.

  Theorem rb_height (t : tree) : rb t -> height t <= 2 * Nat.log2 (size t + 1).
  Proof.
    intros [Hb [n H]].
    pose proof (rbt_height t n H) as Hh. pose proof (rbt_size t n H) as Hs.
    unfold isBlack in Hb. destruct (isRed t); [discriminate|].
    assert (n <= Nat.log2 (size t + 1)).
    { rewrite <- (Nat.log2_pow2 n) by lia. apply Nat.log2_le_mono. exact Hs. }
    lia.
  Qed.

  Lemma rb_E_ok : rb (E : tree).
  Proof. split; [reflexivity|exists 0; constructor]. Qed.
End RbInvariant.
Arguments rbt {elt annot} t n.
Arguments rb {elt annot} t.
