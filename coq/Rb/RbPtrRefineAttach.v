(* RbPtrRefineAttach.v — the tail of every insertion: insert_root / insert_left / insert_right at the hole of a context
   (link assignments, aggregate_node, aggregate_path, fix_insert) = [finish_ins (ins_up ctx (leaf, IFix))], INCLUDING the
   annotation heap: if the annotations were consistent before, they are consistent after (for an aggregator with
   [agg_ok]); tree_struct::insert restated through it. *)
From Coq Require Import NArith List Bool Lia PeanoNat.
From FV Require Import Rb.RbModel Rb.RbInorder Rb.RbInvariant Rb.RbLayout Rb.RbPtr Rb.RbPtrBase Rb.RbPtrRefineRot
  Rb.RbPtrRefineIns Rb.RbPtrRefineFix Rb.RbPtrRefineInsert Rb.RbPtrRefineReplace Rb.RbPtrAnnot Rb.RbPtrAnnotRot Rb.RbPtrAnnotLoops.
Import ListNotations.

Section Attach.
  Variables elt annot : Type.
  Variable id_of : elt -> N.
  Variable less : elt -> elt -> bool.
  Variable agg : elt -> option annot -> option annot -> annot.
  Variable aeqb : annot -> annot -> bool.
  Variable ek : N -> elt.
  Notation tree := (tree elt unit).
  Notation ids t := (map id_of (inorder t)).
  Notation pstate := (pstate annot).
  Notation reprs := (reprs elt annot id_of).
  Notation uagg := (uagg elt).
  Notation frame := (frame elt).
  Notation ins_up := (ins_up elt).
  Notation cok := (cok elt).
  Notation ainv := (ainv elt annot id_of agg).
  Notation acinv := (acinv elt annot id_of agg).
  Notation tkeys := (tkeys elt id_of ek).

  (* ---- attaching the leaf at the hole of a context and rebalancing (the tail of every insertion) *)
  Definition attach (fuel : nat) (s : pstate) (ctx : list frame) (n : N) : pres pstate :=
    match ctx with
    | FL _ y _ :: _ => insert_left agg aeqb ek fuel s (id_of y) n
    | FR _ _ y :: _ => insert_right agg aeqb ek fuel s (id_of y) n
    | [] => insert_root agg aeqb ek fuel s n
    end.

  (* from the state fix_insert is entered with *)
  Lemma attach_tail fuel ctx x (s3 : pstate) :
    NoDup (ids (plug ctx (T Red E x tt E))) -> cok ctx -> length ctx < fuel ->
    reprs (Some (id_of x)) s3 (plug ctx (T Red E x tt E)) ->
    exists s', fix_insert agg aeqb ek fuel s3 (id_of x) = POk s'
               /\ reprs None s' (finish_ins (ins_up ctx (T Red E x tt E, IFix)))
               /\ (agg_ok agg aeqb -> tkeys (plug ctx (T Red E x tt E)) -> ainv (p_annots s3) (plug ctx (T Red E x tt E)) ->
                   ainv (p_annots s') (finish_ins (ins_up ctx (T Red E x tt E, IFix)))).
  Proof.
    clear less.
    intros Ndl Hok Hf H3.
    destruct (fix_insert_ok _ _ id_of agg aeqb ek fuel ctx Red E x tt E s3 Ndl Hok H3 Hf) as (s' & A & B).
    exists s'. split; [exact A|]. split; [exact B|]. intros [Ao1 Ao2] Hk Ha.
    pose proof H3 as H3'. apply reprS_split in H3'. destruct H3' as [T3 _].
    destruct (fix_insert_PA _ _ id_of agg aeqb ek Ao1 Ao2 fuel s3 (id_of x) s' A) as (t' & N' & T' & K' & A').
    { exists (plug ctx (T Red E x tt E)). auto. }
    pose proof B as B'. apply reprS_split in B'. destruct B' as [TB _].
    assert (Kr : tkeys (finish_ins (ins_up ctx (T Red E x tt E, IFix)))).
    { intros e He. apply Hk. rewrite inorder_finish_ins, (inorder_ins_up elt) in He. exact He. }
    rewrite <- (treeS_unique _ _ id_of ek None s' _ _ T' TB eq_refl K' Kr). exact A'.
  Qed.

  Lemma attach_ok fuel ctx x (s : pstate) :
    NoDup (ids (plug ctx (T Red E x tt E))) -> cok ctx -> reprs None s (plug ctx E) -> length ctx < fuel ->
    exists s', attach fuel s ctx (id_of x) = POk s'
               /\ reprs None s' (finish_ins (ins_up ctx (T Red E x tt E, IFix)))
               /\ (agg_ok agg aeqb -> tkeys (plug ctx (T Red E x tt E)) -> ainv (p_annots s) (plug ctx E) ->
                   ainv (p_annots s') (finish_ins (ins_up ctx (T Red E x tt E, IFix)))).
  Proof.
    clear less.
    intros Ndl Hok Hs Hf. destruct ctx as [|fr ctx']; cbn [attach].
    - destruct Hs as (A & B & C & D). cbn [plug root_id] in *. unfold insert_root. rewrite A.
      destruct (aggregate_node_hooks _ _ agg aeqb ek (set_root s (Some (id_of x))) (id_of x)) as [E1 E2].
      set (s2 := aggregate_node agg aeqb ek (set_root s (Some (id_of x))) (id_of x)) in *.
      destruct (D (id_of x)) as (D1 & D2 & D3 & D4 & D5); [cbn; tauto|].
      destruct (attach_tail fuel [] x s2 Ndl I Hf) as (s' & F1 & F2 & F3).
      { unfold RbPtrRefineRot.reprs. rewrite E1, E2. cbn [plug p_root set_root p_hooks].
        split; [reflexivity|]. split; [|split].
        + cbn [tinv root_id]. repeat split; auto. intros H0. exfalso. apply H0. reflexivity.
        + cbn [inorder map app dll]. auto.
        + intros j Hj. apply D. cbn. tauto. }
      exists s'. split; [exact F1|]. split; [exact F2|]. intros Ao Hk Ha. apply F3; [exact Ao|exact Hk|].
      cbn [plug RbPtrAnnot.ainv RbPtrAnnot.aval root_id option_map]. split; [|auto].
      subst s2. rewrite (aggregate_node_annots _ _ agg aeqb ek (proj1 Ao)). unfold agg_at. rewrite N.eqb_refl.
      cbn [p_hooks set_root]. rewrite D2, D3. rewrite (Hk x); [reflexivity|]. cbn. auto.
    - cbn [length] in Hf.
      assert (Common : forall (s1 : pstate), p_annots s1 = p_annots s ->
                 reprs (Some (id_of x)) s1 (plug (fr :: ctx') (T Red E x tt E)) ->
                 exists s', (LET s0 <- aggregate_path agg aeqb ek fuel (aggregate_node agg aeqb ek s1 (id_of x)) (Some (fid id_of fr))
                             IN fix_insert agg aeqb ek fuel s0 (id_of x)) = POk s'
                            /\ reprs None s' (finish_ins (ins_up (fr :: ctx') (T Red E x tt E, IFix)))
                            /\ (agg_ok agg aeqb -> tkeys (plug (fr :: ctx') (T Red E x tt E)) -> ainv (p_annots s) (plug (fr :: ctx') E) ->
                                ainv (p_annots s') (finish_ins (ins_up (fr :: ctx') (T Red E x tt E, IFix))))).
      { intros s1 An1 H1.
        destruct (aggregate_node_hooks _ _ agg aeqb ek s1 (id_of x)) as [E1 E2].
        set (s2 := aggregate_node agg aeqb ek s1 (id_of x)) in *.
        assert (H2 : reprs (Some (id_of x)) s2 (plug (fr :: ctx') (T Red E x tt E))).
        { unfold RbPtrRefineRot.reprs. rewrite E1, E2. exact H1. }
        assert (Hc2 : cinv id_of (Some (id_of x)) (p_hooks s2) (fr :: ctx') (Some (id_of x))).
        { destruct H2 as (_ & B2 & _). apply tinv_plug in B2. apply B2. }
        destruct (aggregate_path_ok _ _ id_of agg aeqb ek _ _ _ fuel s2 Hc2 ltac:(cbn [length]; lia)) as (s3 & E3 & E3h & E3r).
        cbn [cpar] in E3. rewrite E3. cbn [pbind].
        destruct (attach_tail fuel (fr :: ctx') x s3 Ndl Hok ltac:(cbn [length]; lia)) as (s' & F1 & F2 & F3).
        { unfold RbPtrRefineRot.reprs. rewrite E3h, E3r. exact H2. }
        exists s'. split; [exact F1|]. split; [exact F2|]. intros Ao Hk Ha. apply F3; [exact Ao|exact Hk|].
        destruct Ao as [Ao1 Ao2].
        (* the leaf *)
        destruct H1 as (_ & B1 & _). apply tinv_plug in B1. destruct B1 as [Bl _]. cbn [tinv root_id] in Bl.
        destruct Bl as ((_ & NL & NR & _) & _).
        assert (Kx : ek (id_of x) = x).
        { apply Hk. rewrite inorder_plug, !in_app_iff. right. left. cbn. auto. }
        assert (Ed : forall i, p_annots s2 i = if N.eqb i (id_of x) then agg x None None else p_annots s i).
        { intros i. subst s2. rewrite (aggregate_node_annots _ _ agg aeqb ek Ao1). unfold agg_at. rewrite NL, NR, Kx, An1. reflexivity. }
        pose proof Ndl as Ndl'. rewrite ids_plug in Ndl'. cbn [inorder map app] in Ndl'.
        assert (Nxc : ~ In (id_of x) (cids id_of (fr :: ctx'))) by (unfold cids; ni Ndl').
        apply tkeys_plug in Hk. destruct Hk as [_ Kc].
        apply ainv_plug in Ha. destruct Ha as [_ Hc0]. cbn [RbPtrAnnot.aval root_id option_map] in Hc0.
        assert (Ho : acopen elt annot id_of agg (p_annots s2) (fr :: ctx')).
        { apply acinv_open with (hv := None). revert Hc0. apply acinv_ext.
          intros j Hj. rewrite Ed. destruct (N.eqb_spec j (id_of x)) as [->|]; [contradiction|reflexivity]. }
        destruct (aggregate_path_annots _ _ id_of agg aeqb ek Ao1 (Some (id_of x)) (fr :: ctx') [id_of x] (Some (id_of x)) fuel s2)
          as (s3' & E3' & _ & _ & Q1 & Q2); try assumption.
        { intros i Hi. injection Hi as <-. left. reflexivity. }
        { cbn [length]. lia. }
        cbn [cpar] in E3'. rewrite E3 in E3'. injection E3' as <-.
        cbn [option_map] in Q1. rewrite Ed, N.eqb_refl in Q1.
        assert (Nxn : ~ In (id_of x) (cnodes elt id_of (fr :: ctx'))) by (intros Hc1; apply Nxc, cnodes_cids, Hc1).
        apply ainv_plug. cbn [RbPtrAnnot.ainv RbPtrAnnot.aval root_id option_map].
        rewrite (Q2 _ Nxn), Ed, N.eqb_refl. split; [auto|exact Q1]. }
      destruct fr as [cf yf rf|cf lf yf].
      + unfold insert_left.
        destruct (reprS_focus_hole _ id_of _ _ _ _ Hs) as (Hc & _). cbn [cinv] in Hc. destruct Hc as ((_ & L & _) & _).
        unfold get_left. rewrite L.
        apply (Common (insert_left_links s (id_of yf) (id_of x))).
        * unfold insert_left_links. cbv zeta. destruct (get_pred _ (id_of yf)); reflexivity.
        * apply (insert_left_links_ok _ _ id_of ctx' cf yf rf x s Ndl Hs).
      + unfold insert_right.
        destruct (reprS_focus_hole _ id_of _ _ _ _ Hs) as (Hc & _). cbn [cinv] in Hc. destruct Hc as ((_ & _ & L & _) & _).
        unfold get_right. rewrite L.
        apply (Common (insert_right_links s (id_of yf) (id_of x))).
        * unfold insert_right_links. cbv zeta. destruct (get_succ _ (id_of yf)); reflexivity.
        * apply (insert_right_links_ok _ _ id_of ctx' cf lf yf x s Ndl Hs).
  Qed.

  (* ---- tree_struct::insert through [attach] *)
  Theorem p_insert_attach x (t : tree) (s : pstate) fuel :
    ek (id_of x) = x -> ek_ok elt id_of ek t -> reprs None s t -> height t < fuel ->
    p_insert less agg aeqb ek fuel s (id_of x) = attach fuel s (descend elt less x t []) (id_of x).
  Proof.
    intros Hx Hek H Hf. unfold p_insert. destruct t as [|c l y a r].
    - destruct H as (A & _). cbn [root_id] in A. rewrite A. reflexivity.
    - pose proof H as (A & _). cbn [root_id] in A. rewrite A.
      pose proof (insert_loop_ok elt annot id_of less agg aeqb ek x fuel (T c l y a r) [] fuel s ltac:(discriminate) H Hx Hek ltac:(lia)) as EL.
      cbn [root_id] in EL. rewrite EL.
      destruct (descend elt less x (T c l y a r) []) as [|[] ?] eqn:Ed; cbn [attach]; try reflexivity.
      exfalso. cbn [descend] in Ed.
      assert (G : forall t0 c0, c0 <> [] -> descend elt less x t0 c0 <> []).
      { induction t0 as [|c0 l0 IHl0 y0 a0 r0 IHr0]; intros c1 Hc; cbn [descend]; [exact Hc|].
        destruct (less x y0); [apply IHl0|apply IHr0]; discriminate. }
      destruct (less x y); revert Ed; apply G; discriminate.
  Qed.

  Theorem p_insert_reprS2 x (t : tree) (s : pstate) fuel :
    NoDup (id_of x :: ids t) -> isRed t = false -> norr elt t ->
    ek (id_of x) = x -> ek_ok elt id_of ek t ->
    reprs None s t -> height t < fuel ->
    exists s', p_insert less agg aeqb ek fuel s (id_of x) = POk s'
               /\ reprs None s' (insert less uagg x t)
               /\ NoDup (ids (insert less uagg x t))
               /\ (agg_ok agg aeqb -> ainv (p_annots s) t -> ainv (p_annots s') (insert less uagg x t)).
  Proof.
    intros Nd Hb Hn Hx Hek H Hf.
    rewrite (p_insert_attach x t s fuel Hx Hek H Hf).
    set (ctx := descend elt less x t []).
    assert (Ept : plug ctx E = t) by (apply plug_descend).
    assert (Ndl : NoDup (ids (plug ctx (T Red E x tt E)))).
    { rewrite ids_plug. cbn [inorder map app]. apply nodup_insert_mid.
      rewrite <- Ept, ids_plug in Nd. cbn [inorder map app] in Nd. exact Nd. }
    destruct (attach_ok fuel ctx x s Ndl) as (s' & A & B & C).
    - apply descend_cok; [exact Hn|exact I|rewrite Hb; discriminate].
    - rewrite Ept. exact H.
    - pose proof (length_descend elt less x t []). cbn [length] in H0. fold ctx in H0. lia.
    - rewrite (insert_zipper elt less). fold ctx. exists s'. split; [exact A|]. split; [exact B|]. split.
      + rewrite inorder_finish_ins, (inorder_ins_up elt). cbn [fst]. exact Ndl.
      + intros Ao Ha. apply C; [exact Ao| |rewrite Ept; exact Ha].
        intros e He. rewrite inorder_plug in He. unfold ek_ok in Hek. rewrite <- Ept in Hek. setoid_rewrite inorder_plug in Hek.
        rewrite !in_app_iff in He. cbn [inorder In app] in He. destruct He as [He|[[<-|[]]|He]]; [|exact Hx|];
          apply Hek; rewrite !in_app_iff; cbn [inorder In app]; tauto.
  Qed.
End Attach.
