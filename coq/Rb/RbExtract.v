From FV Require Import Common.ExtractTypes Rb.RbModel Rb.RbCases Rb.RbPtr.
From Coq Require Import NArith.
From Coq Require Extraction.
From Coq Require Import ExtrOcamlBasic.
Extraction "../build/extract/rb_model.ml" types_witness
  insert remove insert_before first inorder size height layout layout_list root_id
  insert_cases insert_before_cases remove_cases pid pless pagg N.ltb
  p_insert p_remove p_insert_before p_first rotateLeft rotateRight pp_empty paeqb N.lxor.
