(* RbPtrAnnotLoops.v — "the heap represents SOME tree with consistent annotations" ([PA]) is invariant under the colour
   assignment and both rotations, hence under the loops fix_insert and fix_remove (one walk over the code, no shape
   analysis); the represented tree is unique, so the tree is the one the refinement theorems name. *)
From Coq Require Import NArith List Bool Lia PeanoNat.
From FV Require Import Rb.RbModel Rb.RbLayout Rb.RbPtr Rb.RbPtrBase Rb.RbPtrRefineRot Rb.RbPtrRefineIns Rb.RbPtrRefineReplace
  Rb.RbPtrAnnot Rb.RbPtrAnnotRot.
Import ListNotations.

Section Loops.
  Variables elt annot : Type.
  Variable id_of : elt -> N.
  Variable agg : elt -> option annot -> option annot -> annot.
  Variable aeqb : annot -> annot -> bool.
  Variable ek : N -> elt.
  Notation tree := (tree elt unit).
  Notation frame := (frame elt).
  Notation ids t := (map id_of (inorder t)).
  Notation pstate := (pstate annot).
  Notation treeSs := (treeSs elt annot id_of).
  Notation ainv := (ainv elt annot id_of agg).
  Notation tkeys := (tkeys elt id_of ek).

  Hypothesis aeqb_eq : forall a b, aeqb a b = true <-> a = b.
  Hypothesis agg_rot : forall u n (A B C : option annot), agg n (Some (agg u A B)) C = agg u A (Some (agg n B C)).

  Definition PA (sk : option N) (s : pstate) : Prop :=
    exists t : tree, NoDup (ids t) /\ treeSs sk s t /\ tkeys t /\ ainv (p_annots s) t.

  Lemma member_focus (t : tree) i : In i (ids t) ->
    exists ctx c l x a r, t = plug ctx (T c l x a r) /\ id_of x = i.
  Proof.
    intros Hi. destruct (occ_member elt unit id_of t None i Hi) as (c & l & x & a & r & sp & O & Ex).
    destruct (occ_plug elt id_of t None _ sp O) as (ctx & Ec). specialize (Ec []). rewrite app_nil_r in Ec. cbn [plug] in Ec.
    exists ctx, c, l, x, a, r. auto.
  Qed.

  Lemma PA_set_color sk (s : pstate) i c : (sk = None \/ sk = Some i) -> PA sk s -> PA None (set_color s i (Some c)).
  Proof.
    intros Hsk (t & Nd & Ht & Hk & Ha).
    destruct (in_dec N.eq_dec i (ids t)) as [Hi|Hi].
    - destruct (member_focus t i Hi) as (ctx & c0 & l & x & a & r & -> & <-).
      exists (plug ctx (T c l x a r)). split; [rewrite ids_plug in *; exact Nd|]. split.
      + apply (set_color_t _ _ id_of sk ctx c0 l x a r s c Nd Hsk Ht).
      + split; [intros y Hy; apply Hk; rewrite inorder_plug in *; exact Hy|].
        change (p_annots (set_color s (id_of x) (Some c))) with (p_annots s).
        apply ainv_plug in Ha. apply ainv_plug. exact Ha.
    - exists t. split; [exact Nd|]. split; [|split; [exact Hk|exact Ha]].
      destruct Ht as (A & B & D). unfold RbPtrRefineRot.treeSs, treeS. rewrite hooks_set_color. cbn [p_root set_color upd].
      split; [exact A|]. split.
      + apply tinv_hupd; [exact Hi|]. destruct Hsk as [->| ->]; [exact B|]. apply (tinv_unskip _ id_of i); assumption.
      + intros j Hj. unfold hupd. destruct (N.eqb_spec j i) as [->|]; [|apply D, Hj]. apply (D i Hi).
  Qed.

  (* a successful rotateLeft(n) finds n as the right child of its parent *)
  Lemma PA_rotateLeft (s : pstate) n s' : PA None s -> rotateLeft agg aeqb ek s n = POk s' -> PA None s'.
  Proof.
    intros (t & Nd & Ht & Hk & Ha) E.
    destruct (rotateLeft_annots_eq _ _ agg aeqb ek aeqb_eq s n s' E) as (u & Ep & Er & _).
    assert (Hn : In n (ids t)).
    { destruct (in_dec N.eq_dec n (ids t)) as [H|H]; [exact H|]. destruct Ht as (_ & _ & D). destruct (D n H) as (D1 & _).
      unfold get_parent in Ep. congruence. }
    destruct (member_focus t n Hn) as (ctx & cn & v & xn & a2 & y & -> & <-).
    destruct (treeS_focus_r _ _ id_of agg _ _ _ _ _ _ _ _ Ht) as ((X1 & _) & _ & _ & Bc).
    unfold get_parent in Ep. rewrite X1 in Ep.
    destruct ctx as [|fr ctx']; [discriminate|]. cbn [cpar] in Ep. injection Ep as <-.
    destruct fr as [cu xu r|cu xl xu]; cbn [cinv fid] in *; destruct Bc as ((_ & W2 & W3 & _) & _).
    - exfalso. unfold get_right in Er. rewrite W3 in Er. rewrite ids_plug in Nd. cbn [inorder cbefore cafter] in Nd.
      destruct r as [|cr rl xr ar rr]; [discriminate|]. cbn [root_id oeqb] in Er. apply N.eqb_eq in Er.
      assert (Hne : id_of xr <> id_of xn) by ni Nd. contradiction.
    - cbn [plug fill] in *.
      assert (Ku : ek (id_of xu) = xu).
      { apply Hk. rewrite inorder_plug. rewrite !in_app_iff. right. left. cbn [inorder]. rewrite in_app_iff. right. left. reflexivity. }
      assert (Kn : ek (id_of xn) = xn).
      { apply Hk. rewrite inorder_plug. rewrite !in_app_iff. right. left. cbn [inorder]. rewrite !in_app_iff. cbn [In].
        right. right. rewrite in_app_iff. cbn [In]. tauto. }
      destruct (rotateLeft_ainv _ _ id_of agg aeqb ek aeqb_eq agg_rot ctx' cu xl xu tt cn v xn a2 y s s' Nd Ht Ku Kn Ha E) as [Ht' Ha'].
      exists (plug ctx' (T cn (T cu xl xu tt v) xn tt y)). split; [|split; [exact Ht'|split; [|exact Ha']]].
      + rewrite ids_plug in *. cbn [inorder] in *. rewrite <- app_assoc. exact Nd.
      + intros e He. apply Hk. rewrite inorder_plug in *. repeat (progress (rewrite ?in_app_iff in *; cbn [In inorder] in * )). tauto.
  Qed.

  Lemma PA_rotateRight (s : pstate) n s' : PA None s -> rotateRight agg aeqb ek s n = POk s' -> PA None s'.
  Proof.
    intros (t & Nd & Ht & Hk & Ha) E.
    destruct (rotateRight_annots_eq _ _ agg aeqb ek aeqb_eq s n s' E) as (u & Ep & Er & _).
    assert (Hn : In n (ids t)).
    { destruct (in_dec N.eq_dec n (ids t)) as [H|H]; [exact H|]. destruct Ht as (_ & _ & D). destruct (D n H) as (D1 & _).
      unfold get_parent in Ep. congruence. }
    destruct (member_focus t n Hn) as (ctx & cn & y & xn & a2 & v & -> & <-).
    destruct (treeS_focus_r _ _ id_of agg _ _ _ _ _ _ _ _ Ht) as ((X1 & _) & _ & _ & Bc).
    unfold get_parent in Ep. rewrite X1 in Ep.
    destruct ctx as [|fr ctx']; [discriminate|]. cbn [cpar] in Ep. injection Ep as <-.
    destruct fr as [cu xu xl|cu l xu]; cbn [cinv fid] in *; destruct Bc as ((_ & W2 & W3 & _) & _).
    - cbn [plug fill] in *.
      assert (Ku : ek (id_of xu) = xu).
      { apply Hk. rewrite inorder_plug. rewrite !in_app_iff. right. left. cbn [inorder]. rewrite in_app_iff. right. left. reflexivity. }
      assert (Kn : ek (id_of xn) = xn).
      { apply Hk. rewrite inorder_plug. rewrite !in_app_iff. right. left. cbn [inorder]. rewrite !in_app_iff. cbn [In]. tauto. }
      destruct (rotateRight_ainv _ _ id_of agg aeqb ek aeqb_eq agg_rot ctx' cu xl xu tt cn v xn a2 y s s' Nd Ht Ku Kn Ha E) as [Ht' Ha'].
      exists (plug ctx' (T cn y xn tt (T cu v xu tt xl))). split; [|split; [exact Ht'|split; [|exact Ha']]].
      + rewrite ids_plug in *. cbn [inorder] in *. rewrite <- app_assoc in Nd. exact Nd.
      + intros e He. apply Hk. rewrite inorder_plug in *. repeat (progress (rewrite ?in_app_iff in *; cbn [In inorder] in * )). tauto.
    - exfalso. unfold get_left in Er. rewrite W2 in Er. rewrite ids_plug in Nd. cbn [inorder cbefore cafter] in Nd.
      destruct l as [|cl ll xl al lr]; [discriminate|]. cbn [root_id oeqb] in Er. apply N.eqb_eq in Er.
      assert (Hne : id_of xl <> id_of xn) by ni Nd. contradiction.
  Qed.

  Lemma PA_colour_none (s : pstate) i : PA None s -> get_color s i = None -> get_left s i = None /\ get_right s i = None.
  Proof.
    intros (t & Nd & Ht & _) Hc. destruct (in_dec N.eq_dec i (ids t)) as [Hi|Hi].
    - destruct (member_focus t i Hi) as (ctx & c0 & l & x & a & r & -> & <-).
      destruct (treeS_focus_r _ _ id_of agg _ _ _ _ _ _ _ _ Ht) as ((_ & _ & _ & X4) & _).
      unfold get_color in Hc. rewrite (X4 ltac:(discriminate)) in Hc. discriminate.
    - destruct Ht as (_ & _ & D). destruct (D i Hi) as (_ & D2 & D3). auto.
  Qed.

  Lemma PA_skip sk s : PA None s -> PA sk s.
  Proof. intros (t & A & B & C). exists t. split; [exact A|]. split; [apply treeS_skip, B|exact C]. Qed.

  Ltac pa :=
    repeat first
      [ assumption
      | discriminate
      | match goal with
        | H : POk _ = POk _ |- _ => injection H as <-
        | |- PA None (set_color _ _ (Some _)) => apply (PA_set_color None); [left; reflexivity|]
        | H : pbind ?m _ = POk _ |- _ => let s1 := fresh "s" in let E := fresh "E" in destruct m as [s1| | |] eqn:E; cbn [pbind] in H
        | H : (if ?b then _ else _) = POk _ |- _ => destruct b
        | H : match ?o with Some _ => _ | None => _ end = POk _ |- _ => destruct o
        | H : rotateLeft _ _ _ ?s ?n = POk ?s1 |- PA None ?s1 => apply (PA_rotateLeft s n s1); [|exact H]
        | H : rotateRight _ _ _ ?s ?n = POk ?s1 |- PA None ?s1 => apply (PA_rotateRight s n s1); [|exact H]
        end ].

  Theorem fix_insert_PA fuel : forall (s : pstate) n s',
    fix_insert agg aeqb ek fuel s n = POk s' -> PA (Some n) s -> PA None s'.
  Proof.
    induction fuel as [|k IH]; intros s n s' H P; [discriminate|]. cbn [fix_insert] in H.
    destruct (get_parent s n) as [parent|].
    2:{ injection H as <-. apply (PA_set_color (Some n)); [right; reflexivity|exact P]. }
    assert (P1 : PA None (set_color s n (Some Red))) by (apply (PA_set_color (Some n)); [right; reflexivity|exact P]).
    set (s1 := set_color s n (Some Red)) in *. clearbody s1. clear P.
    destruct (ceqb (get_color s1 parent) (Some Black)); [injection H as <-; exact P1|].
    destruct (get_parent s1 parent) as [grand|]; [|discriminate].
    destruct (negb (ceqb (get_color s1 grand) (Some Black))); [discriminate|].
    destruct (oeqb (get_left s1 grand) (Some parent) && p_isRed s1 (get_right s1 grand)).
    { destruct (get_right (set_color (set_color s1 grand (Some Red)) parent (Some Black)) grand) as [uncle|]; [|discriminate].
      eapply IH; [exact H|]. apply (PA_skip (Some grand)). pa. }
    destruct (oeqb (get_right s1 grand) (Some parent) && p_isRed s1 (get_left s1 grand)).
    { destruct (get_left (set_color (set_color s1 grand (Some Red)) parent (Some Black)) grand) as [uncle|]; [|discriminate].
      eapply IH; [exact H|]. apply (PA_skip (Some grand)). pa. }
    destruct (oeqb (Some parent) (get_left s1 grand)).
    - destruct (oeqb (Some n) (get_right s1 parent)); pa.
    - destruct (negb (oeqb (Some parent) (get_right s1 grand))); [discriminate|].
      destruct (oeqb (Some n) (get_left s1 parent)); pa.
  Qed.

  Lemma fix_remove_sibling_PA (s : pstate) n parent s1 sb :
    fix_remove_sibling agg aeqb ek s n parent = POk (s1, sb) -> PA None s -> PA None s1.
  Proof.
    unfold fix_remove_sibling. intros H P.
    destruct (oeqb (get_left s parent) (Some n)).
    - destruct (get_right s parent) as [x|]; [|discriminate].
      destruct (ceqb (get_color s x) (Some Red)).
      + destruct (rotateLeft agg aeqb ek s x) as [s2| | |] eqn:E2; cbn [pbind] in H; try discriminate.
        destruct (negb (oeqb (Some n) (get_left s2 parent))); cbn [pbind] in H; [discriminate|].
        destruct (get_right _ parent); [|discriminate]. injection H as <- _. pa.
      + cbn [pbind] in H. destruct (get_right s parent); [|discriminate]. injection H as <- _. exact P.
    - destruct (negb (oeqb (get_right s parent) (Some n))); [discriminate|].
      destruct (get_left s parent) as [x|]; [|discriminate].
      destruct (ceqb (get_color s x) (Some Red)).
      + destruct (rotateRight agg aeqb ek s x) as [s2| | |] eqn:E2; cbn [pbind] in H; try discriminate.
        destruct (negb (oeqb (Some n) (get_right s2 parent))); cbn [pbind] in H; [discriminate|].
        destruct (get_left _ parent); [|discriminate]. injection H as <- _. pa.
      + cbn [pbind] in H. destruct (get_left s parent); [|discriminate]. injection H as <- _. exact P.
  Qed.

  Lemma fix_remove_rest_PA again (s : pstate) n parent sb s' :
    (forall s2 m s3, again s2 m = POk s3 -> PA None s2 -> PA None s3) ->
    fix_remove_rest agg aeqb ek again s n parent sb = POk s' -> PA None s -> PA None s'.
  Proof.
    unfold fix_remove_rest. intros Hag H P.
    destruct (p_isBlack s (get_left s sb) && p_isBlack s (get_right s sb)).
    - destruct (ceqb (get_color s parent) (Some Black)); [apply Hag in H; [exact H|pa]|pa].
    - destruct (get_color s parent) as [pc|] eqn:Epc.
      2:{ (* a node without a colour is not in the tree: its links are null and the code stops in FRG_ASSERT *)
        destruct (PA_colour_none s parent P Epc) as [L R]. rewrite L, R in H. cbn [oeqb negb] in H. discriminate. }
      destruct (oeqb (get_left s parent) (Some n)).
      + destruct (p_isRed s (get_left s sb) && p_isBlack s (get_right s sb)).
        * destruct (get_left s sb) as [child|]; [|discriminate].
          destruct (rotateRight agg aeqb ek s child) as [s2| | |] eqn:E2; cbn [pbind] in H; try discriminate.
          destruct (negb (p_isRed _ (get_right _ child))); [discriminate|].
          destruct (rotateLeft agg aeqb ek _ child) as [s3| | |] eqn:E3; cbn [pbind] in H; try discriminate.
          destruct (get_right _ child); [|discriminate]. pa.
        * cbn [pbind] in H. destruct (negb (p_isRed s (get_right s sb))); [discriminate|].
          destruct (rotateLeft agg aeqb ek s sb) as [s3| | |] eqn:E3; cbn [pbind] in H; try discriminate.
          destruct (get_right _ sb); [|discriminate]. pa.
      + destruct (negb (oeqb (get_right s parent) (Some n))); [discriminate|].
        destruct (p_isRed s (get_right s sb) && p_isBlack s (get_left s sb)).
        * destruct (get_right s sb) as [child|]; [|discriminate].
          destruct (rotateLeft agg aeqb ek s child) as [s2| | |] eqn:E2; cbn [pbind] in H; try discriminate.
          destruct (negb (p_isRed _ (get_left _ child))); [discriminate|].
          destruct (rotateRight agg aeqb ek _ child) as [s3| | |] eqn:E3; cbn [pbind] in H; try discriminate.
          destruct (get_left _ child); [|discriminate]. pa.
        * cbn [pbind] in H. destruct (negb (p_isRed s (get_left s sb))); [discriminate|].
          destruct (rotateRight agg aeqb ek s sb) as [s3| | |] eqn:E3; cbn [pbind] in H; try discriminate.
          destruct (get_left _ sb); [|discriminate]. pa.
  Qed.

  Theorem fix_remove_PA fuel : forall (s : pstate) n s',
    fix_remove agg aeqb ek fuel s n = POk s' -> PA None s -> PA None s'.
  Proof.
    induction fuel as [|k IH]; intros s n s' H P; [discriminate|]. cbn [fix_remove] in H.
    destruct (negb (ceqb (get_color s n) (Some Black))); [discriminate|].
    destruct (get_parent s n) as [parent|]; [|injection H as <-; exact P].
    destruct (fix_remove_sibling agg aeqb ek s n parent) as [[s1 sb]| | |] eqn:E1; cbn [pbind] in H; try discriminate.
    apply fix_remove_sibling_PA in E1; [|exact P].
    eapply fix_remove_rest_PA; [|exact H|exact E1]. intros s2 m s3. apply IH.
  Qed.

  (* ---- the tree a heap represents is unique (given the key memory) *)
  Lemma tinv_unique (f : N -> hook) : forall (t1 t2 : tree) par,
    tinv id_of None f t1 par -> tinv id_of None f t2 par -> root_id id_of t1 = root_id id_of t2 ->
    tkeys t1 -> tkeys t2 -> t1 = t2.
  Proof.
    induction t1 as [|c1 l1 IHl x1 a1 r1 IHr]; intros t2 par H1 H2 Er K1 K2.
    - destruct t2; [reflexivity|discriminate].
    - destruct t2 as [|c2 l2 x2 a2 r2]; [discriminate|]. cbn [root_id] in Er. injection Er as Er.
      assert (Ex : x1 = x2).
      { rewrite <- (K1 x1), <- (K2 x2), Er; [reflexivity| |]; cbn [inorder]; rewrite in_app_iff; cbn [In]; tauto. }
      subst x2. cbn [tinv] in H1, H2. destruct H1 as ((_ & L1 & R1 & C1) & Tl1 & Tr1). destruct H2 as ((_ & L2 & R2 & C2) & Tl2 & Tr2).
      assert (Ec : c1 = c2) by (specialize (C1 ltac:(discriminate)); specialize (C2 ltac:(discriminate)); congruence).
      rewrite (IHl l2 _ Tl1 Tl2), (IHr r2 _ Tr1 Tr2), Ec; [destruct a1, a2; reflexivity| | | | | |]; try congruence;
        intros y Hy; first [solve [apply K1; cbn [inorder]; rewrite in_app_iff; cbn [In]; tauto]
                           |solve [apply K2; cbn [inorder]; rewrite in_app_iff; cbn [In]; tauto]].
  Qed.
  Lemma treeS_unique sk (s : pstate) (t1 t2 : tree) :
    treeSs None s t1 -> treeSs sk s t2 -> sk = None -> tkeys t1 -> tkeys t2 -> t1 = t2.
  Proof.
    intros (A1 & B1 & _) (A2 & B2 & _) -> K1 K2. apply (tinv_unique (p_hooks s) t1 t2 None); auto. congruence.
  Qed.
End Loops.
