(* RbPtrRemF.v — the functional removal of RbModel seen through the zipper (no heap here).
   fix_remove only rearranges the CONTEXT of the node it is called on: [rem_ctx ctx] is the context after the
   functional balL / balR chain, for an arbitrary (opaque) short subtree in the hole ([del_up_short]);
   [del] at the focus of a context = [del_up ctx (del_root ...)] ([del_plug]);
   the predecessor of a node with two children is at the bottom of the right spine of its left subtree ([rspine],
   [remove_max_zipper]), so that [del_root] = removal of that half leaf in the context where the predecessor's element
   has taken the node's place ([del_root_two]). *)
From Coq Require Import NArith List Bool Lia PeanoNat.
From FV Require Import Rb.RbModel Rb.RbInorder Rb.RbLayout Rb.RbPtrBase.
Import ListNotations.

Section RemF.
  Variable elt : Type.
  Variable id_of : elt -> N.
  Notation tree := (tree elt unit).
  Notation frame := (frame elt).
  Notation uagg := (uagg elt).
  Notation ids t := (map id_of (inorder t)).

  Lemma cbefore_app (c1 c2 : list frame) : cbefore id_of (c1 ++ c2) = cbefore id_of c2 ++ cbefore id_of c1.
  Proof.
    induction c1 as [|fr c1 IH]; cbn [app cbefore]; [rewrite app_nil_r; reflexivity|].
    destruct fr; [exact IH|]. rewrite IH. rewrite <- ?app_assoc. reflexivity.
  Qed.
  Lemma cafter_app (c1 c2 : list frame) : cafter id_of (c1 ++ c2) = cafter id_of c1 ++ cafter id_of c2.
  Proof.
    induction c1 as [|fr c1 IH]; cbn [app cafter]; [reflexivity|].
    destruct fr; [|exact IH]. rewrite IH. cbn [app]. rewrite app_assoc. reflexivity.
  Qed.

  Lemma plug_app (c1 c2 : list frame) (t : tree) : plug (c1 ++ c2) t = plug c2 (plug c1 t).
  Proof. revert t. induction c1 as [|fr c1 IH]; intros t; cbn [app plug]; [reflexivity|apply IH]. Qed.

  (* ---- one level of fix_remove as a context transformer; the boolean is "still short, continue above" *)
  Definition bsL_ctx (c : color) (x : elt) (rl : tree) (y : elt) (rr : tree) : list frame * bool :=
    if isBlack rl && isBlack rr then ([FL Black x (T Red rl y tt rr)], match c with Black => true | Red => false end)
    else if isRed rl && isBlack rr then
      match rl with
      | T _ a z _ b => ([FL Black x a; FL c z (T Black b y tt rr)], false)
      | E => ([FL c x (T Black rl y tt rr)], false)
      end
    else ([FL Black x rl; FL c y (paintB rr)], false).
  Definition balL_ctx (c : color) (x : elt) (r : tree) : list frame * bool :=
    match r with
    | T Red rl y _ rr =>
        match rl with
        | T _ a z _ b => (fst (bsL_ctx Red x a z b) ++ [FL Black y rr], false)
        | E => ([FL c x r], false)
        end
    | T Black rl y _ rr => bsL_ctx c x rl y rr
    | E => ([FL c x r], false)
    end.
  Definition bsR_ctx (c : color) (ll : tree) (y : elt) (lr : tree) (x : elt) : list frame * bool :=
    if isBlack ll && isBlack lr then ([FR Black (T Red ll y tt lr) x], match c with Black => true | Red => false end)
    else if isRed lr && isBlack ll then
      match lr with
      | T _ a z _ b => ([FR Black b x; FR c (T Black ll y tt a) z], false)
      | E => ([FR c (T Black ll y tt lr) x], false)
      end
    else ([FR Black lr x; FR c (paintB ll) y], false).
  Definition balR_ctx (c : color) (l : tree) (x : elt) : list frame * bool :=
    match l with
    | T Red ll y _ lr =>
        match lr with
        | T _ a z _ b => (fst (bsR_ctx Red a z b x) ++ [FR Black ll y], false)
        | E => ([FR c l x], false)
        end
    | T Black ll y _ lr => bsR_ctx c ll y lr x
    | E => ([FR c l x], false)
    end.

  Lemma bsL_plug c l x rl y rr : bsL uagg c l x rl y rr = (plug (fst (bsL_ctx c x rl y rr)) l, snd (bsL_ctx c x rl y rr)).
  Proof.
    unfold bsL, bsL_ctx. destruct (isBlack rl && isBlack rr); [reflexivity|].
    destruct (isRed rl && isBlack rr); [destruct rl as [|? ? ? [] ?]; reflexivity|reflexivity].
  Qed.
  Lemma balL_plug c l x r : balL uagg c l x r = (plug (fst (balL_ctx c x r)) l, snd (balL_ctx c x r)).
  Proof.
    unfold balL, balL_ctx. destruct r as [|[] rl y [] rr]; [reflexivity| |apply bsL_plug].
    destruct rl as [|? a z [] b]; [reflexivity|]. rewrite bsL_plug. cbn [fst snd]. rewrite plug_app. reflexivity.
  Qed.
  Lemma bsR_plug c ll y lr x r : bsR uagg c ll y lr x r = (plug (fst (bsR_ctx c ll y lr x)) r, snd (bsR_ctx c ll y lr x)).
  Proof.
    unfold bsR, bsR_ctx. destruct (isBlack ll && isBlack lr); [reflexivity|].
    destruct (isRed lr && isBlack ll); [destruct lr as [|? ? ? [] ?]; reflexivity|reflexivity].
  Qed.
  Lemma balR_plug c l x r : balR uagg c l x r = (plug (fst (balR_ctx c l x)) r, snd (balR_ctx c l x)).
  Proof.
    unfold balR, balR_ctx. destruct l as [|[] ll y [] lr]; [reflexivity| |apply bsR_plug].
    destruct lr as [|? a z [] b]; [reflexivity|]. rewrite bsR_plug. cbn [fst snd]. rewrite plug_app. reflexivity.
  Qed.

  Definition lvl_ctx (fr : frame) : list frame * bool :=
    match fr with FL c x r => balL_ctx c x r | FR c l x => balR_ctx c l x end.
  Fixpoint rem_ctx (ctx : list frame) : list frame :=
    match ctx with
    | [] => []
    | fr :: ctx' => fst (lvl_ctx fr) ++ (if snd (lvl_ctx fr) then rem_ctx ctx' else ctx')
    end.

  (* the functional removal propagating upwards *)
  Definition up_del (fr : frame) (p : tree * bool) : tree * bool :=
    match fr with
    | FL c y r => if snd p then balL uagg c (fst p) y r else (mk uagg c (fst p) y r, false)
    | FR c l y => if snd p then balR uagg c l y (fst p) else (mk uagg c l y (fst p), false)
    end.
  Fixpoint del_up (ctx : list frame) (p : tree * bool) : tree * bool :=
    match ctx with [] => p | fr :: ctx' => del_up ctx' (up_del fr p) end.

  Lemma del_up_false ctx t : del_up ctx (t, false) = (plug ctx t, false).
  Proof.
    revert t. induction ctx as [|fr ctx IH]; intros t; cbn [del_up plug]; [reflexivity|].
    destruct fr; cbn [up_del fst snd fill]; rewrite IH; reflexivity.
  Qed.
  Lemma del_up_short ctx t : fst (del_up ctx (t, true)) = plug (rem_ctx ctx) t.
  Proof.
    revert t. induction ctx as [|fr ctx IH]; intros t; cbn [del_up rem_ctx plug]; [reflexivity|].
    rewrite plug_app.
    destruct fr as [c x r|c l x]; cbn [up_del fst snd lvl_ctx].
    - rewrite balL_plug. destruct (snd (balL_ctx c x r)); [apply IH|rewrite del_up_false; reflexivity].
    - rewrite balR_plug. destruct (snd (balR_ctx c l x)); [apply IH|rewrite del_up_false; reflexivity].
  Qed.
  Lemma del_up_app c1 c2 p : del_up (c1 ++ c2) p = del_up c2 (del_up c1 p).
  Proof. revert p. induction c1 as [|fr c1 IH]; intros p; cbn [app del_up]; [reflexivity|apply IH]. Qed.

  (* whatever the flag: the result is a plug of the same subtree in SOME context that does not depend on it *)
  Definition rem_ctx_b (ctx : list frame) (short : bool) : list frame := if short then rem_ctx ctx else ctx.
  Lemma del_up_ctx ctx t sh : fst (del_up ctx (t, sh)) = plug (rem_ctx_b ctx sh) t.
  Proof. destruct sh; cbn [rem_ctx_b]; [apply del_up_short|rewrite del_up_false; reflexivity]. Qed.

  Lemma del_up_ctx' ctx (p : tree * bool) : fst (del_up ctx p) = plug (rem_ctx_b ctx (snd p)) (fst p).
  Proof. destruct p as [t sh]. apply del_up_ctx. Qed.

  (* ---- del at the focus *)
  Lemma del_notin i (t : tree) : ~ In i (ids t) -> del id_of uagg i t = None.
  Proof.
    intros H. pose proof (del_spec elt unit id_of uagg i t) as S. destruct (del id_of uagg i t) as [[t' sh]|]; [|reflexivity].
    destruct S as (l1 & y & l2 & E1 & E2 & _). exfalso. apply H. unfold RbInorder.ids in *. rewrite E1, map_app, in_app_iff.
    right. left. exact E2.
  Qed.

  Lemma del_plug i ctx (sub : tree) p :
    del id_of uagg i sub = Some p -> ~ In i (cids id_of ctx) -> del id_of uagg i (plug ctx sub) = Some (del_up ctx p).
  Proof.
    revert sub p. induction ctx as [|fr ctx IH]; intros sub p Hd Hn; cbn [plug del_up]; [exact Hd|].
    unfold cids in *. apply IH.
    - destruct fr as [c y r|c l y]; cbn [fill del up_del cbefore cafter] in *; rewrite !in_app_iff in Hn; cbn [In] in Hn.
      + destruct (N.eqb_spec (id_of y) i) as [E0|_]; [exfalso; apply Hn; tauto|].
        rewrite Hd. destruct p as [l' sh]. cbn [fst snd]. destruct sh; reflexivity.
      + destruct (N.eqb_spec (id_of y) i) as [E0|_]; [exfalso; apply Hn; tauto|].
        rewrite (del_notin i l) by (intros H; apply Hn; tauto).
        rewrite Hd. destruct p as [r' sh]. cbn [fst snd]. destruct sh; reflexivity.
    - destruct fr as [c y r|c l y]; cbn [cbefore cafter] in Hn; rewrite !in_app_iff in *; cbn [In] in *; tauto.
  Qed.

  (* ---- the right spine: context of the maximum *)
  Fixpoint rspine (t : tree) (acc : list frame) : list frame :=
    match t with
    | E => acc
    | T c l x _ r => match r with E => acc | T _ _ _ _ _ => rspine r (FR c l x :: acc) end
    end.
  (* the maximum node itself: colour, left subtree, element *)
  Fixpoint rlast (t : tree) : option (color * tree * elt) :=
    match t with
    | E => None
    | T c l x _ r => match r with E => Some (c, l, x) | T _ _ _ _ _ => rlast r end
    end.

  Lemma rspine_plug (t : tree) acc : match rlast t with
                                     | Some (cm, lm, m) => plug (rspine t acc) (T cm lm m tt E) = plug acc t
                                     | None => t = E
                                     end.
  Proof.
    revert acc. induction t as [|c l _ x a r IHr]; intros acc; cbn [rlast rspine]; [reflexivity|].
    destruct a. destruct r as [|cr rl xr ar rr]; [reflexivity|]. specialize (IHr (FR c l x :: acc)).
    cbn [rlast] in *. destruct (match rr with E => Some (cr, rl, xr) | T _ _ _ _ _ => rlast rr end) as [[[cm lm] m]|]; [|discriminate].
    exact IHr.
  Qed.

  Lemma remove_max_zipper (t : tree) acc :
    match rlast t with
    | Some (cm, lm, m) =>
        exists t' sh, remove_max uagg t = Some (t', m, sh) /\ del_up acc (t', sh) = del_up (rspine t acc) (half cm lm)
    | None => t = E
    end.
  Proof.
    revert acc. induction t as [|c l _ x a r IHr]; intros acc; cbn [rlast rspine remove_max]; [reflexivity|].
    destruct r as [|cr rl xr ar rr].
    - cbn [remove_max]. destruct (half c l) as [t' sh] eqn:Eh. exists t', sh. auto.
    - specialize (IHr (FR c l x :: acc)). cbn [rlast] in *.
      destruct (match rr with E => Some (cr, rl, xr) | T _ _ _ _ _ => rlast rr end) as [[[cm lm] m]|]; [|discriminate].
      destruct IHr as (r' & sh & E1 & E2). rewrite E1.
      destruct (if sh then balR uagg c l x r' else (mk uagg c l x r', false)) as [t' sh'] eqn:Eb.
      exists t', sh'. split; [reflexivity|]. rewrite <- E2. cbn [del_up up_del fst snd]. rewrite Eb. reflexivity.
  Qed.

  (* del_root of a node with two children: the predecessor's element m takes the place of x, and the half leaf m is
     removed at the bottom of the right spine of l *)
  Lemma del_root_two c (l : tree) x (r : tree) ctx :
    l <> E -> r <> E ->
    match rlast l with
    | Some (cm, lm, m) =>
        del_up ctx (del_root uagg c l x r) = del_up (rspine l [] ++ FL c m r :: ctx) (half cm lm)
    | None => False
    end.
  Proof.
    intros Hl Hr. pose proof (remove_max_zipper l []) as Z.
    destruct (rlast l) as [[[cm lm] m]|]; [|contradiction].
    destruct Z as (l' & sh & E1 & E2). cbn [del_up] in E2.
    unfold del_root. destruct l as [|cl ll xl al lr]; [contradiction|]. destruct r as [|cr rl xr ar rr]; [contradiction|].
    rewrite E1. rewrite del_up_app, <- E2. cbn [del_up up_del fst snd]. destruct sh; reflexivity.
  Qed.

  (* ---- the in-order walk is not changed, the context grows by at most two frames *)
  Lemma inorder_del_up ctx (p : tree * bool) : inorder (fst (del_up ctx p)) = inorder (plug ctx (fst p)).
  Proof.
    revert p. induction ctx as [|fr ctx IH]; intros p; cbn [del_up plug]; [reflexivity|].
    rewrite IH. rewrite !(inorder_plug _ ctx). f_equal. f_equal.
    destruct fr as [c y r|c l y]; cbn [up_del fill]; destruct (snd p); cbn [fst];
      rewrite ?inorder_balL, ?inorder_balR; reflexivity.
  Qed.
  Lemma inorder_rem_ctx_b ctx sh (t : tree) : inorder (plug (rem_ctx_b ctx sh) t) = inorder (plug ctx t).
  Proof. rewrite <- del_up_ctx. apply inorder_del_up. Qed.

  Lemma length_bsL_ctx c (x : elt) rl y rr :
    length (fst (bsL_ctx c x rl y rr)) <= 2 /\ (snd (bsL_ctx c x rl y rr) = true -> length (fst (bsL_ctx c x rl y rr)) = 1).
  Proof.
    unfold bsL_ctx. destruct (isBlack rl && isBlack rr); [cbn; split; [lia|reflexivity]|].
    destruct (isRed rl && isBlack rr); [destruct rl|]; cbn; split; try lia; discriminate.
  Qed.
  Lemma length_bsR_ctx c ll y lr (x : elt) :
    length (fst (bsR_ctx c ll y lr x)) <= 2 /\ (snd (bsR_ctx c ll y lr x) = true -> length (fst (bsR_ctx c ll y lr x)) = 1).
  Proof.
    unfold bsR_ctx. destruct (isBlack ll && isBlack lr); [cbn; split; [lia|reflexivity]|].
    destruct (isRed lr && isBlack ll); [destruct lr|]; cbn; split; try lia; discriminate.
  Qed.
  Lemma length_lvl_ctx fr : length (fst (lvl_ctx fr)) <= 3 /\ (snd (lvl_ctx fr) = true -> length (fst (lvl_ctx fr)) = 1).
  Proof.
    destruct fr as [c x r|c l x]; cbn [lvl_ctx].
    - unfold balL_ctx. destruct r as [|[] rl y [] rr]; [cbn; split; [lia|discriminate]| |destruct (length_bsL_ctx c x rl y rr) as [A B]; split; [lia|exact B]].
      destruct rl as [|? a z [] b]; [cbn; split; [lia|discriminate]|]. cbn [fst snd]. rewrite app_length. cbn [length].
      pose proof (length_bsL_ctx Red x a z b). split; [lia|discriminate].
    - unfold balR_ctx. destruct l as [|[] ll y [] lr]; [cbn; split; [lia|discriminate]| |destruct (length_bsR_ctx c ll y lr x) as [A B]; split; [lia|exact B]].
      destruct lr as [|? a z [] b]; [cbn; split; [lia|discriminate]|]. cbn [fst snd]. rewrite app_length. cbn [length].
      pose proof (length_bsR_ctx Red a z b x). split; [lia|discriminate].
  Qed.
  Lemma length_rem_ctx ctx : length (rem_ctx ctx) <= length ctx + 2.
  Proof.
    induction ctx as [|fr ctx IH]; cbn [rem_ctx length]; [lia|]. rewrite app_length.
    destruct (length_lvl_ctx fr) as [A B]. destruct (snd (lvl_ctx fr)); [rewrite (B eq_refl)|]; lia.
  Qed.
  Lemma length_rem_ctx_b ctx sh : length (rem_ctx_b ctx sh) <= length ctx + 2.
  Proof. destruct sh; cbn [rem_ctx_b]; [apply length_rem_ctx|lia]. Qed.

  (* ---- renaming elements: fix_remove never looks at them *)
  Variable f : elt -> elt.
  Fixpoint tmap (t : tree) : tree := match t with E => E | T c l x a r => T c (tmap l) (f x) a (tmap r) end.
  Definition fmap (fr : frame) : frame :=
    match fr with FL c x r => FL c (f x) (tmap r) | FR c l x => FR c (tmap l) (f x) end.
  Lemma isRed_tmap t : isRed (tmap t) = isRed t.
  Proof. destruct t as [|[] ? ? ? ?]; reflexivity. Qed.
  Lemma isBlack_tmap t : isBlack (tmap t) = isBlack t.
  Proof. unfold isBlack. rewrite isRed_tmap. reflexivity. Qed.
  Lemma tmap_paintB t : tmap (paintB t) = paintB (tmap t).
  Proof. destruct t; reflexivity. Qed.
  Lemma plug_map ctx t : plug (map fmap ctx) (tmap t) = tmap (plug ctx t).
  Proof.
    revert t. induction ctx as [|fr ctx IH]; intros t; cbn [map plug]; [reflexivity|].
    rewrite <- IH. destruct fr; reflexivity.
  Qed.
  Lemma bsL_ctx_map c x rl y rr :
    bsL_ctx c (f x) (tmap rl) (f y) (tmap rr) = (map fmap (fst (bsL_ctx c x rl y rr)), snd (bsL_ctx c x rl y rr)).
  Proof.
    unfold bsL_ctx. rewrite !isBlack_tmap, isRed_tmap. destruct (isBlack rl && isBlack rr); [reflexivity|].
    destruct (isRed rl && isBlack rr); [destruct rl as [|? ? ? [] ?]; reflexivity|]. cbn [fst snd map fmap]. rewrite tmap_paintB. reflexivity.
  Qed.
  Lemma bsR_ctx_map c ll y lr x :
    bsR_ctx c (tmap ll) (f y) (tmap lr) (f x) = (map fmap (fst (bsR_ctx c ll y lr x)), snd (bsR_ctx c ll y lr x)).
  Proof.
    unfold bsR_ctx. rewrite !isBlack_tmap, isRed_tmap. destruct (isBlack ll && isBlack lr); [reflexivity|].
    destruct (isRed lr && isBlack ll); [destruct lr as [|? ? ? [] ?]; reflexivity|]. cbn [fst snd map fmap]. rewrite tmap_paintB. reflexivity.
  Qed.
  Lemma lvl_ctx_map fr : lvl_ctx (fmap fr) = (map fmap (fst (lvl_ctx fr)), snd (lvl_ctx fr)).
  Proof.
    destruct fr as [c x r|c l x]; cbn [fmap lvl_ctx].
    - unfold balL_ctx. destruct r as [|[] rl y [] rr]; cbn [tmap]; [reflexivity| |apply bsL_ctx_map].
      destruct rl as [|? a z [] b]; cbn [tmap]; [reflexivity|]. rewrite bsL_ctx_map. cbn [fst snd]. rewrite map_app. reflexivity.
    - unfold balR_ctx. destruct l as [|[] ll y [] lr]; cbn [tmap]; [reflexivity| |apply bsR_ctx_map].
      destruct lr as [|? a z [] b]; cbn [tmap]; [reflexivity|]. rewrite bsR_ctx_map. cbn [fst snd]. rewrite map_app. reflexivity.
  Qed.
  Lemma rem_ctx_map ctx : rem_ctx (map fmap ctx) = map fmap (rem_ctx ctx).
  Proof.
    induction ctx as [|fr ctx IH]; cbn [map rem_ctx]; [reflexivity|].
    rewrite lvl_ctx_map. cbn [fst snd]. rewrite map_app. destruct (snd (lvl_ctx fr)); [rewrite IH|]; reflexivity.
  Qed.
  Lemma rem_ctx_b_map ctx sh : rem_ctx_b (map fmap ctx) sh = map fmap (rem_ctx_b ctx sh).
  Proof. destruct sh; cbn [rem_ctx_b]; [apply rem_ctx_map|reflexivity]. Qed.
  Lemma tmap_id_on (t : tree) : (forall e, In e (inorder t) -> f e = e) -> tmap t = t.
  Proof.
    induction t as [|c l IHl x a r IHr]; intros H; cbn [tmap]; [reflexivity|].
    rewrite IHl, IHr, (H x); [reflexivity| | |]; try (intros e He; apply H); cbn [inorder]; rewrite in_app_iff; cbn [In]; tauto.
  Qed.
  Lemma fmap_id_on ctx : (forall e, In (id_of e) (cids id_of ctx) -> f e = e) -> map fmap ctx = ctx.
  Proof.
    unfold cids. induction ctx as [|fr ctx IH]; intros H; cbn [map]; [reflexivity|].
    rewrite IH.
    - f_equal. destruct fr as [c x r|c l x]; cbn [fmap cbefore cafter] in *.
      + rewrite (H x) by (rewrite !in_app_iff; cbn [In]; tauto). rewrite tmap_id_on; [reflexivity|].
        intros e He. apply H. rewrite !in_app_iff. cbn [In]. right. left. right. apply in_map, He.
      + rewrite (H x) by (rewrite !in_app_iff; cbn [In]; tauto). rewrite tmap_id_on; [reflexivity|].
        intros e He. apply H. rewrite !in_app_iff. left. right. left. apply in_map, He.
    - intros e He. apply H. destruct fr as [c x r|c l x]; cbn [cbefore cafter]; rewrite !in_app_iff in *; cbn [In]; tauto.
  Qed.
  Lemma height_tmap t : height (tmap t) = height t.
  Proof. induction t as [|c l IHl x a r IHr]; cbn [tmap height]; [reflexivity|]. rewrite IHl, IHr. reflexivity. Qed.
End RemF.

Arguments rem_ctx {elt} ctx.
Arguments rem_ctx_b {elt} ctx short.
Arguments bsL_ctx {elt} c x rl y rr.
Arguments balL_ctx {elt} c x r.
Arguments bsR_ctx {elt} c ll y lr x.
Arguments balR_ctx {elt} c l x.
Arguments lvl_ctx {elt} fr.
Arguments up_del {elt} fr p.
Arguments del_up {elt} ctx p.
Arguments rspine {elt} t acc.
Arguments rlast {elt} t.
Arguments tmap {elt} f t.
Arguments fmap {elt} f fr.
