(* RbPtrRefineIns.v — refinement (b): the link assignments of insert_root / insert_left / insert_right (including
   the predecessor / successor splice) attach the new leaf; aggregate_node / aggregate_path do not touch hooks and
   do not run out of fuel. *)
From Coq Require Import NArith List Bool Lia PeanoNat.
From FV Require Import Rb.RbModel Rb.RbLayout Rb.RbPtr Rb.RbPtrBase Rb.RbPtrRefineRot.
Import ListNotations.

Section Ins.
  Variables elt annot : Type.
  Variable id_of : elt -> N.
  Variable agg : elt -> option annot -> option annot -> annot.
  Variable aeqb : annot -> annot -> bool.
  Variable ek : N -> elt.
  Notation tree := (tree elt unit).
  Notation ids t := (map id_of (inorder t)).
  Notation pstate := (pstate annot).
  Notation reprs := (reprs elt annot id_of).

  Lemma aggregate_hooks (s : pstate) n :
    p_hooks (fst (aggregate agg aeqb ek s n)) = p_hooks s /\ p_root (fst (aggregate agg aeqb ek s n)) = p_root s.
  Proof. unfold aggregate. destruct (aeqb _ _); cbn; auto. Qed.

  (* aggregate_path climbs the parent pointers of the context: at most one step per frame *)
  Lemma aggregate_path_ok sk ctx rid fuel (s : pstate) :
    cinv id_of sk (p_hooks s) ctx rid -> length ctx <= fuel ->
    exists s', aggregate_path agg aeqb ek fuel s (cpar id_of ctx) = POk s'
               /\ p_hooks s' = p_hooks s /\ p_root s' = p_root s.
  Proof.
    revert rid fuel s. induction ctx as [|fr ctx IH]; intros rid fuel s Hc Hf; cbn [cpar aggregate_path].
    - exists s. split; [destruct fuel; reflexivity|]. auto.
    - destruct fuel as [|k]; [cbn [length] in Hf; lia|]. cbn [aggregate_path].
      destruct (aggregate_hooks s (fid id_of fr)) as [E1 E2].
      destruct (aggregate agg aeqb ek s (fid id_of fr)) as [s1 ch]. cbn [fst] in E1, E2.
      destruct ch; [|eexists; split; [reflexivity|]; auto].
      assert (Hp : get_parent s1 (fid id_of fr) = cpar id_of ctx).
      { unfold get_parent. rewrite E1. destruct fr as [c x r|c l x]; cbn [cinv fid] in *; unfold node_ok in *; tauto. }
      rewrite Hp.
      assert (Hc' : cinv id_of sk (p_hooks s1) ctx (Some (fid id_of fr))).
      { rewrite E1. destruct fr as [c x r|c l x]; cbn [cinv fid] in *; unfold node_ok in *; tauto. }
      cbn [length] in Hf. destruct (IH _ k s1 Hc' ltac:(lia)) as (s' & A & B & C).
      exists s'. split; [exact A|]. split; congruence.
  Qed.

  (* ---- insert_left: node becomes the left child of parent; it is spliced in before parent *)
  Lemma insert_left_links_ok ctx c y r xn (s : pstate) :
    NoDup (ids (plug (FL c y r :: ctx) (T Red E xn tt E))) ->
    reprs None s (plug (FL c y r :: ctx) E) ->
    reprs (Some (id_of xn)) (insert_left_links s (id_of y) (id_of xn)) (plug (FL c y r :: ctx) (T Red E xn tt E)).
  Proof.
    clear agg aeqb ek.
    intros Nd (A & B & C & D). unfold RbPtrRefineRot.reprs in *.
    rewrite ids_plug in Nd, C, D. cbn [inorder map app cbefore cafter] in Nd, C, D.
    rewrite root_plug in A. cbn [root_id croot] in A.
    apply tinv_plug in B. destruct B as [_ Bc]. cbn [root_id] in Bc.
    set (p := id_of y) in *. set (n := id_of xn) in *. set (Bf := cbefore id_of ctx) in *.
    set (R := ids r ++ cafter id_of ctx) in *.
    assert (Hpn : p <> n) by (subst p n R Bf; ni Nd).
    assert (Hnull : links_null (p_hooks s n)).
    { apply D. subst p n R Bf. apply count_notin. ni_at Nd (id_of xn). }
    destruct Hnull as (Z1 & Z2 & Z3 & Z4 & Z5).
    apply dll_app in C. destruct C as [C1 C2]. cbn [head_or dll] in C1, C2. destruct C2 as (P1 & P2 & C3).
    unfold insert_left_links. cbv zeta.
    set (s2 := set_parent (set_left s p (Some n)) n (Some p)).
    assert (Eq : get_pred s2 p = last_or Bf None).
    { unfold get_pred. subst s2. rewrite hooks_set_parent, hupd_other, hooks_set_left, hupd_same by exact Hpn. exact P1. }
    rewrite Eq. set (q := last_or Bf None) in *.
    set (s3 := match q with Some p0 => set_succ s2 p0 (Some n) | None => s2 end).
    set (s6 := set_pred (set_succ (set_pred s3 n q) n (Some p)) p (Some n)).
    assert (Hq : match q with Some q' => In q' Bf /\ q' <> p /\ q' <> n | None => True end).
    { destruct q as [q'|] eqn:Eq'; [|exact I]. subst q. destruct (last_or_in _ _ _ Eq') as [?|Hin]; [discriminate|].
      split; [exact Hin|]. subst p n R Bf. split; ni Nd. }
    (* tree fields: only the first two assignments matter *)
    assert (T26 : ts_same (p_hooks s2) (p_hooks s6)).
    { subst s6. eapply ts_trans; [|apply ts_set_pred]. eapply ts_trans; [|apply ts_set_succ].
      eapply ts_trans; [|apply ts_set_pred]. subst s3. destruct q; [apply ts_set_succ|apply ts_refl]. }
    assert (R6 : p_root s6 = p_root s) by (subst s6 s3 s2; destruct q; reflexivity).
    (* explicit hooks of the three nodes that are written, and the frame *)
    assert (F6 : forall j, j <> p -> j <> n -> Some j <> q -> p_hooks s6 j = p_hooks s j).
    { intros j J1 J2 J3. subst s6. rewrite hooks_set_pred, hooks_set_succ, hooks_set_pred, !hupd_other by assumption.
      subst s3. destruct q as [q'|].
      - rewrite hooks_set_succ, hupd_other by (intros ->; apply J3; reflexivity).
        subst s2. rewrite hooks_set_parent, hooks_set_left, !hupd_other by assumption. reflexivity.
      - subst s2. rewrite hooks_set_parent, hooks_set_left, !hupd_other by assumption. reflexivity. }
    assert (Hn6 : h_pred (p_hooks s6 n) = q /\ h_succ (p_hooks s6 n) = Some p).
    { subst s6. rewrite hooks_set_pred, hupd_other by (intros E0; apply Hpn; symmetry; exact E0).
      rewrite hooks_set_succ, hupd_same, hooks_set_pred, hupd_same. cbn. auto. }
    assert (Hp6 : h_pred (p_hooks s6 p) = Some n /\ h_succ (p_hooks s6 p) = h_succ (p_hooks s p)).
    { subst s6. rewrite hooks_set_pred, hupd_same. cbn [h_pred h_succ with_pred]. split; [reflexivity|].
      rewrite hooks_set_succ, hooks_set_pred, !hupd_other by exact Hpn.
      subst s3. destruct q as [q'|].
      - destruct Hq as (_ & Hq1 & _). rewrite hooks_set_succ, hupd_other by (intros E0; apply Hq1; symmetry; exact E0).
        subst s2. rewrite hooks_set_parent, hupd_other, hooks_set_left, hupd_same by exact Hpn. reflexivity.
      - subst s2. rewrite hooks_set_parent, hupd_other, hooks_set_left, hupd_same by exact Hpn. reflexivity. }
    assert (Hq6 : match q with
                  | Some q' => h_pred (p_hooks s6 q') = h_pred (p_hooks s q') /\ h_succ (p_hooks s6 q') = Some n
                  | None => True end).
    { destruct q as [q'|] eqn:Eq'; [|exact I]. destruct Hq as (_ & Hq1 & Hq2).
      subst s6. rewrite hooks_set_pred, hooks_set_succ, hooks_set_pred, !hupd_other by assumption.
      subst s3. rewrite hooks_set_succ, hupd_same. cbn [h_pred h_succ with_succ]. split; [|reflexivity].
      subst s2. rewrite hooks_set_parent, hooks_set_left, !hupd_other by assumption. reflexivity. }
    split; [rewrite root_plug; cbn [root_id croot]; rewrite R6; exact A|]. split; [|split].
    - apply tinv_plug. cbn [tinv root_id cpar fid]. fold p n.
      assert (Hc2 : cinv id_of None (p_hooks s2) (FL c y r :: ctx) (Some n)).
      { subst s2. rewrite hooks_set_parent. apply cinv_hupd; [unfold cids; cbn [cbefore cafter]; subst p n R Bf; ni Nd|].
        rewrite hooks_set_left.
        apply (cinv_rechild _ id_of None (p_hooks s) (FL c y r) ctx None); [exact Bc|reflexivity| |];
          unfold cids; cbn [fid]; subst p n R Bf; ni Nd. }
      split.
      + split; [|auto]. eapply node_ok_teq; [apply T26|].
        subst s2. rewrite hooks_set_parent, hupd_same, hooks_set_left, hupd_other by (intros E0; apply Hpn; symmetry; exact E0).
        cbn. repeat split; try assumption. intros H. exfalso. apply H. reflexivity.
      + apply cinv_skip. eapply cinv_ts; [exact T26|exact Hc2].
    - rewrite ids_plug. cbn [inorder map app cbefore cafter]. fold p n Bf R.
      change (dll (p_hooks s6) None (Bf ++ n :: p :: R) None).
      assert (NdB : NoDup Bf).
      { subst p n R Bf. clear -Nd. revert Nd. generalize (cbefore id_of ctx). intros l H.
        apply NoDup_count_occ with (decA := N.eq_dec). intros j. pose proof (count_le_1 _ j H) as C0.
        rewrite count_occ_app in C0. lia. }
      apply dll_app. cbn [head_or]. split.
      + apply (dll_relink_next (p_hooks s)) with (nx := Some p); [exact C1|exact NdB| | |].
        * intros j Hj. destruct q as [q'|] eqn:Eq'.
          -- destruct (N.eq_dec j q') as [->|Hne]; [apply Hq6|]. rewrite F6; [reflexivity| | |].
             ++ subst p n R Bf. ni Nd. ++ subst p n R Bf. ni Nd. ++ intros E0. injection E0 as ->. apply Hne. reflexivity.
          -- rewrite F6; [reflexivity| | |discriminate]; subst p n R Bf; ni Nd.
        * intros j Hj Hl. fold q in Hl. rewrite F6; [reflexivity| | |exact Hl]; subst p n R Bf; ni Nd.
        * fold q. destruct q; [apply Hq6|exact I].
      + fold q. cbn [dll]. destruct Hn6 as [-> ->], Hp6 as [-> ->]. repeat split; try assumption.
        revert C3. apply dll_ext. intros j Hj. rewrite F6; [auto| | |].
        * subst p n R Bf. ni Nd.
        * subst p n R Bf. ni Nd.
        * destruct q as [q'|] eqn:Eq'; [|discriminate]. destruct Hq as (Hq0 & _). intros E0. injection E0 as ->.
          subst p n R Bf. nix Nd q'.
    - rewrite ids_plug. cbn [inorder map app cbefore cafter]. fold p n Bf R. intros j Hj.
      rewrite !in_app_iff in Hj. cbn [In] in Hj. rewrite F6.
      + apply D. rewrite in_app_iff. cbn [In]. tauto.
      + intros ->. tauto.
      + intros ->. tauto.
      + destruct q as [q'|]; [|discriminate]. intros E0. injection E0 as ->. destruct Hq as (Hq0 & _). tauto.
  Qed.

  (* ---- insert_right: node becomes the right child of parent; it is spliced in after parent *)
  Lemma insert_right_links_ok ctx c l y xn (s : pstate) :
    NoDup (ids (plug (FR c l y :: ctx) (T Red E xn tt E))) ->
    reprs None s (plug (FR c l y :: ctx) E) ->
    reprs (Some (id_of xn)) (insert_right_links s (id_of y) (id_of xn)) (plug (FR c l y :: ctx) (T Red E xn tt E)).
  Proof.
    clear agg aeqb ek.
    intros Nd (A & B & C & D). unfold RbPtrRefineRot.reprs in *.
    rewrite ids_plug in Nd, C, D. cbn [inorder map app] in Nd, C, D.
    rewrite root_plug in A. cbn [root_id croot] in A.
    apply tinv_plug in B. destruct B as [_ Bc]. cbn [root_id] in Bc.
    set (p := id_of y) in *. set (n := id_of xn) in *.
    set (Bp := cbefore id_of (FR c l y :: ctx)) in *. set (R := cafter id_of (FR c l y :: ctx)) in *.
    assert (EBp : Bp = (cbefore id_of ctx ++ ids l) ++ [p]) by (subst Bp p; cbn [cbefore]; rewrite app_assoc; reflexivity).
    assert (Hpn : p <> n) by (rewrite EBp in Nd; subst p n; ni Nd).
    assert (Hnull : links_null (p_hooks s n)).
    { apply D. rewrite EBp in *. subst p n. apply count_notin. ni_at Nd (id_of xn). }
    destruct Hnull as (Z1 & Z2 & Z3 & Z4 & Z5).
    apply dll_app in C. destruct C as [C1 C2].
    assert (Lp : last_or Bp None = Some p) by (rewrite EBp, last_or_app; reflexivity).
    rewrite Lp in C2.
    assert (P2 : h_succ (p_hooks s p) = head_or R None).
    { pose proof (dll_last_succ _ _ _ _ C1) as H. rewrite Lp in H. apply H. rewrite EBp. destruct (cbefore id_of ctx ++ ids l); discriminate. }
    unfold insert_right_links. cbv zeta.
    set (s2 := set_parent (set_right s p (Some n)) n (Some p)).
    assert (Eq : get_succ s2 p = head_or R None).
    { unfold get_succ. subst s2. rewrite hooks_set_parent, hupd_other, hooks_set_right, hupd_same by exact Hpn. exact P2. }
    rewrite Eq. set (q := head_or R None) in *.
    set (s5 := set_succ (set_pred (set_succ s2 p (Some n)) n (Some p)) n q).
    set (s6 := match q with Some q0 => set_pred s5 q0 (Some n) | None => s5 end).
    assert (Hq : match q with Some q' => In q' R /\ q' <> p /\ q' <> n | None => True end).
    { destruct q as [q'|] eqn:Eq'; [|exact I]. subst q. pose proof (head_or_in _ _ Eq') as Hin.
      split; [exact Hin|]. rewrite EBp in Nd. subst p n. split; ni Nd. }
    assert (T26 : ts_same (p_hooks s2) (p_hooks s6)).
    { subst s6. eapply ts_trans; [|destruct q; [apply ts_set_pred|apply ts_refl]].
      subst s5. eapply ts_trans; [|apply ts_set_succ]. eapply ts_trans; [|apply ts_set_pred]. apply ts_set_succ. }
    assert (R6 : p_root s6 = p_root s) by (subst s6 s5 s2; destruct q; reflexivity).
    assert (F6 : forall j, j <> p -> j <> n -> Some j <> q -> p_hooks s6 j = p_hooks s j).
    { intros j J1 J2 J3. subst s6.
      assert (E5 : p_hooks s5 j = p_hooks s j).
      { subst s5. rewrite hooks_set_succ, hooks_set_pred, hooks_set_succ, !hupd_other by assumption.
        subst s2. rewrite hooks_set_parent, hooks_set_right, !hupd_other by assumption. reflexivity. }
      destruct q as [q'|]; [|exact E5]. rewrite hooks_set_pred, hupd_other by (intros ->; apply J3; reflexivity). exact E5. }
    assert (Hn6 : h_pred (p_hooks s6 n) = Some p /\ h_succ (p_hooks s6 n) = q).
    { assert (E5 : h_pred (p_hooks s5 n) = Some p /\ h_succ (p_hooks s5 n) = q).
      { subst s5. rewrite hooks_set_succ, hupd_same, hooks_set_pred, hupd_same. cbn. auto. }
      subst s6. destruct q as [q'|]; [|exact E5]. destruct Hq as (_ & _ & Hq2).
      rewrite hooks_set_pred, hupd_other by (intros E0; apply Hq2; symmetry; exact E0). exact E5. }
    assert (Hp6 : h_pred (p_hooks s6 p) = h_pred (p_hooks s p) /\ h_succ (p_hooks s6 p) = Some n).
    { assert (E5 : h_pred (p_hooks s5 p) = h_pred (p_hooks s p) /\ h_succ (p_hooks s5 p) = Some n).
      { subst s5. rewrite hooks_set_succ, hooks_set_pred, !hupd_other by exact Hpn. rewrite hooks_set_succ, hupd_same.
        cbn [h_pred h_succ with_succ]. split; [|reflexivity].
        subst s2. rewrite hooks_set_parent, hupd_other, hooks_set_right, hupd_same by exact Hpn. reflexivity. }
      subst s6. destruct q as [q'|]; [|exact E5]. destruct Hq as (_ & Hq1 & _).
      rewrite hooks_set_pred, hupd_other by (intros E0; apply Hq1; symmetry; exact E0). exact E5. }
    assert (Hq6 : match q with
                  | Some q' => h_pred (p_hooks s6 q') = Some n /\ h_succ (p_hooks s6 q') = h_succ (p_hooks s q')
                  | None => True end).
    { destruct q as [q'|] eqn:Eq'; [|exact I]. destruct Hq as (_ & Hq1 & Hq2).
      subst s6. rewrite hooks_set_pred, hupd_same. cbn [h_pred h_succ with_pred]. split; [reflexivity|].
      subst s5. rewrite hooks_set_succ, hooks_set_pred, hooks_set_succ, !hupd_other by assumption.
      subst s2. rewrite hooks_set_parent, hooks_set_right, !hupd_other by assumption. reflexivity. }
    assert (NdR : NoDup R).
    { apply NoDup_count_occ with (decA := N.eq_dec). intros j. pose proof (count_le_1 _ j Nd) as C0.
      rewrite !count_occ_app in C0. cbn [count_occ] in C0. destruct (N.eq_dec n j); lia. }
    assert (NdB : NoDup Bp).
    { apply NoDup_count_occ with (decA := N.eq_dec). intros j. pose proof (count_le_1 _ j Nd) as C0.
      rewrite !count_occ_app in C0. lia. }
    split; [rewrite root_plug; cbn [root_id croot]; rewrite R6; exact A|]. split; [|split].
    - apply tinv_plug. cbn [tinv root_id cpar fid]. fold p n.
      assert (Hc2 : cinv id_of None (p_hooks s2) (FR c l y :: ctx) (Some n)).
      { subst s2. rewrite hooks_set_parent.
        apply cinv_hupd; [unfold cids; fold Bp R; subst p n; apply count_notin; ni_at Nd (id_of xn)|].
        rewrite hooks_set_right.
        apply (cinv_rechild _ id_of None (p_hooks s) (FR c l y) ctx None); [exact Bc|reflexivity| |];
          unfold cids; cbn [fid]; subst Bp R; cbn [cbefore cafter] in Nd; subst p n; ni Nd. }
      split.
      + split; [|auto]. eapply node_ok_teq; [apply T26|].
        subst s2. rewrite hooks_set_parent, hupd_same, hooks_set_right, hupd_other by (intros E0; apply Hpn; symmetry; exact E0).
        cbn. repeat split; try assumption. intros H. exfalso. apply H. reflexivity.
      + apply cinv_skip. eapply cinv_ts; [exact T26|exact Hc2].
    - rewrite ids_plug. cbn [inorder map app]. fold p n Bp R.
      change (dll (p_hooks s6) None (Bp ++ n :: R) None).
      apply dll_app. cbn [head_or]. split.
      + apply (dll_relink_next (p_hooks s)) with (nx := head_or R None); [exact C1|exact NdB| | |].
        * intros j Hj. destruct (N.eq_dec j p) as [->|Hne]; [apply Hp6|]. rewrite F6; [reflexivity|exact Hne| |].
          -- subst p n. ni Nd.
          -- destruct q as [q'|] eqn:Eq'; [|discriminate]. destruct Hq as (Hq0 & _). intros E0. injection E0 as ->. nix Nd q'.
        * intros j Hj Hl. rewrite Lp in Hl. rewrite F6; [reflexivity| | |].
          -- intros ->. apply Hl. reflexivity.
          -- subst p n. ni Nd.
          -- destruct q as [q'|] eqn:Eq'; [|discriminate]. destruct Hq as (Hq0 & _). intros E0. injection E0 as ->. nix Nd q'.
        * rewrite Lp. apply Hp6.
      + rewrite Lp. cbn [dll]. destruct Hn6 as [-> ->]. split; [reflexivity|]. split; [reflexivity|].
        apply (dll_relink_prev (p_hooks s)) with (p := Some p); [exact C2|exact NdR| | |].
        * intros j Hj. destruct q as [q'|] eqn:Eq'.
          -- destruct (N.eq_dec j q') as [->|Hne]; [apply Hq6|]. rewrite F6; [reflexivity| | |].
             ++ rewrite EBp in Nd. subst p n. ni Nd. ++ subst p n. ni Nd. ++ intros E0. injection E0 as ->. apply Hne. reflexivity.
          -- rewrite F6; [reflexivity| | |discriminate]; rewrite EBp in Nd; subst p n; ni Nd.
        * intros j Hj Hh. fold q in Hh. rewrite F6; [reflexivity| | |exact Hh]; rewrite EBp in Nd; subst p n; ni Nd.
        * fold q. destruct q; [apply Hq6|exact I].
    - rewrite ids_plug. cbn [inorder map app]. fold p n Bp R. intros j Hj.
      rewrite !in_app_iff in Hj. cbn [In] in Hj. rewrite F6.
      + apply D. rewrite in_app_iff. cbn [In]. tauto.
      + intros ->. apply Hj. left. rewrite EBp, in_app_iff. right. left. reflexivity.
      + intros ->. tauto.
      + destruct q as [q'|]; [|discriminate]. intros E0. injection E0 as ->. destruct Hq as (Hq0 & _). tauto.
  Qed.
End Ins.
