(* RbPtrRefineRemove.v — refinement (e), second half: tree_crtp_struct::remove as a whole.  For EVERY red-black tree t
   (unit annotations here; RbPtrRefineTop lifts to any annotation) with unique ids, every member i, every heap that
   represents t: p_remove returns normally and the heap represents [remove id_of _ i t]. *)
From Coq Require Import NArith List Bool Lia PeanoNat.
From FV Require Import Rb.RbModel Rb.RbInorder Rb.RbInvariant Rb.RbLayout Rb.RbPtr Rb.RbPtrBase Rb.RbPtrRefineRot
  Rb.RbPtrRefineIns Rb.RbPtrRefineFix Rb.RbPtrRemF Rb.RbPtrRefineRem Rb.RbPtrRefineUnlink Rb.RbPtrRefineReplace Rb.RbPtrAnnot.
Import ListNotations.

Section Remove.
  Variables elt annot : Type.
  Variable id_of : elt -> N.
  Variable agg : elt -> option annot -> option annot -> annot.
  Variable aeqb : annot -> annot -> bool.
  Variable ek : N -> elt.
  Notation tree := (tree elt unit).
  Notation frame := (frame elt).
  Notation ids t := (map id_of (inorder t)).
  Notation pstate := (pstate annot).
  Notation reprs := (reprs elt annot id_of).
  Notation uagg := (uagg elt).

  (* ---- black heights along a context *)
  Fixpoint crbt (ctx : list frame) (k : nat) : Prop :=
    match ctx with
    | [] => True
    | FL c _ r :: ctx' => rbt r k /\ crbt ctx' (match c with Black => S k | Red => k end)
    | FR c l _ :: ctx' => rbt l k /\ crbt ctx' (match c with Black => S k | Red => k end)
    end.
  Lemma rbt_plug ctx : forall (sub : tree) n, rbt (plug ctx sub) n -> exists k, rbt sub k /\ crbt ctx k.
  Proof.
    induction ctx as [|fr ctx IH]; intros sub n H; cbn [plug crbt] in *; [exists n; auto|].
    destruct (IH _ _ H) as (k' & H1 & H2).
    destruct fr as [c x r|c l x]; cbn [fill] in H1; inversion H1; subst; eauto.
  Qed.
  Lemma crbt_rem_ok ctx : forall k, crbt ctx (S k) -> rem_ok elt ctx.
  Proof.
    induction ctx as [|fr ctx IH]; intros k H; cbn [crbt rem_ok] in *; [exact I|].
    destruct fr as [c x r|c l x]; destruct H as [Hr Hc].
    - destruct r as [|[] rl y ay rr]; [inversion Hr| |].
      + inversion Hr; subst. intros ->. match goal with H : rbt E (S _) |- _ => inversion H end.
      + intros _ ->. eapply IH. exact Hc.
    - destruct l as [|[] ll y ay lr]; [inversion Hr| |].
      + inversion Hr; subst. intros ->. match goal with H : rbt E (S _) |- _ => inversion H end.
      + intros _ ->. eapply IH. exact Hc.
  Qed.

  (* ---- the predecessor of a node with a left subtree is the bottom of the right spine of that subtree *)
  Lemma cafter_rspine (l : tree) acc : cafter id_of (rspine l acc) = cafter id_of acc.
  Proof.
    revert acc. induction l as [|c ll _ x a r IHr]; intros acc; cbn [rspine]; [reflexivity|].
    destruct r; [reflexivity|]. rewrite IHr. reflexivity.
  Qed.
  Lemma rlast_some (l : tree) : l <> E -> exists cm lm m, rlast l = Some (cm, lm, m).
  Proof.
    induction l as [|c ll _ x a r IHr]; intros H; [contradiction|]. cbn [rlast].
    destruct r; [eauto|]. apply IHr. discriminate.
  Qed.
  Lemma ids_last (l : tree) cm lm m : rlast l = Some (cm, lm, m) -> exists pre, ids l = pre ++ [id_of m].
  Proof.
    intros H. pose proof (rspine_plug elt l []) as P. rewrite H in P. cbn [plug] in P.
    rewrite <- P, ids_plug, cafter_rspine. cbn [cafter inorder map]. rewrite app_nil_r, map_app. cbn [map].
    eexists. rewrite app_assoc. reflexivity.
  Qed.

  (* the functional remove at the focus of a context *)
  Lemma remove_zipper i ctx c (l : tree) x a (r : tree) :
    NoDup (ids (plug ctx (T c l x a r))) -> id_of x = i ->
    remove id_of uagg i (plug ctx (T c l x a r)) = fst (del_up ctx (del_root uagg c l x r)).
  Proof.
    intros Nd Hi. unfold remove. rewrite (del_plug elt id_of i ctx (T c l x a r) (del_root uagg c l x r)).
    - reflexivity.
    - cbn [del]. rewrite Hi, N.eqb_refl. reflexivity.
    - rewrite ids_plug in Nd. cbn [inorder] in Nd. unfold cids. subst i. ni Nd.
  Qed.

  Theorem p_remove_reprS (t : tree) n i (s : pstate) fuel :
    NoDup (ids t) -> rbt t n -> In i (ids t) ->
    reprs None s t ->
    height t + 2 < fuel -> height (remove id_of uagg i t) <= fuel ->
    exists s', p_remove agg aeqb ek fuel s i = POk s' /\ reprs None s' (remove id_of uagg i t)
               /\ (agg_ok agg aeqb -> tkeys elt id_of ek t -> ainv elt annot id_of agg (p_annots s) t ->
                   ainv elt annot id_of agg (p_annots s') (remove id_of uagg i t)).
  Proof.
    intros Nd Hrb Hi H Hf Hf2.
    destruct (occ_member elt unit id_of t None i Hi) as (c & l & x & a & r & sp & O & Ex).
    destruct (occ_plug elt id_of t None _ sp O) as (ctx & Ec). specialize (Ec []). rewrite app_nil_r in Ec. cbn [plug] in Ec.
    subst t. rewrite (remove_zipper i ctx c l x a r Nd Ex) in *.
    destruct (rbt_plug _ _ _ Hrb) as (k & Hk & Hck).
    pose proof (height_plug elt ctx (T c l x a r)) as Hh. cbn [height] in Hh.
    pose proof H as Hcopy. apply reprS_split in Hcopy. destruct Hcopy as [Ht Hl].
    destruct (treeS_focus_r _ _ id_of agg _ _ _ _ _ _ _ _ Ht) as ((X1 & X2 & X3 & X4) & _).
    unfold p_remove, get_left, get_right. subst i. rewrite X2, X3.
    destruct l as [|cl ll xl al lr].
    - (* no left child *)
      cbn [root_id del_root].
      apply (remove_half_leaf_ok elt annot id_of agg aeqb ek true fuel ctx c r x a s); [exact Nd|exact H| |lia].
      intros Hs. unfold half in Hs. destruct c; [discriminate|]. inversion Hk; subst. eapply crbt_rem_ok. exact Hck.
    - destruct r as [|cr rl xr ar rr].
      + (* no right child *)
        cbn [root_id del_root].
        apply (remove_half_leaf_ok elt annot id_of agg aeqb ek false fuel ctx c (T cl ll xl al lr) x a s); [exact Nd|exact H| |lia].
        intros Hs. unfold half in Hs. destruct c; [discriminate|]. inversion Hk; subst. eapply crbt_rem_ok. exact Hck.
      + (* two children: unlink the predecessor, then put it in the node's place *)
        cbn [root_id].
        set (l := T cl ll xl al lr) in *. set (r := T cr rl xr ar rr) in *.
        destruct (rlast_some l ltac:(discriminate)) as (cm & lm & m & El).
        pose proof (del_root_two elt c l x r ctx ltac:(discriminate) ltac:(discriminate)) as DR. rewrite El in DR. rewrite DR in *.
        (* the predecessor pointer *)
        destruct (ids_last l cm lm m El) as (pre & Epre).
        assert (Hpred : get_pred s (id_of x) = Some (id_of m)).
        { destruct Hl as [Hd _]. rewrite ids_plug in Hd. cbn [inorder] in Hd. rewrite map_app in Hd. cbn [map] in Hd.
          rewrite Epre in Hd. rewrite <- !app_assoc in Hd. cbn [app] in Hd.
          rewrite app_assoc in Hd. apply dll_app in Hd. destruct Hd as [_ Hd]. rewrite last_or_app in Hd.
          cbn [last_or app dll] in Hd. unfold get_pred. destruct Hd as (_ & _ & Hd & _). exact Hd. }
        rewrite Hpred.
        (* the tree, focused at the predecessor *)
        set (ctx1 := rspine l [] ++ FL c x r :: ctx).
        assert (Et : plug ctx (T c l x a r) = plug ctx1 (T cm lm m tt E)).
        { subst ctx1. rewrite plug_app_base. pose proof (rspine_plug elt l []) as P. rewrite El in P. cbn [plug] in P.
          rewrite P. cbn [plug fill]. destruct a. reflexivity. }
        rewrite Et in *.
        pose proof H as Hcopy2. apply reprS_split in Hcopy2. destruct Hcopy2 as [Ht1 _].
        destruct (treeS_focus_r _ _ id_of agg _ _ _ _ _ _ _ _ Ht1) as ((_ & M2 & _ & _) & _).
        rewrite M2.
        destruct (rbt_plug _ _ _ Hrb) as (k1 & Hk1 & Hck1).
        pose proof (height_plug elt ctx1 (T cm lm m tt E)) as Hh1. cbn [height] in Hh1.
        destruct (remove_half_leaf_ok elt annot id_of agg aeqb ek false fuel ctx1 cm lm m tt s Nd H) as (s1 & E1 & H1 & AN1); [|lia|].
        { intros Hs. unfold half in Hs. destruct cm; [discriminate|]. inversion Hk1; subst. eapply crbt_rem_ok. exact Hck1. }
        cbn [hl] in E1. rewrite E1. cbn [pbind].
        (* the intermediate tree t1: the functional result with x still in the place where m will go *)
        set (hf := half cm lm) in *. set (t1 := fst (del_up ctx1 hf)) in *.
        assert (Et1 : t1 = plug (rem_ctx_b ctx1 (snd hf)) (fst hf)) by (subst t1; apply del_up_ctx').
        assert (Eids1 : ids t1 = cbefore id_of ctx1 ++ ids lm ++ cafter id_of ctx1).
        { subst t1. rewrite inorder_del_up, ids_plug. subst hf. rewrite inorder_half. reflexivity. }
        assert (Nd1 : NoDup (id_of m :: ids t1)).
        { rewrite Eids1. rewrite ids_plug in Nd. cbn [inorder] in Nd. rewrite map_app in Nd. cbn [map] in Nd.
          apply NoDup_count_occ with (decA := N.eq_dec). intros j. pose proof (count_le_1 _ j Nd) as C0.
          cbn [count_occ]. rewrite !count_occ_app in *. cbn [count_occ] in C0. destruct (N.eq_dec (id_of m) j); lia. }
        assert (Hx1 : In (id_of x) (ids t1)).
        { rewrite Eids1. subst ctx1. rewrite (cafter_app elt id_of). cbn [cafter]. rewrite !in_app_iff. cbn [In]. tauto. }
        destruct (occ_member elt unit id_of t1 None (id_of x) Hx1) as (cX & lX & x' & aX & rX & spX & OX & ExX).
        destruct (occ_plug elt id_of t1 None _ spX OX) as (ctxX & EcX). specialize (EcX []). rewrite app_nil_r in EcX. cbn [plug] in EcX.
        (* the element at that position is x itself: ids are unique and x occurs in t1 *)
        assert (Nd1' : NoDup (ids t1)) by (apply NoDup_cons_iff in Nd1; tauto).
        rewrite <- EcX in H1, Nd1, Nd1'.
        assert (Esub : forall e, In e (inorder t1) -> In e (inorder (plug ctx1 (T cm lm m tt E)))).
        { intros e He. subst t1. rewrite inorder_del_up in He. rewrite inorder_plug in *. subst hf. rewrite inorder_half in He.
          cbn [inorder]. rewrite !in_app_iff in *. tauto. }
        pose proof (height_plug elt ctxX (T cX lX x' aX rX)) as HhX. cbn [height] in HhX.
        (* the functional side: renaming x to m commutes with the rebalancing *)
        set (f := fun e : elt => if N.eqb (id_of e) (id_of x) then m else e).
        assert (Ff : forall e, id_of e <> id_of x -> f e = e).
        { intros e He. unfold f. destruct (N.eqb_spec (id_of e) (id_of x)); [contradiction|reflexivity]. }
        assert (Fid : forall (t0 : tree), ~ In (id_of x) (ids t0) -> tmap f t0 = t0).
        { intros t0 Hn. apply (tmap_id_on elt id_of). intros e He. apply Ff. intros E0. apply Hn. rewrite <- E0. apply in_map, He. }
        assert (Fcid : forall c0 : list frame, ~ In (id_of x) (cids id_of c0) -> map (fmap f) c0 = c0).
        { intros c0 Hn. apply (fmap_id_on elt id_of). intros e He. apply Ff. intros E0. apply Hn. rewrite <- E0. exact He. }
        assert (Ex0 : f x = m) by (unfold f; rewrite N.eqb_refl; reflexivity).
        pose proof Nd as NdF. rewrite ids_plug in NdF. subst ctx1. rewrite (cbefore_app elt id_of), (cafter_app elt id_of) in NdF.
        cbn [cbefore cafter inorder] in NdF.
        assert (Efun : fst (del_up (rspine l [] ++ FL c m r :: ctx) hf) = tmap f t1).
        { rewrite Et1, del_up_ctx', <- plug_map, <- rem_ctx_b_map. f_equal; [f_equal|].
          - rewrite map_app. cbn [map fmap]. rewrite Ex0, (Fid r), (Fcid ctx), (Fcid (rspine l [])); [reflexivity| | |].
            + unfold cids. ni NdF. + unfold cids. ni NdF. + ni NdF.
          - symmetry. apply Fid. subst hf. rewrite inorder_half. ni NdF. }
        rewrite Efun in *. rewrite height_tmap in Hf2.
        assert (Hlen : length ctxX <= fuel) by (rewrite EcX in HhX; lia).
        (* replace_node *)
        assert (Exm : x' = x \/ id_of x' = id_of x) by (right; exact ExX).
        destruct (replace_node_ok elt annot id_of agg aeqb ek fuel ctxX cX lX x' aX rX m s1 Nd1 H1) as (s2 & E2 & H2 & AN2); [exact Hlen|].
        rewrite ExX in E2. exists s2. split; [exact E2|].
        replace (tmap f t1) with (plug ctxX (T cX lX m tt rX)).
        { split; [exact H2|]. intros Ao Hky Hay. cbn [hl] in AN1. specialize (AN1 Ao Hky Hay).
          apply AN2; [exact Ao| | |rewrite EcX; exact AN1].
          - apply Hky. rewrite inorder_plug. rewrite !in_app_iff. right. left. cbn [inorder]. rewrite in_app_iff. right. left. reflexivity.
          - intros e He. apply Hky, Esub. rewrite <- EcX. exact He. }
        rewrite <- EcX, <- plug_map. cbn [tmap].
        apply NoDup_cons_iff in Nd1. destruct Nd1 as [_ Nd1]. rewrite ids_plug in Nd1. cbn [inorder] in Nd1.
        assert (Ex1 : f x' = m) by (unfold f; rewrite ExX, N.eqb_refl; reflexivity).
        rewrite Ex1, (Fid lX), (Fid rX), (Fcid ctxX); [destruct aX; reflexivity| | |]; rewrite <- ExX.
        * unfold cids. ni Nd1. * ni Nd1. * ni Nd1.
  Qed.
End Remove.
