(* RbPtrRefineRot.v — refinement (a): the pointer-level rotateLeft / rotateRight of rbtree.hpp, run on a heap that
   represents [plug ctx sub], produce a heap that represents [plug ctx (sub rotated)], for EVERY context and every
   subtree with unique ids; also the single colour assignment. *)
From Coq Require Import NArith List Bool Lia PeanoNat.
From FV Require Import Rb.RbModel Rb.RbLayout Rb.RbPtr Rb.RbPtrBase.
Import ListNotations.

Section Rot.
  Variables elt annot : Type.
  Variable id_of : elt -> N.
  Variable agg : elt -> option annot -> option annot -> annot.
  Variable aeqb : annot -> annot -> bool.
  Variable ek : N -> elt.
  Notation tree := (tree elt unit).
  Notation ids t := (map id_of (inorder t)).
  Notation pstate := (pstate annot).

  Definition reprs (sk : option N) (s : pstate) (t : tree) : Prop := reprS id_of sk (p_hooks s) (p_root s) t.

  Lemma aggregate_node_hooks (s : pstate) n :
    p_hooks (aggregate_node agg aeqb ek s n) = p_hooks s /\ p_root (aggregate_node agg aeqb ek s n) = p_root s.
  Proof. unfold aggregate_node, aggregate. destruct (aeqb _ _); cbn; auto. Qed.

  (* ---- one colour assignment at the focus (also lifts the "colour of n not yet set" form) *)
  Definition treeSs (sk : option N) (s : pstate) (t : tree) : Prop := treeS id_of sk (p_hooks s) (p_root s) t.

  Lemma set_color_t sk ctx c0 l x a r (s : pstate) c :
    NoDup (ids (plug ctx (T c0 l x a r))) ->
    (sk = None \/ sk = Some (id_of x)) ->
    treeSs sk s (plug ctx (T c0 l x a r)) ->
    treeSs None (set_color s (id_of x) (Some c)) (plug ctx (T c l x a r)).
  Proof.
    clear agg aeqb ek.
    intros Nd Hsk (A & B & D). unfold treeSs, treeS. rewrite hooks_set_color. cbn [p_root set_color upd].
    rewrite ids_plug in Nd, D. cbn [inorder] in Nd, D.
    apply tinv_plug in B. destruct B as [Bs Bc]. cbn [tinv root_id] in Bs.
    destruct Bs as ((X1 & X2 & X3 & X4) & Bl & Br).
    assert (Nl : ~ In (id_of x) (ids l)) by ni Nd.
    assert (Nr : ~ In (id_of x) (ids r)) by ni Nd.
    assert (Nc : ~ In (id_of x) (cids id_of ctx)) by (unfold cids; ni Nd).
    split; [rewrite root_plug in *; exact A|]. split.
    - apply tinv_plug. cbn [tinv root_id]. rewrite hupd_same. split; [split|].
      + repeat split; assumption.
      + split; apply tinv_hupd; try assumption; destruct Hsk as [->| ->]; try assumption;
          apply (tinv_unskip _ id_of (id_of x)); assumption.
      + apply cinv_hupd; [assumption|]. destruct Hsk as [->| ->]; [assumption|].
        apply (cinv_unskip _ id_of (id_of x)); assumption.
    - rewrite ids_plug. cbn [inorder]. intros j Hj. specialize (D j Hj).
      unfold hupd. destruct (N.eqb_spec j (id_of x)) as [->|]; [|exact D].
      exfalso. apply Hj. rewrite !map_app, !in_app_iff. cbn [map In]. tauto.
  Qed.

  Lemma set_color_ok sk ctx c0 l x a r (s : pstate) c :
    NoDup (ids (plug ctx (T c0 l x a r))) ->
    (sk = None \/ sk = Some (id_of x)) ->
    reprs sk s (plug ctx (T c0 l x a r)) ->
    reprs None (set_color s (id_of x) (Some c)) (plug ctx (T c l x a r)).
  Proof.
    clear agg aeqb ek.
    intros Nd Hsk H. apply reprS_split in H. destruct H as [Ht Hl]. apply reprS_split. split.
    - apply (set_color_t sk ctx c0 l x a r s c Nd Hsk Ht).
    - rewrite ids_plug in *. cbn [inorder] in *. revert Hl. apply listS_ps. apply ps_set_color.
  Qed.

  (* ---- the assignment to the slot that points to the focus: _root, or left / right of the innermost frame's node.
     The C++ finds the slot by comparing get_left(w) / get_right(w) with the old child u. *)
  Definition set_slot (s : pstate) (ctx : list (frame elt)) (v : option N) : pstate :=
    match ctx with
    | [] => set_root s v
    | FL _ x _ :: _ => set_left s (id_of x) v
    | FR _ _ x :: _ => set_right s (id_of x) v
    end.

  Lemma oeqb_sym a b : oeqb a b = oeqb b a.
  Proof. destruct a, b; cbn; auto using N.eqb_sym. Qed.
  Lemma oeqb_refl a : oeqb a a = true.
  Proof. destruct a; cbn; auto using N.eqb_refl. Qed.

  Lemma slot_code ctx L u line (s : pstate) v :
    NoDup (cbefore id_of ctx ++ L ++ cafter id_of ctx) -> In u L ->
    cinv id_of None (p_hooks s) ctx (Some u) ->
    match cpar id_of ctx with
    | None => POk (set_root s v)
    | Some w' => if oeqb (get_left s w') (Some u) then POk (set_left s w' v)
                 else if oeqb (get_right s w') (Some u) then POk (set_right s w' v) else PAssert line
    end = POk (set_slot s ctx v).
  Proof.
    intros Nd Hu Hc. destruct ctx as [|fr ctx']; cbn [cpar set_slot]; [reflexivity|].
    unfold get_left, get_right.
    destruct fr as [c x r|c l x]; cbn [fid cinv] in *; destruct Hc as ((W1 & W2 & W3 & W4) & Hr & Hc').
    - rewrite W2. cbn [oeqb]. rewrite N.eqb_refl. reflexivity.
    - assert (Hl : oeqb (root_id id_of l) (Some u) = false).
      { destruct l as [|cl ll xl' al lr]; [reflexivity|]. cbn. apply N.eqb_neq. cbn [cbefore cafter] in Nd. ni Nd. }
      rewrite W2, Hl, W3. cbn [oeqb]. rewrite N.eqb_refl. reflexivity.
  Qed.

  Lemma set_slot_props ctx L (s : pstate) rid v :
    NoDup (cbefore id_of ctx ++ L ++ cafter id_of ctx) ->
    cinv id_of None (p_hooks s) ctx rid -> p_root s = croot id_of ctx rid ->
    p_root (set_slot s ctx v) = croot id_of ctx v
    /\ cinv id_of None (p_hooks (set_slot s ctx v)) ctx v
    /\ (forall j, ~ In j (cids id_of ctx) -> p_hooks (set_slot s ctx v) j = p_hooks s j)
    /\ ps_same (p_hooks s) (p_hooks (set_slot s ctx v))
    /\ (forall j, h_parent (p_hooks (set_slot s ctx v) j) = h_parent (p_hooks s j)
                  /\ h_color (p_hooks (set_slot s ctx v) j) = h_color (p_hooks s j)).
  Proof.
    clear agg aeqb ek.
    intros Nd Hc Hr. destruct ctx as [|fr ctx']; cbn [set_slot].
    - cbn. repeat split; auto.
    - destruct fr as [c x r|c l x]; cbn [croot fid] in *.
      + rewrite hooks_set_left. cbn [p_root set_left upd]. split; [exact Hr|]. split; [|split; [|split]].
        * apply (cinv_rechild _ id_of None (p_hooks s) (FL c x r) ctx' rid); [exact Hc|reflexivity| |];
            unfold cids; cbn [fid cbefore cafter] in *; ni Nd.
        * intros j Hj. apply hupd_other. intros ->. apply Hj. unfold cids. cbn [cbefore cafter].
          rewrite !in_app_iff. cbn [In]. tauto.
        * apply ps_hupd; reflexivity.
        * intros j. unfold hupd. destruct (N.eqb_spec j (id_of x)) as [->|]; cbn; auto.
      + rewrite hooks_set_right. cbn [p_root set_right upd]. split; [exact Hr|]. split; [|split; [|split]].
        * apply (cinv_rechild _ id_of None (p_hooks s) (FR c l x) ctx' rid); [exact Hc|reflexivity| |];
            unfold cids; cbn [fid cbefore cafter] in *; ni Nd.
        * intros j Hj. apply hupd_other. intros ->. apply Hj. unfold cids. cbn [cbefore cafter].
          rewrite !in_app_iff. cbn [In]. tauto.
        * apply ps_hupd; reflexivity.
        * intros j. unfold hupd. destruct (N.eqb_spec j (id_of x)) as [->|]; cbn; auto.
  Qed.

  (* ---- rotateLeft(n): n = right child of u *)
  Theorem rotateLeft_t ctx cu xl xu a1 cn v xn a2 y (s : pstate) :
    NoDup (ids (plug ctx (T cu xl xu a1 (T cn v xn a2 y)))) ->
    treeSs None s (plug ctx (T cu xl xu a1 (T cn v xn a2 y))) ->
    exists s', rotateLeft agg aeqb ek s (id_of xn) = POk s'
               /\ treeSs None s' (plug ctx (T cn (T cu xl xu tt v) xn tt y))
               /\ ps_same (p_hooks s) (p_hooks s').
  Proof.
    intros Nd (A & B & D). unfold treeSs, treeS.
    assert (Eids : ids (T cn (T cu xl xu tt v) xn tt y) = ids (T cu xl xu a1 (T cn v xn a2 y))).
    { cbn [inorder]. rewrite <- app_assoc. reflexivity. }
    rewrite ids_plug in Nd, D. pose proof Nd as Nd0. cbn [inorder] in Nd.
    apply tinv_plug in B. destruct B as [Bs Bc]. cbn [tinv root_id] in Bs.
    destruct Bs as ((U1 & U2 & U3 & U4) & Bxl & (N1 & N2 & N3 & N4) & Bv & By).
    rewrite root_plug in A. cbn [root_id] in A.
    set (u := id_of xu) in *. set (n := id_of xn) in *.
    assert (Hun : u <> n) by (subst u n; ni Nd).
    unfold rotateLeft, get_parent, get_right, get_left. rewrite N1, U3. cbn [oeqb]. rewrite N.eqb_refl. cbn [negb].
    rewrite N2, U1. cbv zeta.
    (* the five assignments inside the subtree *)
    set (s1 := match root_id id_of v with Some v' => set_parent s v' (Some u) | None => s end).
    set (s5 := set_parent (set_left (set_parent (set_right s1 u (root_id id_of v)) u (Some n)) n (Some u)) n (cpar id_of ctx)).
    assert (R5 : p_root s5 = p_root s) by (subst s5 s1; destruct (root_id id_of v); reflexivity).
    (* what the five assignments leave untouched *)
    assert (F5 : forall j, j <> u -> j <> n -> root_id id_of v <> Some j -> p_hooks s5 j = p_hooks s j).
    { intros j J1 J2 J3. subst s5. rewrite hooks_set_parent, hooks_set_left, hooks_set_parent, hooks_set_right.
      rewrite !hupd_other by assumption. subst s1. destruct (root_id id_of v) as [v0|]; [|reflexivity].
      rewrite hooks_set_parent, hupd_other; [reflexivity|]. intros ->. apply J3. reflexivity. }
    assert (Hu5 : p_hooks s5 u = mkHook (Some n) (root_id id_of xl) (root_id id_of v) (h_pred (p_hooks s u)) (h_succ (p_hooks s u)) (Some cu)).
    { subst s5. rewrite hooks_set_parent, hooks_set_left, !hupd_other by assumption.
      rewrite hooks_set_parent, hupd_same, hooks_set_right, hupd_same.
      assert (E1 : p_hooks s1 u = p_hooks s u).
      { subst s1. destruct (root_id id_of v) as [v0|] eqn:Ev; [|reflexivity].
        rewrite hooks_set_parent, hupd_other; [reflexivity|].
        destruct v as [|cv vl xv av vr]; [discriminate|]. cbn in Ev. injection Ev as <-. subst u. ni Nd. }
      rewrite E1. unfold with_parent, with_right. cbn. rewrite U2, U4 by discriminate. reflexivity. }
    assert (Hn5 : p_hooks s5 n = mkHook (cpar id_of ctx) (Some u) (root_id id_of y) (h_pred (p_hooks s n)) (h_succ (p_hooks s n)) (Some cn)).
    { subst s5. rewrite hooks_set_parent, hupd_same, hooks_set_left, hupd_same.
      rewrite hooks_set_parent, hooks_set_right, !hupd_other by (intros E0; apply Hun; symmetry; exact E0).
      assert (E1 : p_hooks s1 n = p_hooks s n).
      { subst s1. destruct (root_id id_of v) as [v0|] eqn:Ev; [|reflexivity].
        rewrite hooks_set_parent, hupd_other; [reflexivity|].
        destruct v as [|cv vl xv av vr]; [discriminate|]. cbn in Ev. injection Ev as <-. subst n. ni Nd. }
      rewrite E1. unfold with_parent, with_left. cbn. rewrite N3, N4 by discriminate. reflexivity. }
    assert (P5 : ps_same (p_hooks s) (p_hooks s5)).
    { subst s5. eapply ps_trans; [|apply ps_set_parent]. eapply ps_trans; [|apply ps_set_left].
      eapply ps_trans; [|apply ps_set_parent]. eapply ps_trans; [|apply ps_set_right].
      subst s1. destruct (root_id id_of v); [apply ps_set_parent|apply ps_refl]. }
    (* subtrees *)
    assert (Txl : tinv id_of None (p_hooks s5) xl (Some u)).
    { apply (tinv_ext _ id_of None (p_hooks s)); [|exact Bxl]. intros j Hj. apply F5.
      - subst u. ni Nd. - subst n. ni Nd.
      - destruct v as [|cv vl xv av vr]; [discriminate|]. cbn. intros E0. injection E0 as E0. subst j. nix Nd (id_of xv). }
    assert (Ty : tinv id_of None (p_hooks s5) y (Some n)).
    { apply (tinv_ext _ id_of None (p_hooks s)); [|exact By]. intros j Hj. apply F5.
      - subst u. ni Nd. - subst n. ni Nd.
      - destruct v as [|cv vl xv av vr]; [discriminate|]. cbn. intros E0. injection E0 as E0. subst j. nix Nd (id_of xv). }
    assert (Tv : tinv id_of None (p_hooks s5) v (Some u)).
    { destruct v as [|cv vl xv av vr]; [exact I|]. cbn [tinv] in Bv |- *.
      destruct Bv as ((V1 & V2 & V3 & V4) & Bvl & Bvr).
      assert (Hv5 : p_hooks s5 (id_of xv) = with_parent (p_hooks s (id_of xv)) (Some u)).
      { subst s5. rewrite hooks_set_parent, hooks_set_left, hooks_set_parent, hooks_set_right.
        rewrite !hupd_other; [subst s1; cbn [root_id]; rewrite hooks_set_parent, hupd_same; reflexivity| | | |];
          subst u n; ni Nd. }
      rewrite Hv5. cbn. split; [repeat split; assumption|].
      split; (eapply (tinv_ext _ id_of None (p_hooks s)); [|eassumption]); intros j Hj; apply F5; cbn [root_id];
        subst u n; ni Nd. }
    (* the context: the parent slot *)
    assert (Hc5 : cinv id_of None (p_hooks s5) ctx (Some u)).
    { apply (cinv_ext _ id_of None (p_hooks s)); [|exact Bc]. unfold cids. intros j Hj. apply F5.
      - subst u. ni Nd. - subst n. ni Nd.
      - destruct v as [|cv vl xv av vr]; [discriminate|]. cbn. intros E0. injection E0 as E0. subst j. nix Nd (id_of xv). }
    assert (Hu : In u (ids (T cu xl xu a1 (T cn v xn a2 y)))).
    { cbn [inorder]. rewrite map_app, in_app_iff. right. left. reflexivity. }
    pose proof (slot_code ctx _ u 496 s5 (Some n) Nd0 Hu Hc5) as E6.
    destruct (set_slot_props ctx _ s5 (Some u) (Some n) Nd0 Hc5 (eq_trans R5 A)) as (R6 & C6 & F6 & P6 & _).
    set (s6 := set_slot s5 ctx (Some n)) in *.
    fold s1. fold s5. unfold get_left, get_right in E6. rewrite E6. cbn [pbind].
    eexists. split; [reflexivity|].
    destruct (aggregate_node_hooks (aggregate_node agg aeqb ek s6 u) n) as [-> ->].
    destruct (aggregate_node_hooks s6 u) as [-> ->].
    assert (Nsub : forall j, In j (ids xl) \/ j = u \/ In j (ids v) \/ j = n \/ In j (ids y) -> ~ In j (cids id_of ctx)).
    { intros j Hj. unfold cids. subst u n. destruct Hj as [Hj|[->|[Hj|[->|Hj]]]]; ni Nd. }
    split; [|eapply ps_trans; [exact P5|exact P6]].
    split; [rewrite root_plug; exact R6|]. split.
    - apply tinv_plug. cbn [tinv root_id]. split; [|exact C6].
      rewrite !F6 by (apply Nsub; tauto). fold u. fold n. rewrite Hu5, Hn5. cbn.
      split; [repeat split; reflexivity|]. split; [split; [repeat split; reflexivity|]|].
      + split; (eapply tinv_ext; [|eassumption]); intros j Hj; apply F6, Nsub; tauto.
      + eapply tinv_ext; [|exact Ty]. intros j Hj. apply F6, Nsub. tauto.
    - rewrite ids_plug, Eids. intros j Hj. specialize (D j Hj).
      repeat (progress (rewrite ?map_app, ?in_app_iff in Hj; cbn [map In inorder] in Hj)).
      rewrite F6 by (unfold cids; rewrite in_app_iff; tauto).
      rewrite F5; [exact D| | |].
      + intros ->. apply Hj. fold u. tauto.
      + intros ->. apply Hj. fold n. tauto.
      + destruct v as [|cv vl xv av vr]; [discriminate|]. cbn. intros E0. injection E0 as <-. apply Hj.
        repeat (progress (rewrite ?map_app, ?in_app_iff; cbn [map In inorder])). tauto.
  Qed.

  Theorem rotateLeft_ok ctx cu xl xu a1 cn v xn a2 y (s : pstate) :
    NoDup (ids (plug ctx (T cu xl xu a1 (T cn v xn a2 y)))) ->
    reprs None s (plug ctx (T cu xl xu a1 (T cn v xn a2 y))) ->
    exists s', rotateLeft agg aeqb ek s (id_of xn) = POk s'
               /\ reprs None s' (plug ctx (T cn (T cu xl xu tt v) xn tt y)).
  Proof.
    intros Nd H. apply reprS_split in H. destruct H as [Ht Hl].
    destruct (rotateLeft_t ctx cu xl xu a1 cn v xn a2 y s Nd Ht) as (s' & E & Ht' & Hp).
    exists s'. split; [exact E|]. apply reprS_split. split; [exact Ht'|].
    assert (Eids : ids (plug ctx (T cn (T cu xl xu tt v) xn tt y)) = ids (plug ctx (T cu xl xu a1 (T cn v xn a2 y)))).
    { rewrite !ids_plug. cbn [inorder]. rewrite <- app_assoc. reflexivity. }
    rewrite Eids. revert Hl. apply listS_ps. exact Hp.
  Qed.

  (* ---- rotateRight(n): n = left child of u *)
  Theorem rotateRight_t ctx cu xl xu a1 cn v xn a2 y (s : pstate) :
    NoDup (ids (plug ctx (T cu (T cn y xn a2 v) xu a1 xl))) ->
    treeSs None s (plug ctx (T cu (T cn y xn a2 v) xu a1 xl)) ->
    exists s', rotateRight agg aeqb ek s (id_of xn) = POk s'
               /\ treeSs None s' (plug ctx (T cn y xn tt (T cu v xu tt xl)))
               /\ ps_same (p_hooks s) (p_hooks s').
  Proof.
    intros Nd (A & B & D). unfold treeSs, treeS.
    assert (Eids : ids (T cn y xn tt (T cu v xu tt xl)) = ids (T cu (T cn y xn a2 v) xu a1 xl)).
    { cbn [inorder]. rewrite <- app_assoc. reflexivity. }
    rewrite ids_plug in Nd, D. pose proof Nd as Nd0. cbn [inorder] in Nd.
    apply tinv_plug in B. destruct B as [Bs Bc]. cbn [tinv root_id] in Bs.
    destruct Bs as ((U1 & U2 & U3 & U4) & ((N1 & N2 & N3 & N4) & By & Bv) & Bxl).
    rewrite root_plug in A. cbn [root_id] in A.
    set (u := id_of xu) in *. set (n := id_of xn) in *.
    assert (Hun : u <> n) by (subst u n; ni Nd).
    unfold rotateRight, get_parent, get_right, get_left. rewrite N1, U2. cbn [oeqb]. rewrite N.eqb_refl. cbn [negb].
    rewrite N3, U1. cbv zeta.
    (* the five assignments inside the subtree *)
    set (s1 := match root_id id_of v with Some v' => set_parent s v' (Some u) | None => s end).
    set (s5 := set_parent (set_right (set_parent (set_left s1 u (root_id id_of v)) u (Some n)) n (Some u)) n (cpar id_of ctx)).
    assert (R5 : p_root s5 = p_root s) by (subst s5 s1; destruct (root_id id_of v); reflexivity).
    (* what the five assignments leave untouched *)
    assert (F5 : forall j, j <> u -> j <> n -> root_id id_of v <> Some j -> p_hooks s5 j = p_hooks s j).
    { intros j J1 J2 J3. subst s5. rewrite hooks_set_parent, hooks_set_right, hooks_set_parent, hooks_set_left.
      rewrite !hupd_other by assumption. subst s1. destruct (root_id id_of v) as [v0|]; [|reflexivity].
      rewrite hooks_set_parent, hupd_other; [reflexivity|]. intros ->. apply J3. reflexivity. }
    assert (Hu5 : p_hooks s5 u = mkHook (Some n) (root_id id_of v) (root_id id_of xl) (h_pred (p_hooks s u)) (h_succ (p_hooks s u)) (Some cu)).
    { subst s5. rewrite hooks_set_parent, hooks_set_right, !hupd_other by assumption.
      rewrite hooks_set_parent, hupd_same, hooks_set_left, hupd_same.
      assert (E1 : p_hooks s1 u = p_hooks s u).
      { subst s1. destruct (root_id id_of v) as [v0|] eqn:Ev; [|reflexivity].
        rewrite hooks_set_parent, hupd_other; [reflexivity|].
        destruct v as [|cv vl xv av vr]; [discriminate|]. cbn in Ev. injection Ev as <-. subst u. ni Nd. }
      rewrite E1. unfold with_parent, with_left. cbn. rewrite U3, U4 by discriminate. reflexivity. }
    assert (Hn5 : p_hooks s5 n = mkHook (cpar id_of ctx) (root_id id_of y) (Some u) (h_pred (p_hooks s n)) (h_succ (p_hooks s n)) (Some cn)).
    { subst s5. rewrite hooks_set_parent, hupd_same, hooks_set_right, hupd_same.
      rewrite hooks_set_parent, hooks_set_left, !hupd_other by (intros E0; apply Hun; symmetry; exact E0).
      assert (E1 : p_hooks s1 n = p_hooks s n).
      { subst s1. destruct (root_id id_of v) as [v0|] eqn:Ev; [|reflexivity].
        rewrite hooks_set_parent, hupd_other; [reflexivity|].
        destruct v as [|cv vl xv av vr]; [discriminate|]. cbn in Ev. injection Ev as <-. subst n. ni Nd. }
      rewrite E1. unfold with_parent, with_right. cbn. rewrite N2, N4 by discriminate. reflexivity. }
    assert (P5 : ps_same (p_hooks s) (p_hooks s5)).
    { subst s5. eapply ps_trans; [|apply ps_set_parent]. eapply ps_trans; [|apply ps_set_right].
      eapply ps_trans; [|apply ps_set_parent]. eapply ps_trans; [|apply ps_set_left].
      subst s1. destruct (root_id id_of v); [apply ps_set_parent|apply ps_refl]. }
    (* subtrees *)
    assert (Txl : tinv id_of None (p_hooks s5) xl (Some u)).
    { apply (tinv_ext _ id_of None (p_hooks s)); [|exact Bxl]. intros j Hj. apply F5.
      - subst u. ni Nd. - subst n. ni Nd.
      - destruct v as [|cv vl xv av vr]; [discriminate|]. cbn. intros E0. injection E0 as E0. subst j. nix Nd (id_of xv). }
    assert (Ty : tinv id_of None (p_hooks s5) y (Some n)).
    { apply (tinv_ext _ id_of None (p_hooks s)); [|exact By]. intros j Hj. apply F5.
      - subst u. ni Nd. - subst n. ni Nd.
      - destruct v as [|cv vl xv av vr]; [discriminate|]. cbn. intros E0. injection E0 as E0. subst j. nix Nd (id_of xv). }
    assert (Tv : tinv id_of None (p_hooks s5) v (Some u)).
    { destruct v as [|cv vl xv av vr]; [exact I|]. cbn [tinv] in Bv |- *.
      destruct Bv as ((V1 & V2 & V3 & V4) & Bvl & Bvr).
      assert (Hv5 : p_hooks s5 (id_of xv) = with_parent (p_hooks s (id_of xv)) (Some u)).
      { subst s5. rewrite hooks_set_parent, hooks_set_right, hooks_set_parent, hooks_set_left.
        rewrite !hupd_other; [subst s1; cbn [root_id]; rewrite hooks_set_parent, hupd_same; reflexivity| | | |];
          subst u n; ni Nd. }
      rewrite Hv5. cbn. split; [repeat split; assumption|].
      split; (eapply (tinv_ext _ id_of None (p_hooks s)); [|eassumption]); intros j Hj; apply F5; cbn [root_id];
        subst u n; ni Nd. }
    (* the context: the parent slot *)
    assert (Hc5 : cinv id_of None (p_hooks s5) ctx (Some u)).
    { apply (cinv_ext _ id_of None (p_hooks s)); [|exact Bc]. unfold cids. intros j Hj. apply F5.
      - subst u. ni Nd. - subst n. ni Nd.
      - destruct v as [|cv vl xv av vr]; [discriminate|]. cbn. intros E0. injection E0 as E0. subst j. nix Nd (id_of xv). }
    assert (Hu : In u (ids (T cu (T cn y xn a2 v) xu a1 xl))).
    { cbn [inorder]. rewrite map_app, in_app_iff. right. left. reflexivity. }
    pose proof (slot_code ctx _ u 531 s5 (Some n) Nd0 Hu Hc5) as E6.
    destruct (set_slot_props ctx _ s5 (Some u) (Some n) Nd0 Hc5 (eq_trans R5 A)) as (R6 & C6 & F6 & P6 & _).
    set (s6 := set_slot s5 ctx (Some n)) in *.
    fold s1. fold s5. unfold get_left, get_right in E6. rewrite E6. cbn [pbind].
    eexists. split; [reflexivity|].
    destruct (aggregate_node_hooks (aggregate_node agg aeqb ek s6 u) n) as [-> ->].
    destruct (aggregate_node_hooks s6 u) as [-> ->].
    assert (Nsub : forall j, In j (ids xl) \/ j = u \/ In j (ids v) \/ j = n \/ In j (ids y) -> ~ In j (cids id_of ctx)).
    { intros j Hj. unfold cids. subst u n. destruct Hj as [Hj|[->|[Hj|[->|Hj]]]]; ni Nd. }
    split; [|eapply ps_trans; [exact P5|exact P6]].
    split; [rewrite root_plug; exact R6|]. split.
    - apply tinv_plug. cbn [tinv root_id]. split; [|exact C6].
      rewrite !F6 by (apply Nsub; tauto). fold u. fold n. rewrite Hu5, Hn5. cbn.
      split; [repeat split; reflexivity|]. split; [|split; [repeat split; reflexivity|]].
      + eapply tinv_ext; [|exact Ty]. intros j Hj. apply F6, Nsub. tauto.
      + split; (eapply tinv_ext; [|eassumption]); intros j Hj; apply F6, Nsub; tauto.
    - rewrite ids_plug, Eids. intros j Hj. specialize (D j Hj).
      repeat (progress (rewrite ?map_app, ?in_app_iff in Hj; cbn [map In inorder] in Hj)).
      rewrite F6 by (unfold cids; rewrite in_app_iff; tauto).
      rewrite F5; [exact D| | |].
      + intros ->. apply Hj. fold u. tauto.
      + intros ->. apply Hj. fold n. tauto.
      + destruct v as [|cv vl xv av vr]; [discriminate|]. cbn. intros E0. injection E0 as <-. apply Hj.
        repeat (progress (rewrite ?map_app, ?in_app_iff; cbn [map In inorder])). tauto.
  Qed.

  Theorem rotateRight_ok ctx cu xl xu a1 cn v xn a2 y (s : pstate) :
    NoDup (ids (plug ctx (T cu (T cn y xn a2 v) xu a1 xl))) ->
    reprs None s (plug ctx (T cu (T cn y xn a2 v) xu a1 xl)) ->
    exists s', rotateRight agg aeqb ek s (id_of xn) = POk s'
               /\ reprs None s' (plug ctx (T cn y xn tt (T cu v xu tt xl))).
  Proof.
    intros Nd H. apply reprS_split in H. destruct H as [Ht Hl].
    destruct (rotateRight_t ctx cu xl xu a1 cn v xn a2 y s Nd Ht) as (s' & E & Ht' & Hp).
    exists s'. split; [exact E|]. apply reprS_split. split; [exact Ht'|].
    assert (Eids : ids (plug ctx (T cn y xn tt (T cu v xu tt xl))) = ids (plug ctx (T cu (T cn y xn a2 v) xu a1 xl))).
    { rewrite !ids_plug. cbn [inorder]. rewrite <- app_assoc. reflexivity. }
    rewrite Eids. revert Hl. apply listS_ps. exact Hp.
  Qed.
End Rot.
