(* RbPtrInterval.v — frg::interval_tree on the pointer-level model of rbtree.hpp (Rb/RbPtr.v), instance
   element = (lower, upper, id), annotation = interval_hook::subtree_max, aggregator = [iagg] / [N.eqb]:

   * [p_iinsert] = interval_tree::insert (FRG_ASSERT(lower <= upper); subtree_max = upper; _rbtree.insert),
     [p_iremove] = interval_tree::remove, [p_ovl] / [p_for_overlaps] = _for_overlaps_in_subtree / for_overlaps
     transliterated on the heap (reads get_left / get_right / h(left)->subtree_max; fuel for the recursion);
   * [iagg] is invariant under rotation and N.eqb reflects equality ([iagg_ok]), so the annotation theorems of
     RbPtrRefineTop / RbPtrHistory apply: after any history the subtree_max FIELDS of the heap are those of the functional
     model ([p_irun_refines]), and the search on the heap reports exactly what the functional [ovl] reports
     ([p_for_overlaps_exact]). *)
From Coq Require Import NArith List Bool Lia PeanoNat.
From FV Require Import Rb.RbModel Rb.RbInorder Rb.RbInvariant Rb.RbLayout Rb.RbHistory Rb.RbAnnot Rb.RbPtr Rb.RbPtrBase
  Rb.RbPtrRefineRot Rb.RbPtrAnnot Rb.RbPtrRefineTop Rb.RbPtrHistory Interval.IntervalModel Interval.IntervalProofs.
Import ListNotations.
Local Open Scope N_scope.

Lemma if_ltb_max m a : (if m <? a then a else m) = N.max m a.
Proof. destruct (N.ltb_spec m a); lia. Qed.
Lemma iagg_ok : agg_ok iagg N.eqb.
Proof.
  split; [intros a b; apply N.eqb_eq|].
  intros u n A B C. unfold iagg. destruct A as [a|], B as [b|], C as [c|]; rewrite ?if_ltb_max; lia.
Qed.

Notation ipstate := (pstate N).

(* ---- interval_tree::insert / remove *)
Definition p_iinsert (fuel : nat) (s : ipstate) (ek : N -> ielt) (x : ielt) : pres ipstate :=
  if ilo x <=? ihi x then                                           (* FRG_ASSERT(lower(node) <= upper(node)); *)
    let s := set_annot s (iid x) (ihi x) in                         (* h(node)->subtree_max = upper(node); *)
    p_insert iless iagg N.eqb ek fuel s (iid x)                     (* _rbtree.insert(node); *)
  else PAssert 73.
Definition p_iremove (fuel : nat) (s : ipstate) (ek : N -> ielt) (i : N) : pres ipstate :=
  p_remove iagg N.eqb ek fuel s i.

Definition p_istep (fuel : nat) (st : pres (ipstate * (N -> ielt))) (o : op ielt) : pres (ipstate * (N -> ielt)) :=
  match st with
  | POk (s, ek) =>
      match o with
      | OIns x =>
          let ek' := set_key ielt iid ek x in
          match p_iinsert fuel s ek' x with
          | POk s' => POk (s', ek')
          | PAssert l => PAssert l | PUB l => PUB l | POutOfFuel => POutOfFuel
          end
      | ORem i =>
          match p_iremove fuel s ek i with
          | POk s' => POk (s', ek)
          | PAssert l => PAssert l | PUB l => PUB l | POutOfFuel => POutOfFuel
          end
      end
  | PAssert l => PAssert l | PUB l => PUB l | POutOfFuel => POutOfFuel
  end.
Definition p_irun (fuel : nat) (ops : list (op ielt)) : pres (ipstate * (N -> ielt)) :=
  fold_left (p_istep fuel) ops (POk (p_empty 0, fun i => mkI 0 0 i)).

(* ---- _for_overlaps_in_subtree(fn, lb, ub, node): the ids passed to fn in call order, and the result *)
Fixpoint p_ovl (fuel : nat) (s : ipstate) (ek : N -> ielt) (lb ub : N) (node : N) : pres (list N * bool) :=
  match fuel with
  | O => POutOfFuel
  | S k =>
      let left := get_left s node in
      let right := get_right s node in
      if hit lb ub (ek node) then
        LET ol <- match left with Some l => LET r <- p_ovl k s ek lb ub l IN POk (fst r) | None => POk [] end IN
        LET orr <- match right with Some r => LET q <- p_ovl k s ek lb ub r IN POk (fst q) | None => POk [] end IN
        POk (node :: ol ++ orr, true)
      else
        match left with
        | Some l =>
            if lb <=? p_annots s l then                                 (* left && lb <= h(left)->subtree_max *)
              LET pl <- p_ovl k s ek lb ub l IN
              if snd pl then
                LET orr <- match right with Some r => LET q <- p_ovl k s ek lb ub r IN POk (fst q) | None => POk [] end IN
                POk (fst pl ++ orr, true)
              else POk (fst pl, false)
            else
              match right with
              | Some r => LET q <- p_ovl k s ek lb ub r IN POk (fst q, snd q)
              | None => POk ([], false)
              end
        | None =>
            match right with
            | Some r => LET q <- p_ovl k s ek lb ub r IN POk (fst q, snd q)
            | None => POk ([], false)
            end
        end
  end.
Definition p_for_overlaps (fuel : nat) (s : ipstate) (ek : N -> ielt) (lb ub : N) : pres (list N) :=
  match p_root s with
  | None => POk []
  | Some r => LET p <- p_ovl fuel s ek lb ub r IN POk (fst p)
  end.

(* ---- what the search reads, for a subtree of the represented tree *)
Fixpoint sub_ok (s : ipstate) (ek : N -> ielt) (t : itree) : Prop :=
  match t with
  | E => True
  | T _ l x a r =>
      get_left s (iid x) = root_id iid l /\ get_right s (iid x) = root_id iid r /\ ek (iid x) = x /\ p_annots s (iid x) = a
      /\ sub_ok s ek l /\ sub_ok s ek r
  end.

Lemma sub_ok_of_repr (s : ipstate) ek sk : forall (t : itree) par,
  tinv iid sk (p_hooks s) (strip t) par -> areq iid (p_annots s) t -> (forall y, In y (inorder t) -> ek (iid y) = y) ->
  sub_ok s ek t.
Proof.
  induction t as [|c l IHl x a r IHr]; intros par Ht Ha Hk; cbn [sub_ok]; [exact I|].
  cbn [strip tinv areq] in Ht, Ha. destruct Ht as ((_ & L & R & _) & Tl & Tr). destruct Ha as (Ea & Al & Ar).
  rewrite !root_id_strip in *. unfold get_left, get_right.
  split; [exact L|]. split; [exact R|]. split; [apply Hk; cbn [inorder]; rewrite in_app_iff; cbn; tauto|]. split; [exact Ea|].
  split; [eapply IHl|eapply IHr]; eauto; intros y Hy; apply Hk; cbn [inorder]; rewrite in_app_iff; cbn [In]; tauto.
Qed.

Lemma p_ovl_exact (s : ipstate) ek lb ub : forall (t : itree) fuel c l x a r,
  t = T c l x a r -> sub_ok s ek t -> (height t <= fuel)%nat ->
  p_ovl fuel s ek lb ub (iid x) = POk (map iid (fst (ovl lb ub t)), snd (ovl lb ub t)).
Proof.
  induction t as [|c0 l0 IHl x0 a0 r0 IHr]; intros fuel c l x a r Et Hs Hf; [discriminate|].
  injection Et as -> -> -> -> ->. cbn [sub_ok] in Hs. destruct Hs as (L & R & K & A & Sl & Sr).
  cbn [height] in Hf. destruct fuel as [|k]; [lia|]. cbn [p_ovl ovl]. rewrite L, R, K.
  assert (Gl : forall cl ll xl al rl, l = T cl ll xl al rl ->
             p_ovl k s ek lb ub (iid xl) = POk (map iid (fst (ovl lb ub l)), snd (ovl lb ub l))).
  { intros cl ll xl al rl El. apply (IHl k cl ll xl al rl El Sl). lia. }
  assert (Gr : forall cr lr xr ar rr, r = T cr lr xr ar rr ->
             p_ovl k s ek lb ub (iid xr) = POk (map iid (fst (ovl lb ub r)), snd (ovl lb ub r))).
  { intros cr lr xr ar rr Er. apply (IHr k cr lr xr ar rr Er Sr). lia. }
  assert (Al : forall cl ll xl al rl, l = T cl ll xl al rl -> p_annots s (iid xl) = al).
  { intros cl ll xl al rl ->. cbn [sub_ok] in Sl. tauto. }
  destruct (hit lb ub x).
  - (* self, left, right *)
    destruct l as [|cl ll xl al rl]; destruct r as [|cr lr xr ar rr]; cbn [root_id nonnull pbind];
      rewrite ?(Gl _ _ _ _ _ eq_refl), ?(Gr _ _ _ _ _ eq_refl); cbn [pbind fst snd map app];
      rewrite ?map_app, ?app_nil_r; reflexivity.
  - destruct l as [|cl ll xl al rl]; cbn [root_id].
    + destruct r as [|cr lr xr ar rr]; cbn [root_id nonnull]; [reflexivity|].
      rewrite (Gr _ _ _ _ _ eq_refl). cbn [pbind]. destruct (ovl lb ub (T cr lr xr ar rr)) as [orr [|]]; reflexivity.
    + rewrite (Al _ _ _ _ _ eq_refl).
      destruct (lb <=? al).
      * rewrite (Gl _ _ _ _ _ eq_refl). cbn [pbind fst snd].
        destruct (ovl lb ub (T cl ll xl al rl)) as [ol [|]]; cbn [fst snd]; [|reflexivity].
        destruct r as [|cr lr xr ar rr]; cbn [root_id nonnull pbind]; [rewrite ?map_app, ?app_nil_r; cbn [map]; rewrite ?app_nil_r; reflexivity|].
        rewrite (Gr _ _ _ _ _ eq_refl). cbn [pbind fst]. rewrite map_app. reflexivity.
      * destruct r as [|cr lr xr ar rr]; cbn [root_id nonnull]; [reflexivity|].
        rewrite (Gr _ _ _ _ _ eq_refl). cbn [pbind]. destruct (ovl lb ub (T cr lr xr ar rr)) as [orr [|]]; reflexivity.
Qed.

(* for_overlaps on a heap that represents t (links, keys, subtree_max fields) = the functional for_overlaps *)
Theorem p_for_overlaps_exact (s : ipstate) ek (t : itree) lb ub fuel :
  NoDup (map iid (inorder t)) -> repr_a ielt N iid s t -> keys_ok ielt N iid ek t -> (height t <= fuel)%nat ->
  p_for_overlaps fuel s ek lb ub = POk (for_overlaps lb ub t).
Proof.
  intros Nd [Hrep Ha] Hk Hf. pose proof Hrep as [Hr _]. unfold p_for_overlaps, for_overlaps, for_overlaps_nodes. rewrite Hr.
  destruct t as [|c l x a r]; [reflexivity|]. cbn [root_id].
  assert (Hs : sub_ok s ek (T c l x a r)).
  { apply (sub_ok_of_repr s ek None _ None); [|exact Ha|exact Hk].
    apply (repr_reprS ielt N iid s _ Nd) in Hrep. destruct Hrep as (_ & B & _). exact B. }
  rewrite (p_ovl_exact s ek lb ub (T c l x a r) fuel c l x a r eq_refl Hs Hf). reflexivity.
Qed.

(* ---- histories *)
Theorem p_irun_refines (ops : list (op ielt)) (t : itree) (fuel : nat) :
  ids_fresh iid iless ops -> irun ops = Some t -> (2 * Nat.log2 (length ops + 1) + 2 < fuel)%nat ->
  exists s' ek', p_irun fuel ops = POk (s', ek')
                 /\ repr_a ielt N iid s' t /\ keys_ok ielt N iid ek' t /\ NoDup (map iid (inorder t)).
Proof.
  intros Hfresh Hrun Hf. unfold irun in Hrun.
  pose proof (irun_some_wf _ _ _ Hrun) as Hw. pose proof (irun_rb ops E Hw) as R.
  assert (t = fold_left (rb_step iid iless iagg) ops E) as -> by (unfold itree in *; congruence). clear R Hrun.
  assert (Hok : tops_ok ielt N iid iless iagg E ops).
  { apply (ops_ok_tops ielt N iid iless iagg iless_asym iless_negtrans ops E []); [reflexivity|constructor|constructor|exact Hfresh]. }
  (* p_irun = p_run, because the assertion holds and the pre-set subtree_max field belongs to a non-member *)
  assert (G : forall ops (t0 : itree) (s : ipstate) ek, Forall op_wf ops ->
            tops_ok ielt N iid iless iagg t0 ops -> rb t0 -> NoDup (map iid (inorder t0)) -> ann_ok iagg t0 ->
            keys_ok ielt N iid ek t0 -> repr_a ielt N iid s t0 ->
            (2 * Nat.log2 (length ops + size t0 + 1) + 2 < fuel)%nat ->
            exists s' ek', fold_left (p_istep fuel) ops (POk (s, ek)) = POk (s', ek')
                           /\ repr_a ielt N iid s' (fold_left (rb_step iid iless iagg) ops t0)
                           /\ keys_ok ielt N iid ek' (fold_left (rb_step iid iless iagg) ops t0)
                           /\ NoDup (map iid (inorder (fold_left (rb_step iid iless iagg) ops t0)))).
  { clear. induction ops as [|o ops IH]; intros t0 s ek Hw Hok Hrb Nd Oa Hk H Hf; cbn [fold_left].
    - exists s, ek. auto.
    - inversion Hw as [|? ? Ho Hw']; subst. cbn [tops_ok] in Hok. destruct Hok as [Hv Hok]. cbn [length] in Hf.
      pose proof (rb_height ielt N t0 Hrb) as Hh.
      assert (Hlog : (Nat.log2 (size t0 + 1) <= Nat.log2 (S (length ops) + size t0 + 1))%nat) by (apply Nat.log2_le_mono; lia).
      destruct o as [x|i]; cbn [p_istep rb_step op_wf] in *.
      + unfold p_iinsert. unfold wf in Ho. destruct (N.leb_spec (ilo x) (ihi x)) as [_|Hc]; [|lia].
        assert (Hk' : keys_ok ielt N iid (set_key ielt iid ek x) t0).
        { intros y Hy. unfold set_key. destruct (N.eqb_spec (iid y) (iid x)) as [E0|_]; [|apply Hk, Hy].
          exfalso. apply Hv. rewrite <- E0. apply in_map, Hy. }
        assert (Hx' : set_key ielt iid ek x (iid x) = x) by (unfold set_key; rewrite N.eqb_refl; reflexivity).
        assert (H1 : repr_a ielt N iid (set_annot s (iid x) (ihi x)) t0).
        { destruct H as [Hr Ha]. split; [exact Hr|]. cbn [p_annots set_annot].
          clear -Ha Hv. induction t0 as [|c l IHl y a r IHr]; cbn [areq] in *; [exact I|].
          cbn [inorder] in Hv. rewrite map_app, in_app_iff in Hv. cbn [map In] in Hv. destruct Ha as (A1 & A2 & A3).
          split; [destruct (N.eqb_spec (iid y) (iid x)) as [E0|]; [exfalso; tauto|exact A1]|]. split; [apply IHl|apply IHr]; tauto. }
        destruct (p_insert_refines_a ielt N iid iless iagg N.eqb (set_key ielt iid ek x) x t0 (set_annot s (iid x) (ihi x)) fuel iagg_ok Oa) as (s1 & E1 & R1 & N1);
          try assumption; [constructor; assumption|lia|].
        rewrite E1.
        pose proof (size_insert ielt N iid iless iagg x t0 Nd Hv N1) as Hsz.
        destruct (IH (insert iless iagg x t0) s1 (set_key ielt iid ek x) Hw' Hok) as (s' & ek' & E' & R');
          [apply insert_rb, Hrb|exact N1|apply (insert_ann _ _ iid), Oa| |exact R1| |].
        * intros y Hy. apply (insert_elems ielt N iid iless iagg) in Hy. destruct Hy as [->|Hy]; [exact Hx'|apply Hk', Hy].
        * rewrite Hsz. replace (length ops + S (size t0) + 1)%nat with (S (length ops) + size t0 + 1)%nat by lia. exact Hf.
        * exists s', ek'. auto.
      + unfold p_iremove.
        destruct (p_remove_refines_a ielt N iid iless iagg N.eqb ek i t0 s fuel iagg_ok Oa Hk Nd Hrb Hv H) as (s1 & E1 & R1 & N1); [lia|].
        rewrite E1.
        pose proof (size_remove ielt N iid iagg i t0 Nd) as Hsz.
        destruct (IH (remove iid iagg i t0) s1 ek Hw' Hok) as (s' & ek' & E' & R');
          [apply remove_rb, Hrb|exact N1|apply (remove_ann _ _ iid iless), Oa| |exact R1| |].
        * intros y Hy. apply Hk. rewrite (inorder_remove ielt N iid iagg i t0 Nd) in Hy. apply filter_In in Hy. tauto.
        * assert ((Nat.log2 (length ops + size (remove iid iagg i t0) + 1) <= Nat.log2 (S (length ops) + size t0 + 1))%nat)
            by (apply Nat.log2_le_mono; lia). lia.
        * exists s', ek'. auto. }
  unfold p_irun. apply (G ops E (p_empty 0) _ Hw Hok (rb_E_ok ielt N) (NoDup_nil _) I).
  - intros y [].
  - split; [apply repr_empty|exact I].
  - cbn [size]. replace (length ops + 0 + 1)%nat with (length ops + 1)%nat by lia. exact Hf.
Qed.
