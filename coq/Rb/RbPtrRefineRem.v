(* RbPtrRefineRem.v — refinement (e), first half: the loop fix_remove of rbtree.hpp only touches parent / left / right /
   colour; run at a black node n on a heap whose TREE PART represents [plug ctx N] (N rooted at n) it leaves the tree part
   of [plug (rem_ctx ctx) N] — the context the functional balL / balR chain produces — within [length ctx + 1]
   iterations, provided the siblings on the way exist as the black-height invariant guarantees ([rem_ok]).
   The predecessor / successor fields are not touched ([ps_same]). *)
From Coq Require Import NArith List Bool Lia PeanoNat.
From FV Require Import Rb.RbModel Rb.RbLayout Rb.RbPtr Rb.RbPtrBase Rb.RbPtrRefineRot Rb.RbPtrRefineFix Rb.RbPtrRemF.
Import ListNotations.

Section Rem.
  Variables elt annot : Type.
  Variable id_of : elt -> N.
  Variable agg : elt -> option annot -> option annot -> annot.
  Variable aeqb : annot -> annot -> bool.
  Variable ek : N -> elt.
  Notation tree := (tree elt unit).
  Notation frame := (frame elt).
  Notation ids t := (map id_of (inorder t)).
  Notation pstate := (pstate annot).
  Notation treeSs := (treeSs elt annot id_of).

  Lemma p_isBlack_root (s : pstate) t par :
    tinv id_of None (p_hooks s) t par -> p_isBlack s (root_id id_of t) = isBlack t.
  Proof.
    destruct t as [|c l x a r]; cbn [tinv root_id p_isBlack isBlack isRed]; [reflexivity|].
    intros ((_ & _ & _ & A) & _). unfold get_color. rewrite (A ltac:(discriminate)). destruct c; reflexivity.
  Qed.
  Lemma p_isRed_root' (s : pstate) t par :
    tinv id_of None (p_hooks s) t par -> p_isRed s (root_id id_of t) = isRed t.
  Proof. apply p_isRed_root. Qed.

  (* reading the fields of the focus node of a tree-part representation *)
  Lemma treeS_focus sk (s : pstate) ctx c l x a r :
    treeSs sk s (plug ctx (T c l x a r)) ->
    node_ok sk (p_hooks s (id_of x)) (id_of x) (cpar id_of ctx) (root_id id_of l) (root_id id_of r) c
    /\ tinv id_of sk (p_hooks s) l (Some (id_of x)) /\ tinv id_of sk (p_hooks s) r (Some (id_of x))
    /\ cinv id_of sk (p_hooks s) ctx (Some (id_of x)).
  Proof. intros (A & B & _). apply tinv_plug in B. cbn [tinv root_id] in B. tauto. Qed.

  (* ---- the sibling of n is made black: n is the LEFT child *)
  Lemma sibling_L_black ctx1 c p a' z az b' nl xn an nr (s : pstate) :
    treeSs None s (plug (FL c p (T Black a' z az b') :: ctx1) (T Black nl xn an nr)) ->
    fix_remove_sibling agg aeqb ek s (id_of xn) (id_of p) = POk (s, id_of z).
  Proof.
    intros H. cbn [plug fill] in H.
    destruct (treeS_focus _ _ _ _ _ _ _ _ H) as ((P1 & P2 & P3 & P4) & Tn & Ts & _).
    cbn [tinv root_id] in Ts. destruct Ts as ((Z1 & Z2 & Z3 & Z4) & _).
    unfold fix_remove_sibling, get_left, get_right, get_color. cbn [root_id] in P2, P3. rewrite P2, P3.
    rewrite oeqb_refl. rewrite (Z4 ltac:(discriminate)). cbn [ceqb pbind]. rewrite P3. reflexivity.
  Qed.

  Lemma sibling_L_red ctx1 c p cz a' z az b' y ay rr nl xn an nr (s : pstate) :
    NoDup (ids (plug (FL c p (T Red (T cz a' z az b') y ay rr) :: ctx1) (T Black nl xn an nr))) ->
    treeSs None s (plug (FL c p (T Red (T cz a' z az b') y ay rr) :: ctx1) (T Black nl xn an nr)) ->
    exists s1, fix_remove_sibling agg aeqb ek s (id_of xn) (id_of p) = POk (s1, id_of z)
               /\ treeSs None s1 (plug (FL Red p (T cz a' z az b') :: FL Black y rr :: ctx1) (T Black nl xn an nr))
               /\ ps_same (p_hooks s) (p_hooks s1).
  Proof.
    intros Nd H. cbn [plug fill] in H, Nd.
    destruct (treeS_focus _ _ _ _ _ _ _ _ H) as ((P1 & P2 & P3 & P4) & Tn & Ts & _).
    cbn [tinv root_id] in Ts. destruct Ts as ((Y1 & Y2 & Y3 & Y4) & _).
    unfold fix_remove_sibling, get_left, get_right, get_color. cbn [root_id] in P2, P3. rewrite P2, P3.
    rewrite oeqb_refl. rewrite (Y4 ltac:(discriminate)). cbn [ceqb].
    destruct (rotateLeft_t _ _ id_of agg aeqb ek ctx1 c _ p tt Red _ y ay rr s Nd H) as (s1 & E1 & H1 & Q1).
    rewrite E1. cbn [pbind].
    destruct (treeS_focus _ _ _ _ _ _ _ _ H1) as (_ & Tp & _).
    cbn [tinv root_id] in Tp. destruct Tp as ((P1' & P2' & P3' & P4') & _).
    rewrite P2'. rewrite oeqb_refl. cbn [negb].
    assert (Nd1 : NoDup (ids (plug (FL Red y rr :: ctx1) (T c (T Black nl xn an nr) p tt (T cz a' z az b'))))) by (nd_from Nd).
    pose proof (set_color_t _ _ id_of None (FL Red y rr :: ctx1) c _ p tt _ s1 Red Nd1 (or_introl eq_refl) H1) as H2.
    assert (Nd2 : NoDup (ids (plug ctx1 (T Red (T Red (T Black nl xn an nr) p tt (T cz a' z az b')) y tt rr)))) by (nd_from Nd).
    pose proof (set_color_t _ _ id_of None ctx1 Red _ y tt _ _ Black Nd2 (or_introl eq_refl) H2) as H3.
    set (s2 := set_color s1 (id_of p) (Some Red)) in *. set (s3 := set_color s2 (id_of y) (Some Black)) in *.
    cbn [pbind].
    assert (Hr : h_right (p_hooks s3 (id_of p)) = Some (id_of z)).
    { destruct (treeS_focus _ _ _ _ _ _ _ _ H3) as (_ & Tp & _). cbn [tinv root_id] in Tp. unfold node_ok in Tp. tauto. }
    rewrite Hr. eexists. split; [reflexivity|]. split; [exact H3|].
    eapply ps_trans; [exact Q1|]. eapply ps_trans; [apply ps_set_color|apply ps_set_color].
  Qed.

  (* ---- the sibling is black now: recolour, or rotate a red nephew up (n is the LEFT child) *)
  Lemma rest_L again ctx2 c' p cz a' z az b' nl xn an nr (s : pstate) :
    let N := T Black nl xn an nr in
    NoDup (ids (plug (FL c' p (T cz a' z az b') :: ctx2) N)) ->
    treeSs None s (plug (FL c' p (T cz a' z az b') :: ctx2) N) ->
    (c' = Black -> isBlack a' && isBlack b' = true ->
     forall s2 : pstate, treeSs None s2 (plug ctx2 (T Black N p tt (T Red a' z tt b'))) ->
       exists s3, again s2 (id_of p) = POk s3
                  /\ treeSs None s3 (plug (rem_ctx ctx2) (T Black N p tt (T Red a' z tt b')))
                  /\ ps_same (p_hooks s2) (p_hooks s3)) ->
    exists s', fix_remove_rest agg aeqb ek again s (id_of xn) (id_of p) (id_of z) = POk s'
               /\ treeSs None s' (plug (fst (bsL_ctx c' p a' z b')
                                        ++ (if snd (bsL_ctx c' p a' z b') then rem_ctx ctx2 else ctx2)) N)
               /\ ps_same (p_hooks s) (p_hooks s').
  Proof.
    intros N Nd H Hagain. subst N. cbn [plug fill] in H, Nd.
    destruct (treeS_focus _ _ _ _ _ _ _ _ H) as ((P1 & P2 & P3 & P4) & Tn & Ts & _).
    cbn [tinv root_id] in Ts. destruct Ts as ((Z1 & Z2 & Z3 & Z4) & Ta & Tb).
    cbn [root_id] in P2, P3.
    unfold fix_remove_rest, get_left, get_right, get_color. rewrite Z2, Z3, P2, (P4 ltac:(discriminate)).
    rewrite (p_isBlack_root s a' _ Ta), (p_isBlack_root s b' _ Tb), (p_isRed_root' s a' _ Ta).
    unfold bsL_ctx. destruct (isBlack a' && isBlack b') eqn:Ebb.
    - (* both nephews black *)
      destruct c'; cbn [ceqb fst snd].
      + (* parent red: parent black, sibling red, done *)
        assert (Nd1 : NoDup (ids (plug ctx2 (T Red (T Black nl xn an nr) p tt (T cz a' z az b'))))) by exact Nd.
        pose proof (set_color_t _ _ id_of None ctx2 Red _ p tt _ s Black Nd1 (or_introl eq_refl) H) as H1.
        assert (Nd2 : NoDup (ids (plug (FR Black (T Black nl xn an nr) p :: ctx2) (T cz a' z az b')))) by (nd_from Nd).
        pose proof (set_color_t _ _ id_of None (FR Black (T Black nl xn an nr) p :: ctx2) cz a' z az b' _ Red Nd2 (or_introl eq_refl) H1) as H2.
        eexists. split; [reflexivity|]. split; [destruct az; exact H2|].
        eapply ps_trans; [apply ps_set_color|apply ps_set_color].
      + (* parent black: sibling red, continue at the parent *)
        assert (Nd2 : NoDup (ids (plug (FR Black (T Black nl xn an nr) p :: ctx2) (T cz a' z az b')))) by (nd_from Nd).
        pose proof (set_color_t _ _ id_of None (FR Black (T Black nl xn an nr) p :: ctx2) cz a' z az b' s Red Nd2 (or_introl eq_refl) H) as H1.
        cbn [plug fill] in H1. destruct az.
        destruct (Hagain eq_refl eq_refl _ H1) as (s3 & E3 & H3 & Q3).
        exists s3. split; [exact E3|]. split; [exact H3|]. eapply ps_trans; [apply ps_set_color|exact Q3].
    - rewrite oeqb_refl.
      destruct (isRed a' && isBlack b') eqn:Erb; cbn [fst snd].
      + (* near nephew red, far nephew black: rotateRight(near); then as the far case *)
        destruct a' as [|[] aa zz azz bb]; try discriminate. cbn [root_id].
        assert (Nd1 : NoDup (ids (plug (FR c' (T Black nl xn an nr) p :: ctx2) (T cz (T Red aa zz azz bb) z az b')))) by (nd_from Nd).
        destruct (rotateRight_t _ _ id_of agg aeqb ek (FR c' (T Black nl xn an nr) p :: ctx2) cz b' z az Red bb zz azz aa s Nd1 H) as (s1 & E1 & H1 & Q1).
        rewrite E1. cbn [pbind].
        assert (Nd2 : NoDup (ids (plug (FR Red aa zz :: FR c' (T Black nl xn an nr) p :: ctx2) (T cz bb z tt b')))) by (nd_from Nd).
        pose proof (set_color_t _ _ id_of None (FR Red aa zz :: FR c' (T Black nl xn an nr) p :: ctx2) cz bb z tt b' s1 Red Nd2 (or_introl eq_refl) H1) as H2.
        assert (Nd3 : NoDup (ids (plug (FR c' (T Black nl xn an nr) p :: ctx2) (T Red aa zz tt (T Red bb z tt b'))))) by (nd_from Nd).
        pose proof (set_color_t _ _ id_of None (FR c' (T Black nl xn an nr) p :: ctx2) Red aa zz tt _ _ Black Nd3 (or_introl eq_refl) H2) as H3.
        set (s2 := set_color s1 (id_of z) (Some Red)) in *. set (s3 := set_color s2 (id_of zz) (Some Black)) in *.
        cbn [pbind].
        destruct (treeS_focus _ _ _ _ _ _ _ _ H3) as ((_ & _ & R3 & _) & _ & Tr3 & _).
        unfold get_right. rewrite R3. rewrite (p_isRed_root' s3 _ _ Tr3). cbn [isRed negb root_id].
        cbn [plug fill] in H3.
        assert (Nd4 : NoDup (ids (plug ctx2 (T c' (T Black nl xn an nr) p tt (T Black aa zz tt (T Red bb z tt b')))))) by (nd_from Nd).
        destruct (rotateLeft_t _ _ id_of agg aeqb ek ctx2 c' _ p tt Black aa zz tt (T Red bb z tt b') s3 Nd4 H3) as (s4 & E4 & H4 & Q4).
        rewrite E4. cbn [pbind].
        assert (Nd5 : NoDup (ids (plug (FL Black zz (T Red bb z tt b') :: ctx2) (T c' (T Black nl xn an nr) p tt aa)))) by (nd_from Nd).
        pose proof (set_color_t _ _ id_of None (FL Black zz (T Red bb z tt b') :: ctx2) c' _ p tt aa s4 Black Nd5 (or_introl eq_refl) H4) as H5.
        assert (Nd6 : NoDup (ids (plug ctx2 (T Black (T Black (T Black nl xn an nr) p tt aa) zz tt (T Red bb z tt b'))))) by (nd_from Nd).
        pose proof (set_color_t _ _ id_of None ctx2 Black _ zz tt _ _ c' Nd6 (or_introl eq_refl) H5) as H6.
        set (s5 := set_color s4 (id_of p) (Some Black)) in *. set (s6 := set_color s5 (id_of zz) (Some c')) in *.
        destruct (treeS_focus _ _ _ _ _ _ _ _ H6) as ((_ & _ & R6 & _) & _).
        rewrite R6. cbn [root_id].
        assert (Nd7 : NoDup (ids (plug (FR c' (T Black (T Black nl xn an nr) p tt aa) zz :: ctx2) (T Red bb z tt b')))) by (nd_from Nd).
        pose proof (set_color_t _ _ id_of None (FR c' (T Black (T Black nl xn an nr) p tt aa) zz :: ctx2) Red bb z tt b' _ Black Nd7 (or_introl eq_refl) H6) as H7.
        eexists. split; [reflexivity|]. split; [exact H7|].
        eapply ps_trans; [exact Q1|]. eapply ps_trans; [apply ps_set_color|]. eapply ps_trans; [apply ps_set_color|].
        eapply ps_trans; [exact Q4|]. eapply ps_trans; [apply ps_set_color|]. eapply ps_trans; [apply ps_set_color|apply ps_set_color].
      + (* far nephew red: rotateLeft(sibling) *)
        assert (Hb : isRed b' = true).
        { unfold isBlack in *. destruct (isRed a'), (isRed b'); cbn in *; try discriminate; reflexivity. }
        destruct b' as [|[] bl xb ab br]; try discriminate.
        cbn [pbind]. unfold get_right. rewrite Z3. rewrite (p_isRed_root' s _ _ Tb). cbn [isRed negb].
        assert (Nd1 : NoDup (ids (plug ctx2 (T c' (T Black nl xn an nr) p tt (T cz a' z az (T Red bl xb ab br)))))) by exact Nd.
        destruct (rotateLeft_t _ _ id_of agg aeqb ek ctx2 c' _ p tt cz a' z az (T Red bl xb ab br) s Nd1 H) as (s1 & E1 & H1 & Q1).
        rewrite E1. cbn [pbind].
        assert (Nd2 : NoDup (ids (plug (FL cz z (T Red bl xb ab br) :: ctx2) (T c' (T Black nl xn an nr) p tt a')))) by (nd_from Nd).
        pose proof (set_color_t _ _ id_of None (FL cz z (T Red bl xb ab br) :: ctx2) c' _ p tt a' s1 Black Nd2 (or_introl eq_refl) H1) as H2.
        assert (Nd3 : NoDup (ids (plug ctx2 (T cz (T Black (T Black nl xn an nr) p tt a') z tt (T Red bl xb ab br))))) by (nd_from Nd).
        pose proof (set_color_t _ _ id_of None ctx2 cz _ z tt _ _ c' Nd3 (or_introl eq_refl) H2) as H3.
        set (s2 := set_color s1 (id_of p) (Some Black)) in *. set (s3 := set_color s2 (id_of z) (Some c')) in *.
        destruct (treeS_focus _ _ _ _ _ _ _ _ H3) as ((_ & _ & R3 & _) & _).
        rewrite R3. cbn [root_id].
        assert (Nd4 : NoDup (ids (plug (FR c' (T Black (T Black nl xn an nr) p tt a') z :: ctx2) (T Red bl xb ab br)))) by (nd_from Nd).
        pose proof (set_color_t _ _ id_of None (FR c' (T Black (T Black nl xn an nr) p tt a') z :: ctx2) Red bl xb ab br _ Black Nd4 (or_introl eq_refl) H3) as H4.
        eexists. split; [reflexivity|]. split; [exact H4|].
        eapply ps_trans; [exact Q1|]. eapply ps_trans; [apply ps_set_color|]. eapply ps_trans; [apply ps_set_color|apply ps_set_color].
  Qed.

  (* ---- the mirror image: n is the RIGHT child *)
  Lemma sibling_R_black ctx1 c p ll z az lr nl xn an nr (s : pstate) :
    NoDup (ids (plug (FR c (T Black ll z az lr) p :: ctx1) (T Black nl xn an nr))) ->
    treeSs None s (plug (FR c (T Black ll z az lr) p :: ctx1) (T Black nl xn an nr)) ->
    fix_remove_sibling agg aeqb ek s (id_of xn) (id_of p) = POk (s, id_of z).
  Proof.
    intros Nd H. cbn [plug fill] in H, Nd.
    destruct (treeS_focus _ _ _ _ _ _ _ _ H) as ((P1 & P2 & P3 & P4) & Ts & Tn & _).
    cbn [tinv root_id] in Ts. destruct Ts as ((Z1 & Z2 & Z3 & Z4) & _).
    unfold fix_remove_sibling, get_left, get_right, get_color. cbn [root_id] in P2, P3. rewrite P2, P3.
    assert (Hne : id_of z <> id_of xn) by (rewrite ids_plug in Nd; ni Nd).
    cbn [oeqb]. destruct (N.eqb_spec (id_of z) (id_of xn)) as [E0|_]; [contradiction|].
    rewrite N.eqb_refl. cbn [negb]. rewrite (Z4 ltac:(discriminate)). cbn [ceqb pbind]. rewrite P2. reflexivity.
  Qed.

  Lemma sibling_R_red ctx1 c p ll y ay cz a' z az b' nl xn an nr (s : pstate) :
    NoDup (ids (plug (FR c (T Red ll y ay (T cz a' z az b')) p :: ctx1) (T Black nl xn an nr))) ->
    treeSs None s (plug (FR c (T Red ll y ay (T cz a' z az b')) p :: ctx1) (T Black nl xn an nr)) ->
    exists s1, fix_remove_sibling agg aeqb ek s (id_of xn) (id_of p) = POk (s1, id_of z)
               /\ treeSs None s1 (plug (FR Red (T cz a' z az b') p :: FR Black ll y :: ctx1) (T Black nl xn an nr))
               /\ ps_same (p_hooks s) (p_hooks s1).
  Proof.
    intros Nd H. cbn [plug fill] in H, Nd.
    destruct (treeS_focus _ _ _ _ _ _ _ _ H) as ((P1 & P2 & P3 & P4) & Ts & Tn & _).
    cbn [tinv root_id] in Ts. destruct Ts as ((Y1 & Y2 & Y3 & Y4) & _).
    unfold fix_remove_sibling, get_left, get_right, get_color. cbn [root_id] in P2, P3. rewrite P2, P3.
    assert (Hne : id_of y <> id_of xn) by (rewrite ids_plug in Nd; ni Nd).
    cbn [oeqb]. destruct (N.eqb_spec (id_of y) (id_of xn)) as [E0|_]; [contradiction|].
    rewrite N.eqb_refl. cbn [negb]. rewrite (Y4 ltac:(discriminate)). cbn [ceqb].
    destruct (rotateRight_t _ _ id_of agg aeqb ek ctx1 c (T Black nl xn an nr) p tt Red (T cz a' z az b') y ay ll s Nd H) as (s1 & E1 & H1 & Q1).
    rewrite E1. cbn [pbind].
    destruct (treeS_focus _ _ _ _ _ _ _ _ H1) as (_ & _ & Tp & _).
    cbn [tinv root_id] in Tp. destruct Tp as ((P1' & P2' & P3' & P4') & _).
    rewrite P3'. rewrite N.eqb_refl. cbn [negb].
    assert (Nd1 : NoDup (ids (plug (FR Red ll y :: ctx1) (T c (T cz a' z az b') p tt (T Black nl xn an nr))))) by (nd_from Nd).
    pose proof (set_color_t _ _ id_of None (FR Red ll y :: ctx1) c _ p tt _ s1 Red Nd1 (or_introl eq_refl) H1) as H2.
    assert (Nd2 : NoDup (ids (plug ctx1 (T Red ll y tt (T Red (T cz a' z az b') p tt (T Black nl xn an nr)))))) by (nd_from Nd).
    pose proof (set_color_t _ _ id_of None ctx1 Red _ y tt _ _ Black Nd2 (or_introl eq_refl) H2) as H3.
    set (s2 := set_color s1 (id_of p) (Some Red)) in *. set (s3 := set_color s2 (id_of y) (Some Black)) in *.
    cbn [pbind].
    assert (Hr : h_left (p_hooks s3 (id_of p)) = Some (id_of z)).
    { destruct (treeS_focus _ _ _ _ _ _ _ _ H3) as (_ & _ & Tp & _). cbn [tinv root_id] in Tp. unfold node_ok in Tp. tauto. }
    rewrite Hr. eexists. split; [reflexivity|]. split; [exact H3|].
    eapply ps_trans; [exact Q1|]. eapply ps_trans; [apply ps_set_color|apply ps_set_color].
  Qed.

  Lemma rest_R again ctx2 c' p cz ll z az lr nl xn an nr (s : pstate) :
    let N := T Black nl xn an nr in
    NoDup (ids (plug (FR c' (T cz ll z az lr) p :: ctx2) N)) ->
    treeSs None s (plug (FR c' (T cz ll z az lr) p :: ctx2) N) ->
    (c' = Black -> isBlack ll && isBlack lr = true ->
     forall s2 : pstate, treeSs None s2 (plug ctx2 (T Black (T Red ll z tt lr) p tt N)) ->
       exists s3, again s2 (id_of p) = POk s3
                  /\ treeSs None s3 (plug (rem_ctx ctx2) (T Black (T Red ll z tt lr) p tt N))
                  /\ ps_same (p_hooks s2) (p_hooks s3)) ->
    exists s', fix_remove_rest agg aeqb ek again s (id_of xn) (id_of p) (id_of z) = POk s'
               /\ treeSs None s' (plug (fst (bsR_ctx c' ll z lr p)
                                        ++ (if snd (bsR_ctx c' ll z lr p) then rem_ctx ctx2 else ctx2)) N)
               /\ ps_same (p_hooks s) (p_hooks s').
  Proof.
    intros N Nd H Hagain. subst N. cbn [plug fill] in H, Nd.
    destruct (treeS_focus _ _ _ _ _ _ _ _ H) as ((P1 & P2 & P3 & P4) & Ts & Tn & _).
    cbn [tinv root_id] in Ts. destruct Ts as ((Z1 & Z2 & Z3 & Z4) & Tll & Tlr).
    cbn [root_id] in P2, P3.
    assert (Hne : id_of z <> id_of xn) by (rewrite ids_plug in Nd; ni Nd).
    unfold fix_remove_rest, get_left, get_right, get_color. rewrite Z2, Z3, P2, P3, (P4 ltac:(discriminate)).
    rewrite (p_isBlack_root s ll _ Tll), (p_isBlack_root s lr _ Tlr), (p_isRed_root' s lr _ Tlr).
    unfold bsR_ctx. destruct (isBlack ll && isBlack lr) eqn:Ebb.
    - destruct c'; cbn [ceqb fst snd].
      + assert (Nd1 : NoDup (ids (plug ctx2 (T Red (T cz ll z az lr) p tt (T Black nl xn an nr))))) by exact Nd.
        pose proof (set_color_t _ _ id_of None ctx2 Red _ p tt _ s Black Nd1 (or_introl eq_refl) H) as H1.
        assert (Nd2 : NoDup (ids (plug (FL Black p (T Black nl xn an nr) :: ctx2) (T cz ll z az lr)))) by (nd_from Nd).
        pose proof (set_color_t _ _ id_of None (FL Black p (T Black nl xn an nr) :: ctx2) cz ll z az lr _ Red Nd2 (or_introl eq_refl) H1) as H2.
        eexists. split; [reflexivity|]. split; [destruct az; exact H2|].
        eapply ps_trans; [apply ps_set_color|apply ps_set_color].
      + assert (Nd2 : NoDup (ids (plug (FL Black p (T Black nl xn an nr) :: ctx2) (T cz ll z az lr)))) by (nd_from Nd).
        pose proof (set_color_t _ _ id_of None (FL Black p (T Black nl xn an nr) :: ctx2) cz ll z az lr s Red Nd2 (or_introl eq_refl) H) as H1.
        cbn [plug fill] in H1. destruct az.
        destruct (Hagain eq_refl eq_refl _ H1) as (s3 & E3 & H3 & Q3).
        exists s3. split; [exact E3|]. split; [exact H3|]. eapply ps_trans; [apply ps_set_color|exact Q3].
    - cbn [oeqb]. destruct (N.eqb_spec (id_of z) (id_of xn)) as [E0|_]; [contradiction|]. rewrite N.eqb_refl. cbn [negb].
      rewrite (andb_comm (isBlack ll)) in Ebb.
      destruct (isRed lr && isBlack ll) eqn:Erb; cbn [fst snd].
      + (* near nephew (right child of the sibling) red: rotateLeft(near); then as the far case *)
        destruct lr as [|[] a zz azz b]; try discriminate. cbn [root_id].
        assert (Nd1 : NoDup (ids (plug (FL c' p (T Black nl xn an nr) :: ctx2) (T cz ll z az (T Red a zz azz b))))) by (nd_from Nd).
        destruct (rotateLeft_t _ _ id_of agg aeqb ek (FL c' p (T Black nl xn an nr) :: ctx2) cz ll z az Red a zz azz b s Nd1 H) as (s1 & E1 & H1 & Q1).
        rewrite E1. cbn [pbind].
        assert (Nd2 : NoDup (ids (plug (FL Red zz b :: FL c' p (T Black nl xn an nr) :: ctx2) (T cz ll z tt a)))) by (nd_from Nd).
        pose proof (set_color_t _ _ id_of None (FL Red zz b :: FL c' p (T Black nl xn an nr) :: ctx2) cz ll z tt a s1 Red Nd2 (or_introl eq_refl) H1) as H2.
        assert (Nd3 : NoDup (ids (plug (FL c' p (T Black nl xn an nr) :: ctx2) (T Red (T Red ll z tt a) zz tt b)))) by (nd_from Nd).
        pose proof (set_color_t _ _ id_of None (FL c' p (T Black nl xn an nr) :: ctx2) Red _ zz tt b _ Black Nd3 (or_introl eq_refl) H2) as H3.
        set (s2 := set_color s1 (id_of z) (Some Red)) in *. set (s3 := set_color s2 (id_of zz) (Some Black)) in *.
        cbn [pbind].
        destruct (treeS_focus _ _ _ _ _ _ _ _ H3) as ((_ & L3 & _ & _) & Tl3 & _ & _).
        unfold get_left. rewrite L3. rewrite (p_isRed_root' s3 _ _ Tl3). cbn [isRed negb root_id].
        cbn [plug fill] in H3.
        assert (Nd4 : NoDup (ids (plug ctx2 (T c' (T Black (T Red ll z tt a) zz tt b) p tt (T Black nl xn an nr))))) by (nd_from Nd).
        destruct (rotateRight_t _ _ id_of agg aeqb ek ctx2 c' (T Black nl xn an nr) p tt Black b zz tt (T Red ll z tt a) s3 Nd4 H3) as (s4 & E4 & H4 & Q4).
        rewrite E4. cbn [pbind].
        assert (Nd5 : NoDup (ids (plug (FR Black (T Red ll z tt a) zz :: ctx2) (T c' b p tt (T Black nl xn an nr))))) by (nd_from Nd).
        pose proof (set_color_t _ _ id_of None (FR Black (T Red ll z tt a) zz :: ctx2) c' b p tt _ s4 Black Nd5 (or_introl eq_refl) H4) as H5.
        assert (Nd6 : NoDup (ids (plug ctx2 (T Black (T Red ll z tt a) zz tt (T Black b p tt (T Black nl xn an nr)))))) by (nd_from Nd).
        pose proof (set_color_t _ _ id_of None ctx2 Black _ zz tt _ _ c' Nd6 (or_introl eq_refl) H5) as H6.
        set (s5 := set_color s4 (id_of p) (Some Black)) in *. set (s6 := set_color s5 (id_of zz) (Some c')) in *.
        destruct (treeS_focus _ _ _ _ _ _ _ _ H6) as ((_ & L6 & _ & _) & _).
        rewrite L6. cbn [root_id].
        assert (Nd7 : NoDup (ids (plug (FL c' zz (T Black b p tt (T Black nl xn an nr)) :: ctx2) (T Red ll z tt a)))) by (nd_from Nd).
        pose proof (set_color_t _ _ id_of None (FL c' zz (T Black b p tt (T Black nl xn an nr)) :: ctx2) Red ll z tt a _ Black Nd7 (or_introl eq_refl) H6) as H7.
        eexists. split; [reflexivity|]. split; [exact H7|].
        eapply ps_trans; [exact Q1|]. eapply ps_trans; [apply ps_set_color|]. eapply ps_trans; [apply ps_set_color|].
        eapply ps_trans; [exact Q4|]. eapply ps_trans; [apply ps_set_color|]. eapply ps_trans; [apply ps_set_color|apply ps_set_color].
      + (* far nephew (left child of the sibling) red: rotateRight(sibling) *)
        assert (Hb : isRed ll = true).
        { unfold isBlack in *. destruct (isRed ll), (isRed lr); cbn in *; try discriminate; reflexivity. }
        destruct ll as [|[] bl xb ab br]; try discriminate.
        cbn [pbind]. unfold get_left. rewrite Z2. rewrite (p_isRed_root' s _ _ Tll). cbn [isRed negb].
        assert (Nd1 : NoDup (ids (plug ctx2 (T c' (T cz (T Red bl xb ab br) z az lr) p tt (T Black nl xn an nr))))) by exact Nd.
        destruct (rotateRight_t _ _ id_of agg aeqb ek ctx2 c' (T Black nl xn an nr) p tt cz lr z az (T Red bl xb ab br) s Nd1 H) as (s1 & E1 & H1 & Q1).
        rewrite E1. cbn [pbind].
        assert (Nd2 : NoDup (ids (plug (FR cz (T Red bl xb ab br) z :: ctx2) (T c' lr p tt (T Black nl xn an nr))))) by (nd_from Nd).
        pose proof (set_color_t _ _ id_of None (FR cz (T Red bl xb ab br) z :: ctx2) c' lr p tt _ s1 Black Nd2 (or_introl eq_refl) H1) as H2.
        assert (Nd3 : NoDup (ids (plug ctx2 (T cz (T Red bl xb ab br) z tt (T Black lr p tt (T Black nl xn an nr)))))) by (nd_from Nd).
        pose proof (set_color_t _ _ id_of None ctx2 cz _ z tt _ _ c' Nd3 (or_introl eq_refl) H2) as H3.
        set (s2 := set_color s1 (id_of p) (Some Black)) in *. set (s3 := set_color s2 (id_of z) (Some c')) in *.
        destruct (treeS_focus _ _ _ _ _ _ _ _ H3) as ((_ & L3 & _ & _) & _).
        rewrite L3. cbn [root_id].
        assert (Nd4 : NoDup (ids (plug (FL c' z (T Black lr p tt (T Black nl xn an nr)) :: ctx2) (T Red bl xb ab br)))) by (nd_from Nd).
        pose proof (set_color_t _ _ id_of None (FL c' z (T Black lr p tt (T Black nl xn an nr)) :: ctx2) Red bl xb ab br _ Black Nd4 (or_introl eq_refl) H3) as H4.
        eexists. split; [reflexivity|]. split; [exact H4|].
        eapply ps_trans; [exact Q1|]. eapply ps_trans; [apply ps_set_color|]. eapply ps_trans; [apply ps_set_color|apply ps_set_color].
  Qed.

  (* ---- what the black-height invariant guarantees on the way up: the sibling exists, and a red sibling has a near child *)
  Fixpoint rem_ok (ctx : list frame) : Prop :=
    match ctx with
    | [] => True
    | FL c _ r :: ctx' =>
        match r with
        | E => False
        | T Red rl _ _ _ => rl <> E
        | T Black rl _ _ rr => isBlack rl && isBlack rr = true -> c = Black -> rem_ok ctx'
        end
    | FR c l _ :: ctx' =>
        match l with
        | E => False
        | T Red _ _ _ lr => lr <> E
        | T Black ll _ _ lr => isBlack ll && isBlack lr = true -> c = Black -> rem_ok ctx'
        end
    end.

  Lemma bsL_ctx_red (x : elt) rl y rr : snd (bsL_ctx Red x rl y rr) = false.
  Proof. unfold bsL_ctx. destruct (isBlack rl && isBlack rr); [reflexivity|]. destruct (isRed rl && isBlack rr); [destruct rl|]; reflexivity. Qed.
  Lemma bsR_ctx_red ll y lr (x : elt) : snd (bsR_ctx Red ll y lr x) = false.
  Proof. unfold bsR_ctx. destruct (isBlack ll && isBlack lr); [reflexivity|]. destruct (isRed lr && isBlack ll); [destruct lr|]; reflexivity. Qed.
  Lemma bsL_ctx_short c (x : elt) rl y rr : snd (bsL_ctx c x rl y rr) = true -> c = Black /\ isBlack rl && isBlack rr = true.
  Proof.
    unfold bsL_ctx. destruct (isBlack rl && isBlack rr); [destruct c; cbn; intros; try discriminate; auto|].
    destruct (isRed rl && isBlack rr); [destruct rl|]; discriminate.
  Qed.
  Lemma bsR_ctx_short c ll y lr (x : elt) : snd (bsR_ctx c ll y lr x) = true -> c = Black /\ isBlack ll && isBlack lr = true.
  Proof.
    unfold bsR_ctx. destruct (isBlack ll && isBlack lr); [destruct c; cbn; intros; try discriminate; auto|].
    destruct (isRed lr && isBlack ll); [destruct lr|]; discriminate.
  Qed.

  Theorem fix_remove_t fuel : forall ctx nl xn an nr (s : pstate),
    NoDup (ids (plug ctx (T Black nl xn an nr))) -> rem_ok ctx ->
    treeSs None s (plug ctx (T Black nl xn an nr)) -> length ctx < fuel ->
    exists s', fix_remove agg aeqb ek fuel s (id_of xn) = POk s'
               /\ treeSs None s' (plug (rem_ctx ctx) (T Black nl xn an nr))
               /\ ps_same (p_hooks s) (p_hooks s').
  Proof.
    induction fuel as [|k IH]; intros ctx nl xn an nr s Nd Hok H Hf; [lia|].
    cbn [fix_remove].
    destruct (treeS_focus _ _ _ _ _ _ _ _ H) as ((X1 & _ & _ & X4) & _).
    unfold get_color, get_parent. rewrite (X4 ltac:(discriminate)), X1. cbn [ceqb negb].
    destruct ctx as [|fr ctx1]; cbn [cpar].
    { exists s. split; [reflexivity|]. split; [exact H|apply ps_refl]. }
    cbn [length] in Hf.
    destruct fr as [c p sib|c sib p]; cbn [fid rem_ok] in *.
    - destruct sib as [|[] rl y ay rr]; [contradiction| |].
      + (* red sibling *)
        destruct rl as [|cz a' z az b']; [contradiction Hok; reflexivity|].
        destruct (sibling_L_red ctx1 c p cz a' z az b' y ay rr nl xn an nr s Nd H) as (s1 & E1 & H1 & Q1).
        rewrite E1. cbn [pbind].
        assert (Nd1 : NoDup (ids (plug (FL Red p (T cz a' z az b') :: FL Black y rr :: ctx1) (T Black nl xn an nr)))) by (nd_from Nd).
        destruct (rest_L (fix_remove agg aeqb ek k) (FL Black y rr :: ctx1) Red p cz a' z az b' nl xn an nr s1 Nd1 H1)
          as (s2 & E2 & H2 & Q2); [discriminate|].
        exists s2. split; [exact E2|]. split; [|eapply ps_trans; eassumption].
        rewrite bsL_ctx_red in H2. cbn [rem_ctx lvl_ctx balL_ctx fst snd]. rewrite <- app_assoc. exact H2.
      + (* black sibling *)
        rewrite (sibling_L_black ctx1 c p rl y ay rr nl xn an nr s H). cbn [pbind].
        destruct (rest_L (fix_remove agg aeqb ek k) ctx1 c p Black rl y ay rr nl xn an nr s Nd H) as (s2 & E2 & H2 & Q2).
        { intros Ec Ebb s2 H2. apply IH; [|exact (Hok Ebb Ec)|exact H2|lia]. nd_from Nd. }
        exists s2. split; [exact E2|]. split; [|exact Q2].
        cbn [rem_ctx lvl_ctx balL_ctx]. exact H2.
    - destruct sib as [|[] ll y ay lr]; [contradiction| |].
      + destruct lr as [|cz a' z az b']; [contradiction Hok; reflexivity|].
        destruct (sibling_R_red ctx1 c p ll y ay cz a' z az b' nl xn an nr s Nd H) as (s1 & E1 & H1 & Q1).
        rewrite E1. cbn [pbind].
        assert (Nd1 : NoDup (ids (plug (FR Red (T cz a' z az b') p :: FR Black ll y :: ctx1) (T Black nl xn an nr)))) by (nd_from Nd).
        destruct (rest_R (fix_remove agg aeqb ek k) (FR Black ll y :: ctx1) Red p cz a' z az b' nl xn an nr s1 Nd1 H1)
          as (s2 & E2 & H2 & Q2); [discriminate|].
        exists s2. split; [exact E2|]. split; [|eapply ps_trans; eassumption].
        rewrite bsR_ctx_red in H2. cbn [rem_ctx lvl_ctx balR_ctx fst snd]. rewrite <- app_assoc. exact H2.
      + rewrite (sibling_R_black ctx1 c p ll y ay lr nl xn an nr s Nd H). cbn [pbind].
        destruct (rest_R (fix_remove agg aeqb ek k) ctx1 c p Black ll y ay lr nl xn an nr s Nd H) as (s2 & E2 & H2 & Q2).
        { intros Ec Ebb s2 H2. apply IH; [|exact (Hok Ebb Ec)|exact H2|lia]. nd_from Nd. }
        exists s2. split; [exact E2|]. split; [|exact Q2].
        cbn [rem_ctx lvl_ctx balR_ctx]. exact H2.
  Qed.
End Rem.
