(* RbPtrBase.v — infrastructure for the refinement proofs RbPtr (heap of hooks) -> RbModel (functional core).

   * [repr s t]: the heap [s] represents the tree [t]: _root is t's root and every hook has exactly the fields of
     [layout t] (the colour of a non-member is stale by design and not compared);
   * a zipper ([frame], [plug]) and a SEPARATED form of [repr] ([reprS]): a structural predicate [tinv] for
     parent/left/right/colour, a doubly-linked-list predicate [dll] for predecessor/successor over the in-order
     walk, null links for non-members; [tinv] and [dll] split along [plug] ([tinv_plug], [dll_app]);
   * frame lemmas: an assignment to the hook of an id that does not occur in a subtree / context / list segment
     leaves its predicate unchanged ([tinv_hupd], [cinv_hupd], [dll_hupd]);
   * [reprS_repr]: for trees with unique ids the two forms are equivalent.

   The abstract trees carry no annotation here ([tree elt unit]); [strip] erases the annotations of an arbitrary
   tree, [layout] does not see them ([layout_strip]), and the functional operations commute with [strip]
   (RbPtrStrip.v) — so the refinement theorems hold for every annotation type / aggregate. *)
From Coq Require Import NArith List Bool Lia PeanoNat.
From FV Require Import Rb.RbModel Rb.RbLayout Rb.RbPtr.
Import ListNotations.

(* ---- hooks as functions: one assignment *)
Definition hupd (f : N -> hook) (i : N) (h : hook) : N -> hook := fun j => if N.eqb j i then h else f j.

Lemma hupd_same f i h : hupd f i h i = h.
Proof. unfold hupd. rewrite N.eqb_refl. reflexivity. Qed.
Lemma hupd_other f i h j : j <> i -> hupd f i h j = f j.
Proof. intros H. unfold hupd. destruct (N.eqb_spec j i); [contradiction|reflexivity]. Qed.

Definition with_parent (h : hook) v := mkHook v (h_left h) (h_right h) (h_pred h) (h_succ h) (h_color h).
Definition with_left (h : hook) v := mkHook (h_parent h) v (h_right h) (h_pred h) (h_succ h) (h_color h).
Definition with_right (h : hook) v := mkHook (h_parent h) (h_left h) v (h_pred h) (h_succ h) (h_color h).
Definition with_pred (h : hook) v := mkHook (h_parent h) (h_left h) (h_right h) v (h_succ h) (h_color h).
Definition with_succ (h : hook) v := mkHook (h_parent h) (h_left h) (h_right h) (h_pred h) v (h_color h).
Definition with_color (h : hook) v := mkHook (h_parent h) (h_left h) (h_right h) (h_pred h) (h_succ h) v.

Section SetLemmas.
  Variable annot : Type.
  Implicit Type s : pstate annot.
  Lemma hooks_set_parent s i v : p_hooks (set_parent s i v) = hupd (p_hooks s) i (with_parent (p_hooks s i) v).
  Proof. reflexivity. Qed.
  Lemma hooks_set_left s i v : p_hooks (set_left s i v) = hupd (p_hooks s) i (with_left (p_hooks s i) v).
  Proof. reflexivity. Qed.
  Lemma hooks_set_right s i v : p_hooks (set_right s i v) = hupd (p_hooks s) i (with_right (p_hooks s i) v).
  Proof. reflexivity. Qed.
  Lemma hooks_set_pred s i v : p_hooks (set_pred s i v) = hupd (p_hooks s) i (with_pred (p_hooks s i) v).
  Proof. reflexivity. Qed.
  Lemma hooks_set_succ s i v : p_hooks (set_succ s i v) = hupd (p_hooks s) i (with_succ (p_hooks s i) v).
  Proof. reflexivity. Qed.
  Lemma hooks_set_color s i v : p_hooks (set_color s i v) = hupd (p_hooks s) i (with_color (p_hooks s i) v).
  Proof. reflexivity. Qed.
  Lemma hooks_set_root s v : p_hooks (set_root s v) = p_hooks s.
  Proof. reflexivity. Qed.
  Lemma hooks_set_annot s i a : p_hooks (set_annot s i a) = p_hooks s.
  Proof. reflexivity. Qed.

  (* assignments to parent / left / right / colour keep every predecessor / successor field *)
  Definition ps_same (f g : N -> hook) : Prop := forall j, h_pred (g j) = h_pred (f j) /\ h_succ (g j) = h_succ (f j).
  Lemma ps_refl f : ps_same f f.
  Proof. intros j. auto. Qed.
  Lemma ps_trans f g h : ps_same f g -> ps_same g h -> ps_same f h.
  Proof. intros A B j. destruct (A j) as [A1 A2], (B j) as [B1 B2]. split; congruence. Qed.
  Lemma ps_hupd f i h : h_pred h = h_pred (f i) -> h_succ h = h_succ (f i) -> ps_same f (hupd f i h).
  Proof. intros E1 E2 j. unfold hupd. destruct (N.eqb_spec j i) as [->|]; auto. Qed.
  Lemma ps_set_parent s i v : ps_same (p_hooks s) (p_hooks (set_parent s i v)).
  Proof. apply ps_hupd; reflexivity. Qed.
  Lemma ps_set_left s i v : ps_same (p_hooks s) (p_hooks (set_left s i v)).
  Proof. apply ps_hupd; reflexivity. Qed.
  Lemma ps_set_right s i v : ps_same (p_hooks s) (p_hooks (set_right s i v)).
  Proof. apply ps_hupd; reflexivity. Qed.
  Lemma ps_set_color s i v : ps_same (p_hooks s) (p_hooks (set_color s i v)).
  Proof. apply ps_hupd; reflexivity. Qed.

  (* assignments to predecessor / successor keep parent / left / right / colour *)
  Definition teq (h g : hook) : Prop :=
    h_parent h = h_parent g /\ h_left h = h_left g /\ h_right h = h_right g /\ h_color h = h_color g.
  Definition ts_same (f g : N -> hook) : Prop := forall j, teq (g j) (f j).
  Lemma ts_refl f : ts_same f f.
  Proof. intros j. repeat split. Qed.
  Lemma ts_trans f g h : ts_same f g -> ts_same g h -> ts_same f h.
  Proof. intros A B j. destruct (A j) as (A1 & A2 & A3 & A4), (B j) as (B1 & B2 & B3 & B4). repeat split; congruence. Qed.
  Lemma ts_hupd f i h : teq h (f i) -> ts_same f (hupd f i h).
  Proof. intros E j. unfold hupd. destruct (N.eqb_spec j i) as [->|]; [exact E|repeat split]. Qed.
  Lemma ts_set_pred s i v : ts_same (p_hooks s) (p_hooks (set_pred s i v)).
  Proof. apply ts_hupd; repeat split. Qed.
  Lemma ts_set_succ s i v : ts_same (p_hooks s) (p_hooks (set_succ s i v)).
  Proof. apply ts_hupd; repeat split. Qed.
End SetLemmas.
Arguments ps_same f g : clear implicits.
Arguments ts_same f g : clear implicits.

(* ---- doubly linked list through h_pred / h_succ, from [prev] to [next] *)
Fixpoint dll (f : N -> hook) (prev : option N) (l : list N) (next : option N) : Prop :=
  match l with
  | [] => True
  | x :: l' => h_pred (f x) = prev /\ h_succ (f x) = match l' with [] => next | y :: _ => Some y end
               /\ dll f (Some x) l' next
  end.
Definition head_or (l : list N) (d : option N) : option N := match l with [] => d | y :: _ => Some y end.
Fixpoint last_or (l : list N) (d : option N) : option N := match l with [] => d | y :: l' => last_or l' (Some y) end.

Lemma last_or_app l1 l2 d : last_or (l1 ++ l2) d = last_or l2 (last_or l1 d).
Proof. revert d. induction l1 as [|a l1 IH]; intros d; cbn [app last_or]; [reflexivity|apply IH]. Qed.

Lemma last_or_in l d q : last_or l d = Some q -> d = Some q \/ In q l.
Proof.
  revert d. induction l as [|a l IH]; cbn [last_or]; intros d H; [auto|].
  destruct (IH _ H) as [E|Hin]; [injection E as ->; right; left; reflexivity|right; right; exact Hin].
Qed.
Lemma head_or_in l q : head_or l None = Some q -> In q l.
Proof. destruct l; cbn; [discriminate|]. intros E. injection E as ->. auto. Qed.

Lemma nodup_split_unique_N (l1 l2 l1' l2' : list N) x :
  NoDup (l1 ++ x :: l2) -> l1 ++ x :: l2 = l1' ++ x :: l2' -> l1 = l1' /\ l2 = l2'.
Proof.
  revert l1'. induction l1 as [|a l1 IH]; intros l1' Nd E; cbn [app] in *.
  - destruct l1' as [|b l1']; cbn [app] in E; [injection E as E; auto|].
    injection E as E1 E2. subst b. exfalso. apply NoDup_cons_iff in Nd. apply (proj1 Nd). rewrite E2, in_app_iff. right. left. reflexivity.
  - apply NoDup_cons_iff in Nd. destruct Nd as [Na Nd]. destruct l1' as [|b l1']; cbn [app] in E.
    + injection E as E1 E2. subst a. exfalso. apply Na. rewrite in_app_iff. right. left. reflexivity.
    + injection E as E1 E2. subst b. destruct (IH _ Nd E2) as [-> ->]. auto.
Qed.

Lemma dll_chain f p l : dll f p l None <-> chain f p l.
Proof.
  revert p. induction l as [|x l IH]; intros p; cbn [dll chain]; [tauto|].
  rewrite IH. destruct l; cbn [hd_error]; tauto.
Qed.

Lemma dll_app f p l1 l2 nx :
  dll f p (l1 ++ l2) nx <-> dll f p l1 (head_or l2 nx) /\ dll f (last_or l1 p) l2 nx.
Proof.
  revert p. induction l1 as [|x l1 IH]; intros p; cbn [app dll last_or]; [tauto|].
  rewrite IH. destruct l1 as [|y l1]; cbn [app head_or]; [destruct l2; cbn [head_or]; tauto|tauto].
Qed.

Lemma dll_ext f g p l nx :
  (forall j, In j l -> h_pred (g j) = h_pred (f j) /\ h_succ (g j) = h_succ (f j)) -> dll f p l nx -> dll g p l nx.
Proof.
  revert p. induction l as [|x l IH]; intros p He H; cbn [dll] in *; [exact I|].
  destruct H as (A & B & C). destruct (He x (or_introl eq_refl)) as [E1 E2].
  rewrite E1, E2. repeat split; try assumption. apply IH; [|exact C]. intros j Hj. apply He. right. exact Hj.
Qed.

Lemma dll_hupd f i h p l nx : ~ In i l -> dll f p l nx -> dll (hupd f i h) p l nx.
Proof.
  intros Hn. apply dll_ext. intros j Hj. rewrite hupd_other; [tauto|]. intros ->. contradiction.
Qed.

(* an assignment that keeps pred and succ *)
Lemma dll_hupd_keep f i h p l nx :
  h_pred h = h_pred (f i) -> h_succ h = h_succ (f i) -> dll f p l nx -> dll (hupd f i h) p l nx.
Proof.
  intros E1 E2. apply dll_ext. intros j _. unfold hupd. destruct (N.eqb_spec j i) as [->|]; auto.
Qed.

(* re-linking the successor of the last element / the predecessor of the first element of a segment *)
Lemma dll_relink_next f g p l nx nx' :
  dll f p l nx -> NoDup l ->
  (forall j, In j l -> h_pred (g j) = h_pred (f j)) ->
  (forall j, In j l -> Some j <> last_or l None -> h_succ (g j) = h_succ (f j)) ->
  match last_or l None with Some q => h_succ (g q) = nx' | None => True end ->
  dll g p l nx'.
Proof.
  revert p. induction l as [|x l IH]; intros p H Nd Hp Hs Hl; cbn [dll] in *; [exact I|].
  destruct H as (A & B & C). apply NoDup_cons_iff in Nd; destruct Nd as [Nx Nl].
  split; [rewrite Hp by (left; reflexivity); exact A|].
  destruct l as [|y l].
  - cbn [last_or] in Hl. split; [exact Hl|exact I].
  - split.
    + rewrite Hs; [exact B|left; reflexivity|].
      cbn [last_or]. intros E0.
      assert (G : forall (l0 : list N) d, last_or l0 (Some d) = Some x -> d = x \/ In x l0).
      { clear. induction l0 as [|a l0 IH]; cbn [last_or]; intros d H; [injection H as ->; auto|].
        destruct (IH _ H) as [->|]; cbn [In]; auto. }
      symmetry in E0. destruct (G _ _ E0) as [->|Hin]; apply Nx; cbn [In]; auto.
    + apply IH; try assumption.
      * intros j Hj. apply Hp. right. exact Hj.
      * intros j Hj Hne. apply Hs; [right; exact Hj|]. cbn [last_or] in *. exact Hne.
Qed.

Lemma dll_relink_prev f g p p' l nx :
  dll f p l nx -> NoDup l ->
  (forall j, In j l -> h_succ (g j) = h_succ (f j)) ->
  (forall j, In j l -> Some j <> head_or l None -> h_pred (g j) = h_pred (f j)) ->
  match head_or l None with Some q => h_pred (g q) = p' | None => True end ->
  dll g p' l nx.
Proof.
  intros H Nd Hs Hp Hh. destruct l as [|x l]; cbn [dll head_or] in *; [exact I|].
  destruct H as (A & B & C). apply NoDup_cons_iff in Nd; destruct Nd as [Nx Nl].
  split; [exact Hh|]. split; [rewrite Hs by (left; reflexivity); exact B|].
  revert C. apply dll_ext. intros j Hj. split.
  - apply Hp; [right; exact Hj|]. intros E0. injection E0 as ->. contradiction.
  - apply Hs. right. exact Hj.
Qed.

Lemma dll_head_pred f p l nx : dll f p l nx -> match l with [] => True | x :: _ => h_pred (f x) = p end.
Proof. destruct l; cbn [dll]; tauto. Qed.
Lemma dll_last_succ f p l nx : dll f p l nx -> match last_or l None with Some q => l <> [] -> h_succ (f q) = nx | None => True end.
Proof.
  revert p. induction l as [|x l IH]; intros p H; cbn [dll last_or] in *; [exact I|].
  destruct H as (A & B & C). destruct l as [|y l]; cbn [last_or] in *; [intros _; exact B|].
  specialize (IH _ C). cbn [last_or] in IH.
  destruct (last_or l (Some y)) eqn:E0; [|exact I]. intros _. apply IH. discriminate.
Qed.

Section Base.
  Variable elt : Type.
  Variable id_of : elt -> N.
  Notation tree := (tree elt unit).
  Notation ids t := (map id_of (inorder t)).
  Definition uagg (_ : elt) (_ _ : option unit) : unit := tt.

  (* ---- zipper *)
  Inductive frame := FL (c : color) (x : elt) (r : tree) | FR (c : color) (l : tree) (x : elt).
  Definition fill (fr : frame) (sub : tree) : tree :=
    match fr with FL c x r => T c sub x tt r | FR c l x => T c l x tt sub end.
  Fixpoint plug (ctx : list frame) (sub : tree) : tree :=
    match ctx with [] => sub | fr :: ctx' => plug ctx' (fill fr sub) end.
  Definition fid (fr : frame) : N := match fr with FL _ x _ => id_of x | FR _ _ x => id_of x end.
  Definition fcolor (fr : frame) : color := match fr with FL c _ _ => c | FR c _ _ => c end.
  Definition cpar (ctx : list frame) : option N := match ctx with [] => None | fr :: _ => Some (fid fr) end.
  Fixpoint croot (ctx : list frame) (rid : option N) : option N :=
    match ctx with [] => rid | fr :: ctx' => croot ctx' (Some (fid fr)) end.
  Fixpoint cbefore (ctx : list frame) : list N :=
    match ctx with
    | [] => []
    | FL _ _ _ :: ctx' => cbefore ctx'
    | FR _ l x :: ctx' => cbefore ctx' ++ ids l ++ [id_of x]
    end.
  Fixpoint cafter (ctx : list frame) : list N :=
    match ctx with
    | [] => []
    | FL _ x r :: ctx' => (id_of x :: ids r) ++ cafter ctx'
    | FR _ _ _ :: ctx' => cafter ctx'
    end.

  Lemma ids_plug ctx sub : ids (plug ctx sub) = cbefore ctx ++ ids sub ++ cafter ctx.
  Proof.
    revert sub. induction ctx as [|fr ctx IH]; intros sub; cbn [plug cbefore cafter].
    - rewrite app_nil_r. reflexivity.
    - rewrite IH. destruct fr as [c x r|c l x]; cbn [fill inorder map]; rewrite !map_app; cbn [map];
        rewrite <- !app_assoc; cbn [app]; reflexivity.
  Qed.
  (* the same on elements *)
  Fixpoint ebefore (ctx : list frame) : list elt :=
    match ctx with
    | [] => []
    | FL _ _ _ :: ctx' => ebefore ctx'
    | FR _ l x :: ctx' => ebefore ctx' ++ inorder l ++ [x]
    end.
  Fixpoint eafter (ctx : list frame) : list elt :=
    match ctx with
    | [] => []
    | FL _ x r :: ctx' => (x :: inorder r) ++ eafter ctx'
    | FR _ _ _ :: ctx' => eafter ctx'
    end.
  Lemma inorder_plug ctx sub : inorder (plug ctx sub) = ebefore ctx ++ inorder sub ++ eafter ctx.
  Proof.
    revert sub. induction ctx as [|fr ctx IH]; intros sub; cbn [plug ebefore eafter].
    - rewrite app_nil_r. reflexivity.
    - rewrite IH. destruct fr as [c x r|c l x]; cbn [fill inorder]; rewrite <- !app_assoc; cbn [app]; reflexivity.
  Qed.

  Lemma plug_app_base (c1 c2 : list frame) (t : tree) : plug (c1 ++ c2) t = plug c2 (plug c1 t).
  Proof. revert t. induction c1 as [|fr c1 IH]; intros t; cbn [app plug]; [reflexivity|apply IH]. Qed.

  Lemma root_plug ctx sub : root_id id_of (plug ctx sub) = croot ctx (root_id id_of sub).
  Proof.
    revert sub. induction ctx as [|fr ctx IH]; intros sub; cbn [plug croot]; [reflexivity|].
    rewrite IH. destruct fr; reflexivity.
  Qed.
  Lemma croot_cons fr ctx rid rid' : croot (fr :: ctx) rid = croot (fr :: ctx) rid'.
  Proof. reflexivity. Qed.
  Lemma height_plug ctx sub : length ctx + height sub <= height (plug ctx sub).
  Proof.
    revert sub. induction ctx as [|fr ctx IH]; intros sub; cbn [plug length]; [lia|].
    specialize (IH (fill fr sub)). destruct fr; cbn [fill height] in *; lia.
  Qed.

  (* ---- parent / left / right / colour of every node of a subtree hanging below [par]; the colour of the node
     [sk] (if any) is not constrained *)
  Definition node_ok (sk : option N) (h : hook) (i : N) (par lft rgt : option N) (c : color) : Prop :=
    h_parent h = par /\ h_left h = lft /\ h_right h = rgt /\ (sk <> Some i -> h_color h = Some c).
  Fixpoint tinv (sk : option N) (f : N -> hook) (t : tree) (par : option N) : Prop :=
    match t with
    | E => True
    | T c l x _ r =>
        node_ok sk (f (id_of x)) (id_of x) par (root_id id_of l) (root_id id_of r) c
        /\ tinv sk f l (Some (id_of x)) /\ tinv sk f r (Some (id_of x))
    end.
  (* the same for the nodes and sibling subtrees of a context; [rid] is the root of what hangs in the hole *)
  Fixpoint cinv (sk : option N) (f : N -> hook) (ctx : list frame) (rid : option N) : Prop :=
    match ctx with
    | [] => True
    | FL c x r :: ctx' =>
        node_ok sk (f (id_of x)) (id_of x) (cpar ctx') rid (root_id id_of r) c
        /\ tinv sk f r (Some (id_of x)) /\ cinv sk f ctx' (Some (id_of x))
    | FR c l x :: ctx' =>
        node_ok sk (f (id_of x)) (id_of x) (cpar ctx') (root_id id_of l) rid c
        /\ tinv sk f l (Some (id_of x)) /\ cinv sk f ctx' (Some (id_of x))
    end.

  Lemma tinv_plug sk f ctx sub :
    tinv sk f (plug ctx sub) None <-> tinv sk f sub (cpar ctx) /\ cinv sk f ctx (root_id id_of sub).
  Proof.
    revert sub. induction ctx as [|fr ctx IH]; intros sub; cbn [plug cinv cpar]; [tauto|].
    rewrite IH. destruct fr as [c x r|c l x]; cbn [fill tinv root_id fid]; tauto.
  Qed.

  (* ids of a context (nodes and sibling subtrees) *)
  Definition cids (ctx : list frame) : list N := cbefore ctx ++ cafter ctx.

  Lemma tinv_ext sk f g t par :
    (forall j, In j (ids t) -> g j = f j) -> tinv sk f t par -> tinv sk g t par.
  Proof.
    revert par. induction t as [|c l IHl x a r IHr]; intros par He H; cbn [tinv] in *; [exact I|].
    destruct H as (A & B & C).
    assert (Hx : In (id_of x) (ids (T c l x a r))) by (cbn [inorder]; rewrite map_app, in_app_iff; right; left; reflexivity).
    rewrite (He _ Hx). split; [exact A|]. split.
    - apply IHl; [|exact B]. intros j Hj. apply He. cbn [inorder]. rewrite map_app, in_app_iff. left. exact Hj.
    - apply IHr; [|exact C]. intros j Hj. apply He. cbn [inorder]. rewrite map_app, in_app_iff. right. right. exact Hj.
  Qed.
  Lemma tinv_hupd sk f i h t par : ~ In i (ids t) -> tinv sk f t par -> tinv sk (hupd f i h) t par.
  Proof. intros Hn. apply tinv_ext. intros j Hj. apply hupd_other. intros ->. contradiction. Qed.

  Lemma cinv_ext sk f g ctx rid :
    (forall j, In j (cids ctx) -> g j = f j) -> cinv sk f ctx rid -> cinv sk g ctx rid.
  Proof.
    unfold cids. revert rid. induction ctx as [|fr ctx IH]; intros rid He H; cbn [cinv] in *; [exact I|].
    destruct fr as [c x r|c l x]; destruct H as (A & B & C); cbn [cbefore cafter] in He.
    - rewrite (He (id_of x)) by (rewrite !in_app_iff; right; left; left; reflexivity).
      split; [exact A|]. split.
      + apply (tinv_ext sk f); [|exact B]. intros j Hj. apply He. rewrite !in_app_iff. cbn [In]. tauto.
      + apply IH; [|exact C]. intros j Hj. apply He. rewrite !in_app_iff in *. cbn [In]. tauto.
    - rewrite (He (id_of x)) by (rewrite !in_app_iff; cbn [In]; tauto).
      split; [exact A|]. split.
      + apply (tinv_ext sk f); [|exact B]. intros j Hj. apply He. rewrite !in_app_iff. tauto.
      + apply IH; [|exact C]. intros j Hj. apply He. rewrite !in_app_iff in *. tauto.
  Qed.
  Lemma cinv_hupd sk f i h ctx rid : ~ In i (cids ctx) -> cinv sk f ctx rid -> cinv sk (hupd f i h) ctx rid.
  Proof. intros Hn. apply cinv_ext. intros j Hj. apply hupd_other. intros ->. contradiction. Qed.

  Lemma node_ok_teq sk h g i par lft rgt c : teq g h -> node_ok sk h i par lft rgt c -> node_ok sk g i par lft rgt c.
  Proof. intros (E1 & E2 & E3 & E4) (A1 & A2 & A3 & A4). repeat split; try congruence. intros H. rewrite E4. auto. Qed.
  Lemma tinv_ts sk f g t par : ts_same f g -> tinv sk f t par -> tinv sk g t par.
  Proof.
    intros Hs. revert par. induction t as [|c l IHl x a r IHr]; intros par H; cbn [tinv] in *; [exact I|].
    destruct H as (A & B & C). split; [eapply node_ok_teq; [apply Hs|exact A]|]. split; auto.
  Qed.
  Lemma cinv_ts sk f g ctx rid : ts_same f g -> cinv sk f ctx rid -> cinv sk g ctx rid.
  Proof.
    intros Hs. revert rid. induction ctx as [|fr ctx IH]; intros rid H; cbn [cinv] in *; [exact I|].
    destruct fr as [c x r|c l x]; destruct H as (A & B & C);
      (split; [eapply node_ok_teq; [apply Hs|exact A]|]); split; eauto using tinv_ts.
  Qed.

  (* the skipped colour: weaker for more skipping *)
  Lemma tinv_skip sk f t par : tinv None f t par -> tinv sk f t par.
  Proof.
    revert par. induction t as [|c l IHl x a r IHr]; intros par H; cbn [tinv] in *; [exact I|].
    destruct H as ((A1 & A2 & A3 & A4) & B & C). repeat split; auto. intros _. apply A4. discriminate.
  Qed.
  Lemma cinv_skip sk f ctx rid : cinv None f ctx rid -> cinv sk f ctx rid.
  Proof.
    revert rid. induction ctx as [|fr ctx IH]; intros rid H; cbn [cinv] in *; [exact I|].
    destruct fr as [c x r|c l x]; destruct H as ((A1 & A2 & A3 & A4) & B & C); repeat split; auto using tinv_skip;
      intros _; apply A4; discriminate.
  Qed.
  (* a skipped id that does not occur *)
  Lemma tinv_unskip i f t par : ~ In i (ids t) -> tinv (Some i) f t par -> tinv None f t par.
  Proof.
    revert par. induction t as [|c l IHl x a r IHr]; intros par Hn H; cbn [tinv] in *; [exact I|].
    cbn [inorder] in Hn. rewrite map_app, in_app_iff in Hn. cbn [map In] in Hn.
    destruct H as ((A1 & A2 & A3 & A4) & B & C). split; [|split].
    - repeat split; auto. intros _. apply A4. intros E0. injection E0 as E0. subst i. tauto.
    - apply IHl; [tauto|exact B].
    - apply IHr; [tauto|exact C].
  Qed.
  Lemma cinv_unskip i f ctx rid : ~ In i (cids ctx) -> cinv (Some i) f ctx rid -> cinv None f ctx rid.
  Proof.
    unfold cids. revert rid. induction ctx as [|fr ctx IH]; intros rid Hn H; cbn [cinv] in *; [exact I|].
    destruct fr as [c x r|c l x]; destruct H as ((A1 & A2 & A3 & A4) & B & C); cbn [cbefore cafter] in Hn;
      rewrite !in_app_iff in Hn; cbn [In] in Hn.
    - split; [|split].
      + repeat split; auto. intros _. apply A4. intros E0. injection E0 as E0. subst i. tauto.
      + apply (tinv_unskip i); [tauto|exact B].
      + apply IH; [rewrite in_app_iff; tauto|exact C].
    - split; [|split].
      + repeat split; auto. intros _. apply A4. intros E0. injection E0 as E0. subst i. tauto.
      + apply (tinv_unskip i); [tauto|exact B].
      + apply IH; [rewrite in_app_iff; tauto|exact C].
  Qed.

  (* re-hanging a subtree below another parent: only the root's parent field differs *)
  Lemma tinv_reparent sk f t par par' :
    tinv sk f t par ->
    match root_id id_of t with
    | None => tinv sk f t par'
    | Some i => forall h, h = with_parent (f i) par' -> ~ In i (ids (match t with T _ l _ _ r => l | E => E end)) ->
                          ~ In i (ids (match t with T _ l _ _ r => r | E => E end)) -> tinv sk (hupd f i h) t par'
    end.
  Proof.
    destruct t as [|c l x a r]; cbn [root_id tinv]; [tauto|].
    intros ((A1 & A2 & A3 & A4) & B & C) h -> Nl Nr. rewrite hupd_same.
    split; [repeat split; assumption|]. split; apply tinv_hupd; assumption.
  Qed.

  (* changing what hangs in the hole: only the innermost frame's child field differs *)
  Definition with_child (fr : frame) (h : hook) (v : option N) : hook :=
    match fr with FL _ _ _ => with_left h v | FR _ _ _ => with_right h v end.
  Lemma cinv_rechild sk f fr ctx rid rid' h :
    cinv sk f (fr :: ctx) rid -> h = with_child fr (f (fid fr)) rid' ->
    ~ In (fid fr) (match fr with FL _ _ r => ids r | FR _ l _ => ids l end) -> ~ In (fid fr) (cids ctx) ->
    cinv sk (hupd f (fid fr) h) (fr :: ctx) rid'.
  Proof.
    intros H -> N1 N2. destruct fr as [c x r|c l x]; cbn [cinv fid with_child] in *;
      destruct H as ((A1 & A2 & A3 & A4) & B & C); rewrite hupd_same;
      (split; [repeat split; assumption|]); (split; [apply tinv_hupd; assumption|apply cinv_hupd; assumption]).
  Qed.

  (* ---- the separated representation predicate *)
  Definition links_null (h : hook) : Prop :=
    h_parent h = None /\ h_left h = None /\ h_right h = None /\ h_pred h = None /\ h_succ h = None.
  Definition reprS (sk : option N) (f : N -> hook) (rt : option N) (t : tree) : Prop :=
    rt = root_id id_of t /\ tinv sk f t None /\ dll f None (ids t) None
    /\ forall j, ~ In j (ids t) -> links_null (f j).

  (* tree part / list part *)
  Definition tlinks_null (h : hook) : Prop := h_parent h = None /\ h_left h = None /\ h_right h = None.
  Definition treeS (sk : option N) (f : N -> hook) (rt : option N) (t : tree) : Prop :=
    rt = root_id id_of t /\ tinv sk f t None /\ forall j, ~ In j (ids t) -> tlinks_null (f j).
  Definition listS (f : N -> hook) (L : list N) : Prop :=
    dll f None L None /\ forall j, ~ In j L -> h_pred (f j) = None /\ h_succ (f j) = None.
  Lemma reprS_split sk f rt t : reprS sk f rt t <-> treeS sk f rt t /\ listS f (ids t).
  Proof.
    unfold reprS, treeS, listS, links_null, tlinks_null. split.
    - intros (A & B & C & D). repeat split; auto; apply D; assumption.
    - intros ((A & B & D1) & C & D2). repeat split; auto; try apply D1; try apply D2; assumption.
  Qed.
  Lemma listS_ps f g L : ps_same f g -> listS f L -> listS g L.
  Proof.
    intros Hp (A & B). split.
    - revert A. apply dll_ext. intros j _. apply Hp.
    - intros j Hj. destruct (Hp j) as [-> ->]. apply B, Hj.
  Qed.
  Lemma treeS_skip sk f rt t : treeS None f rt t -> treeS sk f rt t.
  Proof. intros (A & B & D). repeat split; auto using tinv_skip; apply D; assumption. Qed.
  Lemma treeS_ts sk f g rt t : ts_same f g -> treeS sk f rt t -> treeS sk g rt t.
  Proof.
    intros Ht (A & B & D). split; [exact A|]. split; [eapply tinv_ts; eassumption|].
    intros j Hj. destruct (Ht j) as (E1 & E2 & E3 & _). destruct (D j Hj) as (D1 & D2 & D3). repeat split; congruence.
  Qed.

  Lemma reprS_skip sk f rt t : reprS None f rt t -> reprS sk f rt t.
  Proof. intros (A & B & C & D). repeat split; auto using tinv_skip; apply D; assumption. Qed.

  (* ---- the layout form *)
  Definition links_eq (h g : hook) : Prop :=
    h_parent h = h_parent g /\ h_left h = h_left g /\ h_right h = h_right g /\ h_pred h = h_pred g /\ h_succ h = h_succ g.
  Definition hook_sim (h g : hook) : Prop := links_eq h g /\ (h_color g <> None -> h_color h = h_color g).
  Definition repr_f (f : N -> hook) (rt : option N) (t : tree) : Prop :=
    rt = root_id id_of t /\ forall j, hook_sim (f j) (layout id_of t j).

  Lemma tinv_occ f t par : tinv None f t par ->
    forall c l x a r sp, occ id_of t par (T c l x a r) sp ->
      node_ok None (f (id_of x)) (id_of x) sp (root_id id_of l) (root_id id_of r) c.
  Proof.
    intros H c l x a r sp O. remember (T c l x a r) as u eqn:Eu. revert H.
    induction O as [t par|c' l' x' a' r' par u sp O IH|c' l' x' a' r' par u sp O IH]; intros H; subst.
    - cbn [tinv] in H. tauto.
    - cbn [tinv] in H. apply IH; tauto.
    - cbn [tinv] in H. apply IH; tauto.
  Qed.
  Lemma tinv_of_occ f t par :
    (forall c l x a r sp, occ id_of t par (T c l x a r) sp ->
       node_ok None (f (id_of x)) (id_of x) sp (root_id id_of l) (root_id id_of r) c) -> tinv None f t par.
  Proof.
    revert par. induction t as [|c l IHl x a r IHr]; intros par H; cbn [tinv]; [exact I|].
    split; [apply (H c l x a r par); constructor|]. split.
    - apply IHl. intros c' l' x' a' r' sp O. apply (H c' l' x' a' r' sp). apply occ_left. exact O.
    - apply IHr. intros c' l' x' a' r' sp O. apply (H c' l' x' a' r' sp). apply occ_right. exact O.
  Qed.

  Lemma chain_unique f g p l : NoDup l -> chain f p l -> chain g p l ->
    forall j, In j l -> h_pred (f j) = h_pred (g j) /\ h_succ (f j) = h_succ (g j).
  Proof.
    intros _ Cf Cg j Hj. apply In_nth_error in Hj. destruct Hj as [k Hk].
    destruct (chain_nth _ _ _ Cf k j Hk) as [A B]. destruct (chain_nth _ _ _ Cg k j Hk) as [A' B'].
    rewrite A, A', B, B'. auto.
  Qed.

  Theorem reprS_repr f rt t : NoDup (ids t) -> (reprS None f rt t <-> repr_f f rt t).
  Proof.
    intros Nd. split.
    - intros (A & B & C & D). split; [exact A|]. intros j.
      destruct (in_dec N.eq_dec j (ids t)) as [Hj|Hj].
      + destruct (occ_member elt unit id_of t None j Hj) as (c & l & x & a & r & sp & O & <-).
        destruct (layout_children elt unit id_of t c l x a r sp Nd O) as (L1 & L2 & L3 & L4).
        destruct (tinv_occ f t None B c l x a r sp O) as (F1 & F2 & F3 & F4).
        apply dll_chain in C.
        destruct (chain_unique f (layout id_of t) None (ids t) Nd C (layout_chain elt unit id_of t Nd) _ Hj) as [P1 P2].
        split; [repeat split; congruence|]. intros _. rewrite L4. apply F4. discriminate.
      + rewrite (layout_nonmember elt unit id_of t j Hj). destruct (D j Hj) as (D1 & D2 & D3 & D4 & D5).
        split; [repeat split; assumption|]. intros H. exfalso. apply H. reflexivity.
    - intros (A & B). split; [exact A|]. split; [|split].
      + apply tinv_of_occ. intros c l x a r sp O.
        destruct (layout_children elt unit id_of t c l x a r sp Nd O) as (L1 & L2 & L3 & L4).
        destruct (B (id_of x)) as ((E1 & E2 & E3 & _ & _) & E6).
        repeat split; try congruence. intros _. rewrite E6; [exact L4|]. rewrite L4. discriminate.
      + apply dll_chain. pose proof (layout_chain elt unit id_of t Nd) as C.
        apply dll_chain in C. apply dll_chain. revert C. apply dll_ext.
        intros j _. destruct (B j) as ((_ & _ & _ & E4 & E5) & _). auto.
      + intros j Hj. destruct (B j) as ((E1 & E2 & E3 & E4 & E5) & _).
        rewrite (layout_nonmember elt unit id_of t j Hj) in *. repeat split; assumption.
  Qed.

  (* ---- reading the fields of the node at the focus *)
  Lemma reprS_focus sk f rt ctx c l x a r :
    reprS sk f rt (plug ctx (T c l x a r)) ->
    node_ok sk (f (id_of x)) (id_of x) (cpar ctx) (root_id id_of l) (root_id id_of r) c
    /\ tinv sk f l (Some (id_of x)) /\ tinv sk f r (Some (id_of x)) /\ cinv sk f ctx (Some (id_of x))
    /\ rt = croot ctx (Some (id_of x)).
  Proof.
    intros (A & B & _). apply tinv_plug in B. cbn [tinv root_id] in B. rewrite root_plug in A. cbn [root_id] in A. tauto.
  Qed.

  Lemma reprS_focus_hole sk f rt ctx :
    reprS sk f rt (plug ctx E) -> cinv sk f ctx None /\ rt = croot ctx None.
  Proof. intros (A & B & _). apply tinv_plug in B. rewrite root_plug in A. cbn [root_id] in *. tauto. Qed.

  (* every node of every tree is the focus of some context: the zipper form loses no generality *)
  Lemma occ_plug (t : tree) par sub sp : occ id_of t par sub sp -> exists ctx, forall outer, plug (ctx ++ outer) sub = plug outer t.
  Proof.
    induction 1 as [t par|c l x a r par u sp O IH|c l x a r par u sp O IH].
    - exists []. reflexivity.
    - destruct IH as [ctx IH]. exists (ctx ++ [FL c x r]). intros outer. rewrite <- app_assoc. rewrite IH. destruct a. reflexivity.
    - destruct IH as [ctx IH]. exists (ctx ++ [FR c l x]). intros outer. rewrite <- app_assoc. rewrite IH. destruct a. reflexivity.
  Qed.

  (* colour tests on a pointer that is the root of a subtree *)
  Lemma tinv_root_color f t par :
    tinv None f t par -> match root_id id_of t with
                          | None => t = E
                          | Some i => h_color (f i) = Some (match t with T c _ _ _ _ => c | E => Black end)
                          end.
  Proof.
    destruct t as [|c l x a r]; cbn [tinv root_id]; [reflexivity|]. intros ((_ & _ & _ & A) & _). apply A. discriminate.
  Qed.
End Base.

Arguments FL {elt} c x r.
Arguments FR {elt} c l x.
Arguments fill {elt} fr sub.
Arguments plug {elt} ctx sub.
Arguments fid {elt} id_of fr.
Arguments fcolor {elt} fr.
Arguments cpar {elt} id_of ctx.
Arguments croot {elt} id_of ctx rid.
Arguments cbefore {elt} id_of ctx.
Arguments cafter {elt} id_of ctx.
Arguments cids {elt} id_of ctx.
Arguments ebefore {elt} ctx.
Arguments eafter {elt} ctx.
Arguments tinv {elt} id_of sk f t par.
Arguments cinv {elt} id_of sk f ctx rid.
Arguments reprS {elt} id_of sk f rt t.
Arguments treeS {elt} id_of sk f rt t.
Arguments repr_f {elt} id_of f rt t.
Arguments with_child {elt} fr h v.

(* ---- non-membership facts from NoDup by counting: [count_occ] distributes over ++ and ::, so that a goal
   [~ In i l] or [i <> j] follows from [NoDup whole] by linear arithmetic *)
Lemma count_le_1 (l : list N) j : NoDup l -> count_occ N.eq_dec l j <= 1.
Proof. intros H. apply (proj1 (NoDup_count_occ N.eq_dec l) H). Qed.
Lemma count_in (l : list N) j : In j l -> count_occ N.eq_dec l j >= 1.
Proof. intros H. apply (proj1 (count_occ_In N.eq_dec l j)) in H. lia. Qed.
Lemma count_notin (l : list N) j : count_occ N.eq_dec l j = 0 -> ~ In j l.
Proof. intros H. apply (proj2 (count_occ_not_In N.eq_dec l j)). exact H. Qed.
Lemma count_cons_same (l : list N) j : count_occ N.eq_dec (j :: l) j = S (count_occ N.eq_dec l j).
Proof. apply count_occ_cons_eq. reflexivity. Qed.

(* [ni H]: solves [~ In i l], [i <> j] and [False] from H : NoDup L (L built with ++ and :: over atoms) and
   membership hypotheses, by counting occurrences *)
Ltac ni_norm H :=
  repeat (progress (repeat rewrite ?map_app, ?count_occ_app in H; cbn [map count_occ app inorder] in H)).
Ltac ni_cases :=
  repeat match goal with
         | H : context [N.eq_dec ?x ?y] |- _ => destruct (N.eq_dec x y)
         | |- context [N.eq_dec ?x ?y] => destruct (N.eq_dec x y)
         end.
Ltac ni_mem :=
  repeat match goal with
         | H : In ?j ?l |- _ => apply (count_in l j) in H; ni_norm H
         end.
Ltac ni_at H a :=
  let C := fresh "C" in
  pose proof (count_le_1 _ a H) as C; ni_norm C; ni_mem;
  repeat (progress (repeat rewrite ?map_app, ?count_occ_app; cbn [map count_occ app inorder]));
  ni_cases; try lia; try congruence.
Ltac ni H :=
  match goal with
  | |- ~ In ?a ?l => solve [apply count_notin; ni_at H a]
  | |- ?a <> ?b => let E := fresh "E" in intros E; first [solve [ni_at H a] | solve [ni_at H b]]
  | |- Some ?a <> Some ?b => let E := fresh "E" in intros E; injection E as E; first [solve [ni_at H a] | solve [ni_at H b]]
  | |- forall j, In j ?l -> _ => let j := fresh "j" in let Hj := fresh "Hj" in intros j Hj; ni H
  end.
Ltac nix H a := solve [exfalso; ni_at H a].

(* NoDup of the ids of a tree with the same in-order walk (recoloured / rotated / differently focused) *)
Ltac nd_from H :=
  let H' := fresh in
  pose proof H as H'; cbn [plug fill app] in H' |- *; rewrite ?plug_app_base in H' |- *; cbn [plug fill app] in H' |- *;
  rewrite ids_plug in H' |- *;
  first [exact H'
        | repeat (progress (cbn [inorder map app] in H'; rewrite ?map_app in H'; rewrite <- ?app_assoc in H'));
          repeat (progress (cbn [inorder map app]; rewrite ?map_app; rewrite <- ?app_assoc)); exact H'].
