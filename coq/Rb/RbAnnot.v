(* RbAnnot.v — the stored annotation of every node is the aggregate of the node's element and its
   children's annotations ([ann_ok]); preserved by every operation of the model, for any [agg].
   (Interface for the interval tree, C07: with agg = max3 (upper x) this gives "subtree_max is exact".) *)
From Coq Require Import NArith List Bool.
From FV Require Import Rb.RbModel.
Import ListNotations.

Section RbAnnot.
  Variables elt annot : Type.
  Variable id_of : elt -> N.
  Variable less : elt -> elt -> bool.
  Variable agg : elt -> option annot -> option annot -> annot.
  Notation tree := (tree elt annot).

  Fixpoint ann_ok (t : tree) : Prop :=
    match t with
    | E => True
    | T _ l x a r => a = agg x (ann l) (ann r) /\ ann_ok l /\ ann_ok r
    end.

  Lemma ann_ok_mk c l x r : ann_ok l -> ann_ok r -> ann_ok (mk agg c l x r).
  Proof. cbn. auto. Qed.
  Lemma ann_paintB (t : tree) : ann (paintB t) = ann t. Proof. destruct t; reflexivity. Qed.
  Lemma ann_paintR (t : tree) : ann (paintR t) = ann t. Proof. destruct t; reflexivity. Qed.
  Lemma ann_ok_paintB (t : tree) : ann_ok t -> ann_ok (paintB t). Proof. destruct t; cbn; auto. Qed.
  Lemma ann_ok_paintR (t : tree) : ann_ok t -> ann_ok (paintR t). Proof. destruct t; cbn; auto. Qed.
  Lemma ann_ok_inv c l x a r : ann_ok (T c l x a r) -> ann_ok l /\ ann_ok r.
  Proof. cbn. tauto. Qed.
  Hint Resolve ann_ok_mk ann_ok_paintB ann_ok_paintR : core.

  Ltac split_ok :=
    repeat match goal with
           | H : ann_ok (T _ _ _ _ _) |- _ =>
               let H' := fresh in pose proof (ann_ok_inv _ _ _ _ _ H) as H'; destruct H'; revert H
           end; intros.

  Lemma up_ins_ann c l x r sd st : ann_ok l -> ann_ok r -> ann_ok (fst (up_ins agg c l x r sd st)).
  Proof.
    intros Hl Hr. destruct st as [| |s]; cbn [up_ins].
    - cbn [fst]; auto.
    - destruct sd, c; cbn [fst]; auto.
    - destruct sd.
      + destruct (isRed r); [cbn [fst]; auto|].
        destruct l as [|lc pl px pa pr]; [cbn [fst]; auto|].
        destruct s; [split_ok; cbn [fst]; auto|].
        destruct pr as [|nc nl nx na nr]; split_ok; cbn [fst]; auto.
      + destruct (isRed l); [cbn [fst]; auto|].
        destruct r as [|rc pl px pa pr]; [cbn [fst]; auto|].
        destruct s; [|split_ok; cbn [fst]; auto].
        destruct pl as [|nc nl nx na nr]; split_ok; cbn [fst]; auto.
  Qed.

  Lemma finish_ins_ann (p : tree * ist) : ann_ok (fst p) -> ann_ok (finish_ins p).
  Proof. destruct p as [t []]; cbn [finish_ins fst]; auto. Qed.

  Lemma ins_ann x (t : tree) : ann_ok t -> ann_ok (fst (ins less agg x t)).
  Proof.
    induction t as [|c l IHl y a r IHr]; cbn [ins]; intros H; [cbn; auto|].
    split_ok. destruct (less x y).
    - specialize (IHl ltac:(assumption)). destruct (ins less agg x l) as [l' st]. apply up_ins_ann; auto.
    - specialize (IHr ltac:(assumption)). destruct (ins less agg x r) as [r' st]. apply up_ins_ann; auto.
  Qed.
  Lemma ins_last_ann x (t : tree) : ann_ok t -> ann_ok (fst (ins_last agg x t)).
  Proof.
    induction t as [|c l _ y a r IHr]; cbn [ins_last]; intros H; [cbn; auto|].
    split_ok. specialize (IHr ltac:(assumption)). destruct (ins_last agg x r) as [r' st]. apply up_ins_ann; auto.
  Qed.
  Lemma ins_bef_ann b x (t : tree) : ann_ok t ->
    match ins_bef id_of agg b x t with Some p => ann_ok (fst p) | None => True end.
  Proof.
    induction t as [|c l IHl y a r IHr]; cbn [ins_bef]; intros H; [exact I|].
    split_ok. destruct (N.eqb (id_of y) b).
    - pose proof (ins_last_ann x l ltac:(assumption)) as P. destruct (ins_last agg x l) as [l' st].
      apply up_ins_ann; auto.
    - specialize (IHl ltac:(assumption)). destruct (ins_bef id_of agg b x l) as [[l' st]|].
      + apply up_ins_ann; auto.
      + specialize (IHr ltac:(assumption)). destruct (ins_bef id_of agg b x r) as [[r' st]|]; [|exact I].
        apply up_ins_ann; auto.
  Qed.

  Theorem insert_ann x (t : tree) : ann_ok t -> ann_ok (insert less agg x t).
  Proof. intros H. apply finish_ins_ann, ins_ann, H. Qed.
  Theorem insert_before_ann before x (t : tree) : ann_ok t -> ann_ok (insert_before id_of agg before x t).
  Proof.
    intros H. destruct before as [b|]; cbn [insert_before].
    - pose proof (ins_bef_ann b x t H) as P. destruct (ins_bef id_of agg b x t); [apply finish_ins_ann, P|exact H].
    - apply finish_ins_ann, ins_last_ann, H.
  Qed.

  Lemma bsL_ann c l x rl y rr : ann_ok l -> ann_ok rl -> ann_ok rr -> ann_ok (fst (bsL agg c l x rl y rr)).
  Proof.
    intros. unfold bsL. destruct (isBlack rl && isBlack rr); [cbn [fst]; auto|].
    destruct (isRed rl && isBlack rr); [|cbn [fst]; auto].
    destruct rl; split_ok; cbn [fst]; auto.
  Qed.
  Lemma bsR_ann c ll y lr x r : ann_ok r -> ann_ok ll -> ann_ok lr -> ann_ok (fst (bsR agg c ll y lr x r)).
  Proof.
    intros. unfold bsR. destruct (isBlack ll && isBlack lr); [cbn [fst]; auto|].
    destruct (isRed lr && isBlack ll); [|cbn [fst]; auto].
    destruct lr; split_ok; cbn [fst]; auto.
  Qed.
  Lemma balL_ann c l x r : ann_ok l -> ann_ok r -> ann_ok (fst (balL agg c l x r)).
  Proof.
    intros Hl Hr. unfold balL. destruct r as [|[] rl y ra rr]; [cbn [fst]; auto| |].
    - split_ok. destruct rl as [|c2 p z za q]; [cbn [fst]; apply ann_ok_mk; cbn; auto|]. split_ok.
      pose proof (bsL_ann Red l x p z q Hl ltac:(assumption) ltac:(assumption)) as P.
      destruct (bsL agg Red l x p z q). cbn [fst] in *. auto.
    - split_ok. apply bsL_ann; auto.
  Qed.
  Lemma balR_ann c l x r : ann_ok l -> ann_ok r -> ann_ok (fst (balR agg c l x r)).
  Proof.
    intros Hl Hr. unfold balR. destruct l as [|[] ll y la lr]; [cbn [fst]; auto| |].
    - split_ok. destruct lr as [|c2 p z za q]; [cbn [fst]; apply ann_ok_mk; cbn; auto|]. split_ok.
      pose proof (bsR_ann Red p z q x r Hr ltac:(assumption) ltac:(assumption)) as P.
      destruct (bsR agg Red p z q x r). cbn [fst] in *. auto.
    - split_ok. apply bsR_ann; auto.
  Qed.
  Lemma half_ann c (child : tree) : ann_ok child -> ann_ok (fst (half c child)).
  Proof. intros. unfold half. destruct c; [auto|]. destruct (isRed child); cbn [fst]; auto. Qed.

  Lemma remove_max_ann (t : tree) : ann_ok t ->
    match remove_max agg t with Some (t', _, _) => ann_ok t' | None => True end.
  Proof.
    induction t as [|c l _ x a r IHr]; cbn [remove_max]; intros H; [exact I|].
    split_ok. specialize (IHr ltac:(assumption)).
    destruct (remove_max agg r) as [[[r' m] sh]|].
    - destruct sh.
      + pose proof (balR_ann c l x r' ltac:(assumption) IHr) as P. destruct (balR agg c l x r'). exact P.
      + auto.
    - pose proof (half_ann c l ltac:(assumption)) as P. destruct (half c l). exact P.
  Qed.

  Lemma del_root_ann c l x r : ann_ok l -> ann_ok r -> ann_ok (fst (del_root agg c l x r)).
  Proof.
    intros Hl Hr. unfold del_root. destruct l as [|lc ll lx la lr]; [apply half_ann, Hr|].
    destruct r as [|rc rl rx ra rr]; [apply half_ann, Hl|].
    pose proof (remove_max_ann _ Hl) as P.
    destruct (remove_max agg (T lc ll lx la lr)) as [[[l' m] sh]|]; [|cbn [fst]; auto].
    destruct sh; [apply balL_ann; auto|cbn [fst]; auto].
  Qed.

  Lemma del_ann i (t : tree) : ann_ok t ->
    match del id_of agg i t with Some p => ann_ok (fst p) | None => True end.
  Proof.
    induction t as [|c l IHl x a r IHr]; cbn [del]; intros H; [exact I|].
    split_ok. destruct (N.eqb (id_of x) i); [apply del_root_ann; auto|].
    specialize (IHl ltac:(assumption)). destruct (del id_of agg i l) as [[l' sh]|].
    - destruct sh; [apply balL_ann; auto|cbn [fst]; auto].
    - specialize (IHr ltac:(assumption)). destruct (del id_of agg i r) as [[r' sh]|]; [|exact I].
      destruct sh; [apply balR_ann; auto|cbn [fst]; auto].
  Qed.

  Theorem remove_ann i (t : tree) : ann_ok t -> ann_ok (remove id_of agg i t).
  Proof.
    intros H. unfold remove. pose proof (del_ann i t H) as P.
    destruct (del id_of agg i t) as [[t' sh]|]; [exact P|exact H].
  Qed.
End RbAnnot.
Arguments ann_ok {elt annot} agg t.
