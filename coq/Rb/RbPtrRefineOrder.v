(* RbPtrRefineOrder.v — refinement of tree_order_struct::insert(before, node) (frg::rbtree_order): the rightmost descent
   of the pointer code reaches the hole where the functional [ins_last] / [ins_bef] put the new leaf; from there it is
   insert_left / insert_right + fix_insert, proved for every context in RbPtrRefineIns / RbPtrRefineFix. *)
From Coq Require Import NArith List Bool Lia PeanoNat.
From FV Require Import Rb.RbModel Rb.RbInorder Rb.RbInvariant Rb.RbLayout Rb.RbPtr Rb.RbPtrBase Rb.RbPtrRefineRot
  Rb.RbPtrRefineIns Rb.RbPtrRefineFix Rb.RbPtrRefineInsert Rb.RbPtrAnnot Rb.RbPtrRefineAttach.
Import ListNotations.

Section Order.
  Variables elt annot : Type.
  Variable id_of : elt -> N.
  Variable agg : elt -> option annot -> option annot -> annot.
  Variable aeqb : annot -> annot -> bool.
  Variable ek : N -> elt.
  Notation tree := (tree elt unit).
  Notation ids t := (map id_of (inorder t)).
  Notation pstate := (pstate annot).
  Notation reprs := (reprs elt annot id_of).
  Notation uagg := (uagg elt).
  Notation frame := (frame elt).
  Notation ins_up := (ins_up elt).
  Notation cok := (cok elt).
  Notation attach := (attach elt annot id_of agg aeqb ek).
  Notation ainv := (ainv elt annot id_of agg).
  Notation tkeys := (tkeys elt id_of ek).

  (* ---- the colours along ANY path of a tree without red-red: [cok] *)
  Lemma norr_plug ctx : forall sub : tree, norr elt (plug ctx sub) -> norr elt sub.
  Proof.
    induction ctx as [|fr ctx IH]; intros sub H; cbn [plug] in H; [exact H|].
    apply IH in H. destruct fr; cbn [fill RbPtrRefineInsert.norr] in H; tauto.
  Qed.
  Lemma cok_path ctx : forall sub : tree, norr elt (plug ctx sub) -> isRed (plug ctx sub) = false ->
    cok ctx /\ (isRed sub = true -> match ctx with [] => False | fr :: _ => fcolor fr = Black end).
  Proof.
    induction ctx as [|fr ctx IH]; intros sub Hn Hb; cbn [plug] in *.
    - split; [exact I|]. rewrite Hb. discriminate.
    - destruct (IH _ Hn Hb) as [Hc Hr]. pose proof (norr_plug ctx _ Hn) as Hn1.
      split.
      + cbn [RbPtrRefineFix.cok]. split; [|exact Hc]. intros Er. apply Hr. destruct fr; cbn [fcolor fill isRed] in *; subst; reflexivity.
      + intros Hs. destruct fr as [c y r|c l y]; cbn [fcolor fill RbPtrRefineInsert.norr] in *; destruct c; [|reflexivity| |reflexivity];
          destruct Hn1 as (H0 & _); destruct (H0 eq_refl) as [E1 E2]; congruence.
  Qed.

  (* ---- the functional ins_last / ins_bef through the zipper *)
  Fixpoint rfull (t : tree) (acc : list frame) : list frame :=
    match t with E => acc | T c l y _ r => rfull r (FR c l y :: acc) end.
  Lemma plug_rfull t acc : plug (rfull t acc) E = plug acc t.
  Proof.
    revert acc. induction t as [|c l _ y a r IHr]; intros acc; cbn [rfull]; [reflexivity|]. rewrite IHr. destruct a. reflexivity.
  Qed.
  Lemma ins_last_zipper x t ctx : ins_up ctx (ins_last uagg x t) = ins_up (rfull t ctx) (T Red E x tt E, IFix).
  Proof.
    revert ctx. induction t as [|c l _ y a r IHr]; intros ctx; cbn [rfull ins_last]; [reflexivity|].
    rewrite <- IHr. cbn [RbPtrRefineFix.ins_up RbPtrRefineFix.up_frame]. destruct (ins_last uagg x r); reflexivity.
  Qed.
  Lemma length_rfull t acc : length (rfull t acc) <= length acc + height t.
  Proof.
    revert acc. induction t as [|c l _ y a r IHr]; intros acc; cbn [rfull height]; [lia|].
    specialize (IHr (FR c l y :: acc)). cbn [length] in IHr. lia.
  Qed.

  Lemma ins_bef_notin b x (t : tree) : ~ In b (ids t) -> ins_bef id_of uagg b x t = None.
  Proof.
    intros H. pose proof (ins_bef_spec elt unit id_of uagg b x t) as S. destruct (ins_bef id_of uagg b x t) as [[t' st]|]; [|reflexivity].
    destruct S as (l1 & y & l2 & E1 & E2 & _). exfalso. apply H. rewrite E1, map_app. apply in_or_app. right. left. exact E2.
  Qed.
  Lemma ins_bef_plug b x ctx : forall (sub : tree) p,
    ins_bef id_of uagg b x sub = Some p -> ~ In b (cids id_of ctx) -> ins_bef id_of uagg b x (plug ctx sub) = Some (ins_up ctx p).
  Proof.
    induction ctx as [|fr ctx IH]; intros sub p Hd Hn; cbn [plug RbPtrRefineFix.ins_up]; [exact Hd|].
    unfold cids in *. apply IH.
    - destruct fr as [c y r|c l y]; cbn [fill ins_bef RbPtrRefineFix.up_frame cbefore cafter] in *; rewrite !in_app_iff in Hn; cbn [In] in Hn.
      + destruct (N.eqb_spec (id_of y) b) as [E0|_]; [exfalso; apply Hn; tauto|].
        rewrite Hd. destruct p as [l' st]. reflexivity.
      + destruct (N.eqb_spec (id_of y) b) as [E0|_]; [exfalso; apply Hn; tauto|].
        rewrite (ins_bef_notin b x l) by (intros H; apply Hn; tauto).
        rewrite Hd. destruct p as [r' st]. reflexivity.
    - destruct fr as [c y r|c l y]; cbn [cbefore cafter] in Hn; rewrite !in_app_iff in *; cbn [In] in *; tauto.
  Qed.

  (* ---- the rightmost descent *)
  Lemma rightmost_loop_ok : forall (sub : tree) ctx k (s : pstate),
    sub <> E -> reprs None s (plug ctx sub) -> height sub <= k ->
    match rfull sub ctx with
    | FR _ _ m :: _ => rightmost_loop k s (match root_id id_of sub with Some i => i | None => 0%N end) = POk (id_of m)
    | _ => False
    end.
  Proof.
    induction sub as [|c l _ y a r IHr]; intros ctx k s Hne H Hk; [contradiction|].
    cbn [height] in Hk. destruct k as [|k]; [lia|]. cbn [root_id rightmost_loop rfull]. destruct a.
    destruct (reprS_focus _ id_of _ _ _ _ _ _ _ _ _ H) as ((_ & _ & X3 & _) & _).
    unfold get_right. rewrite X3.
    destruct r as [|cr rl yr ar rr]; cbn [root_id rfull]; [reflexivity|].
    apply (IHr (FR c l y :: ctx) k s); [discriminate|exact H|lia].
  Qed.

  (* ---- tree_order_struct::insert(before, node) refines insert_before *)
  Theorem p_insert_before_reprS before x (t : tree) (s : pstate) fuel :
    NoDup (id_of x :: ids t) -> isRed t = false -> norr elt t ->
    (forall b, before = Some b -> In b (ids t)) ->
    reprs None s t -> height t < fuel ->
    exists s', p_insert_before agg aeqb ek fuel s before (id_of x) = POk s'
               /\ reprs None s' (insert_before id_of uagg before x t)
               /\ NoDup (ids (insert_before id_of uagg before x t))
               /\ (agg_ok agg aeqb -> ek (id_of x) = x -> tkeys t -> ainv (p_annots s) t ->
                   ainv (p_annots s') (insert_before id_of uagg before x t)).
  Proof.
    intros Nd Hb Hn Hbef H Hf.
    assert (Nd0 : NoDup (ids t)) by (apply NoDup_cons_iff in Nd; tauto).
    (* the common tail: a context of t whose hole is where the leaf goes *)
    assert (Tail : forall ctx, plug ctx E = t ->
              exists s', attach fuel s ctx (id_of x) = POk s'
                         /\ reprs None s' (finish_ins (ins_up ctx (T Red E x tt E, IFix)))
                         /\ NoDup (ids (finish_ins (ins_up ctx (T Red E x tt E, IFix))))
                         /\ (agg_ok agg aeqb -> ek (id_of x) = x -> tkeys t -> ainv (p_annots s) t ->
                             ainv (p_annots s') (finish_ins (ins_up ctx (T Red E x tt E, IFix))))).
    { intros ctx Ept.
      assert (Ndl : NoDup (ids (plug ctx (T Red E x tt E)))).
      { rewrite ids_plug. cbn [inorder map app]. apply nodup_insert_mid.
        rewrite <- Ept, ids_plug in Nd. cbn [inorder map app] in Nd. exact Nd. }
      destruct (attach_ok elt annot id_of agg aeqb ek fuel ctx x s Ndl) as (s' & A & B & C).
      - rewrite <- Ept in Hn, Hb. apply (cok_path ctx E Hn Hb).
      - rewrite Ept. exact H.
      - pose proof (height_plug elt ctx E). rewrite Ept in H0. cbn [height] in H0. lia.
      - exists s'. split; [exact A|]. split; [exact B|]. split.
        + rewrite inorder_finish_ins, (inorder_ins_up elt). cbn [fst]. exact Ndl.
        + intros Ao Hx Hk Ha. apply C; [exact Ao| |rewrite Ept; exact Ha].
          intros e He. rewrite inorder_plug in He. rewrite <- Ept in Hk. unfold RbPtrAnnot.tkeys in Hk. setoid_rewrite inorder_plug in Hk.
          rewrite !in_app_iff in He. cbn [inorder In app] in He. destruct He as [He|[[<-|[]]|He]]; [|exact Hx|];
            apply Hk; rewrite !in_app_iff; cbn [inorder In app]; tauto. }
    unfold p_insert_before, insert_before. destruct before as [b|].
    - (* before the member b *)
      specialize (Hbef b eq_refl).
      destruct (occ_member elt unit id_of t None b Hbef) as (c & l & y & a & r & sp & O & Ey).
      destruct (occ_plug elt id_of t None _ sp O) as (ctx & Ec). specialize (Ec []). rewrite app_nil_r in Ec. cbn [plug] in Ec.
      subst t. destruct a.
      assert (Eb : ins_bef id_of uagg b x (plug ctx (T c l y tt r))
                   = Some (ins_up (rfull l (FL c y r :: ctx)) (T Red E x tt E, IFix))).
      { rewrite (ins_bef_plug b x ctx (T c l y tt r) (RbPtrRefineFix.up_frame elt (FL c y r) (ins_last uagg x l))).
        - rewrite <- ins_last_zipper. reflexivity.
        - cbn [ins_bef]. rewrite Ey, N.eqb_refl. cbn [RbPtrRefineFix.up_frame]. destruct (ins_last uagg x l). reflexivity.
        - rewrite ids_plug in Nd0. cbn [inorder] in Nd0. unfold cids. subst b. ni Nd0. }
      rewrite Eb.
      destruct (reprS_focus _ id_of _ _ _ _ _ _ _ _ _ H) as ((_ & X2 & _ & _) & _).
      unfold get_left. subst b. rewrite X2.
      destruct (Tail (rfull l (FL c y r :: ctx))) as (s' & A & B); [rewrite plug_rfull; reflexivity|].
      destruct l as [|cl ll yl al lr]; cbn [root_id rfull] in *.
      + exists s'. auto.
      + pose proof (rightmost_loop_ok (T cl ll yl al lr) (FL c y r :: ctx) fuel s ltac:(discriminate) H) as RL.
        pose proof (height_plug elt (FL c y r :: ctx) (T cl ll yl al lr)) as Hh. cbn [plug fill] in Hh.
        specialize (RL ltac:(cbn [length] in Hh; lia)). cbn [rfull root_id] in RL.
        destruct (rfull lr (FR cl ll yl :: FL c y r :: ctx)) as [|[|cm lm m] rest] eqn:Er; try contradiction.
        rewrite RL. cbn [pbind]. exists s'. auto.
    - (* last *)
      assert (Eb : ins_last uagg x t = ins_up (rfull t []) (T Red E x tt E, IFix)) by (rewrite <- ins_last_zipper; reflexivity).
      rewrite Eb.
      destruct (Tail (rfull t [])) as (s' & A & B); [rewrite plug_rfull; reflexivity|].
      destruct t as [|c l y a r]; cbn [rfull] in *.
      + destruct H as (A0 & _). cbn [root_id] in A0. rewrite A0. exists s'. auto.
      + pose proof H as (A0 & _). cbn [root_id] in A0. rewrite A0.
        pose proof (rightmost_loop_ok (T c l y a r) [] fuel s ltac:(discriminate) H ltac:(lia)) as RL. cbn [rfull root_id] in RL.
        destruct (rfull r [FR c l y]) as [|[|cm lm m] rest] eqn:Er; try contradiction.
        rewrite RL. cbn [pbind]. exists s'. auto.
  Qed.
End Order.
