(* RbPtrRefineReplace.v — refinement (d), second half: replace_node(node, replacement).  A node that is not in the tree
   takes over parent slot, colour, both children (and their parent fields), and the place in the predecessor / successor
   list of a member node, whose five links are reset: the heap afterwards represents the tree with the replacement's
   element at the node's position. *)
From Coq Require Import NArith List Bool Lia PeanoNat.
From FV Require Import Rb.RbModel Rb.RbLayout Rb.RbPtr Rb.RbPtrBase Rb.RbPtrRefineRot Rb.RbPtrRefineIns Rb.RbPtrAnnot.
Import ListNotations.

Section Replace.
  Variables elt annot : Type.
  Variable id_of : elt -> N.
  Variable agg : elt -> option annot -> option annot -> annot.
  Variable aeqb : annot -> annot -> bool.
  Variable ek : N -> elt.
  Notation tree := (tree elt unit).
  Notation frame := (frame elt).
  Notation ids t := (map id_of (inorder t)).
  Notation pstate := (pstate annot).
  Notation treeSs := (treeSs elt annot id_of).
  Notation reprs := (reprs elt annot id_of).

  Lemma treeS_focus_r sk (s : pstate) ctx c l x a r :
    treeSs sk s (plug ctx (T c l x a r)) ->
    node_ok sk (p_hooks s (id_of x)) (id_of x) (cpar id_of ctx) (root_id id_of l) (root_id id_of r) c
    /\ tinv id_of sk (p_hooks s) l (Some (id_of x)) /\ tinv id_of sk (p_hooks s) r (Some (id_of x))
    /\ cinv id_of sk (p_hooks s) ctx (Some (id_of x)).
  Proof. intros (A & B & _). apply tinv_plug in B. cbn [tinv root_id] in B. tauto. Qed.

  (* ---- the four assignments that splice the replacement into the list *)
  Definition rn_list (s : pstate) (x m : N) : pstate :=
    let s := match get_pred s x with Some p => set_succ s p (Some m) | None => s end in
    let s := set_pred s m (get_pred s x) in
    let s := set_succ s m (get_succ s x) in
    match get_succ s x with Some q => set_pred s q (Some m) | None => s end.

  Lemma rn_list_ok (s : pstate) L1 x m L2 :
    NoDup (m :: L1 ++ x :: L2) -> dll (p_hooks s) None (L1 ++ x :: L2) None ->
    dll (p_hooks (rn_list s x m)) None (L1 ++ m :: L2) None
    /\ ts_same (p_hooks s) (p_hooks (rn_list s x m))
    /\ p_root (rn_list s x m) = p_root s
    /\ (forall j, ~ In j (L1 ++ m :: L2) -> p_hooks (rn_list s x m) j = p_hooks s j).
  Proof.
    clear agg aeqb ek.
    intros Nd C. apply dll_app in C. destruct C as [C1 C2]. cbn [head_or dll] in C1, C2. destruct C2 as (P1 & P2 & C3).
    set (q1 := last_or L1 None) in *. set (q2 := match L2 with [] => None | y :: _ => Some y end) in *.
    assert (Hq1 : match q1 with Some q => In q L1 | None => True end).
    { destruct q1 as [q|] eqn:E0; [|exact I]. destruct (last_or_in _ _ _ E0); [discriminate|assumption]. }
    assert (Hq2 : match q2 with Some q => In q L2 | None => True end).
    { subst q2. destruct L2; [exact I|left; reflexivity]. }
    assert (Hxm : x <> m) by ni Nd.
    unfold rn_list. cbv zeta. replace (get_pred s x) with q1 by (symmetry; exact P1).
    set (s1 := match q1 with Some p => set_succ s p (Some m) | None => s end).
    assert (F1 : forall j, Some j <> q1 -> p_hooks s1 j = p_hooks s j).
    { intros j Hj. subst s1. destruct q1 as [q|]; [|reflexivity]. rewrite hooks_set_succ, hupd_other; [reflexivity|].
      intros ->. apply Hj. reflexivity. }
    assert (Nxq1 : Some x <> q1).
    { destruct q1 as [q|]; [|discriminate]. intros E0. injection E0 as <-. nix Nd x. }
    assert (Nxq2 : Some x <> q2).
    { destruct q2 as [q|]; [|discriminate]. intros E0. injection E0 as <-. nix Nd x. }
    assert (E1 : get_pred s1 x = q1) by (unfold get_pred; rewrite F1 by exact Nxq1; exact P1).
    rewrite E1.
    set (s2 := set_pred s1 m q1).
    assert (E2 : get_succ s2 x = q2).
    { unfold get_succ. subst s2. rewrite hooks_set_pred, hupd_other by exact Hxm. rewrite F1 by exact Nxq1. exact P2. }
    rewrite E2.
    set (s3 := set_succ s2 m q2).
    assert (E3 : get_succ s3 x = q2).
    { unfold get_succ. subst s3. rewrite hooks_set_succ, hupd_other by exact Hxm. exact E2. }
    rewrite E3.
    set (s4 := match q2 with Some q => set_pred s3 q (Some m) | None => s3 end).
    assert (F4 : forall j, j <> m -> Some j <> q2 -> p_hooks s4 j = p_hooks s1 j).
    { intros j J1 J2. subst s4. destruct q2 as [q|].
      - rewrite hooks_set_pred, hupd_other by (intros ->; apply J2; reflexivity).
        subst s3 s2. rewrite hooks_set_succ, hooks_set_pred, !hupd_other by exact J1. reflexivity.
      - subst s3 s2. rewrite hooks_set_succ, hooks_set_pred, !hupd_other by exact J1. reflexivity. }
    assert (Hm4 : h_pred (p_hooks s4 m) = q1 /\ h_succ (p_hooks s4 m) = q2).
    { assert (G : h_pred (p_hooks s3 m) = q1 /\ h_succ (p_hooks s3 m) = q2).
      { subst s3 s2. rewrite hooks_set_succ, hupd_same, hooks_set_pred, hupd_same. cbn. auto. }
      subst s4. destruct q2 as [q|]; [|exact G]. rewrite hooks_set_pred, hupd_other; [exact G|].
      intros E0. subst q. nix Nd m. }
    assert (NdL1 : NoDup L1).
    { apply NoDup_count_occ with (decA := N.eq_dec). intros j. pose proof (count_le_1 _ j Nd) as C0.
      cbn [count_occ] in C0. rewrite count_occ_app in C0. destruct (N.eq_dec m j); lia. }
    assert (NdL2 : NoDup L2).
    { apply NoDup_count_occ with (decA := N.eq_dec). intros j. pose proof (count_le_1 _ j Nd) as C0.
      cbn [count_occ] in C0. rewrite count_occ_app in C0. cbn [count_occ] in C0. destruct (N.eq_dec m j), (N.eq_dec x j); lia. }
    split; [|split; [|split]].
    - apply dll_app. cbn [head_or]. split.
      + apply (dll_relink_next (p_hooks s)) with (nx := Some x); [exact C1|exact NdL1| | |].
        * intros j Hj. rewrite F4.
          -- subst s1. destruct q1 as [q|]; [|reflexivity]. rewrite hooks_set_succ. unfold hupd.
             destruct (N.eqb_spec j q) as [->|]; reflexivity.
          -- ni Nd.
          -- destruct q2 as [q|]; [|discriminate]. intros E0. injection E0 as ->. nix Nd q.
        * intros j Hj Hl. fold q1 in Hl. rewrite F4, F1; [reflexivity|exact Hl| |].
          -- ni Nd.
          -- destruct q2 as [q|]; [|discriminate]. intros E0. injection E0 as ->. nix Nd q.
        * fold q1. destruct q1 as [q|] eqn:Eq1; [|exact I]. rewrite F4.
          -- subst s1. rewrite hooks_set_succ, hupd_same. reflexivity.
          -- intros ->. nix Nd m.
          -- destruct q2 as [q'|]; [|discriminate]. intros E0. injection E0 as ->. nix Nd q'.
      + fold q1. cbn [dll]. destruct Hm4 as [-> ->]. split; [reflexivity|]. split; [subst q2; reflexivity|].
        apply (dll_relink_prev (p_hooks s)) with (p := Some x); [exact C3|exact NdL2| | |].
        * intros j Hj. destruct q2 as [q|] eqn:Eq2.
          -- destruct (N.eq_dec j q) as [->|Hne].
             ++ subst s4. rewrite hooks_set_pred, hupd_same. cbn [h_succ with_pred].
                subst s3 s2. rewrite hooks_set_succ, hooks_set_pred, !hupd_other by (intros ->; nix Nd m).
                rewrite F1; [reflexivity|]. destruct q1 as [q'|]; [|discriminate]. intros E0. injection E0 as ->. nix Nd q'.
             ++ rewrite F4; [|ni Nd|intros E0; injection E0 as ->; apply Hne; reflexivity]. rewrite F1; [reflexivity|].
                destruct q1 as [q'|]; [|discriminate]. intros E0. injection E0 as ->. nix Nd q'.
          -- rewrite F4; [|ni Nd|discriminate]. rewrite F1; [reflexivity|].
             destruct q1 as [q'|]; [|discriminate]. intros E0. injection E0 as ->. nix Nd q'.
        * intros j Hj Hh. assert (E0 : head_or L2 None = q2) by (subst q2; destruct L2; reflexivity).
          rewrite E0 in Hh. rewrite F4; [|ni Nd|exact Hh]. rewrite F1; [reflexivity|].
          destruct q1 as [q'|]; [|discriminate]. intros E5. injection E5 as ->. nix Nd q'.
        * assert (E0 : head_or L2 None = q2) by (subst q2; destruct L2; reflexivity). rewrite E0.
          destruct q2 as [q|]; [|exact I]. subst s4. rewrite hooks_set_pred, hupd_same. reflexivity.
    - eapply ts_trans; [|subst s4; destruct q2; [apply ts_set_pred|apply ts_refl]].
      eapply ts_trans; [|apply ts_set_succ]. eapply ts_trans; [|apply ts_set_pred].
      subst s1. destruct q1; [apply ts_set_succ|apply ts_refl].
    - subst s4 s3 s2 s1. destruct q1, q2; reflexivity.
    - intros j Hj. rewrite in_app_iff in Hj. cbn [In] in Hj. rewrite F4, F1; [reflexivity| | |].
      + destruct q1 as [q|]; [|discriminate]. intros E0. injection E0 as ->. tauto.
      + intros ->. tauto.
      + destruct q2 as [q|]; [|discriminate]. intros E0. injection E0 as ->. tauto.
  Qed.

  (* ---- the assignments that hang the replacement into the tree (after the slot of the parent) *)
  Definition rn_tree (s : pstate) (m : N) (parent left right : option N) (cx : option color) : pstate :=
    let s := set_parent s m parent in
    let s := set_color s m cx in
    let s := set_left s m left in
    let s := match left with Some l0 => set_parent s l0 (Some m) | None => s end in
    let s := set_right s m right in
    match right with Some r0 => set_parent s r0 (Some m) | None => s end.

  Lemma ps_rn_tree (s : pstate) m parent left right cx : ps_same (p_hooks s) (p_hooks (rn_tree s m parent left right cx)).
  Proof.
    unfold rn_tree. eapply ps_trans; [|destruct right; [apply ps_set_parent|apply ps_refl]].
    eapply ps_trans; [|apply ps_set_right]. eapply ps_trans; [|destruct left; [apply ps_set_parent|apply ps_refl]].
    eapply ps_trans; [|apply ps_set_left]. eapply ps_trans; [|apply ps_set_color]. apply ps_set_parent.
  Qed.

  Lemma replace_tree_ok ctx c l x a r xm (s : pstate) :
    NoDup (id_of xm :: ids (plug ctx (T c l x a r))) ->
    treeSs None s (plug ctx (T c l x a r)) -> tlinks_null (p_hooks s (id_of xm)) ->
    let sa := rn_tree (set_slot elt annot id_of s ctx (Some (id_of xm))) (id_of xm) (cpar id_of ctx)
                      (root_id id_of l) (root_id id_of r) (Some c) in
    p_root sa = croot id_of ctx (Some (id_of xm))
    /\ tinv id_of None (p_hooks sa) (plug ctx (T c l xm tt r)) None
    /\ ps_same (p_hooks s) (p_hooks sa)
    /\ (forall j, ~ In j (ids (plug ctx (T c l xm tt r))) -> j <> id_of x -> tlinks_null (p_hooks sa j)).
  Proof.
    clear agg aeqb ek.
    intros Nd (A & B & D) Hm sa. rewrite ids_plug in Nd, D. rewrite root_plug in A. cbn [root_id] in A.
    apply tinv_plug in B. destruct B as [Bs Bc]. cbn [tinv root_id] in Bs. destruct Bs as ((X1 & X2 & X3 & X4) & Tl & Tr).
    set (m := id_of xm) in *.
    assert (Nd0 : NoDup (cbefore id_of ctx ++ ids (T c l x a r) ++ cafter id_of ctx)) by (apply NoDup_cons_iff in Nd; tauto).
    destruct (set_slot_props _ _ id_of ctx _ s (Some (id_of x)) (Some m) Nd0 Bc A) as (R0 & C0 & F0 & P0 & _).
    set (s0 := set_slot elt annot id_of s ctx (Some m)) in *.
    cbn [inorder] in Nd.
    assert (FA : forall j, j <> m -> root_id id_of l <> Some j -> root_id id_of r <> Some j -> p_hooks sa j = p_hooks s0 j).
    { intros j J1 J2 J3. subst sa. unfold rn_tree.
      assert (G : forall (s1 : pstate) o, o <> Some j -> p_hooks (match o with Some r0 => set_parent s1 r0 (Some m) | None => s1 end) j = p_hooks s1 j).
      { intros s1 o Ho. destruct o as [r0|]; [|reflexivity]. rewrite hooks_set_parent, hupd_other; [reflexivity|].
        intros ->. apply Ho. reflexivity. }
      rewrite G by exact J3. rewrite hooks_set_right, hupd_other by exact J1. rewrite G by exact J2.
      rewrite hooks_set_left, hooks_set_color, hooks_set_parent, !hupd_other by exact J1. reflexivity. }
    assert (Nml : ~ In m (ids l)) by (subst m; ni Nd).
    assert (Nmr : ~ In m (ids r)) by (subst m; ni Nd).
    assert (Nmc : ~ In m (cids id_of ctx)) by (unfold cids; subst m; ni Nd).
    assert (Hma : p_hooks sa m = mkHook (cpar id_of ctx) (root_id id_of l) (root_id id_of r)
                                        (h_pred (p_hooks s0 m)) (h_succ (p_hooks s0 m)) (Some c)).
    { subst sa. unfold rn_tree.
      assert (G : forall (s1 : pstate) o, o <> Some m -> p_hooks (match o with Some r0 => set_parent s1 r0 (Some m) | None => s1 end) m = p_hooks s1 m).
      { intros s1 o Ho. destruct o as [r0|]; [|reflexivity]. rewrite hooks_set_parent, hupd_other; [reflexivity|].
        intros E0. apply Ho. rewrite E0. reflexivity. }
      rewrite G by (destruct r as [|? ? rx ? ?]; [discriminate|]; cbn; intros E0; injection E0 as E0; apply Nmr;
                    rewrite <- E0; cbn [inorder]; rewrite map_app, in_app_iff; right; left; reflexivity).
      rewrite hooks_set_right, hupd_same.
      rewrite G by (destruct l as [|? ? lx ? ?]; [discriminate|]; cbn; intros E0; injection E0 as E0; apply Nml;
                    rewrite <- E0; cbn [inorder]; rewrite map_app, in_app_iff; right; left; reflexivity).
      rewrite hooks_set_left, hupd_same, hooks_set_color, hupd_same, hooks_set_parent, hupd_same. reflexivity. }
    assert (Tsub : forall (t : tree), (t = l \/ t = r) -> tinv id_of None (p_hooks s) t (Some (id_of x)) ->
                                      tinv id_of None (p_hooks sa) t (Some m)).
    { intros t Ht Tt. destruct t as [|tc tl tx ta tr]; [exact I|]. cbn [tinv] in Tt |- *.
      destruct Tt as ((V1 & V2 & V3 & V4) & Ttl & Ttr).
      assert (Ntx : ~ In (id_of tx) (cids id_of ctx)) by (unfold cids; destruct Ht as [<-| <-]; ni Nd).
      assert (Hv : p_hooks sa (id_of tx) = with_parent (p_hooks s (id_of tx)) (Some m)).
      { rewrite <- (F0 _ Ntx). subst sa. unfold rn_tree.
        destruct Ht as [<-| <-]; cbn [root_id].
        - assert (G : forall (s1 : pstate) o, o <> Some (id_of tx) ->
                     p_hooks (match o with Some r0 => set_parent s1 r0 (Some m) | None => s1 end) (id_of tx) = p_hooks s1 (id_of tx)).
          { intros s1 o Ho. destruct o as [r0|]; [|reflexivity]. rewrite hooks_set_parent, hupd_other; [reflexivity|].
            intros E0. apply Ho. rewrite E0. reflexivity. }
          rewrite G by (destruct r as [|? ? rx ? ?]; [discriminate|]; cbn; ni Nd).
          rewrite hooks_set_right, hupd_other by (intros E0; apply Nml; rewrite <- E0; cbn [inorder]; rewrite map_app, in_app_iff; right; left; reflexivity).
          rewrite hooks_set_parent, hupd_same, hooks_set_left, hooks_set_color, hooks_set_parent.
          rewrite !hupd_other by (intros E0; apply Nml; rewrite <- E0; cbn [inorder]; rewrite map_app, in_app_iff; right; left; reflexivity).
          reflexivity.
        - rewrite hooks_set_parent, hupd_same.
          assert (G : forall (s1 : pstate) o, o <> Some (id_of tx) ->
                     p_hooks (match o with Some r0 => set_parent s1 r0 (Some m) | None => s1 end) (id_of tx) = p_hooks s1 (id_of tx)).
          { intros s1 o Ho. destruct o as [r0|]; [|reflexivity]. rewrite hooks_set_parent, hupd_other; [reflexivity|].
            intros E0. apply Ho. rewrite E0. reflexivity. }
          rewrite hooks_set_right, hupd_other by (intros E0; apply Nmr; rewrite <- E0; cbn [inorder]; rewrite map_app, in_app_iff; right; left; reflexivity).
          rewrite G by (destruct l as [|? ? lx ? ?]; [discriminate|]; cbn; ni Nd).
          rewrite hooks_set_left, hooks_set_color, hooks_set_parent.
          rewrite !hupd_other by (intros E0; apply Nmr; rewrite <- E0; cbn [inorder]; rewrite map_app, in_app_iff; right; left; reflexivity).
          reflexivity. }
      rewrite Hv. cbn. split; [repeat split; assumption|].
      assert (Fsub : forall j, In j (ids tl) \/ In j (ids tr) -> p_hooks sa j = p_hooks s j).
      { intros j Hj. destruct Ht as [<-| <-].
        - rewrite FA; [apply F0; unfold cids; destruct Hj; ni Nd|subst m; destruct Hj; ni Nd|cbn [root_id]; destruct Hj; ni Nd|].
          destruct r as [|? ? rx ? ?]; [discriminate|cbn [root_id]; destruct Hj; ni Nd].
        - rewrite FA; [apply F0; unfold cids; destruct Hj; ni Nd|subst m; destruct Hj; ni Nd| |cbn [root_id]; destruct Hj; ni Nd].
          destruct l as [|? ? lx ? ?]; [discriminate|cbn [root_id]; destruct Hj; ni Nd]. }
      split; (eapply tinv_ext; [|eassumption]); intros j Hj; apply Fsub; tauto. }
    split; [subst sa; unfold rn_tree; destruct (root_id id_of l), (root_id id_of r); exact R0|].
    split; [|split].
    - apply tinv_plug. cbn [tinv root_id]. fold m. rewrite Hma. cbn. split; [split; [repeat split; reflexivity|]|].
      + split; [apply (Tsub l); auto|apply (Tsub r); auto].
      + eapply cinv_ext; [|exact C0]. intros j Hj. apply FA.
        * intros ->. contradiction.
        * destruct l as [|? ? lx ? ?]; [discriminate|]. cbn. intros E0. injection E0 as <-. unfold cids in Hj. nix Nd (id_of lx).
        * destruct r as [|? ? rx ? ?]; [discriminate|]. cbn. intros E0. injection E0 as <-. unfold cids in Hj. nix Nd (id_of rx).
    - eapply ps_trans; [exact P0|apply ps_rn_tree].
    - rewrite ids_plug. cbn [inorder]. fold m. intros j Hj Hjx.
      repeat (progress (rewrite ?map_app, ?in_app_iff in Hj; cbn [map In] in Hj)). fold m in Hj.
      rewrite FA.
      + rewrite F0 by (unfold cids; rewrite in_app_iff; tauto). apply D.
        cbn [inorder]. repeat (progress (rewrite ?map_app, ?in_app_iff; cbn [map In])).
        assert (id_of x <> j) by (intros E0; apply Hjx; symmetry; exact E0). tauto.
      + intros ->. tauto.
      + destruct l as [|? ? lx ? ?]; [discriminate|]. cbn. intros E0. injection E0 as <-. apply Hj.
        cbn [inorder]. repeat (progress (rewrite ?map_app, ?in_app_iff; cbn [map In])). tauto.
      + destruct r as [|? ? rx ? ?]; [discriminate|]. cbn. intros E0. injection E0 as <-. apply Hj.
        cbn [inorder]. repeat (progress (rewrite ?map_app, ?in_app_iff; cbn [map In])). tauto.
  Qed.

  Lemma reset_links_other (s : pstate) x j : j <> x -> p_hooks (reset_links s x) j = p_hooks s j.
  Proof.
    intros H. unfold reset_links.
    rewrite hooks_set_succ, hooks_set_pred, hooks_set_parent, hooks_set_right, hooks_set_left, !hupd_other by exact H. reflexivity.
  Qed.
  Lemma reset_links_same (s : pstate) x :
    p_hooks (reset_links s x) x = mkHook None None None None None (h_color (p_hooks s x)).
  Proof.
    unfold reset_links.
    rewrite hooks_set_succ, hupd_same, hooks_set_pred, hupd_same, hooks_set_parent, hupd_same, hooks_set_right, hupd_same,
      hooks_set_left, hupd_same. reflexivity.
  Qed.

  Theorem replace_node_ok fuel ctx c l x a r xm (s : pstate) :
    NoDup (id_of xm :: ids (plug ctx (T c l x a r))) ->
    reprs None s (plug ctx (T c l x a r)) -> length ctx <= fuel ->
    exists s', replace_node agg aeqb ek fuel s (id_of x) (id_of xm) = POk s'
               /\ reprs None s' (plug ctx (T c l xm tt r))
               /\ (agg_ok agg aeqb -> ek (id_of xm) = xm -> tkeys elt id_of ek (plug ctx (T c l x a r)) ->
                   ainv elt annot id_of agg (p_annots s) (plug ctx (T c l x a r)) ->
                   ainv elt annot id_of agg (p_annots s') (plug ctx (T c l xm tt r))).
  Proof.
    intros Nd H Hf. set (m := id_of xm) in *.
    assert (Nd0 : NoDup (ids (plug ctx (T c l x a r)))) by (apply NoDup_cons_iff in Nd; tauto).
    assert (Nm : ~ In m (ids (plug ctx (T c l x a r)))) by (apply NoDup_cons_iff in Nd; tauto).
    pose proof H as (_ & _ & _ & Dall). destruct (Dall m Nm) as (M1 & M2 & M3 & M4 & M5).
    apply reprS_split in H. destruct H as [Ht Hl].
    destruct (treeS_focus_r _ _ _ _ _ _ _ _ Ht) as ((X1 & X2 & X3 & X4) & _ & _ & Bc).
    set (L1 := cbefore id_of ctx ++ ids l). set (L2 := ids r ++ cafter id_of ctx).
    assert (EL : ids (plug ctx (T c l x a r)) = L1 ++ id_of x :: L2).
    { rewrite ids_plug. cbn [inorder]. subst L1 L2. rewrite map_app. cbn [map]. rewrite <- !app_assoc. reflexivity. }
    assert (ELm : ids (plug ctx (T c l xm tt r)) = L1 ++ m :: L2).
    { rewrite ids_plug. cbn [inorder]. subst L1 L2 m. rewrite map_app. cbn [map]. rewrite <- !app_assoc. reflexivity. }
    rewrite EL in Hl, Nd, Nm. destruct Hl as [Hd Hn].
    (* the code, regrouped *)
    unfold replace_node. cbv zeta.
    replace (get_parent s (id_of x)) with (cpar id_of ctx) by (symmetry; exact X1).
    replace (get_left s (id_of x)) with (root_id id_of l) by (symmetry; exact X2).
    replace (get_right s (id_of x)) with (root_id id_of r) by (symmetry; exact X3).
    assert (ES : match cpar id_of ctx with
                 | Some p => if oeqb (Some (id_of x)) (get_left s p) then POk (set_left s p (Some m))
                             else if oeqb (Some (id_of x)) (get_right s p) then POk (set_right s p (Some m)) else PAssert 292
                 | None => POk (set_root s (Some m))
                 end = POk (set_slot elt annot id_of s ctx (Some m))).
    { rewrite <- (slot_code _ _ id_of ctx (ids (T c l x a r)) (id_of x) 292 s (Some m)).
      - destruct (cpar id_of ctx); [|reflexivity]. rewrite !(oeqb_sym (Some (id_of x))). reflexivity.
      - rewrite <- ids_plug. exact Nd0.
      - cbn [inorder]. rewrite map_app, in_app_iff. right. left. reflexivity.
      - exact Bc. }
    rewrite ES. cbn [pbind].
    set (s0 := set_slot elt annot id_of s ctx (Some m)) in *.
    assert (Nd0' : NoDup (cbefore id_of ctx ++ ids (T c l x a r) ++ cafter id_of ctx)) by (rewrite <- ids_plug; exact Nd0).
    destruct Ht as (A & B & D). pose proof A as A'. rewrite root_plug in A'. cbn [root_id] in A'.
    destruct (set_slot_props _ _ id_of ctx _ s (Some (id_of x)) (Some m) Nd0' Bc A') as (_ & _ & _ & _ & Q0).
    assert (Hxm : id_of x <> m) by (intros E0; apply Nm; rewrite <- E0, in_app_iff; right; left; reflexivity).
    assert (Ecol : get_color (set_parent s0 m (cpar id_of ctx)) (id_of x) = Some c).
    { unfold get_color. rewrite hooks_set_parent, hupd_other by exact Hxm. destruct (Q0 (id_of x)) as [_ Q]. fold s0 in Q. rewrite Q.
      apply X4. discriminate. }
    rewrite Ecol.
    change (match root_id id_of r with
            | Some r0 => set_parent (set_right match root_id id_of l with
                                               | Some l0 => set_parent (set_left (set_color (set_parent s0 m (cpar id_of ctx)) m (Some c)) m (root_id id_of l)) l0 (Some m)
                                               | None => set_left (set_color (set_parent s0 m (cpar id_of ctx)) m (Some c)) m (root_id id_of l)
                                               end m (root_id id_of r)) r0 (Some m)
            | None => set_right match root_id id_of l with
                                | Some l0 => set_parent (set_left (set_color (set_parent s0 m (cpar id_of ctx)) m (Some c)) m (root_id id_of l)) l0 (Some m)
                                | None => set_left (set_color (set_parent s0 m (cpar id_of ctx)) m (Some c)) m (root_id id_of l)
                                end m (root_id id_of r)
            end) with (rn_tree s0 m (cpar id_of ctx) (root_id id_of l) (root_id id_of r) (Some c)).
    assert (Ndm : NoDup (m :: ids (plug ctx (T c l x a r)))) by (rewrite EL; exact Nd).
    destruct (replace_tree_ok ctx c l x a r xm s Ndm (conj A (conj B D)) (conj M1 (conj M2 M3))) as (T1 & T2 & T3 & T4).
    fold m in T1, T2, T3, T4. fold s0 in T1, T2, T3, T4.
    set (sa := rn_tree s0 m (cpar id_of ctx) (root_id id_of l) (root_id id_of r) (Some c)) in *.
    assert (Hda : dll (p_hooks sa) None (L1 ++ id_of x :: L2) None).
    { revert Hd. apply dll_ext. intros j _. apply T3. }
    destruct (rn_list_ok sa L1 (id_of x) m L2 Nd Hda) as (U1 & U2 & U3 & U4).
    change (match get_succ (set_succ (set_pred match get_pred sa (id_of x) with
                                                | Some p => set_succ sa p (Some m) | None => sa end m
                                       (get_pred match get_pred sa (id_of x) with
                                                 | Some p => set_succ sa p (Some m) | None => sa end (id_of x))) m
                              (get_succ (set_pred match get_pred sa (id_of x) with
                                                  | Some p => set_succ sa p (Some m) | None => sa end m
                                           (get_pred match get_pred sa (id_of x) with
                                                     | Some p => set_succ sa p (Some m) | None => sa end (id_of x))) (id_of x))) (id_of x) with
            | Some q => set_pred _ q (Some m)
            | None => _
            end) with (rn_list sa (id_of x) m).
    set (sb := rn_list sa (id_of x) m) in *.
    set (sc := reset_links sb (id_of x)).
    destruct (aggregate_node_hooks _ _ agg aeqb ek sc m) as [G1 G2].
    set (sd := aggregate_node agg aeqb ek sc m) in *.
    assert (Nxn : ~ In (id_of x) (L1 ++ m :: L2)).
    { apply count_notin. pose proof (count_le_1 _ (id_of x) Nd) as C0. cbn [count_occ] in C0.
      rewrite !count_occ_app in *. cbn [count_occ] in *.
      destruct (N.eq_dec m (id_of x)); [exfalso; apply Hxm; symmetry; assumption|].
      destruct (N.eq_dec (id_of x) (id_of x)); [lia|contradiction]. }
    assert (Tc : tinv id_of None (p_hooks sc) (plug ctx (T c l xm tt r)) None).
    { eapply tinv_ext; [|eapply tinv_ts; [exact U2|exact T2]].
      intros j Hj. apply reset_links_other. intros ->. rewrite ELm in Hj. contradiction. }
    assert (Cc : cinv id_of None (p_hooks sd) ctx (Some m)).
    { rewrite G1. apply tinv_plug in Tc. apply Tc. }
    destruct (aggregate_path_ok _ _ id_of agg aeqb ek None ctx _ fuel sd Cc Hf) as (se & E5 & H5h & H5r).
    rewrite E5. exists se. split; [reflexivity|].
    split.
    2:{ intros [Ao1 Ao2] Km Hk Ha.
        assert (Anc : p_annots sc = p_annots s).
        { subst sc sb sa s0. unfold rn_list, rn_tree. cbv zeta.
          repeat match goal with |- context [match ?o with Some _ => _ | None => _ end] => destruct o end;
            destruct ctx as [|[] ?]; reflexivity. }
        rewrite ids_plug in Ndm. cbn [inorder] in Ndm.
        apply tkeys_plug in Hk. destruct Hk as [_ Kc].
        apply ainv_plug in Ha. destruct Ha as [Hs Hc0]. cbn [RbPtrAnnot.ainv RbPtrAnnot.aval root_id option_map] in Hs, Hc0.
        destruct Hs as (_ & Al & Ar).
        pose proof Tc as Tc'. apply tinv_plug in Tc'. destruct Tc' as [Tm _]. cbn [tinv root_id] in Tm.
        destruct Tm as ((_ & ML & MR & _) & _). fold m in ML, MR.
        set (an := p_annots s) in *.
        assert (Ed : forall i, p_annots sd i = if N.eqb i m then agg xm (aval elt annot id_of an l) (aval elt annot id_of an r) else an i).
        { intros i. subst sd. rewrite (aggregate_node_annots _ _ agg aeqb ek Ao1). unfold agg_at. rewrite ML, MR, Anc.
          rewrite Km. reflexivity. }
        assert (Nmc : ~ In m (cids id_of ctx)) by (unfold cids; unfold m; ni Ndm).
        assert (Ho : acopen elt annot id_of agg (p_annots sd) ctx).
        { apply acinv_open with (hv := Some (an (id_of x))). revert Hc0. apply acinv_ext.
          intros j Hj. rewrite Ed. destruct (N.eqb_spec j m) as [->|]; [contradiction|reflexivity]. }
        destruct (aggregate_path_annots _ _ id_of agg aeqb ek Ao1 None ctx (ids (T c l xm tt r)) (Some m) fuel sd) as (se' & E5' & _ & _ & Q1 & Q2);
          try assumption.
        { apply NoDup_cons_iff in Ndm. destruct Ndm as [Nm0 Ndm].
          apply NoDup_count_occ with (decA := N.eq_dec). intros j. pose proof (count_le_1 _ j Ndm) as C0.
          assert (Cm : count_occ N.eq_dec (cbefore id_of ctx ++ (ids l ++ id_of x :: ids r) ++ cafter id_of ctx) m = 0)
            by (apply count_occ_not_In; rewrite map_app in Nm0; exact Nm0).
          cbn [inorder]. repeat rewrite ?map_app, ?count_occ_app in *. cbn [map count_occ] in *. fold m.
          destruct (N.eq_dec m j) as [<-|]; destruct (N.eq_dec (id_of x) _); try lia; exfalso; congruence. }
        { intros i Hi. injection Hi as <-. cbn [inorder]. rewrite map_app, in_app_iff. right. left. reflexivity. }
        rewrite E5 in E5'. injection E5' as <-.
        cbn [option_map] in Q1. rewrite Ed, N.eqb_refl in Q1.
        assert (Nmn : ~ In m (cnodes elt id_of ctx)) by (intros Hc1; apply Nmc, cnodes_cids, Hc1).
        assert (Fsub : forall t0 : tree, (forall j, In j (ids t0) -> ~ In j (cids id_of ctx) /\ j <> m) ->
                                         forall j, In j (ids t0) -> p_annots se j = an j).
        { intros t0 H0 j Hj. destruct (H0 j Hj) as [H1 H2]. rewrite Q2 by (intros Hc1; apply H1, cnodes_cids, Hc1).
          rewrite Ed. destruct (N.eqb_spec j m); [contradiction|reflexivity]. }
        assert (Fl : forall j, In j (ids l) -> p_annots se j = an j).
        { apply Fsub. intros j Hj. split; [unfold cids; ni Ndm|intros ->; unfold m in *; nix Ndm (id_of xm)]. }
        assert (Fr : forall j, In j (ids r) -> p_annots se j = an j).
        { apply Fsub. intros j Hj. split; [unfold cids; ni Ndm|intros ->; unfold m in *; nix Ndm (id_of xm)]. }
        apply ainv_plug. cbn [RbPtrAnnot.ainv RbPtrAnnot.aval root_id option_map]. fold m.
        rewrite (Q2 m Nmn), Ed, N.eqb_refl.
        rewrite (aval_ext _ _ id_of an _ l Fl), (aval_ext _ _ id_of an _ r Fr).
        split; [|exact Q1]. split; [reflexivity|]. split; (eapply ainv_ext; [|eassumption]); assumption. }
    apply reprS_split. rewrite H5h, H5r, G1, G2. split.
    - split; [rewrite root_plug; cbn [root_id]; fold m; cbn; rewrite U3; exact T1|]. split; [exact Tc|].
      intros j Hj. destruct (N.eq_dec j (id_of x)) as [->|Hne].
      + subst sc. rewrite reset_links_same. repeat split.
      + subst sc. rewrite reset_links_other by exact Hne.
        destruct (U2 j) as (V1 & V2 & V3 & _). destruct (T4 j Hj Hne) as (W1 & W2 & W3). repeat split; congruence.
    - rewrite ELm. split.
      + revert U1. apply dll_ext. intros j Hj. subst sc. rewrite reset_links_other; [auto|]. intros ->. contradiction.
      + intros j Hj. destruct (N.eq_dec j (id_of x)) as [->|Hne].
        * subst sc. rewrite reset_links_same. auto.
        * subst sc. rewrite reset_links_other by exact Hne. rewrite (U4 j Hj). destruct (T3 j) as [-> ->]. apply Hn.
          rewrite in_app_iff in *. cbn [In] in *. intros [K|[K|K]]; [tauto|apply Hne; symmetry; exact K|tauto].
  Qed.
End Replace.
