(* RbModel.v — executable Gallina model of frg::rbtree / frg::rbtree_order (include/frg/rbtree.hpp).
   Definitions only, no proofs.

   A structurally recursive, status-passing functional core that takes exactly the rotations and
   recolourings of the bottom-up pointer code (compared field by field with the real code after every
   operation, see comp/rb), generalised with an annotation field:

     tree := E | T c l x a r

   where [a] is recomputed with [agg x (ann l) (ann r)] (smart constructor [mk]) at every node whose
   children change, i.e. wherever the C++ calls aggregate_node / aggregate_path (both rotated nodes,
   the replacement in replace_node, bottom-up on the insertion / unlink path).  Plain trees use
   [annot := unit]; the interval tree (C07) instantiates [agg] with the subtree maximum.

   [elt] is abstract; [id_of] names the element (pool index of the node), [less] is the comparator on
   elements (the C++ compares nodes: _less applied to node and current).  *)
From Coq Require Import NArith List Bool.
Import ListNotations.

Inductive color := Red | Black.
Inductive side := SL | SR.
(* what fix_insert is still propagating upwards: nothing / "child n must be coloured red, look at me,
   its parent" / "I am red and my child on side s is red" *)
Inductive ist := IDone | IFix | IRedRed (s : side).

Record hook := mkHook {
  h_parent : option N; h_left : option N; h_right : option N;
  h_pred : option N; h_succ : option N; h_color : option color }.
Definition null_hook := mkHook None None None None None None.

Section Rb.
  Variables elt annot : Type.
  Variable id_of : elt -> N.
  Variable less : elt -> elt -> bool.
  Variable agg : elt -> option annot -> option annot -> annot.

  Inductive tree := E | T (c : color) (l : tree) (x : elt) (a : annot) (r : tree).

  Definition ann (t : tree) : option annot := match t with E => None | T _ _ _ a _ => Some a end.
  (* aggregate_node *)
  Definition mk (c : color) (l : tree) (x : elt) (r : tree) : tree := T c l x (agg x (ann l) (ann r)) r.

  Definition isRed (t : tree) := match t with T Red _ _ _ _ => true | _ => false end.
  Definition isBlack (t : tree) := negb (isRed t).
  Definition paintB (t : tree) := match t with T _ l x a r => T Black l x a r | E => E end.
  Definition paintR (t : tree) := match t with T _ l x a r => T Red l x a r | E => E end.

  Fixpoint inorder (t : tree) : list elt :=
    match t with E => [] | T _ l x _ r => inorder l ++ x :: inorder r end.
  Fixpoint size (t : tree) : nat := match t with E => 0 | T _ l _ _ r => S (size l + size r) end.
  Fixpoint height (t : tree) : nat := match t with E => 0 | T _ l _ _ r => S (Nat.max (height l) (height r)) end.

  Fixpoint first (t : tree) : option elt :=
    match t with
    | E => None
    | T _ l x _ _ => match l with E => Some x | T _ _ _ _ _ => first l end
    end.

  (* ---------------------------------------------------------------------------------------------
     insertion: one level of fix_insert, seen from the parent of the subtree that was rebuilt.
     [sd] = side on which the rebuilt child hangs, [st] = status coming up from it. *)
  Definition up_ins (c : color) (l : tree) (x : elt) (r : tree) (sd : side) (st : ist) : tree * ist :=
    match st with
    | IDone => (mk c l x r, IDone)
    | IFix =>
        let l' := match sd with SL => paintR l | SR => l end in
        let r' := match sd with SR => paintR r | SL => r end in
        match c with
        | Black => (mk Black l' x r', IDone)
        | Red => (mk Red l' x r', IRedRed sd)
        end
    | IRedRed s =>
        match sd with
        | SL =>
            if isRed r then (mk Red (paintB l) x (paintB r), IFix)
            else match l with
                 | T _ pl px _ pr =>
                     match s with
                     | SR => match pr with
                             | T _ nl nx _ nr => (mk Black (mk Red pl px nl) nx (mk Red nr x r), IDone)
                             | E => (mk c l x r, IDone)
                             end
                     | SL => (mk Black pl px (mk Red pr x r), IDone)
                     end
                 | E => (mk c l x r, IDone)
                 end
        | SR =>
            if isRed l then (mk Red (paintB l) x (paintB r), IFix)
            else match r with
                 | T _ pl px _ pr =>
                     match s with
                     | SL => match pl with
                             | T _ nl nx _ nr => (mk Black (mk Red l x nl) nx (mk Red nr px pr), IDone)
                             | E => (mk c l x r, IDone)
                             end
                     | SR => (mk Black (mk Red l x pl) px pr, IDone)
                     end
                 | E => (mk c l x r, IDone)
                 end
        end
    end.

  (* tree_struct::insert: descend with less(node, current) -> left, else right *)
  Fixpoint ins (x : elt) (t : tree) : tree * ist :=
    match t with
    | E => (mk Red E x E, IFix)
    | T c l y _ r =>
        if less x y then let '(l', st) := ins x l in up_ins c l' y r SL st
        else let '(r', st) := ins x r in up_ins c l y r' SR st
    end.

  (* fix_insert reaching the root: n without parent is painted black *)
  Definition finish_ins (p : tree * ist) : tree :=
    let '(t', st) := p in match st with IDone => t' | _ => paintB t' end.

  Definition insert (x : elt) (t : tree) : tree := finish_ins (ins x t).

  (* tree_order_struct::insert(before, node) *)
  Fixpoint ins_last (x : elt) (t : tree) : tree * ist :=
    match t with
    | E => (mk Red E x E, IFix)
    | T c l y _ r => let '(r', st) := ins_last x r in up_ins c l y r' SR st
    end.

  Fixpoint ins_bef (b : N) (x : elt) (t : tree) : option (tree * ist) :=
    match t with
    | E => None
    | T c l y _ r =>
        if N.eqb (id_of y) b then
          let '(l', st) := ins_last x l in Some (up_ins c l' y r SL st)
        else match ins_bef b x l with
             | Some (l', st) => Some (up_ins c l' y r SL st)
             | None => match ins_bef b x r with
                       | Some (r', st) => Some (up_ins c l y r' SR st)
                       | None => None
                       end
             end
    end.

  (* [before] must be a member (precondition of the C++; otherwise the tree is returned unchanged) *)
  Definition insert_before (before : option N) (x : elt) (t : tree) : tree :=
    match before with
    | None => finish_ins (ins_last x t)
    | Some b => match ins_bef b x t with Some p => finish_ins p | None => t end
    end.

  (* ---------------------------------------------------------------------------------------------
     removal: fix_remove seen from the parent.  The boolean is "short": every path through the
     returned subtree has one black node less than before, keep fixing at the parent. *)
  (* n is the LEFT child (l, already short), sibling is black: T Black rl y rr *)
  Definition bsL (c : color) (l : tree) (x : elt) (rl : tree) (y : elt) (rr : tree) : tree * bool :=
    if isBlack rl && isBlack rr then
      (mk Black l x (mk Red rl y rr), match c with Black => true | Red => false end)
    else if isRed rl && isBlack rr then
      match rl with
      | T _ a z _ b => (mk c (mk Black l x a) z (mk Black b y rr), false)
      | E => (mk c l x (mk Black rl y rr), false)
      end
    else (mk c (mk Black l x rl) y (paintB rr), false).

  Definition balL (c : color) (l : tree) (x : elt) (r : tree) : tree * bool :=
    match r with
    | T Red rl y _ rr =>
        match rl with
        | T _ a z _ b => let '(p', _) := bsL Red l x a z b in (mk Black p' y rr, false)
        | E => (mk c l x r, false)
        end
    | T Black rl y _ rr => bsL c l x rl y rr
    | E => (mk c l x r, false)
    end.

  (* n is the RIGHT child (r, already short), sibling is black: T Black ll y lr *)
  Definition bsR (c : color) (ll : tree) (y : elt) (lr : tree) (x : elt) (r : tree) : tree * bool :=
    if isBlack ll && isBlack lr then
      (mk Black (mk Red ll y lr) x r, match c with Black => true | Red => false end)
    else if isRed lr && isBlack ll then
      match lr with
      | T _ a z _ b => (mk c (mk Black ll y a) z (mk Black b x r), false)
      | E => (mk c (mk Black ll y lr) x r, false)
      end
    else (mk c (paintB ll) y (mk Black lr x r), false).

  Definition balR (c : color) (l : tree) (x : elt) (r : tree) : tree * bool :=
    match l with
    | T Red ll y _ lr =>
        match lr with
        | T _ a z _ b => let '(p', _) := bsR Red a z b x r in (mk Black ll y p', false)
        | E => (mk c l x r, false)
        end
    | T Black ll y _ lr => bsR c ll y lr x r
    | E => (mk c l x r, false)
    end.

  (* remove_half_leaf: node of colour c with (at most) one child *)
  Definition half (c : color) (child : tree) : tree * bool :=
    match c with
    | Red => (child, false)
    | Black => if isRed child then (paintB child, false) else (child, true)
    end.

  (* unlink the maximum (= predecessor(node) when called on node's left subtree) *)
  Fixpoint remove_max (t : tree) : option (tree * elt * bool) :=
    match t with
    | E => None
    | T c l x _ r =>
        match remove_max r with
        | None => let '(t', sh) := half c l in Some (t', x, sh)
        | Some (r', m, sh) =>
            let '(t', sh') := if sh then balR c l x r' else (mk c l x r', false) in Some (t', m, sh')
        end
    end.

  (* tree_crtp_struct::remove(node) at node = T c l x r *)
  Definition del_root (c : color) (l : tree) (x : elt) (r : tree) : tree * bool :=
    match l, r with
    | E, _ => half c r
    | _, E => half c l
    | _, _ =>
        match remove_max l with
        | Some (l', m, sh) => if sh then balL c l' m r else (mk c l' m r, false)
        | None => (mk c l x r, false)
        end
    end.

  (* search by identity (with duplicate keys a key descent cannot name an element) *)
  Fixpoint del (i : N) (t : tree) : option (tree * bool) :=
    match t with
    | E => None
    | T c l x _ r =>
        if N.eqb (id_of x) i then Some (del_root c l x r)
        else match del i l with
             | Some (l', sh) => Some (if sh then balL c l' x r else (mk c l' x r, false))
             | None => match del i r with
                       | Some (r', sh) => Some (if sh then balR c l x r' else (mk c l x r', false))
                       | None => None
                       end
             end
    end.

  (* the root is NOT repainted by the C++; [i] must be a member (else unchanged) *)
  Definition remove (i : N) (t : tree) : tree :=
    match del i t with Some (t', _) => t' | None => t end.

  (* ---------------------------------------------------------------------------------------------
     layout: what every hook field of every element must be *)
  Definition root_id (t : tree) : option N := match t with E => None | T _ _ x _ _ => Some (id_of x) end.
  Fixpoint min_id (t : tree) : option N :=
    match t with E => None | T _ l x _ _ => match l with E => Some (id_of x) | T _ _ _ _ _ => min_id l end end.
  Fixpoint max_id (t : tree) : option N :=
    match t with E => None | T _ _ x _ r => match r with E => Some (id_of x) | T _ _ _ _ _ => max_id r end end.
  Definition oor (a b : option N) : option N := match a with Some _ => a | None => b end.

  (* [par] parent of the subtree root, [lo]/[hi] the in-order neighbours of the whole subtree *)
  Fixpoint lay (t : tree) (par lo hi : option N) : list (N * hook) :=
    match t with
    | E => []
    | T c l x _ r =>
        let i := Some (id_of x) in
        lay l i lo i
        ++ (id_of x, mkHook par (root_id l) (root_id r) (oor (max_id l) lo) (oor (min_id r) hi) (Some c))
        :: lay r i i hi
    end.
  Definition layout_list (t : tree) : list (N * hook) := lay t None None None.

  Fixpoint lookup (i : N) (l : list (N * hook)) : hook :=
    match l with
    | [] => null_hook
    | (j, h) :: l' => if N.eqb j i then h else lookup i l'
    end.
  Definition layout (t : tree) (i : N) : hook := lookup i (layout_list t).

  (* ---------------------------------------------------------------------------------------------
     histories *)
  Inductive op := OIns (x : elt) | ORem (i : N).                      (* frg::rbtree *)
  Inductive oop := OInsBefore (b : option N) (x : elt) | OORem (i : N). (* frg::rbtree_order *)
  Definition rb_step (t : tree) (o : op) : tree :=
    match o with OIns x => insert x t | ORem i => remove i t end.
  Definition rbo_step (t : tree) (o : oop) : tree :=
    match o with OInsBefore b x => insert_before b x t | OORem i => remove i t end.
End Rb.

Arguments E {elt annot}.
Arguments T {elt annot} c l x a r.
Arguments ann {elt annot} t.
Arguments mk {elt annot} agg c l x r.
Arguments isRed {elt annot} t.
Arguments isBlack {elt annot} t.
Arguments paintB {elt annot} t.
Arguments paintR {elt annot} t.
Arguments inorder {elt annot} t.
Arguments size {elt annot} t.
Arguments height {elt annot} t.
Arguments first {elt annot} t.
Arguments up_ins {elt annot} agg c l x r sd st.
Arguments ins {elt annot} less agg x t.
Arguments finish_ins {elt annot} p.
Arguments insert {elt annot} less agg x t.
Arguments ins_last {elt annot} agg x t.
Arguments ins_bef {elt annot} id_of agg b x t.
Arguments insert_before {elt annot} id_of agg before x t.
Arguments bsL {elt annot} agg c l x rl y rr.
Arguments balL {elt annot} agg c l x r.
Arguments bsR {elt annot} agg c ll y lr x r.
Arguments balR {elt annot} agg c l x r.
Arguments half {elt annot} c child.
Arguments remove_max {elt annot} agg t.
Arguments del_root {elt annot} agg c l x r.
Arguments del {elt annot} id_of agg i t.
Arguments remove {elt annot} id_of agg i t.
Arguments root_id {elt annot} id_of t.
Arguments min_id {elt annot} id_of t.
Arguments max_id {elt annot} id_of t.
Arguments lay {elt annot} id_of t par lo hi.
Arguments layout_list {elt annot} id_of t.
Arguments layout {elt annot} id_of t i.
Arguments OIns {elt} x.
Arguments ORem {elt} i.
Arguments OInsBefore {elt} b x.
Arguments OORem {elt} i.
Arguments rb_step {elt annot} id_of less agg t o.
Arguments rbo_step {elt annot} id_of agg t o.

(* The plain instance used by C06: element = (key, id), no annotation. *)
Definition pelt := (N * N)%type.
Definition pid (e : pelt) : N := snd e.
Definition pkey (e : pelt) : N := fst e.
Definition pless (lt : N -> N -> bool) (a b : pelt) : bool := lt (fst a) (fst b).
Definition pagg (_ : pelt) (_ _ : option unit) : unit := tt.
Definition ptree := tree pelt unit.
