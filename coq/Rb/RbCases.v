(* RbCases.v — which rebalancing cases of fix_insert / fix_remove an operation of the model goes through.
   Statistics only (input-distribution histogram of the check, generator targeting); nothing is proved
   about these functions and no theorem depends on them.  Tags:
     insertion   1 parent black            2 parent red (red-red to resolve at the grandparent)
                 3 red uncle, parent is left child     4 red uncle, parent is right child
                 5 left-left single rotation           6 left-right double rotation
                 7 right-right single rotation         8 right-left double rotation
                 9 fix_insert reached the root (painted black)
     removal     10 n left, red sibling pre-rotation   20 n right, red sibling pre-rotation
                 11/21 black nephews, parent black (recurse)   12/22 black nephews, parent red
                 13/23 near nephew red (double rotation)       14/24 far nephew red (single rotation)
                 30 unlinked node red   31 unlinked node black with red child   32 unlinked node black, fix_remove runs
                 40 no left child   41 no right child   42 two children (predecessor replaces)
                 43 two children and the predecessor is the left child
                 44 fix_remove reached the root *)
From Coq Require Import NArith List Bool.
From FV Require Import Rb.RbModel.
Import ListNotations.
Local Open Scope N_scope.

Section Cases.
  Variables elt annot : Type.
  Variable id_of : elt -> N.
  Variable less : elt -> elt -> bool.
  Variable agg : elt -> option annot -> option annot -> annot.
  Notation tree := (tree elt annot).

  Definition up_ins_case (c : color) (l r : tree) (sd : side) (st : ist) : list N :=
    match st with
    | IDone => []
    | IFix => match c with Black => [1] | Red => [2] end
    | IRedRed s =>
        match sd with
        | SL => if isRed r then [3] else match s with SL => [5] | SR => [6] end
        | SR => if isRed l then [4] else match s with SR => [7] | SL => [8] end
        end
    end.

  Definition fin_case (st : ist) : list N := match st with IDone => [] | _ => [9] end.

  Fixpoint ins_cases (x : elt) (t : tree) : list N * ist :=
    match t with
    | E => ([], IFix)
    | T c l y _ r =>
        if less x y then
          let '(l', st) := ins less agg x l in
          let '(_, st') := up_ins agg c l' y r SL st in
          (fst (ins_cases x l) ++ up_ins_case c l' r SL st, st')
        else
          let '(r', st) := ins less agg x r in
          let '(_, st') := up_ins agg c l y r' SR st in
          (fst (ins_cases x r) ++ up_ins_case c l r' SR st, st')
    end.
  Definition insert_cases (x : elt) (t : tree) : list N :=
    let '(cs, st) := ins_cases x t in cs ++ fin_case st.

  Fixpoint ins_last_cases (x : elt) (t : tree) : list N * ist :=
    match t with
    | E => ([], IFix)
    | T c l y _ r =>
        let '(r', st) := ins_last agg x r in
        let '(_, st') := up_ins agg c l y r' SR st in
        (fst (ins_last_cases x r) ++ up_ins_case c l r' SR st, st')
    end.

  Fixpoint ins_bef_cases (b : N) (x : elt) (t : tree) : option (list N * ist) :=
    match t with
    | E => None
    | T c l y _ r =>
        if N.eqb (id_of y) b then
          let '(l', st) := ins_last agg x l in
          let '(_, st') := up_ins agg c l' y r SL st in
          Some (fst (ins_last_cases x l) ++ up_ins_case c l' r SL st, st')
        else match ins_bef id_of agg b x l, ins_bef_cases b x l with
             | Some (l', st), Some (cs, _) =>
                 let '(_, st') := up_ins agg c l' y r SL st in Some (cs ++ up_ins_case c l' r SL st, st')
             | _, _ =>
                 match ins_bef id_of agg b x r, ins_bef_cases b x r with
                 | Some (r', st), Some (cs, _) =>
                     let '(_, st') := up_ins agg c l y r' SR st in Some (cs ++ up_ins_case c l r' SR st, st')
                 | _, _ => None
                 end
             end
    end.
  Definition insert_before_cases (before : option N) (x : elt) (t : tree) : list N :=
    match before with
    | None => let '(cs, st) := ins_last_cases x t in cs ++ fin_case st
    | Some b => match ins_bef_cases b x t with Some (cs, st) => cs ++ fin_case st | None => [] end
    end.

  Definition bs_case (base : N) (c : color) (near far : tree) : list N :=
    if isBlack near && isBlack far then [match c with Black => base + 1 | Red => base + 2 end]
    else if isRed near && isBlack far then [base + 3] else [base + 4].

  Definition balL_case (c : color) (r : tree) : list N :=
    match r with
    | T Red rl _ _ _ => match rl with T _ a _ _ b => 10 :: bs_case 10 Red a b | E => [] end
    | T Black rl _ _ rr => bs_case 10 c rl rr
    | E => []
    end.
  Definition balR_case (c : color) (l : tree) : list N :=
    match l with
    | T Red _ _ _ lr => match lr with T _ a _ _ b => 20 :: bs_case 20 Red b a | E => [] end
    | T Black ll _ _ lr => bs_case 20 c lr ll
    | E => []
    end.
  Definition half_case (c : color) (child : tree) : list N :=
    match c with Red => [30] | Black => if isRed child then [31] else [32] end.

  Fixpoint remove_max_cases (t : tree) : list N :=
    match t with
    | E => []
    | T c l x _ r =>
        match remove_max agg r with
        | None => half_case c l
        | Some (_, _, sh) => remove_max_cases r ++ (if sh then balR_case c l else [])
        end
    end.

  Definition del_root_cases (c : color) (l r : tree) : list N :=
    match l, r with
    | E, _ => 40 :: half_case c r
    | _, E => 41 :: half_case c l
    | T _ _ _ _ lr, _ =>
        42 :: (match lr with E => [43] | _ => [] end) ++ remove_max_cases l ++
        match remove_max agg l with Some (_, _, true) => balL_case c r | _ => [] end
    end.

  Fixpoint del_cases (i : N) (t : tree) : option (list N) :=
    match t with
    | E => None
    | T c l x _ r =>
        if N.eqb (id_of x) i then Some (del_root_cases c l r)
        else match del id_of agg i l, del_cases i l with
             | Some (_, sh), Some cs => Some (cs ++ if sh then balL_case c r else [])
             | _, _ =>
                 match del id_of agg i r, del_cases i r with
                 | Some (_, sh), Some cs => Some (cs ++ if sh then balR_case c l else [])
                 | _, _ => None
                 end
             end
    end.
  Definition remove_cases (i : N) (t : tree) : list N :=
    match del_cases i t, del id_of agg i t with
    | Some cs, Some (_, sh) => cs ++ (if sh then [44] else [])
    | _, _ => []
    end.
End Cases.

Arguments insert_cases {elt annot} less agg x t.
Arguments insert_before_cases {elt annot} id_of agg before x t.
Arguments remove_cases {elt annot} id_of agg i t.
