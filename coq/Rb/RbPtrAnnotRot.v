(* RbPtrAnnotRot.v — rotations keep the annotation heap consistent (for rotation-invariant aggregates); invariance of
   "the heap represents some tree with consistent annotations" under set_color, rotateLeft, rotateRight and therefore
   under the loops fix_insert / fix_remove; uniqueness of the represented tree. *)
From Coq Require Import NArith List Bool Lia PeanoNat.
From FV Require Import Rb.RbModel Rb.RbLayout Rb.RbPtr Rb.RbPtrBase Rb.RbPtrRefineRot Rb.RbPtrRefineIns Rb.RbPtrRefineReplace Rb.RbPtrAnnot.
Import ListNotations.

Section AnnotRot.
  Variables elt annot : Type.
  Variable id_of : elt -> N.
  Variable agg : elt -> option annot -> option annot -> annot.
  Variable aeqb : annot -> annot -> bool.
  Variable ek : N -> elt.
  Notation tree := (tree elt unit).
  Notation frame := (frame elt).
  Notation ids t := (map id_of (inorder t)).
  Notation pstate := (pstate annot).
  Notation treeSs := (treeSs elt annot id_of).
  Notation ainv := (ainv elt annot id_of agg).
  Notation acinv := (acinv elt annot id_of agg).
  Notation aval := (aval elt annot id_of).
  Notation tkeys := (tkeys elt id_of ek).
  Notation agg_at := (agg_at elt annot agg ek).

  Hypothesis aeqb_eq : forall a b, aeqb a b = true <-> a = b.
  Hypothesis agg_rot : forall u n (A B C : option annot), agg n (Some (agg u A B)) C = agg u A (Some (agg n B C)).

  Lemma an_set_slot (s : pstate) ctx v : p_annots (set_slot elt annot id_of s ctx v) = p_annots s.
  Proof. destruct ctx as [|[] ?]; reflexivity. Qed.

  (* ---- what a rotation writes into the annotation heap *)
  Lemma rotateLeft_annots_eq (s : pstate) n s' :
    rotateLeft agg aeqb ek s n = POk s' ->
    exists u, get_parent s n = Some u /\ oeqb (get_right s u) (Some n) = true
              /\ forall i, p_annots s' i = agg_at (p_hooks s') (agg_at (p_hooks s') (p_annots s) u) n i.
  Proof.
    unfold rotateLeft. destruct (get_parent s n) as [u|] eqn:Ep; [|discriminate].
    destruct (oeqb (get_right s u) (Some n)) eqn:Er; cbn [negb]; [|discriminate]. cbv zeta.
    set (s5 := set_parent _ n (get_parent s u)).
    assert (A5 : p_annots s5 = p_annots s) by (subst s5; destruct (get_left s n); reflexivity).
    intros H. exists u. split; [first [reflexivity|exact Ep]|]. split; [first [reflexivity|exact Er]|].
    assert (G : forall s6 : pstate, p_annots s6 = p_annots s -> POk (aggregate_node agg aeqb ek (aggregate_node agg aeqb ek s6 u) n) = POk s' ->
                forall i, p_annots s' i = agg_at (p_hooks s') (agg_at (p_hooks s') (p_annots s) u) n i).
    { intros s6 A6 E0 i. injection E0 as <-.
      destruct (aggregate_node_hooks _ _ agg aeqb ek (aggregate_node agg aeqb ek s6 u) n) as [-> _].
      destruct (aggregate_node_hooks _ _ agg aeqb ek s6 u) as [Eh _].
      rewrite (aggregate_node_annots _ _ agg aeqb ek aeqb_eq). rewrite Eh. unfold RbPtrAnnot.agg_at.
      destruct (N.eqb i n).
      - f_equal; (destruct (_ (p_hooks s6 n)) as [j|]; cbn [option_map]; [|reflexivity]); f_equal;
          rewrite (aggregate_node_annots _ _ agg aeqb ek aeqb_eq); unfold RbPtrAnnot.agg_at; rewrite A6; reflexivity.
      - rewrite (aggregate_node_annots _ _ agg aeqb ek aeqb_eq). unfold RbPtrAnnot.agg_at. rewrite A6. reflexivity. }
    destruct (get_parent s u) as [w|].
    - destruct (oeqb (get_left s5 w) (Some u)); cbn [pbind] in H; [exact (G (set_left s5 w (Some n)) A5 H)|].
      destruct (oeqb (get_right s5 w) (Some u)); cbn [pbind] in H; [exact (G (set_right s5 w (Some n)) A5 H)|discriminate].
    - cbn [pbind] in H. exact (G (set_root s5 (Some n)) A5 H).
  Qed.

  Lemma rotateRight_annots_eq (s : pstate) n s' :
    rotateRight agg aeqb ek s n = POk s' ->
    exists u, get_parent s n = Some u /\ oeqb (get_left s u) (Some n) = true
              /\ forall i, p_annots s' i = agg_at (p_hooks s') (agg_at (p_hooks s') (p_annots s) u) n i.
  Proof.
    unfold rotateRight. destruct (get_parent s n) as [u|] eqn:Ep; [|discriminate].
    destruct (oeqb (get_left s u) (Some n)) eqn:Er; cbn [negb]; [|discriminate]. cbv zeta.
    set (s5 := set_parent _ n (get_parent s u)).
    assert (A5 : p_annots s5 = p_annots s) by (subst s5; destruct (get_right s n); reflexivity).
    intros H. exists u. split; [first [reflexivity|exact Ep]|]. split; [first [reflexivity|exact Er]|].
    assert (G : forall s6 : pstate, p_annots s6 = p_annots s -> POk (aggregate_node agg aeqb ek (aggregate_node agg aeqb ek s6 u) n) = POk s' ->
                forall i, p_annots s' i = agg_at (p_hooks s') (agg_at (p_hooks s') (p_annots s) u) n i).
    { intros s6 A6 E0 i. injection E0 as <-.
      destruct (aggregate_node_hooks _ _ agg aeqb ek (aggregate_node agg aeqb ek s6 u) n) as [-> _].
      destruct (aggregate_node_hooks _ _ agg aeqb ek s6 u) as [Eh _].
      rewrite (aggregate_node_annots _ _ agg aeqb ek aeqb_eq). rewrite Eh. unfold RbPtrAnnot.agg_at.
      destruct (N.eqb i n).
      - f_equal; (destruct (_ (p_hooks s6 n)) as [j|]; cbn [option_map]; [|reflexivity]); f_equal;
          rewrite (aggregate_node_annots _ _ agg aeqb ek aeqb_eq); unfold RbPtrAnnot.agg_at; rewrite A6; reflexivity.
      - rewrite (aggregate_node_annots _ _ agg aeqb ek aeqb_eq). unfold RbPtrAnnot.agg_at. rewrite A6. reflexivity. }
    destruct (get_parent s u) as [w|].
    - destruct (oeqb (get_left s5 w) (Some u)); cbn [pbind] in H; [exact (G (set_left s5 w (Some n)) A5 H)|].
      destruct (oeqb (get_right s5 w) (Some u)); cbn [pbind] in H; [exact (G (set_right s5 w (Some n)) A5 H)|discriminate].
    - cbn [pbind] in H. exact (G (set_root s5 (Some n)) A5 H).
  Qed.

  Lemma aval_off an an' (t : tree) : (forall j, root_id id_of t = Some j -> an' j = an j) -> aval an' t = aval an t.
  Proof. unfold RbPtrAnnot.aval. destruct (root_id id_of t) as [j|]; cbn; intros H; [rewrite H; reflexivity|reflexivity]. Qed.

  (* ---- a rotation keeps a consistent annotation heap consistent *)
  Lemma rotateLeft_ainv ctx cu xl xu a1 cn v xn a2 y (s s' : pstate) :
    NoDup (ids (plug ctx (T cu xl xu a1 (T cn v xn a2 y)))) ->
    treeSs None s (plug ctx (T cu xl xu a1 (T cn v xn a2 y))) ->
    ek (id_of xu) = xu -> ek (id_of xn) = xn ->
    ainv (p_annots s) (plug ctx (T cu xl xu a1 (T cn v xn a2 y))) ->
    rotateLeft agg aeqb ek s (id_of xn) = POk s' ->
    treeSs None s' (plug ctx (T cn (T cu xl xu tt v) xn tt y))
    /\ ainv (p_annots s') (plug ctx (T cn (T cu xl xu tt v) xn tt y)).
  Proof.
    intros Nd Ht Ku Kn Ha E.
    destruct (rotateLeft_t _ _ id_of agg aeqb ek ctx cu xl xu a1 cn v xn a2 y s Nd Ht) as (s'' & E' & Ht' & _).
    rewrite E in E'. injection E' as <-. split; [exact Ht'|].
    destruct (rotateLeft_annots_eq s (id_of xn) s' E) as (u0 & Ep & _ & Ean).
    destruct (treeS_focus_r _ _ id_of agg _ _ _ _ _ _ _ _ Ht) as (_ & _ & Tn & _).
    cbn [tinv] in Tn. destruct Tn as ((Np & _) & _). unfold get_parent in Ep. rewrite Np in Ep. injection Ep as <-.
    destruct (treeS_focus_r _ _ id_of agg _ _ _ _ _ _ _ _ Ht') as ((_ & NL & NR & _) & Tu & _).
    cbn [tinv root_id] in Tu, NL. destruct Tu as ((_ & UL & UR & _) & _).
    rewrite ids_plug in Nd. cbn [inorder] in Nd.
    set (u := id_of xu) in *. set (n := id_of xn) in *. set (an := p_annots s) in *.
    assert (Hun : u <> n) by (subst u n; ni Nd).
    apply ainv_plug in Ha. destruct Ha as [Hs Hc]. cbn [RbPtrAnnot.ainv RbPtrAnnot.aval root_id option_map] in Hs, Hc.
    destruct Hs as (Eu & Axl & (En & Av & Ay)). fold u n in Eu, En, Hc.
    set (an1 := agg_at (p_hooks s') an u). set (an2 := agg_at (p_hooks s') an1 n).
    assert (E1u : an1 u = agg xu (aval an xl) (aval an v)).
    { subst an1. unfold RbPtrAnnot.agg_at. rewrite N.eqb_refl, UL, UR, Ku. reflexivity. }
    assert (E1o : forall j, j <> u -> an1 j = an j).
    { intros j Hj. subst an1. unfold RbPtrAnnot.agg_at. destruct (N.eqb_spec j u); [contradiction|reflexivity]. }
    assert (E2o : forall j, j <> n -> an2 j = an1 j).
    { intros j Hj. subst an2. unfold RbPtrAnnot.agg_at. destruct (N.eqb_spec j n); [contradiction|reflexivity]. }
    assert (Fr : forall (t0 : tree), ~ In u (ids t0) -> ~ In n (ids t0) -> forall j, In j (ids t0) -> an2 j = an j).
    { intros t0 H1 H2 j Hj. rewrite E2o, E1o; [reflexivity| |]; intros ->; contradiction. }
    assert (Nuxl : ~ In u (ids xl)) by (subst u; ni Nd). assert (Nnxl : ~ In n (ids xl)) by (subst n; ni Nd).
    assert (Nuv : ~ In u (ids v)) by (subst u; ni Nd). assert (Nnv : ~ In n (ids v)) by (subst n; ni Nd).
    assert (Nuy : ~ In u (ids y)) by (subst u; ni Nd). assert (Nny : ~ In n (ids y)) by (subst n; ni Nd).
    assert (E2n : an2 n = an u).
    { subst an2. unfold RbPtrAnnot.agg_at at 1. rewrite N.eqb_refl, NL, NR, Kn. cbn [option_map]. rewrite E1u.
      replace (option_map an1 (root_id id_of y)) with (aval an y).
      2:{ symmetry. apply (aval_ext _ _ id_of). intros j Hj. apply E1o. intros ->. contradiction. }
      rewrite agg_rot, <- En. symmetry. exact Eu. }
    intros. cbv beta.
    assert (Ean' : ainv an2 (plug ctx (T cn (T cu xl xu tt v) xn tt y))).
    { apply ainv_plug. cbn [RbPtrAnnot.ainv RbPtrAnnot.aval root_id option_map]. fold u n. split.
      - rewrite (aval_ext _ _ id_of an an2 y (Fr y Nuy Nny)).
        rewrite (aval_ext _ _ id_of an an2 xl (Fr xl Nuxl Nnxl)), (aval_ext _ _ id_of an an2 v (Fr v Nuv Nnv)).
        rewrite (E2o u Hun), E1u. split.
        + subst an2. unfold RbPtrAnnot.agg_at at 1. rewrite N.eqb_refl, NL, NR, Kn. cbn [option_map]. rewrite E1u.
          f_equal. apply (aval_ext _ _ id_of). intros j Hj. apply E1o. intros ->. contradiction.
        + split; [split; [reflexivity|split]|];
            [apply (ainv_ext _ _ id_of agg an an2 xl); [apply Fr; assumption|exact Axl]
            |apply (ainv_ext _ _ id_of agg an an2 v); [apply Fr; assumption|exact Av]
            |apply (ainv_ext _ _ id_of agg an an2 y); [apply Fr; assumption|exact Ay]].
      - rewrite E2n. revert Hc. apply acinv_ext. intros j Hj. unfold cids in Hj. rewrite E2o, E1o; [reflexivity| |]; intros ->; subst u n; nix Nd (id_of xu) || nix Nd (id_of xn). }
    eapply ainv_ext; [|exact Ean']. intros j _. apply Ean.
  Qed.

  Lemma rotateRight_ainv ctx cu xl xu a1 cn v xn a2 y (s s' : pstate) :
    NoDup (ids (plug ctx (T cu (T cn y xn a2 v) xu a1 xl))) ->
    treeSs None s (plug ctx (T cu (T cn y xn a2 v) xu a1 xl)) ->
    ek (id_of xu) = xu -> ek (id_of xn) = xn ->
    ainv (p_annots s) (plug ctx (T cu (T cn y xn a2 v) xu a1 xl)) ->
    rotateRight agg aeqb ek s (id_of xn) = POk s' ->
    treeSs None s' (plug ctx (T cn y xn tt (T cu v xu tt xl)))
    /\ ainv (p_annots s') (plug ctx (T cn y xn tt (T cu v xu tt xl))).
  Proof.
    intros Nd Ht Ku Kn Ha E.
    destruct (rotateRight_t _ _ id_of agg aeqb ek ctx cu xl xu a1 cn v xn a2 y s Nd Ht) as (s'' & E' & Ht' & _).
    rewrite E in E'. injection E' as <-. split; [exact Ht'|].
    destruct (rotateRight_annots_eq s (id_of xn) s' E) as (u0 & Ep & _ & Ean).
    destruct (treeS_focus_r _ _ id_of agg _ _ _ _ _ _ _ _ Ht) as (_ & Tn & _ & _).
    cbn [tinv] in Tn. destruct Tn as ((Np & _) & _). unfold get_parent in Ep. rewrite Np in Ep. injection Ep as <-.
    destruct (treeS_focus_r _ _ id_of agg _ _ _ _ _ _ _ _ Ht') as ((_ & NL & NR & _) & _ & Tu & _).
    cbn [tinv root_id] in Tu, NR. destruct Tu as ((_ & UL & UR & _) & _).
    rewrite ids_plug in Nd. cbn [inorder] in Nd.
    set (u := id_of xu) in *. set (n := id_of xn) in *. set (an := p_annots s) in *.
    assert (Hun : u <> n) by (subst u n; ni Nd).
    apply ainv_plug in Ha. destruct Ha as [Hs Hc]. cbn [RbPtrAnnot.ainv RbPtrAnnot.aval root_id option_map] in Hs, Hc.
    destruct Hs as (Eu & (En & Ay & Av) & Axl). fold u n in Eu, En, Hc.
    set (an1 := agg_at (p_hooks s') an u). set (an2 := agg_at (p_hooks s') an1 n).
    assert (E1u : an1 u = agg xu (aval an v) (aval an xl)).
    { subst an1. unfold RbPtrAnnot.agg_at. rewrite N.eqb_refl, UL, UR, Ku. reflexivity. }
    assert (E1o : forall j, j <> u -> an1 j = an j).
    { intros j Hj. subst an1. unfold RbPtrAnnot.agg_at. destruct (N.eqb_spec j u); [contradiction|reflexivity]. }
    assert (E2o : forall j, j <> n -> an2 j = an1 j).
    { intros j Hj. subst an2. unfold RbPtrAnnot.agg_at. destruct (N.eqb_spec j n); [contradiction|reflexivity]. }
    assert (Fr : forall (t0 : tree), ~ In u (ids t0) -> ~ In n (ids t0) -> forall j, In j (ids t0) -> an2 j = an j).
    { intros t0 H1 H2 j Hj. rewrite E2o, E1o; [reflexivity| |]; intros ->; contradiction. }
    assert (Nuxl : ~ In u (ids xl)) by (subst u; ni Nd). assert (Nnxl : ~ In n (ids xl)) by (subst n; ni Nd).
    assert (Nuv : ~ In u (ids v)) by (subst u; ni Nd). assert (Nnv : ~ In n (ids v)) by (subst n; ni Nd).
    assert (Nuy : ~ In u (ids y)) by (subst u; ni Nd). assert (Nny : ~ In n (ids y)) by (subst n; ni Nd).
    assert (E2n : an2 n = an u).
    { subst an2. unfold RbPtrAnnot.agg_at at 1. rewrite N.eqb_refl, NL, NR, Kn. cbn [option_map]. rewrite E1u.
      replace (option_map an1 (root_id id_of y)) with (aval an y).
      2:{ symmetry. apply (aval_ext _ _ id_of). intros j Hj. apply E1o. intros ->. contradiction. }
      rewrite <- agg_rot, <- En. symmetry. exact Eu. }
    assert (Ean' : ainv an2 (plug ctx (T cn y xn tt (T cu v xu tt xl)))).
    { apply ainv_plug. cbn [RbPtrAnnot.ainv RbPtrAnnot.aval root_id option_map]. fold u n. split.
      - rewrite (aval_ext _ _ id_of an an2 y (Fr y Nuy Nny)).
        rewrite (aval_ext _ _ id_of an an2 xl (Fr xl Nuxl Nnxl)), (aval_ext _ _ id_of an an2 v (Fr v Nuv Nnv)).
        rewrite (E2o u Hun), E1u. split.
        + subst an2. unfold RbPtrAnnot.agg_at at 1. rewrite N.eqb_refl, NL, NR, Kn. cbn [option_map]. rewrite E1u.
          f_equal. apply (aval_ext _ _ id_of). intros j Hj. apply E1o. intros ->. contradiction.
        + split; [|split; [reflexivity|split]];
            [apply (ainv_ext _ _ id_of agg an an2 y); [apply Fr; assumption|exact Ay]
            |apply (ainv_ext _ _ id_of agg an an2 v); [apply Fr; assumption|exact Av]
            |apply (ainv_ext _ _ id_of agg an an2 xl); [apply Fr; assumption|exact Axl]].
      - rewrite E2n. revert Hc. apply acinv_ext. intros j Hj. unfold cids in Hj. rewrite E2o, E1o; [reflexivity| |]; intros ->; subst u n; nix Nd (id_of xu) || nix Nd (id_of xn). }
    eapply ainv_ext; [|exact Ean']. intros j _. apply Ean.
  Qed.
End AnnotRot.
