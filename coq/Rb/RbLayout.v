(* RbLayout.v — consistency of the hook fields computed by [layout]: the predecessor/successor fields form
   the doubly linked list of the in-order walk, parent is the inverse of left/right, left/right are the
   roots of the subtrees, non-members have the null hook. *)
From Coq Require Import NArith List Bool Lia.
From FV Require Import Rb.RbModel.
Import ListNotations.

(* walking the successor fields *)
Fixpoint walk_succ (f : N -> hook) (fuel : nat) (cur : option N) : list N :=
  match fuel, cur with
  | S k, Some x => x :: walk_succ f k (h_succ (f x))
  | _, _ => []
  end.
(* the list l is doubly linked through h_pred / h_succ, starting after [prev] and ending in None *)
Fixpoint chain (f : N -> hook) (prev : option N) (l : list N) : Prop :=
  match l with
  | [] => True
  | x :: l' => h_pred (f x) = prev /\ h_succ (f x) = hd_error l' /\ chain f (Some x) l'
  end.

Lemma chain_nth f p l : chain f p l -> forall k x, nth_error l k = Some x ->
  h_pred (f x) = match k with 0 => p | S k' => nth_error l k' end /\ h_succ (f x) = nth_error l (S k).
Proof.
  revert p. induction l as [|a l IH]; intros p H k x Hk; [destruct k; discriminate|].
  cbn [chain] in H. destruct H as (H1 & H2 & H3). destruct k as [|k]; cbn [nth_error] in *.
  - injection Hk as <-. split; [exact H1|]. rewrite H2. destruct l; reflexivity.
  - destruct (IH _ H3 k x Hk) as [A B]. split; [|exact B].
    destruct k; [exact A|exact A].
Qed.

Lemma chain_walk f p l : chain f p l -> forall n, length l <= n -> walk_succ f n (hd_error l) = l.
Proof.
  revert p. induction l as [|a l IH]; intros p H n Hn; [destruct n; reflexivity|].
  cbn [chain] in H. destruct H as (H1 & H2 & H3). cbn [length] in Hn.
  destruct n as [|n]; [lia|]. cbn [hd_error walk_succ]. rewrite H2. f_equal. apply (IH _ H3). lia.
Qed.


Section RbLayout.
  Variables elt annot : Type.
  Variable id_of : elt -> N.
  Notation tree := (tree elt annot).
  Notation ids l := (map id_of l).

  (* ---- lookup in association lists *)
  Lemma lookup_notin i es : ~ In i (map fst es) -> lookup i es = null_hook.
  Proof.
    induction es as [|[j h] es IH]; cbn [lookup map fst In]; intros H; [reflexivity|].
    destruct (N.eqb j i) eqn:E; [apply N.eqb_eq in E; tauto|]. apply IH. tauto.
  Qed.
  Lemma lookup_app_notin i es1 es2 : ~ In i (map fst es1) -> lookup i (es1 ++ es2) = lookup i es2.
  Proof.
    induction es1 as [|[j h] es IH]; cbn [lookup map fst In app]; intros H; [reflexivity|].
    destruct (N.eqb j i) eqn:E; [apply N.eqb_eq in E; tauto|]. apply IH. tauto.
  Qed.
  Lemma lookup_app_in i es1 es2 : In i (map fst es1) -> lookup i (es1 ++ es2) = lookup i es1.
  Proof.
    induction es1 as [|[j h] es IH]; cbn [lookup map fst In app]; intros H; [tauto|].
    destruct (N.eqb j i) eqn:E; [reflexivity|]. apply N.eqb_neq in E. apply IH. tauto.
  Qed.
  Lemma lookup_head i h es : lookup i ((i, h) :: es) = h.
  Proof. cbn [lookup]. rewrite N.eqb_refl. reflexivity. Qed.

  (* ---- the entries of [lay] are the in-order ids *)
  Lemma lay_ids (t : tree) par lo hi : map fst (lay id_of t par lo hi) = ids (inorder t).
  Proof.
    revert par lo hi. induction t as [|c l IHl x a r IHr]; intros par lo hi; cbn [lay inorder map]; [reflexivity|].
    rewrite !map_app. cbn [map fst]. rewrite IHl, IHr. reflexivity.
  Qed.

  Theorem layout_nonmember (t : tree) i : ~ In i (ids (inorder t)) -> layout id_of t i = null_hook.
  Proof. intros H. unfold layout, layout_list. apply lookup_notin. rewrite lay_ids. exact H. Qed.

  (* ---- pred / succ *)
  Lemma min_id_spec (t : tree) : min_id id_of t = hd_error (ids (inorder t)).
  Proof.
    induction t as [|c l IHl x a r _]; cbn [min_id inorder]; [reflexivity|].
    destruct l as [|lc ll lx la lr]; [reflexivity|]. rewrite IHl. cbn [inorder].
    rewrite !map_app. destruct (map id_of (inorder ll)); reflexivity.
  Qed.
  Lemma max_id_spec (t : tree) : max_id id_of t = hd_error (rev (ids (inorder t))).
  Proof.
    induction t as [|c l _ x a r IHr]; cbn [max_id inorder]; [reflexivity|].
    rewrite map_app, rev_app_distr. cbn [map rev]. rewrite <- app_assoc. cbn [app].
    destruct r as [|rc rl rx ra rr]; [reflexivity|]. rewrite IHr.
    destruct (rev (ids (inorder (T rc rl rx ra rr)))) eqn:E; [|reflexivity].
    exfalso. apply (f_equal (@length N)) in E. rewrite rev_length, map_length in E. cbn [inorder] in E.
    rewrite app_length in E. cbn in E. lia.
  Qed.

  (* the (pred, succ) fields of the entries of a list of ids l placed between lo and hi *)
  Fixpoint nbrs (lo : option N) (l : list N) (hi : option N) : list (option N * option N) :=
    match l with
    | [] => []
    | x :: l' => (lo, match l' with [] => hi | y :: _ => Some y end) :: nbrs (Some x) l' hi
    end.
  Definition last_or (l : list N) (d : option N) : option N :=
    match hd_error (rev l) with Some y => Some y | None => d end.
  Definition head_or (l : list N) (d : option N) : option N :=
    match hd_error l with Some y => Some y | None => d end.

  Lemma nbrs_app lo l1 x l2 hi :
    nbrs lo (l1 ++ x :: l2) hi = nbrs lo l1 (Some x) ++ (last_or l1 lo, head_or l2 hi) :: nbrs (Some x) l2 hi.
  Proof.
    revert lo. induction l1 as [|a l1 IH]; intros lo; cbn [app nbrs].
    - unfold last_or, head_or. cbn. destruct l2; reflexivity.
    - rewrite IH. f_equal.
      + destruct l1; reflexivity.
      + f_equal. f_equal. unfold last_or. cbn [rev].
        destruct l1 as [|b l1]; [reflexivity|].
        cbn [rev]. destruct (rev l1 ++ [b]) eqn:E; [destruct (rev l1); discriminate|].
        cbn [app hd_error]. reflexivity.
  Qed.

  Lemma lay_nbrs (t : tree) par lo hi :
    map (fun p => (h_pred (snd p), h_succ (snd p))) (lay id_of t par lo hi) = nbrs lo (ids (inorder t)) hi.
  Proof.
    revert par lo hi. induction t as [|c l IHl x a r IHr]; intros par lo hi; cbn [lay inorder]; [reflexivity|].
    rewrite map_app. cbn [map snd h_pred h_succ]. rewrite IHl, IHr.
    rewrite (map_app id_of). cbn [map]. rewrite nbrs_app. f_equal. f_equal. f_equal.
    - rewrite max_id_spec. unfold oor, last_or. destruct (hd_error (rev (ids (inorder l)))); reflexivity.
    - rewrite min_id_spec. unfold oor, head_or. destruct (hd_error (ids (inorder r))); reflexivity.
  Qed.

  Lemma chain_of_nbrs (whole : list (N * hook)) :
    NoDup (map fst whole) ->
    forall pre suf prev, whole = pre ++ suf ->
      map (fun p => (h_pred (snd p), h_succ (snd p))) suf = nbrs prev (map fst suf) None ->
      chain (fun i => lookup i whole) prev (map fst suf).
  Proof.
    intros Hn pre suf. revert pre. induction suf as [|[i h] suf IH]; intros pre prev Hw Hnb; cbn [map fst chain]; [exact I|].
    assert (Hl : lookup i whole = h).
    { subst whole. rewrite lookup_app_notin; [apply lookup_head|].
      rewrite map_app in Hn. cbn [map fst] in Hn. apply NoDup_remove_2 in Hn. rewrite in_app_iff in Hn. tauto. }
    cbn [map snd nbrs fst] in Hnb. inversion Hnb as [[E1 E2 E3]]. rewrite Hl.
    split; [reflexivity|]. split.
    - rewrite E2. destruct suf as [|[j h'] suf]; reflexivity.
    - apply (IH (pre ++ [(i, h)])); [rewrite <- app_assoc; exact Hw|exact E3].
  Qed.

  Theorem layout_chain (t : tree) : NoDup (ids (inorder t)) ->
    chain (layout id_of t) None (ids (inorder t)).
  Proof.
    intros Hn. unfold layout, layout_list.
    pose proof (chain_of_nbrs (lay id_of t None None None)) as C.
    rewrite lay_ids in C. specialize (C Hn [] (lay id_of t None None None) None eq_refl).
    rewrite lay_ids in C. exact (C (lay_nbrs t None None None)).
  Qed.

  Theorem layout_succ_walk (t : tree) : NoDup (ids (inorder t)) ->
    walk_succ (layout id_of t) (size t) (option_map id_of (first t)) = ids (inorder t).
  Proof.
    intros Hn.
    assert (Hf : option_map id_of (first t) = hd_error (ids (inorder t))).
    { clear. induction t as [|c l IHl x a r _]; cbn [first inorder]; [reflexivity|].
      destruct l as [|lc ll lx la lr]; [reflexivity|]. rewrite IHl. cbn [inorder].
      rewrite !map_app. destruct (map id_of (inorder ll)); reflexivity. }
    rewrite Hf. apply (chain_walk _ None); [apply layout_chain, Hn|].
    rewrite map_length. clear. induction t as [|c l IHl x a r IHr]; cbn [inorder size length]; [lia|].
    rewrite app_length. cbn [length]. lia.
  Qed.

  Theorem layout_pred_succ_inverse (t : tree) : NoDup (ids (inorder t)) ->
    forall x y, h_succ (layout id_of t x) = Some y <-> h_pred (layout id_of t y) = Some x.
  Proof.
    intros Hn x y. pose proof (layout_chain t Hn) as C. set (L := ids (inorder t)) in *.
    split; intros H.
    - destruct (in_dec N.eq_dec x L) as [Hx|Hx]; [|rewrite (layout_nonmember t x Hx) in H; discriminate].
      apply In_nth_error in Hx. destruct Hx as [k Hk].
      destruct (chain_nth _ _ _ C k x Hk) as [_ B]. rewrite B in H.
      destruct (chain_nth _ _ _ C (S k) y H) as [A _]. rewrite A. exact Hk.
    - destruct (in_dec N.eq_dec y L) as [Hy|Hy]; [|rewrite (layout_nonmember t y Hy) in H; discriminate].
      apply In_nth_error in Hy. destruct Hy as [k Hk].
      destruct (chain_nth _ _ _ C k y Hk) as [A _]. rewrite A in H.
      destruct k as [|k]; [discriminate|].
      destruct (chain_nth _ _ _ C k x H) as [_ B]. rewrite B. exact Hk.
  Qed.

  (* ---- parent / left / right *)
  (* [occ t par s sp]: s occurs as a subtree of t; par is the id of t's parent, sp that of s's parent *)
  Inductive occ : tree -> option N -> tree -> option N -> Prop :=
  | occ_here t par : occ t par t par
  | occ_left c l x a r par s sp : occ l (Some (id_of x)) s sp -> occ (T c l x a r) par s sp
  | occ_right c l x a r par s sp : occ r (Some (id_of x)) s sp -> occ (T c l x a r) par s sp.

  Lemma occ_in (t : tree) par c (l : tree) x a (r : tree) sp : occ t par (T c l x a r) sp -> In (id_of x) (ids (inorder t)).
  Proof.
    intros H. remember (T c l x a r) as s eqn:Es. induction H as [t par|c' l' x' a' r' par s sp H IH|c' l' x' a' r' par s sp H IH]; subst.
    - cbn [inorder]. rewrite map_app, in_app_iff. right. left. reflexivity.
    - cbn [inorder]. rewrite map_app, in_app_iff. left. apply IH. reflexivity.
    - cbn [inorder]. rewrite map_app, in_app_iff. right. right. apply IH. reflexivity.
  Qed.

  Lemma nodup_node c (l : tree) x a (r : tree) : NoDup (ids (inorder (T c l x a r))) ->
    NoDup (ids (inorder l)) /\ NoDup (ids (inorder r)) /\ ~ In (id_of x) (ids (inorder l)) /\ ~ In (id_of x) (ids (inorder r))
    /\ (forall i, In i (ids (inorder l)) -> ~ In i (ids (inorder r))).
  Proof.
    cbn [inorder]. rewrite map_app. cbn [map]. intros H.
    pose proof (NoDup_remove_1 _ _ _ H) as H1. pose proof (NoDup_remove_2 _ _ _ H) as H2.
    rewrite in_app_iff in H2.
    assert (forall (l1 l2 : list N), NoDup (l1 ++ l2) -> NoDup l1 /\ NoDup l2 /\ forall i, In i l1 -> ~ In i l2) as G.
    { clear. induction l1 as [|a l1 IH]; cbn [app]; intros l2 Hn.
      - repeat split; auto; constructor.
      - inversion Hn; subst. destruct (IH _ H2) as (A & B & C). rewrite in_app_iff in H1. repeat split; auto.
        + constructor; tauto.
        + intros i [->|Hi]; [tauto|auto]. }
    destruct (G _ _ H1) as (A & B & C). tauto.
  Qed.

  Lemma lay_lookup (t : tree) par lo hi c l x a r sp :
    NoDup (ids (inorder t)) -> occ t par (T c l x a r) sp ->
    let h := lookup (id_of x) (lay id_of t par lo hi) in
    h_parent h = sp /\ h_left h = root_id id_of l /\ h_right h = root_id id_of r /\ h_color h = Some c.
  Proof.
    intros Hn H. revert lo hi. remember (T c l x a r) as s eqn:Es.
    induction H as [t par|c' l' x' a' r' par s sp H IH|c' l' x' a' r' par s sp H IH]; intros lo hi; subst.
    - destruct (nodup_node _ _ _ _ _ Hn) as (_ & _ & Nl & _ & _).
      cbn [lay]. rewrite lookup_app_notin by (rewrite lay_ids; exact Nl). rewrite lookup_head. cbn. auto.
    - destruct (nodup_node _ _ _ _ _ Hn) as (Nl' & _ & _ & _ & _).
      cbn [lay]. rewrite lookup_app_in by (rewrite lay_ids; eapply occ_in; exact H).
      apply IH; auto.
    - destruct (nodup_node _ _ _ _ _ Hn) as (_ & Nr' & _ & Nx & Nlr).
      pose proof (occ_in _ _ _ _ _ _ _ _ H) as Hin.
      cbn [lay]. rewrite lookup_app_notin by (rewrite lay_ids; intros Hc; exact (Nlr _ Hc Hin)).
      cbn [lookup]. destruct (N.eqb (id_of x') (id_of x)) eqn:E.
      + apply N.eqb_eq in E. rewrite E in Nx. tauto.
      + apply IH; auto.
  Qed.

  (* left / right / colour of a node are the roots of its subtrees and its colour *)
  Theorem layout_children (t : tree) c l x a r sp :
    NoDup (ids (inorder t)) -> occ t None (T c l x a r) sp ->
    let h := layout id_of t (id_of x) in
    h_parent h = sp /\ h_left h = root_id id_of l /\ h_right h = root_id id_of r /\ h_color h = Some c.
  Proof. intros Hn H. exact (lay_lookup t None None None c l x a r sp Hn H). Qed.

  Lemma occ_member (t : tree) par i : In i (ids (inorder t)) ->
    exists c l x a r sp, occ t par (T c l x a r) sp /\ id_of x = i.
  Proof.
    revert par. induction t as [|c l IHl x a r IHr]; intros par H; cbn [inorder map] in H; [destruct H|].
    rewrite map_app, in_app_iff in H. cbn [map In] in H. destruct H as [H|[H|H]].
    - destruct (IHl (Some (id_of x)) H) as (c' & l' & x' & a' & r' & sp & O & E0).
      exists c', l', x', a', r', sp. split; [apply occ_left; exact O|exact E0].
    - exists c, l, x, a, r, par. split; [constructor|exact H].
    - destruct (IHr (Some (id_of x)) H) as (c' & l' & x' & a' & r' & sp & O & E0).
      exists c', l', x', a', r', sp. split; [apply occ_right; exact O|exact E0].
  Qed.

  Lemma occ_trans t par s sp u up : occ t par s sp -> occ s sp u up -> occ t par u up.
  Proof.
    intros H. revert u up. induction H; intros u up H2; [exact H2| |].
    - apply occ_left. apply IHocc. exact H2.
    - apply occ_right. apply IHocc. exact H2.
  Qed.

  (* an occurrence below the top has a parent node that occurs too *)
  Lemma occ_parent t par s sp : occ t par s sp ->
    (s = t /\ sp = par) \/
    exists c l x a r sp', occ t par (T c l x a r) sp' /\ sp = Some (id_of x) /\ (l = s \/ r = s).
  Proof.
    induction 1 as [t par|c l x a r par s sp H IH|c l x a r par s sp H IH].
    - left. auto.
    - right. destruct IH as [[-> ->]|(c' & l' & x' & a' & r' & sp' & O & E1 & E2)].
      + exists c, l, x, a, r, par. split; [constructor|]. auto.
      + exists c', l', x', a', r', sp'. split; [apply occ_left; exact O|auto].
    - right. destruct IH as [[-> ->]|(c' & l' & x' & a' & r' & sp' & O & E1 & E2)].
      + exists c, l, x, a, r, par. split; [constructor|]. auto.
      + exists c', l', x', a', r', sp'. split; [apply occ_right; exact O|auto].
  Qed.

  Lemma occ_unique_id (t : tree) par c1 l1 x1 a1 r1 sp1 c2 l2 x2 a2 r2 sp2 :
    NoDup (ids (inorder t)) ->
    occ t par (T c1 l1 x1 a1 r1) sp1 -> occ t par (T c2 l2 x2 a2 r2) sp2 -> id_of x1 = id_of x2 ->
    sp1 = sp2 /\ root_id id_of l1 = root_id id_of l2 /\ root_id id_of r1 = root_id id_of r2.
  Proof.
    intros Hn O1 O2 E0.
    pose proof (lay_lookup t par None None _ _ _ _ _ _ Hn O1) as (A1 & B1 & C1 & _).
    pose proof (lay_lookup t par None None _ _ _ _ _ _ Hn O2) as (A2 & B2 & C2 & _).
    rewrite E0 in *. rewrite A1 in A2. rewrite B1 in B2. rewrite C1 in C2. auto.
  Qed.

  Theorem layout_parent_inverse (t : tree) : NoDup (ids (inorder t)) ->
    forall p ch, (h_left (layout id_of t p) = Some ch \/ h_right (layout id_of t p) = Some ch)
                 <-> h_parent (layout id_of t ch) = Some p.
  Proof.
    intros Hn p ch. split.
    - intros H.
      destruct (in_dec N.eq_dec p (ids (inorder t))) as [Hp|Hp];
        [|rewrite (layout_nonmember t p Hp) in H; cbn in H; destruct H; discriminate].
      destruct (occ_member t None p Hp) as (c & l & x & a & r & sp & O & <-).
      destruct (layout_children t c l x a r sp Hn O) as (_ & HL & HR & _).
      rewrite HL, HR in H.
      assert (G : forall s, (s = l \/ s = r) -> root_id id_of s = Some ch -> h_parent (layout id_of t ch) = Some (id_of x)).
      { intros s Hs Hroot. destruct s as [|sc sl sx sa sr]; [discriminate|]. cbn in Hroot. inversion Hroot; subst ch.
        assert (O' : occ t None (T sc sl sx sa sr) (Some (id_of x))).
        { eapply occ_trans; [exact O|]. destruct Hs as [<-|<-]; [apply occ_left|apply occ_right]; constructor. }
        destruct (layout_children t sc sl sx sa sr _ Hn O') as (HP & _). exact HP. }
      destruct H as [H|H]; [apply (G l)|apply (G r)]; auto.
    - intros H.
      destruct (in_dec N.eq_dec ch (ids (inorder t))) as [Hc|Hc];
        [|rewrite (layout_nonmember t ch Hc) in H; discriminate].
      destruct (occ_member t None ch Hc) as (c & l & x & a & r & sp & O & <-).
      destruct (layout_children t c l x a r sp Hn O) as (HP & _). rewrite HP in H. subst sp.
      destruct (occ_parent _ _ _ _ O) as [[_ E0]|(c' & l' & x' & a' & r' & sp' & O' & E1 & E2)]; [discriminate|].
      inversion E1; subst p.
      destruct (layout_children t c' l' x' a' r' sp' Hn O') as (_ & HL & HR & _).
      rewrite HL, HR. destruct E2 as [->| ->]; [left|right]; reflexivity.
  Qed.

  Theorem layout_root (t : tree) : NoDup (ids (inorder t)) ->
    match root_id id_of t with Some r => h_parent (layout id_of t r) = None | None => True end.
  Proof.
    intros Hn. destruct t as [|c l x a r]; [exact I|]. cbn [root_id].
    destruct (layout_children (T c l x a r) c l x a r None Hn (occ_here _ _)) as (HP & _). exact HP.
  Qed.

  (* everything together (the shape of DESIGN's links_consistent) *)
  Definition links_consistent (f : N -> hook) (t : tree) : Prop :=
    chain f None (ids (inorder t))
    /\ walk_succ f (size t) (option_map id_of (first t)) = ids (inorder t)
    /\ (forall x y, h_succ (f x) = Some y <-> h_pred (f y) = Some x)
    /\ (forall p ch, (h_left (f p) = Some ch \/ h_right (f p) = Some ch) <-> h_parent (f ch) = Some p)
    /\ match root_id id_of t with Some r => h_parent (f r) = None | None => True end
    /\ (forall c l x a r sp, occ t None (T c l x a r) sp ->
          h_parent (f (id_of x)) = sp /\ h_left (f (id_of x)) = root_id id_of l
          /\ h_right (f (id_of x)) = root_id id_of r /\ h_color (f (id_of x)) = Some c)
    /\ (forall i, ~ In i (ids (inorder t)) -> f i = null_hook).

  Theorem layout_links_consistent (t : tree) : NoDup (ids (inorder t)) -> links_consistent (layout id_of t) t.
  Proof.
    intros Hn. unfold links_consistent. repeat split.
    - apply layout_chain, Hn.
    - apply layout_succ_walk, Hn.
    - apply layout_pred_succ_inverse, Hn.
    - apply layout_pred_succ_inverse, Hn.
    - apply layout_parent_inverse, Hn.
    - apply layout_parent_inverse, Hn.
    - apply layout_root, Hn.
    - apply (layout_children t c l x a r sp Hn H).
    - apply (layout_children t c l x a r sp Hn H).
    - apply (layout_children t c l x a r sp Hn H).
    - apply (layout_children t c l x a r sp Hn H).
    - apply layout_nonmember.
  Qed.
End RbLayout.
Arguments occ {elt annot} id_of t par s sp.
Arguments links_consistent {elt annot} id_of f t.
