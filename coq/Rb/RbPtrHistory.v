(* RbPtrHistory.v — transfer of the C06 theorems to the pointer state: a heap that represents t has the link
   consistency proved of [layout t] ([repr_ptr_consistent]); pointer-level histories ([p_step], [p_run]); the
   pointer-level run of any history of insertions from the empty heap represents the functional run
   ([p_run_inserts]). *)
From Coq Require Import NArith List Bool Lia PeanoNat Sorted.
From FV Require Import Rb.RbModel Rb.RbInorder Rb.RbInvariant Rb.RbLayout Rb.RbHistory Rb.RbPtr Rb.RbPtrBase
  Rb.RbPtrRefineRot Rb.RbPtrRefineInsert Rb.RbPtrRefineTop Rb.RbAnnot Rb.RbPtrAnnot.
Import ListNotations.

Lemma walk_succ_ext f g fuel cur : (forall j, h_succ (g j) = h_succ (f j)) -> walk_succ g fuel cur = walk_succ f fuel cur.
Proof.
  intros He. revert cur. induction fuel as [|k IH]; intros cur; cbn [walk_succ]; [reflexivity|].
  destruct cur as [x|]; [|reflexivity]. rewrite He, IH. reflexivity.
Qed.

Section Hist.
  Variables elt annot : Type.
  Variable id_of : elt -> N.
  Variable less : elt -> elt -> bool.
  Variable agg : elt -> option annot -> option annot -> annot.
  Variable aeqb : annot -> annot -> bool.
  Notation tree := (tree elt annot).
  Notation ids t := (map id_of (inorder t)).
  Notation pstate := (pstate annot).
  Notation repr := (repr elt annot id_of).

  (* [links_consistent] of RbLayout, read on a heap: the last clause is about the five links only (the colour of a
     non-member is stale by design) *)
  Definition ptr_consistent (f : N -> hook) (t : tree) : Prop :=
    chain f None (ids t)
    /\ walk_succ f (size t) (option_map id_of (first t)) = ids t
    /\ (forall x y, h_succ (f x) = Some y <-> h_pred (f y) = Some x)
    /\ (forall p ch, (h_left (f p) = Some ch \/ h_right (f p) = Some ch) <-> h_parent (f ch) = Some p)
    /\ match root_id id_of t with Some r => h_parent (f r) = None | None => True end
    /\ (forall c l x a r sp, occ id_of t None (T c l x a r) sp ->
          h_parent (f (id_of x)) = sp /\ h_left (f (id_of x)) = root_id id_of l
          /\ h_right (f (id_of x)) = root_id id_of r /\ h_color (f (id_of x)) = Some c)
    /\ (forall i, ~ In i (ids t) -> links_null (f i)).

  Theorem repr_ptr_consistent (s : pstate) (t : tree) :
    NoDup (ids t) -> repr s t -> ptr_consistent (p_hooks s) t /\ p_root s = root_id id_of t.
  Proof.
    intros Nd [A B]. split; [|exact A].
    destruct (layout_links_consistent elt annot id_of t Nd) as (L1 & L2 & L3 & L4 & L5 & L6 & L7).
    assert (EP : forall j, h_parent (p_hooks s j) = h_parent (layout id_of t j)) by (intros j; apply B).
    assert (EL : forall j, h_left (p_hooks s j) = h_left (layout id_of t j)) by (intros j; apply B).
    assert (ER : forall j, h_right (p_hooks s j) = h_right (layout id_of t j)) by (intros j; apply B).
    assert (EPr : forall j, h_pred (p_hooks s j) = h_pred (layout id_of t j)) by (intros j; apply B).
    assert (ES : forall j, h_succ (p_hooks s j) = h_succ (layout id_of t j)) by (intros j; apply B).
    unfold ptr_consistent. repeat split.
    - apply dll_chain. apply dll_chain in L1. revert L1. apply dll_ext. intros j _. auto.
    - rewrite (walk_succ_ext (layout id_of t)); [exact L2|exact ES].
    - rewrite ES, EPr. apply L3.
    - rewrite ES, EPr. apply L3.
    - rewrite EL, ER, EP. apply L4.
    - rewrite EL, ER, EP. apply L4.
    - destruct (root_id id_of t); [rewrite EP; exact L5|exact I].
    - rewrite EP. apply (L6 c l x a r sp H).
    - rewrite EL. apply (L6 c l x a r sp H).
    - rewrite ER. apply (L6 c l x a r sp H).
    - destruct (L6 c l x a r sp H) as (_ & _ & _ & E4). destruct (B (id_of x)) as [_ E5]. rewrite E5; [exact E4|].
      rewrite E4. discriminate.
    - rewrite EP, (L7 i H). reflexivity.
    - rewrite EL, (L7 i H). reflexivity.
    - rewrite ER, (L7 i H). reflexivity.
    - rewrite EPr, (L7 i H). reflexivity.
    - rewrite ES, (L7 i H). reflexivity.
  Qed.

  (* ---- pointer-level histories: OIns x writes the key of node (id x), then calls insert; ORem i calls remove *)
  Definition p_step (fuel : nat) (st : pres (pstate * (N -> elt))) (o : op elt) : pres (pstate * (N -> elt)) :=
    match st with
    | POk (s, ek) =>
        match o with
        | OIns x =>
            let ek' := set_key elt id_of ek x in
            match p_insert less agg aeqb ek' fuel s (id_of x) with
            | POk s' => POk (s', ek')
            | PAssert l => PAssert l | PUB l => PUB l | POutOfFuel => POutOfFuel
            end
        | ORem i =>
            match p_remove agg aeqb ek fuel s i with
            | POk s' => POk (s', ek)
            | PAssert l => PAssert l | PUB l => PUB l | POutOfFuel => POutOfFuel
            end
        end
    | PAssert l => PAssert l | PUB l => PUB l | POutOfFuel => POutOfFuel
    end.
  Definition p_run (fuel : nat) (ops : list (op elt)) (s0 : pstate) (ek0 : N -> elt) : pres (pstate * (N -> elt)) :=
    fold_left (p_step fuel) ops (POk (s0, ek0)).

  Lemma p_run_map_ins fuel xs st :
    fold_left (p_step fuel) (map (@OIns elt) xs) st = fold_left (p_ins_step elt annot id_of less agg aeqb fuel) xs st.
  Proof. revert st. induction xs as [|x xs IH]; intros st; cbn [map fold_left]; [reflexivity|]. rewrite IH. reflexivity. Qed.
  Lemma f_run_map_ins xs (t : tree) :
    fold_left (rb_step id_of less agg) (map (@OIns elt) xs) t = f_ins_run elt annot less agg xs t.
  Proof. revert t. unfold f_ins_run. induction xs as [|x xs IH]; intros t; cbn [map fold_left]; [reflexivity|]. rewrite IH. reflexivity. Qed.

  Lemma repr_empty a0 : repr (p_empty a0) E.
  Proof. split; [reflexivity|]. intros j. split; [repeat split|]. intros H. exfalso. apply H. reflexivity. Qed.

  (* any history of insertions of pairwise distinct nodes, from the empty heap; no axioms on the comparator *)
  Theorem p_run_inserts (xs : list elt) (a0 : annot) (ek0 : N -> elt) fuel :
    NoDup (map id_of xs) -> 2 * Nat.log2 (length xs + 1) < fuel ->
    let t := fold_left (rb_step id_of less agg) (map (@OIns elt) xs) E in
    exists s' ek', p_run fuel (map (@OIns elt) xs) (p_empty a0) ek0 = POk (s', ek')
                   /\ repr s' t /\ rb t /\ NoDup (ids t) /\ keys_ok elt annot id_of ek' t
                   /\ ptr_consistent (p_hooks s') t /\ p_root s' = root_id id_of t.
  Proof.
    intros Nd Hf t. unfold p_run. rewrite p_run_map_ins. subst t. rewrite f_run_map_ins.
    destruct (p_ins_run_refines elt annot id_of less agg aeqb xs E (p_empty a0) ek0 fuel) as (s' & ek' & A & B & C & D & K).
    - cbn [inorder map]. rewrite app_nil_r. exact Nd.
    - apply rb_E_ok.
    - intros y [].
    - apply repr_empty.
    - cbn [size]. replace (length xs + 0 + 1) with (length xs + 1) by lia. exact Hf.
    - exists s', ek'. split; [exact A|]. split; [exact B|]. split; [exact C|]. split; [exact D|]. split; [exact K|].
      apply repr_ptr_consistent; assumption.
  Qed.

  (* with a strict weak order: the ids_fresh hypothesis of the C06 history theorems *)
  Lemma nodup_app_replace (A B B' : list N) a :
    NoDup (a :: A ++ B) -> NoDup B' -> (forall j, In j B' <-> j = a \/ In j B) -> NoDup (A ++ B').
  Proof.
    intros Nd N1 Hel. apply NoDup_cons_iff in Nd. destruct Nd as [Nx Nd]. rewrite in_app_iff in Nx.
    apply NoDup_count_occ with (decA := N.eq_dec). intros j. rewrite count_occ_app.
    pose proof (count_le_1 _ j Nd) as C1. rewrite count_occ_app in C1.
    pose proof (count_le_1 _ j N1) as C2.
    destruct (in_dec N.eq_dec j A) as [Hin|Hout].
    - assert (H : ~ In j B').
      { rewrite Hel. intros [->|Hj]; [tauto|]. apply count_in in Hin, Hj. lia. }
      apply (count_occ_not_In N.eq_dec) in H. lia.
    - apply (count_occ_not_In N.eq_dec) in Hout. lia.
  Qed.
  Lemma ops_ok_inserts xs : forall l, NoDup (RbInorder.ids id_of l) -> NoDup (map id_of xs ++ RbInorder.ids id_of l) ->
    ops_ok id_of less l (map (@OIns elt) xs).
  Proof.
    induction xs as [|x xs IH]; intros l Nl Nd; cbn [map ops_ok]; [exact I|].
    cbn [map app] in Nd. pose proof Nd as Nd'. apply NoDup_cons_iff in Nd'. destruct Nd' as [Nx _]. rewrite in_app_iff in Nx.
    split; [tauto|]. cbn [list_step].
    assert (N1 : NoDup (RbInorder.ids id_of (ins_stable less x l))) by (apply ins_stable_nodup; tauto).
    apply IH; [exact N1|].
    apply (nodup_app_replace _ (RbInorder.ids id_of l) _ (id_of x)); [exact Nd|exact N1|].
    intros j. apply ins_stable_ids_perm.
  Qed.
  Lemma ids_fresh_inserts xs : NoDup (map id_of xs) -> ids_fresh id_of less (map (@OIns elt) xs).
  Proof. intros Nd. apply ops_ok_inserts; [constructor|]. cbn. rewrite app_nil_r. exact Nd. Qed.

  (* ---- ANY history: every operation valid when it is issued (insert only non-members, remove only members) *)
  Fixpoint tops_ok (t : tree) (ops : list (op elt)) : Prop :=
    match ops with
    | [] => True
    | o :: rest =>
        match o with OIns x => ~ In (id_of x) (ids t) | ORem i => In i (ids t) end
        /\ tops_ok (rb_step id_of less agg t o) rest
    end.

  Lemma size_insert x (t : tree) :
    NoDup (ids t) -> ~ In (id_of x) (ids t) -> NoDup (ids (insert less agg x t)) -> size (insert less agg x t) = S (size t).
  Proof.
    intros Nd0 Nx N1. rewrite !(size_length elt annot).
    assert (Hel : forall j, In j (ids (insert less agg x t)) <-> j = id_of x \/ In j (ids t)).
    { intros j. rewrite !in_map_iff. split.
      - intros (y & <- & Hy). apply (insert_elems elt annot id_of less agg) in Hy. destruct Hy as [->|Hy]; [left; reflexivity|right; exists y; auto].
      - intros [->|(y & <- & Hy)]; [exists x|exists y]; (split; [reflexivity|]); apply (insert_elems elt annot id_of less agg); auto. }
    assert (G : forall l1 l2 : list N, NoDup l1 -> NoDup l2 -> (forall j, In j l1 <-> In j l2) -> length l1 = length l2).
    { intros l1 l2 A B C. apply Nat.le_antisymm; apply NoDup_incl_length; auto; intros j Hj; apply C; exact Hj. }
    rewrite <- (map_length id_of), <- (map_length id_of (inorder t)).
    change (S (length (ids t))) with (length (id_of x :: ids t)). apply G; [exact N1|constructor; assumption|].
    intros j. rewrite Hel. cbn [In]. intuition congruence.
  Qed.

  Theorem p_run_refines (ops : list (op elt)) : forall (t : tree) (s : pstate) ek fuel,
    tops_ok t ops -> rb t -> NoDup (ids t) -> keys_ok elt annot id_of ek t -> repr s t ->
    2 * Nat.log2 (length ops + size t + 1) + 2 < fuel ->
    let t' := fold_left (rb_step id_of less agg) ops t in
    exists s' ek', p_run fuel ops s ek = POk (s', ek')
                   /\ repr s' t' /\ rb t' /\ NoDup (ids t') /\ keys_ok elt annot id_of ek' t'.
  Proof.
    induction ops as [|o ops IH]; intros t s ek fuel Hok Hrb Nd Hk H Hf; unfold p_run; cbn [fold_left].
    - exists s, ek. auto.
    - cbn [tops_ok] in Hok. destruct Hok as [Ho Hok]. cbn [length] in Hf.
      pose proof (rb_height elt annot t Hrb) as Hh.
      assert (Hlog : Nat.log2 (size t + 1) <= Nat.log2 (S (length ops) + size t + 1)) by (apply Nat.log2_le_mono; lia).
      destruct o as [x|i]; cbn [p_step rb_step] in *.
      + assert (Hk' : keys_ok elt annot id_of (set_key elt id_of ek x) t).
        { intros y Hy. unfold set_key. destruct (N.eqb_spec (id_of y) (id_of x)) as [E0|_]; [|apply Hk, Hy].
          exfalso. apply Ho. rewrite <- E0. apply in_map, Hy. }
        assert (Hx' : set_key elt id_of ek x (id_of x) = x) by (unfold set_key; rewrite N.eqb_refl; reflexivity).
        destruct (p_insert_refines elt annot id_of less agg aeqb (set_key elt id_of ek x) x t s fuel) as (s1 & E1 & R1 & N1);
          try assumption; [constructor; assumption|lia|].
        rewrite E1.
        pose proof (size_insert x t Nd Ho N1) as Hsz.
        destruct (IH (insert less agg x t) s1 (set_key elt id_of ek x) fuel) as (s' & ek' & E' & R');
          [exact Hok|apply insert_rb, Hrb|exact N1| |exact R1| |].
        * intros y Hy. apply (insert_elems elt annot id_of less agg) in Hy. destruct Hy as [->|Hy]; [exact Hx'|apply Hk', Hy].
        * rewrite Hsz. replace (length ops + S (size t) + 1) with (S (length ops) + size t + 1) by lia. exact Hf.
        * exists s', ek'. unfold p_run in E'. auto.
      + destruct (p_remove_refines elt annot id_of agg aeqb ek i t s fuel Nd Hrb Ho H) as (s1 & E1 & R1 & N1); [lia|].
        rewrite E1.
        pose proof (size_remove elt annot id_of agg i t Nd) as Hsz.
        destruct (IH (remove id_of agg i t) s1 ek fuel) as (s' & ek' & E' & R');
          [exact Hok|apply remove_rb, Hrb|exact N1| |exact R1| |].
        * intros y Hy. apply Hk. rewrite (inorder_remove elt annot id_of agg i t Nd) in Hy. apply filter_In in Hy. tauto.
        * assert (Nat.log2 (length ops + size (remove id_of agg i t) + 1) <= Nat.log2 (S (length ops) + size t + 1))
            by (apply Nat.log2_le_mono; lia). lia.
        * exists s', ek'. unfold p_run in E'. auto.
  Qed.

  (* the documented precondition of Properties_C06 (ids_fresh) gives [tops_ok] for a strict weak order *)
  Section Order.
    Hypothesis less_asym : forall a b, less a b = true -> less b a = false.
    Hypothesis less_negtrans : forall a b c, less a b = false -> less b c = false -> less a c = false.
    Lemma ops_ok_tops ops : forall (t : tree) l,
      inorder t = l -> sorted less l -> NoDup (RbInorder.ids id_of l) -> ops_ok id_of less l ops -> tops_ok t ops.
    Proof.
      induction ops as [|o ops IH]; intros t l Ht Hs Hn Hok; cbn [tops_ok ops_ok] in *; [exact I|].
      destruct Hok as [Ho Hok].
      destruct (list_step_inv elt id_of less less_asym less_negtrans l o Hs Hn) as [Hs' Hn']; [destruct o; auto|].
      split.
      - subst l. destruct o; exact Ho.
      - apply (IH _ (list_step id_of less l o)); auto. apply step_refines; assumption.
    Qed.
  End Order.

  (* ---- the same INCLUDING the annotation heap (aggregators with [agg_ok]) *)
  Notation repr_a := (repr_a elt annot id_of).
  Theorem p_run_refines_a (ops : list (op elt)) : forall (t : tree) (s : pstate) ek fuel,
    agg_ok agg aeqb -> ann_ok agg t ->
    tops_ok t ops -> rb t -> NoDup (ids t) -> keys_ok elt annot id_of ek t -> repr_a s t ->
    2 * Nat.log2 (length ops + size t + 1) + 2 < fuel ->
    let t' := fold_left (rb_step id_of less agg) ops t in
    exists s' ek', p_run fuel ops s ek = POk (s', ek')
                   /\ repr_a s' t' /\ ann_ok agg t' /\ rb t' /\ NoDup (ids t') /\ keys_ok elt annot id_of ek' t'.
  Proof.
    induction ops as [|o ops IH]; intros t s ek fuel Ao Oa Hok Hrb Nd Hk H Hf; unfold p_run; cbn [fold_left].
    - exists s, ek. auto 7.
    - cbn [tops_ok] in Hok. destruct Hok as [Ho Hok]. cbn [length] in Hf.
      pose proof (rb_height elt annot t Hrb) as Hh.
      assert (Hlog : Nat.log2 (size t + 1) <= Nat.log2 (S (length ops) + size t + 1)) by (apply Nat.log2_le_mono; lia).
      destruct o as [x|i]; cbn [p_step rb_step] in *.
      + assert (Hk' : keys_ok elt annot id_of (set_key elt id_of ek x) t).
        { intros y Hy. unfold set_key. destruct (N.eqb_spec (id_of y) (id_of x)) as [E0|_]; [|apply Hk, Hy].
          exfalso. apply Ho. rewrite <- E0. apply in_map, Hy. }
        assert (Hx' : set_key elt id_of ek x (id_of x) = x) by (unfold set_key; rewrite N.eqb_refl; reflexivity).
        destruct (p_insert_refines_a elt annot id_of less agg aeqb (set_key elt id_of ek x) x t s fuel) as (s1 & E1 & R1 & N1);
          try assumption; [constructor; assumption|lia|].
        rewrite E1.
        pose proof (size_insert x t Nd Ho N1) as Hsz.
        destruct (IH (insert less agg x t) s1 (set_key elt id_of ek x) fuel) as (s' & ek' & E' & R');
          [exact Ao|apply (insert_ann elt annot id_of less agg), Oa|exact Hok|apply insert_rb, Hrb|exact N1| |exact R1| |].
        * intros y Hy. apply (insert_elems elt annot id_of less agg) in Hy. destruct Hy as [->|Hy]; [exact Hx'|apply Hk', Hy].
        * rewrite Hsz. replace (length ops + S (size t) + 1) with (S (length ops) + size t + 1) by lia. exact Hf.
        * exists s', ek'. unfold p_run in E'. auto.
      + destruct (p_remove_refines_a elt annot id_of less agg aeqb ek i t s fuel Ao Oa Hk Nd Hrb Ho H) as (s1 & E1 & R1 & N1); [lia|].
        rewrite E1.
        pose proof (size_remove elt annot id_of agg i t Nd) as Hsz.
        destruct (IH (remove id_of agg i t) s1 ek fuel) as (s' & ek' & E' & R');
          [exact Ao|apply (remove_ann elt annot id_of less agg), Oa|exact Hok|apply remove_rb, Hrb|exact N1| |exact R1| |].
        * intros y Hy. apply Hk. rewrite (inorder_remove elt annot id_of agg i t Nd) in Hy. apply filter_In in Hy. tauto.
        * assert (Nat.log2 (length ops + size (remove id_of agg i t) + 1) <= Nat.log2 (S (length ops) + size t + 1))
            by (apply Nat.log2_le_mono; lia). lia.
        * exists s', ek'. unfold p_run in E'. auto.
  Qed.

  (* ---- frg::rbtree_order: histories of insert(before, x) / remove on the pointer level *)
  Definition p_ostep (fuel : nat) (st : pres (pstate * (N -> elt))) (o : oop elt) : pres (pstate * (N -> elt)) :=
    match st with
    | POk (s, ek) =>
        match o with
        | OInsBefore b x =>
            let ek' := set_key elt id_of ek x in
            match p_insert_before agg aeqb ek' fuel s b (id_of x) with
            | POk s' => POk (s', ek')
            | PAssert l => PAssert l | PUB l => PUB l | POutOfFuel => POutOfFuel
            end
        | OORem i =>
            match p_remove agg aeqb ek fuel s i with
            | POk s' => POk (s', ek)
            | PAssert l => PAssert l | PUB l => PUB l | POutOfFuel => POutOfFuel
            end
        end
    | PAssert l => PAssert l | PUB l => PUB l | POutOfFuel => POutOfFuel
    end.
  Definition p_orun (fuel : nat) (ops : list (oop elt)) (s0 : pstate) (ek0 : N -> elt) : pres (pstate * (N -> elt)) :=
    fold_left (p_ostep fuel) ops (POk (s0, ek0)).

  Fixpoint toops_ok (t : tree) (ops : list (oop elt)) : Prop :=
    match ops with
    | [] => True
    | o :: rest =>
        match o with
        | OInsBefore b x => ~ In (id_of x) (ids t) /\ match b with Some b => In b (ids t) | None => True end
        | OORem i => In i (ids t)
        end /\ toops_ok (rbo_step id_of agg t o) rest
    end.

  Lemma ids_insert_before b x (t : tree) : NoDup (ids t) -> match b with Some b => In b (ids t) | None => True end ->
    length (inorder (insert_before id_of agg b x t)) = S (length (inorder t)).
  Proof.
    intros Nd Hb. destruct b as [b|].
    - apply in_map_iff in Hb. destruct Hb as (y & <- & Hy). apply in_split in Hy. destruct Hy as (l1 & l2 & E0).
      rewrite (inorder_insert_before_some elt annot id_of agg x t l1 y l2 Nd E0), E0, !app_length. cbn [length]. lia.
    - rewrite (inorder_insert_before_none elt annot id_of agg x t), app_length. cbn [length]. lia.
  Qed.

  Theorem p_orun_refines (ops : list (oop elt)) : forall (t : tree) (s : pstate) ek fuel,
    toops_ok t ops -> rb t -> NoDup (ids t) -> repr s t ->
    2 * Nat.log2 (length ops + size t + 1) + 2 < fuel ->
    let t' := fold_left (rbo_step id_of agg) ops t in
    exists s' ek', p_orun fuel ops s ek = POk (s', ek') /\ repr s' t' /\ rb t' /\ NoDup (ids t').
  Proof.
    induction ops as [|o ops IH]; intros t s ek fuel Hok Hrb Nd H Hf; unfold p_orun; cbn [fold_left].
    - exists s, ek. auto.
    - cbn [toops_ok] in Hok. destruct Hok as [Ho Hok]. cbn [length] in Hf.
      pose proof (rb_height elt annot t Hrb) as Hh.
      assert (Hlog : Nat.log2 (size t + 1) <= Nat.log2 (S (length ops) + size t + 1)) by (apply Nat.log2_le_mono; lia).
      destruct o as [b x|i]; cbn [p_ostep rbo_step] in *.
      + destruct Ho as [Hx Hb].
        destruct (p_insert_before_refines elt annot id_of less agg aeqb (set_key elt id_of ek x) b x t s fuel) as (s1 & E1 & R1 & N1 & _);
          try assumption; [constructor; assumption|intros b0 ->; exact Hb|lia|].
        rewrite E1.
        assert (Hsz : size (insert_before id_of agg b x t) = S (size t)).
        { rewrite !(size_length elt annot). apply ids_insert_before; assumption. }
        destruct (IH (insert_before id_of agg b x t) s1 (set_key elt id_of ek x) fuel) as (s' & ek' & E' & R');
          [exact Hok|apply insert_before_rb, Hrb|exact N1|exact R1| |].
        * rewrite Hsz. replace (length ops + S (size t) + 1) with (S (length ops) + size t + 1) by lia. exact Hf.
        * exists s', ek'. unfold p_orun in E'. auto.
      + destruct (p_remove_refines elt annot id_of agg aeqb ek i t s fuel Nd Hrb Ho H) as (s1 & E1 & R1 & N1); [lia|].
        rewrite E1.
        pose proof (size_remove elt annot id_of agg i t Nd) as Hsz.
        destruct (IH (remove id_of agg i t) s1 ek fuel) as (s' & ek' & E' & R');
          [exact Hok|apply remove_rb, Hrb|exact N1|exact R1| |].
        * assert (Nat.log2 (length ops + size (remove id_of agg i t) + 1) <= Nat.log2 (S (length ops) + size t + 1))
            by (apply Nat.log2_le_mono; lia). lia.
        * exists s', ek'. unfold p_orun in E'. auto.
  Qed.

  (* the documented precondition of C06_order_history gives [toops_ok] *)
  Lemma oops_ok_toops ops : forall (t : tree) l,
    inorder t = l -> NoDup (RbInorder.ids id_of l) -> oops_ok id_of l ops -> toops_ok t ops.
  Proof.
    induction ops as [|o ops IH]; intros t l Ht Hn Hok; cbn [toops_ok oops_ok] in *; [exact I|].
    destruct Hok as [Ho Hok]. subst l. split; [destruct o as [[b|] x|i]; exact Ho|].
    pose proof (order_history_refines elt annot id_of agg [o] t (inorder t) eq_refl Hn) as R. cbn [fold_left oops_ok] in R.
    destruct (R (conj Ho I)) as [R1 R2].
    apply (IH _ (olist_step id_of (inorder t) o)); [exact R1|exact R2|exact Hok].
  Qed.
End Hist.
