(* Tie, pointer level, pairing_heap: the definitions REGENERATED from include/frg/pairing_heap.hpp on every run
   (Gen/Ptr_pairing.v, translator/cxx2heap.py) are EQUAL -- same outcome, same final state -- to the hand-written
   pointer-level model Pairing/PairingPtr.v, for all states, all fuel and all arguments.
   Shape of the statements: the generated functions take nullable pointers (option N) everywhere and thread the whole
   pstate; the model takes node ids (N) where the source dereferences the argument unconditionally and threads the hook
   memory only, so the equations are stated at [Some a] and the model's (hooks, id) result is put back into the state
   ([lift_f]).  A generated function applied to a null pointer where the model takes an id yields PNullDeref at its first
   dereference (e.g. [gen_merge_null]), which the model cannot express. *)
From Coq Require Import List NArith Bool.
From FV Require Import Pairing.PairingModel Pairing.PairingPtr PtrGen.PtrCtl PtrGen.Bind_pairing Gen.Ptr_pairing PtrGen.TieTac.
Import ListNotations.
Local Open Scope N_scope.

(* the model's hook memory put back into the state (priorities and _root are not touched by _merge/_collapse) *)
Definition lift_f (s : pstate) (f : hooks) : pstate := mk_pstate f (p_prio s) (p_root s).

Ltac glue := cbv beta iota zeta delta [bind frg_assert is_null ptr_eqb negb andb orb fst snd
  rd_child rd_backlink rd_sibling wr_child wr_backlink wr_sibling rd_root wr_root call_compare lift_f];
  cbn [p_hooks p_prio p_root].

Section Tie.
Variable cmp : elt -> elt -> bool.

(* T *_merge(T *a, T *b) *)
Lemma gen_merge_eq : forall s a b,
  g_merge cmp s (Some a) (Some b) =
  bind (p_merge cmp (p_prio s) (p_hooks s) a b) (fun fr => POk (lift_f s (fst fr), Some (snd fr))).
Proof.
  intros [f pr r] a b. unfold g_merge, p_merge.
  glue; repeat (tie_destr; glue); reflexivity.
Qed.

Lemma gen_merge_null : forall s b, g_merge cmp s None b = PNullDeref.
Proof. reflexivity. Qed.

(* first loop of _collapse *)
Lemma gen_collapse_loop1_eq : forall fuel s paired element,
  g_collapse_loop1 cmp fuel s paired element =
  bind (p_collapse_pair cmp (p_prio s) fuel (p_hooks s) paired element)
       (fun r => POk (lift_f s (fst (fst r)), snd (fst r), snd r)).
Proof.
  induction fuel as [|fuel IH]; intros [f pr r] paired element; cbn [g_collapse_loop1 p_collapse_pair]; glue;
    repeat (first [rewrite gen_merge_eq | rewrite IH | tie_destr]; glue); reflexivity.
Qed.

(* second loop of _collapse; at exit `paired` is null *)
Lemma gen_collapse_loop2_eq : forall fuel s paired joined,
  g_collapse_loop2 cmp fuel s paired (Some joined) =
  bind (p_collapse_join cmp (p_prio s) fuel (p_hooks s) joined paired)
       (fun r => POk (lift_f s (fst r), None, Some (snd r))).
Proof.
  induction fuel as [|fuel IH]; intros [f pr r] paired joined; cbn [g_collapse_loop2 p_collapse_join]; glue;
    repeat (first [rewrite gen_merge_eq | rewrite IH | tie_destr]; glue); reflexivity.
Qed.

(* T *_collapse(T *head) *)
Lemma gen_collapse_eq : forall fuel s head,
  g_collapse cmp fuel s head =
  bind (p_collapse cmp (p_prio s) fuel (p_hooks s) head) (fun fr => POk (lift_f s (fst fr), Some (snd fr))).
Proof.
  intros fuel [f pr r] head. unfold g_collapse, p_collapse. rewrite gen_collapse_loop1_eq. glue.
  repeat (first [rewrite gen_collapse_loop2_eq | tie_destr]; glue); reflexivity.
Qed.

(* void push(T *element) *)
Lemma gen_push_eq : forall s e, g_push cmp s (Some e) = p_push cmp s e.
Proof.
  intros [f pr r] e. unfold g_push, p_push. glue.
  repeat (first [rewrite gen_merge_eq | tie_destr]; glue); reflexivity.
Qed.

(* void pop() *)
Lemma gen_pop_eq : forall fuel s, g_pop cmp fuel s = p_pop cmp fuel s.
Proof.
  intros fuel [f pr r]. unfold g_pop, p_pop. glue.
  repeat (first [rewrite gen_collapse_eq | tie_destr]; glue); reflexivity.
Qed.

(* void remove(T *element) *)
Lemma gen_remove_eq : forall fuel s e, g_remove cmp fuel s (Some e) = p_remove cmp fuel s e.
Proof.
  intros fuel [f pr r] e. unfold g_remove, p_remove. rewrite gen_pop_eq. glue.
  repeat (first [rewrite gen_collapse_eq | rewrite gen_merge_eq | rewrite gen_merge_null | tie_destr]; glue); reflexivity.
Qed.

(* ---- the script runner of PairingPtr.v over the GENERATED functions ---- *)
Definition g_step (fuel : nat) (s : pstate) (o : op) : pres pstate :=
  match o with
  | Push x => g_push cmp (mk_pstate (p_hooks s) (upd (p_prio s) (snd x) (fst x)) (p_root s)) (Some (snd x))
  | Pop => g_pop cmp fuel s
  | Remove id => g_remove cmp fuel s (Some id)
  end.

Fixpoint g_run (fuel : nat) (s : pstate) (ops : list op) : pres pstate :=
  match ops with
  | [] => POk s
  | o :: r => bind (g_step fuel s o) (fun s' => g_run fuel s' r)
  end.

Lemma gen_step_eq : forall fuel s o, g_step fuel s o = p_step cmp fuel s o.
Proof.
  intros fuel s [x| |id]; cbn [g_step p_step].
  - apply gen_push_eq.
  - apply gen_pop_eq.
  - apply gen_remove_eq.
Qed.

Lemma gen_run_eq : forall fuel ops s, g_run fuel s ops = p_run cmp fuel s ops.
Proof.
  induction ops as [|o r IH]; intros s; cbn [g_run p_run]; [reflexivity|].
  rewrite gen_step_eq. destruct (p_step cmp fuel s o); cbn [bind]; auto.
Qed.

End Tie.
