(* Tie, pointer level, rbtree, third part: the script runner.  See PtrGen/Tie_rb.v for the conventions. *)
From Coq Require Import List NArith Bool.
From FV Require Import Rb.RbModel Rb.RbHistory Rb.RbPtr Rb.RbPtrBase Rb.RbPtrRefineTop Rb.RbPtrHistory.
From FV Require Import PtrGen.PtrCtl PtrGen.Bind_rb Gen.Ptr_rb PtrGen.TieTac PtrGen.Tie_rb PtrGen.Tie_rb_remove.
Local Open Scope N_scope.

(* ---- the script runner of Rb/RbPtrHistory.v over the GENERATED functions.  tree_struct::insert (the comparator descent,
   a member of the derived class) is not translated: [g_insert] is the model's descent loop calling the generated
   insert_root / insert_left / insert_right; remove is the generated one. ---- *)
Section Run.
Variables elt annot : Type.
Variable id_of : elt -> N.
Variable less : elt -> elt -> bool.
Variable agg : elt -> option annot -> option annot -> annot.
Variable aeqb : annot -> annot -> bool.
Notation L := model_lines.

Fixpoint g_insert_loop (ek : N -> elt) (k fuel : nat) (s : pstate annot) (node current : N) : pres (pstate annot) :=
  match k with
  | O => POutOfFuel
  | S k' =>
      if less (ek node) (ek current) then
        match get_left s current with
        | None => g_insert_left elt annot agg aeqb ek L fuel s (Some current) (Some node)
        | Some c => g_insert_loop ek k' fuel s node c
        end
      else
        match get_right s current with
        | None => g_insert_right elt annot agg aeqb ek L fuel s (Some current) (Some node)
        | Some c => g_insert_loop ek k' fuel s node c
        end
  end.
Definition g_insert (ek : N -> elt) (fuel : nat) (s : pstate annot) (node : N) : pres (pstate annot) :=
  match p_root s with
  | None => g_insert_root elt annot agg aeqb ek L fuel s (Some node)
  | Some r => g_insert_loop ek fuel fuel s node r
  end.

Lemma gen_insert_eq : forall ek fuel s node, g_insert ek fuel s node = p_insert less agg aeqb ek fuel s node.
Proof.
  intros ek fuel s node. unfold g_insert, p_insert. destruct (p_root s) as [r|]; [|apply gen_insert_root_eq].
  generalize fuel at 1 3. intros k. revert s r.
  induction k as [|k IH]; intros s r; cbn [g_insert_loop insert_loop]; [reflexivity|].
  rewrite gen_insert_left_eq, gen_insert_right_eq.
  destruct (less (ek node) (ek r)); [destruct (get_left s r) | destruct (get_right s r)]; auto.
Qed.

Definition g_step (fuel : nat) (st : pres (pstate annot * (N -> elt))) (o : op elt) : pres (pstate annot * (N -> elt)) :=
  match st with
  | POk (s, ek) =>
      match o with
      | OIns x =>
          let ek' := set_key elt id_of ek x in
          match g_insert ek' fuel s (id_of x) with
          | POk s' => POk (s', ek')
          | PAssert l => PAssert l | PUB l => PUB l | POutOfFuel => POutOfFuel
          end
      | ORem i =>
          match g_remove elt annot agg aeqb ek L fuel s (Some i) with
          | POk s' => POk (s', ek)
          | PAssert l => PAssert l | PUB l => PUB l | POutOfFuel => POutOfFuel
          end
      end
  | PAssert l => PAssert l | PUB l => PUB l | POutOfFuel => POutOfFuel
  end.
Definition g_run (fuel : nat) (ops : list (op elt)) (s0 : pstate annot) (ek0 : N -> elt) : pres (pstate annot * (N -> elt)) :=
  fold_left (g_step fuel) ops (POk (s0, ek0)).

Lemma gen_step_rel : forall fuel st1 st2 o,
  relabel st1 = relabel st2 ->
  relabel (g_step fuel st1 o) = relabel (p_step elt annot id_of less agg aeqb fuel st2 o).
Proof.
  intros fuel st1 st2 o H.
  destruct st1 as [[s1 ek1]|l1|l1|], st2 as [[s2 ek2]|l2|l2|]; cbn [relabel] in H; try discriminate H;
    try (cbn [g_step p_step relabel]; exact H).
  injection H as H1 H2. subst. destruct o as [x|i]; cbn [g_step p_step].
  - rewrite gen_insert_eq. destruct (p_insert less agg aeqb (set_key elt id_of ek2 x) fuel s2 (id_of x)); reflexivity.
  - pose proof (gen_remove_rel elt annot agg aeqb ek2 fuel s2 i) as R. revert R.
    destruct (g_remove elt annot agg aeqb ek2 L fuel s2 (Some i)); destruct (p_remove agg aeqb ek2 fuel s2 i);
      cbn [relabel]; intro R; try discriminate R; try (injection R as R; subst); try reflexivity.
    now rewrite R.
Qed.

Lemma gen_run_rel : forall fuel ops s0 ek0,
  relabel (g_run fuel ops s0 ek0) = relabel (p_run elt annot id_of less agg aeqb fuel ops s0 ek0).
Proof.
  intros fuel ops s0 ek0. unfold g_run, p_run.
  assert (G : forall st1 st2, relabel st1 = relabel st2 ->
              relabel (fold_left (g_step fuel) ops st1) =
              relabel (fold_left (p_step elt annot id_of less agg aeqb fuel) ops st2)).
  { induction ops as [|o r IH]; intros st1 st2 H; cbn [fold_left]; [exact H|]. apply IH, gen_step_rel, H. }
  apply G. reflexivity.
Qed.

(* a run that ends normally (or in an assertion) in the model ends in exactly the same way in the generated code *)
Lemma gen_run_ok : forall fuel ops s0 ek0 r,
  p_run elt annot id_of less agg aeqb fuel ops s0 ek0 = POk r -> g_run fuel ops s0 ek0 = POk r.
Proof. intros fuel ops s0 ek0 r H. apply relabel_ok. rewrite gen_run_rel, H. reflexivity. Qed.

End Run.
