(* Tie, pointer level, hash_map: the definitions REGENERATED from include/frg/hash_map.hpp on every run
   (Gen/Ptr_hashmap.v, translator/cxx2heap.py) compute the same outcome and the same final state / result as the
   hand-written pointer-level model HashMap/HashMapPtr.v, for all states, all fuel, all arguments and every hash.
   Shape of the statements: the model's functions also return the C16 event list, which the generated code does not
   produce (the Value object's lifetime is not visible in an instantiation with an integer Value): the equations project
   it away ([fst]).  The model passes the node heap / the two tables around separately where the generated code threads
   the whole pstate and the (block id, contents) pair of new_table; [set_nodes s h] puts the model's heap back. *)
From Coq Require Import List NArith Arith Bool.
From FV Require Import Common.EventLog HashMap.HashMapModel HashMap.HashMapPtr.
From FV Require Import PtrGen.PtrCtl PtrGen.Bind_hashmap Gen.Ptr_hashmap PtrGen.TieTac.
Import ListNotations.

Ltac glue := cbv beta iota zeta delta [bind frg_assert is_null ptr_eqb negb andb orb fst snd
  rd_size wr_size rd_cap wr_cap rd_table wr_table tab_get tab_set rd_next rd_key rd_val wr_next_s new_node free_node
  new_table free_table hash_mod u32n sz_ge sz_gt sz_nonzero
  rd_node wr_next wr_val rd_tab wr_tab set_nodes set_table set_size mod_cap link_new p_end
  bucket_uint bucket_size_t bucket_find bucket_insert bucket_index_empty bucket_index bucket_index_rehashed bucket_get
  bucket_remove bucket_rehash];
  cbn [p_nodes p_table p_tid p_cap p_size p_next n_key n_val n_next]; rewrite ?N2Nat.id.

Section Tie.
Variable hash : N -> N.
Variables psz nsz : N.         (* sizeof(chain * ), sizeof(chain): only in the model's events *)

(* ---- rehash(): the three loops ---- *)
Lemma gen_rehash_loop1_eq : forall fuel nc s nt i,
  g_rehash_loop1 fuel nc s nt i = bind (rehash_init fuel (fst nt) (snd nt) nc i) (fun c => POk (fst nt, c)).
Proof.
  induction fuel as [|fuel IH]; intros nc s [ntid nt] i; cbn [g_rehash_loop1 rehash_init]; glue;
    repeat (first [rewrite IH | tie_destr]; glue); tie_done.
Qed.

Lemma gen_rehash_loop3_eq : forall fuel nc s nt item,
  g_rehash_loop3 hash fuel nc s nt item =
  bind (rehash_chain hash fuel (p_nodes s) (fst nt) (snd nt) nc item)
       (fun r => POk (set_nodes s (fst r), (fst nt, snd r), None)).
Proof.
  induction fuel as [|fuel IH]; intros nc [h t tid cap sz nx] [ntid nt] item; cbn [g_rehash_loop3 rehash_chain]; glue;
    repeat (first [rewrite IH | tie_destr]; glue); tie_done.
Qed.

Lemma gen_rehash_loop2_eq : forall fuel0 fuel nc s nt i,
  g_rehash_loop2 hash fuel0 fuel nc s nt i =
  bind (rehash_buckets hash fuel0 fuel (p_nodes s) (p_tid s) (p_table s) (p_cap s) (fst nt) (snd nt) nc i)
       (fun r => POk (set_nodes s (fst r), (fst nt, snd r))).
Proof.
  induction fuel as [|fuel IH]; intros nc [h t tid cap sz nx] [ntid nt] i; cbn [g_rehash_loop2 rehash_buckets]; glue;
    repeat (first [rewrite gen_rehash_loop3_eq | rewrite IH | tie_destr]; glue); tie_done.
Qed.

Lemma gen_rehash_eq : forall fuel s,
  g_rehash hash fuel s = bind (p_rehash hash psz fuel s) (fun r => POk (fst r)).
Proof.
  intros fuel [h t tid cap sz nx]. unfold g_rehash, p_rehash. glue.
  repeat (first [rewrite gen_rehash_loop1_eq | rewrite gen_rehash_loop2_eq | tie_destr]; glue); tie_done.
Qed.

(* ---- insert (both overloads) ---- *)
Lemma gen_insert_eq : forall fuel s k v,
  g_insert hash fuel s k v = bind (p_insert hash psz nsz fuel s k v) (fun r => POk (fst r)).
Proof.
  intros fuel s k v. unfold g_insert, p_insert. rewrite gen_rehash_eq. glue.
  repeat (tie_destr; glue); tie_done.
Qed.

Lemma gen_insert_move_eq : forall fuel s k v,
  g_insert_move hash fuel s k v = bind (p_insert hash psz nsz fuel s k v) (fun r => POk (fst r)).
Proof.
  intros fuel s k v. unfold g_insert_move, p_insert. rewrite gen_rehash_eq. glue.
  repeat (tie_destr; glue); tie_done.
Qed.

(* ---- the chain walk of operator[] / get / find: one loop shape, three result types ---- *)
Lemma gen_index_loop1_eq : forall fuel k s item,
  g_index_loop1 fuel k s item =
  bind (chain_search fuel (p_nodes s) k item)
       (fun r => POk (match r with Some _ => Ret (s, r) | None => Norm tt end)).
Proof.
  induction fuel as [|fuel IH]; intros k s item; cbn [g_index_loop1 chain_search]; glue;
    repeat (first [rewrite IH | tie_destr]; glue); tie_done.
Qed.

Lemma gen_get_loop1_eq : forall fuel k s item,
  g_get_loop1 fuel k s item =
  bind (chain_search fuel (p_nodes s) k item)
       (fun r => POk (match r with Some _ => Ret r | None => Norm tt end)).
Proof.
  induction fuel as [|fuel IH]; intros k s item; cbn [g_get_loop1 chain_search]; glue;
    repeat (first [rewrite IH | tie_destr]; glue); tie_done.
Qed.

Lemma gen_find_loop1_eq : forall fuel k b s item,
  g_find_loop1 fuel k b s item =
  bind (chain_search fuel (p_nodes s) k item)
       (fun r => POk (match r with Some _ => Ret (b, r) | None => Norm tt end)).
Proof.
  induction fuel as [|fuel IH]; intros k b s item; cbn [g_find_loop1 chain_search]; glue;
    repeat (first [rewrite IH | tie_destr]; glue); tie_done.
Qed.

(* Value &operator[](const Key &): the reference returned is the node whose value it refers to *)
Lemma gen_index_eq : forall fuel s k,
  g_index hash fuel s k =
  bind (p_index hash psz nsz fuel s k) (fun r => POk (fst (fst r), Some (snd (fst r)))).
Proof.
  intros fuel s k. unfold g_index, p_index. rewrite !gen_rehash_eq. glue.
  repeat (first [rewrite gen_index_loop1_eq | rewrite gen_rehash_eq | tie_destr]; glue); tie_done.
Qed.

(* Value *get(const KeyCompatible &) *)
Lemma gen_get_eq : forall fuel s k, g_get hash fuel s k = p_get hash fuel s k.
Proof.
  intros fuel s k. unfold g_get, p_get. glue.
  repeat (first [rewrite gen_get_loop1_eq | tie_destr]; glue); tie_done.
Qed.

(* iterator end() / find(const Key &) *)
Lemma gen_end_eq : forall s, g_end s = POk (p_end s).
Proof. reflexivity. Qed.

Lemma gen_find_eq : forall fuel s k, g_find hash fuel s k = p_find hash fuel s k.
Proof.
  intros fuel s k. unfold g_find, p_find. rewrite !gen_end_eq. glue.
  repeat (first [rewrite gen_find_loop1_eq | tie_destr]; glue); tie_done.
Qed.

(* iterator begin(): the model's loop contains the final FRG_ASSERT(!"hash_map corrupted") *)
Lemma gen_begin_loop1_eq : forall fuel s b,
  bind (g_begin_loop1 fuel s b) (fun t => match t with Ret r => POk r | Norm _ => PAssertStop end) =
  begin_loop fuel s b.
Proof.
  induction fuel as [|fuel IH]; intros s b; cbn [g_begin_loop1 begin_loop]; glue.
  - repeat (tie_destr; glue); tie_done.
  - unfold bind in IH. repeat (first [rewrite IH | tie_destr]; glue); tie_done.
Qed.

Lemma gen_begin_eq : forall fuel s, g_begin fuel s = p_begin fuel s.
Proof.
  intros fuel s. unfold g_begin, p_begin. rewrite <- gen_begin_loop1_eq. glue.
  repeat (tie_destr; glue); tie_done.
Qed.

(* iterator &operator++() *)
Lemma gen_incr_loop1_eq : forall fuel s b item, g_incr_loop1 fuel s b item = incr_loop fuel s b item.
Proof.
  induction fuel as [|fuel IH]; intros s b item; cbn [g_incr_loop1 incr_loop]; glue;
    repeat (first [rewrite IH | tie_destr]; glue); tie_done.
Qed.

Lemma gen_incr_eq : forall fuel s it, g_incr fuel s (fst it) (snd it) = p_incr fuel s it.
Proof.
  intros fuel s [b item]. unfold g_incr, p_incr. glue.
  repeat (first [rewrite gen_incr_loop1_eq | tie_destr]; glue); tie_done.
Qed.

(* optional<Value> remove(const Key &) *)
Lemma gen_remove_loop1_eq : forall fuel k b s prev item,
  bind (g_remove_loop1 fuel k b s prev item)
       (fun t => match t with Ret r => POk r | Norm (s', _) => POk (s', None) end) =
  bind (remove_loop nsz fuel s b k prev item) (fun r => POk (fst r)).
Proof.
  induction fuel as [|fuel IH]; intros k b s prev item; cbn [g_remove_loop1 remove_loop]; glue.
  - repeat (tie_destr; glue); tie_done.
  - unfold bind in IH. repeat (first [rewrite IH | tie_destr]; glue); tie_done.
Qed.

Lemma gen_remove_eq : forall fuel s k,
  g_remove hash fuel s k = bind (p_remove hash nsz fuel s k) (fun r => POk (fst r)).
Proof.
  intros fuel s k. unfold g_remove, p_remove. glue.
  pose proof gen_remove_loop1_eq as L. unfold bind in L.
  repeat (first [rewrite L | tie_destr]; glue); tie_done.
Qed.

(* ---- ~hash_map(): the model's dtor_buckets reads table and capacity from the (unchanged) s and threads the heap ---- *)
Lemma gen_destroy_loop2_eq : forall fuel s item,
  g_destroy_loop2 fuel s item =
  bind (dtor_chain nsz fuel (p_nodes s) item) (fun r => POk (set_nodes s (fst r), None)).
Proof.
  induction fuel as [|fuel IH]; intros [h t tid cap sz nx] item; cbn [g_destroy_loop2 dtor_chain]; glue;
    repeat (first [rewrite IH | tie_destr]; glue); tie_done.
Qed.

Lemma gen_destroy_loop1_eq : forall fuel0 fuel h h0 t tid cap sz nx i,
  g_destroy_loop1 fuel0 fuel (mk_pstate h t tid cap sz nx) i =
  bind (dtor_buckets nsz fuel0 fuel h (mk_pstate h0 t tid cap sz nx) i)
       (fun r => POk (mk_pstate (fst r) t tid cap sz nx)).
Proof.
  induction fuel as [|fuel IH]; intros h h0 t tid cap sz nx i; cbn [g_destroy_loop1 dtor_buckets]; glue;
    repeat (first [rewrite gen_destroy_loop2_eq | rewrite (IH _ h0) | tie_destr]; glue); tie_done.
Qed.

Lemma gen_destroy_eq : forall fuel s,
  g_destroy fuel s = bind (p_destroy psz nsz fuel s) (fun r => POk (set_nodes s (fst r))).
Proof.
  intros fuel [h t tid cap sz nx]. unfold g_destroy, p_destroy. rewrite (gen_destroy_loop1_eq _ _ h h). glue.
  repeat (tie_destr; glue); tie_done.
Qed.

(* ---- the script runner of HashMapPtr.v over the GENERATED functions (no event lists) ---- *)
Fixpoint g_iter_loop (fuel0 fuel : nat) (s : pstate) (it : iter) {struct fuel} : pres (list entry) :=
  if iter_eqb it (p_end s) then POk []
  else
    match fuel with
    | O => POutOfFuel
    | S fuel' =>
      bind (rd_node (p_nodes s) (snd it)) (fun n =>
      bind (g_incr fuel0 s (fst it) (snd it)) (fun it' =>
      bind (g_iter_loop fuel0 fuel' s it') (fun l =>
      POk ((n_key n, n_val n) :: l))))
    end.

Definition g_iterate (fuel : nat) (s : pstate) : pres (list entry) :=
  bind (g_begin fuel s) (fun it => g_iter_loop fuel fuel s it).

Definition g_step (fuel : nat) (s : pstate) (o : op) : pres (pstate * out) :=
  match o with
  | Insert k v => bind (g_insert hash fuel s k v) (fun s' => POk (s', OUnit))
  | IndexSet k v =>
    bind (g_index hash fuel s k) (fun si =>
    let s' := fst si in
    bind (rd_node (p_nodes s') (snd si)) (fun n =>
    bind (wr_val (p_nodes s') (snd si) v) (fun h =>
    POk (set_nodes s' h, OVal (if Nat.eqb (p_size s') (p_size s) then Some (n_val n) else None)))))
  | Get k =>
    bind (g_get hash fuel s k) (fun p =>
    bind (g_find hash fuel s k) (fun it =>
    bind (val_of (p_nodes s) p) (fun r => POk (s, OVal r))))
  | Remove k => bind (g_remove hash fuel s k) (fun sr => POk (fst sr, OVal (snd sr)))
  | Iterate => bind (g_iterate fuel s) (fun l => POk (s, OList l))
  | Size => POk (s, OVal (Some (N.of_nat (p_size s))))
  end.

Fixpoint g_run (fuel : nat) (s : pstate) (ops : list op) : pres (pstate * list out) :=
  match ops with
  | [] => POk (s, [])
  | o :: r =>
    bind (g_step fuel s o) (fun sx =>
    bind (g_run fuel (fst sx) r) (fun sxs => POk (fst sxs, snd sx :: snd sxs)))
  end.

Lemma gen_iter_loop_eq : forall fuel0 fuel s it,
  g_iter_loop fuel0 fuel s it = bind (iter_loop fuel0 fuel s it) (fun r => POk (fst r)).
Proof.
  induction fuel as [|fuel IH]; intros s it; cbn [g_iter_loop iter_loop].
  - glue. repeat (tie_destr; glue); tie_done.
  - rewrite gen_incr_eq. glue. repeat (first [rewrite IH | tie_destr]; glue); tie_done.
Qed.

Lemma gen_iterate_eq : forall fuel s, g_iterate fuel s = bind (p_iterate fuel s) (fun r => POk (fst r)).
Proof.
  intros fuel s. unfold g_iterate, p_iterate. rewrite gen_begin_eq. glue.
  repeat (first [rewrite gen_iter_loop_eq | tie_destr]; glue); tie_done.
Qed.

Lemma gen_step_eq : forall fuel s o,
  g_step fuel s o = bind (p_step hash psz nsz fuel s o) (fun r => POk (fst r)).
Proof.
  intros fuel s o. destruct o; cbn [g_step p_step].
  - rewrite gen_insert_eq. glue. repeat (tie_destr; glue); tie_done.
  - rewrite gen_index_eq. glue. repeat (tie_destr; glue); tie_done.
  - rewrite gen_get_eq, gen_find_eq. glue. repeat (tie_destr; glue); tie_done.
  - rewrite gen_remove_eq. glue. repeat (tie_destr; glue); tie_done.
  - rewrite gen_iterate_eq. glue. repeat (tie_destr; glue); tie_done.
  - reflexivity.
Qed.

Lemma gen_run_eq : forall fuel ops s,
  g_run fuel s ops = bind (p_run hash psz nsz fuel s ops) (fun r => POk (fst r)).
Proof.
  induction ops as [|o r IH]; intros s; cbn [g_run p_run]; [reflexivity|].
  rewrite gen_step_eq. glue. destruct (p_step hash psz nsz fuel s o) as [[[s1 x] e]| | | |]; try reflexivity.
  glue. rewrite IH. glue. destruct (p_run hash psz nsz fuel s1 r) as [[[s2 xs] e2]| | | |]; reflexivity.
Qed.

End Tie.
