(* Tie, pointer level, rbtree, second part: fix_remove, remove_half_leaf, replace_node, remove, and the script runner.
   See PtrGen/Tie_rb.v for the conventions ([model_lines], statements at [Some n]). *)
From Coq Require Import List NArith Bool.
From FV Require Import Rb.RbModel Rb.RbHistory Rb.RbPtr Rb.RbPtrHistory.
From FV Require Import PtrGen.PtrCtl PtrGen.Bind_rb Gen.Ptr_rb PtrGen.TieTac PtrGen.Tie_rb.
Local Open Scope N_scope.

Section Tie.
Variables elt annot : Type.
Variable agg : elt -> option annot -> option annot -> annot.
Variable aeqb : annot -> annot -> bool.
Variable ek : N -> elt.
Notation L := model_lines.

(* ---- the remove side.  FINDING about the model's labels: after `s = get_right(parent);` (rbtree.hpp:396) resp.
   `s = get_left(parent);` (:409) the model reports a null s as [PUB 396] / [PUB 409]; the source does not dereference s there
   but at line 412 (`get_left(s)`), which is what the generated definition reports ([PUB 412], one site for both arms).  The
   outcome kind is the same.  [relabel] identifies the three labels; the statements of fix_remove and its callers are up to it. *)
Definition relabel {A} (m : pres A) : pres A :=
  match m with
  | POk a => POk a
  | PAssert l => PAssert l
  | PUB l => PUB (if N.eqb l 396 then 412 else if N.eqb l 409 then 412 else l)
  | POutOfFuel => POutOfFuel
  end.

Lemma relabel_ok : forall A (m : pres A) a, relabel m = POk a -> m = POk a.
Proof. intros A [x|l|l|] a H; cbn in H; congruence. Qed.
Lemma relabel_assert : forall A (m : pres A) l, relabel m = PAssert l -> m = PAssert l.
Proof. intros A [x|l0|l0|] l H; cbn in H; congruence. Qed.

(* case split on a call of the generated function G and of the model function M that are related by [R : relabel G = relabel M] *)
Ltac rel_split G M R :=
  let H := fresh "R" in
  pose proof R as H; revert H; destruct G; destruct M; unfold relabel; intro H;
  try discriminate H; try (injection H as H; try subst).

Ltac gluer := glue; unfold relabel.

Lemma gen_fix_remove_rel : forall fuel s n,
  relabel (g_fix_remove elt annot agg aeqb ek L fuel s (Some n)) = relabel (fix_remove agg aeqb ek fuel s n).
Proof.
  induction fuel as [|fuel IH]; intros s n; cbn [g_fix_remove fix_remove]; [reflexivity|].
  unfold fix_remove_sibling, fix_remove_rest. gluer.
  Timeout 420 repeat (first [ rewrite gen_isRed_eq | rewrite gen_isBlack_eq | rewrite gen_rotateLeft_eq | rewrite gen_rotateRight_eq
                | match goal with |- context [g_fix_remove _ _ _ _ _ _ fuel ?s1 (Some ?n1)] =>
                    rel_split (g_fix_remove elt annot agg aeqb ek L fuel s1 (Some n1)) (fix_remove agg aeqb ek fuel s1 n1) (IH s1 n1)
                  end
                | tie_step]; gluer); tie_done.
Qed.

(* ---- remove_half_leaf / replace_node / remove ----
   (Timeout: when the source diverges from the model the case analysis of a big function can explode; fail in minutes) *)
Lemma gen_remove_half_leaf_rel : forall fuel s node child,
  relabel (g_remove_half_leaf elt annot agg aeqb ek L fuel s (Some node) child) =
  relabel (remove_half_leaf agg aeqb ek fuel s node child).
Proof.
  intros. unfold g_remove_half_leaf, remove_half_leaf, reset_links. gluer.
  Timeout 420 repeat (first [ rewrite gen_isRed_eq | rewrite gen_aggregate_path_eq
                | match goal with |- context [g_fix_remove _ _ _ _ _ _ ?f ?s1 (Some ?n1)] =>
                    rel_split (g_fix_remove elt annot agg aeqb ek L f s1 (Some n1)) (fix_remove agg aeqb ek f s1 n1)
                              (gen_fix_remove_rel f s1 n1)
                  end
                | tie_step]; gluer); tie_done.
Qed.

Lemma gen_replace_node_eq : forall fuel s node replacement,
  g_replace_node elt annot agg aeqb ek L fuel s (Some node) (Some replacement) =
  replace_node agg aeqb ek fuel s node replacement.
Proof.
  intros. unfold g_replace_node, replace_node, reset_links. glue.
  repeat (first [rewrite gen_aggregate_node_eq | rewrite gen_aggregate_path_eq | tie_step]; glue); tie_done.
Qed.

Lemma gen_remove_rel : forall fuel s node,
  relabel (g_remove elt annot agg aeqb ek L fuel s (Some node)) = relabel (p_remove agg aeqb ek fuel s node).
Proof.
  intros. unfold g_remove, p_remove. gluer.
  Timeout 420 repeat (first [ rewrite gen_replace_node_eq
                | match goal with |- context [g_remove_half_leaf _ _ _ _ _ _ ?f ?s1 (Some ?n1) ?c] =>
                    rel_split (g_remove_half_leaf elt annot agg aeqb ek L f s1 (Some n1) c)
                              (remove_half_leaf agg aeqb ek f s1 n1 c) (gen_remove_half_leaf_rel f s1 n1 c)
                  end
                | tie_step]; gluer); tie_done.
Qed.
End Tie.
