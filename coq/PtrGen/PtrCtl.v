(* Result of a generated loop function whose body contains `return`: the loop was left normally with the loop-carried
   values, or the enclosing function returned from inside the loop (translator/cxx2heap.py). *)
Inductive ctl (R V : Type) := Ret (r : R) | Norm (v : V).
Arguments Ret {R V} r.
Arguments Norm {R V} v.
