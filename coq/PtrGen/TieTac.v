(* Tactics for the tie lemmas (generated pointer-level definition = hand-written pointer-level model): both sides are
   total first-order programs over the same accessors, so after unfolding the glue (bind, assert, null tests, the bound
   readers/writers) they are trees of matches over the same atomic scrutinees; [tie_split] case-splits on the innermost
   scrutinee until both sides are the same value. *)
Ltac tie_destr :=
  match goal with
  | |- context [match ?x with _ => _ end] =>
    lazymatch x with
    | context [match _ with _ => _ end] => fail
    | _ => destruct x eqn:?
    end
  end.

(* a leaf: both sides are the same value, or the path is contradictory (a test remembered with two different results) *)
Ltac tie_done := first [reflexivity | congruence | discriminate].

(* Symbolic execution in evaluation order: the scrutinee the left-hand side is stuck on (following the chain
   match (match (... x ...)) ...), else the one the right-hand side is stuck on, is case-split; a case split replaces every
   occurrence on both sides, so the two programs walk their common path together and dead arms are never visited. *)
Ltac head_scrut t :=
  lazymatch t with
  | match ?x with _ => _ end => head_scrut x
  | _ => t
  end.
Ltac tie_split_on a :=
  first [ match goal with H : a = _ |- _ => rewrite H end     (* a re-read of something already case-split *)
        | destruct a eqn:? ].
Ltac tie_step :=
  lazymatch goal with
  | |- ?l = ?r =>
    first [ lazymatch l with match _ with _ => _ end => let a := head_scrut l in tie_split_on a end
          | lazymatch r with match _ with _ => _ end => let b := head_scrut r in tie_split_on b end ]
  end.
