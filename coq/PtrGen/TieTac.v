(* Tactics for the tie lemmas (generated pointer-level definition = hand-written pointer-level model): both sides are
   total first-order programs over the same accessors, so after unfolding the glue (bind, assert, null tests, the bound
   readers/writers) they are trees of matches over the same atomic scrutinees; [tie_split] case-splits on the innermost
   scrutinee until both sides are the same value. *)
Ltac tie_destr :=
  match goal with
  | |- context [match ?x with _ => _ end] =>
    lazymatch x with
    | context [match _ with _ => _ end] => fail
    | _ => destruct x eqn:?
    end
  end.

(* a leaf: both sides are the same value, or the path is contradictory (a test remembered with two different results) *)
Ltac tie_done := first [reflexivity | congruence | discriminate].
