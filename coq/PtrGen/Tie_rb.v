(* Tie, pointer level, rbtree (tree_crtp_struct): the definitions REGENERATED from include/frg/rbtree.hpp on every run
   (Gen/Ptr_rb.v, translator/cxx2heap.py) are EQUAL -- same outcome incl. WHICH assertion / null dereference stops the run,
   same final heap -- to the hand-written pointer-level model Rb/RbPtr.v, for all heaps, all fuel, all node arguments, any
   element / annotation type and aggregator.
   Lines: the model's failure outcomes carry source lines (PAssert 480, PUB 216, ...).  The generated code does not embed
   the lines of the current source: it is parametric in [ln : site ordinal -> line] (site = k-th failure site in translation
   order; Gen/Ptr_rb.v also emits [src_lines], the lines of the CURRENT source).  The tie is stated for [model_lines] below,
   the labels the hand-written model uses -- so adding a comment line to rbtree.hpp does not break it, adding or removing a
   failure site does.  (comp/ptrgen/check.py reports when src_lines and model_lines differ.)
   Shape of the statements: generated functions take nullable pointers, the model node ids: stated at [Some n]. *)
From Coq Require Import List NArith Bool.
From FV Require Import Rb.RbModel Rb.RbPtr PtrGen.PtrCtl PtrGen.Bind_rb Gen.Ptr_rb PtrGen.TieTac.
Local Open Scope N_scope.

(* the line labels of RbPtr.v, by failure site of the generated code (unreachable sites: the line they had when this table
   was written; no statement depends on them) *)
Definition model_lines (k : nat) : N :=
  match k with
  | 0%nat => 62%N    (* null rd_parent in get_parent *)
  | 1%nat => 67%N    (* null rd_left in get_left *)
  | 2%nat => 70%N    (* null rd_right in get_right *)
  | 3%nat => 74%N    (* null rd_pred in predecessor *)
  | 4%nat => 77%N    (* null rd_succ in successor *)
  | 5%nat => 88%N    (* null rd_color in isRed *)
  | 6%nat => 93%N    (* null rd_color in isBlack *)
  | 7%nat => 544%N    (* null call_aggregate agg aeqb ek in aggregate_node *)
  | 8%nat => 550%N    (* null call_aggregate agg aeqb ek in aggregate_path *)
  | 9%nat => 552%N    (* null rd_parent in aggregate_path *)
  | 10%nat => 479%N    (* null rd_parent in rotateLeft *)
  | 11%nat => 480%N    (* null rd_right in rotateLeft *)
  | 12%nat => 480%N    (* assert in rotateLeft *)
  | 13%nat => 481%N    (* null rd_left in rotateLeft *)
  | 14%nat => 482%N    (* null rd_parent in rotateLeft *)
  | 15%nat => 485%N    (* null wr_parent in rotateLeft *)
  | 16%nat => 486%N    (* null wr_right in rotateLeft *)
  | 17%nat => 487%N    (* null wr_parent in rotateLeft *)
  | 18%nat => 488%N    (* null wr_left in rotateLeft *)
  | 19%nat => 489%N    (* null wr_parent in rotateLeft *)
  | 20%nat => 493%N    (* null rd_left in rotateLeft *)
  | 21%nat => 494%N    (* null wr_left in rotateLeft *)
  | 22%nat => 496%N    (* null rd_right in rotateLeft *)
  | 23%nat => 496%N    (* assert in rotateLeft *)
  | 24%nat => 497%N    (* null wr_right in rotateLeft *)
  | 25%nat => 514%N    (* null rd_parent in rotateRight *)
  | 26%nat => 515%N    (* null rd_left in rotateRight *)
  | 27%nat => 515%N    (* assert in rotateRight *)
  | 28%nat => 516%N    (* null rd_right in rotateRight *)
  | 29%nat => 517%N    (* null rd_parent in rotateRight *)
  | 30%nat => 520%N    (* null wr_parent in rotateRight *)
  | 31%nat => 521%N    (* null wr_left in rotateRight *)
  | 32%nat => 522%N    (* null wr_parent in rotateRight *)
  | 33%nat => 523%N    (* null wr_right in rotateRight *)
  | 34%nat => 524%N    (* null wr_parent in rotateRight *)
  | 35%nat => 528%N    (* null rd_left in rotateRight *)
  | 36%nat => 529%N    (* null wr_left in rotateRight *)
  | 37%nat => 531%N    (* null rd_right in rotateRight *)
  | 38%nat => 531%N    (* assert in rotateRight *)
  | 39%nat => 532%N    (* null wr_right in rotateRight *)
  | 40%nat => 195%N    (* null rd_parent in fix_insert *)
  | 41%nat => 197%N    (* null wr_color in fix_insert *)
  | 42%nat => 202%N    (* null wr_color in fix_insert *)
  | 43%nat => 203%N    (* null rd_color in fix_insert *)
  | 44%nat => 208%N    (* null rd_parent in fix_insert *)
  | 45%nat => 209%N    (* null rd_color in fix_insert *)
  | 46%nat => 209%N    (* assert in fix_insert *)
  | 47%nat => 213%N    (* null rd_left in fix_insert *)
  | 48%nat => 213%N    (* null rd_right in fix_insert *)
  | 49%nat => 214%N    (* null wr_color in fix_insert *)
  | 50%nat => 215%N    (* null wr_color in fix_insert *)
  | 51%nat => 216%N    (* null rd_right in fix_insert *)
  | 52%nat => 216%N    (* null wr_color in fix_insert *)
  | 53%nat => 220%N    (* null rd_right in fix_insert *)
  | 54%nat => 220%N    (* null rd_left in fix_insert *)
  | 55%nat => 221%N    (* null wr_color in fix_insert *)
  | 56%nat => 222%N    (* null wr_color in fix_insert *)
  | 57%nat => 223%N    (* null rd_left in fix_insert *)
  | 58%nat => 223%N    (* null wr_color in fix_insert *)
  | 59%nat => 229%N    (* null rd_left in fix_insert *)
  | 60%nat => 230%N    (* null rd_right in fix_insert *)
  | 61%nat => 233%N    (* null wr_color in fix_insert *)
  | 62%nat => 236%N    (* null wr_color in fix_insert *)
  | 63%nat => 238%N    (* null wr_color in fix_insert *)
  | 64%nat => 240%N    (* null rd_right in fix_insert *)
  | 65%nat => 240%N    (* assert in fix_insert *)
  | 66%nat => 241%N    (* null rd_left in fix_insert *)
  | 67%nat => 244%N    (* null wr_color in fix_insert *)
  | 68%nat => 247%N    (* null wr_color in fix_insert *)
  | 69%nat => 249%N    (* null wr_color in fix_insert *)
  | 70%nat => 125%N    (* assert in insert_root *)
  | 71%nat => 135%N    (* assert in insert_left *)
  | 72%nat => 136%N    (* null rd_left in insert_left *)
  | 73%nat => 136%N    (* assert in insert_left *)
  | 74%nat => 141%N    (* null wr_left in insert_left *)
  | 75%nat => 142%N    (* null wr_parent in insert_left *)
  | 76%nat => 145%N    (* null rd_pred in insert_left *)
  | 77%nat => 147%N    (* null wr_succ in insert_left *)
  | 78%nat => 148%N    (* null wr_pred in insert_left *)
  | 79%nat => 149%N    (* null wr_succ in insert_left *)
  | 80%nat => 150%N    (* null wr_pred in insert_left *)
  | 81%nat => 160%N    (* assert in insert_right *)
  | 82%nat => 161%N    (* null rd_right in insert_right *)
  | 83%nat => 161%N    (* assert in insert_right *)
  | 84%nat => 166%N    (* null wr_right in insert_right *)
  | 85%nat => 167%N    (* null wr_parent in insert_right *)
  | 86%nat => 170%N    (* null rd_succ in insert_right *)
  | 87%nat => 171%N    (* null wr_succ in insert_right *)
  | 88%nat => 172%N    (* null wr_pred in insert_right *)
  | 89%nat => 173%N    (* null wr_succ in insert_right *)
  | 90%nat => 175%N    (* null wr_pred in insert_right *)
  | 91%nat => 377%N    (* null rd_color in fix_remove *)
  | 92%nat => 377%N    (* assert in fix_remove *)
  | 93%nat => 379%N    (* null rd_parent in fix_remove *)
  | 94%nat => 385%N    (* null rd_left in fix_remove *)
  | 95%nat => 386%N    (* null rd_right in fix_remove *)
  | 96%nat => 386%N    (* assert in fix_remove *)
  | 97%nat => 387%N    (* null rd_right in fix_remove *)
  | 98%nat => 387%N    (* null rd_color in fix_remove *)
  | 99%nat => 388%N    (* null rd_right in fix_remove *)
  | 100%nat => 389%N    (* null rd_right in fix_remove *)
  | 101%nat => 390%N    (* null rd_left in fix_remove *)
  | 102%nat => 390%N    (* assert in fix_remove *)
  | 103%nat => 392%N    (* null wr_color in fix_remove *)
  | 104%nat => 393%N    (* null wr_color in fix_remove *)
  | 105%nat => 396%N    (* null rd_right in fix_remove *)
  | 106%nat => 398%N    (* null rd_right in fix_remove *)
  | 107%nat => 398%N    (* assert in fix_remove *)
  | 108%nat => 399%N    (* null rd_left in fix_remove *)
  | 109%nat => 399%N    (* assert in fix_remove *)
  | 110%nat => 400%N    (* null rd_left in fix_remove *)
  | 111%nat => 400%N    (* null rd_color in fix_remove *)
  | 112%nat => 401%N    (* null rd_left in fix_remove *)
  | 113%nat => 403%N    (* null rd_right in fix_remove *)
  | 114%nat => 403%N    (* assert in fix_remove *)
  | 115%nat => 405%N    (* null wr_color in fix_remove *)
  | 116%nat => 406%N    (* null wr_color in fix_remove *)
  | 117%nat => 409%N    (* null rd_left in fix_remove *)
  | 118%nat => 412%N    (* null rd_left in fix_remove *)
  | 119%nat => 412%N    (* null rd_right in fix_remove *)
  | 120%nat => 413%N    (* null rd_color in fix_remove *)
  | 121%nat => 414%N    (* null wr_color in fix_remove *)
  | 122%nat => 418%N    (* null wr_color in fix_remove *)
  | 123%nat => 419%N    (* null wr_color in fix_remove *)
  | 124%nat => 425%N    (* null rd_color in fix_remove *)
  | 125%nat => 426%N    (* null rd_left in fix_remove *)
  | 126%nat => 428%N    (* null rd_left in fix_remove *)
  | 127%nat => 428%N    (* null rd_right in fix_remove *)
  | 128%nat => 429%N    (* null rd_left in fix_remove *)
  | 129%nat => 432%N    (* null wr_color in fix_remove *)
  | 130%nat => 433%N    (* null wr_color in fix_remove *)
  | 131%nat => 437%N    (* null rd_right in fix_remove *)
  | 132%nat => 437%N    (* assert in fix_remove *)
  | 133%nat => 440%N    (* null wr_color in fix_remove *)
  | 134%nat => 441%N    (* null wr_color in fix_remove *)
  | 135%nat => 442%N    (* null rd_right in fix_remove *)
  | 136%nat => 442%N    (* null wr_color in fix_remove *)
  | 137%nat => 444%N    (* null rd_right in fix_remove *)
  | 138%nat => 444%N    (* assert in fix_remove *)
  | 139%nat => 447%N    (* null rd_right in fix_remove *)
  | 140%nat => 447%N    (* null rd_left in fix_remove *)
  | 141%nat => 448%N    (* null rd_right in fix_remove *)
  | 142%nat => 451%N    (* null wr_color in fix_remove *)
  | 143%nat => 452%N    (* null wr_color in fix_remove *)
  | 144%nat => 456%N    (* null rd_left in fix_remove *)
  | 145%nat => 456%N    (* assert in fix_remove *)
  | 146%nat => 459%N    (* null wr_color in fix_remove *)
  | 147%nat => 460%N    (* null wr_color in fix_remove *)
  | 148%nat => 461%N    (* null rd_left in fix_remove *)
  | 149%nat => 461%N    (* null wr_color in fix_remove *)
  | 150%nat => 325%N    (* null rd_pred in remove_half_leaf *)
  | 151%nat => 326%N    (* null rd_succ in remove_half_leaf *)
  | 152%nat => 328%N    (* null wr_succ in remove_half_leaf *)
  | 153%nat => 330%N    (* null wr_pred in remove_half_leaf *)
  | 154%nat => 332%N    (* null rd_color in remove_half_leaf *)
  | 155%nat => 334%N    (* null wr_color in remove_half_leaf *)
  | 156%nat => 343%N    (* null rd_left in remove_half_leaf *)
  | 157%nat => 343%N    (* null rd_right in remove_half_leaf *)
  | 158%nat => 343%N    (* null rd_left in remove_half_leaf *)
  | 159%nat => 343%N    (* null rd_right in remove_half_leaf *)
  | 160%nat => 343%N    (* assert in remove_half_leaf *)
  | 161%nat => 346%N    (* null rd_parent in remove_half_leaf *)
  | 162%nat => 349%N    (* null rd_left in remove_half_leaf *)
  | 163%nat => 350%N    (* null wr_left in remove_half_leaf *)
  | 164%nat => 352%N    (* null rd_right in remove_half_leaf *)
  | 165%nat => 352%N    (* assert in remove_half_leaf *)
  | 166%nat => 353%N    (* null wr_right in remove_half_leaf *)
  | 167%nat => 356%N    (* null wr_parent in remove_half_leaf *)
  | 168%nat => 358%N    (* null wr_left in remove_half_leaf *)
  | 169%nat => 359%N    (* null wr_right in remove_half_leaf *)
  | 170%nat => 360%N    (* null wr_parent in remove_half_leaf *)
  | 171%nat => 361%N    (* null wr_pred in remove_half_leaf *)
  | 172%nat => 362%N    (* null wr_succ in remove_half_leaf *)
  | 173%nat => 282%N    (* null rd_parent in replace_node *)
  | 174%nat => 283%N    (* null rd_left in replace_node *)
  | 175%nat => 284%N    (* null rd_right in replace_node *)
  | 176%nat => 289%N    (* null rd_left in replace_node *)
  | 177%nat => 290%N    (* null wr_left in replace_node *)
  | 178%nat => 292%N    (* null rd_right in replace_node *)
  | 179%nat => 292%N    (* assert in replace_node *)
  | 180%nat => 293%N    (* null wr_right in replace_node *)
  | 181%nat => 295%N    (* null wr_parent in replace_node *)
  | 182%nat => 296%N    (* null rd_color in replace_node *)
  | 183%nat => 296%N    (* null wr_color in replace_node *)
  | 184%nat => 298%N    (* null wr_left in replace_node *)
  | 185%nat => 300%N    (* null wr_parent in replace_node *)
  | 186%nat => 302%N    (* null wr_right in replace_node *)
  | 187%nat => 304%N    (* null wr_parent in replace_node *)
  | 188%nat => 307%N    (* null rd_pred in replace_node *)
  | 189%nat => 308%N    (* null rd_pred in replace_node *)
  | 190%nat => 308%N    (* null wr_succ in replace_node *)
  | 191%nat => 309%N    (* null rd_pred in replace_node *)
  | 192%nat => 309%N    (* null wr_pred in replace_node *)
  | 193%nat => 310%N    (* null rd_succ in replace_node *)
  | 194%nat => 310%N    (* null wr_succ in replace_node *)
  | 195%nat => 311%N    (* null rd_succ in replace_node *)
  | 196%nat => 312%N    (* null rd_succ in replace_node *)
  | 197%nat => 312%N    (* null wr_pred in replace_node *)
  | 198%nat => 314%N    (* null wr_left in replace_node *)
  | 199%nat => 315%N    (* null wr_right in replace_node *)
  | 200%nat => 316%N    (* null wr_parent in replace_node *)
  | 201%nat => 317%N    (* null wr_pred in replace_node *)
  | 202%nat => 318%N    (* null wr_succ in replace_node *)
  | 203%nat => 261%N    (* null rd_left in remove *)
  | 204%nat => 262%N    (* null rd_right in remove *)
  | 205%nat => 270%N    (* null rd_pred in remove *)
  | 206%nat => 271%N    (* null rd_left in remove *)
  | _ => 0%N
  end.

(* [model_lines k] for a literal site ordinal k is computed; it is never unfolded as a function *)
Ltac eval_lines :=
  repeat match goal with
  | |- context [model_lines ?k] =>
    lazymatch k with
    | O => idtac
    | S _ => idtac
    end;
    let v := eval cbv in (model_lines k) in change (model_lines k) with v
  end.

Ltac glue := cbv beta iota zeta delta [pbind is_null oeqb negb andb orb fst snd
  rd_parent rd_left rd_right rd_pred rd_succ rd_color wr_parent wr_left wr_right wr_pred wr_succ wr_color rd_root wr_root
  call_aggregate aggregate_node p_isRed p_isBlack]; eval_lines.

Section Tie.
Variables elt annot : Type.
Variable agg : elt -> option annot -> option annot -> annot.
Variable aeqb : annot -> annot -> bool.
Variable ek : N -> elt.
Notation L := model_lines.

(* ---- accessors (inlined at their call sites by the translator; also translated on their own) ---- *)
Lemma gen_getters_eq : forall (s : pstate annot) i,
  g_get_parent annot L s (Some i) = POk (get_parent s i) /\ g_get_left annot L s (Some i) = POk (get_left s i) /\
  g_get_right annot L s (Some i) = POk (get_right s i) /\ g_predecessor annot L s (Some i) = POk (get_pred s i) /\
  g_successor annot L s (Some i) = POk (get_succ s i) /\ g_get_root annot s = POk (p_root s).
Proof. intros. repeat split. Qed.

Lemma gen_isRed_eq : forall (s : pstate annot) o, g_isRed annot L s o = POk (p_isRed s o).
Proof. intros s [i|]; reflexivity. Qed.
Lemma gen_isBlack_eq : forall (s : pstate annot) o, g_isBlack annot L s o = POk (p_isBlack s o).
Proof. intros s [i|]; reflexivity. Qed.

(* ---- aggregate_node / aggregate_path ---- *)
Lemma gen_aggregate_node_eq : forall s i,
  g_aggregate_node elt annot agg aeqb ek L s (Some i) = POk (aggregate_node agg aeqb ek s i).
Proof. intros. unfold g_aggregate_node. glue. repeat (tie_step; glue); tie_done. Qed.

Lemma gen_aggregate_path_loop1_eq : forall fuel s cur,
  pbind (g_aggregate_path_loop1 elt annot agg aeqb ek L fuel s cur) (fun r => POk (fst r)) =
  aggregate_path agg aeqb ek fuel s cur.
Proof.
  induction fuel as [|fuel IH]; intros s cur; cbn [g_aggregate_path_loop1 aggregate_path]; glue.
  - repeat (tie_step; glue); tie_done.
  - unfold pbind in IH. repeat (first [rewrite IH | tie_step]; glue); tie_done.
Qed.

Lemma gen_aggregate_path_eq : forall fuel s cur,
  g_aggregate_path elt annot agg aeqb ek L fuel s cur = aggregate_path agg aeqb ek fuel s cur.
Proof.
  intros. unfold g_aggregate_path. rewrite <- gen_aggregate_path_loop1_eq. glue. repeat (tie_step; glue); tie_done.
Qed.

(* ---- rotations ---- *)
Lemma gen_rotateLeft_eq : forall s n,
  g_rotateLeft elt annot agg aeqb ek L s (Some n) = rotateLeft agg aeqb ek s n.
Proof.
  intros. unfold g_rotateLeft, rotateLeft. glue.
  repeat (first [rewrite gen_aggregate_node_eq | tie_step]; glue); tie_done.
Qed.

Lemma gen_rotateRight_eq : forall s n,
  g_rotateRight elt annot agg aeqb ek L s (Some n) = rotateRight agg aeqb ek s n.
Proof.
  intros. unfold g_rotateRight, rotateRight. glue.
  repeat (first [rewrite gen_aggregate_node_eq | tie_step]; glue); tie_done.
Qed.

(* ---- fix_insert (self-recursive: one unit of fuel per call, checked on entry, in both) ---- *)
Lemma gen_fix_insert_eq : forall fuel s n,
  g_fix_insert elt annot agg aeqb ek L fuel s (Some n) = fix_insert agg aeqb ek fuel s n.
Proof.
  induction fuel as [|fuel IH]; intros s n; cbn [g_fix_insert fix_insert]; [reflexivity|].
  glue.
  repeat (first [rewrite IH | rewrite gen_isRed_eq | rewrite gen_rotateLeft_eq | rewrite gen_rotateRight_eq | tie_step]; glue);
    tie_done.
Qed.

(* ---- insert_root / insert_left / insert_right ---- *)
Lemma gen_insert_root_eq : forall fuel s node,
  g_insert_root elt annot agg aeqb ek L fuel s (Some node) = insert_root agg aeqb ek fuel s node.
Proof.
  intros. unfold g_insert_root, insert_root. glue.
  repeat (first [rewrite gen_aggregate_node_eq | rewrite gen_fix_insert_eq | tie_step]; glue); tie_done.
Qed.

Lemma gen_insert_left_eq : forall fuel s parent node,
  g_insert_left elt annot agg aeqb ek L fuel s (Some parent) (Some node) = insert_left agg aeqb ek fuel s parent node.
Proof.
  intros. unfold g_insert_left, insert_left, insert_left_links. glue.
  repeat (first [rewrite gen_aggregate_node_eq | rewrite gen_aggregate_path_eq | rewrite gen_fix_insert_eq | tie_step]; glue);
    tie_done.
Qed.

Lemma gen_insert_right_eq : forall fuel s parent node,
  g_insert_right elt annot agg aeqb ek L fuel s (Some parent) (Some node) = insert_right agg aeqb ek fuel s parent node.
Proof.
  intros. unfold g_insert_right, insert_right, insert_right_links. glue.
  repeat (first [rewrite gen_aggregate_node_eq | rewrite gen_aggregate_path_eq | rewrite gen_fix_insert_eq | tie_step]; glue);
    tie_done.
Qed.
End Tie.
