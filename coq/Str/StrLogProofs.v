(* C16 for basic_string: the allocation event log of EVERY script that runs to completion, followed by the
   destruction of all live strings, is well-formed and closed (every block freed exactly once, nothing left).
   The argument only needs what each operation does to (snext, sevs) and which buffer the result owns, so it
   uses partial-correctness triples (nothing is claimed when an operation ends in UB / AssertStop). *)
From Coq Require Import List NArith ZArith Bool Lia Arith.
From Coq Require Import ZifyBool ZifyNat ZifyN.
From FV Require Import Common.EventLog Str.StrModel.
Import ListNotations.

Definition pM {A} (c : M A) (s : st) (Q : A -> st -> Prop) : Prop :=
  match c s with (Ok a, s') => Q a s' | _ => True end.
Lemma pM_ret {A} (a : A) s (Q : A -> st -> Prop) : Q a s -> pM (retM a) s Q.
Proof. intros H. exact H. Qed.
Lemma pM_bind {A C} (c : M A) (f : A -> M C) s Q1 Q2 :
  pM c s Q1 -> (forall a s', Q1 a s' -> pM (f a) s' Q2) -> pM (bindM c f) s Q2.
Proof.
  unfold pM, bindM. destruct (c s) as [[a|w|w|] s1]; simpl; auto.
  intros H Hf. exact (Hf a s1 H).
Qed.
Lemma pM_weaken {A} (c : M A) s (Q1 Q2 : A -> st -> Prop) :
  pM c s Q1 -> (forall a s', Q1 a s' -> Q2 a s') -> pM c s Q2.
Proof. unfold pM. destruct (c s) as [[a|w|w|] s1]; auto. Qed.

(* effect of a computation on the id counter and the event log *)
Definition eff (s s' : st) (k : nat) (evs : list ev) : Prop :=
  snext s' = (k + snext s)%nat /\ sevs s' = sevs s ++ evs.
Lemma eff_refl s : eff s s 0 [].
Proof. split; [reflexivity|symmetry; apply app_nil_r]. Qed.
Lemma eff_trans s s1 s2 k1 k2 e1 e2 : eff s s1 k1 e1 -> eff s1 s2 k2 e2 -> eff s s2 (k2 + k1) (e1 ++ e2).
Proof. intros [A B] [C D]. split; [lia|rewrite D, B, app_assoc; reflexivity]. Qed.

Lemma pM_alloc n junk s : pM (m_alloc n junk) s (fun b s' => b = snext s /\ eff s s' 1 [EAlloc (snext s) n]).
Proof. unfold pM, m_alloc. simpl. repeat split. Qed.
Lemma pM_free b s : pM (m_free b) s (fun _ s' => eff s s' 0 [EFree b]).
Proof. unfold pM, m_free. destruct (mem_get (smem s) b); [|exact I]. split; reflexivity. Qed.
Lemma pM_write b off w s : pM (m_write b off w) s (fun _ s' => eff s s' 0 []).
Proof.
  unfold pM, m_write. destruct (mem_get (smem s) b); [|exact I].
  destruct (_ <=? _)%N; [|exact I]. split; [reflexivity|symmetry; apply app_nil_r].
Qed.
Lemma pM_liftR {A} (c : mem -> R A) s : pM (liftR c) s (fun _ s' => eff s s' 0 []).
Proof.
  unfold pM, liftR. destruct (c (smem s)) as [[a|w|w|] l]; try exact I. split; [reflexivity|symmetry; apply app_nil_r].
Qed.

(* read-only computations *)
Definition ro {A} (c : M A) : Prop := forall s, pM c s (fun _ s' => eff s s' 0 []).
Lemma ro_ret {A} (a : A) : ro (retM a).
Proof. intros s. apply pM_ret. apply eff_refl. Qed.
Lemma ro_liftR {A} (c : mem -> R A) : ro (liftR c).
Proof. intros s. apply pM_liftR. Qed.
Lemma ro_bind {A C} (c : M A) (f : A -> M C) : ro c -> (forall a, ro (f a)) -> ro (bindM c f).
Proof.
  intros Hc Hf s. eapply pM_bind; [apply Hc|]. intros a s1 E1.
  eapply pM_weaken; [apply Hf|]. intros x s2 E2. pose proof (eff_trans _ _ _ _ _ _ _ E1 E2) as E. exact E.
Qed.

Ltac step_with L := eapply pM_bind; [apply L|cbv beta].

(* ---- string-producing operations *)
Definition free_evs (old : option nat) : list ev := match old with Some b => [EFree b] | None => [] end.

Lemma p_from_ptr_len p n s :
  pM (s_from_ptr_len p n) s (fun r s' => sbuf r = Some (snext s) /\ eff s s' 1 [EAlloc (snext s) (n + 1)]).
Proof.
  unfold s_from_ptr_len.
  step_with pM_alloc. intros b s1 (-> & E1).
  step_with (@pM_liftR (list byte)). intros l s2 E2.
  step_with pM_write. intros u1 s3 E3.
  step_with pM_write. intros u2 s4 E4.
  apply pM_ret. split; [reflexivity|].
  pose proof (eff_trans _ _ _ _ _ _ _ (eff_trans _ _ _ _ _ _ _ (eff_trans _ _ _ _ _ _ _ E1 E2) E3) E4) as E.
  rewrite !app_nil_r in E. exact E.
Qed.
Lemma eff_after_ro s s1 s2 k e : eff s s1 0 [] -> eff s1 s2 k e -> eff s s2 k e.
Proof. intros A B. pose proof (eff_trans _ _ _ _ _ _ _ A B) as E. rewrite Nat.add_0_r in E. exact E. Qed.
Lemma eff_snext0 s s1 : eff s s1 0 [] -> snext s1 = snext s.
Proof. intros [A _]. exact A. Qed.

Lemma p_from_cstr p s :
  pM (s_from_cstr p) s (fun r s' => sbuf r = Some (snext s) /\ exists n, eff s s' 1 [EAlloc (snext s) n]).
Proof.
  unfold s_from_cstr. step_with (@pM_liftR N). intros n s1 E1.
  eapply pM_weaken; [apply p_from_ptr_len|]. intros r s2 [A B]. rewrite (eff_snext0 _ _ E1) in *.
  split; [exact A|]. exists (n + 1)%N. eapply eff_after_ro; eassumption.
Qed.
Lemma p_fill n c s :
  pM (s_fill n c) s (fun r s' => sbuf r = Some (snext s) /\ exists m, eff s s' 1 [EAlloc (snext s) m]).
Proof.
  unfold s_fill.
  step_with pM_alloc. intros b s1 (-> & E1).
  step_with pM_write. intros u1 s3 E3.
  step_with pM_write. intros u2 s4 E4.
  apply pM_ret. split; [reflexivity|]. exists (n + 1)%N.
  pose proof (eff_trans _ _ _ _ _ _ _ (eff_trans _ _ _ _ _ _ _ E1 E3) E4) as E. rewrite !app_nil_r in E. exact E.
Qed.
Lemma p_destroy x s : pM (s_destroy x) s (fun _ s' => eff s s' 0 (free_evs (sbuf x))).
Proof. unfold s_destroy. destruct (sbuf x); [apply pM_free|apply pM_ret; apply eff_refl]. Qed.

(* one allocation, then the old buffer (if any) freed *)
Definition alloc1 (s : st) (old : option nat) (r : str) (s' : st) : Prop :=
  sbuf r = Some (snext s) /\ exists n, eff s s' 1 (EAlloc (snext s) n :: free_evs old).

Lemma p_assign dst src s : pM (s_assign dst src) s (alloc1 s (sbuf dst)).
Proof.
  unfold s_assign, s_copy. step_with p_from_ptr_len. intros r s1 [A E1].
  step_with p_destroy. intros u s2 E2. apply pM_ret. split; [exact A|]. eexists.
  exact (eff_trans _ _ _ _ _ _ _ E1 E2).
Qed.
Lemma p_resize x n junk s : pM (s_resize x n junk) s (alloc1 s (sbuf x)).
Proof.
  unfold s_resize.
  step_with pM_alloc. intros b s1 (-> & E1).
  step_with (@pM_liftR (list byte)). intros l s2 E2.
  step_with pM_write. intros u1 s3 E3.
  step_with pM_write. intros u2 s4 E4.
  step_with p_destroy. intros u3 s5 E5.
  apply pM_ret. split; [reflexivity|]. eexists.
  pose proof (eff_trans _ _ _ _ _ _ _ (eff_trans _ _ _ _ _ _ _ (eff_trans _ _ _ _ _ _ _ (eff_trans _ _ _ _ _ _ _ E1 E2) E3) E4) E5) as E.
  rewrite !app_nil_r in E. exact E.
Qed.
Lemma p_concat_buf x tail tn s : ro tail ->
  pM (s_concat_buf x tail tn) s (fun b s' => b = snext s /\ exists n, eff s s' 1 [EAlloc (snext s) n]).
Proof.
  intros Ht. unfold s_concat_buf.
  step_with pM_alloc. intros b s1 (-> & E1).
  step_with (@pM_liftR (list byte)). intros l s2 E2.
  step_with pM_write. intros u1 s3 E3.
  step_with Ht. intros t s4 E4.
  step_with pM_write. intros u2 s5 E5.
  step_with pM_write. intros u3 s6 E6.
  apply pM_ret. split; [reflexivity|]. eexists.
  pose proof (eff_trans _ _ _ _ _ _ _ (eff_trans _ _ _ _ _ _ _ (eff_trans _ _ _ _ _ _ _ (eff_trans _ _ _ _ _ _ _ (eff_trans _ _ _ _ _ _ _ E1 E2) E3) E4) E5) E6) as E.
  rewrite !app_nil_r in E. exact E.
Qed.
Lemma p_append x tail tn s : ro tail -> pM (s_append x tail tn) s (alloc1 s (sbuf x)).
Proof.
  intros Ht. unfold s_append. step_with (p_concat_buf x tail tn s Ht). intros b s1 (-> & n & E1).
  step_with p_destroy. intros u s2 E2. apply pM_ret. split; [reflexivity|]. exists n.
  exact (eff_trans _ _ _ _ _ _ _ E1 E2).
Qed.
(* operator+ : scratch and result allocated, scratch freed *)
Definition alloc2 (s : st) (r : str) (s' : st) : Prop :=
  sbuf r = Some (S (snext s)) /\
  exists n1 n2, eff s s' 2 [EAlloc (snext s) n1; EAlloc (S (snext s)) n2; EFree (snext s)].
Lemma p_plus x tail tn s : ro tail -> pM (s_plus x tail tn) s (alloc2 s).
Proof.
  intros Ht. unfold s_plus. step_with (p_concat_buf x tail tn s Ht). intros b s1 (-> & n & E1).
  step_with p_from_ptr_len. intros r s2 [A E2].
  step_with pM_free. intros u s3 E3. apply pM_ret.
  assert (Hs1 : snext s1 = S (snext s)) by (destruct E1 as [E _]; exact E).
  rewrite Hs1 in *. split; [exact A|]. eexists _, _.
  exact (eff_trans _ _ _ _ _ _ _ (eff_trans _ _ _ _ _ _ _ E1 E2) E3).
Qed.
Lemma ro_tail_view v : ro (tail_view v).
Proof. apply ro_liftR. Qed.
Lemma ro_tail_char c : ro (tail_char c).
Proof. apply ro_ret. Qed.

(* ---- the log state as a count of live blocks *)
Definition cnt (l : list nat) (b : nat) : nat := count_occ Nat.eq_dec l b.
Definition logst (evs : list ev) (c : nat -> nat) : Prop :=
  exists ls, ev_run ls0 evs = Some ls /\ live ls = [] /\ forall b, cnt (map fst (blocks ls)) b = c b.

Lemma has_block_cnt b ls : (has_block b ls = None <-> cnt (map fst (blocks ls)) b = 0%nat).
Proof.
  unfold has_block. induction (blocks ls) as [|[b' n] l IH]; simpl; [tauto|].
  unfold cnt in *. simpl. destruct (Nat.eqb_spec b' b) as [->|E].
  - destruct (Nat.eq_dec b b); [|contradiction]. split; discriminate.
  - destruct (Nat.eq_dec b' b); [contradiction|]. exact IH.
Qed.
Lemma cnt_drop b l b0 :
  cnt (map fst (filter (fun x : nat * N => negb (Nat.eqb (fst x) b)) l)) b0 = if Nat.eqb b0 b then 0%nat else cnt (map fst l) b0.
Proof.
  induction l as [|[b' n] l IH]; cbn [filter map fst]; [unfold cnt; simpl; destruct (Nat.eqb b0 b); reflexivity|].
  destruct (Nat.eqb_spec b' b) as [E|E]; cbn [negb map fst].
  - rewrite IH. unfold cnt. cbn [count_occ]. destruct (Nat.eqb_spec b0 b) as [E0|E0]; [reflexivity|].
    destruct (Nat.eq_dec b' b0); [congruence|reflexivity].
  - unfold cnt in *. cbn [count_occ]. rewrite IH. destruct (Nat.eqb_spec b0 b) as [E0|E0]; [|reflexivity].
    destruct (Nat.eq_dec b' b0); [congruence|reflexivity].
Qed.

Lemma logst_alloc evs c b n : logst evs c -> c b = 0%nat -> b <> 0%nat ->
  logst (evs ++ [EAlloc b n]) (fun b0 => if Nat.eqb b0 b then 1%nat else c b0).
Proof.
  intros (ls & Hr & Hl & Hc) Hb Hnz.
  exists (mk_ls ((b, n) :: blocks ls) (live ls)). split; [|split; [exact Hl|]].
  - rewrite ev_run_app, Hr. simpl. destruct (Nat.eqb_spec b 0); [contradiction|].
    assert (H : has_block b ls = None) by (apply has_block_cnt; rewrite Hc; exact Hb). rewrite H. reflexivity.
  - intros b0. simpl. unfold cnt in *. simpl. destruct (Nat.eqb_spec b0 b) as [->|E].
    + destruct (Nat.eq_dec b b); [|contradiction]. rewrite Hc, Hb. reflexivity.
    + destruct (Nat.eq_dec b b0); [congruence|]. apply Hc.
Qed.
Lemma logst_free evs c b : logst evs c -> (c b > 0)%nat ->
  logst (evs ++ [EFree b]) (fun b0 => if Nat.eqb b0 b then 0%nat else c b0).
Proof.
  intros (ls & Hr & Hl & Hc) Hb.
  exists (drop_block b ls). split; [|split; [exact Hl|]].
  - rewrite ev_run_app, Hr. simpl.
    destruct (has_block b ls) eqn:H; [|apply has_block_cnt in H; rewrite Hc in H; lia].
    unfold no_live_in. rewrite Hl. reflexivity.
  - intros b0. unfold drop_block. simpl. rewrite cnt_drop. destruct (Nat.eqb b0 b); [reflexivity|apply Hc].
Qed.
Lemma logst_ext evs c c' : (forall b, c b = c' b) -> logst evs c -> logst evs c'.
Proof. intros H (ls & A & B & C). exists ls. repeat split; try assumption. intros b. rewrite <- H. apply C. Qed.

(* ---- the strings table *)
Definition own1 (o : option str) : list nat :=
  match o with Some x => match sbuf x with Some b => [b] | None => [] end | None => [] end.
Definition owned (strs : list (option str)) : list nat := flat_map own1 strs.

Lemma cnt_app l1 l2 b : cnt (l1 ++ l2) b = (cnt l1 b + cnt l2 b)%nat.
Proof. apply count_occ_app. Qed.
Lemma owned_app l1 l2 : owned (l1 ++ l2) = owned l1 ++ owned l2.
Proof. apply flat_map_app. Qed.
Lemma owned_cons o l : owned (o :: l) = own1 o ++ owned l.
Proof. reflexivity. Qed.

Lemma set_nth_split {A} (l : list A) k y x : nth_error l k = Some y ->
  exists l1 l2, l = l1 ++ y :: l2 /\ set_nth l k x = l1 ++ x :: l2.
Proof.
  revert k; induction l as [|a l IH]; intros k H; [destruct k; discriminate|].
  destruct k as [|k]; simpl in H.
  - injection H as ->. exists [], l. split; reflexivity.
  - destruct (IH k H) as (l1 & l2 & E1 & E2). exists (a :: l1), l2. simpl. rewrite <- E1, E2. split; reflexivity.
Qed.
Lemma cnt_set_nth strs k y x b : nth_error strs k = Some y ->
  (cnt (owned (set_nth strs k x)) b + cnt (own1 y) b = cnt (owned strs) b + cnt (own1 x) b)%nat.
Proof.
  intros H. destruct (set_nth_split strs k y x H) as (l1 & l2 & E1 & E2). rewrite E2. rewrite E1.
  rewrite !owned_app, !owned_cons, !cnt_app. lia.
Qed.
Lemma nth_error_set_nth {A} (l : list A) k x j : (k < length l)%nat ->
  nth_error (set_nth l k x) j = if Nat.eqb k j then Some x else nth_error l j.
Proof.
  revert k j; induction l as [|a l IH]; intros k j H; simpl in H; [lia|].
  destruct k as [|k]; destruct j as [|j]; simpl; try reflexivity. apply IH. lia.
Qed.

Lemma cnt_own1_some b b0 n : cnt (own1 (Some (mkStr (Some b) n))) b0 = if Nat.eqb b0 b then 1%nat else 0%nat.
Proof.
  unfold cnt. simpl. destruct (Nat.eq_dec b b0) as [->|E]; [rewrite Nat.eqb_refl; reflexivity|].
  destruct (Nat.eqb_spec b0 b); [congruence|reflexivity].
Qed.

(* ---- the invariant *)
Record linv (s : st) (strs : list (option str)) : Prop := mk_linv {
  li_pos : (1 <= snext s)%nat;
  li_below : forall b, (cnt (owned strs) b > 0)%nat -> (b < snext s)%nat;
  li_nodup : forall b, (cnt (owned strs) b <= 1)%nat;
  li_log : logst (sevs s) (cnt (owned strs)) }.

Lemma linv_ro s s' strs : linv s strs -> eff s s' 0 [] -> linv s' strs.
Proof.
  intros [A B C D] [E1 E2]. rewrite app_nil_r in E2. split; try assumption.
  - lia. - intros b H. apply B in H. lia. - rewrite E2. exact D.
Qed.
Lemma linv_bump s s' strs k : linv s strs -> snext s' = (k + snext s)%nat -> sevs s' = sevs s -> linv s' strs.
Proof.
  intros [A B C D] E1 E2. split; try assumption.
  - lia. - intros b H. apply B in H. lia. - rewrite E2. exact D.
Qed.

Lemma get_str_nth w k x : get_str w k = Some x -> nth_error (wstrs w) k = Some (Some x).
Proof. unfold get_str. destruct (nth_error (wstrs w) k) as [[y|]|]; intros H; try discriminate. injection H as ->. reflexivity. Qed.
Lemma cnt_own1_le strs k y b : nth_error strs k = Some y -> (cnt (own1 y) b <= cnt (owned strs) b)%nat.
Proof.
  intros H. destruct (set_nth_split strs k y y H) as (l1 & l2 & E1 & _). rewrite E1.
  rewrite owned_app, owned_cons, !cnt_app. lia.
Qed.
Lemma cnt_free_evs_old x b : cnt (own1 (Some x)) b = match sbuf x with Some b' => if Nat.eqb b b' then 1%nat else 0%nat | None => 0%nat end.
Proof.
  unfold own1, cnt. destruct (sbuf x) as [b'|]; [|reflexivity]. simpl.
  destruct (Nat.eq_dec b' b) as [->|E]; [rewrite Nat.eqb_refl; reflexivity|].
  destruct (Nat.eqb_spec b b'); [congruence|reflexivity].
Qed.

(* a new string appended to the table *)
Lemma linv_new s s' strs r n : linv s strs -> sbuf r = Some (snext s) -> eff s s' 1 [EAlloc (snext s) n] ->
  linv s' (strs ++ [Some r]).
Proof.
  intros [A B C D] Hr [E1 E2].
  assert (Hz : cnt (owned strs) (snext s) = 0%nat).
  { destruct (cnt (owned strs) (snext s)) eqn:E; [reflexivity|]. assert (H : (cnt (owned strs) (snext s) > 0)%nat) by lia. apply B in H. lia. }
  assert (Hc : forall b, cnt (owned (strs ++ [Some r])) b = if Nat.eqb b (snext s) then 1%nat else cnt (owned strs) b).
  { intros b. rewrite owned_app, cnt_app. change (owned [Some r]) with (own1 (Some r) ++ []). rewrite app_nil_r, cnt_free_evs_old, Hr.
    destruct (Nat.eqb_spec b (snext s)) as [->|]; lia. }
  split.
  - lia.
  - intros b. rewrite Hc. destruct (Nat.eqb_spec b (snext s)); [lia|]. intros H. apply B in H. lia.
  - intros b. rewrite Hc. destruct (Nat.eqb b (snext s)); [lia|apply C].
  - rewrite E2. eapply logst_ext; [intros b; symmetry; apply Hc|]. apply logst_alloc; [exact D|exact Hz|lia].
Qed.
(* slot k replaced: new buffer allocated, then the old buffer of slot k freed *)
Lemma linv_replace s s' strs k x r n : linv s strs -> nth_error strs k = Some (Some x) ->
  sbuf r = Some (snext s) -> eff s s' 1 (EAlloc (snext s) n :: free_evs (sbuf x)) ->
  linv s' (set_nth strs k (Some r)).
Proof.
  intros [A B C D] Hk Hr [E1 E2].
  assert (Hz : cnt (owned strs) (snext s) = 0%nat).
  { destruct (cnt (owned strs) (snext s)) eqn:E; [reflexivity|]. assert (H : (cnt (owned strs) (snext s) > 0)%nat) by lia. apply B in H. lia. }
  pose proof (fun b => cnt_set_nth strs k (Some x) (Some r) b Hk) as Hset.
  pose proof (fun b => cnt_own1_le strs k (Some x) b Hk) as Hle.
  assert (Hc : forall b, cnt (owned (set_nth strs k (Some r))) b =
               if Nat.eqb b (snext s) then 1%nat else (cnt (owned strs) b - cnt (own1 (Some x)) b)%nat).
  { intros b. specialize (Hset b). specialize (Hle b). rewrite (cnt_free_evs_old r), Hr in Hset.
    destruct (Nat.eqb_spec b (snext s)) as [Eb|Eb]; [|lia].
    rewrite Eb in *. assert (cnt (own1 (Some x)) (snext s) = 0%nat) by lia. lia. }
  split.
  - lia.
  - intros b. rewrite Hc. destruct (Nat.eqb_spec b (snext s)); [lia|]. intros H.
    assert (H' : (cnt (owned strs) b > 0)%nat) by lia. apply B in H'. lia.
  - intros b. rewrite Hc. specialize (C b). destruct (Nat.eqb b (snext s)); lia.
  - rewrite E2. change (EAlloc (snext s) n :: free_evs (sbuf x)) with ([EAlloc (snext s) n] ++ free_evs (sbuf x)).
    rewrite app_assoc.
    pose proof (logst_alloc _ _ (snext s) n D Hz ltac:(lia)) as L1.
    destruct (sbuf x) as [bo|] eqn:Eo; cbn [free_evs].
    + assert (Hbo : (cnt (owned strs) bo > 0)%nat).
      { specialize (Hle bo). rewrite cnt_free_evs_old, Eo, Nat.eqb_refl in Hle. lia. }
      pose proof (B bo Hbo) as Hlt.
      eapply logst_ext; [|apply (logst_free _ _ bo L1)].
      * intros b. rewrite Hc. rewrite cnt_free_evs_old, Eo.
        destruct (Nat.eqb_spec b bo) as [->|]; destruct (Nat.eqb_spec bo (snext s)); try lia.
        -- specialize (C bo). lia.
        -- destruct (Nat.eqb_spec b (snext s)); lia.
      * cbv beta. destruct (Nat.eqb_spec bo (snext s)); lia.
    + rewrite app_nil_r. eapply logst_ext; [|exact L1]. intros b. rewrite Hc, cnt_free_evs_old, Eo.
      destruct (Nat.eqb b (snext s)); lia.
Qed.
(* slot k loses its buffer (destroyed, or detached and freed by the caller) *)
Lemma linv_release s s' strs k x y : linv s strs -> nth_error strs k = Some (Some x) -> own1 y = [] ->
  eff s s' 0 (free_evs (sbuf x)) -> linv s' (set_nth strs k y).
Proof.
  intros [A B C D] Hk Hy [E1 E2].
  pose proof (fun b => cnt_set_nth strs k (Some x) y b Hk) as Hset.
  pose proof (fun b => cnt_own1_le strs k (Some x) b Hk) as Hle.
  assert (Hc : forall b, cnt (owned (set_nth strs k y)) b = (cnt (owned strs) b - cnt (own1 (Some x)) b)%nat).
  { intros b. specialize (Hset b). specialize (Hle b). rewrite Hy in Hset. change (cnt [] b) with 0%nat in Hset. lia. }
  split.
  - lia.
  - intros b. rewrite Hc. intros H. assert (H' : (cnt (owned strs) b > 0)%nat) by lia. apply B in H'. lia.
  - intros b. rewrite Hc. specialize (C b). lia.
  - rewrite E2. destruct (sbuf x) as [bo|] eqn:Eo; cbn [free_evs].
    + assert (Hbo : (cnt (owned strs) bo > 0)%nat).
      { specialize (Hle bo). rewrite cnt_free_evs_old, Eo, Nat.eqb_refl in Hle. lia. }
      eapply logst_ext; [|apply (logst_free _ _ bo D Hbo)].
      intros b. rewrite Hc, cnt_free_evs_old, Eo. destruct (Nat.eqb_spec b bo) as [->|]; [specialize (C bo); lia|lia].
    + rewrite app_nil_r. eapply logst_ext; [|exact D]. intros b. rewrite Hc, cnt_free_evs_old, Eo. lia.
Qed.
(* operator+ result appended *)
Lemma linv_plus s s' strs r n1 n2 : linv s strs -> sbuf r = Some (S (snext s)) ->
  eff s s' 2 [EAlloc (snext s) n1; EAlloc (S (snext s)) n2; EFree (snext s)] -> linv s' (strs ++ [Some r]).
Proof.
  intros [A B C D] Hr [E1 E2].
  assert (Hz : forall b, (snext s <= b)%nat -> cnt (owned strs) b = 0%nat).
  { intros b Hb. destruct (cnt (owned strs) b) eqn:E; [reflexivity|]. assert (H : (cnt (owned strs) b > 0)%nat) by lia. apply B in H. lia. }
  assert (Hc : forall b, cnt (owned (strs ++ [Some r])) b = if Nat.eqb b (S (snext s)) then 1%nat else cnt (owned strs) b).
  { intros b. rewrite owned_app, cnt_app. change (owned [Some r]) with (own1 (Some r) ++ []). rewrite app_nil_r, cnt_free_evs_old, Hr.
    destruct (Nat.eqb_spec b (S (snext s))) as [->|]; [rewrite Hz by lia; lia|lia]. }
  split.
  - lia.
  - intros b. rewrite Hc. destruct (Nat.eqb_spec b (S (snext s))); [lia|]. intros H. apply B in H. lia.
  - intros b. rewrite Hc. destruct (Nat.eqb b (S (snext s))); [lia|apply C].
  - rewrite E2.
    change [EAlloc (snext s) n1; EAlloc (S (snext s)) n2; EFree (snext s)]
      with (([EAlloc (snext s) n1] ++ [EAlloc (S (snext s)) n2]) ++ [EFree (snext s)]).
    rewrite !app_assoc.
    assert (Z0 : cnt (owned strs) (snext s) = 0%nat) by (apply Hz; lia).
    assert (Z1 : cnt (owned strs) (S (snext s)) = 0%nat) by (apply Hz; lia).
    pose proof (logst_alloc _ _ (snext s) n1 D Z0 ltac:(lia)) as L1.
    assert (L2 : logst ((sevs s ++ [EAlloc (snext s) n1]) ++ [EAlloc (S (snext s)) n2])
                   (fun b0 => if Nat.eqb b0 (S (snext s)) then 1%nat
                              else if Nat.eqb b0 (snext s) then 1%nat else cnt (owned strs) b0)).
    { apply (logst_alloc _ _ (S (snext s)) n2 L1); [|lia]. cbv beta.
      destruct (Nat.eqb_spec (S (snext s)) (snext s)); [lia|exact Z1]. }
    assert (L3 : logst (((sevs s ++ [EAlloc (snext s) n1]) ++ [EAlloc (S (snext s)) n2]) ++ [EFree (snext s)])
                   (fun b0 => if Nat.eqb b0 (snext s) then 0%nat
                              else if Nat.eqb b0 (S (snext s)) then 1%nat
                              else if Nat.eqb b0 (snext s) then 1%nat else cnt (owned strs) b0)).
    { apply (logst_free _ _ (snext s) L2). cbv beta. rewrite Nat.eqb_refl.
      destruct (Nat.eqb_spec (snext s) (S (snext s))); lia. }
    eapply logst_ext; [|exact L3]. intros b. cbv beta. rewrite Hc.
    destruct (Nat.eqb_spec b (snext s)) as [E1'|E1']; destruct (Nat.eqb_spec b (S (snext s))) as [E2'|E2']; try lia.
    all: try reflexivity.
    subst b. rewrite Z0. reflexivity.
Qed.

(* ---- every script line preserves the invariant *)
Definition winv (w : world) : Prop := linv (wst w) (wstrs w).
Definition keeps (w : world) (c : M (out * effect)) : Prop :=
  pM c (wst w) (fun rf s' => winv (apply_effect w s' (snd rf))).

Lemma linv_cnt_ext s strs strs' : (forall b, cnt (owned strs') b = cnt (owned strs) b) -> linv s strs -> linv s strs'.
Proof.
  intros H [A B C D]. split; [exact A| | |].
  - intros b. rewrite H. apply B.
  - intros b. rewrite H. apply C.
  - eapply logst_ext; [|exact D]. intros b. symmetry. apply H.
Qed.
Lemma linv_app_nil s strs y : own1 y = [] -> linv s strs -> linv s (strs ++ [y]).
Proof.
  intros Hy. apply linv_cnt_ext. intros b. rewrite owned_app, cnt_app.
  change (owned [y]) with (own1 y ++ []). rewrite Hy. unfold cnt at 2. simpl. lia.
Qed.

Lemma keeps_ro w c f : winv w -> ro c -> (f = FNone \/ (exists v, f = FNewView v)) ->
  keeps w (o <~ c ;; retM (o, f)).
Proof.
  intros Hw Hc Hf. unfold keeps. eapply pM_bind; [apply Hc|]. cbv beta. intros o s1 E. apply pM_ret. cbn [snd].
  destruct Hf as [->|(v & ->)]; unfold winv, apply_effect; cbn [wst wstrs]; eapply linv_ro; eassumption.
Qed.
Lemma keeps_bad w : winv w -> keeps w (retM (OutBad, FNone)).
Proof. intros Hw. unfold keeps. apply pM_ret. unfold winv, apply_effect. cbn [snd wst wstrs]. exact Hw. Qed.

Lemma keeps_new w (c : M str) : winv w ->
  (forall s, pM c s (fun r s' => sbuf r = Some (snext s) /\ exists n, eff s s' 1 [EAlloc (snext s) n])) ->
  keeps w (s <~ c ;; retM (OutUnit, FNewStr s)).
Proof.
  intros Hw Hc. unfold keeps. eapply pM_bind; [apply Hc|]. cbv beta. intros r s1 (Hr & n & E). apply pM_ret.
  unfold winv, apply_effect. cbn [snd wst wstrs]. eapply linv_new; eassumption.
Qed.
Lemma keeps_replace w k x (c : M str) : winv w -> get_str w k = Some x ->
  (forall s, pM c s (alloc1 s (sbuf x))) ->
  keeps w (r <~ c ;; retM (OutUnit, FSetStr k (Some r))).
Proof.
  intros Hw Hk Hc. unfold keeps. eapply pM_bind; [apply Hc|]. cbv beta. intros r s1 (Hr & n & E). apply pM_ret.
  unfold winv, apply_effect. cbn [snd wst wstrs]. eapply linv_replace; try eassumption. apply get_str_nth. exact Hk.
Qed.
Lemma keeps_plus w (c : M str) : winv w -> (forall s, pM c s (alloc2 s)) ->
  keeps w (r <~ c ;; retM (OutUnit, FNewStr r)).
Proof.
  intros Hw Hc. unfold keeps. eapply pM_bind; [apply Hc|]. cbv beta. intros r s1 (Hr & n1 & n2 & E). apply pM_ret.
  unfold winv, apply_effect. cbn [snd wst wstrs]. eapply linv_plus; eassumption.
Qed.
Lemma keeps_release w k x y : winv w -> get_str w k = Some x -> own1 y = [] ->
  keeps w (_ <~ s_destroy x ;; retM (OutUnit, FSetStr k y)).
Proof.
  intros Hw Hk Hy. unfold keeps. eapply pM_bind; [apply p_destroy|]. cbv beta. intros u s1 E. apply pM_ret.
  unfold winv, apply_effect. cbn [snd wst wstrs]. eapply linv_release; try eassumption. apply get_str_nth. exact Hk.
Qed.

(* a view expression evaluated first (read-only), then a state-changing continuation *)
Lemma pM_after_ro {A C} (c : M A) (f : A -> M C) s (Q : st -> C -> st -> Prop) : ro c ->
  (forall a s1, snext s1 = snext s -> sevs s1 = sevs s -> pM (f a) s1 (Q s1)) ->
  (forall s1 r s', snext s1 = snext s -> sevs s1 = sevs s -> Q s1 r s' -> Q s r s') ->
  pM (bindM c f) s (Q s).
Proof.
  intros Hc Hf HQ. eapply pM_bind; [apply Hc|]. cbv beta. intros a s1 [E1 E2]. rewrite app_nil_r in E2. simpl in E1.
  eapply pM_weaken; [apply Hf; assumption|]. intros r s' H. eapply HQ; eassumption.
Qed.
Lemma eff_rebase s s1 s' k e : snext s1 = snext s -> sevs s1 = sevs s -> eff s1 s' k e -> eff s s' k e.
Proof. intros A B [C D]. split; congruence. Qed.

Lemma ro_with_view w e f : (forall v, ro (f v)) -> ro (with_view w e f).
Proof. intros Hf. unfold with_view. destruct (eval_vexp w e); [|apply ro_ret]. apply ro_bind; [apply ro_liftR|exact Hf]. Qed.
Lemma ro_with_ptr w b off f : (forall p, ro (f p)) -> ro (with_ptr w b off f).
Proof. intros Hf. unfold with_ptr. destruct (buf_ptr w b off); [apply Hf|apply ro_ret]. Qed.
Lemma ro_lift_out {A} (c : mem -> R A) (f : A -> out) : ro (lift_out c f).
Proof. unfold lift_out. apply ro_bind; [apply ro_liftR|intros; apply ro_ret]. Qed.

Lemma p_copy x s : pM (s_copy x) s (fun r s' => sbuf r = Some (snext s) /\ exists n, eff s s' 1 [EAlloc (snext s) n]).
Proof. unfold s_copy. eapply pM_weaken; [apply p_from_ptr_len|]. intros r s' [A B]. split; [exact A|eexists; exact B]. Qed.
Lemma p_ptr_len p n s : pM (s_from_ptr_len p n) s (fun r s' => sbuf r = Some (snext s) /\ exists m, eff s s' 1 [EAlloc (snext s) m]).
Proof. eapply pM_weaken; [apply p_from_ptr_len|]. intros r s' [A B]. split; [exact A|eexists; exact B]. Qed.

(* operations whose first step evaluates a view expression *)
Lemma keeps_view_then w (c : mem -> R view) (g : view -> M str) (mk : str -> effect) (P : st -> str -> st -> Prop) :
  winv w ->
  (forall v s, pM (g v) s (P s)) ->
  (forall s1 r s', snext s1 = snext (wst w) -> sevs s1 = sevs (wst w) -> P s1 r s' -> winv (apply_effect w s' (mk r))) ->
  keeps w (va <~ liftR c ;; r <~ g va ;; retM (OutUnit, mk r)).
Proof.
  intros Hw Hg Hfin. unfold keeps. eapply pM_bind; [apply pM_liftR|]. cbv beta. intros v s1 [E1 E2].
  rewrite app_nil_r in E2. simpl in E1.
  eapply pM_bind; [apply Hg|]. cbv beta. intros r s2 HP. apply pM_ret. cbn [snd]. eapply Hfin; eassumption.
Qed.

Lemma cnt_swap strs a b sa sb : nth_error strs a = Some (Some sa) -> nth_error strs b = Some (Some sb) ->
  forall b0, cnt (owned (set_nth (set_nth strs a (Some sb)) b (Some sa))) b0 = cnt (owned strs) b0.
Proof.
  intros Ha Hb b0.
  assert (Hla : (a < length strs)%nat) by (apply nth_error_Some; congruence).
  assert (Hb1 : nth_error (set_nth strs a (Some sb)) b = Some (Some sb)).
  { rewrite nth_error_set_nth by exact Hla. destruct (Nat.eqb a b); [reflexivity|exact Hb]. }
  pose proof (cnt_set_nth strs a (Some sa) (Some sb) b0 Ha) as H1.
  pose proof (cnt_set_nth _ b (Some sb) (Some sa) b0 Hb1) as H2. lia.
Qed.

(* a temporary: allocated and freed again, the tables unchanged *)
Lemma linv_tmp s s' strs n : linv s strs -> eff s s' 1 [EAlloc (snext s) n; EFree (snext s)] -> linv s' strs.
Proof.
  intros [A B C D] [E1 E2].
  assert (Hz : cnt (owned strs) (snext s) = 0%nat).
  { destruct (cnt (owned strs) (snext s)) eqn:E; [reflexivity|]. assert (H : (cnt (owned strs) (snext s) > 0)%nat) by lia. apply B in H. lia. }
  split; [lia| |exact C|].
  - intros b H. apply B in H. lia.
  - rewrite E2. change [EAlloc (snext s) n; EFree (snext s)] with ([EAlloc (snext s) n] ++ [EFree (snext s)]). rewrite app_assoc.
    pose proof (logst_alloc _ _ (snext s) n D Hz ltac:(lia)) as L1.
    assert (L2 := logst_free _ _ (snext s) L1). cbv beta in L2. rewrite Nat.eqb_refl in L2. specialize (L2 ltac:(lia)).
    eapply logst_ext; [|exact L2]. intros b. cbv beta. destruct (Nat.eqb_spec b (snext s)) as [->|]; [symmetry; exact Hz|reflexivity].
Qed.

Lemma do_op_keeps w o : winv w -> keeps w (do_op w o).
Proof.
  intros Hw. destruct o; cbn [do_op].
  - (* OBuf *) unfold keeps, pM. cbn [snd]. unfold winv, apply_effect. cbn [wst wstrs].
    eapply (linv_bump _ _ _ 1); [exact Hw|reflexivity|reflexivity].
  - apply keeps_ro; [exact Hw| |left; reflexivity]. apply ro_with_view; intros; apply ro_with_view; intros; apply ro_lift_out.
  - apply keeps_ro; [exact Hw| |left; reflexivity]. apply ro_with_view; intros; apply ro_lift_out.
  - apply keeps_ro; [exact Hw| |left; reflexivity]. apply ro_with_view; intros; apply ro_with_view; intros; apply ro_lift_out.
  - apply keeps_ro; [exact Hw| |left; reflexivity]. apply ro_with_view; intros; apply ro_lift_out.
  - (* OSub *) destruct (eval_vexp w a); [|apply keeps_bad; exact Hw].
    unfold keeps. eapply pM_bind; [apply pM_liftR|]. cbv beta. intros va s1 E1.
    eapply pM_bind; [apply pM_liftR|]. cbv beta. intros v s2 E2.
    unfold pM. cbn [snd]. unfold winv, apply_effect. cbn [wst wstrs].
    eapply linv_ro; [exact Hw|]. pose proof (eff_trans _ _ _ _ _ _ _ E1 E2) as E. exact E.
  - apply keeps_ro; [exact Hw| |left; reflexivity]. apply ro_with_view; intros; apply ro_with_view; intros; apply ro_lift_out.
  - apply keeps_ro; [exact Hw| |left; reflexivity]. apply ro_with_view; intros; apply ro_with_view; intros; apply ro_lift_out.
  - apply keeps_ro; [exact Hw| |left; reflexivity]. apply ro_with_view; intros; apply ro_lift_out.
  - apply keeps_ro; [exact Hw| |left; reflexivity]. apply ro_with_view; intros; apply ro_lift_out.
  - apply keeps_ro; [exact Hw| |left; reflexivity]. apply ro_with_ptr; intros; apply ro_lift_out.
  - apply keeps_ro; [exact Hw| |left; reflexivity]. apply ro_with_ptr; intros; apply ro_lift_out.
  - (* OSNew *) unfold keeps, pM, s_default, bindM, retM. cbn [snd]. unfold winv, apply_effect. cbn [wst wstrs].
    apply linv_app_nil; [reflexivity|exact Hw].
  - destruct (buf_ptr w b off); [|apply keeps_bad; exact Hw]. apply keeps_new; [exact Hw|]. intros s. apply p_from_cstr.
  - destruct (buf_ptr w b off); [|apply keeps_bad; exact Hw]. apply keeps_new; [exact Hw|]. intros s. apply p_ptr_len.
  - (* OSView *) destruct (eval_vexp w a); [|apply keeps_bad; exact Hw].
    apply (keeps_view_then w r s_from_view FNewStr (fun s r s' => sbuf r = Some (snext s) /\ exists n, eff s s' 1 [EAlloc (snext s) n])); [exact Hw| |].
    + intros v s. apply p_ptr_len.
    + intros s1 r0 s' A B (Hr & n & E). unfold winv, apply_effect. cbn [wst wstrs]. rewrite A in *.
      eapply linv_new; [exact Hw|exact Hr|]. eapply eff_rebase; [| |exact E]; [|exact B]. exact A.
  - apply keeps_new; [exact Hw|]. intros s. apply p_fill.
  - destruct (get_str w k); [|apply keeps_bad; exact Hw]. apply keeps_new; [exact Hw|]. intros s0. apply p_copy.
  - (* OSAssign *) destruct (get_str w d) as [sd|] eqn:Ed; [|apply keeps_bad; exact Hw].
    destruct (get_str w s) as [ss|]; [|apply keeps_bad; exact Hw].
    eapply keeps_replace; [exact Hw|exact Ed|]. intros s0. apply p_assign.
  - destruct (get_str w k) as [x|] eqn:Ek; [|apply keeps_bad; exact Hw].
    eapply keeps_replace; [exact Hw|exact Ek|]. intros s0. apply p_resize.
  - (* OSPlusV *) destruct (get_str w k) as [x|] eqn:Ek; [|apply keeps_bad; exact Hw].
    destruct (eval_vexp w a); [|apply keeps_bad; exact Hw].
    apply (keeps_view_then w r (s_plus_view x) FNewStr alloc2); [exact Hw| |].
    + intros v s. apply p_plus. apply ro_tail_view.
    + intros s1 r0 s' A B (Hr & n1 & n2 & E). unfold winv, apply_effect. cbn [wst wstrs]. rewrite A in *.
      eapply linv_plus; [exact Hw|exact Hr|]. eapply eff_rebase; [| |exact E]; [|exact B]. exact A.
  - destruct (get_str w k) as [x|] eqn:Ek; [|apply keeps_bad; exact Hw].
    apply keeps_plus; [exact Hw|]. intros s. apply p_plus. apply ro_tail_char.
  - (* OSAppV *) destruct (get_str w k) as [x|] eqn:Ek; [|apply keeps_bad; exact Hw].
    destruct (eval_vexp w a); [|apply keeps_bad; exact Hw].
    apply (keeps_view_then w r (s_append_view x) (fun r => FSetStr k (Some r)) (fun s => alloc1 s (sbuf x))); [exact Hw| |].
    + intros v s. apply p_append. apply ro_tail_view.
    + intros s1 r0 s' A B (Hr & n & E). unfold winv, apply_effect. cbn [wst wstrs]. rewrite A in *.
      eapply linv_replace; [exact Hw|apply get_str_nth; exact Ek|exact Hr|]. eapply eff_rebase; [| |exact E]; [|exact B]. exact A.
  - destruct (get_str w k) as [x|] eqn:Ek; [|apply keeps_bad; exact Hw].
    eapply keeps_replace; [exact Hw|exact Ek|]. intros s0. apply p_append. apply ro_tail_char.
  - destruct (get_str w k) as [x|] eqn:Ek; [|apply keeps_bad; exact Hw].
    eapply keeps_replace; [exact Hw|exact Ek|]. intros s0. apply p_append. apply ro_tail_char.
  - (* OSCmp *) destruct (get_str w a); [|apply keeps_bad; exact Hw]. destruct (get_str w b); [|apply keeps_bad; exact Hw].
    unfold keeps. eapply pM_bind; [apply pM_liftR|]. cbv beta. intros z s1 E. apply pM_ret.
    unfold winv, apply_effect. cbn [snd wst wstrs]. eapply linv_ro; eassumption.
  - destruct (get_str w a); [|apply keeps_bad; exact Hw]. destruct (buf_ptr w b off); [|apply keeps_bad; exact Hw].
    unfold keeps. eapply pM_bind; [apply pM_liftR|]. cbv beta. intros z s1 E. apply pM_ret.
    unfold winv, apply_effect. cbn [snd wst wstrs]. eapply linv_ro; eassumption.
  - destruct (get_str w k); [|apply keeps_bad; exact Hw]. destruct (eval_vexp w a); [|apply keeps_bad; exact Hw].
    unfold keeps. eapply pM_bind; [apply pM_liftR|]. cbv beta. intros va s1 E1.
    eapply pM_bind; [apply pM_liftR|]. cbv beta. intros z s2 E2. apply pM_ret.
    unfold winv, apply_effect. cbn [snd wst wstrs]. eapply linv_ro; [exact Hw|]. exact (eff_trans _ _ _ _ _ _ _ E1 E2).
  - destruct (get_str w k); [|apply keeps_bad; exact Hw]. destruct (eval_vexp w a); [|apply keeps_bad; exact Hw].
    unfold keeps. eapply pM_bind; [apply pM_liftR|]. cbv beta. intros va s1 E1.
    eapply pM_bind; [apply pM_liftR|]. cbv beta. intros z s2 E2. apply pM_ret.
    unfold winv, apply_effect. cbn [snd wst wstrs]. eapply linv_ro; [exact Hw|]. exact (eff_trans _ _ _ _ _ _ _ E1 E2).
  - destruct (get_str w k); [|apply keeps_bad; exact Hw].
    unfold keeps. eapply pM_bind; [apply pM_liftR|]. cbv beta. intros z s1 E. apply pM_ret.
    unfold winv, apply_effect. cbn [snd wst wstrs]. eapply linv_ro; eassumption.
  - (* OSDetach *) destruct (get_str w k) as [x|] eqn:Ek; [|apply keeps_bad; exact Hw].
    eapply keeps_release; [exact Hw|exact Ek|reflexivity].
  - (* OSSwap *) destruct (get_str w a) as [sa|] eqn:Ea; [|apply keeps_bad; exact Hw].
    destruct (get_str w b) as [sb|] eqn:Eb; [|apply keeps_bad; exact Hw].
    unfold keeps. apply pM_ret. unfold winv, apply_effect. cbn [snd wst wstrs].
    eapply linv_cnt_ext; [|exact Hw]. apply cnt_swap; apply get_str_nth; assumption.
  - (* OSDel *) destruct (get_str w k) as [x|] eqn:Ek; [|apply keeps_bad; exact Hw].
    eapply keeps_release; [exact Hw|exact Ek|reflexivity].
  - (* OSMoveCtor: a copy *) destruct (get_str w k) as [x|] eqn:Ek; [|apply keeps_bad; exact Hw].
    unfold keeps. eapply pM_bind; [apply p_copy|]. cbv beta. intros r s1 (Hr & n & E).
    unfold retO, pM. cbn [snd]. unfold winv, apply_effect. cbn [wst wstrs]. eapply linv_new; eassumption.
  - (* OSMoveAssign: operator= on a copy *) destruct (get_str w d) as [sd|] eqn:Ed; [|apply keeps_bad; exact Hw].
    destruct (get_str w s) as [ss|]; [|apply keeps_bad; exact Hw].
    unfold keeps. eapply pM_bind; [apply p_assign|]. cbv beta. intros r s1 (Hr & n & E).
    unfold retO, pM. cbn [snd]. unfold winv, apply_effect. cbn [wst wstrs].
    eapply linv_replace; try eassumption. apply get_str_nth. exact Ed.
  - (* OSByVal: a temporary copy *) destruct (get_str w k) as [x|] eqn:Ek; [|apply keeps_bad; exact Hw].
    unfold keeps. eapply pM_bind; [apply p_copy|]. cbv beta. intros r s1 (Hr & n & E1).
    eapply pM_bind; [apply p_destroy|]. cbv beta. intros u s2 E2. apply pM_ret. cbn [snd].
    unfold winv, apply_effect. cbn [wst wstrs]. rewrite Hr in E2. cbn [free_evs] in E2.
    eapply linv_tmp; [exact Hw|]. exact (eff_trans _ _ _ _ _ _ _ E1 E2).
  - (* OTraits *) unfold keeps. apply pM_ret. unfold winv, apply_effect. cbn [snd wst wstrs]. exact Hw.
Qed.

(* ---- whole scripts *)
Fixpoint run_ops (w : world) (ops : list op) : option world :=
  match ops with
  | [] => Some w
  | o :: r => match step w o with (Ok _, w') => run_ops w' r | _ => None end
  end.

Lemma step_winv w o x w' : winv w -> step w o = (Ok x, w') -> winv w'.
Proof.
  intros Hw. unfold step. pose proof (do_op_keeps w o Hw) as K. unfold keeps, pM in K.
  destruct (do_op w o (wst w)) as [[[r f]|?|?|] s2]; intros H; try discriminate.
  injection H as _ <-. exact K.
Qed.
Lemma run_ops_winv ops : forall w w', winv w -> run_ops w ops = Some w' -> winv w'.
Proof.
  induction ops as [|o ops IH]; intros w w' Hw H; simpl in H; [injection H as <-; exact Hw|].
  destruct (step w o) as [[x|?|?|] w1] eqn:E; try discriminate.
  eapply IH; [|exact H]. eapply step_winv; eassumption.
Qed.
Lemma winv0 ct : winv (world0 ct).
Proof.
  unfold winv, world0, st0. cbn [wst wstrs]. split; cbn [snext sevs owned flat_map].
  - lia. - intros b H. unfold cnt in H. simpl in H. lia. - intros b. unfold cnt. simpl. lia.
  - exists ls0. split; [reflexivity|]. split; [reflexivity|]. intros b. reflexivity.
Qed.

Lemma p_destroy_all strs s : pM (destroy_all strs) s (fun _ s' => eff s s' 0 (map EFree (owned strs))).
Proof.
  revert s; induction strs as [|[x|] strs IH]; intros s; cbn [destroy_all].
  - apply pM_ret. apply eff_refl.
  - eapply pM_bind; [apply p_destroy|]. cbv beta. intros u s1 E1.
    eapply pM_weaken; [apply IH|]. intros u2 s2 E2. pose proof (eff_trans _ _ _ _ _ _ _ E1 E2) as E.
    rewrite owned_cons, map_app. cbn [own1]. destruct (sbuf x); exact E.
  - apply IH.
Qed.

Lemma logst_free_all bs : forall evs c, logst evs c -> (forall b, c b = cnt bs b) -> (forall b, (cnt bs b <= 1)%nat) ->
  logst (evs ++ map EFree bs) (fun _ => 0%nat).
Proof.
  induction bs as [|b0 bs IH]; intros evs c L Hc Hn; cbn [map].
  - rewrite app_nil_r. eapply logst_ext; [|exact L]. intros b. rewrite Hc. reflexivity.
  - change (EFree b0 :: map EFree bs) with ([EFree b0] ++ map EFree bs). rewrite app_assoc.
    assert (H0 : cnt (b0 :: bs) b0 = S (cnt bs b0)).
    { unfold cnt. simpl. destruct (Nat.eq_dec b0 b0); [reflexivity|contradiction]. }
    assert (Hne : forall b, b <> b0 -> cnt (b0 :: bs) b = cnt bs b).
    { intros b Hb. unfold cnt. simpl. destruct (Nat.eq_dec b0 b); [congruence|reflexivity]. }
    eapply IH.
    + apply (logst_free _ _ b0 L). rewrite Hc, H0. lia.
    + intros b. cbv beta. destruct (Nat.eqb_spec b b0) as [->|E].
      * specialize (Hn b0). rewrite H0 in Hn. lia.
      * rewrite Hc. apply Hne. exact E.
    + intros b. destruct (Nat.eq_dec b b0) as [->|E]; [specialize (Hn b0); rewrite H0 in Hn; lia|].
      rewrite <- (Hne b E). apply Hn.
Qed.
Lemma logst_zero_closed evs : logst evs (fun _ => 0%nat) -> wf_closed evs = true.
Proof.
  intros (ls & Hr & Hl & Hc). unfold wf_closed. rewrite Hr, Hl.
  destruct (blocks ls) as [|[b n] l] eqn:E; [reflexivity|].
  specialize (Hc b). unfold cnt in Hc. simpl in Hc. destruct (Nat.eq_dec b b); [discriminate|contradiction].
Qed.

(* C16 for basic_string: any script (any operands, aliasing included) that runs without UB / assertion stop,
   followed by the destruction of every live string, leaves a well-formed and closed allocation log *)
Lemma str_log_wf_closed (ct : cty) (ops : list op) (w : world) (evs : list ev) (s' : st) :
  run_ops (world0 ct) ops = Some w -> finish w = (Ok evs, s') -> wf_closed (sevs s') = true.
Proof.
  intros Hrun Hfin. pose proof (run_ops_winv ops (world0 ct) w (winv0 ct) Hrun) as [A B C D].
  unfold finish in Hfin. pose proof (p_destroy_all (wstrs w) (wst w)) as P. unfold pM in P.
  destruct (destroy_all (wstrs w) (wst w)) as [[u|?|?|] s2]; try discriminate.
  injection Hfin as _ <-. destruct P as [_ E]. rewrite E.
  apply logst_zero_closed. eapply logst_free_all; [exact D|reflexivity|exact C].
Qed.

(* the destructor pass itself cannot fail on a state reached by a script: every owned buffer is allocated.
   (stated on the log: each EFree finds its block) -- and the log of every PREFIX is well-formed *)
Lemma str_log_wf_prefix (ct : cty) (ops : list op) (w : world) :
  run_ops (world0 ct) ops = Some w -> wf_log (sevs (wst w)) = true.
Proof.
  intros Hrun. pose proof (run_ops_winv ops (world0 ct) w (winv0 ct) Hrun) as [A B C (ls & Hr & _)].
  unfold wf_log. rewrite Hr. reflexivity.
Qed.
